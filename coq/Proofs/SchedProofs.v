(** * Proofs/SchedProofs.v — HeapScheduler / ListScheduler against the reference scheduler. *)
From Coq Require Import List Arith Bool NArith Lia.
Require Import JF.Model.Heap JF.Model.Sched JF.Proofs.HeapProofs.
Import ListNotations.

Section SchedProofs.
  Variable K : Type.
  Variable ltb : K -> K -> bool.
  Variable bot : K.
  Variable kinf : K.
  Variable good : K -> Prop.

  Hypothesis ltb_asym : forall a b, good a -> good b -> ltb a b = true -> ltb b a = false.
  Hypothesis le_trans_hyp : forall a b c, good a -> good b -> good c ->
      ltb b a = false -> ltb c b = false -> ltb c a = false.
  Hypothesis bot_least : forall k, ltb k bot = false.
  Hypothesis bot_good : good bot.
  Hypothesis kinf_good : good kinf.

  Notation entry := (entry K).
  Notation heap := (heap K).
  Notation hsched := (hsched K).
  Notation lsched := (lsched K).
  Notation rsched := (rsched K).
  Notation heap_inv := (heap_inv K ltb bot good).
  Notation In_heap := (In_heap K).
  Notation le := (le K ltb).
  Notation hs_step := (hs_step K ltb bot kinf).
  Notation hs_run := (hs_run K ltb bot kinf).
  Notation hs_push := (hs_push K ltb bot kinf).
  Notation hs_get := (hs_get K ltb bot).
  Notation hs_pickle := (hs_pickle K ltb bot).
  Notation ls_step := (ls_step K ltb).
  Notation ls_run := (ls_run K ltb).
  Notation rs_step := (rs_step K ltb).
  Notation rs_run := (rs_run K ltb).
  Notation list_min := (list_min K ltb).
  Notation rebuild := (rebuild K ltb bot).
  Notation getstate_loop := (getstate_loop K bot).

  Let le_trans := le_trans K ltb good le_trans_hyp.
  Let lt_le := lt_le K ltb good ltb_asym.
  Let le_refl := le_refl K ltb good ltb_asym.
  Let lt_le_trans := lt_le_trans K ltb good le_trans_hyp.

  Definition finite (t : K) : Prop := ltb t kinf = true.
  (** equivalent keys: neither is smaller (for floats: numerically equal times) *)
  Definition keq (a b : K) : Prop := ltb a b = false /\ ltb b a = false.

  Lemma keq_refl : forall a, good a -> keq a a.
  Proof. intros a Ha; split; apply le_refl; auto. Qed.

  Lemma ltb_congr : forall a a' b b', good a -> good a' -> good b -> good b' ->
    keq a a' -> keq b b' -> ltb a b = ltb a' b'.
  Proof.
    intros a a' b b' Ha Ha' Hb Hb' (A1 & A2) (B1 & B2).
    destruct (ltb a b) eqn:E1; destruct (ltb a' b') eqn:E2; auto.
    - (* a < b, b' <= a' *)
      assert (ltb a b' = true) by (apply (lt_le_trans a b b'); auto).
      assert (ltb a a' = true) by (apply (lt_le_trans a b' a'); auto).
      congruence.
    - assert (ltb a' b = true) by (apply (lt_le_trans a' b' b); auto).
      assert (ltb a' a = true) by (apply (lt_le_trans a' b a); auto).
      congruence.
  Qed.

  (** ** entries in a heap satisfying the invariant *)
  Lemma In_heap_ok : forall h e, heap_inv h -> In_heap h e -> good (ekey e) /\ ehd e <> None.
  Proof.
    intros h e (_ & [(H0 & _)|(H1 & H2 & H3 & H4 & H5)]) (i & Hi & Hge); [lia|].
    destruct (H4 i Hi) as (e' & He' & Hg & Hhd). rewrite Hge in He'. inversion He'; subst; auto.
  Qed.

  Lemma entry_eta : forall (e : entry) hd, ehd e = Some hd -> mkE (ekey e) (Some hd) (ectr e) = e.
  Proof. intros [k h c] hd H; cbn in *; subst; reflexivity. Qed.

  (** ** pickling, set level *)
  Definition entry_ok (e : entry) : Prop := ehd e <> None /\ good (ekey e).

  Lemma getstate_spec : forall h, heap_inv h -> forall fuel index, hlen h <= fuel + index -> 1 <= fuel ->
    exists l, getstate_loop fuel h index = Some l /\ Forall entry_ok l /\
      forall j, nth_error l j =
                if index + 1 + j <? hlen h then cget (entries h) (index + 1 + j) else None.
  Proof.
    intros h Hinv. induction fuel as [|f IH]; intros index Hf H1; [lia|].
    cbn [Sched.getstate_loop].
    destruct (entry_at_spec K ltb bot good h index Hinv) as [(L & e & He & Hge & Hhd & Hg)|(L & He)].
    - rewrite He. cbn [obind]. destruct (ehd e) eqn:Ehd; [|congruence].
      destruct (IH (S index) ltac:(lia) ltac:(lia)) as (rest & Hrun & Hall & Hnth).
      rewrite Hrun. cbn [obind]. exists (e :: rest). split; [reflexivity|].
      split; [constructor; auto; split; auto; congruence|].
      intros [|j].
      + cbn [nth_error]. rewrite Nat.add_0_r. destruct (Nat.ltb_spec (index + 1) (hlen h)); [auto|lia].
      + cbn [nth_error]. rewrite Hnth. replace (S index + 1 + j) with (index + 1 + S j) by lia. reflexivity.
    - rewrite He. cbn [obind]. cbn [ehd sentinel]. exists []. split; [reflexivity|]. split; [constructor|].
      intros j. destruct (Nat.ltb_spec (index + 1 + j) (hlen h)); [lia|]. destruct j; reflexivity.
  Qed.

  Lemma getstate_In : forall h, heap_inv h ->
    exists l, getstate_loop (S (hlen h)) h 0 = Some l /\ Forall entry_ok l /\
      (forall e, In e l <-> In_heap h e).
  Proof.
    intros h Hinv. destruct (getstate_spec h Hinv (S (hlen h)) 0 ltac:(lia) ltac:(lia)) as (l & Hrun & Hall & Hnth).
    exists l. split; [exact Hrun|]. split; [exact Hall|].
    intros e. split.
    - intros Hin. apply In_nth_error in Hin. destruct Hin as (j & Hj). rewrite Hnth in Hj.
      destruct (Nat.ltb_spec (0 + 1 + j) (hlen h)); [|discriminate].
      exists (0 + 1 + j). split; [lia|exact Hj].
    - intros (i & Hi & Hge). apply nth_error_In with (n := i - 1). rewrite Hnth.
      replace (0 + 1 + (i - 1)) with i by lia. destruct (Nat.ltb_spec i (hlen h)); [exact Hge|lia].
  Qed.

  Lemma rebuild_In : forall l h, heap_inv h -> Forall entry_ok l ->
    exists h', rebuild h l = Some h' /\ heap_inv h' /\ (forall e, In_heap h' e <-> In e l \/ In_heap h e).
  Proof.
    induction l as [|e r IH]; intros h Hinv Hall.
    - exists h. split; [reflexivity|]. split; [exact Hinv|]. intros e; cbn; tauto.
    - inversion Hall as [|? ? (Hhd & Hg) Hall']; subst. cbn [Sched.rebuild].
      destruct (ehd e) as [hd|] eqn:Ehd; [|congruence].
      destruct (insert_spec K ltb bot good ltb_asym le_trans_hyp bot_least bot_good h (ekey e) hd (ectr e) Hinv Hg)
        as (h1 & Hins & Hinv1 & Hmem1 & _).
      rewrite Hins. cbn [obind].
      destruct (IH h1 Hinv1 Hall') as (h' & Hrun & Hinv' & Hmem').
      exists h'. split; [exact Hrun|]. split; [exact Hinv'|].
      intros x. rewrite Hmem', Hmem1. rewrite (entry_eta e hd Ehd). cbn [In]. split.
      + intros [H|[H|H]]; auto.
      + intros [[H|H]|H]; auto.
  Qed.

  (** ** The abstraction relation between a HeapScheduler state and the list of live events *)
  Definition all_good (l : list (K * N)) : Prop := forall x, In x l -> good (fst x).

  Record R (s : hsched) (l : list (K * N)) : Prop := {
    r_inv : heap_inv (hs_heap s);
    r_ctr : forall e hd, In_heap (hs_heap s) e -> ehd e = Some hd ->
            (ectr e <= hs_mvc s hd)%N /\ (ectr e < two32)%N /\ finite (ekey e);
    r_live : forall t hd, (In (t, hd) l /\ finite t) <->
             exists c, In_heap (hs_heap s) (mkE t (Some hd) c) /\ (hs_mvc s hd <= c)%N;
    r_alloc : hs_alloc s = heap_bytes (hs_heap s);
    r_good : all_good l
  }.

  Lemma R_init : R (hs_init K bot) [].
  Proof.
    constructor; cbn.
    - apply empty_heap_inv.
    - intros e hd (i & Hi & _). cbn in Hi. lia.
    - intros t hd. split; [intros ([] & _)|intros (c & (i & Hi & _) & _); cbn in Hi; lia].
    - reflexivity.
    - intros x [].
  Qed.

  Lemma heap_bytes_mono : forall h h' : heap, hsize h <= hsize h' -> (heap_bytes h <= heap_bytes h')%N.
  Proof. intros h h' H. unfold heap_bytes. apply N.mul_le_mono_r. lia. Qed.

  (** *** push *)
  Lemma push_alloc : forall (h h' : heap) mvc' last alloc, alloc = heap_bytes h -> hsize h <= hsize h' ->
    exists a', (if N.eqb (heap_bytes h') alloc then Some (mkHS h' mvc' last alloc, @ONone K)
                else if N.ltb alloc (heap_bytes h') then Some (mkHS h' mvc' last (heap_bytes h'), ONone)
                else Some (mkHS h' mvc' last alloc, OExc ExMemory)) = Some (mkHS h' mvc' last a', ONone) /\
               a' = heap_bytes h'.
  Proof.
    intros h h' mvc' last alloc Ha Hs. pose proof (heap_bytes_mono h h' Hs) as Hm.
    destruct (N.eqb_spec (heap_bytes h') alloc) as [E|E].
    - exists alloc. split; [reflexivity|congruence].
    - destruct (N.ltb_spec alloc (heap_bytes h')) as [L|L].
      + exists (heap_bytes h'). split; reflexivity.
      + exfalso. lia.
  Qed.

  Lemma R_push : forall s l t hd, R s l -> good t ->
    exists s', hs_push s t hd = Some (s', ONone) /\ R s' (l ++ [(t, hd)]) /\ hs_last s' = hs_last s.
  Proof.
    intros s l t hd HR Ht. unfold Sched.hs_push.
    assert (Hgood' : all_good (l ++ [(t, hd)])).
    { intros x Hx. apply in_app_or in Hx. destruct Hx as [Hx|[<-|[]]]; [apply (r_good _ _ HR); auto|exact Ht]. }
    destruct (ltb t kinf) eqn:Efin.
    2:{ exists s. split; [reflexivity|]. split; [|reflexivity].
        constructor; try apply HR; auto.
        intros t' hd'. rewrite <- (r_live _ _ HR). rewrite in_app_iff. cbn [In]. split.
        - intros ([H|[H|[]]] & Hf); [auto|]. inversion H; subst. unfold finite in Hf. congruence.
        - intros (H & Hf); auto. }
    destruct (N.ltb_spec (hs_mvc s hd) two32) as [Lc|Lc].
    - (* ordinary insertion *)
      destruct (insert_spec K ltb bot good ltb_asym le_trans_hyp bot_least bot_good
                  (hs_heap s) t hd (hs_mvc s hd) (r_inv _ _ HR) Ht)
        as (h' & Hins & Hinv' & Hmem' & Hsz' & _).
      rewrite Hins. cbn [obind]. cbv beta iota zeta.
      destruct (push_alloc (hs_heap s) h' (hs_mvc s) (hs_last s) (hs_alloc s) (r_alloc _ _ HR) Hsz')
        as (a' & Hal & Ha').
      rewrite Hal. eexists. split; [reflexivity|]. split; [|reflexivity].
      constructor; cbn [hs_heap hs_mvc hs_alloc hs_last]; auto.
      + intros e hd' He Hhd'. apply Hmem' in He. destruct He as [->|He].
        * cbn in Hhd'. inversion Hhd'; subst hd'. cbn [ectr ekey]. repeat split; auto. lia.
        * apply (r_ctr _ _ HR); auto.
      + intros t' hd'. rewrite in_app_iff. cbn [In]. split.
        * intros ([H|[H|[]]] & Hf).
          -- destruct (proj1 (r_live _ _ HR t' hd') (conj H Hf)) as (c & Hc & Hle).
             exists c. split; [apply Hmem'; auto|exact Hle].
          -- inversion H; subst t' hd'. exists (hs_mvc s hd). split; [apply Hmem'; auto|lia].
        * intros (c & Hc & Hle). apply Hmem' in Hc. destruct Hc as [Hc|Hc].
          -- inversion Hc; subst t' hd' c. split; auto.
          -- destruct (proj2 (r_live _ _ HR t' hd') (ex_intro _ c (conj Hc Hle))) as (H & Hf). auto.
    - (* OverflowError: delete_events, counter reset, insertion with counter 0 *)
      destruct (delete_events_spec K ltb bot good ltb_asym le_trans_hyp bot_least
                  (hs_heap s) hd (r_inv _ _ HR))
        as (h1 & Hdel & Hinv1 & Hsz1 & Hmem1).
      rewrite Hdel. cbn [obind].
      destruct (insert_spec K ltb bot good ltb_asym le_trans_hyp bot_least bot_good h1 t hd 0%N Hinv1 Ht)
        as (h' & Hins & Hinv' & Hmem' & Hsz' & _).
      rewrite Hins. cbn [obind]. cbv beta iota zeta.
      destruct (push_alloc (hs_heap s) h' (mvc_set (hs_mvc s) hd 0%N) (hs_last s) (hs_alloc s)
                  (r_alloc _ _ HR) ltac:(lia))
        as (a' & Hal & Ha').
      rewrite Hal. eexists. split; [reflexivity|]. split; [|reflexivity].
      constructor; cbn [hs_heap hs_mvc hs_alloc hs_last]; auto.
      + intros e hd' He Hhd'. apply Hmem' in He. destruct He as [->|He].
        * cbn in Hhd'. inversion Hhd'; subst hd'. cbn [ectr ekey]. unfold mvc_set. rewrite N.eqb_refl.
          repeat split; auto; unfold two32; lia.
        * apply Hmem1 in He. destruct He as (He & Hne).
          unfold mvc_set. destruct (N.eqb_spec hd' hd) as [->|Hd]; [congruence|].
          apply (r_ctr _ _ HR); auto.
      + intros t' hd'. rewrite in_app_iff. cbn [In]. split.
        * intros ([H|[H|[]]] & Hf).
          -- destruct (proj1 (r_live _ _ HR t' hd') (conj H Hf)) as (c & Hc & Hle).
             destruct (r_ctr _ _ HR _ hd' Hc eq_refl) as (_ & Hc32 & _). cbn [ectr] in Hc32.
             assert (Hd : hd' <> hd) by (intros ->; lia).
             exists c. split.
             ++ apply Hmem'. right. apply Hmem1. split; [exact Hc|]. cbn. congruence.
             ++ unfold mvc_set. destruct (N.eqb_spec hd' hd); [contradiction|exact Hle].
          -- inversion H; subst t' hd'. exists 0%N. split; [apply Hmem'; auto|].
             unfold mvc_set. rewrite N.eqb_refl. lia.
        * intros (c & Hc & Hle). apply Hmem' in Hc. destruct Hc as [Hc|Hc].
          -- inversion Hc; subst t' hd' c. split; auto.
          -- apply Hmem1 in Hc. destruct Hc as (Hc & Hne). cbn [ehd] in Hne.
             unfold mvc_set in Hle. destruct (N.eqb_spec hd' hd) as [->|Hd]; [congruence|].
             destruct (proj2 (r_live _ _ HR t' hd') (ex_intro _ c (conj Hc Hle))) as (H & Hf). auto.
  Qed.

  (** *** trash / bump *)
  Lemma rs_trash_In : forall hd (l : list (K * N)) x, In x (rs_trash K hd l) <-> In x l /\ snd x <> hd.
  Proof.
    intros hd l x. unfold rs_trash. rewrite filter_In. split; intros (H1 & H2); split; auto.
    - intros E. rewrite E, N.eqb_refl in H2. discriminate.
    - destruct (N.eqb_spec (snd x) hd); [contradiction|reflexivity].
  Qed.

  Lemma R_bump : forall s l hd n, R s l -> (1 <= n)%N -> R (hs_bump K s hd n) (rs_trash K hd l).
  Proof.
    intros s l hd n HR Hn. unfold hs_bump.
    constructor; cbn [hs_heap hs_mvc hs_alloc hs_last]; try apply HR.
    - intros e hd' He Hhd'. destruct (r_ctr _ _ HR e hd' He Hhd') as (H1 & H2 & H3).
      repeat split; auto. unfold mvc_set. destruct (N.eqb_spec hd' hd) as [->|Hd]; lia.
    - intros t hd'. rewrite rs_trash_In. cbn [snd]. split.
      + intros ((Hin & Hne) & Hf). destruct (proj1 (r_live _ _ HR t hd') (conj Hin Hf)) as (c & Hc & Hle).
        exists c. split; [exact Hc|]. unfold mvc_set. destruct (N.eqb_spec hd' hd); [contradiction|exact Hle].
      + intros (c & Hc & Hle). unfold mvc_set in Hle.
        destruct (N.eqb_spec hd' hd) as [->|Hd].
        * destruct (r_ctr _ _ HR _ hd Hc eq_refl) as (H1 & _). cbn [ectr] in H1. lia.
        * destruct (proj2 (r_live _ _ HR t hd') (ex_intro _ c (conj Hc Hle))) as (H & Hf). auto.
    - intros x Hx. apply rs_trash_In in Hx. apply (r_good _ _ HR). tauto.
  Qed.

  Lemma R_bump0 : forall s l hd, R s l -> R (hs_bump K s hd 0%N) l.
  Proof.
    intros s l hd HR. unfold hs_bump.
    assert (E : forall x, mvc_set (hs_mvc s) hd (hs_mvc s hd + 0)%N x = hs_mvc s x).
    { intros x. unfold mvc_set. destruct (N.eqb_spec x hd) as [->|]; lia. }
    constructor; cbn [hs_heap hs_mvc hs_alloc hs_last]; try apply HR.
    - intros e hd' He Hhd'. rewrite E. apply (r_ctr _ _ HR); auto.
    - intros t hd'. rewrite (r_live _ _ HR). split; intros (c & Hc & Hle); exists c; rewrite E in *; auto.
  Qed.

  (** *** minimum of a list *)
  Lemma list_min_spec : forall l best, good (fst best) -> all_good l ->
    let m := list_min best l in
    (m = best \/ In m l) /\ le (fst m) (fst best) /\ (forall x, In x l -> le (fst m) (fst x)).
  Proof.
    induction l as [|x r IH]; intros best Hb Hg; cbn [Sched.list_min].
    - split; [auto|]. split; [apply le_refl; auto|]. intros x [].
    - assert (Hx : good (fst x)) by (apply Hg; left; reflexivity).
      assert (Hr : all_good r) by (intros y Hy; apply Hg; right; exact Hy).
      destruct (ltb (fst x) (fst best)) eqn:E.
      + destruct (IH x Hx Hr) as (H1 & H2 & H3). cbv zeta in *.
        assert (Hm : good (fst (list_min x r))).
        { destruct H1 as [->|H1]; [exact Hx|apply Hr; exact H1]. }
        split; [destruct H1 as [->|H1]; [right; left; reflexivity|right; right; exact H1]|].
        split.
        * apply le_trans with (b := fst x); auto.
        * intros y [<-|Hy]; auto.
      + destruct (IH best Hb Hr) as (H1 & H2 & H3). cbv zeta in *.
        assert (Hm : good (fst (list_min best r))).
        { destruct H1 as [->|H1]; [exact Hb|apply Hr; exact H1]. }
        split; [destruct H1 as [->|H1]; [left; reflexivity|right; right; exact H1]|].
        split; [exact H2|].
        intros y [<-|Hy]; auto.
        apply le_trans with (b := fst best); auto.
  Qed.

  Lemma rs_min_spec : forall x r, all_good (x :: r) ->
    let m := list_min x r in In m (x :: r) /\ forall y, In y (x :: r) -> le (fst m) (fst y).
  Proof.
    intros x r Hg. assert (Hx : good (fst x)) by (apply Hg; left; reflexivity).
    assert (Hr : all_good r) by (intros y Hy; apply Hg; right; exact Hy).
    destruct (list_min_spec r x Hx Hr) as (H1 & H2 & H3). cbv zeta in *.
    split; [destruct H1 as [->|H1]; [left; reflexivity|right; exact H1]|].
    intros y [<-|Hy]; auto.
  Qed.

  (** *** get *)
  Lemma hs_cb_live : forall m (e : entry) hd, ehd e = Some hd -> (hs_cb K m e = false <-> (m hd <= ectr e)%N).
  Proof.
    intros m e hd Hhd. unfold hs_cb. rewrite Hhd. destruct (N.ltb_spec (ectr e) (m hd)); split; intros; try lia; try discriminate; auto.
  Qed.

  (** What [get_succeeding_event] of the heap scheduler does in a state related to the live list [l]:
      - the relation is preserved (lazy deletion only removes dead entries);
      - either no finite live event exists and the scheduler error "empty" is raised,
      - or a minimal finite live event (t, hd) of [l] is found; it is returned unless its time is
        smaller than the last returned time (then the "decreasing" scheduler error is raised). *)
  Lemma R_get : forall s l, R s l ->
    exists s' out, hs_get s = Some (s', out) /\ R s' l /\
      (((forall x, In x l -> ~ finite (fst x)) /\ out = OExc ExEmpty /\ hs_last s' = hs_last s) \/
       (exists t hd, In (t, hd) l /\ finite t /\
          (forall x, In x l -> finite (fst x) -> le t (fst x)) /\
          ((ltb t (hs_last s) = true /\ out = OExc ExDecreasing /\ hs_last s' = hs_last s) \/
           (ltb t (hs_last s) = false /\ out = OGot hd t /\ hs_last s' = t)))).
  Proof.
    intros s l HR. unfold Sched.hs_get.
    destruct (root_spec K ltb bot good ltb_asym le_trans_hyp bot_least
                (hs_cb K (hs_mvc s)) (hs_heap s) (r_inv _ _ HR))
      as (h' & r & Hroot & Hinv' & Hsz' & Hsub & Hkeep & Hres).
    rewrite Hroot. cbn [obind].
    assert (HR' : forall last, R (mkHS h' (hs_mvc s) last (hs_alloc s)) l).
    { intros last. constructor; cbn [hs_heap hs_mvc hs_alloc hs_last].
      - exact Hinv'.
      - intros e hd He Hhd. apply (r_ctr _ _ HR); auto.
      - intros t hd. rewrite (r_live _ _ HR). split; intros (c & Hc & Hle); exists c; split; auto.
        apply Hkeep; auto. apply (hs_cb_live (hs_mvc s) (mkE t (Some hd) c) hd eq_refl). exact Hle.
      - rewrite (r_alloc _ _ HR). unfold heap_bytes. rewrite Hsz'. reflexivity.
      - apply HR. }
    destruct Hres as [(Hdead & ->)|(Hin & Hcb & Hhd & Hmin)].
    - cbn [ehd sentinel]. eexists _, _. split; [reflexivity|]. split; [apply HR'|]. left.
      split; [|split; reflexivity].
      intros [t hd] Hx Hf. cbn [fst] in Hf.
      destruct (proj1 (r_live _ _ HR t hd) (conj Hx Hf)) as (c & Hc & Hle).
      pose proof (Hdead _ Hc) as Hd. apply (hs_cb_live (hs_mvc s) (mkE t (Some hd) c) hd eq_refl) in Hle. congruence.
    - destruct (ehd r) as [hd|] eqn:Ehd; [|congruence].
      pose proof (entry_eta r hd Ehd) as Heta.
      assert (Hlive : (hs_mvc s hd <= ectr r)%N) by (apply (hs_cb_live _ _ hd Ehd); exact Hcb).
      assert (Hrl : In (ekey r, hd) l /\ finite (ekey r)).
      { apply (r_live _ _ HR). exists (ectr r). rewrite Heta. auto. }
      assert (Hminl : forall x, In x l -> finite (fst x) -> le (ekey r) (fst x)).
      { intros [t' hd'] Hx Hf. cbn [fst] in *.
        destruct (proj1 (r_live _ _ HR t' hd') (conj Hx Hf)) as (c & Hc & Hle).
        apply (Hmin _ Hc). apply (hs_cb_live (hs_mvc s) (mkE t' (Some hd') c) hd' eq_refl). exact Hle. }
      destruct (ltb (ekey r) (hs_last s)) eqn:Eg.
      + eexists _, _. split; [reflexivity|]. split; [apply HR'|]. right.
        exists (ekey r), hd. split; [apply Hrl|]. split; [apply Hrl|]. split; [exact Hminl|].
        left. auto.
      + eexists _, _. split; [reflexivity|]. split; [apply HR'|]. right.
        exists (ekey r), hd. split; [apply Hrl|]. split; [apply Hrl|]. split; [exact Hminl|].
        right. auto.
  Qed.

  (** *** pickle *)
  Lemma R_pickle : forall s l, R s l ->
    exists s', hs_pickle s = Some s' /\ R s' l /\ hs_last s' = hs_last s.
  Proof.
    intros s l HR. unfold Sched.hs_pickle, Sched.hs_getstate.
    destruct (getstate_In (hs_heap s) (r_inv _ _ HR)) as (es & Hget & Hall & Hmem).
    rewrite Hget. cbn [obind].
    destruct (rebuild_In es empty_heap (empty_heap_inv K ltb bot good) Hall) as (h' & Hreb & Hinv' & Hmem').
    rewrite Hreb. cbn [obind]. eexists. split; [reflexivity|]. split; [|reflexivity].
    assert (Heq : forall e, In_heap h' e <-> In_heap (hs_heap s) e).
    { intros e. rewrite Hmem', Hmem. split; [intros [H|(i & Hi & _)]; [exact H|cbn in Hi; lia]|auto]. }
    constructor; cbn [hs_heap hs_mvc hs_alloc hs_last].
    - exact Hinv'.
    - intros e hd He Hhd. apply Heq in He. apply (r_ctr _ _ HR); auto.
    - intros t hd. rewrite (r_live _ _ HR). split; intros (c & Hc & Hle); exists c; split; auto; apply Heq; auto.
    - reflexivity.
    - apply HR.
  Qed.

  (** ** Runs: all operation sequences *)
  Definition good_op (o : op K) : Prop := match o with OpPush t _ => good t | _ => True end.

  Lemma rs_run_cons : forall rs o r,
    rs_run rs (o :: r) =
    (fst (rs_run (fst (rs_step rs o)) r), snd (rs_step rs o) :: snd (rs_run (fst (rs_step rs o)) r)).
  Proof.
    intros rs o r. cbn [Sched.rs_run]. destruct (rs_step rs o) as [s' out]. cbn [fst snd].
    destruct (rs_run s' r) as [s'' outs]. reflexivity.
  Qed.

  Lemma ls_run_cons : forall ls o r,
    ls_run ls (o :: r) =
    (fst (ls_run (fst (ls_step ls o)) r), snd (ls_step ls o) :: snd (ls_run (fst (ls_step ls o)) r)).
  Proof.
    intros ls o r. cbn [Sched.ls_run]. destruct (ls_step ls o) as [s' out]. cbn [fst snd].
    destruct (ls_run s' r) as [s'' outs]. reflexivity.
  Qed.

  Lemma rs_get_live : forall rs, rs_live (fst (rs_step rs OpGet)) = rs_live rs.
  Proof.
    intros rs. cbn [Sched.rs_step]. destruct (rs_live rs) as [|x r] eqn:E; [cbn; auto|].
    destruct (guard K ltb (rs_last rs) (fst (list_min x r))); cbn; auto.
  Qed.

  Lemma R_step : forall s rs o, R s (rs_live rs) -> good_op o ->
    exists s' out, hs_step s o = Some (s', out) /\ R s' (rs_live (fst (rs_step rs o))).
  Proof.
    intros s rs o HR Hg. destruct o as [t hd|hd| | |hd n].
    - destruct (R_push s _ t hd HR Hg) as (s' & Hp & HR' & _). exists s', ONone. split; [exact Hp|exact HR'].
    - exists (hs_trash K s hd), ONone. split; [reflexivity|].
      apply (R_bump s _ hd 1%N HR). lia.
    - destruct (R_get s _ HR) as (s' & out & Hg' & HR' & _). exists s', out. split; [exact Hg'|].
      rewrite rs_get_live. exact HR'.
    - destruct (R_pickle s _ HR) as (s' & Hp & HR' & _). exists s', ONone.
      split; [cbn [Sched.hs_step]; rewrite Hp; reflexivity|exact HR'].
    - exists (hs_bump K s hd n), ONone. split; [reflexivity|]. cbn [Sched.rs_step fst rs_live].
      destruct (N.eqb_spec n 0) as [->|Hn].
      + apply R_bump0; auto.
      + apply R_bump; auto. lia.
  Qed.

  (** No operation sequence makes the model of the C heap touch memory outside its allocation (or an
      uninitialised cell), loop beyond its fuel, or raise MemoryError; the invariant and the relation
      to the reference scheduler's live list hold at the end. *)
  Theorem hs_run_safe : forall ops s rs, R s (rs_live rs) -> Forall good_op ops ->
    exists s' outs, hs_run s ops = Some (s', outs) /\ R s' (rs_live (fst (rs_run rs ops))) /\
                    length outs = length ops.
  Proof.
    induction ops as [|o r IH]; intros s rs HR Hall.
    - exists s, []. split; [reflexivity|]. split; [exact HR|reflexivity].
    - inversion Hall as [|? ? Ho Hr]; subst.
      destruct (R_step s rs o HR Ho) as (s1 & out & Hstep & HR1).
      destruct (IH s1 (fst (rs_step rs o)) HR1 Hr) as (s' & outs & Hrun & HR' & Hlen).
      exists s', (out :: outs). cbn [Sched.hs_run]. rewrite Hstep. cbn [obind]. rewrite Hrun. cbn [obind].
      split; [reflexivity|]. rewrite rs_run_cons. cbn [fst]. split; [exact HR'|]. cbn; lia.
  Qed.

  (** ** Agreement of the returned times: HeapScheduler vs RefSched *)
  Definition out_equiv (a b : outcome K) : Prop :=
    match a, b with
    | ONone, ONone => True
    | OExc e, OExc e' => e = e'
    | OGot _ k, OGot _ k' => keq k k'
    | _, _ => False
    end.

  Record Sim (s : hsched) (rs : rsched) : Prop := {
    sim_R : R s (rs_live rs);
    sim_last : keq (hs_last s) (rs_last rs);
    sim_g1 : good (hs_last s);
    sim_g2 : good (rs_last rs)
  }.

  (** protocol for agreement: pushed times are not NaN; a get is only asked when a finite live event exists *)
  Definition proto (rs : rsched) (o : op K) : Prop :=
    match o with
    | OpPush t _ => good t
    | OpGet => exists x, In x (rs_live rs) /\ finite (fst x)
    | _ => True
    end.

  Lemma le_lt_trans : forall a b c, good a -> good b -> good c -> le a b -> ltb b c = true -> ltb a c = true.
  Proof.
    intros a b c Ha Hb Hc Hab Hbc. destruct (ltb a c) eqn:E; [reflexivity|].
    assert (ltb b c = false) by (apply (le_trans_hyp c a b); auto). congruence.
  Qed.

  Lemma Sim_step : forall s rs o, Sim s rs -> proto rs o ->
    exists s' out, hs_step s o = Some (s', out) /\ Sim s' (fst (rs_step rs o)) /\
                   out_equiv out (snd (rs_step rs o)).
  Proof.
    intros s rs o HS Hp. destruct HS as [HR Hlast Hg1 Hg2]. destruct o as [t hd|hd| | |hd n].
    - destruct (R_push s _ t hd HR Hp) as (s' & Hpush & HR' & Hl'). exists s', ONone.
      split; [exact Hpush|]. split; [|exact I].
      constructor; cbn [Sched.rs_step fst rs_live rs_last]; auto; rewrite Hl'; auto.
    - exists (hs_trash K s hd), ONone. split; [reflexivity|]. split; [|exact I].
      constructor; cbn [Sched.rs_step fst rs_live rs_last hs_trash hs_last]; auto.
      apply (R_bump s _ hd 1%N HR). lia.
    - destruct Hp as (f & Hfin & Hff).
      destruct (R_get s _ HR) as (s' & out & Hget & HR' & Hcase).
      exists s', out. split; [exact Hget|].
      destruct Hcase as [(Hnone & _)|(t & hd & Hin & Hft & Hmin & Hout)].
      { exfalso. apply (Hnone f Hfin Hff). }
      cbn [Sched.rs_step]. destruct (rs_live rs) as [|x r] eqn:El; [destruct Hin|].
      pose proof (r_good _ _ HR) as Hgl.
      destruct (rs_min_spec x r Hgl) as (Hm_in & Hm_min). cbv zeta in *.
      set (m := list_min x r) in *.
      assert (Hgm : good (fst m)) by (apply Hgl; exact Hm_in).
      assert (Hgt : good t) by (apply (Hgl (t, hd)); exact Hin).
      assert (Hgf : good (fst f)) by (apply Hgl; exact Hfin).
      assert (Hfm : finite (fst m)).
      { apply (le_lt_trans (fst m) (fst f) kinf); auto. }
      assert (Hkeq : keq t (fst m)).
      { split.
        - apply (Hm_min (t, hd)). exact Hin.
        - apply (Hmin m Hm_in Hfm). }
      assert (Hguard : ltb t (hs_last s) = guard K ltb (rs_last rs) (fst m)).
      { unfold guard. apply ltb_congr; auto. }
      destruct Hout as [(Hlt & -> & Hl')|(Hlt & -> & Hl')].
      + rewrite <- Hguard, Hlt. cbn [fst snd]. split; [|reflexivity].
        constructor; auto; rewrite ?Hl', ?El; auto.
      + rewrite <- Hguard, Hlt. cbn [fst snd out_equiv]. split; [|exact Hkeq].
        constructor; cbn [rs_live rs_last]; rewrite ?Hl', ?El; auto.
    - destruct (R_pickle s _ HR) as (s' & Hpk & HR' & Hl'). exists s', ONone.
      split; [cbn [Sched.hs_step]; rewrite Hpk; reflexivity|]. split; [|exact I].
      constructor; cbn [Sched.rs_step fst rs_live rs_last]; auto; rewrite Hl'; auto.
    - exists (hs_bump K s hd n), ONone. split; [reflexivity|]. split; [|exact I].
      constructor; cbn [Sched.rs_step fst rs_live rs_last hs_bump hs_last]; auto.
      destruct (N.eqb_spec n 0) as [->|Hn].
      + apply (R_bump0 s _ hd HR).
      + apply (R_bump s _ hd n HR). lia.
  Qed.

  Fixpoint proto_run (P : rsched -> op K -> Prop) (rs : rsched) (ops : list (op K)) : Prop :=
    match ops with
    | [] => True
    | o :: r => P rs o /\ proto_run P (fst (rs_step rs o)) r
    end.

  Theorem heap_refines_ref : forall ops s rs, Sim s rs -> proto_run proto rs ops ->
    exists s' outs, hs_run s ops = Some (s', outs) /\ Sim s' (fst (rs_run rs ops)) /\
                    Forall2 out_equiv outs (snd (rs_run rs ops)).
  Proof.
    induction ops as [|o r IH]; intros s rs HS Hp.
    - exists s, []. split; [reflexivity|]. split; [exact HS|constructor].
    - destruct Hp as (Ho & Hr).
      destruct (Sim_step s rs o HS Ho) as (s1 & out & Hstep & HS1 & Heq).
      destruct (IH s1 _ HS1 Hr) as (s' & outs & Hrun & HS' & Hall).
      exists s', (out :: outs). cbn [Sched.hs_run]. rewrite Hstep. cbn [obind]. rewrite Hrun. cbn [obind].
      split; [reflexivity|]. rewrite rs_run_cons. cbn [fst snd]. split; [exact HS'|constructor; auto].
  Qed.

  Lemma Sim_init : Sim (hs_init K bot) (rs_init K bot).
  Proof. constructor; cbn; auto. - apply R_init. - apply keq_refl; auto. Qed.

  (** ** ListScheduler vs RefSched: identical under "at most one live event per handler" *)
  Fixpoint uniq (l : list (K * N)) : Prop :=
    match l with [] => True | x :: r => ~ In (snd x) (map snd r) /\ uniq r end.

  Lemma rs_trash_notin : forall hd (l : list (K * N)), ~ In hd (map snd l) -> rs_trash K hd l = l.
  Proof.
    induction l as [|x r IH]; intros H; [reflexivity|]. cbn in *.
    destruct (N.eqb_spec (snd x) hd) as [E|E]; [exfalso; auto|]. cbn. f_equal. apply IH. tauto.
  Qed.

  Lemma remove_first_uniq : forall hd (l : list (K * N)), uniq l -> In hd (map snd l) ->
    remove_first K hd l = Some (rs_trash K hd l).
  Proof.
    induction l as [|x r IH]; intros Hu Hin; [destruct Hin|]. cbn in *. destruct Hu as (Hx & Hu).
    destruct (N.eqb_spec (snd x) hd) as [E|E]; cbn.
    - subst hd. pose proof (rs_trash_notin (snd x) r Hx) as E'. unfold rs_trash in E'. rewrite E'. reflexivity.
    - destruct Hin as [Hin|Hin]; [contradiction|]. rewrite (IH Hu Hin). reflexivity.
  Qed.

  Lemma uniq_snoc : forall (l : list (K * N)) t hd, uniq l -> ~ In hd (map snd l) -> uniq (l ++ [(t, hd)]).
  Proof.
    induction l as [|x r IH]; intros t hd Hu Hn; cbn in *; [tauto|]. destruct Hu as (Hx & Hu).
    split; [|apply IH; tauto]. rewrite map_app, in_app_iff. cbn. intros [H|[H|[]]]; [auto|]. apply Hn. left. congruence.
  Qed.

  Lemma uniq_trash : forall hd (l : list (K * N)), uniq l -> uniq (rs_trash K hd l).
  Proof.
    induction l as [|x r IH]; intros Hu; cbn in *; [exact I|]. destruct Hu as (Hx & Hu).
    destruct (negb (N.eqb (snd x) hd)); cbn; [|auto]. split; [|auto].
    intros H. apply Hx. apply in_map_iff in H. destruct H as (y & Hy & Hin).
    apply rs_trash_In in Hin. apply in_map_iff. exists y. tauto.
  Qed.

  (** mediator protocol: at most one live event per handler *)
  Definition lproto (rs : rsched) (o : op K) : Prop :=
    match o with
    | OpPush _ hd => ~ In hd (map snd (rs_live rs))
    | OpTrash hd => In hd (map snd (rs_live rs))
    | OpBump hd n => n = 0%N \/ ~ In hd (map snd (rs_live rs))
    | _ => True
    end.

  Record LSim (ls : lsched) (rs : rsched) : Prop := {
    lsim_times : ls_times ls = rs_live rs;
    lsim_last : ls_last ls = rs_last rs;
    lsim_uniq : uniq (rs_live rs)
  }.

  Lemma LSim_step : forall ls rs o, LSim ls rs -> lproto rs o ->
    LSim (fst (ls_step ls o)) (fst (rs_step rs o)) /\ snd (ls_step ls o) = snd (rs_step rs o).
  Proof.
    intros [lt ll] [rl rlast] o [H1 H2 H3] Hp. cbn [ls_times ls_last rs_live rs_last] in *. subst lt ll.
    destruct o as [t hd|hd| | |hd n]; cbn [lproto rs_live] in Hp.
    - cbn. split; [|reflexivity]. constructor; cbn; auto. apply uniq_snoc; auto.
    - cbn [Sched.ls_step Sched.rs_step ls_times ls_last rs_live rs_last].
      rewrite (remove_first_uniq hd rl H3 Hp). cbn. split; [|reflexivity].
      constructor; cbn; auto. apply uniq_trash; auto.
    - cbn [Sched.ls_step Sched.rs_step Sched.ls_get ls_times ls_last rs_live rs_last].
      destruct rl as [|x r]; [cbn; split; [constructor; auto|reflexivity]|].
      unfold Sched.ls_get. cbn [ls_times ls_last]. cbv zeta. destruct (guard K ltb rlast (fst (list_min x r))); cbn [fst snd ls_times ls_last rs_live rs_last];
        (split; [constructor; auto|reflexivity]).
    - cbn. split; [constructor; auto|reflexivity].
    - cbn [Sched.ls_step Sched.rs_step fst snd]. split; [|reflexivity].
      constructor; cbn [ls_times ls_last rs_live rs_last]; auto.
      + destruct Hp as [->|Hn]; [reflexivity|]. destruct (N.eqb n 0); [reflexivity|].
        symmetry. apply rs_trash_notin; auto.
      + destruct (N.eqb n 0); [auto|apply uniq_trash; auto].
  Qed.

  Theorem list_refines_ref : forall ops ls rs, LSim ls rs -> proto_run lproto rs ops ->
    LSim (fst (ls_run ls ops)) (fst (rs_run rs ops)) /\ snd (ls_run ls ops) = snd (rs_run rs ops).
  Proof.
    induction ops as [|o r IH]; intros ls rs HL Hp.
    - cbn. auto.
    - destruct Hp as (Ho & Hr). destruct (LSim_step ls rs o HL Ho) as (HL1 & Ho1).
      destruct (IH _ _ HL1 Hr) as (HL' & Houts).
      rewrite ls_run_cons, rs_run_cons. cbn [fst snd]. split; [exact HL'|]. congruence.
  Qed.

  Lemma LSim_init : LSim (ls_init K bot) (rs_init K bot).
  Proof. constructor; cbn; auto. Qed.

  (** ** pickling, exact: __setstate__ re-inserts the array in level order, which never bubbles, so
      the heap array read through lib.entry after unpickling is entry by entry the one before. *)
  Definition level_ordered (l : list entry) : Prop :=
    forall j e p, 1 <= j < length l -> nth_error l j = Some e ->
      nth_error l ((j + 1) / 2 - 1) = Some p -> le (ekey p) (ekey e).

  Definition Arr (h : heap) (l : list entry) : Prop :=
    heap_inv h /\ ((hlen h = 0 /\ l = []) \/ hlen h = S (length l)) /\
    forall j, j < length l -> cget (entries h) (S j) = nth_error l j.

  Lemma half_le : forall n, 1 <= n -> 1 <= (n + 1) / 2 <= n.
  Proof.
    intros n Hn. pose proof (Nat.div_mod (n + 1) 2 ltac:(lia)) as D.
    pose proof (Nat.mod_upper_bound (n + 1) 2 ltac:(lia)). lia.
  Qed.

  Lemma rebuild_exact : forall l2 l1 h, level_ordered (l1 ++ l2) -> Forall entry_ok l2 -> Arr h l1 ->
    exists h', rebuild h l2 = Some h' /\ Arr h' (l1 ++ l2).
  Proof.
    induction l2 as [|e r IH]; intros l1 h Hlo Hall HA.
    - exists h. rewrite app_nil_r. split; [reflexivity|exact HA].
    - inversion Hall as [|? ? (Hhd & Hg) Hall']; subst. cbn [Sched.rebuild].
      destruct (ehd e) as [hd|] eqn:Ehd; [|congruence].
      destruct HA as (Hinv & Hlen & Hcells).
      set (n := length l1) in *.
      assert (Hpos : (if hlen h =? 0 then 1 else hlen h) = S n).
      { destruct Hlen as [(H0 & ->)|H1]; [rewrite H0; reflexivity|rewrite H1; reflexivity]. }
      destruct (insert_append K ltb bot good ltb_asym le_trans_hyp bot_least bot_good
                  h (ekey e) hd (ectr e) Hinv Hg) as (h1 & Hins & Hinv1 & Hlen1 & Hfr1 & Hnew1).
      { intros pe H2 Hpe.
        assert (Hn : hlen h = S n /\ 1 <= n).
        { destruct Hlen as [(H0 & _)|H1]; [lia|]. split; [exact H1|lia]. }
        destruct Hn as (Hh & Hn1). pose proof (half_le n Hn1) as Hhalf.
        apply (Hlo n e pe).
        - rewrite app_length. cbn. fold n. lia.
        - rewrite nth_error_app2 by (fold n; lia). fold n. rewrite Nat.sub_diag. reflexivity.
        - rewrite nth_error_app1 by (fold n; lia).
          rewrite <- Hcells by (fold n; lia).
          replace (S ((n + 1) / 2 - 1)) with ((n + 1) / 2) by lia.
          rewrite Hh in Hpe. replace (n + 1) with (S n) by lia. exact Hpe. }
      rewrite Hpos in *.
      rewrite Hins. cbn [obind].
      rewrite (entry_eta e hd Ehd) in Hnew1.
      destruct (IH (l1 ++ [e]) h1) as (h' & Hrun & HA').
      { rewrite <- app_assoc. exact Hlo. }
      { exact Hall'. }
      { split; [exact Hinv1|]. split.
        - right. rewrite app_length. cbn. fold n. lia.
        - intros j Hj. rewrite app_length in Hj. cbn in Hj. fold n in Hj.
          destruct (Nat.eq_dec j n) as [->|Hjn].
          + rewrite Hnew1. rewrite nth_error_app2 by (fold n; lia). fold n. rewrite Nat.sub_diag. reflexivity.
          + rewrite Hfr1 by lia. rewrite nth_error_app1 by (fold n; lia). apply Hcells. fold n. lia. }
      exists h'. split; [exact Hrun|]. rewrite <- app_assoc in HA'. exact HA'.
  Qed.

  Lemma nth_error_ext_eq : forall (A : Type) (l l' : list A), (forall j, nth_error l j = nth_error l' j) -> l = l'.
  Proof.
    induction l as [|x r IH]; intros [|y r'] H.
    - reflexivity.
    - specialize (H 0); discriminate.
    - specialize (H 0); discriminate.
    - pose proof (H 0) as H0. cbn in H0. inversion H0; subst. f_equal. apply IH. intros j. apply (H (S j)).
  Qed.

  Lemma getstate_level : forall h l, heap_inv h -> getstate_loop (S (hlen h)) h 0 = Some l -> level_ordered l.
  Proof.
    intros h l Hinv Hget.
    destruct (getstate_spec h Hinv (S (hlen h)) 0 ltac:(lia) ltac:(lia)) as (l' & Hrun & _ & Hnth).
    rewrite Hget in Hrun. inversion Hrun; subst l'.
    intros j e p Hj He Hp. rewrite Hnth in He, Hp.
    destruct (Nat.ltb_spec (0 + 1 + j) (hlen h)) as [L1|L1]; [|discriminate].
    destruct (Nat.ltb_spec (0 + 1 + ((j + 1) / 2 - 1)) (hlen h)) as [L2|L2]; [|discriminate].
    pose proof (half_le j ltac:(lia)) as Hhalf.
    replace (0 + 1 + ((j + 1) / 2 - 1)) with ((j + 1) / 2) in Hp by lia.
    replace (0 + 1 + j) with (j + 1) in He by lia.
    destruct Hinv as (_ & [(H0 & _)|(H1 & H2 & H3 & H4 & H5)]); [lia|].
    apply (H5 (j + 1) e p); auto; lia.
  Qed.

  Theorem pickle_exact : forall h, heap_inv h ->
    exists l h', getstate_loop (S (hlen h)) h 0 = Some l /\ rebuild empty_heap l = Some h' /\
                 heap_inv h' /\ getstate_loop (S (hlen h')) h' 0 = Some l.
  Proof.
    intros h Hinv.
    destruct (getstate_spec h Hinv (S (hlen h)) 0 ltac:(lia) ltac:(lia)) as (l & Hget & Hall & Hnth).
    pose proof (getstate_level h l Hinv Hget) as Hlo.
    destruct (rebuild_exact l [] empty_heap Hlo Hall) as (h' & Hreb & Hinv' & Hlen' & Hcells').
    { split; [apply empty_heap_inv|]. split; [left; split; reflexivity|]. intros j Hj; cbn in Hj; lia. }
    cbn [app] in *.
    exists l, h'. split; [exact Hget|]. split; [exact Hreb|]. split; [exact Hinv'|].
    destruct (getstate_spec h' Hinv' (S (hlen h')) 0 ltac:(lia) ltac:(lia)) as (l' & Hget' & _ & Hnth').
    rewrite Hget'. f_equal. apply nth_error_ext_eq. intros j. rewrite Hnth'.
    destruct Hlen' as [(H0 & ->)|H1].
    - rewrite H0. destruct j; reflexivity.
    - rewrite H1. destruct (Nat.ltb_spec (0 + 1 + j) (S (length l))) as [L|L].
      + replace (0 + 1 + j) with (S j) by lia. apply Hcells'. lia.
      + symmetry. apply nth_error_None. lia.
  Qed.

  (** ** Corollaries from the initial states *)
  Corollary reach_R : forall ops, Forall good_op ops ->
    exists s outs, hs_run (hs_init K bot) ops = Some (s, outs) /\
                   R s (rs_live (fst (rs_run (rs_init K bot) ops))) /\ length outs = length ops.
  Proof. intros ops H. apply (hs_run_safe ops _ (rs_init K bot)); auto. apply R_init. Qed.

  Lemma proto_run_and : forall (P Q : rsched -> op K -> Prop) ops rs,
    proto_run (fun rs o => P rs o /\ Q rs o) rs ops -> proto_run P rs ops /\ proto_run Q rs ops.
  Proof.
    induction ops as [|o r IH]; intros rs H; cbn in *; [auto|].
    destruct H as ((HP & HQ) & Hr). destruct (IH _ Hr). auto.
  Qed.

  (** All three schedulers agree: heap scheduler and reference up to equivalent (numerically equal)
      times, list scheduler and reference literally. *)
  Theorem refine_all : forall ops,
    proto_run (fun rs o => proto rs o /\ lproto rs o) (rs_init K bot) ops ->
    exists s outs_h, hs_run (hs_init K bot) ops = Some (s, outs_h) /\
      Forall2 out_equiv outs_h (snd (rs_run (rs_init K bot) ops)) /\
      snd (ls_run (ls_init K bot) ops) = snd (rs_run (rs_init K bot) ops).
  Proof.
    intros ops H. apply proto_run_and in H. destruct H as (HP & HL).
    destruct (heap_refines_ref ops _ _ Sim_init HP) as (s & outs & Hrun & _ & Hall).
    destruct (list_refines_ref ops _ _ LSim_init HL) as (_ & Hl).
    exists s, outs. auto.
  Qed.

  (** The list scheduler never returns an infinite time while a finite live event exists. *)
  Lemma ls_get_finite : forall ls, all_good (ls_times ls) ->
    (exists x, In x (ls_times ls) /\ finite (fst x)) ->
    forall hd t, snd (ls_get K ltb ls) = OGot hd t ->
      finite t /\ In (t, hd) (ls_times ls) /\ forall y, In y (ls_times ls) -> le t (fst y).
  Proof.
    intros [l last] Hg (f & Hf & Hff) hd t. unfold ls_get. cbn [ls_times ls_last] in *.
    destruct l as [|x r]; [destruct Hf|]. cbv zeta.
    destruct (rs_min_spec x r Hg) as (Hm_in & Hm_min). cbv zeta in *.
    destruct (guard K ltb last (fst (list_min x r))); cbn [snd]; [discriminate|].
    intros E. inversion E; subst hd t.
    split; [|split].
    - apply (le_lt_trans _ (fst f) kinf); auto.
    - destruct (list_min x r); exact Hm_in.
    - exact Hm_min.
  Qed.

  Lemma ls_get_empty : forall last, snd (ls_get K ltb (mkLS [] last)) = OExc ExEmpty.
  Proof. reflexivity. Qed.

  (** After ANY sequence of operations (pushed times not NaN) the heap scheduler is in a state where
      no memory fault is possible and the next get_succeeding_event returns a minimal finite live
      event of the reference list [l] (pushes minus trashes) — or the right scheduler error. *)
  Theorem get_after_run : forall ops, Forall good_op ops ->
    exists s outs, hs_run (hs_init K bot) ops = Some (s, outs) /\ heap_inv (hs_heap s) /\
      let l := rs_live (fst (rs_run (rs_init K bot) ops)) in
      exists s' out, hs_get s = Some (s', out) /\ heap_inv (hs_heap s') /\
        (((forall x, In x l -> ~ finite (fst x)) /\ out = OExc ExEmpty) \/
         (exists t hd, In (t, hd) l /\ finite t /\
            (forall x, In x l -> finite (fst x) -> le t (fst x)) /\
            ((ltb t (hs_last s) = true /\ out = OExc ExDecreasing) \/
             (ltb t (hs_last s) = false /\ out = OGot hd t)))).
  Proof.
    intros ops Hops. destruct (reach_R ops Hops) as (s & outs & Hrun & HR & _).
    exists s, outs. split; [exact Hrun|]. split; [apply HR|]. cbv zeta.
    destruct (R_get s _ HR) as (s' & out & Hget & HR' & Hcase).
    exists s', out. split; [exact Hget|]. split; [apply HR'|].
    destruct Hcase as [(H1 & H2 & _)|(t & hd & H1 & H2 & H3 & H4)]; [left; auto|right].
    exists t, hd. repeat (split; [assumption|]).
    destruct H4 as [(A & B & _)|(A & B & _)]; [left|right]; auto.
  Qed.

  Corollary empty_error_run : forall ops, Forall good_op ops ->
    (forall x, In x (rs_live (fst (rs_run (rs_init K bot) ops))) -> ~ finite (fst x)) ->
    exists s outs s', hs_run (hs_init K bot) ops = Some (s, outs) /\ hs_get s = Some (s', OExc ExEmpty).
  Proof.
    intros ops Hops Hnone. destruct (get_after_run ops Hops) as (s & outs & Hrun & _ & s' & out & Hget & _ & Hcase).
    exists s, outs, s'. split; [exact Hrun|].
    destruct Hcase as [(_ & ->)|(t & hd & Hin & Hf & _)]; [exact Hget|].
    exfalso. apply (Hnone (t, hd) Hin Hf).
  Qed.

  Corollary no_oob_run : forall ops, Forall good_op ops ->
    exists s outs, hs_run (hs_init K bot) ops = Some (s, outs) /\ heap_inv (hs_heap s) /\
                   length outs = length ops.
  Proof.
    intros ops Hops. destruct (reach_R ops Hops) as (s & outs & Hrun & HR & Hlen).
    exists s, outs. split; [exact Hrun|]. split; [apply HR|exact Hlen].
  Qed.

  Corollary heap_refines_ref_init : forall ops, proto_run proto (rs_init K bot) ops ->
    exists s outs, hs_run (hs_init K bot) ops = Some (s, outs) /\
                   Forall2 out_equiv outs (snd (rs_run (rs_init K bot) ops)).
  Proof.
    intros ops Hp. destruct (heap_refines_ref ops _ _ Sim_init Hp) as (s & outs & Hrun & _ & Hall).
    exists s, outs. auto.
  Qed.

End SchedProofs.

(** * The float instance: (quotient, remainder) pairs of binary64 with heap.c's comparison.

    IEEE comparison is a strict weak order only away from NaN: [good_key] = no NaN component.
    The order laws are proved by an order embedding of the non-NaN floats into Z^3 (class, exponent,
    mantissa) read off [SpecFloat.SFcompare]; no real numbers are involved. *)
From Coq Require Import ZArith.
From Flocq Require Import Core.Core IEEE754.BinarySingleNaN.
From Coq Require Import SpecFloat.
Require Import JF.Base.F64 JF.Model.Time.
Local Open Scope Z_scope.

Definition lt3 (x y : Z * Z * Z) : Prop :=
  let '(a, b, c) := x in let '(a', b', c') := y in
  a < a' \/ (a = a' /\ (b < b' \/ (b = b' /\ c < c'))).

Lemma lt3_irrefl : forall x, ~ lt3 x x.
Proof. intros [[a b] c]; cbn; lia. Qed.
Lemma lt3_trans : forall x y z, lt3 x y -> lt3 y z -> lt3 x z.
Proof. intros [[a b] c] [[a' b'] c'] [[a'' b''] c'']; cbn; lia. Qed.
Lemma lt3_tricho : forall x y, lt3 x y \/ x = y \/ lt3 y x.
Proof.
  intros [[a b] c] [[a' b'] c']; cbn.
  destruct (Z.lt_trichotomy a a') as [H|[H|H]]; [lia| |lia].
  destruct (Z.lt_trichotomy b b') as [H1|[H1|H1]]; [lia| |lia].
  destruct (Z.lt_trichotomy c c') as [H2|[H2|H2]]; [lia| |lia].
  right; left; congruence.
Qed.

Definition frank (x : f64) : Z * Z * Z :=
  match x with
  | B754_nan => (3, 0, 0)
  | B754_infinity true => (-2, 0, 0)
  | B754_infinity false => (2, 0, 0)
  | B754_zero _ => (0, 0, 0)
  | B754_finite true m e _ => (-1, - e, Zneg m)
  | B754_finite false m e _ => (1, e, Zpos m)
  end.

Lemma flt_rank : forall x y, fisnan x = false -> fisnan y = false ->
  (flt x y = true <-> lt3 (frank x) (frank y)).
Proof.
  intros x y Hx Hy. unfold flt, fcompare, Bcompare.
  destruct x as [sx|sx| |sx mx ex Bx]; try discriminate;
  destruct y as [sy|sy| |sy my ey By]; try discriminate;
  try destruct sx; try destruct sy; cbn [B2SF SFcompare frank lt3];
  try (split; [intros H; try discriminate; lia | intros H; try reflexivity; lia]).
  - change (Pos.compare_cont Eq mx my) with (Pos.compare mx my).
    destruct (Z.compare_spec ex ey) as [E|E|E]; destruct (Pos.compare_spec mx my) as [F|F|F];
      cbn [CompOpp]; split; intros H; try discriminate; try reflexivity; try lia.
  - change (Pos.compare_cont Eq mx my) with (Pos.compare mx my).
    destruct (Z.compare_spec ex ey) as [E|E|E]; destruct (Pos.compare_spec mx my) as [F|F|F];
      cbn [CompOpp]; split; intros H; try discriminate; try reflexivity; try lia.
Qed.

Lemma feq_rank : forall x y, fisnan x = false -> fisnan y = false ->
  (feq x y = true <-> frank x = frank y).
Proof.
  intros x y Hx Hy. unfold feq, fcompare, Bcompare.
  destruct x as [sx|sx| |sx mx ex Bx]; try discriminate;
  destruct y as [sy|sy| |sy my ey By]; try discriminate;
  try destruct sx; try destruct sy; cbn [B2SF SFcompare frank];
  try (split; [intros H; try discriminate; try reflexivity; congruence | intros H; try reflexivity; try discriminate; congruence]).
  - change (Pos.compare_cont Eq mx my) with (Pos.compare mx my).
    destruct (Z.compare_spec ex ey) as [E|E|E]; destruct (Pos.compare_spec mx my) as [F|F|F];
      cbn [CompOpp]; split; intros H; try discriminate; try reflexivity; try (inversion H; lia); try (subst; reflexivity).
  - change (Pos.compare_cont Eq mx my) with (Pos.compare mx my).
    destruct (Z.compare_spec ex ey) as [E|E|E]; destruct (Pos.compare_spec mx my) as [F|F|F];
      cbn [CompOpp]; split; intros H; try discriminate; try reflexivity; try (inversion H; lia); try (subst; reflexivity).
Qed.

Definition good_key (k : fkey) : Prop := fisnan (fst k) = false /\ fisnan (snd k) = false.
Definition krank (k : fkey) := (frank (fst k), frank (snd k)).
Definition lt6 (a b : (Z*Z*Z) * (Z*Z*Z)) : Prop :=
  lt3 (fst a) (fst b) \/ (fst a = fst b /\ lt3 (snd a) (snd b)).

Lemma lt6_irrefl : forall x, ~ lt6 x x.
Proof. intros [a b] [H|(_ & H)]; eapply lt3_irrefl; eauto. Qed.
Lemma lt6_trans : forall x y z, lt6 x y -> lt6 y z -> lt6 x z.
Proof.
  intros [a b] [a' b'] [a'' b'']; unfold lt6; cbn [fst snd].
  intros [H|(E & H)] [H'|(E' & H')]; subst.
  - left; eapply lt3_trans; eauto.
  - left; auto.
  - left; auto.
  - right; split; auto. eapply lt3_trans; eauto.
Qed.
Lemma lt6_tricho : forall x y, lt6 x y \/ x = y \/ lt6 y x.
Proof.
  intros [a b] [a' b']; unfold lt6; cbn [fst snd].
  destruct (lt3_tricho a a') as [H|[H|H]]; auto.
  destruct (lt3_tricho b b') as [H1|[H1|H1]]; subst; auto.
Qed.

Lemma fkey_lt_rank : forall a b, good_key a -> good_key b ->
  (fkey_lt a b = true <-> lt6 (krank a) (krank b)).
Proof.
  intros [q1 r1] [q2 r2] (Hq1 & Hr1) (Hq2 & Hr2). cbn [fst snd] in *.
  unfold fkey_lt, c_time_lt, lt6, krank. cbn [fst snd].
  rewrite orb_true_iff, andb_true_iff.
  rewrite (flt_rank q1 q2 Hq1 Hq2), (flt_rank r1 r2 Hr1 Hr2), (feq_rank q1 q2 Hq1 Hq2). reflexivity.
Qed.

Lemma fkey_asym : forall a b, good_key a -> good_key b -> fkey_lt a b = true -> fkey_lt b a = false.
Proof.
  intros a b Ha Hb H. apply (fkey_lt_rank a b Ha Hb) in H.
  destruct (fkey_lt b a) eqn:E; [|reflexivity]. apply (fkey_lt_rank b a Hb Ha) in E.
  exfalso. apply (lt6_irrefl (krank a)). eapply lt6_trans; eauto.
Qed.

Lemma fkey_le_trans : forall a b c, good_key a -> good_key b -> good_key c ->
  fkey_lt b a = false -> fkey_lt c b = false -> fkey_lt c a = false.
Proof.
  intros a b c Ha Hb Hc H1 H2.
  destruct (fkey_lt c a) eqn:E; [|reflexivity]. apply (fkey_lt_rank c a Hc Ha) in E. exfalso.
  assert (N1 : ~ lt6 (krank b) (krank a)) by (intros X; apply (fkey_lt_rank b a Hb Ha) in X; congruence).
  assert (N2 : ~ lt6 (krank c) (krank b)) by (intros X; apply (fkey_lt_rank c b Hc Hb) in X; congruence).
  destruct (lt6_tricho (krank a) (krank b)) as [T1|[T1|T1]]; [| |contradiction];
  destruct (lt6_tricho (krank b) (krank c)) as [T2|[T2|T2]]; try contradiction.
  - apply (lt6_irrefl (krank a)). eapply lt6_trans; [|exact E]. eapply lt6_trans; eauto.
  - rewrite <- T2 in E. apply (lt6_irrefl (krank a)). eapply lt6_trans; eauto.
  - rewrite T1 in E. apply (lt6_irrefl (krank b)). eapply lt6_trans; eauto.
  - rewrite T1, T2 in E. apply (lt6_irrefl _ E).
Qed.

Lemma fkey_bot_least : forall k, fkey_lt k fkey_bot = false.
Proof.
  intros [q r]. unfold fkey_lt, c_time_lt, fkey_bot. cbn [fst snd].
  assert (H : forall x, flt x fninf = false).
  { intros x. unfold flt, fcompare, Bcompare. destruct x as [[|]|[|]| |[|] m e B]; reflexivity. }
  rewrite !H, andb_false_r. reflexivity.
Qed.

Lemma fkey_bot_good : good_key fkey_bot. Proof. split; reflexivity. Qed.
Lemma fkey_inf_good : good_key fkey_inf. Proof. split; reflexivity. Qed.
