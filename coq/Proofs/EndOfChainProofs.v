(** * Proofs/EndOfChainProofs.v — facts about Model/EndOfChain.v (C07: the end of a chain only hands velocity over). *)
From Coq Require Import ZArith QArith List Bool Arith Lia Reals Lra.
From Flocq Require Import Core.Core IEEE754.BinarySingleNaN.
Require Import JF.Base.F64 JF.Base.PyFloat JF.Model.Time JF.Model.Periodic JF.Model.TimeSlice JF.Model.Lifting
        JF.Model.Kinematics JF.Model.Handlers JF.Model.EndOfChain JF.Proofs.F64Facts.
Import ListNotations.

(** ** periodic direction: one non-zero component, moved to the next direction *)
Lemma filter_eqb_seq : forall n s j, (s <= j < s + n)%nat -> filter (fun k => Nat.eqb k j) (seq s n) = [j].
Proof.
  induction n as [|n IH]; intros s j H; [lia|].
  cbn [seq filter]. destruct (Nat.eqb_spec s j) as [E|N].
  - subst. f_equal.
    assert (G : forall m t, (j < t)%nat -> filter (fun k => Nat.eqb k j) (seq t m) = []).
    { induction m as [|m IHm]; intros t Ht; [reflexivity|]. cbn [seq filter].
      destruct (Nat.eqb_spec t j); [lia|]. apply IHm. lia. }
    apply G. lia.
  - apply IH. lia.
Qed.

Lemma unit_vec_length : forall dim j x, length (unit_vec dim j x) = dim.
Proof. intros. unfold unit_vec. rewrite map_length, seq_length. reflexivity. Qed.

Lemma nth_map_seq : forall (A : Type) (f : nat -> A) (d : A) n s k, (k < n)%nat ->
  nth k (map f (seq s n)) d = f (s + k)%nat.
Proof.
  intros A f d. induction n as [|n IH]; intros s k H; [lia|].
  cbn [seq map]. destruct k as [|k]; cbn [nth].
  - f_equal. lia.
  - rewrite IH by lia. f_equal. lia.
Qed.

Lemma unit_vec_nth : forall dim j x k, (k < dim)%nat ->
  nth k (unit_vec dim j x) fnan = if Nat.eqb k j then x else fzero.
Proof. intros dim j x k H. unfold unit_vec. rewrite nth_map_seq by exact H. reflexivity. Qed.

Lemma unit_vec_nonzero : forall dim j x, (j < dim)%nat -> fne x fzero = true ->
  nonzero_idxs (unit_vec dim j x) = [j].
Proof.
  intros dim j x Hj Hx. unfold nonzero_idxs. rewrite unit_vec_length.
  rewrite <- (filter_eqb_seq dim 0 j) by lia.
  apply filter_ext_in. intros k Hk. apply in_seq in Hk.
  rewrite unit_vec_nth by lia. destruct (Nat.eqb k j); [exact Hx|reflexivity].
Qed.

Lemma periodic_step : forall dim j x, (j < dim)%nat -> fne x fzero = true ->
  new_velocity EPeriodic dim (unit_vec dim j x) = Some (unit_vec dim ((j + 1) mod dim) x).
Proof.
  intros dim j x Hj Hx. unfold new_velocity. rewrite unit_vec_nonzero by assumption.
  destruct (Nat.ltb_spec 0 dim); [|lia]. rewrite unit_vec_nth by lia. rewrite Nat.eqb_refl. reflexivity.
Qed.

(** n ends of chain in a row *)
Fixpoint iter_nv (n dim : nat) (v : list f64) : option (list f64) :=
  match n with
  | O => Some v
  | S m => match new_velocity EPeriodic dim v with Some w => iter_nv m dim w | None => None end
  end.

Lemma periodic_iter : forall n dim j x, (j < dim)%nat -> fne x fzero = true ->
  iter_nv n dim (unit_vec dim j x) = Some (unit_vec dim ((j + n) mod dim) x).
Proof.
  induction n as [|n IH]; intros dim j x Hj Hx.
  - cbn [iter_nv]. rewrite Nat.add_0_r, Nat.mod_small by exact Hj. reflexivity.
  - cbn [iter_nv]. rewrite periodic_step by assumption.
    rewrite IH; [|apply Nat.mod_upper_bound; lia|exact Hx].
    do 2 f_equal. rewrite Nat.add_mod_idemp_l by lia. f_equal. lia.
Qed.

Lemma periodic_cycle : forall dim j x, (j < dim)%nat -> fne x fzero = true ->
  iter_nv dim dim (unit_vec dim j x) = Some (unit_vec dim j x).
Proof.
  intros dim j x Hj Hx. rewrite periodic_iter by assumption.
  replace (j + dim)%nat with (j + 1 * dim)%nat by lia. rewrite Nat.mod_add by lia.
  rewrite Nat.mod_small by exact Hj. reflexivity.
Qed.

Lemma periodic_visits_all : forall dim j k x, (j < dim)%nat -> (k < dim)%nat -> fne x fzero = true ->
  exists n, (n < dim)%nat /\ iter_nv n dim (unit_vec dim j x) = Some (unit_vec dim k x).
Proof.
  intros dim j k x Hj Hk Hx. exists ((k + dim - j) mod dim)%nat. split; [apply Nat.mod_upper_bound; lia|].
  rewrite periodic_iter by assumption. do 2 f_equal.
  rewrite Nat.add_mod_idemp_r by lia.
  replace (j + (k + dim - j))%nat with (k + 1 * dim)%nat by lia.
  rewrite Nat.mod_add by lia. apply Nat.mod_small. exact Hk.
Qed.

(** every vector the handler accepts is of this form: the general statement *)
Lemma periodic_general : forall dim v d, (0 < dim)%nat -> nonzero_idxs v = [d] ->
  new_velocity EPeriodic dim v = Some (unit_vec dim ((d + 1) mod dim) (nth d v fnan)).
Proof.
  intros dim v d Hd H. unfold new_velocity. rewrite H. destruct (Nat.ltb_spec 0 dim); [reflexivity|lia].
Qed.

Lemma periodic_rejects : forall dim v, length (nonzero_idxs v) <> 1%nat -> new_velocity EPeriodic dim v = None.
Proof.
  intros dim v H. unfold new_velocity. destruct (nonzero_idxs v) as [|a [|b l]]; cbn in H; try reflexivity. lia.
Qed.

(** ** the hand-over itself (one level: the old active point mass stops, another one starts) *)
Lemma single_point_mass_handover : forall env k T u w v ts p nv,
  hu_parent u = None -> hu_parent w = None ->
  hu_vel u = Some v -> hu_ts u = Some ts -> hu_vel w = None -> hu_ts w = None ->
  zl_eqb (hu_id w) (hu_id u) = false ->
  time_slice_position (hu_pos u) v T ts (repeat (e_L env) (e_dim env)) = Some p ->
  vec_eqb v v = true ->
  new_velocity k (e_dim env) v = Some nv -> small nv = false -> small (repeat fzero (e_dim env)) = true ->
  eoc_out_state env k T [u] [w] =
  Some (mkEO [mkHU (hu_id u) p None None (hu_charge u) None (hu_weight u);
              mkHU (hu_id w) (hu_pos w) (Some nv) (Some T) (hu_charge w) None (hu_weight w)] T).
Proof.
  intros env k T u w v ts p nv Pu Pw Vu Tu Vw Tw I1 SL VE NV S1 S0.
  unfold eoc_out_state. rewrite Tu.
  assert (SA : slice_all env T [u] = Some [mkHU (hu_id u) p (Some v) (Some T) (hu_charge u) (hu_parent u) (hu_weight u)]).
  { unfold slice_all. cbn [map]. unfold slice_unit. rewrite Vu, Tu. unfold bind. rewrite SL. reflexivity. }
  rewrite SA. unfold bind.
  set (u1 := mkHU (hu_id u) p (Some v) (Some T) (hu_charge u) (hu_parent u) (hu_weight u)).
  assert (LI : leaf_idxs [u1] = [0%nat]).
  { unfold leaf_idxs, is_leaf. cbn. rewrite Pu. reflexivity. }
  rewrite LI. cbn [nth getu hu_vel u1].
  assert (LW : leaf_idxs [w] = [0%nat]).
  { unfold leaf_idxs, is_leaf. cbn. rewrite Pw. reflexivity. }
  rewrite LW.
  cbn [forallb nth getu hu_vel u1 andb negb]. rewrite VE. cbn [andb negb].
  rewrite NV.
  cbn [map nth getu hu_id u1 filter existsb orb negb].
  rewrite I1. cbn [orb negb filter forallb nth getu existsb].
  rewrite Vw, Tw. cbn [andb negb].
  cbn [length seq map nth getu existsb Nat.eqb orb hu_id u1].
  rewrite ?I1. cbn [orb].
  unfold with_vel, cutoff. cbn [hu_vel hu_id hu_pos hu_ts hu_charge hu_parent hu_weight u1].
  rewrite S0, S1.
  cbn [fold_left]. unfold register. cbn [nth getu hu_parent u1]. rewrite Pu, Pw.
  cbn [app length seq flat_map lookup_idch filter nth getu hu_id].
  cbn [map all_some]. unfold commit_unit. cbn [lookup_change filter].
  reflexivity.
Qed.

(** ** sequential direction: an exact rotation scales the squared speed by c^2 + s^2 *)
Lemma rotation_speed_Q : forall c s x y : Q,
  ((x * c - y * s) * (x * c - y * s) + (x * s + y * c) * (x * s + y * c) == (c * c + s * s) * (x * x + y * y))%Q.
Proof. intros. ring. Qed.

(** ** chain time *)
Local Open Scope R_scope.

Lemma fsub_self : forall x : f64, ffinite x = true -> B2R (fsub x x) = 0 /\ ffinite (fsub x x) = true.
Proof.
  intros x F. assert (E : B2R x - B2R x = 0) by lra.
  destruct (fsub_spec x x F F) as [A B].
  - rewrite E, RN_0, Rabs_R0. apply bpow_gt_0.
  - rewrite A, E, RN_0. split; [reflexivity|exact B].
Qed.

Lemma time_sub_self : forall t : time, ffinite (tq t) = true -> ffinite (tr t) = true ->
  B2R (time_sub t t) = 0 /\ ffinite (time_sub t t) = true.
Proof.
  intros t Fq Fr. unfold time_sub.
  destruct (fsub_self (tq t) Fq) as [A FA].
  destruct (fadd_spec (fsub (tq t) (tq t)) (tr t) FA Fr) as [B FB].
  - rewrite A, Rplus_0_l, RN_B2R. apply B2R_lt_emax.
  - rewrite A, Rplus_0_l, RN_B2R in B.
    destruct (fsub_spec (fadd (fsub (tq t) (tq t)) (tr t)) (tr t) FB Fr) as [C FC].
    + rewrite B. replace (B2R (tr t) - B2R (tr t)) with 0 by lra. rewrite RN_0, Rabs_R0. apply bpow_gt_0.
    + rewrite C, B. replace (B2R (tr t) - B2R (tr t)) with 0 by lra. rewrite RN_0. split; [reflexivity|exact FC].
Qed.

(** the regular case: the end-of-chain candidate is requested at the last committed event time itself; the new chain
    time is then the configured chain time, bit for bit *)
Lemma regular_chain_time : forall (t : time) (chain : f64),
  ffinite (tq t) = true -> ffinite (tr t) = true -> ffinite chain = true -> 0 < B2R chain ->
  new_chain_time t t chain = Some chain.
Proof.
  intros t chain Fq Fr Fc P. unfold new_chain_time.
  destruct (time_sub_self t Fq Fr) as [Z FZ].
  assert (L1 : fle fzero (time_sub t t) = true).
  { apply fle_true_iff; [reflexivity|exact FZ|]. rewrite Z, fzero_R. lra. }
  assert (L2 : fle (time_sub t t) chain = true).
  { apply fle_true_iff; [exact FZ|exact Fc|]. rewrite Z. lra. }
  rewrite L1, L2. cbn [andb]. f_equal.
  assert (Bd : Rabs (RN (B2R (time_sub t t) + B2R chain)) < bpow radix2 1024).
  { rewrite Z, Rplus_0_l, RN_B2R. apply B2R_lt_emax. }
  destruct (fadd_spec (time_sub t t) chain FZ Fc Bd) as [A FA].
  apply f64_eq; [exact FA|exact Fc| |].
  - rewrite A, Z, Rplus_0_l, RN_B2R. reflexivity.
  - rewrite (fadd_sign_pos _ _ FZ Fc Bd) by (rewrite Z; lra).
    symmetry. apply fsign_of_pos; assumption.
Qed.

Lemma regular_event_time : forall (t : time) (chain : f64),
  ffinite (tq t) = true -> ffinite (tr t) = true -> ffinite chain = true -> 0 < B2R chain ->
  eoc_event_time t t chain = Some (time_add t chain).
Proof. intros. unfold eoc_event_time. rewrite regular_chain_time by assumption. reflexivity. Qed.

(** outside the window [0, chain] the handler refuses (assertion of _get_new_chain_time) *)
Lemma chain_time_window : forall last cur chain x,
  new_chain_time last cur chain = Some x ->
  fle fzero (time_sub cur last) = true /\ fle (time_sub cur last) chain = true.
Proof.
  intros last cur chain x H. unfold new_chain_time in H.
  destruct (fle fzero (time_sub cur last)); [|discriminate].
  destruct (fle (time_sub cur last) chain); [|discriminate]. split; reflexivity.
Qed.
