(** * Proofs/CompositeProofs.v — C12: algebra of composite objects (exact arithmetic) and accepted runs. *)
From Coq Require Import ZArith QArith Qabs Qround List Bool Lia Lqa.
Require Import JF.Base.F64 JF.Model.Kinematics JF.Model.Composite.
Import ListNotations.
Open Scope Q_scope.

(** ** Velocity: root velocity == weighted sum of the leaf velocities. *)
Definition vel_inv (rv : option Q) (S : Q) : Prop :=
  match rv with Some r => r == S | None => S == 0 end.

Lemma wsum_take ws : forall vs a v,
  length ws = length vs -> nth a vs None = Some v ->
  wsum ws (set_leaf vs a None) == wsum ws vs - nth a ws 0 * v.
Proof.
  induction ws as [|w ws IH]; intros [|x vs] a v Hl Hn; simpl in Hl; try discriminate.
  - destruct a; simpl in Hn; discriminate.
  - destruct a as [|a]; simpl in Hn |- *.
    + subst x. ring.
    + destruct x as [x|]; rewrite (IH vs a v) by (auto; lia); ring.
Qed.

Lemma wsum_give ws : forall vs b v,
  length ws = length vs -> (b < length vs)%nat -> nth b vs None = None ->
  wsum ws (set_leaf vs b (Some v)) == wsum ws vs + nth b ws 0 * v.
Proof.
  induction ws as [|w ws IH]; intros [|x vs] b v Hl Hb Hn; simpl in Hl, Hb; try discriminate; try lia.
  destruct b as [|b]; simpl in Hn |- *.
  - subst x. ring.
  - destruct x as [x|]; rewrite (IH vs b v) by (auto; lia); ring.
Qed.

Lemma apply_change_inv rv S chg :
  vel_inv rv S ->
  (S + chg == 0 \/ cutoff <= Qabs (S + chg)) ->          (* the 1e-13 cut-off does not misfire *)
  vel_inv (apply_change rv chg) (S + chg).
Proof.
  unfold vel_inv, apply_change. intros Hi Hc. destruct rv as [r|].
  - destruct (Qle_bool cutoff (Qabs (r + chg))) eqn:E.
    + rewrite Hi. reflexivity.
    + destruct Hc as [Hz|Hge]; [exact Hz|].
      exfalso. assert (Qle_bool cutoff (Qabs (r + chg)) = true).
      { apply Qle_bool_iff. rewrite Hi. exact Hge. }
      congruence.
  - rewrite Hi. ring.
Qed.

Lemma vel_inv_proper rv S S' : S == S' -> vel_inv rv S -> vel_inv rv S'.
Proof. unfold vel_inv. intros E H. destruct rv; rewrite <- E; exact H. Qed.

Lemma cut_proper S S' : S == S' -> (S == 0 \/ cutoff <= Qabs S) -> (S' == 0 \/ cutoff <= Qabs S').
Proof. intros E [H|H]; [left | right]; rewrite <- E; exact H. Qed.

(** the active leaf stops ([_exchange_velocity], first half; [_pass_composite_object_velocity]) *)
Theorem take_preserves ws vs rv a v :
  length ws = length vs -> nth a vs None = Some v ->
  vel_inv rv (wsum ws vs) ->
  (let S' := wsum ws vs - nth a ws 0 * v in S' == 0 \/ cutoff <= Qabs S') ->
  vel_inv (snd (take ws vs rv a v)) (wsum ws (fst (take ws vs rv a v))).
Proof.
  intros Hl Hn Hi Hc. unfold take. cbn [fst snd].
  assert (E : wsum ws vs + - v * nth a ws 0 == wsum ws (set_leaf vs a None)).
  { rewrite (wsum_take ws vs a v Hl Hn). ring. }
  apply (vel_inv_proper _ _ _ E). apply apply_change_inv; [exact Hi|].
  cbv zeta in Hc. eapply cut_proper; [|exact Hc]. ring.
Qed.

(** the target leaf receives the velocity *)
Theorem give_preserves ws vs rv b v :
  length ws = length vs -> (b < length vs)%nat -> nth b vs None = None ->
  vel_inv rv (wsum ws vs) ->
  (let S' := wsum ws vs + nth b ws 0 * v in S' == 0 \/ cutoff <= Qabs S') ->
  vel_inv (snd (give ws vs rv b v)) (wsum ws (fst (give ws vs rv b v))).
Proof.
  intros Hl Hb Hn Hi Hc. unfold give. cbn [fst snd].
  assert (E : wsum ws vs + v * nth b ws 0 == wsum ws (set_leaf vs b (Some v))).
  { rewrite (wsum_give ws vs b v Hl Hb Hn). ring. }
  apply (vel_inv_proper _ _ _ E). apply apply_change_inv; [exact Hi|].
  cbv zeta in Hc. eapply cut_proper; [|exact Hc]. ring.
Qed.

(** ** Position: free flight keeps the root on the weighted barycentre (one component). *)
Fixpoint wdot (ws xs : list Q) : Q :=
  match ws, xs with
  | w :: ws', x :: xs' => w * x + wdot ws' xs'
  | _, _ => 0
  end.

Fixpoint advance (ps vs : list Q) (t : Q) : list Q :=
  match ps, vs with
  | p :: ps', v :: vs' => (p + v * t) :: advance ps' vs' t
  | _, _ => []
  end.

Theorem flight_preserves_barycentre ws : forall ps vs t,
  length ws = length ps -> length ps = length vs ->
  wdot ws (advance ps vs t) == wdot ws ps + wdot ws vs * t.
Proof.
  induction ws as [|w ws IH]; intros [|p ps] [|v vs] t H1 H2; simpl in *; try discriminate; try ring.
  rewrite (IH ps vs t) by lia. ring.
Qed.

Corollary root_stays_on_barycentre ws ps vs P V t :
  length ws = length ps -> length ps = length vs ->
  P == wdot ws ps -> V == wdot ws vs ->
  P + V * t == wdot ws (advance ps vs t).
Proof. intros H1 H2 HP HV. rewrite (flight_preserves_barycentre ws ps vs t H1 H2), HP, HV. reflexivity. Qed.

(** ** The random node creators put the root at the barycentre (before periodic correction). *)
Theorem dipole_creator_centre (c u s : Q) :
  (1 # 2) * (c + u * s) + (1 # 2) * (c - u * s) == c.
Proof. ring. Qed.

Theorem water_creator_centre (c a b : Q) :
  let o := c - (a + b) / 3 in
  (1 # 3) * (o + a) + (1 # 3) * o + (1 # 3) * (o + b) == c.
Proof. simpl. field. Qed.

(** ** Accepted runs. *)
Lemma composites_ok_spec Ls ws : forall ss n st0,
  composites_ok Ls ws n st0 ss = true ->
  forall i s, nth_error ss i = Some s -> s_started s = true ->
  composite_ok Ls ws (s_units s) (s_now s) (n + i) = true.
Proof.
  induction ss as [|s0 ss IH]; intros n st0 H i s Hi Hs; destruct i; simpl in *; try discriminate.
  - inversion Hi; subst. apply andb_true_iff in H as [H _]. rewrite Hs in H. simpl in H.
    rewrite Nat.add_0_r. exact H.
  - apply andb_true_iff in H as [_ H]. replace (n + S i)%nat with (S n + i)%nat by lia. eapply IH; eauto.
Qed.

Theorem accepted_run_composite (c : ccase) :
  check_ccase c = true ->
  check_kcase (cc_k c) = true /\
  composite_ok (map f2q (kc_L (cc_k c))) (cc_w c) (kc_init (cc_k c)) 0 0 = true /\
  exists ss, run_states_k (map f2q (kc_L (cc_k c))) 0 (kinit (cc_k c)) (kc_legs (cc_k c)) = Some ss /\
    forall i s, nth_error ss i = Some s -> s_started s = true ->
      composite_ok (map f2q (kc_L (cc_k c))) (cc_w c) (s_units s) (s_now s) (1 + i) = true.
Proof.
  unfold check_ccase. intro H.
  apply andb_true_iff in H as [H Hrun]. apply andb_true_iff in H as [H Hinit0].
  apply andb_true_iff in H as [Hfin Hinit].
  destruct (run_states_k _ 0 (kinit (cc_k c)) (kc_legs (cc_k c))) as [ss|] eqn:E; [|discriminate].
  split; [unfold check_kcase, run_ok; rewrite E, Hfin, Hinit; reflexivity|].
  split; [exact Hinit0|].
  exists ss. split; [reflexivity|]. intros i s Hi Hs. eapply composites_ok_spec; eauto.
Qed.
