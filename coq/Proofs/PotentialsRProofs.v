(** * Proofs/PotentialsRProofs.v — lemmas about Model/PotentialsR.v and Model/CoulombBoundR.v (C02, C03). *)
From Coq Require Import Reals Lra Lia List.
From Coquelicot Require Import Coquelicot.
Require Import JF.Model.PotentialsR JF.Model.CoulombBoundR.
Import ListNotations.
Open Scope R_scope.

(** ** C03: the reported derivative is the rate of change of the energy while the active unit advances *)

(** the pair distance along the path: the active unit advances by s*v, the separation component shrinks *)
Lemma rpath_is_derive (x q v : R) :
  0 < q + x * x ->
  is_derive (fun s => sqrt (q + (x - s * v) * (x - s * v))) 0 (- (v * x) / sqrt (q + x * x)).
Proof.
  intros H.
  auto_derive.
  - replace (q + (x + - (0 * v)) * (x + - (0 * v))) with (q + x * x) by ring. exact H.
  - replace (q + (x + - (0 * v)) * (x + - (0 * v))) with (q + x * x) by ring.
    assert (Hs : sqrt (q + x * x) <> 0) by (apply Rgt_not_eq, sqrt_lt_R0, H).
    field. exact Hs.
Qed.

Lemma radial_derive (U : R -> R) (U' x q v : R) :
  0 < q + x * x ->
  is_derive U (sqrt (q + x * x)) U' ->
  is_derive (fun s => U (sqrt (q + (x - s * v) * (x - s * v)))) 0 (U' * (- (v * x) / sqrt (q + x * x))).
Proof.
  intros H HU.
  assert (E : sqrt (q + (x - 0 * v) * (x - 0 * v)) = sqrt (q + x * x)) by (f_equal; ring).
  rewrite <- E in HU.
  pose proof (is_derive_comp U (fun s => sqrt (q + (x - s * v) * (x - s * v))) 0 U'
                (- (v * x) / sqrt (q + x * x)) HU (rpath_is_derive x q v H)) as D.
  unfold scal in D; simpl in D; unfold mult in D; simpl in D.
  replace (U' * (- (v * x) / sqrt (q + x * x))) with (- (v * x) / sqrt (q + x * x) * U') by ring.
  exact D.
Qed.

(** *** inverse power *)
Lemma ip_U_is_derive (p kc r : R) :
  0 < r -> is_derive (ip_U p kc) r (- p * kc / Rpower r (p + 1)).
Proof.
  intros Hr. unfold ip_U, Rpower.
  auto_derive.
  - split; [exact Hr | split; [apply Rgt_not_eq, exp_pos | exact I]].
  - replace ((p + 1) * ln r) with (p * ln r + ln r) by ring.
    rewrite exp_plus, (exp_ln r Hr).
    pose proof (exp_pos (p * ln r)) as He.
    field. split; lra.
Qed.

Lemma Rpower_succ (r p : R) : 0 < r -> Rpower r (p + 1) = Rpower r p * r.
Proof. intros; rewrite Rpower_plus, Rpower_1; auto. Qed.

Theorem ip_derivative_is_derive (p pref c1 c2 x q speed : R) :
  0 < q + x * x ->
  is_derive (fun s => ip_U p (pref * c1 * c2) (sqrt (q + (x - s * speed) * (x - s * speed)))) 0
            (sv_derivative (ip_derivative p pref c1 c2 x q) speed).
Proof.
  intros H.
  assert (Hr : 0 < sqrt (q + x * x)) by (apply sqrt_lt_R0, H).
  pose proof (radial_derive (ip_U p (pref * c1 * c2)) _ x q speed H (ip_U_is_derive p (pref * c1 * c2) _ Hr)) as D.
  unfold sv_derivative, ip_derivative.
  replace (p + 2) with ((p + 1) + 1) by ring.
  rewrite (Rpower_succ _ (p + 1) Hr).
  match goal with |- is_derive _ _ ?a => match type of D with is_derive _ _ ?b => replace a with b; [exact D|] end end.
  pose proof (exp_pos ((p + 1) * ln (sqrt (q + x * x)))) as He. fold (Rpower (sqrt (q + x * x)) (p + 1)) in He.
  field. split; lra.
Qed.

(** *** Lennard-Jones *)
Lemma lj_U_is_derive (k sigma r : R) :
  0 < r -> is_derive (lj_U k sigma) r (k * (- 12 * sigma ^ 12 / r ^ 13 + 6 * sigma ^ 6 / r ^ 7)).
Proof.
  intros Hr. unfold lj_U.
  auto_derive.
  - repeat split; apply Rgt_not_eq; exact Hr.
  - field. apply Rgt_not_eq; exact Hr.
Qed.

Lemma Rpower_nat (r : R) (n : nat) (a : R) : 0 < r -> a = INR n -> Rpower r a = r ^ n.
Proof. intros Hr ->. apply Rpower_pow, Hr. Qed.

Theorem lj_derivative_is_derive (k sigma x q speed : R) :
  0 < q + x * x ->
  is_derive (fun s => lj_U k sigma (sqrt (q + (x - s * speed) * (x - s * speed)))) 0
            (sv_derivative (lj_derivative k sigma x q) speed).
Proof.
  intros H.
  assert (Hr : 0 < sqrt (q + x * x)) by (apply sqrt_lt_R0, H).
  pose proof (radial_derive (lj_U k sigma) _ x q speed H (lj_U_is_derive k sigma _ Hr)) as D.
  unfold sv_derivative, lj_derivative, ip_derivative.
  rewrite (Rpower_nat _ 8 (6 + 2) Hr) by (simpl; ring).
  rewrite (Rpower_nat _ 14 (12 + 2) Hr) by (simpl; ring).
  match goal with |- is_derive _ _ ?a => match type of D with is_derive _ _ ?b => replace a with b; [exact D|] end end.
  field. apply Rgt_not_eq; exact Hr.
Qed.

(** *** displaced even power *)
Lemma dep_U_is_derive (k r0 : R) (p : nat) (r : R) :
  is_derive (dep_U k r0 p) r (k * (INR p * (r - r0) ^ pred p)).
Proof.
  unfold dep_U.
  apply (is_derive_scal (fun r => (r - r0) ^ p) r k).
  pose proof (is_derive_pow (fun r => r - r0) p r 1) as D.
  replace (INR p * (r - r0) ^ pred p) with (INR p * 1 * (r - r0) ^ pred p) by ring.
  apply D. auto_derive; [exact I | ring].
Qed.

Theorem dep_derivative_is_derive (k r0 : R) (p : nat) (x q speed : R) :
  0 < q + x * x ->
  is_derive (fun s => dep_U k r0 p (sqrt (q + (x - s * speed) * (x - s * speed)))) 0
            (sv_derivative (dep_derivative k r0 p x q) speed).
Proof.
  intros H.
  assert (Hr : 0 < sqrt (q + x * x)) by (apply sqrt_lt_R0, H).
  pose proof (radial_derive (dep_U k r0 p) _ x q speed H (dep_U_is_derive k r0 p _)) as D.
  unfold sv_derivative, dep_derivative.
  replace (p - 1)%nat with (pred p) by lia.
  match goal with |- is_derive _ _ ?a => match type of D with is_derive _ _ ?b => replace a with b; [exact D|] end end.
  field. apply Rgt_not_eq; exact Hr.
Qed.

(** *** 1/r bounding potential of the C extension (nearest image, inside the primary cell) *)
Lemma inv_U_is_derive (kc r : R) : 0 < r -> is_derive (fun r => kc / r) r (- kc / (r * r)).
Proof. intros Hr. auto_derive; [apply Rgt_not_eq, Hr | field; apply Rgt_not_eq, Hr]. Qed.

Theorem ipc_derivative_is_derive (kc x q speed : R) :
  0 < q + x * x ->
  is_derive (fun s => ipc_pot kc (x - s * speed) q) 0 (sv_derivative (ipc_derivative kc x q) speed).
Proof.
  intros H.
  assert (Hr : 0 < sqrt (q + x * x)) by (apply sqrt_lt_R0, H).
  pose proof (radial_derive (fun r => kc / r) _ x q speed H (inv_U_is_derive kc _ Hr)) as D.
  unfold ipc_pot.
  apply (is_derive_ext (fun s => kc / sqrt (q + (x - s * speed) * (x - s * speed)))).
  { intros t. f_equal. f_equal. ring. }
  unfold sv_derivative, ipc_derivative.
  replace (x * x + q) with (q + x * x) by ring.
  replace (Rpower (q + x * x) (3 / 2)) with (sqrt (q + x * x) * sqrt (q + x * x) * sqrt (q + x * x)).
  - match goal with |- is_derive _ _ ?a => match type of D with is_derive _ _ ?b => replace a with b; [exact D|] end end.
    field. apply Rgt_not_eq; exact Hr.
  - replace (3 / 2) with (1 + / 2) by field.
    rewrite Rpower_plus, Rpower_1, Rpower_sqrt by exact H.
    rewrite sqrt_sqrt by lra. reflexivity.
Qed.

(** *** cell bounding: constant bounding rate (the bounding "energy" grows linearly with the distance) *)
Theorem cb_derivative_is_derive (rate speed : R) :
  is_derive (fun s => rate * (s * speed)) 0 (sv_derivative (cb_derivative rate) speed).
Proof. unfold sv_derivative, cb_derivative. auto_derive; [exact I | ring]. Qed.

(** *** linearity in the speed and in the charge product *)
Lemma sv_linear_in_speed (D a v : R) : sv_derivative D (a * v) = a * sv_derivative D v.
Proof. unfold sv_derivative; ring. Qed.

Lemma ip_linear_in_charge (p pref a c1 c2 x q : R) :
  ip_derivative p pref (a * c1) c2 x q = a * ip_derivative p pref c1 c2 x q.
Proof. unfold ip_derivative; ring. Qed.

Lemma ip_charge_product_only (p pref c1 c2 x q : R) :
  ip_derivative p pref c1 c2 x q = (c1 * c2) * ip_derivative p pref 1 1 x q.
Proof. unfold ip_derivative; ring. Qed.

Lemma ipc_linear_in_prefactor_product (a kc x q : R) : ipc_derivative (a * kc) x q = a * ipc_derivative kc x q.
Proof. unfold ipc_derivative; unfold Rdiv; ring. Qed.

(** *** vectors.permutation_3d maps direction d onto the x routine *)
Lemma permutation_maps (f : R -> R -> R) (v : vec3) (d : nat) :
  (d < 3)%nat ->
  (let '(a, b, c) := perm3 v d in f a (b * b + c * c)) = f (comp3 v d) (trans3 v d).
Proof.
  intros Hd. destruct v as [[a b] c].
  destruct d as [|[|[|d]]]; simpl; try lia; f_equal; ring.
Qed.

(** *** three-dimensional form: separation vector, motion along axis d *)
Lemma norm3_path (sep : vec3) (d : nat) (t : R) :
  (d < 3)%nat ->
  norm3 (sub3 sep (scal3 t (unit3 d))) = sqrt (trans3 sep d + (comp3 sep d - t) * (comp3 sep d - t)).
Proof.
  intros Hd. destruct sep as [[a b] c]. unfold norm3.
  destruct d as [|[|[|d]]]; simpl; try lia; f_equal; ring.
Qed.

Lemma norm3_sq (sep : vec3) (d : nat) :
  (d < 3)%nat -> dot3 sep sep = trans3 sep d + comp3 sep d * comp3 sep d.
Proof.
  intros Hd. destruct sep as [[a b] c].
  destruct d as [|[|[|d]]]; simpl; try lia; ring.
Qed.

Theorem derivative_is_derive_3d (U : R -> R) (D : R -> R -> R) (speed : R) (sep : vec3) (d : nat) :
  (d < 3)%nat -> 0 < dot3 sep sep ->
  (forall x q, 0 < q + x * x ->
     is_derive (fun s => U (sqrt (q + (x - s * speed) * (x - s * speed)))) 0 (sv_derivative (D x q) speed)) ->
  is_derive (fun s => U (norm3 (sub3 sep (scal3 (s * speed) (unit3 d))))) 0
            (sv_derivative (D (comp3 sep d) (trans3 sep d)) speed).
Proof.
  intros Hd Hn HD.
  apply (is_derive_ext (fun s => U (sqrt (trans3 sep d + (comp3 sep d - s * speed) * (comp3 sep d - s * speed))))).
  { intros t. rewrite (norm3_path sep d (t * speed) Hd). reflexivity. }
  apply HD. rewrite <- (norm3_sq sep d Hd). exact Hn.
Qed.

(** ** C02: hard sphere — the returned time is the first contact time *)
Lemma dist_sq_path (s v : vec3) (t : R) :
  dot3 (sub3 s (scal3 t v)) (sub3 s (scal3 t v)) = dot3 s s - 2 * t * dot3 v s + t * t * dot3 v v.
Proof. destruct s as [[a b] c], v as [[a' b'] c']. simpl. ring. Qed.

Lemma hs_cases (d2 : R) (v s : vec3) :
  let vv := dot3 v v in let ss := dot3 s s in let vs := dot3 v s in
  let D := vs * vs - vv * (ss - d2) in
  (0 <= D /\ 0 <= vs /\ hs_displacement d2 v s = Some ((vs - sqrt D) / vv)) \/
  ((D < 0 \/ vs < 0) /\ hs_displacement d2 v s = None).
Proof.
  intros vv ss vs D. unfold hs_displacement. fold vv ss vs. fold D.
  destruct (Rle_dec 0 D) as [HD|HD]; destruct (Rle_dec 0 vs) as [Hv|Hv].
  - left; auto.
  - right; split; [right; lra | reflexivity].
  - right; split; [left; lra | reflexivity].
  - right; split; [left; lra | reflexivity].
Qed.

Theorem hs_first_contact (d2 : R) (v s : vec3) (t : R) :
  0 < dot3 v v -> d2 <= dot3 s s ->
  hs_displacement d2 v s = Some t ->
  0 <= t /\
  dot3 (sub3 s (scal3 t v)) (sub3 s (scal3 t v)) = d2 /\
  (forall t', 0 <= t' < t -> d2 < dot3 (sub3 s (scal3 t' v)) (sub3 s (scal3 t' v))).
Proof.
  intros Hvv Hss H.
  destruct (hs_cases d2 v s) as [[HD [Hvs E]]|[_ E]]; rewrite E in H; [|discriminate].
  injection H as <-.
  set (vv := dot3 v v) in *. set (ss := dot3 s s) in *. set (vs := dot3 v s) in *.
  set (D := vs * vs - vv * (ss - d2)) in *.
  pose proof (sqrt_pos D) as Hs0.
  pose proof (sqrt_sqrt D HD) as Hs2.
  assert (Hle : sqrt D <= vs).
  { destruct (Rle_lt_dec (sqrt D) vs) as [L|L]; [exact L|]. exfalso.
    assert (vs * vs < sqrt D * sqrt D) by nra. unfold D in *. nra. }
  set (t := (vs - sqrt D) / vv).
  assert (Et : vv * t = vs - sqrt D) by (unfold t; field; lra).
  split; [|split].
  - unfold t. apply Rmult_le_pos; [lra | left; apply Rinv_0_lt_compat; exact Hvv].
  - rewrite dist_sq_path. fold vv ss vs.
    assert (vv * (ss - 2 * t * vs + t * t * vv - d2) = 0).
    { replace (vv * (ss - 2 * t * vs + t * t * vv - d2)) with ((vv * t - vs) * (vv * t - vs) - D) by (unfold D; ring).
      rewrite Et. ring_simplify. ring_simplify in Hs2. lra. }
    assert (ss - 2 * t * vs + t * t * vv - d2 = 0) by nra. lra.
  - intros t' [H0 Hlt]. rewrite dist_sq_path. fold vv ss vs.
    assert (0 < vv * (ss - 2 * t' * vs + t' * t' * vv - d2)).
    { replace (vv * (ss - 2 * t' * vs + t' * t' * vv - d2)) with ((vv * t' - vs) * (vv * t' - vs) - D) by (unfold D; ring).
      assert (vv * t' - vs < - sqrt D) by nra. nra. }
    assert (0 < ss - 2 * t' * vs + t' * t' * vv - d2) by nra. lra.
Qed.

(** stated for a start strictly outside the sphere; on the sphere itself (measure zero) the code returns 0 when
    approaching or moving tangentially and inf when separating *)
Theorem hs_infinite_iff_no_contact (d2 : R) (v s : vec3) :
  0 < dot3 v v -> d2 < dot3 s s ->
  (hs_displacement d2 v s = None <->
   forall t, 0 <= t -> d2 < dot3 (sub3 s (scal3 t v)) (sub3 s (scal3 t v))).
Proof.
  intros Hvv Hss. split.
  - intros H t Ht.
    destruct (hs_cases d2 v s) as [[HD [Hvs E]]|[C _]]; [rewrite E in H; discriminate|].
    rewrite dist_sq_path.
    set (vv := dot3 v v) in *. set (ss := dot3 s s) in *. set (vs := dot3 v s) in *.
    destruct C as [C|C].
    + assert (0 < vv * (ss - 2 * t * vs + t * t * vv - d2)).
      { replace (vv * (ss - 2 * t * vs + t * t * vv - d2))
          with ((vv * t - vs) * (vv * t - vs) - (vs * vs - vv * (ss - d2))) by ring.
        pose proof (Rle_0_sqr (vv * t - vs)) as Hsq. unfold Rsqr in Hsq. cbv zeta in C. lra. }
      assert (0 < ss - 2 * t * vs + t * t * vv - d2) by nra. lra.
    + cbv zeta in C. assert (0 <= - 2 * t * vs) by nra. assert (0 <= t * t * vv) by nra. lra.
  - intros H.
    destruct (hs_cases d2 v s) as [[HD [Hvs E]]|[_ E]]; [|exact E]. exfalso.
    assert (Hle : d2 <= dot3 s s) by lra.
    destruct (hs_first_contact d2 v s _ Hvv Hle E) as [H0 [Heq _]].
    specialize (H _ H0). lra.
Qed.

(** ** C02: inverse power potential — the displacement inverts the cumulative uphill energy *)

(** the code's potential(charge_product, separation) is the energy U = c k / r^p at r = |separation| *)
Lemma ip_potential_U (p pref c r2 : R) :
  0 < r2 -> ip_potential p pref c r2 = ip_U p (c * pref) (sqrt r2).
Proof.
  intros H. unfold ip_potential, ip_U.
  rewrite <- (Rpower_sqrt r2 H), Rpower_mult.
  replace (/ 2 * p) with (p / 2) by field. reflexivity.
Qed.

Lemma Rpower_inv_exp (a p : R) : 0 < a -> p <> 0 -> Rpower (Rpower a (2 / p)) (p / 2) = a.
Proof.
  intros Ha Hp. rewrite Rpower_mult.
  replace (2 / p * (p / 2)) with 1 by (field; exact Hp). apply Rpower_1, Ha.
Qed.

Lemma Rpower_inv_exp' (a p : R) : 0 < a -> p <> 0 -> Rpower (Rpower a (p / 2)) (2 / p) = a.
Proof.
  intros Ha Hp. rewrite Rpower_mult.
  replace (p / 2 * (2 / p)) with 1 by (field; exact Hp). apply Rpower_1, Ha.
Qed.

Lemma Rpower_pos (a b : R) : 0 < Rpower a b.
Proof. unfold Rpower; apply exp_pos. Qed.

(** energy along the path as the code evaluates it *)
Definition ip_path (p pref c x q s : R) : R := ip_potential p pref c (q + (x - s) * (x - s)).

(** monotone pieces: for k = c*pref > 0 the energy increases while approaching (s < x) and decreases afterwards;
    for k < 0 the other way round *)
Lemma ip_potential_antitone (p pref c a b : R) :
  0 < p -> 0 < c * pref -> 0 < a -> a <= b -> ip_potential p pref c b <= ip_potential p pref c a.
Proof.
  intros Hp Hk Ha Hab. unfold ip_potential.
  assert (Rpower a (p / 2) <= Rpower b (p / 2)) by (apply Rle_Rpower_l; lra).
  pose proof (Rpower_pos a (p / 2)). pose proof (Rpower_pos b (p / 2)).
  unfold Rdiv. apply Rmult_le_compat_l; [lra|]. apply Rinv_le_contravar; assumption.
Qed.

Lemma ip_potential_antitone_strict (p pref c a b : R) :
  0 < p -> 0 < c * pref -> 0 < a -> a < b -> ip_potential p pref c b < ip_potential p pref c a.
Proof.
  intros Hp Hk Ha Hab. unfold ip_potential.
  assert (Rpower a (p / 2) < Rpower b (p / 2)) by (apply Rlt_Rpower_l; lra).
  pose proof (Rpower_pos a (p / 2)). pose proof (Rpower_pos b (p / 2)).
  unfold Rdiv. apply Rmult_lt_compat_l; [lra|]. apply Rinv_lt_contravar; [nra | assumption].
Qed.

Lemma ip_potential_monotone_neg (p pref c a b : R) :
  0 < p -> c * pref < 0 -> 0 < a -> a <= b -> ip_potential p pref c a <= ip_potential p pref c b.
Proof.
  intros Hp Hk Ha Hab. unfold ip_potential.
  assert (Rpower a (p / 2) <= Rpower b (p / 2)) by (apply Rle_Rpower_l; lra).
  pose proof (Rpower_pos a (p / 2)). pose proof (Rpower_pos b (p / 2)).
  assert (/ Rpower b (p / 2) <= / Rpower a (p / 2)) by (apply Rinv_le_contravar; assumption).
  unfold Rdiv. nra.
Qed.

Lemma ip_potential_pos (p pref c r2 : R) : 0 < c * pref -> 0 < ip_potential p pref c r2.
Proof. intros. unfold ip_potential. apply Rdiv_lt_0_compat; [assumption | apply Rpower_pos]. Qed.

(** inverting the potential: the squared norm at which the energy equals E *)
Lemma ip_invert (p pref c E : R) :
  0 < p -> 0 < (c * pref) / E ->
  ip_potential p pref c (Rpower (c * pref / E) (2 / p)) = E.
Proof.
  intros Hp Hq. unfold ip_potential.
  rewrite Rpower_inv_exp by lra.
  assert (E <> 0). { intros ->. unfold Rdiv in Hq. rewrite Rinv_0, Rmult_0_r in Hq. lra. }
  assert (c * pref <> 0). { intros Z. rewrite Z in Hq. unfold Rdiv in Hq. rewrite Rmult_0_l in Hq. lra. }
  field. repeat split; try assumption; intros Z; apply H0; rewrite Z; ring.
Qed.

(** *** repulsive branch *)
Theorem ip_repulsive_inverts (p pref c dE x q d : R) :
  0 < p -> 0 < q -> 0 < dE -> 0 < c * pref ->
  ip_disp_repulsive p pref c dE x q = Some d ->
  0 < d < x /\
  q <= Rpower (c * pref / (ip_potential p pref c (q + x * x) + dE)) (2 / p) /\   (* radicand non-negative *)
  ip_path p pref c x q d = ip_path p pref c x q 0 + dE /\
  Eplus (ip_path p pref c x q) (breaks_monotone x) d = dE.
Proof.
  intros Hp Hq HdE Hk H. unfold ip_disp_repulsive in H.
  destruct (Rle_dec x 0) as [|Hx]; [discriminate|]. apply Rnot_le_lt in Hx.
  cbv zeta in H.
  replace (q + 0 * 0) with q in H by ring.
  set (Umax := ip_potential p pref c q) in *.
  set (U0 := ip_potential p pref c (q + x * x)) in *.
  destruct (Rlt_dec dE (Umax - U0)) as [Hlt|]; [|discriminate].
  injection H as <-.
  set (n2 := Rpower (c * pref / (U0 + dE)) (2 / p)).
  assert (HU0 : 0 < U0) by (apply ip_potential_pos; exact Hk).
  assert (Hquot : 0 < c * pref / (U0 + dE)) by (apply Rdiv_lt_0_compat; lra).
  assert (Hn2 : ip_potential p pref c n2 = U0 + dE) by (apply ip_invert; assumption).
  assert (Hn2pos : 0 < n2) by apply Rpower_pos.
  (* q < n2 < q + x^2 by strict antitonicity *)
  assert (Hqn : q < n2).
  { destruct (Rlt_le_dec q n2) as [L|L]; [exact L|]. exfalso.
    pose proof (ip_potential_antitone p pref c n2 q Hp Hk Hn2pos L). fold Umax in H. lra. }
  assert (Hnx : n2 < q + x * x).
  { destruct (Rlt_le_dec n2 (q + x * x)) as [L|L]; [exact L|]. exfalso.
    assert (0 < q + x * x) by nra.
    pose proof (ip_potential_antitone p pref c (q + x * x) n2 Hp Hk H L). fold U0 in H0. lra. }
  assert (Hs : 0 < sqrt (n2 - q) < x).
  { split; [apply sqrt_lt_R0; lra|].
    rewrite <- (sqrt_square x) by lra. apply sqrt_lt_1_alt. split; lra. }
  unfold until_pos.
  assert (Hd : 0 < x - sqrt (n2 - q) < x) by lra.
  assert (Hpath : ip_path p pref c x q (x - sqrt (n2 - q)) = ip_path p pref c x q 0 + dE).
  { unfold ip_path.
    replace (x - (x - sqrt (n2 - q))) with (sqrt (n2 - q)) by ring.
    rewrite sqrt_sqrt by lra.
    replace (q + (n2 - q)) with n2 by ring.
    replace (x - 0) with x by ring. fold U0. exact Hn2. }
  split; [exact Hd|]. split; [lra|]. split; [exact Hpath|].
  unfold Eplus, breaks_monotone, pos_var_from, clamp.
  rewrite (Rmin_left _ x) by lra. rewrite (Rmax_right 0 (x - sqrt (n2 - q))) by lra.
  rewrite Hpath.
  replace (ip_path p pref c x q 0 + dE - ip_path p pref c x q 0) with dE by ring.
  replace (ip_path p pref c x q 0 + dE - (ip_path p pref c x q 0 + dE)) with 0 by ring.
  rewrite (Rmax_right 0 dE) by lra. rewrite (Rmax_left 0 0) by lra. ring.
Qed.

Lemma Eplus_one_break (f : R -> R) (x d : R) :
  Eplus f (breaks_monotone x) d = Rmax 0 (f (clamp d x) - f 0) + Rmax 0 (f d - f (clamp d x)).
Proof. reflexivity. Qed.

Ltac rmax_lra :=
  unfold Rmax; repeat match goal with |- context [Rle_dec ?a ?b] => destruct (Rle_dec a b) end; lra.

Theorem ip_repulsive_infinite (p pref c dE x q : R) :
  0 < p -> 0 < q -> 0 < dE -> 0 < c * pref ->
  ip_disp_repulsive p pref c dE x q = None ->
  forall d, 0 <= d -> Eplus (ip_path p pref c x q) (breaks_monotone x) d <= dE.
Proof.
  intros Hp Hq HdE Hk H d Hd. rewrite Eplus_one_break. unfold clamp, ip_path.
  unfold ip_disp_repulsive in H.
  destruct (Rle_dec x 0) as [Hx|Hx].
  - (* moving away: the energy never increases *)
    rewrite (Rmax_left 0 (Rmin d x)) by (pose proof (Rmin_r d x); lra).
    replace (x - 0) with x by ring.
    assert (ip_potential p pref c (q + (x - d) * (x - d)) <= ip_potential p pref c (q + x * x)).
    { apply ip_potential_antitone; try assumption; nra. }
    rmax_lra.
  - apply Rnot_le_lt in Hx. cbv zeta in H. replace (q + 0 * 0) with q in H by ring.
    destruct (Rlt_dec dE (ip_potential p pref c q - ip_potential p pref c (q + x * x))) as [|Hge]; [discriminate|].
    apply Rnot_lt_le in Hge.
    replace (x - 0) with x by ring.
    destruct (Rle_lt_dec d x) as [Hdx|Hdx].
    + rewrite (Rmin_left d x) by lra. rewrite (Rmax_right 0 d) by lra.
      assert (ip_potential p pref c (q + (x - d) * (x - d)) <= ip_potential p pref c q).
      { apply ip_potential_antitone; try assumption; nra. }
      rmax_lra.
    + rewrite (Rmin_right d x) by lra. rewrite (Rmax_right 0 x) by lra.
      replace (x - x) with 0 by ring. replace (q + 0 * 0) with q by ring.
      assert (ip_potential p pref c (q + (x - d) * (x - d)) <= ip_potential p pref c q).
      { apply ip_potential_antitone; try assumption; nra. }
      rmax_lra.
Qed.

Corollary ip_repulsive_infinite_iff (p pref c dE x q : R) :
  0 < p -> 0 < q -> 0 < dE -> 0 < c * pref ->
  ((forall d, 0 <= d -> Eplus (ip_path p pref c x q) (breaks_monotone x) d < dE) ->
   ip_disp_repulsive p pref c dE x q = None) /\
  (ip_disp_repulsive p pref c dE x q = None ->
   forall d, 0 <= d -> Eplus (ip_path p pref c x q) (breaks_monotone x) d <= dE).
Proof.
  intros Hp Hq HdE Hk. split.
  - intros H. destruct (ip_disp_repulsive p pref c dE x q) as [d|] eqn:E; [|reflexivity]. exfalso.
    destruct (ip_repulsive_inverts p pref c dE x q d Hp Hq HdE Hk E) as [[Hd _] [_ [_ HE]]].
    specialize (H d (Rlt_le _ _ Hd)). lra.
  - apply ip_repulsive_infinite; assumption.
Qed.

(** *** attractive branch *)
Lemma ip_potential_neg (p pref c r2 : R) : c * pref < 0 -> ip_potential p pref c r2 < 0.
Proof.
  intros. unfold ip_potential, Rdiv. pose proof (Rpower_pos r2 (p / 2)).
  assert (0 < / Rpower r2 (p / 2)) by (apply Rinv_0_lt_compat; assumption). nra.
Qed.

Lemma ip_potential_monotone_neg_strict (p pref c a b : R) :
  0 < p -> c * pref < 0 -> 0 < a -> a < b -> ip_potential p pref c a < ip_potential p pref c b.
Proof.
  intros Hp Hk Ha Hab. unfold ip_potential.
  assert (Rpower a (p / 2) < Rpower b (p / 2)) by (apply Rlt_Rpower_l; lra).
  pose proof (Rpower_pos a (p / 2)). pose proof (Rpower_pos b (p / 2)).
  assert (/ Rpower b (p / 2) < / Rpower a (p / 2)) by (apply Rinv_lt_contravar; [nra | assumption]).
  unfold Rdiv. nra.
Qed.

Theorem ip_attractive_inverts (p pref c dE x q d : R) :
  0 < p -> 0 < q -> 0 < dE -> c * pref < 0 ->
  ip_disp_attractive p pref c dE x q = Some d ->
  Rmax 0 x < d /\
  ip_path p pref c x q d = ip_path p pref c x q (Rmax 0 x) + dE /\
  Eplus (ip_path p pref c x q) (breaks_monotone x) d = dE.
Proof.
  intros Hp Hq HdE Hk H. unfold ip_disp_attractive in H. cbv zeta in H.
  set (d0 := if Rlt_dec 0 x then x else 0) in *.
  set (x1 := if Rlt_dec 0 x then 0 else x) in *.
  assert (Hd0 : d0 = Rmax 0 x /\ x1 <= 0 /\ d0 + x1 = x /\ 0 <= d0).
  { unfold d0, x1. destruct (Rlt_dec 0 x).
    - rewrite Rmax_right by lra. lra.
    - rewrite Rmax_left by lra. lra. }
  destruct Hd0 as [Ed0 [Hx1 [Esum Hd0]]].
  set (U0 := ip_potential p pref c (q + x1 * x1)) in *.
  destruct (Rle_dec 0 (U0 + dE)) as [|Hneg]; [discriminate|]. apply Rnot_le_lt in Hneg.
  injection H as <-.
  set (n2 := Rpower (c * pref / (U0 + dE)) (2 / p)).
  assert (Hquot : 0 < c * pref / (U0 + dE)).
  { unfold Rdiv. assert (/ (U0 + dE) < 0) by (apply Rinv_lt_0_compat; lra). nra. }
  assert (Hn2 : ip_potential p pref c n2 = U0 + dE) by (apply ip_invert; assumption).
  assert (Hn2pos : 0 < n2) by apply Rpower_pos.
  assert (Hr1 : 0 < q + x1 * x1) by nra.
  assert (Hgt : q + x1 * x1 < n2).
  { destruct (Rlt_le_dec (q + x1 * x1) n2) as [L|L]; [exact L|]. exfalso.
    pose proof (ip_potential_monotone_neg p pref c n2 (q + x1 * x1) Hp Hk Hn2pos L). fold U0 in H. lra. }
  assert (Hnq : 0 < n2 - q) by nra.
  assert (Hs : - x1 < sqrt (n2 - q)).
  { rewrite <- (sqrt_square (- x1)) by lra. apply sqrt_lt_1_alt. split; nra. }
  unfold until_neg.
  assert (Hd : Rmax 0 x < d0 + (x1 + sqrt (n2 - q))) by lra.
  assert (Hpath : ip_path p pref c x q (d0 + (x1 + sqrt (n2 - q))) = ip_path p pref c x q (Rmax 0 x) + dE).
  { unfold ip_path.
    replace (x - (d0 + (x1 + sqrt (n2 - q)))) with (- sqrt (n2 - q)) by lra.
    replace (- sqrt (n2 - q) * - sqrt (n2 - q)) with (sqrt (n2 - q) * sqrt (n2 - q)) by ring.
    rewrite sqrt_sqrt by lra. replace (q + (n2 - q)) with n2 by ring.
    replace (x - Rmax 0 x) with x1 by lra. fold U0. exact Hn2. }
  split; [exact Hd|]. split; [exact Hpath|].
  rewrite Eplus_one_break. unfold clamp.
  set (d := d0 + (x1 + sqrt (n2 - q))) in *.
  assert (Ec : Rmax 0 (Rmin d x) = Rmax 0 x).
  { rewrite (Rmin_right d x); [reflexivity|]. pose proof (Rmax_r 0 x). lra. }
  rewrite Ec, Hpath.
  assert (Hdown : ip_path p pref c x q (Rmax 0 x) <= ip_path p pref c x q 0).
  { unfold ip_path. replace (x - 0) with x by ring. replace (x - Rmax 0 x) with x1 by lra.
    apply ip_potential_monotone_neg; try assumption.
    clear - Hq. subst x1. destruct (Rlt_dec 0 x); nra. }
  set (A := ip_path p pref c x q (Rmax 0 x)) in *. set (B := ip_path p pref c x q 0) in *.
  rmax_lra.
Qed.

Theorem ip_attractive_infinite (p pref c dE x q : R) :
  0 < p -> 0 < q -> 0 < dE -> c * pref < 0 ->
  ip_disp_attractive p pref c dE x q = None ->
  forall d, 0 <= d -> Eplus (ip_path p pref c x q) (breaks_monotone x) d < dE.
Proof.
  intros Hp Hq HdE Hk H d Hd. unfold ip_disp_attractive in H. cbv zeta in H.
  set (x1 := if Rlt_dec 0 x then 0 else x) in *.
  assert (Hx1 : x1 = x - Rmax 0 x).
  { unfold x1. destruct (Rlt_dec 0 x); [rewrite Rmax_right by lra | rewrite Rmax_left by lra]; ring. }
  set (U0 := ip_potential p pref c (q + x1 * x1)) in *.
  destruct (Rle_dec 0 (U0 + dE)) as [Hge|]; [|discriminate].
  rewrite Eplus_one_break. unfold clamp.
  assert (Hc : Rmax 0 x = Rmax 0 (Rmin d x) \/ (d < x /\ Rmax 0 (Rmin d x) = d)).
  { destruct (Rle_lt_dec x d); [left; rewrite Rmin_right by lra; reflexivity|].
    right. rewrite Rmin_left by lra. rewrite Rmax_right by lra. lra. }
  assert (Hneg : forall s, ip_path p pref c x q s < 0) by (intros; apply ip_potential_neg; exact Hk).
  assert (Hdown : forall s, 0 <= s <= x -> ip_path p pref c x q s <= ip_path p pref c x q 0).
  { intros s Hs. unfold ip_path. apply ip_potential_monotone_neg; try assumption; nra. }
  destruct Hc as [Hc|[Hdx Hc]].
  - rewrite <- Hc.
    assert (E0 : ip_path p pref c x q (Rmax 0 x) = U0).
    { unfold ip_path, U0. rewrite Hx1. reflexivity. }
    assert (ip_path p pref c x q (Rmax 0 x) <= ip_path p pref c x q 0).
    { destruct (Rle_lt_dec x 0); [rewrite Rmax_left by lra; lra|]. rewrite Rmax_right by lra. apply Hdown; lra. }
    pose proof (Hneg d).
    set (A := ip_path p pref c x q (Rmax 0 x)) in *. set (B := ip_path p pref c x q 0) in *.
    set (D := ip_path p pref c x q d) in *. rmax_lra.
  - rewrite Hc.
    assert (ip_path p pref c x q d <= ip_path p pref c x q 0) by (apply Hdown; lra).
    set (B := ip_path p pref c x q 0) in *. set (D := ip_path p pref c x q d) in *. rmax_lra.
Qed.

(** *** the whole standard_velocity_displacement of InversePowerPotential, including the division by the speed *)
Theorem ip_displacement_inverts (p pref c1 c2 dE x q speed t : R) :
  0 < p -> 0 < q -> 0 < dE -> 0 < speed -> pref * (c1 * c2) <> 0 ->
  sv_displacement (ip_displacement p pref c1 c2 dE x q) speed = Some t ->
  0 < t /\ Eplus (ip_path p pref (c1 * c2) x q) (breaks_monotone x) (t * speed) = dE.
Proof.
  intros Hp Hq HdE Hv Hk H. unfold sv_displacement, ip_displacement in H. cbv zeta in H.
  destruct (Rlt_dec 0 (pref * (c1 * c2))) as [Hpos|Hneg].
  - destruct (ip_disp_repulsive p pref (c1 * c2) dE x q) as [d|] eqn:E; [|discriminate].
    simpl in H. injection H as <-.
    destruct (ip_repulsive_inverts p pref (c1 * c2) dE x q d Hp Hq HdE ltac:(lra) E) as [[Hd _] [_ [_ HE]]].
    split; [apply Rdiv_lt_0_compat; assumption|].
    replace (d / speed * speed) with d by (field; lra). exact HE.
  - destruct (ip_disp_attractive p pref (c1 * c2) dE x q) as [d|] eqn:E; [|discriminate].
    simpl in H. injection H as <-.
    destruct (ip_attractive_inverts p pref (c1 * c2) dE x q d Hp Hq HdE ltac:(lra) E) as [Hd [_ HE]].
    split; [apply Rdiv_lt_0_compat; [pose proof (Rmax_l 0 x); lra | assumption]|].
    replace (d / speed * speed) with d by (field; lra). exact HE.
Qed.

Theorem ip_displacement_infinite (p pref c1 c2 dE x q speed : R) :
  0 < p -> 0 < q -> 0 < dE -> 0 < speed -> pref * (c1 * c2) <> 0 ->
  sv_displacement (ip_displacement p pref c1 c2 dE x q) speed = None ->
  forall d, 0 <= d -> Eplus (ip_path p pref (c1 * c2) x q) (breaks_monotone x) d <= dE.
Proof.
  intros Hp Hq HdE Hv Hk H d Hd. unfold sv_displacement, ip_displacement in H. cbv zeta in H.
  destruct (Rlt_dec 0 (pref * (c1 * c2))) as [Hpos|Hneg].
  - destruct (ip_disp_repulsive p pref (c1 * c2) dE x q) eqn:E; [discriminate|].
    apply (ip_repulsive_infinite p pref (c1 * c2) dE x q); try assumption; lra.
  - destruct (ip_disp_attractive p pref (c1 * c2) dE x q) eqn:E; [discriminate|].
    left. apply (ip_attractive_infinite p pref (c1 * c2) dE x q); try assumption; lra.
Qed.

(** *** radicands: under each branch condition every sqrt / power argument is non-negative (totality in exact
    arithmetic) and the result is non-negative *)
Theorem ip_radicands_nonneg (p pref c dE x q : R) :
  0 < p -> 0 < q -> 0 < dE -> c * pref <> 0 ->
  let k := c * pref in
  (0 < k -> 0 < x -> dE < ip_potential p pref c (q + 0 * 0) - ip_potential p pref c (q + x * x) ->
     let U0 := ip_potential p pref c (q + x * x) in
     0 < k / (U0 + dE) /\ 0 <= Rpower (k / (U0 + dE)) (2 / p) - q /\
     0 <= until_pos x q (Rpower (k / (U0 + dE)) (2 / p))) /\
  (k < 0 ->
     let x1 := if Rlt_dec 0 x then 0 else x in
     let U0 := ip_potential p pref c (q + x1 * x1) in
     U0 + dE < 0 ->
     0 < k / (U0 + dE) /\ 0 <= Rpower (k / (U0 + dE)) (2 / p) - q /\
     0 <= (if Rlt_dec 0 x then x else 0) + until_neg x1 q (Rpower (k / (U0 + dE)) (2 / p))).
Proof.
  intros Hp Hq HdE Hk k. split.
  - intros Hpos Hx Hlt U0.
    assert (E : ip_disp_repulsive p pref c dE x q = Some (until_pos x q (Rpower (k / (U0 + dE)) (2 / p)))).
    { unfold ip_disp_repulsive. destruct (Rle_dec x 0); [lra|]. cbv zeta.
      destruct (Rlt_dec dE _); [reflexivity | contradiction]. }
    destruct (ip_repulsive_inverts p pref c dE x q _ Hp Hq HdE Hpos E) as [[Hd _] [Hrad _]].
    assert (0 < U0) by (apply ip_potential_pos; exact Hpos).
    split; [apply Rdiv_lt_0_compat; lra|]. fold U0 in Hrad. fold k in Hrad. split; lra.
  - intros Hneg x1 U0 Hlt.
    assert (E : ip_disp_attractive p pref c dE x q =
                Some ((if Rlt_dec 0 x then x else 0) + until_neg x1 q (Rpower (k / (U0 + dE)) (2 / p)))).
    { unfold ip_disp_attractive. cbv zeta. fold x1. fold U0.
      destruct (Rle_dec 0 (U0 + dE)); [lra | reflexivity]. }
    destruct (ip_attractive_inverts p pref c dE x q _ Hp Hq HdE Hneg E) as [Hd _].
    assert (Hquot : 0 < k / (U0 + dE)).
    { unfold Rdiv. assert (/ (U0 + dE) < 0) by (apply Rinv_lt_0_compat; lra). nra. }
    split; [exact Hquot|].
    split; [|pose proof (Rmax_l 0 x); lra].
    (* n2 >= q + x1^2 >= q *)
    set (n2 := Rpower (k / (U0 + dE)) (2 / p)).
    assert (Hn2 : ip_potential p pref c n2 = U0 + dE) by (apply ip_invert; assumption).
    assert (Hn2pos : 0 < n2) by apply Rpower_pos.
    destruct (Rlt_le_dec (q + x1 * x1) n2) as [L|L]; [nra|]. exfalso.
    pose proof (ip_potential_monotone_neg p pref c n2 (q + x1 * x1) Hp Hneg Hn2pos L) as M. fold U0 in M. lra.
Qed.

(** *** sign of dU/ds on each monotone piece (ties Eplus to the integral of the positive part of dU/ds) *)
Lemma path_is_derive_at (U : R -> R) (D : R -> R -> R) (x q s0 : R) :
  (forall x q, 0 < q + x * x ->
     is_derive (fun s => U (sqrt (q + (x - s * 1) * (x - s * 1)))) 0 (sv_derivative (D x q) 1)) ->
  0 < q + (x - s0) * (x - s0) ->
  is_derive (fun s => U (sqrt (q + (x - s) * (x - s)))) s0 (D (x - s0) q).
Proof.
  intros HD Hpos.
  pose proof (HD (x - s0) q Hpos) as H0. unfold sv_derivative in H0. rewrite Rmult_1_r in H0.
  (* compose with the translation s |-> s - s0 *)
  pose proof (is_derive_comp (fun s => U (sqrt (q + (x - s0 - s * 1) * (x - s0 - s * 1)))) (fun s => s - s0) s0
               (D (x - s0) q) 1) as C.
  assert (H0' : is_derive (fun s => U (sqrt (q + (x - s0 - s * 1) * (x - s0 - s * 1)))) ((fun s => s - s0) s0) (D (x - s0) q)).
  { simpl. replace (s0 - s0) with 0 by ring. exact H0. }
  specialize (C H0').
  assert (T : is_derive (fun s : R => s - s0) s0 1) by (auto_derive; [exact I | ring]).
  specialize (C T). unfold scal in C; simpl in C; unfold mult in C; simpl in C. rewrite Rmult_1_l in C.
  apply (is_derive_ext (fun s => U (sqrt (q + (x - s0 - (s - s0) * 1) * (x - s0 - (s - s0) * 1))))); [|exact C].
  intros t. f_equal. f_equal. ring.
Qed.

Theorem ip_pieces_monotone (p pref c1 c2 x q s0 : R) :
  0 < p -> 0 < q ->
  is_derive (fun s => ip_U p (pref * c1 * c2) (sqrt (q + (x - s) * (x - s)))) s0 (ip_derivative p pref c1 c2 (x - s0) q) /\
  (0 < pref * c1 * c2 -> (s0 < x -> 0 < ip_derivative p pref c1 c2 (x - s0) q) /\
                         (x < s0 -> ip_derivative p pref c1 c2 (x - s0) q < 0)) /\
  (pref * c1 * c2 < 0 -> (s0 < x -> ip_derivative p pref c1 c2 (x - s0) q < 0) /\
                         (x < s0 -> 0 < ip_derivative p pref c1 c2 (x - s0) q)).
Proof.
  intros Hp Hq.
  assert (Hpos : 0 < q + (x - s0) * (x - s0)).
  { pose proof (Rle_0_sqr (x - s0)) as S. unfold Rsqr in S. lra. }
  split.
  - apply (path_is_derive_at (ip_U p (pref * c1 * c2)) (ip_derivative p pref c1 c2)); [|exact Hpos].
    intros x' q' H'. apply ip_derivative_is_derive. exact H'.
  - unfold ip_derivative.
    pose proof (Rpower_pos (sqrt (q + (x - s0) * (x - s0))) (p + 2)) as HR.
    set (R2 := Rpower (sqrt (q + (x - s0) * (x - s0))) (p + 2)) in *.
    assert (HI : 0 < / R2) by (apply Rinv_0_lt_compat; exact HR).
    replace (p * (x - s0) / R2 * pref * c1 * c2) with ((p * / R2) * ((x - s0) * (pref * c1 * c2))) by (unfold Rdiv; ring).
    assert (HpR : 0 < p * / R2) by nra.
    split; intros Hk; split; intros Hs.
    + apply Rmult_lt_0_compat; [exact HpR | nra].
    + assert ((x - s0) * (pref * c1 * c2) < 0) by nra. nra.
    + assert ((x - s0) * (pref * c1 * c2) < 0) by nra. nra.
    + apply Rmult_lt_0_compat; [exact HpR | nra].
Qed.

(** *** cell bounding potential: constant rate *)
Theorem cb_displacement_inverts (rate dE speed t : R) :
  0 < dE -> 0 < speed ->
  sv_displacement (cb_displacement rate dE) speed = Some t -> 0 < t /\ rate * (t * speed) = dE.
Proof.
  intros HdE Hv H. unfold sv_displacement, cb_displacement in H.
  destruct (Rlt_dec 0 rate) as [Hr|]; [|discriminate]. simpl in H. injection H as <-.
  split.
  - apply Rdiv_lt_0_compat; [apply Rdiv_lt_0_compat|]; assumption.
  - field. lra.
Qed.

Theorem cb_infinite_iff (rate dE speed : R) :
  sv_displacement (cb_displacement rate dE) speed = None <-> rate <= 0.
Proof.
  unfold sv_displacement, cb_displacement. destruct (Rlt_dec 0 rate); simpl; split; intros; try lra; try discriminate.
  reflexivity.
Qed.

(** *** instances used by Props/C03.v *)
Lemma ip_derivative_is_derive_3d (p pref c1 c2 speed : R) (sep : vec3) (d : nat) :
  (d < 3)%nat -> 0 < dot3 sep sep ->
  is_derive (fun s => ip_U p (pref * c1 * c2) (norm3 (sub3 sep (scal3 (s * speed) (unit3 d))))) 0
            (sv_derivative (ip_derivative p pref c1 c2 (comp3 sep d) (trans3 sep d)) speed).
Proof.
  intros. apply (derivative_is_derive_3d (ip_U p (pref * c1 * c2)) (ip_derivative p pref c1 c2)); auto.
  intros. apply ip_derivative_is_derive; assumption.
Qed.

Lemma lj_derivative_is_derive_3d (k sigma speed : R) (sep : vec3) (d : nat) :
  (d < 3)%nat -> 0 < dot3 sep sep ->
  is_derive (fun s => lj_U k sigma (norm3 (sub3 sep (scal3 (s * speed) (unit3 d))))) 0
            (sv_derivative (lj_derivative k sigma (comp3 sep d) (trans3 sep d)) speed).
Proof.
  intros. apply (derivative_is_derive_3d (lj_U k sigma) (lj_derivative k sigma)); auto.
  intros. apply lj_derivative_is_derive; assumption.
Qed.

Lemma dep_derivative_is_derive_3d (k r0 : R) (p : nat) (speed : R) (sep : vec3) (d : nat) :
  (d < 3)%nat -> 0 < dot3 sep sep ->
  is_derive (fun s => dep_U k r0 p (norm3 (sub3 sep (scal3 (s * speed) (unit3 d))))) 0
            (sv_derivative (dep_derivative k r0 p (comp3 sep d) (trans3 sep d)) speed).
Proof.
  intros. apply (derivative_is_derive_3d (dep_U k r0 p) (dep_derivative k r0 p)); auto.
  intros. apply dep_derivative_is_derive; assumption.
Qed.

Lemma bend_sums_to_zero (k phi0 a1 a2 n1 n2 dt : R) :
  let '(di, dj, dk) := bend_derivative k phi0 a1 a2 n1 n2 dt in di + dj + dk = 0.
Proof. unfold bend_derivative. ring. Qed.

(** ** C02: Mexican-hat potentials — the two inverse functions are correct on their side of the minimum
    (the path-level inversion through the four cases is NOT proved: displacement_inverts_mexhat_partial) *)
Lemma Rpower_root_pow (a : R) (p : nat) : 0 < a -> (0 < p)%nat -> Rpower a (1 / INR p) ^ p = a.
Proof.
  intros Ha Hp. rewrite <- Rpower_pow by apply Rpower_pos. rewrite Rpower_mult.
  assert (0 < INR p) by (apply lt_0_INR; exact Hp).
  replace (1 / INR p * INR p) with 1 by (field; lra). apply Rpower_1, Ha.
Qed.

Theorem dep_invert_outside (k r0 : R) (p : nat) (U rn : R) :
  0 < k -> 0 <= r0 -> (0 < p)%nat -> 0 < U ->
  dep_inv_out k r0 p U = Some rn -> r0 < rn /\ dep_pot k r0 p (rn * rn) = U.
Proof.
  intros Hk Hr0 Hp HU H. unfold dep_inv_out in H. injection H as <-.
  assert (Hq : 0 < U / k) by (apply Rdiv_lt_0_compat; assumption).
  pose proof (Rpower_pos (U / k) (1 / INR p)) as Ht.
  split; [lra|]. unfold dep_pot. rewrite sqrt_square by lra.
  replace (r0 + Rpower (U / k) (1 / INR p) - r0) with (Rpower (U / k) (1 / INR p)) by ring.
  rewrite Rpower_root_pow by assumption. field; lra.
Qed.

Lemma pow_lt_strict (x y : R) (n : nat) : 0 <= x < y -> (0 < n)%nat -> x ^ n < y ^ n.
Proof.
  intros [Hx Hxy] Hn. induction n as [|n IH]; [lia|].
  destruct n as [|n].
  - simpl. lra.
  - assert (x ^ S n < y ^ S n) by (apply IH; lia).
    assert (0 <= x ^ S n) by (apply pow_le; exact Hx).
    simpl in *. nra.
Qed.

Theorem dep_invert_inside (k r0 : R) (p : nat) (U : R) :
  0 < k -> (0 < p)%nat -> Nat.Even p -> 0 < U -> U <= k * r0 ^ p -> 0 < r0 ->
  let rn := dep_inv_in k r0 p U in
  0 <= rn < r0 /\ dep_pot k r0 p (rn * rn) = U.
Proof.
  intros Hk Hp Hev HU Hmax Hr0 rn. unfold dep_inv_in in rn.
  assert (Hq : 0 < U / k) by (apply Rdiv_lt_0_compat; assumption).
  pose proof (Rpower_pos (U / k) (1 / INR p)) as Ht.
  assert (Etp : Rpower (U / k) (1 / INR p) ^ p = U / k) by (apply Rpower_root_pow; assumption).
  set (t := Rpower (U / k) (1 / INR p)) in *.
  assert (Hle : t <= r0).
  { destruct (Rle_lt_dec t r0) as [L|L]; [exact L|]. exfalso.
    assert (r0 ^ p < t ^ p) by (apply pow_lt_strict; [lra | exact Hp]).
    rewrite Etp in H. assert (k * r0 ^ p < U) by (apply (Rmult_lt_compat_l k) in H; [|exact Hk];
      replace (k * (U / k)) with U in H by (field; lra); exact H). lra. }
  subst rn. split; [lra|].
  unfold dep_pot. rewrite sqrt_square by lra.
  replace (r0 - t - r0) with (- t) by ring.
  destruct Hev as [m ->]. rewrite pow_Rsqr, <- Rsqr_neg, <- pow_Rsqr. rewrite Etp. field; lra.
Qed.

(** Lennard-Jones: with t = (sigma / r)^6 the potential is k (t^2 - t) *)
Lemma lj_pot_of_t (k sigma t : R) :
  0 < sigma -> 0 < t ->
  let rn := sigma / Rpower t (1 / 6) in
  lj_pot k sigma (rn * rn) = k * (t * t - t).
Proof.
  intros Hs Ht rn.
  pose proof (Rpower_pos t (1 / 6)) as Hu.
  assert (Hrn : 0 < rn) by (apply Rdiv_lt_0_compat; assumption).
  assert (Hu6 : Rpower t (1 / 6) ^ 6 = t).
  { replace (1 / 6) with (1 / INR 6) by (simpl; field). apply Rpower_root_pow; [exact Ht | lia]. }
  assert (Hrn6 : rn ^ 6 = sigma ^ 6 / t).
  { unfold rn. rewrite <- Hu6 at 2. field. lra. }
  unfold lj_pot, ip_potential.
  assert (Hr2 : 0 < rn * rn) by nra.
  replace (6 / 2) with (INR 3) by (simpl; field).
  replace (12 / 2) with (INR 6) by (simpl; field).
  rewrite !Rpower_pow by exact Hr2.
  replace ((rn * rn) ^ 3) with (rn ^ 6) by ring.
  replace ((rn * rn) ^ 6) with (rn ^ 6 * rn ^ 6) by ring.
  rewrite Hrn6.
  assert (sigma ^ 6 <> 0) by (apply pow_nonzero; lra).
  field. split; lra.
Qed.

Theorem lj_invert_outside (k sigma U rn : R) :
  0 < k -> 0 < sigma -> - k / 4 <= U ->
  lj_inv_out k sigma U = Some rn -> U < 0 /\ lj_pot k sigma (rn * rn) = U.
Proof.
  intros Hk Hs Hmin H. unfold lj_inv_out in H.
  destruct (Rle_dec 0 U) as [|Hneg]; [discriminate|]. apply Rnot_le_lt in Hneg.
  injection H as <-. split; [exact Hneg|].
  assert (Hrad : 0 <= 1 + 4 * U / k).
  { assert (4 * U / k >= -1); [|lra]. unfold Rdiv.
    assert (0 < / k) by (apply Rinv_0_lt_compat; exact Hk).
    replace (-1) with (4 * (- k / 4) * / k) by (field; lra). nra. }
  assert (Hlt1 : 1 + 4 * U / k < 1).
  { assert (4 * U / k < 0); [|lra]. unfold Rdiv. assert (0 < / k) by (apply Rinv_0_lt_compat; exact Hk). nra. }
  pose proof (sqrt_pos (1 + 4 * U / k)) as Hs0.
  assert (Hs1 : sqrt (1 + 4 * U / k) < 1) by (rewrite <- sqrt_1 at 2; apply sqrt_lt_1_alt; lra).
  pose proof (sqrt_sqrt _ Hrad) as Hss.
  set (s := sqrt (1 + 4 * U / k)) in *.
  rewrite (lj_pot_of_t k sigma ((1 - s) / 2) Hs) by lra.
  replace ((1 - s) / 2 * ((1 - s) / 2) - (1 - s) / 2) with ((s * s - 1) / 4) by field.
  rewrite Hss. field. lra.
Qed.

Theorem lj_invert_inside (k sigma U : R) :
  0 < k -> 0 < sigma -> - k / 4 <= U ->
  let rn := lj_inv_in k sigma U in lj_pot k sigma (rn * rn) = U.
Proof.
  intros Hk Hs Hmin rn. unfold lj_inv_in in rn.
  assert (Hrad : 0 <= 1 + 4 * U / k).
  { assert (4 * U / k >= -1); [|lra]. unfold Rdiv.
    assert (0 < / k) by (apply Rinv_0_lt_compat; exact Hk).
    replace (-1) with (4 * (- k / 4) * / k) by (field; lra). nra. }
  pose proof (sqrt_pos (1 + 4 * U / k)) as Hs0.
  pose proof (sqrt_sqrt _ Hrad) as Hss.
  subst rn. set (s := sqrt (1 + 4 * U / k)) in *.
  rewrite (lj_pot_of_t k sigma ((1 + s) / 2) Hs) by lra.
  replace ((1 + s) / 2 * ((1 + s) / 2) - (1 + s) / 2) with ((s * s - 1) / 4) by field.
  rewrite Hss. field. lra.
Qed.

(** the code's _potential is the Lennard-Jones energy *)
Lemma lj_pot_U (k sigma r2 : R) : 0 < r2 -> lj_pot k sigma r2 = lj_U k sigma (sqrt r2).
Proof.
  intros H. unfold lj_pot, lj_U, ip_potential.
  assert (Hs : 0 < sqrt r2) by (apply sqrt_lt_R0, H).
  replace (6 / 2) with (INR 3) by (simpl; field).
  replace (12 / 2) with (INR 6) by (simpl; field).
  rewrite !Rpower_pow by exact H.
  rewrite <- (sqrt_sqrt r2) at 1 2 by lra.
  field. lra.
Qed.

Lemma dep_pot_U (k r0 : R) (p : nat) (r2 : R) : dep_pot k r0 p r2 = dep_U k r0 p (sqrt r2).
Proof. reflexivity. Qed.

(** *** generic Mexican hat, case "in front of the target and outside the minimum sphere" *)
Lemma pos_var_breaks_nonpos (f : R -> R) (d : R) (bs : list R) :
  0 <= d -> List.Forall (fun b => b <= 0) bs -> pos_var_from f d 0 bs = Rmax 0 (f d - f 0).
Proof.
  intros Hd H. induction H as [|b bs Hb _ IH]; simpl; [reflexivity|].
  assert (E : clamp d b = 0).
  { unfold clamp. rewrite Rmin_right by lra. apply Rmax_left; lra. }
  rewrite E, IH. replace (f 0 - f 0) with 0 by ring. rewrite (Rmax_left 0 0) by lra. ring.
Qed.

Theorem mh_front_outside_inverts (m : mexhat) (dE x q d : R) (bs : list R) :
  (forall a b, mh_r0sq m <= a -> a < b -> mh_pot m a < mh_pot m b) ->
  (forall U rn, mh_pot m (mh_r0sq m) < U -> mh_inv_out m U = Some rn ->
                0 <= rn /\ mh_r0sq m <= rn * rn /\ mh_pot m (rn * rn) = U) ->
  x <= 0 -> mh_r0sq m <= q + x * x -> 0 < dE -> 0 <= q ->
  List.Forall (fun b => b <= 0) bs ->
  mh_front_outside m (mh_pot m (q + x * x)) dE x q = Some d ->
  0 < d /\
  mh_pot m (q + (x - d) * (x - d)) = mh_pot m (q + x * x) + dE /\
  Eplus (fun s => mh_pot m (q + (x - s) * (x - s))) bs d = dE.
Proof.
  intros Hmono Hinv Hx Hout HdE Hq Hbs H.
  unfold mh_front_outside in H.
  destruct (mh_inv_out m (mh_pot m (q + x * x) + dE)) as [rn|] eqn:E; [|discriminate].
  injection H as <-.
  set (U0 := mh_pot m (q + x * x)) in *.
  assert (Hmin : mh_pot m (mh_r0sq m) <= U0).
  { destruct (Rle_lt_or_eq_dec _ _ Hout) as [L|L]; [left; apply Hmono; lra | rewrite L; unfold U0; lra]. }
  assert (HUlt : mh_pot m (mh_r0sq m) < U0 + dE) by lra.
  destruct (Hinv (U0 + dE) rn HUlt E) as [Hrn [Hrn2 Hpot]].
  assert (Hgt : q + x * x < rn * rn).
  { destruct (Rlt_le_dec (q + x * x) (rn * rn)) as [L|L]; [exact L|]. exfalso.
    destruct (Rle_lt_or_eq_dec _ _ L) as [L'|L'].
    - pose proof (Hmono _ _ Hrn2 L'). fold U0 in H. lra.
    - rewrite L' in Hpot. fold U0 in Hpot. lra. }
  assert (Hnq : 0 <= rn * rn - q) by nra.
  assert (Hs : - x < sqrt (rn * rn - q)).
  { rewrite <- (sqrt_square (- x)) by lra. apply sqrt_lt_1_alt. split; nra. }
  unfold until_neg.
  assert (Hpath : mh_pot m (q + (x - (x + sqrt (rn * rn - q))) * (x - (x + sqrt (rn * rn - q)))) = U0 + dE).
  { replace (x - (x + sqrt (rn * rn - q))) with (- sqrt (rn * rn - q)) by ring.
    replace (- sqrt (rn * rn - q) * - sqrt (rn * rn - q)) with (sqrt (rn * rn - q) * sqrt (rn * rn - q)) by ring.
    rewrite sqrt_sqrt by exact Hnq. replace (q + (rn * rn - q)) with (rn * rn) by ring. exact Hpot. }
  split; [lra|]. split; [exact Hpath|].
  unfold Eplus. rewrite pos_var_breaks_nonpos by (try assumption; lra).
  rewrite Hpath. replace (x - 0) with x by ring. fold U0.
  replace (U0 + dE - U0) with dE by ring. apply Rmax_right; lra.
Qed.

(** instance: displaced even power potential *)
Lemma dep_pot_increasing_outside (k r0 : R) (p : nat) (a b : R) :
  0 < k -> 0 <= r0 -> (0 < p)%nat -> r0 * r0 <= a -> a < b -> dep_pot k r0 p a < dep_pot k r0 p b.
Proof.
  intros Hk Hr0 Hp Ha Hab. unfold dep_pot.
  assert (r0 <= sqrt a).
  { rewrite <- (sqrt_square r0) by exact Hr0. apply sqrt_le_1_alt; exact Ha. }
  assert (sqrt a < sqrt b) by (apply sqrt_lt_1_alt; split; [nra | exact Hab]).
  apply Rmult_lt_compat_l; [exact Hk|]. apply pow_lt_strict; [lra | exact Hp].
Qed.

Theorem dep_front_outside_inverts (k r0 : R) (p : nat) (dE x q d : R) :
  0 < k -> 0 < r0 -> (0 < p)%nat ->
  x <= 0 -> r0 * r0 <= q + x * x -> 0 < dE -> 0 <= q ->
  mh_front_outside (dep_mexhat k r0 p) (dep_pot k r0 p (q + x * x)) dE x q = Some d ->
  0 < d /\
  dep_pot k r0 p (q + (x - d) * (x - d)) = dep_pot k r0 p (q + x * x) + dE /\
  Eplus (fun s => dep_pot k r0 p (q + (x - s) * (x - s))) (breaks_mexhat x q r0) d = dE.
Proof.
  intros Hk Hr0 Hp Hx Hout HdE Hq H.
  apply (mh_front_outside_inverts (dep_mexhat k r0 p) dE x q d (breaks_mexhat x q r0)); simpl; try assumption.
  - intros a b Ha Hab. apply dep_pot_increasing_outside; try assumption; lra.
  - intros U rn HU E.
    assert (Hz : dep_pot k r0 p (r0 * r0) = 0).
    { unfold dep_pot. rewrite sqrt_square by lra. replace (r0 - r0) with 0 by ring.
      rewrite pow_i by exact Hp. ring. }
    rewrite Hz in HU.
    assert (Hr0' : 0 <= r0) by lra.
    destruct (dep_invert_outside k r0 p U rn Hk Hr0' Hp HU E) as [Hgt Hpot].
    split; [lra|]. split; [nra | exact Hpot].
  - (* all break points lie behind the start: x <= - w *)
    unfold breaks_mexhat. destruct (Rlt_dec q (r0 * r0)) as [Hin|Hin].
    + assert (Hw : sqrt (r0 * r0 - q) <= - x).
      { rewrite <- (sqrt_square (- x)) by lra. apply sqrt_le_1_alt. nra. }
      pose proof (sqrt_pos (r0 * r0 - q)).
      apply List.Forall_cons; [lra|]. apply List.Forall_cons; [lra|]. apply List.Forall_cons; [lra|].
      apply List.Forall_nil.
    + apply List.Forall_cons; [lra | apply List.Forall_nil].
Qed.
