(** * Proofs/PotentialsRProofs.v — lemmas about Model/PotentialsR.v and Model/CoulombBoundR.v (C02, C03). *)
From Coq Require Import Reals Lra Lia List.
From Coquelicot Require Import Coquelicot.
Require Import JF.Model.PotentialsR JF.Model.CoulombBoundR.
Import ListNotations.
Open Scope R_scope.

(** ** C03: the reported derivative is the rate of change of the energy while the active unit advances *)

(** the pair distance along the path: the active unit advances by s*v, the separation component shrinks *)
Lemma rpath_is_derive (x q v : R) :
  0 < q + x * x ->
  is_derive (fun s => sqrt (q + (x - s * v) * (x - s * v))) 0 (- (v * x) / sqrt (q + x * x)).
Proof.
  intros H.
  auto_derive.
  - replace (q + (x + - (0 * v)) * (x + - (0 * v))) with (q + x * x) by ring. exact H.
  - replace (q + (x + - (0 * v)) * (x + - (0 * v))) with (q + x * x) by ring.
    assert (Hs : sqrt (q + x * x) <> 0) by (apply Rgt_not_eq, sqrt_lt_R0, H).
    field. exact Hs.
Qed.

Lemma radial_derive (U : R -> R) (U' x q v : R) :
  0 < q + x * x ->
  is_derive U (sqrt (q + x * x)) U' ->
  is_derive (fun s => U (sqrt (q + (x - s * v) * (x - s * v)))) 0 (U' * (- (v * x) / sqrt (q + x * x))).
Proof.
  intros H HU.
  assert (E : sqrt (q + (x - 0 * v) * (x - 0 * v)) = sqrt (q + x * x)) by (f_equal; ring).
  rewrite <- E in HU.
  pose proof (is_derive_comp U (fun s => sqrt (q + (x - s * v) * (x - s * v))) 0 U'
                (- (v * x) / sqrt (q + x * x)) HU (rpath_is_derive x q v H)) as D.
  unfold scal in D; simpl in D; unfold mult in D; simpl in D.
  replace (U' * (- (v * x) / sqrt (q + x * x))) with (- (v * x) / sqrt (q + x * x) * U') by ring.
  exact D.
Qed.
