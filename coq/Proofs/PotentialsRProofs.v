(** * Proofs/PotentialsRProofs.v — lemmas about Model/PotentialsR.v and Model/CoulombBoundR.v (C02, C03). *)
From Coq Require Import Reals Lra Lia List ZArith.
From Coquelicot Require Import Coquelicot.
Require Import JF.Model.PotentialsR JF.Model.CoulombBoundR.
Import ListNotations.
Open Scope R_scope.

(** ** C03: the reported derivative is the rate of change of the energy while the active unit advances *)

(** the pair distance along the path: the active unit advances by s*v, the separation component shrinks *)
Lemma rpath_is_derive (x q v : R) :
  0 < q + x * x ->
  is_derive (fun s => sqrt (q + (x - s * v) * (x - s * v))) 0 (- (v * x) / sqrt (q + x * x)).
Proof.
  intros H.
  auto_derive.
  - replace (q + (x + - (0 * v)) * (x + - (0 * v))) with (q + x * x) by ring. exact H.
  - replace (q + (x + - (0 * v)) * (x + - (0 * v))) with (q + x * x) by ring.
    assert (Hs : sqrt (q + x * x) <> 0) by (apply Rgt_not_eq, sqrt_lt_R0, H).
    field. exact Hs.
Qed.

Lemma radial_derive (U : R -> R) (U' x q v : R) :
  0 < q + x * x ->
  is_derive U (sqrt (q + x * x)) U' ->
  is_derive (fun s => U (sqrt (q + (x - s * v) * (x - s * v)))) 0 (U' * (- (v * x) / sqrt (q + x * x))).
Proof.
  intros H HU.
  assert (E : sqrt (q + (x - 0 * v) * (x - 0 * v)) = sqrt (q + x * x)) by (f_equal; ring).
  rewrite <- E in HU.
  pose proof (is_derive_comp U (fun s => sqrt (q + (x - s * v) * (x - s * v))) 0 U'
                (- (v * x) / sqrt (q + x * x)) HU (rpath_is_derive x q v H)) as D.
  unfold scal in D; simpl in D; unfold mult in D; simpl in D.
  replace (U' * (- (v * x) / sqrt (q + x * x))) with (- (v * x) / sqrt (q + x * x) * U') by ring.
  exact D.
Qed.

(** *** inverse power *)
Lemma ip_U_is_derive (p kc r : R) :
  0 < r -> is_derive (ip_U p kc) r (- p * kc / Rpower r (p + 1)).
Proof.
  intros Hr. unfold ip_U, Rpower.
  auto_derive.
  - split; [exact Hr | split; [apply Rgt_not_eq, exp_pos | exact I]].
  - replace ((p + 1) * ln r) with (p * ln r + ln r) by ring.
    rewrite exp_plus, (exp_ln r Hr).
    pose proof (exp_pos (p * ln r)) as He.
    field. split; lra.
Qed.

Lemma Rpower_succ (r p : R) : 0 < r -> Rpower r (p + 1) = Rpower r p * r.
Proof. intros; rewrite Rpower_plus, Rpower_1; auto. Qed.

Theorem ip_derivative_is_derive (p pref c1 c2 x q speed : R) :
  0 < q + x * x ->
  is_derive (fun s => ip_U p (pref * c1 * c2) (sqrt (q + (x - s * speed) * (x - s * speed)))) 0
            (sv_derivative (ip_derivative p pref c1 c2 x q) speed).
Proof.
  intros H.
  assert (Hr : 0 < sqrt (q + x * x)) by (apply sqrt_lt_R0, H).
  pose proof (radial_derive (ip_U p (pref * c1 * c2)) _ x q speed H (ip_U_is_derive p (pref * c1 * c2) _ Hr)) as D.
  unfold sv_derivative, ip_derivative.
  replace (p + 2) with ((p + 1) + 1) by ring.
  rewrite (Rpower_succ _ (p + 1) Hr).
  match goal with |- is_derive _ _ ?a => match type of D with is_derive _ _ ?b => replace a with b; [exact D|] end end.
  pose proof (exp_pos ((p + 1) * ln (sqrt (q + x * x)))) as He. fold (Rpower (sqrt (q + x * x)) (p + 1)) in He.
  field. split; lra.
Qed.

(** *** Lennard-Jones *)
Lemma lj_U_is_derive (k sigma r : R) :
  0 < r -> is_derive (lj_U k sigma) r (k * (- 12 * sigma ^ 12 / r ^ 13 + 6 * sigma ^ 6 / r ^ 7)).
Proof.
  intros Hr. unfold lj_U.
  auto_derive.
  - repeat split; apply Rgt_not_eq; exact Hr.
  - field. apply Rgt_not_eq; exact Hr.
Qed.

Lemma Rpower_nat (r : R) (n : nat) (a : R) : 0 < r -> a = INR n -> Rpower r a = r ^ n.
Proof. intros Hr ->. apply Rpower_pow, Hr. Qed.

Theorem lj_derivative_is_derive (k sigma x q speed : R) :
  0 < q + x * x ->
  is_derive (fun s => lj_U k sigma (sqrt (q + (x - s * speed) * (x - s * speed)))) 0
            (sv_derivative (lj_derivative k sigma x q) speed).
Proof.
  intros H.
  assert (Hr : 0 < sqrt (q + x * x)) by (apply sqrt_lt_R0, H).
  pose proof (radial_derive (lj_U k sigma) _ x q speed H (lj_U_is_derive k sigma _ Hr)) as D.
  unfold sv_derivative, lj_derivative, ip_derivative.
  rewrite (Rpower_nat _ 8 (6 + 2) Hr) by (simpl; ring).
  rewrite (Rpower_nat _ 14 (12 + 2) Hr) by (simpl; ring).
  match goal with |- is_derive _ _ ?a => match type of D with is_derive _ _ ?b => replace a with b; [exact D|] end end.
  field. apply Rgt_not_eq; exact Hr.
Qed.

(** *** displaced even power *)
Lemma dep_U_is_derive (k r0 : R) (p : nat) (r : R) :
  is_derive (dep_U k r0 p) r (k * (INR p * (r - r0) ^ pred p)).
Proof.
  unfold dep_U.
  apply (is_derive_scal (fun r => (r - r0) ^ p) r k).
  pose proof (is_derive_pow (fun r => r - r0) p r 1) as D.
  replace (INR p * (r - r0) ^ pred p) with (INR p * 1 * (r - r0) ^ pred p) by ring.
  apply D. auto_derive; [exact I | ring].
Qed.

Theorem dep_derivative_is_derive (k r0 : R) (p : nat) (x q speed : R) :
  0 < q + x * x ->
  is_derive (fun s => dep_U k r0 p (sqrt (q + (x - s * speed) * (x - s * speed)))) 0
            (sv_derivative (dep_derivative k r0 p x q) speed).
Proof.
  intros H.
  assert (Hr : 0 < sqrt (q + x * x)) by (apply sqrt_lt_R0, H).
  pose proof (radial_derive (dep_U k r0 p) _ x q speed H (dep_U_is_derive k r0 p _)) as D.
  unfold sv_derivative, dep_derivative.
  replace (p - 1)%nat with (pred p) by lia.
  match goal with |- is_derive _ _ ?a => match type of D with is_derive _ _ ?b => replace a with b; [exact D|] end end.
  field. apply Rgt_not_eq; exact Hr.
Qed.

(** *** 1/r bounding potential of the C extension (nearest image, inside the primary cell) *)
Lemma inv_U_is_derive (kc r : R) : 0 < r -> is_derive (fun r => kc / r) r (- kc / (r * r)).
Proof. intros Hr. auto_derive; [apply Rgt_not_eq, Hr | field; apply Rgt_not_eq, Hr]. Qed.

Theorem ipc_derivative_is_derive (kc x q speed : R) :
  0 < q + x * x ->
  is_derive (fun s => ipc_pot kc (x - s * speed) q) 0 (sv_derivative (ipc_derivative kc x q) speed).
Proof.
  intros H.
  assert (Hr : 0 < sqrt (q + x * x)) by (apply sqrt_lt_R0, H).
  pose proof (radial_derive (fun r => kc / r) _ x q speed H (inv_U_is_derive kc _ Hr)) as D.
  unfold ipc_pot.
  apply (is_derive_ext (fun s => kc / sqrt (q + (x - s * speed) * (x - s * speed)))).
  { intros t. f_equal. f_equal. ring. }
  unfold sv_derivative, ipc_derivative.
  replace (x * x + q) with (q + x * x) by ring.
  replace (Rpower (q + x * x) (3 / 2)) with (sqrt (q + x * x) * sqrt (q + x * x) * sqrt (q + x * x)).
  - match goal with |- is_derive _ _ ?a => match type of D with is_derive _ _ ?b => replace a with b; [exact D|] end end.
    field. apply Rgt_not_eq; exact Hr.
  - replace (3 / 2) with (1 + / 2) by field.
    rewrite Rpower_plus, Rpower_1, Rpower_sqrt by exact H.
    rewrite sqrt_sqrt by lra. reflexivity.
Qed.

(** *** cell bounding: constant bounding rate (the bounding "energy" grows linearly with the distance) *)
Theorem cb_derivative_is_derive (rate speed : R) :
  is_derive (fun s => rate * (s * speed)) 0 (sv_derivative (cb_derivative rate) speed).
Proof. unfold sv_derivative, cb_derivative. auto_derive; [exact I | ring]. Qed.

(** *** linearity in the speed and in the charge product *)
Lemma sv_linear_in_speed (D a v : R) : sv_derivative D (a * v) = a * sv_derivative D v.
Proof. unfold sv_derivative; ring. Qed.

Lemma ip_linear_in_charge (p pref a c1 c2 x q : R) :
  ip_derivative p pref (a * c1) c2 x q = a * ip_derivative p pref c1 c2 x q.
Proof. unfold ip_derivative; ring. Qed.

Lemma ip_charge_product_only (p pref c1 c2 x q : R) :
  ip_derivative p pref c1 c2 x q = (c1 * c2) * ip_derivative p pref 1 1 x q.
Proof. unfold ip_derivative; ring. Qed.

Lemma ipc_linear_in_prefactor_product (a kc x q : R) : ipc_derivative (a * kc) x q = a * ipc_derivative kc x q.
Proof. unfold ipc_derivative; unfold Rdiv; ring. Qed.

(** *** vectors.permutation_3d maps direction d onto the x routine *)
Lemma permutation_maps (f : R -> R -> R) (v : vec3) (d : nat) :
  (d < 3)%nat ->
  (let '(a, b, c) := perm3 v d in f a (b * b + c * c)) = f (comp3 v d) (trans3 v d).
Proof.
  intros Hd. destruct v as [[a b] c].
  destruct d as [|[|[|d]]]; simpl; try lia; f_equal; ring.
Qed.

(** *** three-dimensional form: separation vector, motion along axis d *)
Lemma norm3_path (sep : vec3) (d : nat) (t : R) :
  (d < 3)%nat ->
  norm3 (sub3 sep (scal3 t (unit3 d))) = sqrt (trans3 sep d + (comp3 sep d - t) * (comp3 sep d - t)).
Proof.
  intros Hd. destruct sep as [[a b] c]. unfold norm3.
  destruct d as [|[|[|d]]]; simpl; try lia; f_equal; ring.
Qed.

Lemma norm3_sq (sep : vec3) (d : nat) :
  (d < 3)%nat -> dot3 sep sep = trans3 sep d + comp3 sep d * comp3 sep d.
Proof.
  intros Hd. destruct sep as [[a b] c].
  destruct d as [|[|[|d]]]; simpl; try lia; ring.
Qed.

Theorem derivative_is_derive_3d (U : R -> R) (D : R -> R -> R) (speed : R) (sep : vec3) (d : nat) :
  (d < 3)%nat -> 0 < dot3 sep sep ->
  (forall x q, 0 < q + x * x ->
     is_derive (fun s => U (sqrt (q + (x - s * speed) * (x - s * speed)))) 0 (sv_derivative (D x q) speed)) ->
  is_derive (fun s => U (norm3 (sub3 sep (scal3 (s * speed) (unit3 d))))) 0
            (sv_derivative (D (comp3 sep d) (trans3 sep d)) speed).
Proof.
  intros Hd Hn HD.
  apply (is_derive_ext (fun s => U (sqrt (trans3 sep d + (comp3 sep d - s * speed) * (comp3 sep d - s * speed))))).
  { intros t. rewrite (norm3_path sep d (t * speed) Hd). reflexivity. }
  apply HD. rewrite <- (norm3_sq sep d Hd). exact Hn.
Qed.

(** ** C02: hard sphere — the returned time is the first contact time *)
Lemma dist_sq_path (s v : vec3) (t : R) :
  dot3 (sub3 s (scal3 t v)) (sub3 s (scal3 t v)) = dot3 s s - 2 * t * dot3 v s + t * t * dot3 v v.
Proof. destruct s as [[a b] c], v as [[a' b'] c']. simpl. ring. Qed.

Lemma hs_cases (d2 : R) (v s : vec3) :
  let vv := dot3 v v in let ss := dot3 s s in let vs := dot3 v s in
  let D := vs * vs - vv * (ss - d2) in
  (0 <= D /\ 0 <= vs /\ hs_displacement d2 v s = Some ((vs - sqrt D) / vv)) \/
  ((D < 0 \/ vs < 0) /\ hs_displacement d2 v s = None).
Proof.
  intros vv ss vs D. unfold hs_displacement. fold vv ss vs. fold D.
  destruct (Rle_dec 0 D) as [HD|HD]; destruct (Rle_dec 0 vs) as [Hv|Hv].
  - left; auto.
  - right; split; [right; lra | reflexivity].
  - right; split; [left; lra | reflexivity].
  - right; split; [left; lra | reflexivity].
Qed.

Theorem hs_first_contact (d2 : R) (v s : vec3) (t : R) :
  0 < dot3 v v -> d2 <= dot3 s s ->
  hs_displacement d2 v s = Some t ->
  0 <= t /\
  dot3 (sub3 s (scal3 t v)) (sub3 s (scal3 t v)) = d2 /\
  (forall t', 0 <= t' < t -> d2 < dot3 (sub3 s (scal3 t' v)) (sub3 s (scal3 t' v))).
Proof.
  intros Hvv Hss H.
  destruct (hs_cases d2 v s) as [[HD [Hvs E]]|[_ E]]; rewrite E in H; [|discriminate].
  injection H as <-.
  set (vv := dot3 v v) in *. set (ss := dot3 s s) in *. set (vs := dot3 v s) in *.
  set (D := vs * vs - vv * (ss - d2)) in *.
  pose proof (sqrt_pos D) as Hs0.
  pose proof (sqrt_sqrt D HD) as Hs2.
  assert (Hle : sqrt D <= vs).
  { destruct (Rle_lt_dec (sqrt D) vs) as [L|L]; [exact L|]. exfalso.
    assert (vs * vs < sqrt D * sqrt D) by nra. unfold D in *. nra. }
  set (t := (vs - sqrt D) / vv).
  assert (Et : vv * t = vs - sqrt D) by (unfold t; field; lra).
  split; [|split].
  - unfold t. apply Rmult_le_pos; [lra | left; apply Rinv_0_lt_compat; exact Hvv].
  - rewrite dist_sq_path. fold vv ss vs.
    assert (vv * (ss - 2 * t * vs + t * t * vv - d2) = 0).
    { replace (vv * (ss - 2 * t * vs + t * t * vv - d2)) with ((vv * t - vs) * (vv * t - vs) - D) by (unfold D; ring).
      rewrite Et. ring_simplify. ring_simplify in Hs2. lra. }
    assert (ss - 2 * t * vs + t * t * vv - d2 = 0) by nra. lra.
  - intros t' [H0 Hlt]. rewrite dist_sq_path. fold vv ss vs.
    assert (0 < vv * (ss - 2 * t' * vs + t' * t' * vv - d2)).
    { replace (vv * (ss - 2 * t' * vs + t' * t' * vv - d2)) with ((vv * t' - vs) * (vv * t' - vs) - D) by (unfold D; ring).
      assert (vv * t' - vs < - sqrt D) by nra. nra. }
    assert (0 < ss - 2 * t' * vs + t' * t' * vv - d2) by nra. lra.
Qed.

(** stated for a start strictly outside the sphere; on the sphere itself (measure zero) the code returns 0 when
    approaching or moving tangentially and inf when separating *)
Theorem hs_infinite_iff_no_contact (d2 : R) (v s : vec3) :
  0 < dot3 v v -> d2 < dot3 s s ->
  (hs_displacement d2 v s = None <->
   forall t, 0 <= t -> d2 < dot3 (sub3 s (scal3 t v)) (sub3 s (scal3 t v))).
Proof.
  intros Hvv Hss. split.
  - intros H t Ht.
    destruct (hs_cases d2 v s) as [[HD [Hvs E]]|[C _]]; [rewrite E in H; discriminate|].
    rewrite dist_sq_path.
    set (vv := dot3 v v) in *. set (ss := dot3 s s) in *. set (vs := dot3 v s) in *.
    destruct C as [C|C].
    + assert (0 < vv * (ss - 2 * t * vs + t * t * vv - d2)).
      { replace (vv * (ss - 2 * t * vs + t * t * vv - d2))
          with ((vv * t - vs) * (vv * t - vs) - (vs * vs - vv * (ss - d2))) by ring.
        pose proof (Rle_0_sqr (vv * t - vs)) as Hsq. unfold Rsqr in Hsq. cbv zeta in C. lra. }
      assert (0 < ss - 2 * t * vs + t * t * vv - d2) by nra. lra.
    + cbv zeta in C. assert (0 <= - 2 * t * vs) by nra. assert (0 <= t * t * vv) by nra. lra.
  - intros H.
    destruct (hs_cases d2 v s) as [[HD [Hvs E]]|[_ E]]; [|exact E]. exfalso.
    assert (Hle : d2 <= dot3 s s) by lra.
    destruct (hs_first_contact d2 v s _ Hvv Hle E) as [H0 [Heq _]].
    specialize (H _ H0). lra.
Qed.

(** ** C02: inverse power potential — the displacement inverts the cumulative uphill energy *)

(** the code's potential(charge_product, separation) is the energy U = c k / r^p at r = |separation| *)
Lemma ip_potential_U (p pref c r2 : R) :
  0 < r2 -> ip_potential p pref c r2 = ip_U p (c * pref) (sqrt r2).
Proof.
  intros H. unfold ip_potential, ip_U.
  rewrite <- (Rpower_sqrt r2 H), Rpower_mult.
  replace (/ 2 * p) with (p / 2) by field. reflexivity.
Qed.

Lemma Rpower_inv_exp (a p : R) : 0 < a -> p <> 0 -> Rpower (Rpower a (2 / p)) (p / 2) = a.
Proof.
  intros Ha Hp. rewrite Rpower_mult.
  replace (2 / p * (p / 2)) with 1 by (field; exact Hp). apply Rpower_1, Ha.
Qed.

Lemma Rpower_inv_exp' (a p : R) : 0 < a -> p <> 0 -> Rpower (Rpower a (p / 2)) (2 / p) = a.
Proof.
  intros Ha Hp. rewrite Rpower_mult.
  replace (p / 2 * (2 / p)) with 1 by (field; exact Hp). apply Rpower_1, Ha.
Qed.

Lemma Rpower_pos (a b : R) : 0 < Rpower a b.
Proof. unfold Rpower; apply exp_pos. Qed.

(** energy along the path as the code evaluates it *)
Definition ip_path (p pref c x q s : R) : R := ip_potential p pref c (q + (x - s) * (x - s)).

(** monotone pieces: for k = c*pref > 0 the energy increases while approaching (s < x) and decreases afterwards;
    for k < 0 the other way round *)
Lemma ip_potential_antitone (p pref c a b : R) :
  0 < p -> 0 < c * pref -> 0 < a -> a <= b -> ip_potential p pref c b <= ip_potential p pref c a.
Proof.
  intros Hp Hk Ha Hab. unfold ip_potential.
  assert (Rpower a (p / 2) <= Rpower b (p / 2)) by (apply Rle_Rpower_l; lra).
  pose proof (Rpower_pos a (p / 2)). pose proof (Rpower_pos b (p / 2)).
  unfold Rdiv. apply Rmult_le_compat_l; [lra|]. apply Rinv_le_contravar; assumption.
Qed.

Lemma ip_potential_antitone_strict (p pref c a b : R) :
  0 < p -> 0 < c * pref -> 0 < a -> a < b -> ip_potential p pref c b < ip_potential p pref c a.
Proof.
  intros Hp Hk Ha Hab. unfold ip_potential.
  assert (Rpower a (p / 2) < Rpower b (p / 2)) by (apply Rlt_Rpower_l; lra).
  pose proof (Rpower_pos a (p / 2)). pose proof (Rpower_pos b (p / 2)).
  unfold Rdiv. apply Rmult_lt_compat_l; [lra|]. apply Rinv_lt_contravar; [nra | assumption].
Qed.

Lemma ip_potential_monotone_neg (p pref c a b : R) :
  0 < p -> c * pref < 0 -> 0 < a -> a <= b -> ip_potential p pref c a <= ip_potential p pref c b.
Proof.
  intros Hp Hk Ha Hab. unfold ip_potential.
  assert (Rpower a (p / 2) <= Rpower b (p / 2)) by (apply Rle_Rpower_l; lra).
  pose proof (Rpower_pos a (p / 2)). pose proof (Rpower_pos b (p / 2)).
  assert (/ Rpower b (p / 2) <= / Rpower a (p / 2)) by (apply Rinv_le_contravar; assumption).
  unfold Rdiv. nra.
Qed.

Lemma ip_potential_pos (p pref c r2 : R) : 0 < c * pref -> 0 < ip_potential p pref c r2.
Proof. intros. unfold ip_potential. apply Rdiv_lt_0_compat; [assumption | apply Rpower_pos]. Qed.

(** inverting the potential: the squared norm at which the energy equals E *)
Lemma ip_invert (p pref c E : R) :
  0 < p -> 0 < (c * pref) / E ->
  ip_potential p pref c (Rpower (c * pref / E) (2 / p)) = E.
Proof.
  intros Hp Hq. unfold ip_potential.
  rewrite Rpower_inv_exp by lra.
  assert (E <> 0). { intros ->. unfold Rdiv in Hq. rewrite Rinv_0, Rmult_0_r in Hq. lra. }
  assert (c * pref <> 0). { intros Z. rewrite Z in Hq. unfold Rdiv in Hq. rewrite Rmult_0_l in Hq. lra. }
  field. repeat split; try assumption; intros Z; apply H0; rewrite Z; ring.
Qed.

(** *** repulsive branch *)
Theorem ip_repulsive_inverts (p pref c dE x q d : R) :
  0 < p -> 0 < q -> 0 < dE -> 0 < c * pref ->
  ip_disp_repulsive p pref c dE x q = Some d ->
  0 < d < x /\
  q <= Rpower (c * pref / (ip_potential p pref c (q + x * x) + dE)) (2 / p) /\   (* radicand non-negative *)
  ip_path p pref c x q d = ip_path p pref c x q 0 + dE /\
  Eplus (ip_path p pref c x q) (breaks_monotone x) d = dE.
Proof.
  intros Hp Hq HdE Hk H. unfold ip_disp_repulsive in H.
  destruct (Rle_dec x 0) as [|Hx]; [discriminate|]. apply Rnot_le_lt in Hx.
  cbv zeta in H.
  replace (q + 0 * 0) with q in H by ring.
  set (Umax := ip_potential p pref c q) in *.
  set (U0 := ip_potential p pref c (q + x * x)) in *.
  destruct (Rlt_dec dE (Umax - U0)) as [Hlt|]; [|discriminate].
  injection H as <-.
  set (n2 := Rpower (c * pref / (U0 + dE)) (2 / p)).
  assert (HU0 : 0 < U0) by (apply ip_potential_pos; exact Hk).
  assert (Hquot : 0 < c * pref / (U0 + dE)) by (apply Rdiv_lt_0_compat; lra).
  assert (Hn2 : ip_potential p pref c n2 = U0 + dE) by (apply ip_invert; assumption).
  assert (Hn2pos : 0 < n2) by apply Rpower_pos.
  (* q < n2 < q + x^2 by strict antitonicity *)
  assert (Hqn : q < n2).
  { destruct (Rlt_le_dec q n2) as [L|L]; [exact L|]. exfalso.
    pose proof (ip_potential_antitone p pref c n2 q Hp Hk Hn2pos L). fold Umax in H. lra. }
  assert (Hnx : n2 < q + x * x).
  { destruct (Rlt_le_dec n2 (q + x * x)) as [L|L]; [exact L|]. exfalso.
    assert (0 < q + x * x) by nra.
    pose proof (ip_potential_antitone p pref c (q + x * x) n2 Hp Hk H L). fold U0 in H0. lra. }
  assert (Hs : 0 < sqrt (n2 - q) < x).
  { split; [apply sqrt_lt_R0; lra|].
    rewrite <- (sqrt_square x) by lra. apply sqrt_lt_1_alt. split; lra. }
  unfold until_pos.
  assert (Hd : 0 < x - sqrt (n2 - q) < x) by lra.
  assert (Hpath : ip_path p pref c x q (x - sqrt (n2 - q)) = ip_path p pref c x q 0 + dE).
  { unfold ip_path.
    replace (x - (x - sqrt (n2 - q))) with (sqrt (n2 - q)) by ring.
    rewrite sqrt_sqrt by lra.
    replace (q + (n2 - q)) with n2 by ring.
    replace (x - 0) with x by ring. fold U0. exact Hn2. }
  split; [exact Hd|]. split; [lra|]. split; [exact Hpath|].
  unfold Eplus, breaks_monotone, pos_var_from, clamp.
  rewrite (Rmin_left _ x) by lra. rewrite (Rmax_right 0 (x - sqrt (n2 - q))) by lra.
  rewrite Hpath.
  replace (ip_path p pref c x q 0 + dE - ip_path p pref c x q 0) with dE by ring.
  replace (ip_path p pref c x q 0 + dE - (ip_path p pref c x q 0 + dE)) with 0 by ring.
  rewrite (Rmax_right 0 dE) by lra. rewrite (Rmax_left 0 0) by lra. ring.
Qed.

Lemma Eplus_one_break (f : R -> R) (x d : R) :
  Eplus f (breaks_monotone x) d = Rmax 0 (f (clamp d x) - f 0) + Rmax 0 (f d - f (clamp d x)).
Proof. reflexivity. Qed.

Ltac rmax_lra :=
  unfold Rmax; repeat match goal with |- context [Rle_dec ?a ?b] => destruct (Rle_dec a b) end; lra.

Theorem ip_repulsive_infinite (p pref c dE x q : R) :
  0 < p -> 0 < q -> 0 < dE -> 0 < c * pref ->
  ip_disp_repulsive p pref c dE x q = None ->
  forall d, 0 <= d -> Eplus (ip_path p pref c x q) (breaks_monotone x) d <= dE.
Proof.
  intros Hp Hq HdE Hk H d Hd. rewrite Eplus_one_break. unfold clamp, ip_path.
  unfold ip_disp_repulsive in H.
  destruct (Rle_dec x 0) as [Hx|Hx].
  - (* moving away: the energy never increases *)
    rewrite (Rmax_left 0 (Rmin d x)) by (pose proof (Rmin_r d x); lra).
    replace (x - 0) with x by ring.
    assert (ip_potential p pref c (q + (x - d) * (x - d)) <= ip_potential p pref c (q + x * x)).
    { apply ip_potential_antitone; try assumption; nra. }
    rmax_lra.
  - apply Rnot_le_lt in Hx. cbv zeta in H. replace (q + 0 * 0) with q in H by ring.
    destruct (Rlt_dec dE (ip_potential p pref c q - ip_potential p pref c (q + x * x))) as [|Hge]; [discriminate|].
    apply Rnot_lt_le in Hge.
    replace (x - 0) with x by ring.
    destruct (Rle_lt_dec d x) as [Hdx|Hdx].
    + rewrite (Rmin_left d x) by lra. rewrite (Rmax_right 0 d) by lra.
      assert (ip_potential p pref c (q + (x - d) * (x - d)) <= ip_potential p pref c q).
      { apply ip_potential_antitone; try assumption; nra. }
      rmax_lra.
    + rewrite (Rmin_right d x) by lra. rewrite (Rmax_right 0 x) by lra.
      replace (x - x) with 0 by ring. replace (q + 0 * 0) with q by ring.
      assert (ip_potential p pref c (q + (x - d) * (x - d)) <= ip_potential p pref c q).
      { apply ip_potential_antitone; try assumption; nra. }
      rmax_lra.
Qed.

Corollary ip_repulsive_infinite_iff (p pref c dE x q : R) :
  0 < p -> 0 < q -> 0 < dE -> 0 < c * pref ->
  ((forall d, 0 <= d -> Eplus (ip_path p pref c x q) (breaks_monotone x) d < dE) ->
   ip_disp_repulsive p pref c dE x q = None) /\
  (ip_disp_repulsive p pref c dE x q = None ->
   forall d, 0 <= d -> Eplus (ip_path p pref c x q) (breaks_monotone x) d <= dE).
Proof.
  intros Hp Hq HdE Hk. split.
  - intros H. destruct (ip_disp_repulsive p pref c dE x q) as [d|] eqn:E; [|reflexivity]. exfalso.
    destruct (ip_repulsive_inverts p pref c dE x q d Hp Hq HdE Hk E) as [[Hd _] [_ [_ HE]]].
    specialize (H d (Rlt_le _ _ Hd)). lra.
  - apply ip_repulsive_infinite; assumption.
Qed.

(** *** attractive branch *)
Lemma ip_potential_neg (p pref c r2 : R) : c * pref < 0 -> ip_potential p pref c r2 < 0.
Proof.
  intros. unfold ip_potential, Rdiv. pose proof (Rpower_pos r2 (p / 2)).
  assert (0 < / Rpower r2 (p / 2)) by (apply Rinv_0_lt_compat; assumption). nra.
Qed.

Lemma ip_potential_monotone_neg_strict (p pref c a b : R) :
  0 < p -> c * pref < 0 -> 0 < a -> a < b -> ip_potential p pref c a < ip_potential p pref c b.
Proof.
  intros Hp Hk Ha Hab. unfold ip_potential.
  assert (Rpower a (p / 2) < Rpower b (p / 2)) by (apply Rlt_Rpower_l; lra).
  pose proof (Rpower_pos a (p / 2)). pose proof (Rpower_pos b (p / 2)).
  assert (/ Rpower b (p / 2) < / Rpower a (p / 2)) by (apply Rinv_lt_contravar; [nra | assumption]).
  unfold Rdiv. nra.
Qed.

Theorem ip_attractive_inverts (p pref c dE x q d : R) :
  0 < p -> 0 < q -> 0 < dE -> c * pref < 0 ->
  ip_disp_attractive p pref c dE x q = Some d ->
  Rmax 0 x < d /\
  ip_path p pref c x q d = ip_path p pref c x q (Rmax 0 x) + dE /\
  Eplus (ip_path p pref c x q) (breaks_monotone x) d = dE.
Proof.
  intros Hp Hq HdE Hk H. unfold ip_disp_attractive in H. cbv zeta in H.
  set (d0 := if Rlt_dec 0 x then x else 0) in *.
  set (x1 := if Rlt_dec 0 x then 0 else x) in *.
  assert (Hd0 : d0 = Rmax 0 x /\ x1 <= 0 /\ d0 + x1 = x /\ 0 <= d0).
  { unfold d0, x1. destruct (Rlt_dec 0 x).
    - rewrite Rmax_right by lra. lra.
    - rewrite Rmax_left by lra. lra. }
  destruct Hd0 as [Ed0 [Hx1 [Esum Hd0]]].
  set (U0 := ip_potential p pref c (q + x1 * x1)) in *.
  destruct (Rle_dec 0 (U0 + dE)) as [|Hneg]; [discriminate|]. apply Rnot_le_lt in Hneg.
  injection H as <-.
  set (n2 := Rpower (c * pref / (U0 + dE)) (2 / p)).
  assert (Hquot : 0 < c * pref / (U0 + dE)).
  { unfold Rdiv. assert (/ (U0 + dE) < 0) by (apply Rinv_lt_0_compat; lra). nra. }
  assert (Hn2 : ip_potential p pref c n2 = U0 + dE) by (apply ip_invert; assumption).
  assert (Hn2pos : 0 < n2) by apply Rpower_pos.
  assert (Hr1 : 0 < q + x1 * x1) by nra.
  assert (Hgt : q + x1 * x1 < n2).
  { destruct (Rlt_le_dec (q + x1 * x1) n2) as [L|L]; [exact L|]. exfalso.
    pose proof (ip_potential_monotone_neg p pref c n2 (q + x1 * x1) Hp Hk Hn2pos L). fold U0 in H. lra. }
  assert (Hnq : 0 < n2 - q) by nra.
  assert (Hs : - x1 < sqrt (n2 - q)).
  { rewrite <- (sqrt_square (- x1)) by lra. apply sqrt_lt_1_alt. split; nra. }
  unfold until_neg.
  assert (Hd : Rmax 0 x < d0 + (x1 + sqrt (n2 - q))) by lra.
  assert (Hpath : ip_path p pref c x q (d0 + (x1 + sqrt (n2 - q))) = ip_path p pref c x q (Rmax 0 x) + dE).
  { unfold ip_path.
    replace (x - (d0 + (x1 + sqrt (n2 - q)))) with (- sqrt (n2 - q)) by lra.
    replace (- sqrt (n2 - q) * - sqrt (n2 - q)) with (sqrt (n2 - q) * sqrt (n2 - q)) by ring.
    rewrite sqrt_sqrt by lra. replace (q + (n2 - q)) with n2 by ring.
    replace (x - Rmax 0 x) with x1 by lra. fold U0. exact Hn2. }
  split; [exact Hd|]. split; [exact Hpath|].
  rewrite Eplus_one_break. unfold clamp.
  set (d := d0 + (x1 + sqrt (n2 - q))) in *.
  assert (Ec : Rmax 0 (Rmin d x) = Rmax 0 x).
  { rewrite (Rmin_right d x); [reflexivity|]. pose proof (Rmax_r 0 x). lra. }
  rewrite Ec, Hpath.
  assert (Hdown : ip_path p pref c x q (Rmax 0 x) <= ip_path p pref c x q 0).
  { unfold ip_path. replace (x - 0) with x by ring. replace (x - Rmax 0 x) with x1 by lra.
    apply ip_potential_monotone_neg; try assumption.
    clear - Hq. subst x1. destruct (Rlt_dec 0 x); nra. }
  set (A := ip_path p pref c x q (Rmax 0 x)) in *. set (B := ip_path p pref c x q 0) in *.
  rmax_lra.
Qed.

Theorem ip_attractive_infinite (p pref c dE x q : R) :
  0 < p -> 0 < q -> 0 < dE -> c * pref < 0 ->
  ip_disp_attractive p pref c dE x q = None ->
  forall d, 0 <= d -> Eplus (ip_path p pref c x q) (breaks_monotone x) d < dE.
Proof.
  intros Hp Hq HdE Hk H d Hd. unfold ip_disp_attractive in H. cbv zeta in H.
  set (x1 := if Rlt_dec 0 x then 0 else x) in *.
  assert (Hx1 : x1 = x - Rmax 0 x).
  { unfold x1. destruct (Rlt_dec 0 x); [rewrite Rmax_right by lra | rewrite Rmax_left by lra]; ring. }
  set (U0 := ip_potential p pref c (q + x1 * x1)) in *.
  destruct (Rle_dec 0 (U0 + dE)) as [Hge|]; [|discriminate].
  rewrite Eplus_one_break. unfold clamp.
  assert (Hc : Rmax 0 x = Rmax 0 (Rmin d x) \/ (d < x /\ Rmax 0 (Rmin d x) = d)).
  { destruct (Rle_lt_dec x d); [left; rewrite Rmin_right by lra; reflexivity|].
    right. rewrite Rmin_left by lra. rewrite Rmax_right by lra. lra. }
  assert (Hneg : forall s, ip_path p pref c x q s < 0) by (intros; apply ip_potential_neg; exact Hk).
  assert (Hdown : forall s, 0 <= s <= x -> ip_path p pref c x q s <= ip_path p pref c x q 0).
  { intros s Hs. unfold ip_path. apply ip_potential_monotone_neg; try assumption; nra. }
  destruct Hc as [Hc|[Hdx Hc]].
  - rewrite <- Hc.
    assert (E0 : ip_path p pref c x q (Rmax 0 x) = U0).
    { unfold ip_path, U0. rewrite Hx1. reflexivity. }
    assert (ip_path p pref c x q (Rmax 0 x) <= ip_path p pref c x q 0).
    { destruct (Rle_lt_dec x 0); [rewrite Rmax_left by lra; lra|]. rewrite Rmax_right by lra. apply Hdown; lra. }
    pose proof (Hneg d).
    set (A := ip_path p pref c x q (Rmax 0 x)) in *. set (B := ip_path p pref c x q 0) in *.
    set (D := ip_path p pref c x q d) in *. rmax_lra.
  - rewrite Hc.
    assert (ip_path p pref c x q d <= ip_path p pref c x q 0) by (apply Hdown; lra).
    set (B := ip_path p pref c x q 0) in *. set (D := ip_path p pref c x q d) in *. rmax_lra.
Qed.

(** *** the whole standard_velocity_displacement of InversePowerPotential, including the division by the speed *)
Theorem ip_displacement_inverts (p pref c1 c2 dE x q speed t : R) :
  0 < p -> 0 < q -> 0 < dE -> 0 < speed -> pref * (c1 * c2) <> 0 ->
  sv_displacement (ip_displacement p pref c1 c2 dE x q) speed = Some t ->
  0 < t /\ Eplus (ip_path p pref (c1 * c2) x q) (breaks_monotone x) (t * speed) = dE.
Proof.
  intros Hp Hq HdE Hv Hk H. unfold sv_displacement, ip_displacement in H. cbv zeta in H.
  destruct (Rlt_dec 0 (pref * (c1 * c2))) as [Hpos|Hneg].
  - destruct (ip_disp_repulsive p pref (c1 * c2) dE x q) as [d|] eqn:E; [|discriminate].
    simpl in H. injection H as <-.
    destruct (ip_repulsive_inverts p pref (c1 * c2) dE x q d Hp Hq HdE ltac:(lra) E) as [[Hd _] [_ [_ HE]]].
    split; [apply Rdiv_lt_0_compat; assumption|].
    replace (d / speed * speed) with d by (field; lra). exact HE.
  - destruct (ip_disp_attractive p pref (c1 * c2) dE x q) as [d|] eqn:E; [|discriminate].
    simpl in H. injection H as <-.
    destruct (ip_attractive_inverts p pref (c1 * c2) dE x q d Hp Hq HdE ltac:(lra) E) as [Hd [_ HE]].
    split; [apply Rdiv_lt_0_compat; [pose proof (Rmax_l 0 x); lra | assumption]|].
    replace (d / speed * speed) with d by (field; lra). exact HE.
Qed.

Theorem ip_displacement_infinite (p pref c1 c2 dE x q speed : R) :
  0 < p -> 0 < q -> 0 < dE -> 0 < speed -> pref * (c1 * c2) <> 0 ->
  sv_displacement (ip_displacement p pref c1 c2 dE x q) speed = None ->
  forall d, 0 <= d -> Eplus (ip_path p pref (c1 * c2) x q) (breaks_monotone x) d <= dE.
Proof.
  intros Hp Hq HdE Hv Hk H d Hd. unfold sv_displacement, ip_displacement in H. cbv zeta in H.
  destruct (Rlt_dec 0 (pref * (c1 * c2))) as [Hpos|Hneg].
  - destruct (ip_disp_repulsive p pref (c1 * c2) dE x q) eqn:E; [discriminate|].
    apply (ip_repulsive_infinite p pref (c1 * c2) dE x q); try assumption; lra.
  - destruct (ip_disp_attractive p pref (c1 * c2) dE x q) eqn:E; [discriminate|].
    left. apply (ip_attractive_infinite p pref (c1 * c2) dE x q); try assumption; lra.
Qed.

(** *** radicands: under each branch condition every sqrt / power argument is non-negative (totality in exact
    arithmetic) and the result is non-negative *)
Theorem ip_radicands_nonneg (p pref c dE x q : R) :
  0 < p -> 0 < q -> 0 < dE -> c * pref <> 0 ->
  let k := c * pref in
  (0 < k -> 0 < x -> dE < ip_potential p pref c (q + 0 * 0) - ip_potential p pref c (q + x * x) ->
     let U0 := ip_potential p pref c (q + x * x) in
     0 < k / (U0 + dE) /\ 0 <= Rpower (k / (U0 + dE)) (2 / p) - q /\
     0 <= until_pos x q (Rpower (k / (U0 + dE)) (2 / p))) /\
  (k < 0 ->
     let x1 := if Rlt_dec 0 x then 0 else x in
     let U0 := ip_potential p pref c (q + x1 * x1) in
     U0 + dE < 0 ->
     0 < k / (U0 + dE) /\ 0 <= Rpower (k / (U0 + dE)) (2 / p) - q /\
     0 <= (if Rlt_dec 0 x then x else 0) + until_neg x1 q (Rpower (k / (U0 + dE)) (2 / p))).
Proof.
  intros Hp Hq HdE Hk k. split.
  - intros Hpos Hx Hlt U0.
    assert (E : ip_disp_repulsive p pref c dE x q = Some (until_pos x q (Rpower (k / (U0 + dE)) (2 / p)))).
    { unfold ip_disp_repulsive. destruct (Rle_dec x 0); [lra|]. cbv zeta.
      destruct (Rlt_dec dE _); [reflexivity | contradiction]. }
    destruct (ip_repulsive_inverts p pref c dE x q _ Hp Hq HdE Hpos E) as [[Hd _] [Hrad _]].
    assert (0 < U0) by (apply ip_potential_pos; exact Hpos).
    split; [apply Rdiv_lt_0_compat; lra|]. fold U0 in Hrad. fold k in Hrad. split; lra.
  - intros Hneg x1 U0 Hlt.
    assert (E : ip_disp_attractive p pref c dE x q =
                Some ((if Rlt_dec 0 x then x else 0) + until_neg x1 q (Rpower (k / (U0 + dE)) (2 / p)))).
    { unfold ip_disp_attractive. cbv zeta. fold x1. fold U0.
      destruct (Rle_dec 0 (U0 + dE)); [lra | reflexivity]. }
    destruct (ip_attractive_inverts p pref c dE x q _ Hp Hq HdE Hneg E) as [Hd _].
    assert (Hquot : 0 < k / (U0 + dE)).
    { unfold Rdiv. assert (/ (U0 + dE) < 0) by (apply Rinv_lt_0_compat; lra). nra. }
    split; [exact Hquot|].
    split; [|pose proof (Rmax_l 0 x); lra].
    (* n2 >= q + x1^2 >= q *)
    set (n2 := Rpower (k / (U0 + dE)) (2 / p)).
    assert (Hn2 : ip_potential p pref c n2 = U0 + dE) by (apply ip_invert; assumption).
    assert (Hn2pos : 0 < n2) by apply Rpower_pos.
    destruct (Rlt_le_dec (q + x1 * x1) n2) as [L|L]; [nra|]. exfalso.
    pose proof (ip_potential_monotone_neg p pref c n2 (q + x1 * x1) Hp Hneg Hn2pos L) as M. fold U0 in M. lra.
Qed.

(** *** sign of dU/ds on each monotone piece (ties Eplus to the integral of the positive part of dU/ds) *)
Lemma path_is_derive_at (U : R -> R) (D : R -> R -> R) (x q s0 : R) :
  (forall x q, 0 < q + x * x ->
     is_derive (fun s => U (sqrt (q + (x - s * 1) * (x - s * 1)))) 0 (sv_derivative (D x q) 1)) ->
  0 < q + (x - s0) * (x - s0) ->
  is_derive (fun s => U (sqrt (q + (x - s) * (x - s)))) s0 (D (x - s0) q).
Proof.
  intros HD Hpos.
  pose proof (HD (x - s0) q Hpos) as H0. unfold sv_derivative in H0. rewrite Rmult_1_r in H0.
  (* compose with the translation s |-> s - s0 *)
  pose proof (is_derive_comp (fun s => U (sqrt (q + (x - s0 - s * 1) * (x - s0 - s * 1)))) (fun s => s - s0) s0
               (D (x - s0) q) 1) as C.
  assert (H0' : is_derive (fun s => U (sqrt (q + (x - s0 - s * 1) * (x - s0 - s * 1)))) ((fun s => s - s0) s0) (D (x - s0) q)).
  { simpl. replace (s0 - s0) with 0 by ring. exact H0. }
  specialize (C H0').
  assert (T : is_derive (fun s : R => s - s0) s0 1) by (auto_derive; [exact I | ring]).
  specialize (C T). unfold scal in C; simpl in C; unfold mult in C; simpl in C. rewrite Rmult_1_l in C.
  apply (is_derive_ext (fun s => U (sqrt (q + (x - s0 - (s - s0) * 1) * (x - s0 - (s - s0) * 1))))); [|exact C].
  intros t. f_equal. f_equal. ring.
Qed.

Theorem ip_pieces_monotone (p pref c1 c2 x q s0 : R) :
  0 < p -> 0 < q ->
  is_derive (fun s => ip_U p (pref * c1 * c2) (sqrt (q + (x - s) * (x - s)))) s0 (ip_derivative p pref c1 c2 (x - s0) q) /\
  (0 < pref * c1 * c2 -> (s0 < x -> 0 < ip_derivative p pref c1 c2 (x - s0) q) /\
                         (x < s0 -> ip_derivative p pref c1 c2 (x - s0) q < 0)) /\
  (pref * c1 * c2 < 0 -> (s0 < x -> ip_derivative p pref c1 c2 (x - s0) q < 0) /\
                         (x < s0 -> 0 < ip_derivative p pref c1 c2 (x - s0) q)).
Proof.
  intros Hp Hq.
  assert (Hpos : 0 < q + (x - s0) * (x - s0)).
  { pose proof (Rle_0_sqr (x - s0)) as S. unfold Rsqr in S. lra. }
  split.
  - apply (path_is_derive_at (ip_U p (pref * c1 * c2)) (ip_derivative p pref c1 c2)); [|exact Hpos].
    intros x' q' H'. apply ip_derivative_is_derive. exact H'.
  - unfold ip_derivative.
    pose proof (Rpower_pos (sqrt (q + (x - s0) * (x - s0))) (p + 2)) as HR.
    set (R2 := Rpower (sqrt (q + (x - s0) * (x - s0))) (p + 2)) in *.
    assert (HI : 0 < / R2) by (apply Rinv_0_lt_compat; exact HR).
    replace (p * (x - s0) / R2 * pref * c1 * c2) with ((p * / R2) * ((x - s0) * (pref * c1 * c2))) by (unfold Rdiv; ring).
    assert (HpR : 0 < p * / R2) by nra.
    split; intros Hk; split; intros Hs.
    + apply Rmult_lt_0_compat; [exact HpR | nra].
    + assert ((x - s0) * (pref * c1 * c2) < 0) by nra. nra.
    + assert ((x - s0) * (pref * c1 * c2) < 0) by nra. nra.
    + apply Rmult_lt_0_compat; [exact HpR | nra].
Qed.

(** *** cell bounding potential: constant rate *)
Theorem cb_displacement_inverts (rate dE speed t : R) :
  0 < dE -> 0 < speed ->
  sv_displacement (cb_displacement rate dE) speed = Some t -> 0 < t /\ rate * (t * speed) = dE.
Proof.
  intros HdE Hv H. unfold sv_displacement, cb_displacement in H.
  destruct (Rlt_dec 0 rate) as [Hr|]; [|discriminate]. simpl in H. injection H as <-.
  split.
  - apply Rdiv_lt_0_compat; [apply Rdiv_lt_0_compat|]; assumption.
  - field. lra.
Qed.

Theorem cb_infinite_iff (rate dE speed : R) :
  sv_displacement (cb_displacement rate dE) speed = None <-> rate <= 0.
Proof.
  unfold sv_displacement, cb_displacement. destruct (Rlt_dec 0 rate); simpl; split; intros; try lra; try discriminate.
  reflexivity.
Qed.

(** *** instances used by Props/C03.v *)
Lemma ip_derivative_is_derive_3d (p pref c1 c2 speed : R) (sep : vec3) (d : nat) :
  (d < 3)%nat -> 0 < dot3 sep sep ->
  is_derive (fun s => ip_U p (pref * c1 * c2) (norm3 (sub3 sep (scal3 (s * speed) (unit3 d))))) 0
            (sv_derivative (ip_derivative p pref c1 c2 (comp3 sep d) (trans3 sep d)) speed).
Proof.
  intros. apply (derivative_is_derive_3d (ip_U p (pref * c1 * c2)) (ip_derivative p pref c1 c2)); auto.
  intros. apply ip_derivative_is_derive; assumption.
Qed.

Lemma lj_derivative_is_derive_3d (k sigma speed : R) (sep : vec3) (d : nat) :
  (d < 3)%nat -> 0 < dot3 sep sep ->
  is_derive (fun s => lj_U k sigma (norm3 (sub3 sep (scal3 (s * speed) (unit3 d))))) 0
            (sv_derivative (lj_derivative k sigma (comp3 sep d) (trans3 sep d)) speed).
Proof.
  intros. apply (derivative_is_derive_3d (lj_U k sigma) (lj_derivative k sigma)); auto.
  intros. apply lj_derivative_is_derive; assumption.
Qed.

Lemma dep_derivative_is_derive_3d (k r0 : R) (p : nat) (speed : R) (sep : vec3) (d : nat) :
  (d < 3)%nat -> 0 < dot3 sep sep ->
  is_derive (fun s => dep_U k r0 p (norm3 (sub3 sep (scal3 (s * speed) (unit3 d))))) 0
            (sv_derivative (dep_derivative k r0 p (comp3 sep d) (trans3 sep d)) speed).
Proof.
  intros. apply (derivative_is_derive_3d (dep_U k r0 p) (dep_derivative k r0 p)); auto.
  intros. apply dep_derivative_is_derive; assumption.
Qed.

Lemma bend_sums_to_zero (k phi0 a1 a2 n1 n2 dt : R) :
  let '(di, dj, dk) := bend_derivative k phi0 a1 a2 n1 n2 dt in di + dj + dk = 0.
Proof. unfold bend_derivative. ring. Qed.

(** ** C02: Mexican-hat potentials — the two inverse functions are correct on their side of the minimum
    (the path-level inversion through the four cases is NOT proved: displacement_inverts_mexhat_partial) *)
Lemma Rpower_root_pow (a : R) (p : nat) : 0 < a -> (0 < p)%nat -> Rpower a (1 / INR p) ^ p = a.
Proof.
  intros Ha Hp. rewrite <- Rpower_pow by apply Rpower_pos. rewrite Rpower_mult.
  assert (0 < INR p) by (apply lt_0_INR; exact Hp).
  replace (1 / INR p * INR p) with 1 by (field; lra). apply Rpower_1, Ha.
Qed.

Theorem dep_invert_outside (k r0 : R) (p : nat) (U rn : R) :
  0 < k -> 0 <= r0 -> (0 < p)%nat -> 0 < U ->
  dep_inv_out k r0 p U = Some rn -> r0 < rn /\ dep_pot k r0 p (rn * rn) = U.
Proof.
  intros Hk Hr0 Hp HU H. unfold dep_inv_out in H. injection H as <-.
  assert (Hq : 0 < U / k) by (apply Rdiv_lt_0_compat; assumption).
  pose proof (Rpower_pos (U / k) (1 / INR p)) as Ht.
  split; [lra|]. unfold dep_pot. rewrite sqrt_square by lra.
  replace (r0 + Rpower (U / k) (1 / INR p) - r0) with (Rpower (U / k) (1 / INR p)) by ring.
  rewrite Rpower_root_pow by assumption. field; lra.
Qed.

Lemma pow_lt_strict (x y : R) (n : nat) : 0 <= x < y -> (0 < n)%nat -> x ^ n < y ^ n.
Proof.
  intros [Hx Hxy] Hn. induction n as [|n IH]; [lia|].
  destruct n as [|n].
  - simpl. lra.
  - assert (x ^ S n < y ^ S n) by (apply IH; lia).
    assert (0 <= x ^ S n) by (apply pow_le; exact Hx).
    simpl in *. nra.
Qed.

Theorem dep_invert_inside (k r0 : R) (p : nat) (U : R) :
  0 < k -> (0 < p)%nat -> Nat.Even p -> 0 < U -> U <= k * r0 ^ p -> 0 < r0 ->
  let rn := dep_inv_in k r0 p U in
  0 <= rn < r0 /\ dep_pot k r0 p (rn * rn) = U.
Proof.
  intros Hk Hp Hev HU Hmax Hr0 rn. unfold dep_inv_in in rn.
  assert (Hq : 0 < U / k) by (apply Rdiv_lt_0_compat; assumption).
  pose proof (Rpower_pos (U / k) (1 / INR p)) as Ht.
  assert (Etp : Rpower (U / k) (1 / INR p) ^ p = U / k) by (apply Rpower_root_pow; assumption).
  set (t := Rpower (U / k) (1 / INR p)) in *.
  assert (Hle : t <= r0).
  { destruct (Rle_lt_dec t r0) as [L|L]; [exact L|]. exfalso.
    assert (r0 ^ p < t ^ p) by (apply pow_lt_strict; [lra | exact Hp]).
    rewrite Etp in H. assert (k * r0 ^ p < U) by (apply (Rmult_lt_compat_l k) in H; [|exact Hk];
      replace (k * (U / k)) with U in H by (field; lra); exact H). lra. }
  subst rn. split; [lra|].
  unfold dep_pot. rewrite sqrt_square by lra.
  replace (r0 - t - r0) with (- t) by ring.
  destruct Hev as [m ->]. rewrite pow_Rsqr, <- Rsqr_neg, <- pow_Rsqr. rewrite Etp. field; lra.
Qed.

(** Lennard-Jones: with t = (sigma / r)^6 the potential is k (t^2 - t) *)
Lemma lj_pot_of_t (k sigma t : R) :
  0 < sigma -> 0 < t ->
  let rn := sigma / Rpower t (1 / 6) in
  lj_pot k sigma (rn * rn) = k * (t * t - t).
Proof.
  intros Hs Ht rn.
  pose proof (Rpower_pos t (1 / 6)) as Hu.
  assert (Hrn : 0 < rn) by (apply Rdiv_lt_0_compat; assumption).
  assert (Hu6 : Rpower t (1 / 6) ^ 6 = t).
  { replace (1 / 6) with (1 / INR 6) by (simpl; field). apply Rpower_root_pow; [exact Ht | lia]. }
  assert (Hrn6 : rn ^ 6 = sigma ^ 6 / t).
  { unfold rn. rewrite <- Hu6 at 2. field. lra. }
  unfold lj_pot, ip_potential.
  assert (Hr2 : 0 < rn * rn) by nra.
  replace (6 / 2) with (INR 3) by (simpl; field).
  replace (12 / 2) with (INR 6) by (simpl; field).
  rewrite !Rpower_pow by exact Hr2.
  replace ((rn * rn) ^ 3) with (rn ^ 6) by ring.
  replace ((rn * rn) ^ 6) with (rn ^ 6 * rn ^ 6) by ring.
  rewrite Hrn6.
  assert (sigma ^ 6 <> 0) by (apply pow_nonzero; lra).
  field. split; lra.
Qed.

Theorem lj_invert_outside (k sigma U rn : R) :
  0 < k -> 0 < sigma -> - k / 4 <= U ->
  lj_inv_out k sigma U = Some rn -> U < 0 /\ lj_pot k sigma (rn * rn) = U.
Proof.
  intros Hk Hs Hmin H. unfold lj_inv_out in H.
  destruct (Rle_dec 0 U) as [|Hneg]; [discriminate|]. apply Rnot_le_lt in Hneg.
  injection H as <-. split; [exact Hneg|].
  assert (Hrad : 0 <= 1 + 4 * U / k).
  { assert (4 * U / k >= -1); [|lra]. unfold Rdiv.
    assert (0 < / k) by (apply Rinv_0_lt_compat; exact Hk).
    replace (-1) with (4 * (- k / 4) * / k) by (field; lra). nra. }
  assert (Hlt1 : 1 + 4 * U / k < 1).
  { assert (4 * U / k < 0); [|lra]. unfold Rdiv. assert (0 < / k) by (apply Rinv_0_lt_compat; exact Hk). nra. }
  pose proof (sqrt_pos (1 + 4 * U / k)) as Hs0.
  assert (Hs1 : sqrt (1 + 4 * U / k) < 1) by (rewrite <- sqrt_1 at 2; apply sqrt_lt_1_alt; lra).
  pose proof (sqrt_sqrt _ Hrad) as Hss.
  set (s := sqrt (1 + 4 * U / k)) in *.
  rewrite (lj_pot_of_t k sigma ((1 - s) / 2) Hs) by lra.
  replace ((1 - s) / 2 * ((1 - s) / 2) - (1 - s) / 2) with ((s * s - 1) / 4) by field.
  rewrite Hss. field. lra.
Qed.

Theorem lj_invert_inside (k sigma U : R) :
  0 < k -> 0 < sigma -> - k / 4 <= U ->
  let rn := lj_inv_in k sigma U in lj_pot k sigma (rn * rn) = U.
Proof.
  intros Hk Hs Hmin rn. unfold lj_inv_in in rn.
  assert (Hrad : 0 <= 1 + 4 * U / k).
  { assert (4 * U / k >= -1); [|lra]. unfold Rdiv.
    assert (0 < / k) by (apply Rinv_0_lt_compat; exact Hk).
    replace (-1) with (4 * (- k / 4) * / k) by (field; lra). nra. }
  pose proof (sqrt_pos (1 + 4 * U / k)) as Hs0.
  pose proof (sqrt_sqrt _ Hrad) as Hss.
  subst rn. set (s := sqrt (1 + 4 * U / k)) in *.
  rewrite (lj_pot_of_t k sigma ((1 + s) / 2) Hs) by lra.
  replace ((1 + s) / 2 * ((1 + s) / 2) - (1 + s) / 2) with ((s * s - 1) / 4) by field.
  rewrite Hss. field. lra.
Qed.

(** the code's _potential is the Lennard-Jones energy *)
Lemma lj_pot_U (k sigma r2 : R) : 0 < r2 -> lj_pot k sigma r2 = lj_U k sigma (sqrt r2).
Proof.
  intros H. unfold lj_pot, lj_U, ip_potential.
  assert (Hs : 0 < sqrt r2) by (apply sqrt_lt_R0, H).
  replace (6 / 2) with (INR 3) by (simpl; field).
  replace (12 / 2) with (INR 6) by (simpl; field).
  rewrite !Rpower_pow by exact H.
  rewrite <- (sqrt_sqrt r2) at 1 2 by lra.
  field. lra.
Qed.

Lemma dep_pot_U (k r0 : R) (p : nat) (r2 : R) : dep_pot k r0 p r2 = dep_U k r0 p (sqrt r2).
Proof. reflexivity. Qed.

(** *** generic Mexican hat, case "in front of the target and outside the minimum sphere" *)
Lemma pos_var_breaks_nonpos (f : R -> R) (d : R) (bs : list R) :
  0 <= d -> List.Forall (fun b => b <= 0) bs -> pos_var_from f d 0 bs = Rmax 0 (f d - f 0).
Proof.
  intros Hd H. induction H as [|b bs Hb _ IH]; simpl; [reflexivity|].
  assert (E : clamp d b = 0).
  { unfold clamp. rewrite Rmin_right by lra. apply Rmax_left; lra. }
  rewrite E, IH. replace (f 0 - f 0) with 0 by ring. rewrite (Rmax_left 0 0) by lra. ring.
Qed.

Theorem mh_front_outside_inverts (m : mexhat) (dE x q d : R) (bs : list R) :
  (forall a b, mh_r0sq m <= a -> a < b -> mh_pot m a < mh_pot m b) ->
  (forall U rn, mh_pot m (mh_r0sq m) < U -> mh_inv_out m U = Some rn ->
                0 <= rn /\ mh_r0sq m <= rn * rn /\ mh_pot m (rn * rn) = U) ->
  x <= 0 -> mh_r0sq m <= q + x * x -> 0 < dE -> 0 <= q ->
  List.Forall (fun b => b <= 0) bs ->
  mh_front_outside m (mh_pot m (q + x * x)) dE x q = Some d ->
  0 < d /\
  mh_pot m (q + (x - d) * (x - d)) = mh_pot m (q + x * x) + dE /\
  Eplus (fun s => mh_pot m (q + (x - s) * (x - s))) bs d = dE.
Proof.
  intros Hmono Hinv Hx Hout HdE Hq Hbs H.
  unfold mh_front_outside in H.
  destruct (mh_inv_out m (mh_pot m (q + x * x) + dE)) as [rn|] eqn:E; [|discriminate].
  injection H as <-.
  set (U0 := mh_pot m (q + x * x)) in *.
  assert (Hmin : mh_pot m (mh_r0sq m) <= U0).
  { destruct (Rle_lt_or_eq_dec _ _ Hout) as [L|L]; [left; apply Hmono; lra | rewrite L; unfold U0; lra]. }
  assert (HUlt : mh_pot m (mh_r0sq m) < U0 + dE) by lra.
  destruct (Hinv (U0 + dE) rn HUlt E) as [Hrn [Hrn2 Hpot]].
  assert (Hgt : q + x * x < rn * rn).
  { destruct (Rlt_le_dec (q + x * x) (rn * rn)) as [L|L]; [exact L|]. exfalso.
    destruct (Rle_lt_or_eq_dec _ _ L) as [L'|L'].
    - pose proof (Hmono _ _ Hrn2 L'). fold U0 in H. lra.
    - rewrite L' in Hpot. fold U0 in Hpot. lra. }
  assert (Hnq : 0 <= rn * rn - q) by nra.
  assert (Hs : - x < sqrt (rn * rn - q)).
  { rewrite <- (sqrt_square (- x)) by lra. apply sqrt_lt_1_alt. split; nra. }
  unfold until_neg.
  assert (Hpath : mh_pot m (q + (x - (x + sqrt (rn * rn - q))) * (x - (x + sqrt (rn * rn - q)))) = U0 + dE).
  { replace (x - (x + sqrt (rn * rn - q))) with (- sqrt (rn * rn - q)) by ring.
    replace (- sqrt (rn * rn - q) * - sqrt (rn * rn - q)) with (sqrt (rn * rn - q) * sqrt (rn * rn - q)) by ring.
    rewrite sqrt_sqrt by exact Hnq. replace (q + (rn * rn - q)) with (rn * rn) by ring. exact Hpot. }
  split; [lra|]. split; [exact Hpath|].
  unfold Eplus. rewrite pos_var_breaks_nonpos by (try assumption; lra).
  rewrite Hpath. replace (x - 0) with x by ring. fold U0.
  replace (U0 + dE - U0) with dE by ring. apply Rmax_right; lra.
Qed.

(** instance: displaced even power potential *)
Lemma dep_pot_increasing_outside (k r0 : R) (p : nat) (a b : R) :
  0 < k -> 0 <= r0 -> (0 < p)%nat -> r0 * r0 <= a -> a < b -> dep_pot k r0 p a < dep_pot k r0 p b.
Proof.
  intros Hk Hr0 Hp Ha Hab. unfold dep_pot.
  assert (r0 <= sqrt a).
  { rewrite <- (sqrt_square r0) by exact Hr0. apply sqrt_le_1_alt; exact Ha. }
  assert (sqrt a < sqrt b) by (apply sqrt_lt_1_alt; split; [nra | exact Hab]).
  apply Rmult_lt_compat_l; [exact Hk|]. apply pow_lt_strict; [lra | exact Hp].
Qed.

Theorem dep_front_outside_inverts (k r0 : R) (p : nat) (dE x q d : R) :
  0 < k -> 0 < r0 -> (0 < p)%nat ->
  x <= 0 -> r0 * r0 <= q + x * x -> 0 < dE -> 0 <= q ->
  mh_front_outside (dep_mexhat k r0 p) (dep_pot k r0 p (q + x * x)) dE x q = Some d ->
  0 < d /\
  dep_pot k r0 p (q + (x - d) * (x - d)) = dep_pot k r0 p (q + x * x) + dE /\
  Eplus (fun s => dep_pot k r0 p (q + (x - s) * (x - s))) (breaks_mexhat x q r0) d = dE.
Proof.
  intros Hk Hr0 Hp Hx Hout HdE Hq H.
  apply (mh_front_outside_inverts (dep_mexhat k r0 p) dE x q d (breaks_mexhat x q r0)); simpl; try assumption.
  - intros a b Ha Hab. apply dep_pot_increasing_outside; try assumption; lra.
  - intros U rn HU E.
    assert (Hz : dep_pot k r0 p (r0 * r0) = 0).
    { unfold dep_pot. rewrite sqrt_square by lra. replace (r0 - r0) with 0 by ring.
      rewrite pow_i by exact Hp. ring. }
    rewrite Hz in HU.
    assert (Hr0' : 0 <= r0) by lra.
    destruct (dep_invert_outside k r0 p U rn Hk Hr0' Hp HU E) as [Hgt Hpot].
    split; [lra|]. split; [nra | exact Hpot].
  - (* all break points lie behind the start: x <= - w *)
    unfold breaks_mexhat. destruct (Rlt_dec q (r0 * r0)) as [Hin|Hin].
    + assert (Hw : sqrt (r0 * r0 - q) <= - x).
      { rewrite <- (sqrt_square (- x)) by lra. apply sqrt_le_1_alt. nra. }
      pose proof (sqrt_pos (r0 * r0 - q)).
      apply List.Forall_cons; [lra|]. apply List.Forall_cons; [lra|]. apply List.Forall_cons; [lra|].
      apply List.Forall_nil.
    + apply List.Forall_cons; [lra | apply List.Forall_nil].
Qed.

(** ** C02: Mexican-hat potentials, all four geometric cases, for any [mexhat] record that is well formed *)
Definition mh_wf (m : mexhat) : Prop :=
  0 < mh_r0 m /\ mh_r0sq m = mh_r0 m * mh_r0 m /\
  (forall a b, mh_r0sq m <= a -> a < b -> mh_pot m a < mh_pot m b) /\
  (forall a b, 0 < a -> a < b -> b <= mh_r0sq m -> mh_pot m b < mh_pot m a) /\
  (forall U rn, mh_pot m (mh_r0sq m) < U -> mh_inv_out m U = Some rn ->
                0 <= rn /\ mh_r0sq m <= rn * rn /\ mh_pot m (rn * rn) = U) /\
  (forall U, mh_pot m (mh_r0sq m) < U -> mh_inv_out m U = None ->
             forall a, mh_r0sq m <= a -> mh_pot m a < U) /\
  (forall U qq, 0 < qq -> qq <= mh_r0sq m -> mh_pot m (mh_r0sq m) < U -> U < mh_pot m qq ->
                0 < mh_inv_in m U /\ mh_inv_in m U * mh_inv_in m U <= mh_r0sq m /\
                mh_pot m (mh_inv_in m U * mh_inv_in m U) = U).

Lemma mh_pot_le_out (m : mexhat) a b : mh_wf m -> mh_r0sq m <= a -> a <= b -> mh_pot m a <= mh_pot m b.
Proof.
  intros (_ & _ & Ho & _) Ha [Hab| ->]; [left; apply Ho; assumption | right; reflexivity].
Qed.
Lemma mh_pot_le_in (m : mexhat) a b : mh_wf m -> 0 < a -> a <= b -> b <= mh_r0sq m -> mh_pot m b <= mh_pot m a.
Proof.
  intros (_ & _ & _ & Hi & _) Ha [Hab| ->] Hb; [left; apply Hi; assumption | right; reflexivity].
Qed.

(** *** values of the four routines *)
Lemma mh_FO_val (m : mexhat) (dE x q : R) :
  mh_wf m -> x <= 0 -> mh_r0sq m <= q + x * x -> 0 < dE -> 0 <= q ->
  match mh_front_outside m (mh_pot m (q + x * x)) dE x q with
  | Some d => exists rn, d = x + sqrt (rn * rn - q) /\ q + x * x < rn * rn /\
                         mh_pot m (rn * rn) = mh_pot m (q + x * x) + dE
  | None => forall a, mh_r0sq m <= a -> mh_pot m a < mh_pot m (q + x * x) + dE
  end.
Proof.
  intros Hwf Hx Hout HdE Hq.
  pose proof Hwf as (Hr0 & Esq & Ho & Hi & Hio & Hnone & Hii).
  unfold mh_front_outside.
  set (U0 := mh_pot m (q + x * x)).
  assert (Hmin : mh_pot m (mh_r0sq m) <= U0) by (apply mh_pot_le_out; [assumption | lra | assumption]).
  assert (HUlt : mh_pot m (mh_r0sq m) < U0 + dE) by lra.
  destruct (mh_inv_out m (U0 + dE)) as [rn|] eqn:E.
  - destruct (Hio _ _ HUlt E) as (Hrn & Hrn2 & Hpot).
    exists rn. split; [reflexivity|]. split; [|exact Hpot].
    destruct (Rlt_le_dec (q + x * x) (rn * rn)) as [L|L]; [exact L|]. exfalso.
    pose proof (mh_pot_le_out m _ _ Hwf Hrn2 L) as M. fold U0 in M. lra.
  - apply Hnone; assumption.
Qed.

Lemma mh_FI_val (m : mexhat) (dE x q : R) :
  q <= mh_r0sq m ->
  let w := sqrt (mh_r0sq m - q) in
  mh_front_inside m dE x q = xadd (x + w) (mh_front_outside m (mh_pot m (q + (- w) * (- w))) dE (- w) q).
Proof.
  intros Hq w. unfold mh_front_inside, until_neg. fold w. cbv zeta.
  replace (x - (x + w)) with (- w) by ring. reflexivity.
Qed.

Lemma w_sq (R q : R) : q <= R -> q + (- sqrt (R - q)) * (- sqrt (R - q)) = R.
Proof. intros. replace (- sqrt (R - q) * - sqrt (R - q)) with (sqrt (R - q) * sqrt (R - q)) by ring.
  rewrite sqrt_sqrt by lra. ring. Qed.
Lemma w_sq' (R q : R) : q <= R -> q + sqrt (R - q) * sqrt (R - q) = R.
Proof. intros. rewrite sqrt_sqrt by lra. ring. Qed.

Lemma mh_BI_val (m : mexhat) (dE x q : R) :
  mh_wf m -> 0 <= x -> 0 < q -> q + x * x <= mh_r0sq m -> 0 < dE ->
  let U0 := mh_pot m (q + x * x) in
  (dE < mh_pot m q - U0 ->
     exists rn, mh_behind_inside m U0 dE x q = Some (x - sqrt (rn * rn - q)) /\
                q < rn * rn /\ rn * rn < q + x * x /\ mh_pot m (rn * rn) = U0 + dE) /\
  (mh_pot m q - U0 <= dE ->
     mh_behind_inside m U0 dE x q = xadd x (mh_front_inside m (dE - (mh_pot m q - U0)) 0 q)).
Proof.
  intros Hwf Hx Hq Hin HdE U0.
  pose proof Hwf as (Hr0 & Esq & Ho & Hi & Hio & Hnone & Hii).
  unfold mh_behind_inside. cbv zeta. replace (q + 0 * 0) with q by ring.
  assert (Hmin : mh_pot m (mh_r0sq m) <= U0) by (apply mh_pot_le_in; [assumption | nra | assumption | lra]).
  split; intros Hc.
  - destruct (Rlt_dec dE (mh_pot m q - U0)) as [_|N]; [|contradiction].
    assert (Hq' : q <= mh_r0sq m) by nra.
    destruct (Hii (U0 + dE) q Hq Hq' ltac:(lra) ltac:(lra)) as (Hrn & Hrn2 & Hpot).
    set (rn := mh_inv_in m (U0 + dE)) in *.
    exists rn. split; [reflexivity|].
    assert (Hpos : 0 < rn * rn) by nra.
    split; [|split; [|exact Hpot]].
    + destruct (Rlt_le_dec q (rn * rn)) as [L|L]; [exact L|]. exfalso.
      pose proof (mh_pot_le_in m _ _ Hwf Hpos L Hq') as M. lra.
    + destruct (Rlt_le_dec (rn * rn) (q + x * x)) as [L|L]; [exact L|]. exfalso.
      assert (0 < q + x * x) by nra.
      pose proof (mh_pot_le_in m _ _ Hwf H L Hrn2) as M. fold U0 in M. lra.
  - destruct (Rlt_dec dE (mh_pot m q - U0)) as [Y|_]; [lra | reflexivity].
Qed.

Lemma mh_BO_val (m : mexhat) (dE x q : R) :
  let w := sqrt (mh_r0sq m - q) in
  (q <= mh_r0sq m -> mh_behind_outside m dE x q = xadd (x - w) (mh_behind_inside m (mh_pot m (q + w * w)) dE w q)) /\
  (mh_r0sq m < q -> mh_behind_outside m dE x q = xadd x (mh_front_outside m (mh_pot m (q + 0 * 0)) dE 0 q)).
Proof.
  intros w. unfold mh_behind_outside, until_pos. fold w. split; intros H.
  - destruct (Rle_dec 0 (mh_r0sq m - q)) as [_|N]; [|lra]. cbv zeta.
    replace (x - (x - w)) with w by ring. reflexivity.
  - destruct (Rle_dec 0 (mh_r0sq m - q)) as [Y|_]; [lra | reflexivity].
Qed.

(** *** evaluating the specification (positive variation over the monotone pieces) *)
Lemma clamp_low d b : b <= 0 -> 0 <= d -> clamp d b = 0.
Proof. intros. unfold clamp. apply Rmax_left. apply Rle_trans with b; [apply Rmin_r | assumption]. Qed.
Lemma clamp_mid d b : 0 <= b -> b <= d -> clamp d b = b.
Proof. intros. unfold clamp. rewrite Rmin_right by assumption. apply Rmax_right; assumption. Qed.
Lemma clamp_high d b : d <= b -> 0 <= d -> clamp d b = d.
Proof. intros. unfold clamp. rewrite Rmin_left by assumption. apply Rmax_right; assumption. Qed.

Definition mh_path (m : mexhat) (x q s : R) : R := mh_pot m (q + (x - s) * (x - s)).

Lemma mh_path_0 m x q : mh_path m x q 0 = mh_pot m (q + x * x).
Proof. unfold mh_path. f_equal. ring. Qed.
Lemma mh_path_x m x q : mh_path m x q x = mh_pot m q.
Proof. unfold mh_path. f_equal. ring. Qed.
Lemma mh_path_xmw m x q : q <= mh_r0sq m -> mh_path m x q (x - sqrt (mh_r0sq m - q)) = mh_pot m (mh_r0sq m).
Proof. intros. unfold mh_path. f_equal. replace (x - (x - sqrt (mh_r0sq m - q))) with (sqrt (mh_r0sq m - q)) by ring.
  apply w_sq'; assumption. Qed.
Lemma mh_path_xpw m x q : q <= mh_r0sq m -> mh_path m x q (x + sqrt (mh_r0sq m - q)) = mh_pot m (mh_r0sq m).
Proof. intros. unfold mh_path. f_equal. replace (x - (x + sqrt (mh_r0sq m - q))) with (- sqrt (mh_r0sq m - q)) by ring.
  apply w_sq; assumption. Qed.
Lemma mh_path_xpS m x q n2 : q <= n2 -> mh_path m x q (x + sqrt (n2 - q)) = mh_pot m n2.
Proof. intros. unfold mh_path. f_equal. replace (x - (x + sqrt (n2 - q))) with (- sqrt (n2 - q)) by ring.
  apply w_sq; assumption. Qed.
Lemma mh_path_xmS m x q n2 : q <= n2 -> mh_path m x q (x - sqrt (n2 - q)) = mh_pot m n2.
Proof. intros. unfold mh_path. f_equal. replace (x - (x - sqrt (n2 - q))) with (sqrt (n2 - q)) by ring.
  apply w_sq'; assumption. Qed.

Lemma sqrt_lt_sq (a b : R) : 0 <= a -> a < b -> sqrt a < sqrt b.
Proof. intros. apply sqrt_lt_1_alt. split; assumption. Qed.
Lemma sqrt_le_abs (a x : R) : 0 <= a -> a <= x * x -> x <= 0 -> sqrt a <= - x.
Proof. intros. rewrite <- (sqrt_square (- x)) by lra. apply sqrt_le_1_alt. nra. Qed.
Lemma sqrt_gt_abs (a x : R) : x * x < a -> x <= 0 -> - x < sqrt a.
Proof. intros. rewrite <- (sqrt_square (- x)) by lra. apply sqrt_lt_1_alt. split; nra. Qed.
Lemma sqrt_lt_pos (a x : R) : 0 <= a -> a < x * x -> 0 <= x -> sqrt a < x.
Proof. intros. rewrite <- (sqrt_square x) by lra. apply sqrt_lt_1_alt. split; nra. Qed.
Lemma sqrt_le_pos (a x : R) : 0 <= a -> a <= x * x -> 0 <= x -> sqrt a <= x.
Proof. intros. rewrite <- (sqrt_square x) by lra. apply sqrt_le_1_alt. nra. Qed.

Lemma r0_le_sqrt_iff (r0 A : R) : 0 < r0 -> 0 <= A -> (r0 <= sqrt A <-> r0 * r0 <= A).
Proof.
  intros Hr HA. split; intros H.
  - rewrite <- (sqrt_sqrt A HA). pose proof (sqrt_pos A). nra.
  - rewrite <- (sqrt_square r0) by lra. apply sqrt_le_1_alt. exact H.
Qed.

(** front inside, completely: walk to the sphere, then front outside from the sphere *)
Lemma mh_FI_full (m : mexhat) (dE x q : R) :
  mh_wf m -> q <= mh_r0sq m -> 0 <= q -> 0 < dE ->
  let w := sqrt (mh_r0sq m - q) in
  match mh_front_inside m dE x q with
  | Some d => exists rn, d = x + w + (- w + sqrt (rn * rn - q)) /\ mh_r0sq m < rn * rn /\
                         mh_pot m (rn * rn) = mh_pot m (mh_r0sq m) + dE
  | None => forall a, mh_r0sq m <= a -> mh_pot m a < mh_pot m (mh_r0sq m) + dE
  end.
Proof.
  intros Hwf Hq Hq0 HdE w.
  rewrite (mh_FI_val m dE x q Hq). fold w.
  pose proof (sqrt_pos (mh_r0sq m - q)) as Hw. fold w in Hw.
  assert (E : q + - w * - w = mh_r0sq m) by (apply w_sq; exact Hq).
  pose proof (mh_FO_val m dE (- w) q Hwf ltac:(lra) ltac:(lra) HdE Hq0) as V.
  rewrite E in *.
  destruct (mh_front_outside m (mh_pot m (mh_r0sq m)) dE (- w) q) as [d|]; simpl.
  - destruct V as (rn & -> & Hlt & Hpot). exists rn. repeat split; assumption.
  - exact V.
Qed.


Lemma breaks_front_nonpos (x q r0 : R) :
  x <= 0 -> r0 * r0 <= q + x * x -> List.Forall (fun b => b <= 0) (breaks_mexhat x q r0).
Proof.
  intros Hx Hout. unfold breaks_mexhat. destruct (Rlt_dec q (r0 * r0)) as [Hin|Hin].
  - pose proof (sqrt_le_abs (r0 * r0 - q) x ltac:(lra) ltac:(lra) Hx) as Hw.
    pose proof (sqrt_pos (r0 * r0 - q)).
    apply List.Forall_cons; [lra|]. apply List.Forall_cons; [lra|]. apply List.Forall_cons; [lra|].
    apply List.Forall_nil.
  - apply List.Forall_cons; [lra | apply List.Forall_nil].
Qed.

(** case 1: in front of the closest approach, outside the minimum sphere *)
Lemma mh_case_front_outside (m : mexhat) (dE x q : R) :
  mh_wf m -> 0 < q -> 0 < dE -> x <= 0 -> mh_r0sq m <= q + x * x ->
  match mh_front_outside m (mh_pot m (q + x * x)) dE x q with
  | Some d => 0 < d /\ Eplus (mh_path m x q) (breaks_mexhat x q (mh_r0 m)) d = dE
  | None => forall d, 0 <= d -> Eplus (mh_path m x q) (breaks_mexhat x q (mh_r0 m)) d < dE
  end.
Proof.
  intros Hwf Hq HdE Hx Hout.
  pose proof Hwf as (Hr0 & Esq & _).
  pose proof (mh_FO_val m dE x q Hwf Hx Hout HdE ltac:(lra)) as V.
  assert (Hb : List.Forall (fun b => b <= 0) (breaks_mexhat x q (mh_r0 m))).
  { apply breaks_front_nonpos; [exact Hx | rewrite <- Esq; exact Hout]. }
  destruct (mh_front_outside m (mh_pot m (q + x * x)) dE x q) as [d|].
  - destruct V as (rn & -> & Hlt & Hpot).
    pose proof (sqrt_gt_abs (rn * rn - q) x ltac:(lra) Hx) as HS.
    split; [lra|]. unfold Eplus. rewrite pos_var_breaks_nonpos by (try assumption; lra).
    rewrite mh_path_xpS by nra. rewrite mh_path_0. rewrite Hpot. rmax_lra.
  - intros d Hd. unfold Eplus. rewrite pos_var_breaks_nonpos by assumption.
    rewrite mh_path_0.
    assert (mh_path m x q d < mh_pot m (q + x * x) + dE).
    { unfold mh_path. apply V. assert ((x - d) * (x - d) >= x * x) by nra. lra. }
    rmax_lra.
Qed.

Lemma breaks_inside (m : mexhat) (x q : R) :
  mh_wf m -> q < mh_r0sq m ->
  breaks_mexhat x q (mh_r0 m) =
  [x - sqrt (mh_r0sq m - q); x; x + sqrt (mh_r0sq m - q)].
Proof.
  intros (_ & Esq & _) H. unfold breaks_mexhat. rewrite <- Esq.
  destruct (Rlt_dec q (mh_r0sq m)); [reflexivity | contradiction].
Qed.
Lemma breaks_outside (m : mexhat) (x q : R) :
  mh_wf m -> mh_r0sq m <= q -> breaks_mexhat x q (mh_r0 m) = [x].
Proof.
  intros (_ & Esq & _) H. unfold breaks_mexhat. rewrite <- Esq.
  destruct (Rlt_dec q (mh_r0sq m)); [lra | reflexivity].
Qed.

Lemma Eplus3 f b1 b2 b3 d :
  Eplus f [b1; b2; b3] d =
  Rmax 0 (f (clamp d b1) - f 0) + (Rmax 0 (f (clamp d b2) - f (clamp d b1)) +
  (Rmax 0 (f (clamp d b3) - f (clamp d b2)) + Rmax 0 (f d - f (clamp d b3)))).
Proof. reflexivity. Qed.
Lemma Eplus1 f b1 d :
  Eplus f [b1] d = Rmax 0 (f (clamp d b1) - f 0) + Rmax 0 (f d - f (clamp d b1)).
Proof. reflexivity. Qed.

(** case 2: in front of the closest approach, inside the minimum sphere *)
Lemma mh_case_front_inside (m : mexhat) (dE x q : R) :
  mh_wf m -> 0 < q -> 0 < dE -> x <= 0 -> q + x * x < mh_r0sq m ->
  match mh_front_inside m dE x q with
  | Some d => 0 < d /\ Eplus (mh_path m x q) (breaks_mexhat x q (mh_r0 m)) d = dE
  | None => forall d, 0 <= d -> Eplus (mh_path m x q) (breaks_mexhat x q (mh_r0 m)) d < dE
  end.
Proof.
  intros Hwf Hq HdE Hx Hin.
  assert (HqR : q < mh_r0sq m) by nra.
  pose proof (mh_FI_full m dE x q Hwf ltac:(lra) ltac:(lra) HdE) as V. cbv zeta in V.
  rewrite (breaks_inside m x q Hwf HqR).
  set (R := mh_r0sq m) in *. set (w := sqrt (R - q)) in *.
  assert (Hww : w * w = R - q) by (apply sqrt_sqrt; lra).
  assert (Hw : - x < w) by (apply sqrt_gt_abs; [lra | exact Hx]).
  assert (Hf0 : mh_pot m R <= mh_pot m (q + x * x)) by (apply mh_pot_le_in; [assumption | nra | lra | unfold R; lra]).
  destruct (mh_front_inside m dE x q) as [d|].
  - destruct V as (rn & -> & Hlt & Hpot).
    assert (HS : w < sqrt (rn * rn - q)) by (apply sqrt_lt_sq; lra).
    set (S := sqrt (rn * rn - q)) in *.
    split; [lra|]. rewrite Eplus3.
    rewrite (clamp_low _ (x - w)) by lra. rewrite (clamp_low _ x) by lra. rewrite (clamp_mid _ (x + w)) by lra.
    replace (x + w + (- w + S)) with (x + S) by ring.
    unfold S, w, R. rewrite !mh_path_xpS by (fold R; lra). rewrite mh_path_0.
    fold R. rewrite Hpot. rmax_lra.
  - intros d Hd. rewrite Eplus3.
    rewrite (clamp_low _ (x - w)) by lra. rewrite (clamp_low _ x) by lra. rewrite mh_path_0.
    destruct (Rle_lt_dec d (x + w)) as [Hdw|Hdw].
    + rewrite (clamp_high _ (x + w)) by lra.
      assert (mh_path m x q d <= mh_pot m (q + x * x)).
      { unfold mh_path. apply mh_pot_le_in; [assumption | nra | nra | fold R; nra]. }
      rmax_lra.
    + rewrite (clamp_mid _ (x + w)) by lra.
      unfold w, R. rewrite mh_path_xpw by (fold R; lra). fold R.
      assert (mh_path m x q d < mh_pot m R + dE).
      { unfold mh_path. apply V. nra. }
      rmax_lra.
Qed.

Lemma sq_bound (t w : R) : - w <= t <= w -> t * t <= w * w.
Proof. intros. assert (0 <= (w - t) * (w + t)) by (apply Rmult_le_pos; lra). lra. Qed.
Lemma sq_bound_ge (t w : R) : 0 <= w -> w <= t \/ t <= - w -> w * w <= t * t.
Proof. intros Hw [H|H]; nra. Qed.

(** case 3: behind the closest approach, inside the minimum sphere *)
Lemma mh_case_behind_inside (m : mexhat) (dE x q : R) :
  mh_wf m -> 0 < q -> 0 < dE -> 0 < x -> q + x * x < mh_r0sq m ->
  dE <> mh_pot m q - mh_pot m (q + x * x) ->
  match mh_behind_inside m (mh_pot m (q + x * x)) dE x q with
  | Some d => 0 < d /\ Eplus (mh_path m x q) (breaks_mexhat x q (mh_r0 m)) d = dE
  | None => forall d, 0 <= d -> Eplus (mh_path m x q) (breaks_mexhat x q (mh_r0 m)) d < dE
  end.
Proof.
  intros Hwf Hq HdE Hx Hin Hne.
  assert (HqR : q < mh_r0sq m) by nra.
  rewrite (breaks_inside m x q Hwf HqR).
  destruct (mh_BI_val m dE x q Hwf ltac:(lra) Hq ltac:(lra) HdE) as [Va Vb].
  set (R := mh_r0sq m) in *. set (w := sqrt (R - q)) in *.
  assert (Hww : w * w = R - q) by (apply sqrt_sqrt; lra).
  assert (Hw : x < w) by (rewrite <- (sqrt_square x) by lra; apply sqrt_lt_sq; nra).
  set (U0 := mh_pot m (q + x * x)) in *.
  assert (HUq : U0 <= mh_pot m q) by (apply mh_pot_le_in; [assumption | lra | nra | fold R; lra]).
  assert (HUm : mh_pot m R <= mh_pot m q) by (apply mh_pot_le_in; [assumption | lra | lra | fold R; lra]).
  destruct (Rlt_le_dec dE (mh_pot m q - U0)) as [Hc|Hc].
  - destruct (Va Hc) as (rn & -> & Hlo & Hhi & Hpot).
    assert (HS0 : 0 < sqrt (rn * rn - q)) by (apply sqrt_lt_R0; lra).
    assert (HSx : sqrt (rn * rn - q) < x) by (apply sqrt_lt_pos; lra).
    set (S := sqrt (rn * rn - q)) in *.
    split; [lra|]. rewrite Eplus3.
    rewrite (clamp_low _ (x - w)) by lra. rewrite (clamp_high _ x) by lra. rewrite (clamp_high _ (x + w)) by lra.
    unfold S. rewrite mh_path_xmS by lra. rewrite mh_path_0. fold U0. rewrite Hpot. rmax_lra.
  - assert (Hgt : mh_pot m q - U0 < dE) by lra.
    rewrite (Vb Hc).
    pose proof (mh_FI_full m (dE - (mh_pot m q - U0)) 0 q Hwf ltac:(fold R; lra) ltac:(lra) ltac:(lra)) as V.
    cbv zeta in V. fold R in V. fold w in V.
    destruct (mh_front_inside m (dE - (mh_pot m q - U0)) 0 q) as [d'|]; simpl.
    + destruct V as (rn & -> & Hlt & Hpot).
      assert (HS : w < sqrt (rn * rn - q)) by (apply sqrt_lt_sq; lra).
      set (S := sqrt (rn * rn - q)) in *.
      split; [lra|]. rewrite Eplus3.
      rewrite (clamp_low _ (x - w)) by lra. rewrite (clamp_mid _ x) by lra. rewrite (clamp_mid _ (x + w)) by lra.
      replace (x + (0 + w + (- w + S))) with (x + S) by ring.
      unfold S, w, R. rewrite !mh_path_xpS by (fold R; lra). rewrite mh_path_0, mh_path_x.
      fold R. fold U0. rewrite Hpot. rmax_lra.
    + intros d Hd. rewrite Eplus3.
      rewrite (clamp_low _ (x - w)) by lra. rewrite mh_path_0. fold U0.
      assert (Hinside : forall s, x - w <= s <= x + w -> mh_path m x q s <= mh_pot m q).
      { intros s Hs. unfold mh_path. pose proof (sq_bound (x - s) w ltac:(lra)).
        pose proof (Rle_0_sqr (x - s)) as Sq. unfold Rsqr in Sq.
        apply mh_pot_le_in; [assumption | lra | lra | fold R; lra]. }
      destruct (Rle_lt_dec d x) as [Hdx|Hdx].
      * rewrite (clamp_high _ x) by lra. rewrite (clamp_high _ (x + w)) by lra.
        pose proof (Hinside d ltac:(lra)). rmax_lra.
      * rewrite (clamp_mid _ x) by lra. rewrite mh_path_x.
        destruct (Rle_lt_dec d (x + w)) as [Hdw|Hdw].
        -- rewrite (clamp_high _ (x + w)) by lra. pose proof (Hinside d ltac:(lra)). rmax_lra.
        -- rewrite (clamp_mid _ (x + w)) by lra.
           unfold w, R. rewrite mh_path_xpw by (fold R; lra). fold R.
           assert (mh_path m x q d < mh_pot m R + (dE - (mh_pot m q - U0))).
           { unfold mh_path. apply V. nra. }
           rmax_lra.
Qed.

(** case 4a: behind the closest approach, passing by the minimum sphere (rho > r0) *)
Lemma mh_case_behind_passing (m : mexhat) (dE x q : R) :
  mh_wf m -> 0 < q -> 0 < dE -> 0 < x -> mh_r0sq m < q ->
  match mh_behind_outside m dE x q with
  | Some d => 0 < d /\ Eplus (mh_path m x q) (breaks_mexhat x q (mh_r0 m)) d = dE
  | None => forall d, 0 <= d -> Eplus (mh_path m x q) (breaks_mexhat x q (mh_r0 m)) d < dE
  end.
Proof.
  intros Hwf Hq HdE Hx Hout.
  destruct (mh_BO_val m dE x q) as [_ Vb]. rewrite (Vb Hout).
  rewrite (breaks_outside m x q Hwf ltac:(lra)).
  pose proof (mh_FO_val m dE 0 q Hwf ltac:(lra) ltac:(lra) HdE ltac:(lra)) as V.
  replace (q + 0 * 0) with q in * by ring.
  set (R := mh_r0sq m) in *.
  assert (Hdec : forall s, 0 <= s <= x -> mh_path m x q s <= mh_pot m (q + x * x)).
  { intros s Hs. unfold mh_path. pose proof (sq_bound (x - s) x ltac:(lra)).
    pose proof (Rle_0_sqr (x - s)) as Sq. unfold Rsqr in Sq.
    apply mh_pot_le_out; [assumption | fold R; lra | lra]. }
  destruct (mh_front_outside m (mh_pot m q) dE 0 q) as [d'|]; simpl.
  - destruct V as (rn & -> & Hlt & Hpot).
    assert (HS : 0 < sqrt (rn * rn - q)) by (apply sqrt_lt_R0; lra).
    set (S := sqrt (rn * rn - q)) in *.
    split; [lra|]. rewrite Eplus1. rewrite (clamp_mid _ x) by lra.
    replace (x + (0 + S)) with (x + S) by ring.
    unfold S. rewrite mh_path_xpS by lra. rewrite mh_path_0, mh_path_x. rewrite Hpot.
    pose proof (Hdec x ltac:(lra)) as Hx'. rewrite mh_path_x in Hx'. rmax_lra.
  - intros d Hd. rewrite Eplus1. rewrite mh_path_0.
    destruct (Rle_lt_dec d x) as [Hdx|Hdx].
    + rewrite (clamp_high _ x) by lra. pose proof (Hdec d ltac:(lra)). rmax_lra.
    + rewrite (clamp_mid _ x) by lra. rewrite mh_path_x.
      pose proof (Hdec x ltac:(lra)) as Hx'. rewrite mh_path_x in Hx'.
      assert (mh_path m x q d < mh_pot m q + dE).
      { unfold mh_path. apply V. pose proof (Rle_0_sqr (x - d)) as Sq. unfold Rsqr in Sq. fold R. lra. }
      rmax_lra.
Qed.

(** case 4b: behind the closest approach, outside the minimum sphere, entering it (rho <= r0) *)
Lemma mh_case_behind_entering (m : mexhat) (dE x q : R) :
  mh_wf m -> 0 < q -> 0 < dE -> 0 < x -> mh_r0sq m <= q + x * x -> q <= mh_r0sq m ->
  dE <> mh_pot m q - mh_pot m (mh_r0sq m) ->
  match mh_behind_outside m dE x q with
  | Some d => 0 < d /\ Eplus (mh_path m x q) (breaks_mexhat x q (mh_r0 m)) d = dE
  | None => forall d, 0 <= d -> Eplus (mh_path m x q) (breaks_mexhat x q (mh_r0 m)) d < dE
  end.
Proof.
  intros Hwf Hq HdE Hx Hout HqR Hne.
  destruct (mh_BO_val m dE x q) as [Va _]. rewrite (Va HqR). clear Va.
  set (R := mh_r0sq m) in *. set (w := sqrt (R - q)) in *.
  assert (Hww : w * w = R - q) by (apply sqrt_sqrt; lra).
  assert (Hw0 : 0 <= w) by apply sqrt_pos.
  assert (Hwx : w <= x) by (apply sqrt_le_pos; lra).
  assert (EwR : q + w * w = R) by lra.
  destruct (mh_BI_val m dE w q Hwf Hw0 Hq ltac:(fold R; lra) HdE) as [Va Vb].
  rewrite EwR in *.
  assert (HUm0 : mh_pot m R <= mh_pot m (q + x * x)) by (apply mh_pot_le_out; [assumption | fold R; lra | lra]).
  assert (HUmq : mh_pot m R <= mh_pot m q) by (apply mh_pot_le_in; [assumption | lra | lra | fold R; lra]).
  assert (Hdec : forall s, 0 <= s <= x - w -> mh_path m x q s <= mh_pot m (q + x * x)).
  { intros s Hs. unfold mh_path. pose proof (sq_bound (x - s) x ltac:(lra)).
    pose proof (sq_bound_ge (x - s) w Hw0 ltac:(left; lra)).
    apply mh_pot_le_out; [assumption | fold R; lra | lra]. }
  assert (Hinside : forall s, x - w <= s <= x + w -> mh_path m x q s <= mh_pot m q).
  { intros s Hs. unfold mh_path. pose proof (sq_bound (x - s) w ltac:(lra)).
    pose proof (Rle_0_sqr (x - s)) as Sq. unfold Rsqr in Sq.
    apply mh_pot_le_in; [assumption | lra | lra | fold R; lra]. }
  destruct (Rlt_le_dec dE (mh_pot m q - mh_pot m R)) as [Hc|Hc].
  - (* stops while climbing the inner barrier *)
    destruct (Va Hc) as (rn & -> & Hlo & Hhi & Hpot). simpl.
    assert (HqltR : q < R) by lra.
    assert (HS0 : 0 < sqrt (rn * rn - q)) by (apply sqrt_lt_R0; lra).
    assert (HSw : sqrt (rn * rn - q) < w) by (apply sqrt_lt_pos; lra).
    set (S := sqrt (rn * rn - q)) in *.
    split; [lra|]. rewrite (breaks_inside m x q Hwf HqltR). fold R. fold w. rewrite Eplus3.
    rewrite (clamp_mid _ (x - w)) by lra. rewrite (clamp_high _ x) by lra. rewrite (clamp_high _ (x + w)) by lra.
    replace (x - w + (w - S)) with (x - S) by ring.
    unfold S, w, R. rewrite !mh_path_xmS by (fold R; lra). rewrite mh_path_0. fold R. rewrite Hpot. rmax_lra.
  - assert (Hgt : mh_pot m q - mh_pot m R < dE) by (fold R in Hne; lra).
    rewrite (Vb Hc). clear Va Vb.
    pose proof (mh_FI_full m (dE - (mh_pot m q - mh_pot m R)) 0 q Hwf ltac:(fold R; lra) ltac:(lra) ltac:(lra)) as V.
    cbv zeta in V. fold R in V. fold w in V.
    destruct (Rle_lt_or_eq_dec q R HqR) as [HqltR|Heq].
    + (* rho < r0: three break points *)
      rewrite (breaks_inside m x q Hwf HqltR). fold R. fold w.
      assert (Hwpos : 0 < w) by (apply sqrt_lt_R0; lra).
      destruct (mh_front_inside m (dE - (mh_pot m q - mh_pot m R)) 0 q) as [d'|]; simpl.
      * destruct V as (rn & -> & Hlt & Hpot).
        assert (HS : w < sqrt (rn * rn - q)) by (apply sqrt_lt_sq; lra).
        set (S := sqrt (rn * rn - q)) in *.
        split; [lra|]. rewrite Eplus3.
        replace (x - w + (w + (0 + w + (- w + S)))) with (x + S) by ring.
        rewrite (clamp_mid _ (x - w)) by lra. rewrite (clamp_mid _ x) by lra. rewrite (clamp_mid _ (x + w)) by lra.
        unfold S, w, R. rewrite !mh_path_xpS by (fold R; lra). rewrite mh_path_xmw by (fold R; lra).
        rewrite mh_path_0, mh_path_x. fold R. rewrite Hpot. rmax_lra.
      * intros d Hd. rewrite Eplus3. rewrite mh_path_0.
        destruct (Rle_lt_dec d (x - w)) as [H1|H1].
        { rewrite (clamp_high _ (x - w)) by lra. rewrite (clamp_high _ x) by lra. rewrite (clamp_high _ (x + w)) by lra.
          pose proof (Hdec d ltac:(lra)). rmax_lra. }
        rewrite (clamp_mid _ (x - w)) by lra.
        unfold w at 1 2, R at 1 2. rewrite mh_path_xmw by (fold R; lra). fold R. fold w.
        destruct (Rle_lt_dec d x) as [H2|H2].
        { rewrite (clamp_high _ x) by lra. rewrite (clamp_high _ (x + w)) by lra.
          pose proof (Hinside d ltac:(lra)). rmax_lra. }
        rewrite (clamp_mid _ x) by lra. rewrite mh_path_x.
        destruct (Rle_lt_dec d (x + w)) as [H3|H3].
        { rewrite (clamp_high _ (x + w)) by lra. pose proof (Hinside d ltac:(lra)). rmax_lra. }
        rewrite (clamp_mid _ (x + w)) by lra.
        unfold w at 1 2, R at 1 2. rewrite mh_path_xpw by (fold R; lra). fold R. fold w.
        assert (mh_path m x q d < mh_pot m R + (dE - (mh_pot m q - mh_pot m R))).
        { unfold mh_path. apply V. pose proof (sq_bound_ge (x - d) w Hw0 ltac:(right; lra)). lra. }
        rmax_lra.
    + (* rho = r0: the sphere is only touched *)
      rewrite (breaks_outside m x q Hwf ltac:(fold R; lra)).
      assert (Ew : w = 0) by (unfold w; rewrite Heq; replace (R - R) with 0 by ring; apply sqrt_0).
      assert (EU : mh_pot m q = mh_pot m R) by (rewrite Heq; reflexivity).
      destruct (mh_front_inside m (dE - (mh_pot m q - mh_pot m R)) 0 q) as [d'|]; simpl.
      * destruct V as (rn & -> & Hlt & Hpot).
        assert (HS : 0 < sqrt (rn * rn - q)) by (apply sqrt_lt_R0; lra).
        set (S := sqrt (rn * rn - q)) in *.
        split; [lra|]. rewrite Eplus1.
        replace (x - w + (w + (0 + w + (- w + S)))) with (x + S) by ring.
        rewrite (clamp_mid _ x) by lra.
        unfold S. rewrite mh_path_xpS by lra. rewrite mh_path_0, mh_path_x. rewrite Hpot. rmax_lra.
      * intros d Hd. rewrite Eplus1. rewrite mh_path_0.
        destruct (Rle_lt_dec d x) as [H2|H2].
        { rewrite (clamp_high _ x) by lra. pose proof (Hdec d ltac:(lra)). rmax_lra. }
        rewrite (clamp_mid _ x) by lra. rewrite mh_path_x.
        assert (mh_path m x q d < mh_pot m R + (dE - (mh_pot m q - mh_pot m R))).
        { unfold mh_path. apply V. pose proof (Rle_0_sqr (x - d)) as Sq. unfold Rsqr in Sq. lra. }
        rmax_lra.
Qed.

(** *** all cases: the code's standard_velocity_displacement of a Mexican hat inverts the cumulative uphill energy,
    and returns infinity exactly when the budget is never reached.  The budget must not be exactly equal to the inner
    barrier (a single value; the branch boundary "can / cannot climb", cf. known finding F3e). *)
Theorem mh_displacement_correct (m : mexhat) (dE x q : R) :
  mh_wf m -> 0 < q -> 0 < dE ->
  (0 < x -> q <= mh_r0sq m -> dE <> mh_pot m q - mh_pot m (Rmin (q + x * x) (mh_r0sq m))) ->
  match mh_displacement m dE x q with
  | Some d => 0 < d /\ Eplus (mh_path m x q) (breaks_mexhat x q (mh_r0 m)) d = dE
  | None => forall d, 0 <= d -> Eplus (mh_path m x q) (breaks_mexhat x q (mh_r0 m)) d < dE
  end.
Proof.
  intros Hwf Hq HdE Hne.
  pose proof Hwf as (Hr0 & Esq & _).
  assert (HA : 0 <= q + x * x) by nra.
  unfold mh_displacement.
  destruct (Rle_dec (mh_r0 m) (sqrt (q + x * x))) as [Ho|Hi].
  - apply (r0_le_sqrt_iff _ _ Hr0 HA) in Ho. rewrite <- Esq in Ho.
    destruct (Rle_dec x 0) as [Hx|Hx].
    + apply mh_case_front_outside; assumption.
    + apply Rnot_le_lt in Hx.
      destruct (Rle_lt_dec q (mh_r0sq m)) as [HqR|HqR].
      * apply mh_case_behind_entering; try assumption.
        specialize (Hne Hx HqR). rewrite Rmin_right in Hne by exact Ho. exact Hne.
      * apply mh_case_behind_passing; assumption.
  - assert (Hin : q + x * x < mh_r0sq m).
    { apply Rnot_le_lt in Hi. destruct (Rlt_le_dec (q + x * x) (mh_r0sq m)) as [L|L]; [exact L|]. exfalso.
      rewrite Esq in L. apply (r0_le_sqrt_iff _ _ Hr0 HA) in L. lra. }
    destruct (Rle_dec x 0) as [Hx|Hx].
    + apply mh_case_front_inside; assumption.
    + apply Rnot_le_lt in Hx.
      apply mh_case_behind_inside; try assumption.
      assert (HqR : q <= mh_r0sq m) by nra.
      specialize (Hne Hx HqR). rewrite Rmin_left in Hne by lra. exact Hne.
Qed.

Corollary mh_displacement_inverts (m : mexhat) (dE x q d : R) :
  mh_wf m -> 0 < q -> 0 < dE ->
  (0 < x -> q <= mh_r0sq m -> dE <> mh_pot m q - mh_pot m (Rmin (q + x * x) (mh_r0sq m))) ->
  mh_displacement m dE x q = Some d ->
  0 < d /\ Eplus (mh_path m x q) (breaks_mexhat x q (mh_r0 m)) d = dE.
Proof.
  intros Hwf Hq HdE Hne E. pose proof (mh_displacement_correct m dE x q Hwf Hq HdE Hne) as H.
  rewrite E in H. exact H.
Qed.

Corollary mh_infinite_iff_never_reached (m : mexhat) (dE x q : R) :
  mh_wf m -> 0 < q -> 0 < dE ->
  (0 < x -> q <= mh_r0sq m -> dE <> mh_pot m q - mh_pot m (Rmin (q + x * x) (mh_r0sq m))) ->
  (mh_displacement m dE x q = None <->
   forall d, 0 <= d -> Eplus (mh_path m x q) (breaks_mexhat x q (mh_r0 m)) d < dE).
Proof.
  intros Hwf Hq HdE Hne. pose proof (mh_displacement_correct m dE x q Hwf Hq HdE Hne) as H.
  destruct (mh_displacement m dE x q) as [d|]; split; intros H'; try assumption; try reflexivity; try discriminate.
  exfalso. destruct H as [Hd HE]. specialize (H' d (Rlt_le _ _ Hd)). lra.
Qed.

(** *** instance: displaced even power potential *)
Lemma pow_even_opp (t : R) (p : nat) : Nat.Even p -> (- t) ^ p = t ^ p.
Proof. intros [n ->]. rewrite !pow_Rsqr, <- Rsqr_neg. reflexivity. Qed.

Lemma dep_mexhat_wf (k r0 : R) (p : nat) :
  0 < k -> 0 < r0 -> (0 < p)%nat -> Nat.Even p -> mh_wf (dep_mexhat k r0 p).
Proof.
  intros Hk Hr0 Hp Hev. unfold mh_wf; simpl.
  assert (Hz : dep_pot k r0 p (r0 * r0) = 0).
  { unfold dep_pot. rewrite sqrt_square by lra. replace (r0 - r0) with 0 by ring. rewrite pow_i by exact Hp. ring. }
  assert (Hin : forall a b, 0 < a -> a < b -> b <= r0 * r0 -> dep_pot k r0 p b < dep_pot k r0 p a).
  { intros a b Ha Hab Hb. unfold dep_pot.
    assert (sqrt a < sqrt b) by (apply sqrt_lt_sq; lra).
    assert (sqrt b <= r0) by (apply sqrt_le_pos; lra).
    apply Rmult_lt_compat_l; [exact Hk|].
    rewrite <- (pow_even_opp (sqrt b - r0) p Hev), <- (pow_even_opp (sqrt a - r0) p Hev).
    apply pow_lt_strict; [lra | exact Hp]. }
  split; [exact Hr0|]. split; [reflexivity|]. split; [|split; [exact Hin|]; split; [|split]].
  - intros a b Ha Hab. apply dep_pot_increasing_outside; try assumption; lra.
  - intros U rn HU E. rewrite Hz in HU.
    destruct (dep_invert_outside k r0 p U rn Hk ltac:(lra) Hp HU E) as [Hgt Hpot].
    split; [lra|]. split; [nra | exact Hpot].
  - intros U _ HN. unfold dep_inv_out in HN. discriminate.
  - intros U qq Hqq Hqq' HU HUq. rewrite Hz in HU.
    assert (Hsq : 0 < sqrt qq <= r0) by (split; [apply sqrt_lt_R0; lra | apply sqrt_le_pos; lra]).
    assert (Hmax : dep_pot k r0 p qq <= k * r0 ^ p).
    { unfold dep_pot. apply Rmult_le_compat_l; [lra|].
      rewrite <- (pow_even_opp (sqrt qq - r0) p Hev). apply pow_incr. lra. }
    destruct (dep_invert_inside k r0 p U Hk Hp Hev HU ltac:(lra) Hr0) as [[Hrn0 Hrn1] Hpot].
    set (rn := dep_inv_in k r0 p U) in *.
    assert (Hpos : 0 < rn).
    { destruct (Rle_lt_or_eq_dec 0 rn Hrn0) as [L|Z]; [exact L|]. exfalso.
      rewrite <- Z in Hpot. unfold dep_pot in Hpot. replace (0 * 0) with 0 in Hpot by ring.
      rewrite sqrt_0 in Hpot. replace (0 - r0) with (- r0) in Hpot by ring.
      rewrite (pow_even_opp r0 p Hev) in Hpot.
      assert (dep_pot k r0 p qq < k * r0 ^ p); [|lra].
      unfold dep_pot. apply Rmult_lt_compat_l; [lra|].
      rewrite <- (pow_even_opp (sqrt qq - r0) p Hev). apply pow_lt_strict; [lra | exact Hp]. }
    split; [exact Hpos|]. split; [nra | exact Hpot].
Qed.

(** *** instance: Lennard-Jones potential *)
Lemma lj_pot_T (k sigma a : R) :
  0 < a -> lj_pot k sigma a = k * (sigma ^ 6 / a ^ 3 * (sigma ^ 6 / a ^ 3) - sigma ^ 6 / a ^ 3).
Proof.
  intros Ha. unfold lj_pot, ip_potential.
  replace (6 / 2) with (INR 3) by (simpl; field).
  replace (12 / 2) with (INR 6) by (simpl; field).
  rewrite !Rpower_pow by exact Ha. field. lra.
Qed.

Lemma cube_lt (a b : R) : 0 <= a -> a < b -> a ^ 3 < b ^ 3.
Proof. intros. apply pow_lt_strict; [lra | lia]. Qed.
Lemma cube_le_inv (a b : R) : 0 <= a -> 0 <= b -> a ^ 3 <= b ^ 3 -> a <= b.
Proof. intros Ha Hb H. destruct (Rle_lt_dec a b) as [L|L]; [exact L|]. pose proof (cube_lt b a Hb L). lra. Qed.

Lemma lj_r0sq_cube (sigma : R) : (lj_r0 sigma * lj_r0 sigma) ^ 3 = 2 * sigma ^ 6.
Proof.
  unfold lj_r0.
  assert (E : Rpower 2 (1 / 6) ^ 6 = 2).
  { replace (1 / 6) with (1 / INR 6) by (simpl; field). apply Rpower_root_pow; [lra | lia]. }
  replace ((sigma * Rpower 2 (1 / 6) * (sigma * Rpower 2 (1 / 6))) ^ 3) with (sigma ^ 6 * Rpower 2 (1 / 6) ^ 6) by ring.
  rewrite E. ring.
Qed.

(** with t = (sigma/rn)^6:  rn^6 = sigma^6 / t *)
Lemma lj_rn_cube (sigma t : R) :
  0 < sigma -> 0 < t ->
  let rn := sigma / Rpower t (1 / 6) in 0 < rn /\ (rn * rn) ^ 3 = sigma ^ 6 / t.
Proof.
  intros Hs Ht rn. pose proof (Rpower_pos t (1 / 6)) as Hu.
  assert (Hu6 : Rpower t (1 / 6) ^ 6 = t).
  { replace (1 / 6) with (1 / INR 6) by (simpl; field). apply Rpower_root_pow; [exact Ht | lia]. }
  split; [apply Rdiv_lt_0_compat; assumption|].
  replace ((rn * rn) ^ 3) with (rn ^ 6) by ring. unfold rn. rewrite <- Hu6 at 2. field. lra.
Qed.

Lemma lj_T_half (sigma a : R) :
  0 < sigma -> 0 < a ->
  (lj_r0 sigma * lj_r0 sigma <= a -> sigma ^ 6 / a ^ 3 <= 1 / 2) /\
  (a <= lj_r0 sigma * lj_r0 sigma -> 1 / 2 <= sigma ^ 6 / a ^ 3).
Proof.
  intros Hs Ha.
  assert (Hr : 0 < lj_r0 sigma * lj_r0 sigma).
  { unfold lj_r0. pose proof (Rpower_pos 2 (1 / 6)). apply Rmult_lt_0_compat; apply Rmult_lt_0_compat; assumption. }
  assert (Hs6 : 0 < sigma ^ 6) by (apply pow_lt; exact Hs).
  assert (Ha3 : 0 < a ^ 3) by (apply pow_lt; exact Ha).
  pose proof (lj_r0sq_cube sigma) as Ec.
  split; intros H.
  - assert (2 * sigma ^ 6 <= a ^ 3).
    { rewrite <- Ec. destruct H as [H| ->]; [left; apply cube_lt; lra | right; reflexivity]. }
    apply (Rmult_le_reg_r (a ^ 3)); [exact Ha3|]. replace (sigma ^ 6 / a ^ 3 * a ^ 3) with (sigma ^ 6) by (field; lra). lra.
  - assert (a ^ 3 <= 2 * sigma ^ 6).
    { rewrite <- Ec. destruct H as [H| ->]; [left; apply cube_lt; lra | right; reflexivity]. }
    apply (Rmult_le_reg_r (a ^ 3)); [exact Ha3|]. replace (sigma ^ 6 / a ^ 3 * a ^ 3) with (sigma ^ 6) by (field; lra). lra.
Qed.

Lemma lj_T_antitone (sigma a b : R) : 0 < sigma -> 0 < a -> a < b -> sigma ^ 6 / b ^ 3 < sigma ^ 6 / a ^ 3.
Proof.
  intros Hs Ha Hab.
  assert (Hs6 : 0 < sigma ^ 6) by (apply pow_lt; exact Hs).
  assert (Ha3 : 0 < a ^ 3) by (apply pow_lt; exact Ha).
  pose proof (cube_lt a b ltac:(lra) Hab).
  unfold Rdiv. apply Rmult_lt_compat_l; [exact Hs6|]. apply Rinv_lt_contravar; [nra | assumption].
Qed.

Lemma lj_mexhat_wf (k sigma : R) : 0 < k -> 0 < sigma -> mh_wf (lj_mexhat k sigma).
Proof.
  intros Hk Hs. unfold mh_wf; simpl.
  assert (Hr0 : 0 < lj_r0 sigma) by (unfold lj_r0; apply Rmult_lt_0_compat; [exact Hs | apply Rpower_pos]).
  set (R := lj_r0 sigma * lj_r0 sigma).
  assert (HR : 0 < R) by (unfold R; nra).
  assert (Hs6 : 0 < sigma ^ 6) by (apply pow_lt; exact Hs).
  assert (HpotR : lj_pot k sigma R = - k / 4).
  { rewrite lj_pot_T by exact HR. unfold R. rewrite lj_r0sq_cube. field. lra. }
  assert (Hout : forall a b, R <= a -> a < b -> lj_pot k sigma a < lj_pot k sigma b).
  { intros a b Ha Hab. rewrite !lj_pot_T by lra.
    pose proof (lj_T_antitone sigma a b Hs ltac:(lra) Hab) as HT.
    destruct (lj_T_half sigma a Hs ltac:(lra)) as [Ha2 _]. specialize (Ha2 Ha).
    assert (0 < sigma ^ 6 / b ^ 3) by (apply Rdiv_lt_0_compat; [exact Hs6 | apply pow_lt; lra]).
    set (Ta := sigma ^ 6 / a ^ 3) in *. set (Tb := sigma ^ 6 / b ^ 3) in *.
    assert ((Ta - Tb) * (Ta + Tb - 1) < 0) by nra. nra. }
  assert (Hin : forall a b, 0 < a -> a < b -> b <= R -> lj_pot k sigma b < lj_pot k sigma a).
  { intros a b Ha Hab Hb. rewrite !lj_pot_T by lra.
    pose proof (lj_T_antitone sigma a b Hs Ha Hab) as HT.
    destruct (lj_T_half sigma b Hs ltac:(lra)) as [_ Hb2]. specialize (Hb2 Hb).
    set (Ta := sigma ^ 6 / a ^ 3) in *. set (Tb := sigma ^ 6 / b ^ 3) in *.
    assert (0 < (Ta - Tb) * (Ta + Tb - 1)) by nra. nra. }
  assert (Hrad : forall U, - k / 4 <= U -> 0 <= 1 + 4 * U / k).
  { intros U HU. assert (4 * U / k >= -1); [|lra]. unfold Rdiv.
    assert (0 < / k) by (apply Rinv_0_lt_compat; exact Hk).
    replace (-1) with (4 * (- k / 4) * / k) by (field; lra). nra. }
  split; [exact Hr0|]. split; [reflexivity|]. split; [exact Hout|]. split; [exact Hin|]. split; [|split].
  - intros U rn HU E. fold R in HU. rewrite HpotR in HU.
    destruct (lj_invert_outside k sigma U rn Hk Hs ltac:(lra) E) as [Hneg Hpot].
    unfold lj_inv_out in E. destruct (Rle_dec 0 U); [discriminate|]. injection E as E.
    pose proof (Hrad U ltac:(lra)) as Hr. pose proof (sqrt_pos (1 + 4 * U / k)) as Hs0.
    assert (Hs1 : sqrt (1 + 4 * U / k) < 1).
    { rewrite <- sqrt_1 at 2. apply sqrt_lt_sq; [exact Hr|].
      assert (4 * U / k < 0); [|lra]. unfold Rdiv. assert (0 < / k) by (apply Rinv_0_lt_compat; exact Hk). nra. }
    set (t := (1 - sqrt (1 + 4 * U / k)) / 2) in *.
    assert (Ht : 0 < t <= 1 / 2) by (unfold t; lra).
    destruct (lj_rn_cube sigma t Hs ltac:(lra)) as [Hrn Hc]. rewrite E in Hrn, Hc.
    split; [lra|]. split; [|exact Hpot].
    apply cube_le_inv; [unfold R in *; lra | nra |]. unfold R. rewrite lj_r0sq_cube, Hc.
    apply (Rmult_le_reg_r t); [lra|]. replace (sigma ^ 6 / t * t) with (sigma ^ 6) by (field; lra). nra.
  - intros U HU EN a Ha. unfold lj_inv_out in EN. destruct (Rle_dec 0 U) as [HU0|]; [|discriminate].
    fold R in Ha. rewrite lj_pot_T by lra.
    destruct (lj_T_half sigma a Hs ltac:(lra)) as [Ha2 _]. specialize (Ha2 Ha).
    assert (0 < sigma ^ 6 / a ^ 3) by (apply Rdiv_lt_0_compat; [exact Hs6 | apply pow_lt; lra]).
    set (Ta := sigma ^ 6 / a ^ 3) in *. assert (Ta * Ta - Ta < 0) by nra. nra.
  - intros U qq Hqq Hqq' HU HUq. fold R in HU, Hqq'. rewrite HpotR in HU.
    pose proof (lj_invert_inside k sigma U Hk Hs ltac:(lra)) as Hpot. cbv zeta in Hpot.
    pose proof (Hrad U ltac:(lra)) as Hr. pose proof (sqrt_pos (1 + 4 * U / k)) as Hs0.
    unfold lj_inv_in in *.
    set (t := (1 + sqrt (1 + 4 * U / k)) / 2) in *.
    assert (Ht : 1 / 2 <= t) by (unfold t; lra).
    destruct (lj_rn_cube sigma t Hs ltac:(lra)) as [Hrn Hc].
    split; [exact Hrn|]. split; [|exact Hpot].
    apply cube_le_inv; [nra | unfold R in *; lra |]. unfold R. rewrite lj_r0sq_cube, Hc.
    apply (Rmult_le_reg_r t); [lra|]. replace (sigma ^ 6 / t * t) with (sigma ^ 6) by (field; lra). nra.
Qed.

(** *** the two shipped Mexican hats, with the division by the speed *)
Theorem lj_displacement_correct (k sigma dE x q : R) :
  0 < k -> 0 < sigma -> 0 < q -> 0 < dE ->
  (0 < x -> q <= lj_r0 sigma * lj_r0 sigma ->
   dE <> lj_pot k sigma q - lj_pot k sigma (Rmin (q + x * x) (lj_r0 sigma * lj_r0 sigma))) ->
  match lj_displacement k sigma dE x q with
  | Some d => 0 < d /\
      Eplus (fun s => lj_pot k sigma (q + (x - s) * (x - s))) (breaks_mexhat x q (lj_r0 sigma)) d = dE
  | None => forall d, 0 <= d ->
      Eplus (fun s => lj_pot k sigma (q + (x - s) * (x - s))) (breaks_mexhat x q (lj_r0 sigma)) d < dE
  end.
Proof.
  intros Hk Hs Hq HdE Hne.
  exact (mh_displacement_correct (lj_mexhat k sigma) dE x q (lj_mexhat_wf k sigma Hk Hs) Hq HdE Hne).
Qed.

Theorem dep_displacement_correct (k r0 : R) (p : nat) (dE x q : R) :
  0 < k -> 0 < r0 -> (0 < p)%nat -> Nat.Even p -> 0 < q -> 0 < dE ->
  (0 < x -> q <= r0 * r0 -> dE <> dep_pot k r0 p q - dep_pot k r0 p (Rmin (q + x * x) (r0 * r0))) ->
  match dep_displacement k r0 p dE x q with
  | Some d => 0 < d /\
      Eplus (fun s => dep_pot k r0 p (q + (x - s) * (x - s))) (breaks_mexhat x q r0) d = dE
  | None => forall d, 0 <= d ->
      Eplus (fun s => dep_pot k r0 p (q + (x - s) * (x - s))) (breaks_mexhat x q r0) d < dE
  end.
Proof.
  intros Hk Hr0 Hp Hev Hq HdE Hne.
  exact (mh_displacement_correct (dep_mexhat k r0 p) dE x q (dep_mexhat_wf k r0 p Hk Hr0 Hp Hev) Hq HdE Hne).
Qed.

Lemma sv_some_inv (o : option R) (speed t : R) :
  0 < speed -> sv_displacement o speed = Some t -> o = Some (t * speed).
Proof.
  intros Hv H. unfold sv_displacement, xdiv in H. destruct o as [d|]; [|discriminate].
  injection H as <-. f_equal. field. lra.
Qed.
Lemma sv_none_iff (o : option R) (speed : R) : sv_displacement o speed = None <-> o = None.
Proof. unfold sv_displacement, xdiv. destruct o; split; intros; try discriminate; reflexivity. Qed.

Theorem lj_displacement_inverts (k sigma dE x q speed t : R) :
  0 < k -> 0 < sigma -> 0 < q -> 0 < dE -> 0 < speed ->
  (0 < x -> q <= lj_r0 sigma * lj_r0 sigma ->
   dE <> lj_pot k sigma q - lj_pot k sigma (Rmin (q + x * x) (lj_r0 sigma * lj_r0 sigma))) ->
  sv_displacement (lj_displacement k sigma dE x q) speed = Some t ->
  0 < t /\
  Eplus (fun s => lj_pot k sigma (q + (x - s) * (x - s))) (breaks_mexhat x q (lj_r0 sigma)) (t * speed) = dE.
Proof.
  intros Hk Hs Hq HdE Hv Hne H. apply (sv_some_inv _ _ _ Hv) in H.
  pose proof (lj_displacement_correct k sigma dE x q Hk Hs Hq HdE Hne) as C. rewrite H in C.
  destruct C as [Hd HE]. split; [nra | exact HE].
Qed.

Theorem lj_infinite_iff (k sigma dE x q speed : R) :
  0 < k -> 0 < sigma -> 0 < q -> 0 < dE ->
  (0 < x -> q <= lj_r0 sigma * lj_r0 sigma ->
   dE <> lj_pot k sigma q - lj_pot k sigma (Rmin (q + x * x) (lj_r0 sigma * lj_r0 sigma))) ->
  (sv_displacement (lj_displacement k sigma dE x q) speed = None <->
   forall d, 0 <= d ->
     Eplus (fun s => lj_pot k sigma (q + (x - s) * (x - s))) (breaks_mexhat x q (lj_r0 sigma)) d < dE).
Proof.
  intros Hk Hs Hq HdE Hne. rewrite sv_none_iff.
  exact (mh_infinite_iff_never_reached (lj_mexhat k sigma) dE x q (lj_mexhat_wf k sigma Hk Hs) Hq HdE Hne).
Qed.

Theorem dep_displacement_inverts (k r0 : R) (p : nat) (dE x q speed t : R) :
  0 < k -> 0 < r0 -> (0 < p)%nat -> Nat.Even p -> 0 < q -> 0 < dE -> 0 < speed ->
  (0 < x -> q <= r0 * r0 -> dE <> dep_pot k r0 p q - dep_pot k r0 p (Rmin (q + x * x) (r0 * r0))) ->
  sv_displacement (dep_displacement k r0 p dE x q) speed = Some t ->
  0 < t /\ Eplus (fun s => dep_pot k r0 p (q + (x - s) * (x - s))) (breaks_mexhat x q r0) (t * speed) = dE.
Proof.
  intros Hk Hr0 Hp Hev Hq HdE Hv Hne H. apply (sv_some_inv _ _ _ Hv) in H.
  pose proof (dep_displacement_correct k r0 p dE x q Hk Hr0 Hp Hev Hq HdE Hne) as C. rewrite H in C.
  destruct C as [Hd HE]. split; [nra | exact HE].
Qed.

(** the displaced even power potential grows without bound: the event distance is never infinite *)
Theorem dep_never_infinite (k r0 : R) (p : nat) (dE x q speed : R) :
  sv_displacement (dep_displacement k r0 p dE x q) speed <> None.
Proof.
  rewrite sv_none_iff. unfold dep_displacement, mh_displacement, mh_behind_outside, mh_behind_inside,
    mh_front_inside, mh_front_outside; simpl.
  repeat match goal with |- context [if ?c then _ else _] => destruct c end; simpl; discriminate.
Qed.

(** ** C02: 1/r bounding potential of the C extension with periodic images (laps) *)
Lemma Int_part_unique (r : R) (z : Z) : IZR z <= r < IZR z + 1 -> Int_part r = z.
Proof.
  intros [H1 H2]. unfold Int_part.
  assert (E : (z + 1)%Z = up r).
  { apply tech_up; rewrite plus_IZR; simpl; lra. }
  rewrite <- E. lia.
Qed.

Lemma nearest_image_id (L u : R) : 0 < L -> - L / 2 <= u < L / 2 -> nearest_image L u = u.
Proof.
  intros HL Hu. unfold nearest_image.
  rewrite (Int_part_unique (u / L + 1 / 2) 0).
  - simpl. ring.
  - simpl. assert (- 1 / 2 <= u / L < 1 / 2); [|lra].
    split.
    + apply (Rmult_le_reg_r L); [exact HL|]. replace (u / L * L) with u by (field; lra). lra.
    + apply (Rmult_lt_reg_r L); [exact HL|]. replace (u / L * L) with u by (field; lra). lra.
Qed.

Lemma nearest_image_periodic (L u : R) : 0 < L -> nearest_image L (u - L) = nearest_image L u.
Proof.
  intros HL. unfold nearest_image.
  set (z := Int_part (u / L + 1 / 2)).
  assert (Hz : IZR z <= u / L + 1 / 2 < IZR z + 1).
  { unfold z. destruct (base_Int_part (u / L + 1 / 2)) as [B1 B2]. lra. }
  rewrite (Int_part_unique ((u - L) / L + 1 / 2) (z - 1)).
  - rewrite minus_IZR. simpl. ring.
  - rewrite minus_IZR. simpl. replace ((u - L) / L) with (u / L - 1) by (field; lra). lra.
Qed.

Lemma nearest_image_sq (L u : R) :
  0 < L -> - L / 2 <= u <= L / 2 -> nearest_image L u * nearest_image L u = u * u.
Proof.
  intros HL [H1 H2]. destruct (Rle_lt_or_eq_dec _ _ H2) as [Hlt|Heq].
  - rewrite nearest_image_id by lra. reflexivity.
  - rewrite <- (nearest_image_periodic L u HL). rewrite nearest_image_id by lra. subst u. field.
Qed.

Lemma ipc_pot_sq (kc u v q : R) : u * u = v * v -> ipc_pot kc u q = ipc_pot kc v q.
Proof. intros H. unfold ipc_pot. rewrite H. reflexivity. Qed.

(** the energy along the path inside the window of the nearest image, and its period *)
Lemma ipc_path_window (kc x q L s : R) :
  0 < L -> x - L / 2 <= s <= x + L / 2 -> ipc_path kc x q L s = ipc_pot kc (x - s) q.
Proof. intros HL Hs. unfold ipc_path. apply ipc_pot_sq. apply nearest_image_sq; lra. Qed.

Lemma ipc_path_periodic (kc x q L s : R) : 0 < L -> ipc_path kc x q L (s + L) = ipc_path kc x q L s.
Proof.
  intros HL. unfold ipc_path. replace (x - (s + L)) with (x - s - L) by ring.
  rewrite nearest_image_periodic by exact HL. reflexivity.
Qed.

(** monotonicity of kc / sqrt (u^2 + q) in |u| *)
Lemma ipc_pot_rep_le (kc a b q : R) : 0 < kc -> 0 < q -> a * a <= b * b -> ipc_pot kc b q <= ipc_pot kc a q.
Proof.
  intros Hk Hq H. unfold ipc_pot.
  assert (0 < sqrt (a * a + q)) by (apply sqrt_lt_R0; nra).
  assert (sqrt (a * a + q) <= sqrt (b * b + q)) by (apply sqrt_le_1_alt; lra).
  unfold Rdiv. apply Rmult_le_compat_l; [lra|]. apply Rinv_le_contravar; assumption.
Qed.
Lemma ipc_pot_rep_lt (kc a b q : R) : 0 < kc -> 0 < q -> a * a < b * b -> ipc_pot kc b q < ipc_pot kc a q.
Proof.
  intros Hk Hq H. unfold ipc_pot.
  assert (0 < sqrt (a * a + q)) by (apply sqrt_lt_R0; nra).
  assert (sqrt (a * a + q) < sqrt (b * b + q)) by (apply sqrt_lt_1_alt; split; nra).
  unfold Rdiv. apply Rmult_lt_compat_l; [lra|]. apply Rinv_lt_contravar; [nra | assumption].
Qed.
Lemma ipc_pot_att_le (kc a b q : R) : kc < 0 -> 0 < q -> a * a <= b * b -> ipc_pot kc a q <= ipc_pot kc b q.
Proof.
  intros Hk Hq H. unfold ipc_pot.
  assert (0 < sqrt (a * a + q)) by (apply sqrt_lt_R0; nra).
  assert (sqrt (a * a + q) <= sqrt (b * b + q)) by (apply sqrt_le_1_alt; lra).
  assert (/ sqrt (b * b + q) <= / sqrt (a * a + q)) by (apply Rinv_le_contravar; assumption).
  unfold Rdiv. nra.
Qed.
Lemma ipc_pot_att_lt (kc a b q : R) : kc < 0 -> 0 < q -> a * a < b * b -> ipc_pot kc a q < ipc_pot kc b q.
Proof.
  intros Hk Hq H. unfold ipc_pot.
  assert (0 < sqrt (a * a + q)) by (apply sqrt_lt_R0; nra).
  assert (sqrt (a * a + q) < sqrt (b * b + q)) by (apply sqrt_lt_1_alt; split; nra).
  assert (/ sqrt (b * b + q) < / sqrt (a * a + q)) by (apply Rinv_lt_contravar; [nra | assumption]).
  unfold Rdiv. nra.
Qed.

Lemma ipc_pot_sign (kc u q : R) : 0 < q -> (0 < kc -> 0 < ipc_pot kc u q) /\ (kc < 0 -> ipc_pot kc u q < 0).
Proof.
  intros Hq. unfold ipc_pot.
  assert (0 < / sqrt (u * u + q)) by (apply Rinv_0_lt_compat, sqrt_lt_R0; nra).
  unfold Rdiv. split; intros; nra.
Qed.

(** inverting the potential: position (relative to the nearest image) at which the energy equals E *)
Lemma ipc_invert (kc E q : R) :
  0 < q -> 0 < kc / E -> q <= kc / E * (kc / E) ->
  ipc_pot kc (sqrt (kc / E * (kc / E) - q)) q = E.
Proof.
  intros Hq Hn Hrad. unfold ipc_pot.
  rewrite sqrt_sqrt by lra.
  replace (kc / E * (kc / E) - q + q) with (kc / E * (kc / E)) by ring.
  rewrite sqrt_square by lra.
  assert (E <> 0). { intros ->. unfold Rdiv in Hn. rewrite Rinv_0, Rmult_0_r in Hn. lra. }
  assert (kc <> 0). { intros ->. unfold Rdiv in Hn. rewrite Rmult_0_l in Hn. lra. }
  field. split; assumption.
Qed.

(** radicand and position from energy bounds, repulsive sign *)
Lemma ipc_position_rep (kc E q a b : R) :
  0 < kc -> 0 < q -> 0 <= a -> a <= b ->
  ipc_pot kc b q <= E -> E <= ipc_pot kc a q ->
  let S := sqrt (kc / E * (kc / E) - q) in
  q <= kc / E * (kc / E) /\ ipc_pot kc S q = E /\ a <= S <= b /\
  (E < ipc_pot kc a q -> a < S) /\ (ipc_pot kc b q < E -> S < b).
Proof.
  intros Hk Hq Ha Hab HEb HEa S.
  destruct (ipc_pot_sign kc b q Hq) as [Hpos _]. specialize (Hpos Hk).
  assert (HE : 0 < E) by lra.
  assert (Hn : 0 < kc / E) by (apply Rdiv_lt_0_compat; assumption).
  assert (Hz : E <= ipc_pot kc 0 q).
  { apply Rle_trans with (ipc_pot kc a q); [exact HEa|]. apply ipc_pot_rep_le; try assumption. nra. }
  assert (Hrad : q <= kc / E * (kc / E)).
  { unfold ipc_pot in Hz. replace (0 * 0 + q) with q in Hz by ring.
    assert (Hsq : 0 < sqrt q) by (apply sqrt_lt_R0; exact Hq).
    assert (sqrt q <= kc / E).
    { apply (Rmult_le_reg_r E); [exact HE|]. replace (kc / E * E) with kc by (field; lra).
      apply (Rmult_le_compat_r (sqrt q)) in Hz; [|lra].
      replace (kc / sqrt q * sqrt q) with kc in Hz by (field; lra). lra. }
    rewrite <- (sqrt_sqrt q) at 1 by lra. nra. }
  pose proof (ipc_invert kc E q Hq Hn Hrad) as Hinv. fold S in Hinv.
  assert (HS0 : 0 <= S) by apply sqrt_pos.
  split; [exact Hrad|]. split; [exact Hinv|].
  assert (HaS : a <= S).
  { destruct (Rle_lt_dec a S) as [L|L]; [exact L|]. exfalso.
    pose proof (ipc_pot_rep_lt kc S a q Hk Hq ltac:(nra)). lra. }
  assert (HSb : S <= b).
  { destruct (Rle_lt_dec S b) as [L|L]; [exact L|]. exfalso.
    pose proof (ipc_pot_rep_lt kc b S q Hk Hq ltac:(nra)). lra. }
  split; [lra|]. split; intros Hst.
  - destruct (Rle_lt_or_eq_dec _ _ HaS) as [L|L]; [exact L|]. exfalso. rewrite <- L in Hinv. lra.
  - destruct (Rle_lt_or_eq_dec _ _ HSb) as [L|L]; [exact L|]. exfalso. rewrite L in Hinv. lra.
Qed.

(** the same for the attractive sign *)
Lemma ipc_position_att (kc E q a b : R) :
  kc < 0 -> 0 < q -> 0 <= a -> a <= b ->
  ipc_pot kc a q <= E -> E <= ipc_pot kc b q ->
  let S := sqrt (kc / E * (kc / E) - q) in
  q <= kc / E * (kc / E) /\ ipc_pot kc S q = E /\ a <= S <= b /\
  (ipc_pot kc a q < E -> a < S) /\ (E < ipc_pot kc b q -> S < b).
Proof.
  intros Hk Hq Ha Hab HEa HEb S.
  destruct (ipc_pot_sign kc b q Hq) as [_ Hneg]. specialize (Hneg Hk).
  assert (HE : E < 0) by lra.
  assert (Hn : 0 < kc / E).
  { unfold Rdiv. assert (/ E < 0) by (apply Rinv_lt_0_compat; exact HE). nra. }
  assert (Hz : ipc_pot kc 0 q <= E).
  { apply Rle_trans with (ipc_pot kc a q); [|exact HEa]. apply ipc_pot_att_le; try assumption. nra. }
  assert (Hrad : q <= kc / E * (kc / E)).
  { unfold ipc_pot in Hz. replace (0 * 0 + q) with q in Hz by ring.
    assert (Hsq : 0 < sqrt q) by (apply sqrt_lt_R0; exact Hq).
    assert (sqrt q <= kc / E).
    { apply (Rmult_le_reg_r (- E)); [lra|]. replace (kc / E * - E) with (- kc) by (field; lra).
      apply (Rmult_le_compat_r (sqrt q)) in Hz; [|lra].
      replace (kc / sqrt q * sqrt q) with kc in Hz by (field; lra). lra. }
    rewrite <- (sqrt_sqrt q) at 1 by lra. nra. }
  pose proof (ipc_invert kc E q Hq Hn Hrad) as Hinv. fold S in Hinv.
  assert (HS0 : 0 <= S) by apply sqrt_pos.
  split; [exact Hrad|]. split; [exact Hinv|].
  assert (HaS : a <= S).
  { destruct (Rle_lt_dec a S) as [L|L]; [exact L|]. exfalso.
    pose proof (ipc_pot_att_lt kc S a q Hk Hq ltac:(nra)). lra. }
  assert (HSb : S <= b).
  { destruct (Rle_lt_dec S b) as [L|L]; [exact L|]. exfalso.
    pose proof (ipc_pot_att_lt kc b S q Hk Hq ltac:(nra)). lra. }
  split; [lra|]. split; intros Hst.
  - destruct (Rle_lt_or_eq_dec _ _ HaS) as [L|L]; [exact L|]. exfalso. rewrite <- L in Hinv. lra.
  - destruct (Rle_lt_or_eq_dec _ _ HSb) as [L|L]; [exact L|]. exfalso. rewrite L in Hinv. lra.
Qed.

Lemma ipc_path_at_0 (kc x q L : R) : 0 < L -> - L / 2 <= x <= L / 2 -> ipc_path kc x q L 0 = ipc_pot kc x q.
Proof. intros HL Hx. rewrite ipc_path_window by lra. f_equal. ring. Qed.
Lemma ipc_path_at_minus (kc x q L S : R) :
  0 < L -> 0 <= S <= L / 2 -> ipc_path kc x q L (x - S) = ipc_pot kc S q.
Proof. intros HL HS. rewrite ipc_path_window by lra. f_equal. ring. Qed.
Lemma ipc_path_at_plus (kc x q L S : R) :
  0 < L -> 0 <= S <= L / 2 -> ipc_path kc x q L (x + S) = ipc_pot kc S q.
Proof. intros HL HS. rewrite ipc_path_window by lra. apply ipc_pot_sq. ring. Qed.
Lemma ipc_path_at_next_minus (kc x q L S : R) :
  0 < L -> 0 <= S <= L / 2 -> ipc_path kc x q L (x + L - S) = ipc_pot kc S q.
Proof.
  intros HL HS. replace (x + L - S) with (x - S + L) by ring.
  rewrite ipc_path_periodic by exact HL. apply ipc_path_at_minus; assumption.
Qed.
Lemma ipc_path_at_next_plus (kc x q L S : R) :
  0 < L -> 0 <= S <= L / 2 -> ipc_path kc x q L (x + L + S) = ipc_pot kc S q.
Proof.
  intros HL HS. replace (x + L + S) with (x + S + L) by ring.
  rewrite ipc_path_periodic by exact HL. apply ipc_path_at_plus; assumption.
Qed.

Lemma ipc_breaks4 (x L : R) : ipc_breaks x L 4 = [x; x + L / 2; x + L; x + 3 * (L / 2)].
Proof.
  unfold ipc_breaks. simpl.
  f_equal; [field | f_equal; [field | f_equal; [field | f_equal; field]]].
Qed.

Lemma Eplus4 f b0 b1 b2 b3 d :
  Eplus f [b0; b1; b2; b3] d =
  Rmax 0 (f (clamp d b0) - f 0) + (Rmax 0 (f (clamp d b1) - f (clamp d b0)) +
  (Rmax 0 (f (clamp d b2) - f (clamp d b1)) + (Rmax 0 (f (clamp d b3) - f (clamp d b2)) +
   Rmax 0 (f d - f (clamp d b3))))).
Proof. reflexivity. Qed.

(** *** the last lap, repulsive sign *)
Lemma ipc_last_lap_rep (kc e x q L : R) :
  0 < L -> 0 < q -> 0 < kc -> - L / 2 <= x <= L / 2 -> 0 <= e < ipc_per_lap kc q L ->
  0 <= ipc_rest kc e x q L /\
  Eplus (ipc_path kc x q L) (ipc_breaks x L 4) (ipc_rest kc e x q L) = e.
Proof.
  intros HL Hq Hk Hx He. rewrite ipc_breaks4.
  unfold ipc_per_lap in He. unfold ipc_rest. cbv zeta.
  destruct (Rlt_dec 0 kc) as [_|N]; [|contradiction].
  set (h := L / 2) in *.
  set (Uz := ipc_pot kc 0 q) in *. set (Uh := ipc_pot kc h q) in *. set (U0 := ipc_pot kc x q) in *.
  assert (Hh : 0 < h) by (unfold h; lra).
  assert (HUzh : Uh <= Uz) by (apply ipc_pot_rep_le; try assumption; nra).
  assert (HU0h : Uh <= U0) by (apply ipc_pot_rep_le; try assumption; pose proof (sq_bound x h ltac:(unfold h in *; lra)); lra).
  assert (HU0z : U0 <= Uz) by (apply ipc_pot_rep_le; try assumption; nra).
  rewrite Rabs_right in He by lra.
  assert (Ef0 : ipc_path kc x q L 0 = U0) by (apply ipc_path_at_0; assumption).
  assert (Efx : ipc_path kc x q L x = Uz).
  { replace x with (x + 0) at 2 by ring. apply ipc_path_at_plus; [exact HL | lra]. }
  assert (Efh : ipc_path kc x q L (x + h) = Uh) by (apply ipc_path_at_plus; [exact HL | unfold h; lra]).
  destruct (Rle_dec x 0) as [Hx0|Hx0].
  - (* in front: runs down to the half-way point, then climbs towards the next image *)
    destruct (ipc_position_rep kc (Uh + e) q 0 h Hk Hq ltac:(lra) ltac:(lra) ltac:(fold Uh; lra) ltac:(fold Uz; lra))
      as (Hrad & Hinv & [HS0 HSh] & Hst0 & _).
    fold Uz in Hst0. specialize (Hst0 ltac:(lra)).
    set (S := sqrt (kc / (Uh + e) * (kc / (Uh + e)) - q)) in *.
    replace (h + x + (h - S)) with (x + L - S) by (unfold h; field).
    split; [unfold h in *; lra|]. rewrite Eplus4.
    rewrite (clamp_low _ x) by (unfold h in *; lra).
    rewrite (clamp_mid _ (x + h)) by (unfold h in *; lra).
    rewrite (clamp_high _ (x + L)) by (unfold h in *; lra).
    rewrite (clamp_high _ (x + 3 * h)) by (unfold h in *; lra).
    rewrite (ipc_path_at_next_minus kc x q L S HL ltac:(unfold h in *; lra)).
    rewrite Ef0, Efh, Hinv. rmax_lra.
  - apply Rnot_le_lt in Hx0.
    destruct (Rle_dec (Uz - U0) e) as [Hov|Hov].
    + (* passes the closest approach, then as above *)
      destruct (ipc_position_rep kc (Uh + (e - (Uz - U0))) q 0 h Hk Hq ltac:(lra) ltac:(lra)
                  ltac:(fold Uh; lra) ltac:(fold Uz; lra)) as (Hrad & Hinv & [HS0 HSh] & Hst0 & _).
      fold Uz in Hst0. specialize (Hst0 ltac:(lra)).
      set (S := sqrt (kc / (Uh + (e - (Uz - U0))) * (kc / (Uh + (e - (Uz - U0)))) - q)) in *.
      replace (x + h + (h - S)) with (x + L - S) by (unfold h; field).
      split; [unfold h in *; lra|]. rewrite Eplus4.
      rewrite (clamp_mid _ x) by (unfold h in *; lra).
      rewrite (clamp_mid _ (x + h)) by (unfold h in *; lra).
      rewrite (clamp_high _ (x + L)) by (unfold h in *; lra).
      rewrite (clamp_high _ (x + 3 * h)) by (unfold h in *; lra).
      rewrite (ipc_path_at_next_minus kc x q L S HL ltac:(unfold h in *; lra)).
      rewrite Ef0, Efx, Efh, Hinv. rmax_lra.
    + apply Rnot_le_lt in Hov.
      destruct (ipc_position_rep kc (U0 + e) q 0 x Hk Hq ltac:(lra) ltac:(lra) ltac:(fold U0; lra) ltac:(fold Uz; lra))
        as (Hrad & Hinv & [HS0 HSx] & Hst0 & _).
      fold Uz in Hst0. specialize (Hst0 ltac:(lra)).
      set (S := sqrt (kc / (U0 + e) * (kc / (U0 + e)) - q)) in *.
      split; [lra|]. rewrite Eplus4.
      rewrite (clamp_high _ x) by lra.
      rewrite (clamp_high _ (x + h)) by lra.
      rewrite (clamp_high _ (x + L)) by (unfold h in *; lra).
      rewrite (clamp_high _ (x + 3 * h)) by lra.
      rewrite (ipc_path_at_minus kc x q L S HL ltac:(unfold h in *; lra)).
      rewrite Ef0, Hinv. rmax_lra.
Qed.

(** *** the last lap, attractive sign *)
Lemma ipc_last_lap_att (kc e x q L : R) :
  0 < L -> 0 < q -> kc < 0 -> - L / 2 <= x <= L / 2 -> 0 <= e < ipc_per_lap kc q L ->
  0 <= ipc_rest kc e x q L /\
  Eplus (ipc_path kc x q L) (ipc_breaks x L 4) (ipc_rest kc e x q L) = e.
Proof.
  intros HL Hq Hk Hx He. rewrite ipc_breaks4.
  unfold ipc_per_lap in He. unfold ipc_rest. cbv zeta.
  destruct (Rlt_dec 0 kc) as [Y|_]; [lra|].
  set (h := L / 2) in *.
  set (Uz := ipc_pot kc 0 q) in *. set (Uh := ipc_pot kc h q) in *. set (U0 := ipc_pot kc x q) in *.
  assert (Hh : 0 < h) by (unfold h; lra).
  assert (HUzh : Uz <= Uh) by (apply ipc_pot_att_le; try assumption; nra).
  assert (HU0h : U0 <= Uh) by (apply ipc_pot_att_le; try assumption; pose proof (sq_bound x h ltac:(unfold h in *; lra)); lra).
  assert (HU0z : Uz <= U0) by (apply ipc_pot_att_le; try assumption; nra).
  rewrite Rabs_left1 in He by lra.
  assert (Ef0 : ipc_path kc x q L 0 = U0) by (apply ipc_path_at_0; assumption).
  assert (Efx : ipc_path kc x q L x = Uz).
  { replace x with (x + 0) at 2 by ring. apply ipc_path_at_plus; [exact HL | lra]. }
  assert (Efh : ipc_path kc x q L (x + h) = Uh) by (apply ipc_path_at_plus; [exact HL | unfold h; lra]).
  assert (EfL : ipc_path kc x q L (x + L) = Uz).
  { replace (x + L) with (x + L + 0) by ring. apply ipc_path_at_next_plus; [exact HL | lra]. }
  destruct (Rlt_dec 0 x) as [Hx0|Hx0].
  - (* behind: runs down to the closest approach, then climbs away from the image *)
    destruct (ipc_position_att kc (Uz + e) q 0 h Hk Hq ltac:(lra) ltac:(lra) ltac:(fold Uz; lra) ltac:(fold Uh; lra))
      as (Hrad & Hinv & [HS0 HSh] & _ & Hsth).
    fold Uh in Hsth. specialize (Hsth ltac:(lra)).
    set (S := sqrt (kc / (Uz + e) * (kc / (Uz + e)) - q)) in *.
    replace (x + (0 + S)) with (x + S) by ring.
    split; [lra|]. rewrite Eplus4.
    rewrite (clamp_mid _ x) by lra.
    rewrite (clamp_high _ (x + h)) by lra.
    rewrite (clamp_high _ (x + L)) by (unfold h in *; lra).
    rewrite (clamp_high _ (x + 3 * h)) by lra.
    rewrite (ipc_path_at_plus kc x q L S HL ltac:(unfold h in *; lra)).
    rewrite Ef0, Efx, Hinv. rmax_lra.
  - apply Rnot_lt_le in Hx0.
    destruct (Rle_dec (Uh - U0) e) as [Hov|Hov].
    + (* climbs to the half-way point, runs down to the next image, climbs away from it *)
      destruct (ipc_position_att kc (Uz + (e - (Uh - U0))) q 0 h Hk Hq ltac:(lra) ltac:(lra)
                  ltac:(fold Uz; lra) ltac:(fold Uh; lra)) as (Hrad & Hinv & [HS0 HSh] & _ & Hsth).
      fold Uh in Hsth. specialize (Hsth ltac:(lra)).
      set (S := sqrt (kc / (Uz + (e - (Uh - U0))) * (kc / (Uz + (e - (Uh - U0)))) - q)) in *.
      replace (x + L + (0 + S)) with (x + L + S) by ring.
      split; [unfold h in *; lra|]. rewrite Eplus4.
      rewrite (clamp_low _ x) by (unfold h in *; lra).
      rewrite (clamp_mid _ (x + h)) by (unfold h in *; lra).
      rewrite (clamp_mid _ (x + L)) by (unfold h in *; lra).
      rewrite (clamp_high _ (x + 3 * h)) by (unfold h in *; lra).
      rewrite (ipc_path_at_next_plus kc x q L S HL ltac:(unfold h in *; lra)).
      rewrite Ef0, Efh, EfL, Hinv. rmax_lra.
    + apply Rnot_le_lt in Hov.
      destruct (ipc_position_att kc (U0 + e) q (- x) h Hk Hq ltac:(lra) ltac:(unfold h in *; lra)) as
        (Hrad & Hinv & [HS0 HSh] & _ & Hsth).
      { replace (ipc_pot kc (- x) q) with U0 by (apply ipc_pot_sq; ring). lra. }
      { fold Uh. lra. }
      fold Uh in Hsth. specialize (Hsth ltac:(lra)).
      set (S := sqrt (kc / (U0 + e) * (kc / (U0 + e)) - q)) in *.
      split; [lra|]. rewrite Eplus4.
      rewrite (clamp_low _ x) by lra.
      rewrite (clamp_high _ (x + h)) by lra.
      rewrite (clamp_high _ (x + L)) by (unfold h in *; lra).
      rewrite (clamp_high _ (x + 3 * h)) by lra.
      rewrite (ipc_path_at_plus kc x q L S HL ltac:(unfold h in *; lra)).
      rewrite Ef0, Hinv. rmax_lra.
Qed.

(** *** whole laps: the positive variation gains exactly [ipc_per_lap] per box length *)
Lemma clamp_shift (d b L : R) : 0 <= d -> 0 <= b -> 0 < L -> clamp (d + L) (b + L) = clamp d b + L.
Proof.
  intros Hd Hb HL. unfold clamp.
  assert (E : Rmin (d + L) (b + L) = Rmin d b + L).
  { unfold Rmin. destruct (Rle_dec (d + L) (b + L)), (Rle_dec d b); lra. }
  rewrite E. assert (0 <= Rmin d b) by (apply Rmin_glb; assumption).
  rewrite !Rmax_right by lra. reflexivity.
Qed.

Lemma pos_var_shift (f : R -> R) (L d a : R) (bs : list R) :
  (forall s, f (s + L) = f s) -> 0 < L -> 0 <= d -> List.Forall (fun b => 0 <= b) bs ->
  pos_var_from f (d + L) (a + L) (map (fun b => b + L) bs) = pos_var_from f d a bs.
Proof.
  intros Hper HL Hd H. revert a. induction H as [|b bs Hb _ IH]; intros a; simpl.
  - rewrite !Hper. reflexivity.
  - rewrite clamp_shift by assumption. rewrite IH, !Hper. reflexivity.
Qed.

Lemma ipc_breaks_SS (x L : R) (n : nat) :
  ipc_breaks x L (S (S n)) = x :: (x + L / 2) :: map (fun b => b + L) (ipc_breaks x L n).
Proof.
  unfold ipc_breaks. simpl seq. rewrite <- seq_shift, <- seq_shift. rewrite !map_map. simpl map.
  f_equal; [simpl; ring|]. f_equal; [simpl; ring|].
  rewrite map_map. apply map_ext. intros j. rewrite !S_INR. field.
Qed.

Lemma ipc_breaks_nonneg (x L : R) (n : nat) :
  0 < L -> - L / 2 <= x -> List.Forall (fun b => 0 <= b) (map (fun b => b + L) (ipc_breaks x L n)).
Proof.
  intros HL Hx. apply Forall_forall. intros b Hb. apply in_map_iff in Hb. destruct Hb as (c & <- & Hc).
  unfold ipc_breaks in Hc. apply in_map_iff in Hc. destruct Hc as (j & <- & _).
  pose proof (pos_INR j). nra.
Qed.

Lemma ipc_per_lap_pos (kc q L : R) : 0 < L -> 0 < q -> kc <> 0 -> 0 < ipc_per_lap kc q L.
Proof.
  intros HL Hq Hk. unfold ipc_per_lap. apply Rabs_pos_lt.
  destruct (Rdichotomy _ _ Hk) as [Hn|Hp].
  - pose proof (ipc_pot_att_lt kc 0 (L / 2) q Hn Hq ltac:(nra)). lra.
  - pose proof (ipc_pot_rep_lt kc 0 (L / 2) q Hp Hq ltac:(nra)). lra.
Qed.

Lemma ipc_one_more_lap (kc x q L d : R) (n : nat) :
  0 < L -> 0 < q -> kc <> 0 -> - L / 2 <= x <= L / 2 -> 0 <= d ->
  Eplus (ipc_path kc x q L) (ipc_breaks x L (S (S (S (S n))))) (d + L) =
  ipc_per_lap kc q L + Eplus (ipc_path kc x q L) (ipc_breaks x L (S (S n))) d.
Proof.
  intros HL Hq Hk Hx Hd.
  set (f := ipc_path kc x q L). set (h := L / 2).
  assert (Hper : forall s, f (s + L) = f s) by (intros; apply ipc_path_periodic; exact HL).
  rewrite (ipc_breaks_SS x L (S (S n))). rewrite (ipc_breaks_SS x L n).
  set (rest := map (fun b => b + L) (ipc_breaks x L n)).
  assert (Hrest : List.Forall (fun b => 0 <= b) rest) by (apply ipc_breaks_nonneg; lra).
  unfold Eplus. simpl map. simpl pos_var_from. fold h.
  (* the tail after the fourth break point equals, by periodicity, the tail of the shorter path *)
  replace (x + h + L) with ((x + h) + L) by ring.
  rewrite (clamp_shift d (x + h) L Hd ltac:(unfold h; lra) HL).
  rewrite (pos_var_shift f L d (clamp d (x + h)) rest Hper HL Hd Hrest).
  rewrite (Hper (clamp d (x + h))).
  rewrite (clamp_mid (d + L) (x + h)) by (unfold h; lra).
  set (Uz := ipc_pot kc 0 q). set (Uh := ipc_pot kc h q). set (U0 := ipc_pot kc x q).
  assert (Ef0 : f 0 = U0) by (unfold f, U0; apply ipc_path_at_0; assumption).
  assert (Efx : f x = Uz).
  { unfold f, Uz. replace x with (x + 0) at 2 by ring. apply ipc_path_at_plus; [exact HL | lra]. }
  assert (Efh : f (x + h) = Uh) by (unfold f, Uh; apply ipc_path_at_plus; [exact HL | unfold h; lra]).
  assert (EfL : f (x + L) = Uz) by (rewrite Hper; exact Efx).
  assert (Hwin : forall c, 0 <= c <= x + h -> f c = ipc_pot kc (x - c) q).
  { intros c Hc. unfold f. apply ipc_path_window; [exact HL | unfold h in *; lra]. }
  rewrite Ef0, Efh. unfold ipc_per_lap. fold h. fold Uz Uh.
  set (T := pos_var_from f d (clamp d (x + h)) rest).
  destruct (Rle_lt_dec 0 x) as [Hx0|Hx0].
  - (* x >= 0 *)
    rewrite (clamp_mid (d + L) x) by lra. rewrite Efx.
    rewrite (clamp_shift d x L Hd Hx0 HL). rewrite (Hper (clamp d x)).
    set (c := clamp d x).
    assert (Hc : 0 <= c <= x).
    { unfold c, clamp. split; [apply Rmax_l|]. apply Rmax_lub; [exact Hx0 | apply Rmin_r]. }
    rewrite (Hwin c ltac:(unfold h; lra)).
    pose proof (sq_bound (x - c) x ltac:(lra)) as Hsq.
    pose proof (sq_bound x h ltac:(unfold h; lra)) as Hsqx.
    set (Fc := ipc_pot kc (x - c) q). set (Fh := f (clamp d (x + h))).
    destruct (Rdichotomy _ _ Hk) as [Hn|Hp].
    + assert (Uz <= Fc) by (apply ipc_pot_att_le; try assumption; nra).
      assert (Fc <= U0) by (apply ipc_pot_att_le; assumption).
      assert (U0 <= Uh) by (apply ipc_pot_att_le; assumption).
      rewrite Rabs_left1 by lra. rmax_lra.
    + assert (Fc <= Uz) by (apply ipc_pot_rep_le; try assumption; nra).
      assert (U0 <= Fc) by (apply ipc_pot_rep_le; assumption).
      assert (Uh <= U0) by (apply ipc_pot_rep_le; assumption).
      rewrite Rabs_right by lra. rmax_lra.
  - (* x < 0 *)
    rewrite (clamp_low (d + L) x) by lra. rewrite (clamp_low d x) by lra. rewrite Ef0.
    rewrite (clamp_mid (d + L) (x + L)) by lra. rewrite EfL.
    set (c := clamp d (x + h)).
    assert (Hc : 0 <= c <= x + h).
    { unfold c, clamp. split; [apply Rmax_l|]. apply Rmax_lub; [unfold h; lra | apply Rmin_r]. }
    rewrite (Hwin c Hc).
    pose proof (sq_bound (x - c) h ltac:(unfold h in *; lra)) as Hsq.
    pose proof (sq_bound_ge (x - c) (- x) ltac:(lra) ltac:(right; lra)) as Hsq2.
    pose proof (sq_bound x h ltac:(unfold h; lra)) as Hsqx.
    set (Fc := ipc_pot kc (x - c) q).
    destruct (Rdichotomy _ _ Hk) as [Hn|Hp].
    + assert (U0 <= Fc) by (apply ipc_pot_att_le; try assumption; nra).
      assert (Fc <= Uh) by (apply ipc_pot_att_le; assumption).
      assert (Uz <= U0) by (apply ipc_pot_att_le; try assumption; nra).
      rewrite Rabs_left1 by lra. rmax_lra.
    + assert (Fc <= U0) by (apply ipc_pot_rep_le; try assumption; nra).
      assert (Uh <= Fc) by (apply ipc_pot_rep_le; assumption).
      assert (U0 <= Uz) by (apply ipc_pot_rep_le; try assumption; nra).
      rewrite Rabs_right by lra. rmax_lra.
Qed.

Lemma ipc_n_laps (kc x q L d : R) (n m : nat) :
  0 < L -> 0 < q -> kc <> 0 -> - L / 2 <= x <= L / 2 -> 0 <= d ->
  Eplus (ipc_path kc x q L) (ipc_breaks x L (2 * n + S (S m))) (d + INR n * L) =
  INR n * ipc_per_lap kc q L + Eplus (ipc_path kc x q L) (ipc_breaks x L (S (S m))) d.
Proof.
  intros HL Hq Hk Hx Hd. induction n as [|n IH].
  - simpl (2 * 0 + S (S m))%nat. simpl INR. replace (d + 0 * L) with d by ring. ring.
  - replace (2 * S n + S (S m))%nat with (S (S (S (S (2 * n + m))))) by lia.
    replace (d + INR (S n) * L) with (d + INR n * L + L) by (rewrite S_INR; ring).
    rewrite ipc_one_more_lap; try assumption.
    + replace (S (S (2 * n + m))) with (2 * n + S (S m))%nat by lia.
      rewrite IH. rewrite S_INR. ring.
    + pose proof (pos_INR n). nra.
Qed.

(** [laps_correct]: the displacement of the C routine is n box lengths plus the inversion on the last lap,
    n = floor (budget / gain per lap), and the positive variation of the nearest-image potential at that distance is
    the budget *)
Theorem ipc_laps_correct (kc dE x q L d : R) :
  0 < L -> 0 < q -> kc <> 0 -> 0 < dE -> - L / 2 <= x <= L / 2 ->
  ipc_displacement kc dE x q L = Some d ->
  exists (n : nat) (r : R),
    Int_part (dE / ipc_per_lap kc q L) = Z.of_nat n /\
    INR n * ipc_per_lap kc q L <= dE < (INR n + 1) * ipc_per_lap kc q L /\
    d = INR n * L + r /\ 0 <= r /\
    Eplus (ipc_path kc x q L) (ipc_breaks x L 4) r = dE - INR n * ipc_per_lap kc q L /\
    Eplus (ipc_path kc x q L) (ipc_breaks x L (2 * n + 4)) d = dE.
Proof.
  intros HL Hq Hk HdE Hx H.
  pose proof (ipc_per_lap_pos kc q L HL Hq Hk) as Hg.
  set (g := ipc_per_lap kc q L) in *.
  unfold ipc_displacement, ipc_displacement_laps in H. fold g in H. injection H as <-.
  destruct (base_Int_part (dE / g)) as [B1 B2].
  set (z := Int_part (dE / g)) in *.
  assert (Hquot : 0 < dE / g) by (apply Rdiv_lt_0_compat; assumption).
  assert (Hz : (0 <= z)%Z).
  { apply le_IZR. assert (-1 < IZR z) by lra. apply lt_IZR in H. apply IZR_le. lia. }
  exists (Z.to_nat z).
  assert (EIN : INR (Z.to_nat z) = IZR z) by (rewrite INR_IZR_INZ, Z2Nat.id by exact Hz; reflexivity).
  set (e := dE - IZR z * g).
  assert (He : 0 <= e < g).
  { unfold e. assert (IZR z * g <= dE) by (apply (Rmult_le_compat_r g) in B1; [|lra];
      replace (dE / g * g) with dE in B1 by (field; lra); exact B1).
    assert (dE < (IZR z + 1) * g).
    { assert (dE / g < IZR z + 1) by lra. apply (Rmult_lt_compat_r g) in H0; [|exact Hg].
      replace (dE / g * g) with dE in H0 by (field; lra). exact H0. }
    lra. }
  assert (Hlast : 0 <= ipc_rest kc e x q L /\
                  Eplus (ipc_path kc x q L) (ipc_breaks x L 4) (ipc_rest kc e x q L) = e).
  { destruct (Rdichotomy _ _ Hk) as [Hn|Hp];
      [apply ipc_last_lap_att | apply ipc_last_lap_rep]; assumption. }
  destruct Hlast as [Hr0 HrE].
  exists (ipc_rest kc e x q L). rewrite EIN.
  split; [rewrite Z2Nat.id by exact Hz; reflexivity|].
  split; [unfold e in He; lra|]. split; [reflexivity|]. split; [exact Hr0|]. split; [exact HrE|].
  replace (IZR z * L + ipc_rest kc e x q L) with (ipc_rest kc e x q L + INR (Z.to_nat z) * L) by (rewrite EIN; ring).
  replace (2 * Z.to_nat z + 4)%nat with (2 * Z.to_nat z + S (S 2))%nat by lia.
  rewrite ipc_n_laps by assumption. fold g. rewrite EIN.
  change (S (S 2)) with 4%nat. rewrite HrE. unfold e. ring.
Qed.

(** ** C02: hard dipole — first contact with the inner sphere, else the time of reaching the maximal separation *)
Lemma hd_inner (min2 max2 : R) (v s : vec3) (t : R) :
  hs_displacement min2 v s = Some t -> hd_displacement min2 max2 v s = t.
Proof.
  intros H. destruct (hs_cases min2 v s) as [[HD [Hvs E]]|[_ E]]; rewrite E in H; [|discriminate].
  injection H as <-. unfold hd_displacement. cbv zeta in *.
  destruct (Rle_dec 0 (dot3 v s)) as [_|N]; [|contradiction].
  destruct (Rle_dec 0 _) as [_|N]; [reflexivity | contradiction].
Qed.

Lemma hd_outer (min2 max2 : R) (v s : vec3) :
  hs_displacement min2 v s = None ->
  hd_displacement min2 max2 v s =
  (dot3 v s + sqrt (dot3 v s * dot3 v s - dot3 v v * (dot3 s s - max2))) / dot3 v v.
Proof.
  intros H. destruct (hs_cases min2 v s) as [[HD [Hvs E]]|[C _]]; [rewrite E in H; discriminate|].
  unfold hd_displacement. cbv zeta in *.
  destruct (Rle_dec 0 (dot3 v s)) as [Hv|Hv]; [|reflexivity].
  destruct (Rle_dec 0 _) as [Y|_]; [|reflexivity]. exfalso. destruct C; lra.
Qed.

Theorem hd_reaches_max (min2 max2 : R) (v s : vec3) :
  0 < dot3 v v -> dot3 s s <= max2 ->
  hs_displacement min2 v s = None ->
  let t := hd_displacement min2 max2 v s in
  0 <= t /\
  dot3 (sub3 s (scal3 t v)) (sub3 s (scal3 t v)) = max2 /\
  (forall t', 0 <= t' <= t -> dot3 (sub3 s (scal3 t' v)) (sub3 s (scal3 t' v)) <= max2) /\
  (forall t', t < t' -> max2 < dot3 (sub3 s (scal3 t' v)) (sub3 s (scal3 t' v))).
Proof.
  intros Hvv Hss HN t. unfold t. rewrite (hd_outer min2 max2 v s HN). clear t.
  set (vv := dot3 v v) in *. set (ss := dot3 s s) in *. set (vs := dot3 v s) in *.
  set (D := vs * vs - vv * (ss - max2)).
  assert (HD : 0 <= D) by (unfold D; nra).
  pose proof (sqrt_pos D) as Hs0. pose proof (sqrt_sqrt D HD) as Hs2.
  assert (Habs : - sqrt D <= vs <= sqrt D).
  { split.
    - destruct (Rle_lt_dec (- sqrt D) vs) as [L|L]; [exact L|]. exfalso.
      assert (sqrt D * sqrt D < vs * vs) by nra. unfold D in *. nra.
    - destruct (Rle_lt_dec vs (sqrt D)) as [L|L]; [exact L|]. exfalso.
      assert (sqrt D * sqrt D < vs * vs) by nra. unfold D in *. nra. }
  set (t := (vs + sqrt D) / vv).
  assert (Et : vv * t = vs + sqrt D) by (unfold t; field; lra).
  assert (Hkey : forall t', vv * (ss - 2 * t' * vs + t' * t' * vv - max2) = (vv * t' - vs) * (vv * t' - vs) - D)
    by (intros; unfold D; ring).
  split; [|split; [|split]].
  - unfold t. apply Rmult_le_pos; [lra | left; apply Rinv_0_lt_compat; exact Hvv].
  - rewrite dist_sq_path. fold vv ss vs.
    pose proof (Hkey t) as K. rewrite Et in K.
    assert (vv * (ss - 2 * t * vs + t * t * vv - max2) = 0) by (rewrite K; ring_simplify; lra).
    assert (ss - 2 * t * vs + t * t * vv - max2 = 0) by nra. lra.
  - intros t' [H0 Ht']. rewrite dist_sq_path. fold vv ss vs.
    pose proof (Hkey t') as K.
    assert (- sqrt D <= vv * t' - vs <= sqrt D) by (split; nra).
    assert ((vv * t' - vs) * (vv * t' - vs) <= sqrt D * sqrt D) by (apply sq_bound; lra).
    assert (vv * (ss - 2 * t' * vs + t' * t' * vv - max2) <= 0) by lra.
    assert (ss - 2 * t' * vs + t' * t' * vv - max2 <= 0) by nra. lra.
  - intros t' Ht'. rewrite dist_sq_path. fold vv ss vs.
    pose proof (Hkey t') as K.
    assert (sqrt D < vv * t' - vs) by nra.
    assert (sqrt D * sqrt D < (vv * t' - vs) * (vv * t' - vs)) by nra.
    assert (0 < vv * (ss - 2 * t' * vs + t' * t' * vv - max2)) by lra.
    assert (0 < ss - 2 * t' * vs + t' * t' * vv - max2) by nra. lra.
Qed.
