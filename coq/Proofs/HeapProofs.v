(** * Proofs/HeapProofs.v — invariant, memory safety and functional correctness of Model/Heap.v.

    Keys: abstract type [K] with the strict comparison [ltb] of heap.c.  The order laws are only
    assumed on [good] keys (for the float instance: no NaN component), because IEEE comparison is
    not an order on NaN.  [le a b := ltb b a = false]. *)
From Coq Require Import List Arith Bool NArith Lia.
Require Import JF.Model.Heap.
Import ListNotations.

Section HeapProofs.
  Variable K : Type.
  Variable ltb : K -> K -> bool.
  Variable bot : K.
  Variable good : K -> Prop.

  Hypothesis ltb_asym : forall a b, good a -> good b -> ltb a b = true -> ltb b a = false.
  Hypothesis le_trans_hyp : forall a b c, good a -> good b -> good c ->
      ltb b a = false -> ltb c b = false -> ltb c a = false.
  Hypothesis bot_least : forall k, ltb k bot = false.
  Hypothesis bot_good : good bot.

  Notation entry := (entry K).
  Notation cells := (cells K).
  Notation heap := (heap K).
  Notation bubble_up := (bubble_up K ltb).
  Notation bubble_down := (bubble_down K ltb).
  Notation insert := (insert K ltb bot).
  Notation root := (root K ltb bot).
  Notation root_loop := (root_loop K ltb bot).
  Notation delete_events := (delete_events K ltb).
  Notation del_loop := (del_loop K).
  Notation heapify := (heapify K ltb).
  Notation sentinel := (@sentinel K bot).

  Definition le (a b : K) : Prop := ltb b a = false.

  Lemma le_trans : forall a b c, good a -> good b -> good c -> le a b -> le b c -> le a c.
  Proof. unfold le; intros; eauto. Qed.

  Lemma lt_le : forall a b, good a -> good b -> ltb a b = true -> le a b.
  Proof. unfold le; intros; eauto. Qed.

  Lemma le_refl : forall a, good a -> le a a.
  Proof.
    unfold le; intros a Ha. destruct (ltb a a) eqn:E; [|reflexivity].
    rewrite (ltb_asym a a Ha Ha E) in E. discriminate.
  Qed.

  Lemma lt_le_trans : forall a b c, good a -> good b -> good c ->
      ltb a b = true -> le b c -> ltb a c = true.
  Proof.
    unfold le; intros a b c Ha Hb Hc Hab Hbc.
    destruct (ltb a c) eqn:E; [reflexivity|].
    (* le c a, le b c -> le b a *)
    assert (ltb a b = false) by (eapply le_trans_hyp with (b := c); eauto).
    congruence.
  Qed.

  Lemma lt_trans : forall a b c, good a -> good b -> good c ->
      ltb a b = true -> ltb b c = true -> ltb a c = true.
  Proof.
    intros a b c Ha Hb Hc Hab Hbc. apply lt_le_trans with (b := b); auto. apply lt_le; auto.
  Qed.

  Lemma le_total : forall a b, good a -> good b -> le a b \/ le b a.
  Proof.
    unfold le; intros a b Ha Hb. destruct (ltb b a) eqn:E; [right|left]; auto.
  Qed.

  Lemma bot_le : forall k, le bot k.
  Proof. unfold le; intros; apply bot_least. Qed.

  (** ** cells: get / set *)
  Lemma upd_length : forall (es : cells) i c, length (upd es i c) = length es.
  Proof. induction es as [|x r IH]; intros [|i] c; cbn; auto. Qed.

  Lemma nth_error_upd : forall (es : cells) i j c,
      nth_error (upd es i c) j =
      if (j =? i) && (i <? length es) then Some c else nth_error es j.
  Proof.
    induction es as [|x r IH]; intros i j c.
    - destruct i, j; cbn; try reflexivity; destruct (j =? i); reflexivity.
    - destruct i as [|i], j as [|j]; cbn [upd nth_error length]; try reflexivity.
      rewrite IH. reflexivity.
  Qed.

  Lemma cset_some : forall (es : cells) i e, i < length es -> exists es', cset es i e = Some es'.
  Proof.
    intros es i e Hi. unfold cset. apply Nat.ltb_lt in Hi. rewrite Hi. eauto.
  Qed.

  Lemma cset_inv : forall (es es' : cells) i e, cset es i e = Some es' ->
      i < length es /\ length es' = length es /\
      forall j, cget es' j = if j =? i then Some e else cget es j.
  Proof.
    unfold cset, cget; intros es es' i e H.
    destruct (i <? length es) eqn:E; [|discriminate]. inversion H; subst; clear H.
    split; [apply Nat.ltb_lt; auto|]. split; [apply upd_length|].
    intros j. rewrite nth_error_upd, E, andb_true_r. destruct (j =? i); reflexivity.
  Qed.

  Lemma cget_lt : forall (es : cells) i e, cget es i = Some e -> i < length es.
  Proof.
    unfold cget; intros es i e H. destruct (nth_error es i) eqn:E; [|discriminate].
    apply nth_error_Some. congruence.
  Qed.

  Lemma cget_app_l : forall (es : cells) n i, i < length es -> cget (es ++ repeat None n) i = cget es i.
  Proof. unfold cget; intros. rewrite nth_error_app1; auto. Qed.

  Lemma cget_nil : forall i, cget (@nil (option entry)) i = None.
  Proof. intros [|i]; reflexivity. Qed.

  (** ** invariant *)
  Definition cell_ok (es : cells) (i : nat) : Prop :=
    exists e, cget es i = Some e /\ good (ekey e) /\ ehd e <> None.

  (** heap order on the edges (i/2, i) whose parent index is at least [lo] *)
  Definition ordered_from (lo : nat) (es : cells) (len : nat) : Prop :=
    forall i e p, 1 <= i < len -> lo <= i / 2 ->
      cget es i = Some e -> cget es (i / 2) = Some p -> le (ekey p) (ekey e).

  Definition heap_inv (h : heap) : Prop :=
    length (entries h) = hsize h /\
    ((hlen h = 0 /\ hsize h = 0) \/
     (1 <= hlen h /\ hlen h + 1 <= hsize h /\
      cget (entries h) 0 = Some sentinel /\
      (forall i, 1 <= i < hlen h -> cell_ok (entries h) i) /\
      ordered_from 0 (entries h) (hlen h))).

  (** membership: the entries stored at positions 1 .. length-1 *)
  Definition In_cells (es : cells) (len : nat) (e : entry) : Prop :=
    exists i, 1 <= i < len /\ cget es i = Some e.
  Definition In_heap (h : heap) (e : entry) : Prop := In_cells (entries h) (hlen h) e.

  Lemma div2_lt : forall i, 1 <= i -> i / 2 < i.
  Proof. intros. apply Nat.div_lt; lia. Qed.

  Lemma child_iff : forall i pos, 1 <= pos -> (i / 2 = pos <-> i = 2 * pos \/ i = 2 * pos + 1).
  Proof.
    intros i pos Hp. split.
    - intros H. pose proof (Nat.div_mod i 2 ltac:(lia)) as D.
      pose proof (Nat.mod_upper_bound i 2 ltac:(lia)). lia.
    - intros [->| ->].
      + rewrite Nat.mul_comm. apply Nat.div_mul. lia.
      + rewrite Nat.mul_comm, Nat.add_comm. rewrite Nat.div_add by lia. reflexivity.
  Qed.

  (** ** bubble_up (the while loop of insert) *)
  Section BubbleUp.
    Variable k : K.
    Variable len : nat.
    Hypothesis Hk : good k.

    (** state of the loop: cell [pos] is a hole that will receive the new key [k] *)
    Record BU (es : cells) (pos : nat) : Prop := {
      bu_pos : 1 <= pos < len;
      bu_len : len <= length es;
      bu_sent : cget es 0 = Some sentinel;
      bu_ok : forall i, 1 <= i < len -> i <> pos -> cell_ok es i;
      bu_a : forall i e p, 1 <= i < len -> i <> pos -> i / 2 <> pos ->
             cget es i = Some e -> cget es (i / 2) = Some p -> le (ekey p) (ekey e);
      bu_b : forall i e, 1 <= i < len -> i / 2 = pos -> cget es i = Some e -> le k (ekey e);
      bu_c : forall i e p, 1 <= i < len -> i / 2 = pos ->
             cget es i = Some e -> cget es (pos / 2) = Some p -> le (ekey p) (ekey e)
    }.

    Lemma bu_good : forall es pos j e, BU es pos -> j < len -> j <> pos -> cget es j = Some e -> good (ekey e).
    Proof.
      intros es pos j e B Hj Hne Hg. destruct (Nat.eq_dec j 0) as [->|Hj0].
      - rewrite (bu_sent _ _ B) in Hg. inversion Hg; subst. exact bot_good.
      - destruct (bu_ok _ _ B j ltac:(lia) Hne) as (e' & He' & Hgood & _). congruence.
    Qed.

    Lemma bubble_up_spec : forall fuel es pos, pos < fuel -> BU es pos ->
      exists es' pos', bubble_up fuel es pos k = Some (es', pos') /\ BU es' pos' /\
        (forall p, cget es' (pos' / 2) = Some p -> le (ekey p) k) /\
        length es' = length es /\
        (forall e, (exists i, 1 <= i < len /\ i <> pos' /\ cget es' i = Some e) <->
                   (exists i, 1 <= i < len /\ i <> pos /\ cget es i = Some e)).
    Proof.
      induction fuel as [|f IH]; intros es pos Hf B; [lia|].
      pose proof (bu_pos _ _ B) as Hpos.
      assert (Hpar : pos / 2 < pos) by (apply div2_lt; lia).
      assert (Hpe : exists pe, cget es (pos / 2) = Some pe /\ good (ekey pe) /\
                               (pos / 2 <> 0 -> ehd pe <> None)).
      { destruct (Nat.eq_dec (pos / 2) 0) as [E0|E0].
        - rewrite E0. exists sentinel. split; [apply (bu_sent _ _ B)|]. split; [exact bot_good|]. congruence.
        - destruct (bu_ok _ _ B (pos / 2) ltac:(lia) ltac:(lia)) as (pe & H1 & H2 & H3).
          exists pe; auto. }
      destruct Hpe as (pe & Hpe & Hgpe & Hhdpe).
      cbn [Heap.bubble_up]. rewrite Hpe. cbn [obind].
      destruct (ltb k (ekey pe)) eqn:Elt.
      - (* move the parent down *)
        assert (Hp0 : pos / 2 <> 0).
        { intros E0. rewrite E0 in Hpe. rewrite (bu_sent _ _ B) in Hpe. inversion Hpe; subst.
          cbn in Elt. rewrite bot_least in Elt. discriminate. }
        destruct (cset_some es pos pe) as (es' & Hset).
        { pose proof (bu_len _ _ B). lia. }
        rewrite Hset. cbn [obind].
        destruct (cset_inv _ _ _ _ Hset) as (_ & Hlen' & G).
        assert (Gpos : cget es' pos = Some pe) by (rewrite G, Nat.eqb_refl; reflexivity).
        assert (Gne : forall j, j <> pos -> cget es' j = cget es j).
        { intros j Hj. rewrite G. destruct (Nat.eqb_spec j pos); [contradiction|reflexivity]. }
        assert (Hsib : forall i e, 1 <= i < len -> i <> pos -> i / 2 = pos / 2 ->
                                   cget es i = Some e -> le (ekey pe) (ekey e)).
        { intros i e Hi Hne Hi2 Hge. apply (bu_a _ _ B i e pe); auto; try lia. rewrite Hi2; auto. }
        assert (B' : BU es' (pos / 2)).
        { constructor.
          - lia.
          - rewrite Hlen'. apply (bu_len _ _ B).
          - rewrite Gne by lia. apply (bu_sent _ _ B).
          - intros i Hi Hne. destruct (Nat.eq_dec i pos) as [->|Hip].
            + exists pe. rewrite Gpos. auto.
            + unfold cell_ok. rewrite Gne by auto. apply (bu_ok _ _ B); auto.
          - intros i e p Hi Hne Hne2 Hge Hgp.
            destruct (Nat.eq_dec i pos) as [->|Hip]; [contradiction|].
            rewrite Gne in Hge by auto.
            destruct (Nat.eq_dec (i / 2) pos) as [E2|E2].
            + rewrite E2, Gpos in Hgp. inversion Hgp; subst p.
              apply (bu_c _ _ B i e pe); auto.
            + rewrite Gne in Hgp by auto. apply (bu_a _ _ B i e p); auto.
          - intros i e Hi Hi2 Hge.
            destruct (Nat.eq_dec i pos) as [->|Hip].
            + rewrite Gpos in Hge. inversion Hge; subst e. apply lt_le; auto.
            + rewrite Gne in Hge by auto.
              assert (good (ekey e)) by (eapply bu_good; eauto; lia).
              apply le_trans with (b := ekey pe); auto.
              * apply lt_le; auto.
              * apply (Hsib i e); auto.
          - intros i e p Hi Hi2 Hge Hgp.
            assert (Hpp : pos / 2 / 2 < pos / 2) by (apply div2_lt; lia).
            rewrite Gne in Hgp by lia.
            assert (Hppe : le (ekey p) (ekey pe)).
            { apply (bu_a _ _ B (pos / 2) pe p); auto; lia. }
            destruct (Nat.eq_dec i pos) as [->|Hip].
            + rewrite Gpos in Hge. inversion Hge; subst e. exact Hppe.
            + rewrite Gne in Hge by auto.
              assert (good (ekey e)) by (eapply bu_good; eauto; lia).
              assert (good (ekey p)) by (eapply bu_good with (j := pos / 2 / 2); eauto; lia).
              apply le_trans with (b := ekey pe); auto.
              apply (Hsib i e); auto. }
        destruct (IH es' (pos / 2) ltac:(lia) B') as (es2 & pos2 & Hrun & B2 & Hpar2 & Hlen2 & Hmem2).
        exists es2, pos2. split; [exact Hrun|]. split; [exact B2|]. split; [exact Hpar2|].
        split; [congruence|].
        intros e. rewrite Hmem2. split.
        + intros (i & Hi & Hne & Hge). destruct (Nat.eq_dec i pos) as [->|Hip].
          * rewrite Gpos in Hge. inversion Hge; subst e. exists (pos / 2). repeat split; auto; lia.
          * rewrite Gne in Hge by auto. exists i; auto.
        + intros (i & Hi & Hne & Hge). destruct (Nat.eq_dec i (pos / 2)) as [->|Hip].
          * exists pos. rewrite Gpos. repeat split; auto; try lia. congruence.
          * exists i. rewrite Gne by auto. auto.
      - exists es, pos. split; [reflexivity|]. split; [exact B|]. split.
        + intros p Hp. rewrite Hpe in Hp. inversion Hp; subst p. exact Elt.
        + split; [reflexivity|]. intros e; reflexivity.
    Qed.

    Lemma bubble_up_finish : forall es pos nw es3, BU es pos ->
      (forall p, cget es (pos / 2) = Some p -> le (ekey p) k) ->
      cset es pos nw = Some es3 -> ekey nw = k -> ehd nw <> None ->
      cget es3 0 = Some sentinel /\ (forall i, 1 <= i < len -> cell_ok es3 i) /\
      ordered_from 0 es3 len /\ length es3 = length es /\
      (forall e, In_cells es3 len e <-> e = nw \/ exists i, 1 <= i < len /\ i <> pos /\ cget es i = Some e).
    Proof.
      intros es pos nw es3 B Hpar Hset Hkey Hhd.
      pose proof (bu_pos _ _ B) as Hpos.
      destruct (cset_inv _ _ _ _ Hset) as (_ & Hlen' & G).
      assert (Gpos : cget es3 pos = Some nw) by (rewrite G, Nat.eqb_refl; reflexivity).
      assert (Gne : forall j, j <> pos -> cget es3 j = cget es j).
      { intros j Hj. rewrite G. destruct (Nat.eqb_spec j pos); [contradiction|reflexivity]. }
      split; [rewrite Gne by lia; apply (bu_sent _ _ B)|].
      split.
      { intros i Hi. destruct (Nat.eq_dec i pos) as [->|Hip].
        - exists nw. rewrite Gpos, Hkey. auto.
        - unfold cell_ok. rewrite Gne by auto. apply (bu_ok _ _ B); auto. }
      split.
      { intros i e p Hi _ Hge Hgp.
        assert (i / 2 < i) by (apply div2_lt; lia).
        destruct (Nat.eq_dec i pos) as [->|Hip].
        - rewrite Gpos in Hge. inversion Hge; subst e. rewrite Hkey.
          rewrite Gne in Hgp by lia. apply Hpar; auto.
        - rewrite Gne in Hge by auto.
          destruct (Nat.eq_dec (i / 2) pos) as [E2|E2].
          + rewrite E2, Gpos in Hgp. inversion Hgp; subst p. rewrite Hkey.
            apply (bu_b _ _ B i e); auto.
          + rewrite Gne in Hgp by auto. apply (bu_a _ _ B i e p); auto. }
      split; [exact Hlen'|].
      intros e. unfold In_cells. split.
      - intros (i & Hi & Hge). destruct (Nat.eq_dec i pos) as [->|Hip].
        + rewrite Gpos in Hge. inversion Hge. auto.
        + rewrite Gne in Hge by auto. right. exists i; auto.
      - intros [->|(i & Hi & Hne & Hge)].
        + exists pos. auto.
        + exists i. rewrite Gne by auto. auto.
    Qed.
  End BubbleUp.

  (** ** insert *)
  Lemma insert_core : forall es pos k nw, good k -> ekey nw = k -> ehd nw <> None ->
    1 <= pos -> pos + 2 <= length es -> cget es 0 = Some sentinel ->
    (forall i, 1 <= i < pos -> cell_ok es i) -> ordered_from 0 es pos ->
    exists es2 pos2 es3, bubble_up (S pos) es pos k = Some (es2, pos2) /\
      cset es2 pos2 nw = Some es3 /\ cget es3 0 = Some sentinel /\
      (forall i, 1 <= i < S pos -> cell_ok es3 i) /\ ordered_from 0 es3 (S pos) /\
      length es3 = length es /\
      (forall e, In_cells es3 (S pos) e <-> e = nw \/ In_cells es pos e).
  Proof.
    intros es pos k nw Hk Hkey Hhd Hpos Hlen Hsent Hok Hord.
    assert (B : BU k (S pos) es pos).
    { constructor; auto; try lia.
      - intros i Hi Hne. apply Hok. lia.
      - intros i e p Hi Hne Hne2 Hge Hgp. apply (Hord i e p); auto; lia.
      - intros i e Hi Hi2 Hge. pose proof (div2_lt i ltac:(lia)). lia.
      - intros i e p Hi Hi2 Hge Hgp. pose proof (div2_lt i ltac:(lia)). lia. }
    destruct (bubble_up_spec k (S pos) Hk (S pos) es pos ltac:(lia) B)
      as (es2 & pos2 & Hrun & B2 & Hpar2 & Hlen2 & Hmem2).
    destruct (cset_some es2 pos2 nw) as (es3 & Hset).
    { pose proof (bu_pos _ _ _ _ B2). pose proof (bu_len _ _ _ _ B2). lia. }
    destruct (bubble_up_finish k (S pos) Hk es2 pos2 nw es3 B2 Hpar2 Hset Hkey Hhd)
      as (F1 & F2 & F3 & F4 & F5).
    exists es2, pos2, es3. repeat (split; [assumption|]).
    split; [congruence|].
    intros e. rewrite F5, Hmem2. unfold In_cells. split.
    - intros [->|(i & Hi & Hne & Hge)]; [auto|]. right. exists i. split; [lia|auto].
    - intros [->|(i & Hi & Hge)]; [auto|]. right. exists i. repeat split; auto; lia.
  Qed.

  (** the allocation step of insert, as a separate term *)
  Definition insert_prep (h : heap) : option (cells * nat * nat * nat) :=
    let position := hlen h in
    let len1 := S (hlen h) in
    if hsize h <? len1 + 1 then
      let old_size := hsize h in
      let new_size := if old_size =? 0 then 64 else old_size * 2 in
      let es := entries h ++ repeat None (new_size - old_size) in
      if old_size =? 0 then
        es0 <- cset es 0 sentinel ;;
        Some (es0, S len1, new_size, S position)
      else Some (es, len1, new_size, position)
    else Some (entries h, len1, hsize h, position).

  Lemma insert_unfold : forall h k hd c,
    insert h k hd c =
    (' (es, len, size, position) <- insert_prep h ;;
     ' (es2, pos2) <- bubble_up (S position) es position k ;;
     es3 <- cset es2 pos2 (mkE k (Some hd) c) ;;
     Some (mkHeap es3 len size)).
  Proof. reflexivity. Qed.

  Lemma insert_prep_spec : forall h, heap_inv h ->
    exists es pos size, insert_prep h = Some (es, S pos, size, pos) /\
      1 <= pos /\ pos + 2 <= size /\ length es = size /\ hsize h <= size /\
      cget es 0 = Some sentinel /\ (forall i, 1 <= i < pos -> cell_ok es i) /\
      ordered_from 0 es pos /\ (forall e, In_cells es pos e <-> In_heap h e).
  Proof.
    intros [es len size] (Hl & Hinv). cbn [entries hlen hsize] in *.
    unfold insert_prep. cbn [entries hlen hsize].
    destruct Hinv as [(H0 & H1)|(H1 & H2 & H3 & H4 & H5)].
    - subst len size. destruct es; [|discriminate].
      change (0 <? 1 + 1) with true. change (0 =? 0) with true. cbv iota.
      match goal with |- context[cset ?x 0 sentinel] => set (es1 := x) end.
      assert (Hlen1 : length es1 = 64).
      { unfold es1. rewrite app_length, repeat_length. reflexivity. }
      destruct (cset_some es1 0 sentinel ltac:(lia)) as (es0 & Hset).
      rewrite Hset. cbn [obind].
      destruct (cset_inv _ _ _ _ Hset) as (_ & Hlen0 & G).
      exists es0, 1, 64. split; [reflexivity|].
      split; [lia|]. split; [lia|]. split; [lia|]. split; [lia|].
      split; [rewrite G; reflexivity|].
      split; [intros i Hi; lia|].
      split; [intros i e p Hi; lia|].
      intros e. split.
      + intros (i & Hi & _); lia.
      + intros (i & Hi & _). cbn in Hi. lia.
    - destruct (size <? S len + 1) eqn:Eg.
      + apply Nat.ltb_lt in Eg.
        destruct (Nat.eqb_spec size 0) as [E0|E0]; [lia|].
        match goal with |- context[Some (?x, _, _, _)] => set (es1 := x) end.
        assert (Hlen1 : length es1 = size * 2).
        { unfold es1. rewrite app_length, repeat_length. lia. }
        assert (G : forall i, i < size -> cget es1 i = cget es i).
        { intros i Hi. unfold es1. apply cget_app_l. lia. }
        exists es1, len, (size * 2). split; [reflexivity|].
        split; [lia|]. split; [lia|]. split; [lia|]. split; [lia|].
        split; [rewrite G by lia; exact H3|].
        split; [intros i Hi; unfold cell_ok; rewrite G by lia; apply H4; auto|].
        split.
        { intros i e p Hi _ Hge Hgp. pose proof (div2_lt i ltac:(lia)).
          rewrite G in Hge, Hgp by lia. apply (H5 i e p); auto; lia. }
        intros e. split.
        * intros (i & Hi & Hge). exists i. rewrite G in Hge by lia. auto.
        * intros (i & Hi & Hge). exists i. rewrite G by (cbn in Hi; lia). auto.
      + apply Nat.ltb_ge in Eg.
        exists es, len, size. split; [reflexivity|].
        split; [lia|]. split; [lia|]. split; [lia|]. split; [lia|].
        split; [exact H3|]. split; [exact H4|]. split; [exact H5|].
        intros e; reflexivity.
  Qed.

  Lemma insert_spec : forall h k hd c, heap_inv h -> good k ->
    exists h', insert h k hd c = Some h' /\ heap_inv h' /\
      (forall e, In_heap h' e <-> e = mkE k (Some hd) c \/ In_heap h e) /\
      hsize h <= hsize h' /\ 2 <= hlen h' /\
      hlen h' = (if hlen h =? 0 then 2 else S (hlen h)).
  Proof.
    intros h k hd c Hinv Hk.
    destruct (insert_prep_spec h Hinv) as (es & pos & size & Hprep & P1 & P2 & P3 & P4 & P5 & P6 & P7 & P8).
    destruct (insert_core es pos k (mkE k (Some hd) c) Hk eq_refl ltac:(discriminate) P1 ltac:(lia) P5 P6 P7)
      as (es2 & pos2 & es3 & Hrun & Hset & F1 & F2 & F3 & F4 & F5).
    rewrite insert_unfold, Hprep. cbn [obind]. rewrite Hrun. cbn [obind]. rewrite Hset. cbn [obind].
    eexists. split; [reflexivity|].
    split.
    { split; cbn [entries hlen hsize]; [congruence|]. right.
      repeat split; auto; lia. }
    split.
    { intros e. unfold In_heap at 1. cbn [entries hlen]. rewrite F5, P8. reflexivity. }
    cbn [hsize hlen]. split; [exact P4|]. split; [lia|].
    (* relation between the lengths *)
    revert Hprep. unfold insert_prep.
    destruct Hinv as (_ & [(H0 & H1)|(H1 & H2 & _)]).
    - rewrite H0, H1. change (0 <? 1 + 1) with true. change (0 =? 0) with true. cbv iota.
      destruct (cset _ 0 sentinel); cbn [obind]; [|discriminate].
      intros E; inversion E; reflexivity.
    - destruct (hlen h =? 0) eqn:E0; [apply Nat.eqb_eq in E0; lia|].
      destruct (hsize h <? S (hlen h) + 1).
      + destruct (Nat.eqb_spec (hsize h) 0); [lia|].
        intros E; inversion E. lia.
      + intros E; inversion E. lia.
  Qed.

End HeapProofs.
