(** * Proofs/HeapProofs.v — invariant, memory safety and functional correctness of Model/Heap.v.

    Keys: abstract type [K] with the strict comparison [ltb] of heap.c.  The order laws are only
    assumed on [good] keys (for the float instance: no NaN component), because IEEE comparison is
    not an order on NaN.  [le a b := ltb b a = false]. *)
From Coq Require Import List Arith Bool NArith Lia.
Require Import JF.Model.Heap.
Import ListNotations.

Section HeapProofs.
  Variable K : Type.
  Variable ltb : K -> K -> bool.
  Variable bot : K.
  Variable good : K -> Prop.

  Hypothesis ltb_asym : forall a b, good a -> good b -> ltb a b = true -> ltb b a = false.
  Hypothesis le_trans_hyp : forall a b c, good a -> good b -> good c ->
      ltb b a = false -> ltb c b = false -> ltb c a = false.
  Hypothesis bot_least : forall k, ltb k bot = false.
  Hypothesis bot_good : good bot.

  Notation entry := (entry K).
  Notation cells := (cells K).
  Notation heap := (heap K).
  Notation bubble_up := (bubble_up K ltb).
  Notation bubble_down := (bubble_down K ltb).
  Notation insert := (insert K ltb bot).
  Notation root := (root K ltb bot).
  Notation root_loop := (root_loop K ltb bot).
  Notation delete_events := (delete_events K ltb).
  Notation del_loop := (del_loop K).
  Notation heapify := (heapify K ltb).
  Notation sentinel := (@sentinel K bot).

  Definition le (a b : K) : Prop := ltb b a = false.

  Lemma le_trans : forall a b c, good a -> good b -> good c -> le a b -> le b c -> le a c.
  Proof. unfold le; intros; eauto. Qed.

  Lemma lt_le : forall a b, good a -> good b -> ltb a b = true -> le a b.
  Proof. unfold le; intros; eauto. Qed.

  Lemma le_refl : forall a, good a -> le a a.
  Proof.
    unfold le; intros a Ha. destruct (ltb a a) eqn:E; [|reflexivity].
    rewrite (ltb_asym a a Ha Ha E) in E. discriminate.
  Qed.

  Lemma lt_le_trans : forall a b c, good a -> good b -> good c ->
      ltb a b = true -> le b c -> ltb a c = true.
  Proof.
    unfold le; intros a b c Ha Hb Hc Hab Hbc.
    destruct (ltb a c) eqn:E; [reflexivity|].
    (* le c a, le b c -> le b a *)
    assert (ltb a b = false) by (eapply le_trans_hyp with (b := c); eauto).
    congruence.
  Qed.

  Lemma lt_trans : forall a b c, good a -> good b -> good c ->
      ltb a b = true -> ltb b c = true -> ltb a c = true.
  Proof.
    intros. eapply lt_le_trans; eauto. apply lt_le; auto.
  Qed.

  Lemma le_total : forall a b, good a -> good b -> le a b \/ le b a.
  Proof.
    unfold le; intros a b Ha Hb. destruct (ltb b a) eqn:E; [right|left]; auto.
  Qed.

  Lemma bot_le : forall k, le bot k.
  Proof. unfold le; intros; apply bot_least. Qed.

  (** ** cells: get / set *)
  Lemma upd_length : forall (es : cells) i c, length (upd es i c) = length es.
  Proof. induction es as [|x r IH]; intros [|i] c; cbn; auto. Qed.

  Lemma nth_error_upd : forall (es : cells) i j c,
      nth_error (upd es i c) j =
      if (j =? i) && (i <? length es) then Some c else nth_error es j.
  Proof.
    induction es as [|x r IH]; intros [|i] [|j] c; cbn [upd nth_error length]; auto.
    - rewrite andb_false_r; reflexivity.
    - rewrite andb_false_r; reflexivity.
    - rewrite IH. change (S j =? S i) with (j =? i). change (S i <? S (length r)) with (i <? length r).
      reflexivity.
  Qed.

  Lemma cset_some : forall (es : cells) i e, i < length es -> exists es', cset es i e = Some es'.
  Proof.
    intros es i e Hi. unfold cset. apply Nat.ltb_lt in Hi. rewrite Hi. eauto.
  Qed.

  Lemma cset_inv : forall (es es' : cells) i e, cset es i e = Some es' ->
      i < length es /\ length es' = length es /\
      forall j, cget es' j = if j =? i then Some e else cget es j.
  Proof.
    unfold cset, cget; intros es es' i e H.
    destruct (i <? length es) eqn:E; [|discriminate]. inversion H; subst; clear H.
    split; [apply Nat.ltb_lt; auto|]. split; [apply upd_length|].
    intros j. rewrite nth_error_upd, E, andb_true_r. destruct (j =? i); reflexivity.
  Qed.

  Lemma cget_lt : forall (es : cells) i e, cget es i = Some e -> i < length es.
  Proof.
    unfold cget; intros es i e H. destruct (nth_error es i) eqn:E; [|discriminate].
    apply nth_error_Some. congruence.
  Qed.

  Lemma cget_app_l : forall (es : cells) n i, i < length es -> cget (es ++ repeat None n) i = cget es i.
  Proof. unfold cget; intros. rewrite nth_error_app1; auto. Qed.

  Lemma cget_nil : forall i, cget (@nil (option entry)) i = None.
  Proof. intros [|i]; reflexivity. Qed.

  (** ** invariant *)
  Definition cell_ok (es : cells) (i : nat) : Prop :=
    exists e, cget es i = Some e /\ good (ekey e) /\ ehd e <> None.

  (** heap order on the edges (i/2, i) whose parent index is at least [lo] *)
  Definition ordered_from (lo : nat) (es : cells) (len : nat) : Prop :=
    forall i e p, 1 <= i < len -> lo <= i / 2 ->
      cget es i = Some e -> cget es (i / 2) = Some p -> le (ekey p) (ekey e).

  Definition heap_inv (h : heap) : Prop :=
    length (entries h) = hsize h /\
    ((hlen h = 0 /\ hsize h = 0) \/
     (1 <= hlen h /\ hlen h + 1 <= hsize h /\
      cget (entries h) 0 = Some sentinel /\
      (forall i, 1 <= i < hlen h -> cell_ok (entries h) i) /\
      ordered_from 0 (entries h) (hlen h))).

  (** membership: the entries stored at positions 1 .. length-1 *)
  Definition In_cells (es : cells) (len : nat) (e : entry) : Prop :=
    exists i, 1 <= i < len /\ cget es i = Some e.
  Definition In_heap (h : heap) (e : entry) : Prop := In_cells (entries h) (hlen h) e.

  Lemma div2_lt : forall i, 1 <= i -> i / 2 < i.
  Proof. intros. apply Nat.div_lt; lia. Qed.

  Lemma child_iff : forall i pos, 1 <= pos -> (i / 2 = pos <-> i = 2 * pos \/ i = 2 * pos + 1).
  Proof.
    intros i pos Hp. split.
    - intros H. pose proof (Nat.div_mod i 2 ltac:(lia)) as D.
      pose proof (Nat.mod_upper_bound i 2 ltac:(lia)). lia.
    - intros [->| ->].
      + rewrite Nat.mul_comm. apply Nat.div_mul. lia.
      + rewrite Nat.mul_comm, Nat.add_comm. rewrite Nat.div_add by lia. reflexivity.
  Qed.

End HeapProofs.
