(** * Proofs/HeapProofs.v — invariant, memory safety and functional correctness of Model/Heap.v.

    Keys: abstract type [K] with the strict comparison [ltb] of heap.c.  The order laws are only
    assumed on [good] keys (for the float instance: no NaN component), because IEEE comparison is
    not an order on NaN.  [le a b := ltb b a = false]. *)
From Coq Require Import List Arith Bool NArith Lia.
Require Import JF.Model.Heap.
Import ListNotations.

Section HeapProofs.
  Variable K : Type.
  Variable ltb : K -> K -> bool.
  Variable bot : K.
  Variable good : K -> Prop.

  Hypothesis ltb_asym : forall a b, good a -> good b -> ltb a b = true -> ltb b a = false.
  Hypothesis le_trans_hyp : forall a b c, good a -> good b -> good c ->
      ltb b a = false -> ltb c b = false -> ltb c a = false.
  Hypothesis bot_least : forall k, ltb k bot = false.
  Hypothesis bot_good : good bot.

  Notation entry := (entry K).
  Notation cells := (cells K).
  Notation heap := (heap K).
  Notation bubble_up := (bubble_up K ltb).
  Notation bubble_down := (bubble_down K ltb).
  Notation insert := (insert K ltb bot).
  Notation root := (root K ltb bot).
  Notation root_loop := (root_loop K ltb bot).
  Notation delete_events := (delete_events K ltb).
  Notation del_loop := (del_loop K).
  Notation heapify := (heapify K ltb).
  Notation sentinel := (@sentinel K bot).

  Definition le (a b : K) : Prop := ltb b a = false.

  Lemma le_trans : forall a b c, good a -> good b -> good c -> le a b -> le b c -> le a c.
  Proof. unfold le; intros; eauto. Qed.

  Lemma lt_le : forall a b, good a -> good b -> ltb a b = true -> le a b.
  Proof. unfold le; intros; eauto. Qed.

  Lemma le_refl : forall a, good a -> le a a.
  Proof.
    unfold le; intros a Ha. destruct (ltb a a) eqn:E; [|reflexivity].
    rewrite (ltb_asym a a Ha Ha E) in E. discriminate.
  Qed.

  Lemma lt_le_trans : forall a b c, good a -> good b -> good c ->
      ltb a b = true -> le b c -> ltb a c = true.
  Proof.
    unfold le; intros a b c Ha Hb Hc Hab Hbc.
    destruct (ltb a c) eqn:E; [reflexivity|].
    (* le c a, le b c -> le b a *)
    assert (ltb a b = false) by (eapply le_trans_hyp with (b := c); eauto).
    congruence.
  Qed.

  Lemma lt_trans : forall a b c, good a -> good b -> good c ->
      ltb a b = true -> ltb b c = true -> ltb a c = true.
  Proof.
    intros a b c Ha Hb Hc Hab Hbc. apply lt_le_trans with (b := b); auto. apply lt_le; auto.
  Qed.

  Lemma le_total : forall a b, good a -> good b -> le a b \/ le b a.
  Proof.
    unfold le; intros a b Ha Hb. destruct (ltb b a) eqn:E; [right|left]; auto.
  Qed.

  Lemma bot_le : forall k, le bot k.
  Proof. unfold le; intros; apply bot_least. Qed.

  (** ** cells: get / set *)
  Lemma upd_length : forall (es : cells) i c, length (upd es i c) = length es.
  Proof. induction es as [|x r IH]; intros [|i] c; cbn; auto. Qed.

  Lemma nth_error_upd : forall (es : cells) i j c,
      nth_error (upd es i c) j =
      if (j =? i) && (i <? length es) then Some c else nth_error es j.
  Proof.
    induction es as [|x r IH]; intros i j c.
    - destruct i, j; cbn; try reflexivity; destruct (j =? i); reflexivity.
    - destruct i as [|i], j as [|j]; cbn [upd nth_error length]; try reflexivity.
      rewrite IH. reflexivity.
  Qed.

  Lemma cset_some : forall (es : cells) i e, i < length es -> exists es', cset es i e = Some es'.
  Proof.
    intros es i e Hi. unfold cset. apply Nat.ltb_lt in Hi. rewrite Hi. eauto.
  Qed.

  Lemma cset_inv : forall (es es' : cells) i e, cset es i e = Some es' ->
      i < length es /\ length es' = length es /\
      forall j, cget es' j = if j =? i then Some e else cget es j.
  Proof.
    unfold cset, cget; intros es es' i e H.
    destruct (i <? length es) eqn:E; [|discriminate]. inversion H; subst; clear H.
    split; [apply Nat.ltb_lt; auto|]. split; [apply upd_length|].
    intros j. rewrite nth_error_upd, E, andb_true_r. destruct (j =? i); reflexivity.
  Qed.

  Lemma cget_lt : forall (es : cells) i e, cget es i = Some e -> i < length es.
  Proof.
    unfold cget; intros es i e H. destruct (nth_error es i) eqn:E; [|discriminate].
    apply nth_error_Some. congruence.
  Qed.

  Lemma cget_app_l : forall (es : cells) n i, i < length es -> cget (es ++ repeat None n) i = cget es i.
  Proof. unfold cget; intros. rewrite nth_error_app1; auto. Qed.

  Lemma cget_nil : forall i, cget (@nil (option entry)) i = None.
  Proof. intros [|i]; reflexivity. Qed.

  (** ** invariant *)
  Definition cell_ok (es : cells) (i : nat) : Prop :=
    exists e, cget es i = Some e /\ good (ekey e) /\ ehd e <> None.

  (** heap order on the edges (i/2, i) whose parent index is at least [lo] *)
  Definition ordered_from (lo : nat) (es : cells) (len : nat) : Prop :=
    forall i e p, 1 <= i < len -> lo <= i / 2 ->
      cget es i = Some e -> cget es (i / 2) = Some p -> le (ekey p) (ekey e).

  Definition heap_inv (h : heap) : Prop :=
    length (entries h) = hsize h /\
    ((hlen h = 0 /\ hsize h = 0) \/
     (1 <= hlen h /\ hlen h + 1 <= hsize h /\
      cget (entries h) 0 = Some sentinel /\
      (forall i, 1 <= i < hlen h -> cell_ok (entries h) i) /\
      ordered_from 0 (entries h) (hlen h))).

  (** membership: the entries stored at positions 1 .. length-1 *)
  Definition In_cells (es : cells) (len : nat) (e : entry) : Prop :=
    exists i, 1 <= i < len /\ cget es i = Some e.
  Definition In_heap (h : heap) (e : entry) : Prop := In_cells (entries h) (hlen h) e.

  Lemma div2_lt : forall i, 1 <= i -> i / 2 < i.
  Proof. intros. apply Nat.div_lt; lia. Qed.

  Lemma child_iff : forall i pos, 1 <= pos -> (i / 2 = pos <-> i = 2 * pos \/ i = 2 * pos + 1).
  Proof.
    intros i pos Hp. split.
    - intros H. pose proof (Nat.div_mod i 2 ltac:(lia)) as D.
      pose proof (Nat.mod_upper_bound i 2 ltac:(lia)). lia.
    - intros [->| ->].
      + rewrite Nat.mul_comm. apply Nat.div_mul. lia.
      + rewrite Nat.mul_comm, Nat.add_comm. rewrite Nat.div_add by lia. reflexivity.
  Qed.

  (** ** bubble_up (the while loop of insert) *)
  Section BubbleUp.
    Variable k : K.
    Variable len : nat.
    Hypothesis Hk : good k.

    (** state of the loop: cell [pos] is a hole that will receive the new key [k] *)
    Record BU (es : cells) (pos : nat) : Prop := {
      bu_pos : 1 <= pos < len;
      bu_len : len <= length es;
      bu_sent : cget es 0 = Some sentinel;
      bu_ok : forall i, 1 <= i < len -> i <> pos -> cell_ok es i;
      bu_a : forall i e p, 1 <= i < len -> i <> pos -> i / 2 <> pos ->
             cget es i = Some e -> cget es (i / 2) = Some p -> le (ekey p) (ekey e);
      bu_b : forall i e, 1 <= i < len -> i / 2 = pos -> cget es i = Some e -> le k (ekey e);
      bu_c : forall i e p, 1 <= i < len -> i / 2 = pos ->
             cget es i = Some e -> cget es (pos / 2) = Some p -> le (ekey p) (ekey e)
    }.

    Lemma bu_good : forall es pos j e, BU es pos -> j < len -> j <> pos -> cget es j = Some e -> good (ekey e).
    Proof.
      intros es pos j e B Hj Hne Hg. destruct (Nat.eq_dec j 0) as [->|Hj0].
      - rewrite (bu_sent _ _ B) in Hg. inversion Hg; subst. exact bot_good.
      - destruct (bu_ok _ _ B j ltac:(lia) Hne) as (e' & He' & Hgood & _). congruence.
    Qed.

    Lemma bubble_up_spec : forall fuel es pos, pos < fuel -> BU es pos ->
      exists es' pos', bubble_up fuel es pos k = Some (es', pos') /\ BU es' pos' /\
        (forall p, cget es' (pos' / 2) = Some p -> le (ekey p) k) /\
        length es' = length es /\
        (forall e, (exists i, 1 <= i < len /\ i <> pos' /\ cget es' i = Some e) <->
                   (exists i, 1 <= i < len /\ i <> pos /\ cget es i = Some e)).
    Proof.
      induction fuel as [|f IH]; intros es pos Hf B; [lia|].
      pose proof (bu_pos _ _ B) as Hpos.
      assert (Hpar : pos / 2 < pos) by (apply div2_lt; lia).
      assert (Hpe : exists pe, cget es (pos / 2) = Some pe /\ good (ekey pe) /\
                               (pos / 2 <> 0 -> ehd pe <> None)).
      { destruct (Nat.eq_dec (pos / 2) 0) as [E0|E0].
        - rewrite E0. exists sentinel. split; [apply (bu_sent _ _ B)|]. split; [exact bot_good|]. congruence.
        - destruct (bu_ok _ _ B (pos / 2) ltac:(lia) ltac:(lia)) as (pe & H1 & H2 & H3).
          exists pe; auto. }
      destruct Hpe as (pe & Hpe & Hgpe & Hhdpe).
      cbn [Heap.bubble_up]. rewrite Hpe. cbn [obind].
      destruct (ltb k (ekey pe)) eqn:Elt.
      - (* move the parent down *)
        assert (Hp0 : pos / 2 <> 0).
        { intros E0. rewrite E0 in Hpe. rewrite (bu_sent _ _ B) in Hpe. inversion Hpe; subst.
          cbn in Elt. rewrite bot_least in Elt. discriminate. }
        destruct (cset_some es pos pe) as (es' & Hset).
        { pose proof (bu_len _ _ B). lia. }
        rewrite Hset. cbn [obind].
        destruct (cset_inv _ _ _ _ Hset) as (_ & Hlen' & G).
        assert (Gpos : cget es' pos = Some pe) by (rewrite G, Nat.eqb_refl; reflexivity).
        assert (Gne : forall j, j <> pos -> cget es' j = cget es j).
        { intros j Hj. rewrite G. destruct (Nat.eqb_spec j pos); [contradiction|reflexivity]. }
        assert (Hsib : forall i e, 1 <= i < len -> i <> pos -> i / 2 = pos / 2 ->
                                   cget es i = Some e -> le (ekey pe) (ekey e)).
        { intros i e Hi Hne Hi2 Hge. apply (bu_a _ _ B i e pe); auto; try lia. rewrite Hi2; auto. }
        assert (B' : BU es' (pos / 2)).
        { constructor.
          - lia.
          - rewrite Hlen'. apply (bu_len _ _ B).
          - rewrite Gne by lia. apply (bu_sent _ _ B).
          - intros i Hi Hne. destruct (Nat.eq_dec i pos) as [->|Hip].
            + exists pe. rewrite Gpos. auto.
            + unfold cell_ok. rewrite Gne by auto. apply (bu_ok _ _ B); auto.
          - intros i e p Hi Hne Hne2 Hge Hgp.
            destruct (Nat.eq_dec i pos) as [->|Hip]; [contradiction|].
            rewrite Gne in Hge by auto.
            destruct (Nat.eq_dec (i / 2) pos) as [E2|E2].
            + rewrite E2, Gpos in Hgp. inversion Hgp; subst p.
              apply (bu_c _ _ B i e pe); auto.
            + rewrite Gne in Hgp by auto. apply (bu_a _ _ B i e p); auto.
          - intros i e Hi Hi2 Hge.
            destruct (Nat.eq_dec i pos) as [->|Hip].
            + rewrite Gpos in Hge. inversion Hge; subst e. apply lt_le; auto.
            + rewrite Gne in Hge by auto.
              assert (good (ekey e)) by (eapply bu_good; eauto; lia).
              apply le_trans with (b := ekey pe); auto.
              * apply lt_le; auto.
              * apply (Hsib i e); auto.
          - intros i e p Hi Hi2 Hge Hgp.
            assert (Hpp : pos / 2 / 2 < pos / 2) by (apply div2_lt; lia).
            rewrite Gne in Hgp by lia.
            assert (Hppe : le (ekey p) (ekey pe)).
            { apply (bu_a _ _ B (pos / 2) pe p); auto; lia. }
            destruct (Nat.eq_dec i pos) as [->|Hip].
            + rewrite Gpos in Hge. inversion Hge; subst e. exact Hppe.
            + rewrite Gne in Hge by auto.
              assert (good (ekey e)) by (eapply bu_good; eauto; lia).
              assert (good (ekey p)) by (eapply bu_good with (j := pos / 2 / 2); eauto; lia).
              apply le_trans with (b := ekey pe); auto.
              apply (Hsib i e); auto. }
        destruct (IH es' (pos / 2) ltac:(lia) B') as (es2 & pos2 & Hrun & B2 & Hpar2 & Hlen2 & Hmem2).
        exists es2, pos2. split; [exact Hrun|]. split; [exact B2|]. split; [exact Hpar2|].
        split; [congruence|].
        intros e. rewrite Hmem2. split.
        + intros (i & Hi & Hne & Hge). destruct (Nat.eq_dec i pos) as [->|Hip].
          * rewrite Gpos in Hge. inversion Hge; subst e. exists (pos / 2). repeat split; auto; lia.
          * rewrite Gne in Hge by auto. exists i; auto.
        + intros (i & Hi & Hne & Hge). destruct (Nat.eq_dec i (pos / 2)) as [->|Hip].
          * exists pos. rewrite Gpos. repeat split; auto; try lia. congruence.
          * exists i. rewrite Gne by auto. auto.
      - exists es, pos. split; [reflexivity|]. split; [exact B|]. split.
        + intros p Hp. rewrite Hpe in Hp. inversion Hp; subst p. exact Elt.
        + split; [reflexivity|]. intros e; reflexivity.
    Qed.

    Lemma bubble_up_finish : forall es pos nw es3, BU es pos ->
      (forall p, cget es (pos / 2) = Some p -> le (ekey p) k) ->
      cset es pos nw = Some es3 -> ekey nw = k -> ehd nw <> None ->
      cget es3 0 = Some sentinel /\ (forall i, 1 <= i < len -> cell_ok es3 i) /\
      ordered_from 0 es3 len /\ length es3 = length es /\
      (forall e, In_cells es3 len e <-> e = nw \/ exists i, 1 <= i < len /\ i <> pos /\ cget es i = Some e).
    Proof.
      intros es pos nw es3 B Hpar Hset Hkey Hhd.
      pose proof (bu_pos _ _ B) as Hpos.
      destruct (cset_inv _ _ _ _ Hset) as (_ & Hlen' & G).
      assert (Gpos : cget es3 pos = Some nw) by (rewrite G, Nat.eqb_refl; reflexivity).
      assert (Gne : forall j, j <> pos -> cget es3 j = cget es j).
      { intros j Hj. rewrite G. destruct (Nat.eqb_spec j pos); [contradiction|reflexivity]. }
      split; [rewrite Gne by lia; apply (bu_sent _ _ B)|].
      split.
      { intros i Hi. destruct (Nat.eq_dec i pos) as [->|Hip].
        - exists nw. rewrite Gpos, Hkey. auto.
        - unfold cell_ok. rewrite Gne by auto. apply (bu_ok _ _ B); auto. }
      split.
      { intros i e p Hi _ Hge Hgp.
        assert (i / 2 < i) by (apply div2_lt; lia).
        destruct (Nat.eq_dec i pos) as [->|Hip].
        - rewrite Gpos in Hge. inversion Hge; subst e. rewrite Hkey.
          rewrite Gne in Hgp by lia. apply Hpar; auto.
        - rewrite Gne in Hge by auto.
          destruct (Nat.eq_dec (i / 2) pos) as [E2|E2].
          + rewrite E2, Gpos in Hgp. inversion Hgp; subst p. rewrite Hkey.
            apply (bu_b _ _ B i e); auto.
          + rewrite Gne in Hgp by auto. apply (bu_a _ _ B i e p); auto. }
      split; [exact Hlen'|].
      intros e. unfold In_cells. split.
      - intros (i & Hi & Hge). destruct (Nat.eq_dec i pos) as [->|Hip].
        + rewrite Gpos in Hge. inversion Hge. auto.
        + rewrite Gne in Hge by auto. right. exists i; auto.
      - intros [->|(i & Hi & Hne & Hge)].
        + exists pos. auto.
        + exists i. rewrite Gne by auto. auto.
    Qed.
  End BubbleUp.

  (** ** insert *)
  Lemma insert_core : forall es pos k nw, good k -> ekey nw = k -> ehd nw <> None ->
    1 <= pos -> pos + 2 <= length es -> cget es 0 = Some sentinel ->
    (forall i, 1 <= i < pos -> cell_ok es i) -> ordered_from 0 es pos ->
    exists es2 pos2 es3, bubble_up (S pos) es pos k = Some (es2, pos2) /\
      cset es2 pos2 nw = Some es3 /\ cget es3 0 = Some sentinel /\
      (forall i, 1 <= i < S pos -> cell_ok es3 i) /\ ordered_from 0 es3 (S pos) /\
      length es3 = length es /\
      (forall e, In_cells es3 (S pos) e <-> e = nw \/ In_cells es pos e).
  Proof.
    intros es pos k nw Hk Hkey Hhd Hpos Hlen Hsent Hok Hord.
    assert (B : BU k (S pos) es pos).
    { constructor; auto; try lia.
      - intros i Hi Hne. apply Hok. lia.
      - intros i e p Hi Hne Hne2 Hge Hgp. apply (Hord i e p); auto; lia.
      - intros i e Hi Hi2 Hge. pose proof (div2_lt i ltac:(lia)). lia.
      - intros i e p Hi Hi2 Hge Hgp. pose proof (div2_lt i ltac:(lia)). lia. }
    destruct (bubble_up_spec k (S pos) Hk (S pos) es pos ltac:(lia) B)
      as (es2 & pos2 & Hrun & B2 & Hpar2 & Hlen2 & Hmem2).
    destruct (cset_some es2 pos2 nw) as (es3 & Hset).
    { pose proof (bu_pos _ _ _ _ B2). pose proof (bu_len _ _ _ _ B2). lia. }
    destruct (bubble_up_finish k (S pos) Hk es2 pos2 nw es3 B2 Hpar2 Hset Hkey Hhd)
      as (F1 & F2 & F3 & F4 & F5).
    exists es2, pos2, es3. repeat (split; [assumption|]).
    split; [congruence|].
    intros e. rewrite F5, Hmem2. unfold In_cells. split.
    - intros [->|(i & Hi & Hne & Hge)]; [auto|]. right. exists i. split; [lia|auto].
    - intros [->|(i & Hi & Hge)]; [auto|]. right. exists i. repeat split; auto; lia.
  Qed.

  (** the allocation step of insert, as a separate term *)
  Definition insert_prep (h : heap) : option (cells * nat * nat * nat) :=
    let position := hlen h in
    let len1 := S (hlen h) in
    if hsize h <? len1 + 1 then
      let old_size := hsize h in
      let new_size := if old_size =? 0 then 64 else old_size * 2 in
      let es := entries h ++ repeat None (new_size - old_size) in
      if old_size =? 0 then
        es0 <- cset es 0 sentinel ;;
        Some (es0, S len1, new_size, S position)
      else Some (es, len1, new_size, position)
    else Some (entries h, len1, hsize h, position).

  Lemma insert_unfold : forall h k hd c,
    insert h k hd c =
    (' (es, len, size, position) <- insert_prep h ;;
     ' (es2, pos2) <- bubble_up (S position) es position k ;;
     es3 <- cset es2 pos2 (mkE k (Some hd) c) ;;
     Some (mkHeap es3 len size)).
  Proof. reflexivity. Qed.

  Lemma insert_prep_spec : forall h, heap_inv h ->
    exists es pos size, insert_prep h = Some (es, S pos, size, pos) /\
      1 <= pos /\ pos + 2 <= size /\ length es = size /\ hsize h <= size /\
      cget es 0 = Some sentinel /\ (forall i, 1 <= i < pos -> cell_ok es i) /\
      ordered_from 0 es pos /\ (forall e, In_cells es pos e <-> In_heap h e).
  Proof.
    intros [es len size] (Hl & Hinv). cbn [entries hlen hsize] in *.
    unfold insert_prep. cbn [entries hlen hsize].
    destruct Hinv as [(H0 & H1)|(H1 & H2 & H3 & H4 & H5)].
    - subst len size. destruct es; [|discriminate].
      change (0 <? 1 + 1) with true. change (0 =? 0) with true. cbv iota.
      match goal with |- context[cset ?x 0 sentinel] => set (es1 := x) end.
      assert (Hlen1 : length es1 = 64).
      { unfold es1. rewrite app_length, repeat_length. reflexivity. }
      destruct (cset_some es1 0 sentinel ltac:(lia)) as (es0 & Hset).
      rewrite Hset. cbn [obind].
      destruct (cset_inv _ _ _ _ Hset) as (_ & Hlen0 & G).
      exists es0, 1, 64. split; [reflexivity|].
      split; [lia|]. split; [lia|]. split; [lia|]. split; [lia|].
      split; [rewrite G; reflexivity|].
      split; [intros i Hi; lia|].
      split; [intros i e p Hi; lia|].
      intros e. split.
      + intros (i & Hi & _); lia.
      + intros (i & Hi & _). cbn in Hi. lia.
    - destruct (size <? S len + 1) eqn:Eg.
      + apply Nat.ltb_lt in Eg.
        destruct (Nat.eqb_spec size 0) as [E0|E0]; [lia|].
        match goal with |- context[Some (?x, _, _, _)] => set (es1 := x) end.
        assert (Hlen1 : length es1 = size * 2).
        { unfold es1. rewrite app_length, repeat_length. lia. }
        assert (G : forall i, i < size -> cget es1 i = cget es i).
        { intros i Hi. unfold es1. apply cget_app_l. lia. }
        exists es1, len, (size * 2). split; [reflexivity|].
        split; [lia|]. split; [lia|]. split; [lia|]. split; [lia|].
        split; [rewrite G by lia; exact H3|].
        split; [intros i Hi; unfold cell_ok; rewrite G by lia; apply H4; auto|].
        split.
        { intros i e p Hi _ Hge Hgp. pose proof (div2_lt i ltac:(lia)).
          rewrite G in Hge, Hgp by lia. apply (H5 i e p); auto; lia. }
        intros e. split.
        * intros (i & Hi & Hge). exists i. rewrite G in Hge by lia. auto.
        * intros (i & Hi & Hge). exists i. rewrite G by (cbn in Hi; lia). auto.
      + apply Nat.ltb_ge in Eg.
        exists es, len, size. split; [reflexivity|].
        split; [lia|]. split; [lia|]. split; [lia|]. split; [lia|].
        split; [exact H3|]. split; [exact H4|]. split; [exact H5|].
        intros e; reflexivity.
  Qed.

  Lemma insert_spec : forall h k hd c, heap_inv h -> good k ->
    exists h', insert h k hd c = Some h' /\ heap_inv h' /\
      (forall e, In_heap h' e <-> e = mkE k (Some hd) c \/ In_heap h e) /\
      hsize h <= hsize h' /\ 2 <= hlen h' /\
      hlen h' = (if hlen h =? 0 then 2 else S (hlen h)).
  Proof.
    intros h k hd c Hinv Hk.
    destruct (insert_prep_spec h Hinv) as (es & pos & size & Hprep & P1 & P2 & P3 & P4 & P5 & P6 & P7 & P8).
    destruct (insert_core es pos k (mkE k (Some hd) c) Hk eq_refl ltac:(discriminate) P1 ltac:(lia) P5 P6 P7)
      as (es2 & pos2 & es3 & Hrun & Hset & F1 & F2 & F3 & F4 & F5).
    rewrite insert_unfold, Hprep. cbn [obind]. rewrite Hrun. cbn [obind]. rewrite Hset. cbn [obind].
    eexists. split; [reflexivity|].
    split.
    { split; cbn [entries hlen hsize]; [congruence|]. right.
      repeat split; auto; lia. }
    split.
    { intros e. unfold In_heap at 1. cbn [entries hlen]. rewrite F5, P8. reflexivity. }
    cbn [hsize hlen]. split; [exact P4|]. split; [lia|].
    (* relation between the lengths *)
    revert Hprep. unfold insert_prep.
    destruct Hinv as (_ & [(H0 & H1)|(H1 & H2 & _)]).
    - rewrite H0, H1. change (0 <? 1 + 1) with true. change (0 =? 0) with true. cbv iota.
      destruct (cset _ 0 sentinel); cbn [obind]; [|discriminate].
      intros E; inversion E; reflexivity.
    - destruct (hlen h =? 0) eqn:E0; [apply Nat.eqb_eq in E0; lia|].
      destruct (hsize h <? S (hlen h) + 1).
      + destruct (Nat.eqb_spec (hsize h) 0); [lia|].
        intros E; inversion E. lia.
      + intros E; inversion E. lia.
  Qed.

  (** ** bubble_down *)
  Section BubbleDown.
    Variable len lo : nat.
    Variable x : entry.                (* the entry that is bubbled down (kept in cell [len]) *)
    Hypothesis Hx : good (ekey x).
    Hypothesis Hxhd : ehd x <> None.

    Record BD (es : cells) (pos : nat) : Prop := {
      bd_pos : 1 <= lo /\ lo <= pos /\ pos < len;
      bd_len : len < length es;
      bd_x : cget es len = Some x;
      bd_ok : forall i, 1 <= i < len -> cell_ok es i;
      bd_a : forall i e p, 1 <= i < len -> lo <= i / 2 -> i <> pos -> i / 2 <> pos ->
             cget es i = Some e -> cget es (i / 2) = Some p -> le (ekey p) (ekey e);
      bd_b : pos = lo \/ (lo <= pos / 2 /\ forall p, cget es (pos / 2) = Some p -> le (ekey p) (ekey x));
      bd_c : pos = lo \/ (forall i e p, 1 <= i < len -> i / 2 = pos ->
             cget es i = Some e -> cget es (pos / 2) = Some p -> le (ekey p) (ekey e))
    }.

    Lemma bd_good : forall es pos i e, BD es pos -> 1 <= i < len -> cget es i = Some e -> good (ekey e).
    Proof.
      intros es pos i e B Hi Hg. destruct (bd_ok _ _ B i Hi) as (e' & H1 & H2 & _). congruence.
    Qed.

    Lemma bubble_down_exit : forall f es, bubble_down f es len len = Some es.
    Proof. intros [|f] es; cbn [Heap.bubble_down]; rewrite Nat.ltb_irrefl; reflexivity. Qed.

    Lemma bd_step : forall es pos, BD es pos ->
      exists cmp2 e2,
        (forall f, bubble_down (S f) es len pos =
                   match cset es pos e2 with Some es' => bubble_down f es' len cmp2 | None => None end) /\
        cget es cmp2 = Some e2 /\
        ((cmp2 = len /\ e2 = x /\
          forall i e, 1 <= i < len -> i / 2 = pos -> cget es i = Some e -> le (ekey x) (ekey e)) \/
         (pos < cmp2 < len /\ cmp2 / 2 = pos /\ ltb (ekey e2) (ekey x) = true /\
          forall i e, 1 <= i < len -> i / 2 = pos -> cget es i = Some e -> le (ekey e2) (ekey e))).
    Proof.
      intros es pos B. destruct (bd_pos _ _ B) as (Hlo & Hlp & Hpl).
      pose proof (bd_x _ _ B) as Hgx.
      assert (Hlt : (pos <? len) = true) by (apply Nat.ltb_lt; lia).
      assert (Hch : forall i, i / 2 = pos <-> i = 2 * pos \/ i = 2 * pos + 1) by (intros; apply child_iff; lia).
      assert (Hd1 : (2 * pos) / 2 = pos) by (apply Hch; auto).
      assert (Hd2 : (2 * pos + 1) / 2 = pos) by (apply Hch; auto).
      destruct (Nat.ltb_spec (2 * pos) len) as [L1|L1].
      - destruct (bd_ok _ _ B (2 * pos) ltac:(lia)) as (c1 & Hc1 & Hg1 & _).
        destruct (Nat.ltb_spec (2 * pos + 1) len) as [L2|L2].
        + destruct (bd_ok _ _ B (2 * pos + 1) ltac:(lia)) as (c2 & Hc2 & Hg2 & _).
          destruct (ltb (ekey c1) (ekey x)) eqn:E1.
          * destruct (ltb (ekey c2) (ekey c1)) eqn:E2.
            -- exists (2 * pos + 1), c2. split; [|split; [exact Hc2|right]].
               { intros f. cbn [Heap.bubble_down]. rewrite Hlt.
                 destruct (Nat.ltb_spec (2 * pos) len); [|lia].
                 destruct (Nat.ltb_spec (2 * pos + 1) len); [|lia].
                 rewrite Hc1, Hgx. cbn [obind]. unfold entry_lt. rewrite E1. cbn [obind].
                 rewrite Hc2, Hc1. cbn [obind]. rewrite E2. cbn [obind]. rewrite Hc2. cbn [obind].
                 reflexivity. }
               split; [lia|]. split; [exact Hd2|]. split; [apply lt_trans with (b := ekey c1); auto|].
               intros i e Hi Hi2 Hge. apply Hch in Hi2. destruct Hi2 as [->| ->].
               ++ rewrite Hc1 in Hge. inversion Hge; subst e. apply lt_le; auto.
               ++ rewrite Hc2 in Hge. inversion Hge; subst e. apply le_refl; auto.
            -- exists (2 * pos), c1. split; [|split; [exact Hc1|right]].
               { intros f. cbn [Heap.bubble_down]. rewrite Hlt.
                 destruct (Nat.ltb_spec (2 * pos) len); [|lia].
                 destruct (Nat.ltb_spec (2 * pos + 1) len); [|lia].
                 rewrite Hc1, Hgx. cbn [obind]. unfold entry_lt. rewrite E1. cbn [obind].
                 rewrite Hc2, Hc1. cbn [obind]. rewrite E2. cbn [obind]. rewrite Hc1. cbn [obind].
                 reflexivity. }
               split; [lia|]. split; [exact Hd1|]. split; [exact E1|].
               intros i e Hi Hi2 Hge. apply Hch in Hi2. destruct Hi2 as [->| ->].
               ++ rewrite Hc1 in Hge. inversion Hge; subst e. apply le_refl; auto.
               ++ rewrite Hc2 in Hge. inversion Hge; subst e. exact E2.
          * destruct (ltb (ekey c2) (ekey x)) eqn:E2.
            -- exists (2 * pos + 1), c2. split; [|split; [exact Hc2|right]].
               { intros f. cbn [Heap.bubble_down]. rewrite Hlt.
                 destruct (Nat.ltb_spec (2 * pos) len); [|lia].
                 destruct (Nat.ltb_spec (2 * pos + 1) len); [|lia].
                 rewrite Hc1, Hgx. cbn [obind]. unfold entry_lt. rewrite E1. cbn [obind].
                 rewrite Hc2, Hgx. cbn [obind]. rewrite E2. cbn [obind]. rewrite Hc2. cbn [obind].
                 reflexivity. }
               split; [lia|]. split; [exact Hd2|]. split; [exact E2|].
               intros i e Hi Hi2 Hge. apply Hch in Hi2. destruct Hi2 as [->| ->].
               ++ rewrite Hc1 in Hge. inversion Hge; subst e. apply lt_le; auto.
                  apply lt_le_trans with (b := ekey x); auto.
               ++ rewrite Hc2 in Hge. inversion Hge; subst e. apply le_refl; auto.
            -- exists len, x. split; [|split; [exact Hgx|left]].
               { intros f. cbn [Heap.bubble_down]. rewrite Hlt.
                 destruct (Nat.ltb_spec (2 * pos) len); [|lia].
                 destruct (Nat.ltb_spec (2 * pos + 1) len); [|lia].
                 rewrite Hc1, Hgx. cbn [obind]. unfold entry_lt. rewrite E1. cbn [obind].
                 rewrite Hc2, Hgx. cbn [obind]. rewrite E2. cbn [obind]. rewrite Hgx. cbn [obind].
                 reflexivity. }
               split; [reflexivity|]. split; [reflexivity|].
               intros i e Hi Hi2 Hge. apply Hch in Hi2. destruct Hi2 as [->| ->].
               ++ rewrite Hc1 in Hge. inversion Hge; subst e. exact E1.
               ++ rewrite Hc2 in Hge. inversion Hge; subst e. exact E2.
        + destruct (ltb (ekey c1) (ekey x)) eqn:E1.
          * exists (2 * pos), c1. split; [|split; [exact Hc1|right]].
            { intros f. cbn [Heap.bubble_down]. rewrite Hlt.
              destruct (Nat.ltb_spec (2 * pos) len); [|lia].
              destruct (Nat.ltb_spec (2 * pos + 1) len); [lia|].
              rewrite Hc1, Hgx. cbn [obind]. unfold entry_lt. rewrite E1. cbn [obind].
              rewrite Hc1. cbn [obind]. reflexivity. }
            split; [lia|]. split; [exact Hd1|]. split; [exact E1|].
            intros i e Hi Hi2 Hge. apply Hch in Hi2. destruct Hi2 as [->| ->]; [|lia].
            rewrite Hc1 in Hge. inversion Hge; subst e. apply le_refl; auto.
          * exists len, x. split; [|split; [exact Hgx|left]].
            { intros f. cbn [Heap.bubble_down]. rewrite Hlt.
              destruct (Nat.ltb_spec (2 * pos) len); [|lia].
              destruct (Nat.ltb_spec (2 * pos + 1) len); [lia|].
              rewrite Hc1, Hgx. cbn [obind]. unfold entry_lt. rewrite E1. cbn [obind].
              rewrite Hgx. cbn [obind]. reflexivity. }
            split; [reflexivity|]. split; [reflexivity|].
            intros i e Hi Hi2 Hge. apply Hch in Hi2. destruct Hi2 as [->| ->]; [|lia].
            rewrite Hc1 in Hge. inversion Hge; subst e. exact E1.
      - exists len, x. split; [|split; [exact Hgx|left]].
        { intros f. cbn [Heap.bubble_down]. rewrite Hlt.
          destruct (Nat.ltb_spec (2 * pos) len); [lia|].
          destruct (Nat.ltb_spec (2 * pos + 1) len); [lia|].
          cbn [obind]. rewrite Hgx. cbn [obind]. reflexivity. }
        split; [reflexivity|]. split; [reflexivity|].
        intros i e Hi Hi2 Hge. apply Hch in Hi2. lia.
    Qed.

    Lemma bubble_down_spec : forall fuel es pos, len <= fuel + pos -> BD es pos ->
      exists es', bubble_down fuel es len pos = Some es' /\ length es' = length es /\
        cget es' len = Some x /\ (forall j, j < lo -> cget es' j = cget es j) /\
        (forall i, 1 <= i < len -> cell_ok es' i) /\ ordered_from lo es' len /\
        (forall e, In_cells es' len e <-> e = x \/ exists i, 1 <= i < len /\ i <> pos /\ cget es i = Some e).
    Proof.
      induction fuel as [|f IH]; intros es pos Hf B; destruct (bd_pos _ _ B) as (Hlo & Hlp & Hpl); [lia|].
      destruct (bd_step es pos B) as (cmp2 & e2 & Hrun & Hg2 & Hspec).
      destruct (cset_some es pos e2) as (es' & Hset).
      { pose proof (bd_len _ _ B). lia. }
      rewrite Hrun, Hset.
      destruct (cset_inv _ _ _ _ Hset) as (_ & Hlen' & G).
      assert (Gpos : cget es' pos = Some e2) by (rewrite G, Nat.eqb_refl; reflexivity).
      assert (Gne : forall j, j <> pos -> cget es' j = cget es j).
      { intros j Hj. rewrite G. destruct (Nat.eqb_spec j pos); [contradiction|reflexivity]. }
      assert (Hpar : pos / 2 < pos) by (apply div2_lt; lia).
      destruct Hspec as [(-> & -> & Hch)|(Hc & Hc2 & Hlt & Hch)].
      - (* x lands at pos *)
        rewrite bubble_down_exit. exists es'. split; [reflexivity|]. split; [exact Hlen'|].
        split; [rewrite Gne by lia; apply (bd_x _ _ B)|].
        split; [intros j Hj; apply Gne; lia|].
        split.
        { intros i Hi. destruct (Nat.eq_dec i pos) as [->|Hip].
          - exists x. rewrite Gpos. auto.
          - unfold cell_ok. rewrite Gne by auto. apply (bd_ok _ _ B); auto. }
        split.
        { intros i e p Hi Hlo2 Hge Hgp.
          assert (i / 2 < i) by (apply div2_lt; lia).
          destruct (Nat.eq_dec i pos) as [->|Hip].
          - rewrite Gpos in Hge. inversion Hge; subst e.
            rewrite Gne in Hgp by lia.
            destruct (bd_b _ _ B) as [->|(_ & Hb)]; [lia|]. apply Hb; auto.
          - rewrite Gne in Hge by auto.
            destruct (Nat.eq_dec (i / 2) pos) as [E2|E2].
            + rewrite E2, Gpos in Hgp. inversion Hgp; subst p. apply (Hch i e); auto.
            + rewrite Gne in Hgp by auto. apply (bd_a _ _ B i e p); auto. }
        intros e. unfold In_cells. split.
        + intros (i & Hi & Hge). destruct (Nat.eq_dec i pos) as [->|Hip].
          * rewrite Gpos in Hge. inversion Hge. auto.
          * rewrite Gne in Hge by auto. right. exists i; auto.
        + intros [->|(i & Hi & Hne & Hge)].
          * exists pos. split; [lia|exact Gpos].
          * exists i. rewrite Gne by auto. auto.
      - (* the smaller child moves up, continue at cmp2 *)
        assert (Hg2good : good (ekey e2)) by (eapply bd_good; eauto; lia).
        assert (B' : BD es' cmp2).
        { constructor.
          - lia.
          - rewrite Hlen'. apply (bd_len _ _ B).
          - rewrite Gne by lia. apply (bd_x _ _ B).
          - intros i Hi. destruct (Nat.eq_dec i pos) as [->|Hip].
            + destruct (bd_ok _ _ B cmp2 ltac:(lia)) as (e' & He' & Hgood & Hhd).
              exists e2. rewrite Gpos. split; [reflexivity|]. rewrite Hg2 in He'. inversion He'; subst e'. auto.
            + unfold cell_ok. rewrite Gne by auto. apply (bd_ok _ _ B); auto.
          - intros i e p Hi Hlo2 Hne Hne2 Hge Hgp.
            assert (i / 2 < i) by (apply div2_lt; lia).
            destruct (Nat.eq_dec i pos) as [->|Hip].
            + rewrite Gpos in Hge. inversion Hge; subst e.
              rewrite Gne in Hgp by lia.
              destruct (bd_c _ _ B) as [->|Hcc]; [lia|].
              apply (Hcc cmp2 e2 p); auto; lia.
            + rewrite Gne in Hge by auto.
              destruct (Nat.eq_dec (i / 2) pos) as [E2|E2].
              * rewrite E2, Gpos in Hgp. inversion Hgp; subst p. apply (Hch i e); auto.
              * rewrite Gne in Hgp by auto. apply (bd_a _ _ B i e p); auto.
          - right. split; [lia|]. intros p Hgp. rewrite Hc2, Gpos in Hgp. inversion Hgp; subst p.
            apply lt_le; auto.
          - right. intros i e p Hi Hi2 Hge Hgp.
            assert (i / 2 < i) by (apply div2_lt; lia).
            rewrite Hc2, Gpos in Hgp. inversion Hgp; subst p.
            rewrite Gne in Hge by lia.
            apply (bd_a _ _ B i e e2); auto; try lia. rewrite Hi2. exact Hg2. }
        destruct (IH es' cmp2 ltac:(lia) B') as (es2 & Hrun2 & Hlen2 & Hx2 & Hfr2 & Hok2 & Hord2 & Hmem2).
        exists es2. split; [exact Hrun2|]. split; [congruence|]. split; [exact Hx2|].
        split; [intros j Hj; rewrite Hfr2 by auto; apply Gne; lia|].
        split; [exact Hok2|]. split; [exact Hord2|].
        intros e. rewrite Hmem2. split.
        + intros [->|(i & Hi & Hne & Hge)]; [auto|]. right.
          destruct (Nat.eq_dec i pos) as [->|Hip].
          * rewrite Gpos in Hge. inversion Hge; subst e. exists cmp2. repeat split; auto; lia.
          * rewrite Gne in Hge by auto. exists i; auto.
        + intros [->|(i & Hi & Hne & Hge)]; [auto|]. right.
          destruct (Nat.eq_dec i cmp2) as [->|Hic].
          * exists pos. rewrite Gpos. repeat split; auto; try lia. congruence.
          * exists i. rewrite Gne by auto. auto.
    Qed.
  End BubbleDown.

  (** ** root *)
  Lemma ordered_from_0 : forall es len, ordered_from 1 es len -> cget es 0 = Some sentinel ->
    ordered_from 0 es len.
  Proof.
    intros es len H1 H0 i e p Hi _ Hge Hgp.
    destruct (Nat.eq_dec (i / 2) 0) as [E|E].
    - rewrite E, H0 in Hgp. inversion Hgp; subst p. apply bot_le.
    - apply (H1 i e p); auto. lia.
  Qed.

  Lemma root_le_all : forall es len r, ordered_from 0 es len ->
    (forall i, 1 <= i < len -> cell_ok es i) -> cget es 1 = Some r ->
    forall i e, 1 <= i < len -> cget es i = Some e -> le (ekey r) (ekey e).
  Proof.
    intros es len r Hord Hok Hr i. induction i as [i IH] using lt_wf_ind. intros e Hi Hge.
    destruct (Nat.eq_dec i 1) as [->|Hi1].
    - rewrite Hr in Hge. inversion Hge; subst e.
      destruct (Hok 1 Hi) as (e' & He' & Hg & _). rewrite Hr in He'. inversion He'; subst e'.
      apply le_refl; auto.
    - assert (Hp : 1 <= i / 2 < i).
      { split; [|apply div2_lt; lia].
        change 1 with (2 / 2). apply Nat.div_le_mono; lia. }
      destruct (Hok (i / 2) ltac:(lia)) as (p & Hgp & Hgoodp & _).
      destruct (Hok i Hi) as (e' & He' & Hgoode & _). rewrite Hge in He'. inversion He'; subst e'.
      destruct (Hok 1 ltac:(lia)) as (r' & Hr' & Hgoodr & _). rewrite Hr in Hr'. inversion Hr'; subst r'.
      apply le_trans with (b := ekey p); auto.
      + apply (IH (i / 2)); auto; lia.
      + apply (Hord i e p); auto; lia.
  Qed.

  Lemma root_loop_spec : forall cb fuel h, hlen h <= fuel + 1 -> heap_inv h ->
    exists h' r, root_loop fuel cb h = Some (h', r) /\ heap_inv h' /\ hsize h' = hsize h /\
      hlen h' <= hlen h /\
      (forall e, In_heap h' e -> In_heap h e) /\
      (forall e, In_heap h e -> In_heap h' e \/ cb e = true) /\
      ((hlen h' <= 1 /\ r = sentinel) \/
       (1 < hlen h' /\ cget (entries h') 1 = Some r /\ cb r = false)).
  Proof.
    intros cb. induction fuel as [|f IH]; intros h Hf Hinv.
    - cbn [Heap.root_loop]. destruct (Nat.ltb_spec 1 (hlen h)); [lia|].
      exists h, sentinel. split; [reflexivity|]. split; [exact Hinv|]. split; [reflexivity|]. split; [lia|]. split; [auto|]. split; [auto|]. left; split; [lia|reflexivity].
    - cbn [Heap.root_loop]. destruct (Nat.ltb_spec 1 (hlen h)) as [L|L].
      2:{ exists h, sentinel. split; [reflexivity|]. split; [exact Hinv|]. split; [reflexivity|]. split; [lia|]. split; [auto|]. split; [auto|]. left; split; [lia|reflexivity]. }
      destruct h as [es len size]. unfold heap_inv in Hinv. cbn [entries hlen hsize] in *.
      destruct Hinv as (Hl & [(H0 & _)|(H1 & H2 & H3 & H4 & H5)]); [lia|].
      destruct (H4 1 ltac:(lia)) as (e1 & He1 & Hg1 & Hhd1).
      rewrite He1. cbn [obind].
      destruct (cb e1) eqn:Ecb.
      2:{ exists (mkHeap es len size), e1. split; [reflexivity|].
          split; [split; [exact Hl|right; auto]|]. split; [reflexivity|]. split; [cbn; lia|].
          split; [auto|]. split; [auto|]. right. cbn [entries hlen]. auto. }
      destruct (H4 (len - 1) ltac:(lia)) as (el & Hel & Hgl & Hhdl).
      rewrite Hel. cbn [obind].
      destruct (cset_some es 1 el ltac:(lia)) as (es1 & Hset). rewrite Hset. cbn [obind].
      destruct (cset_inv _ _ _ _ Hset) as (_ & Hlen1 & G).
      assert (G1 : cget es1 1 = Some el) by (rewrite G; reflexivity).
      assert (Gne : forall j, j <> 1 -> cget es1 j = cget es j).
      { intros j Hj. rewrite G. destruct (Nat.eqb_spec j 1); [contradiction|reflexivity]. }
      assert (Hstep : exists es2, bubble_down (len - 1) es1 (len - 1) 1 = Some es2 /\
                 heap_inv (mkHeap es2 (len - 1) size) /\
                 (forall e, In_cells es2 (len - 1) e -> In_cells es len e) /\
                 (forall e, In_cells es len e -> In_cells es2 (len - 1) e \/ cb e = true)).
      { destruct (Nat.eq_dec (len - 1) 1) as [E1|E1].
        - rewrite E1. rewrite bubble_down_exit. exists es1. split; [reflexivity|].
          split.
          { split; cbn [entries hlen hsize]; [congruence|]. right.
            split; [lia|]. split; [lia|]. split; [rewrite Gne by lia; exact H3|].
            split; [intros i Hi; lia|]. intros i e p Hi; lia. }
          split.
          + intros e (i & Hi & _). lia.
          + intros e (i & Hi & Hge). assert (i = 1) by lia. subst i.
            rewrite He1 in Hge. inversion Hge; subst e. auto.
        - assert (B : BD (len - 1) 1 el es1 1).
          { constructor.
            - lia.
            - lia.
            - rewrite Gne by lia. exact Hel.
            - intros i Hi. destruct (Nat.eq_dec i 1) as [->|Hi1].
              + exists el. auto.
              + unfold cell_ok. rewrite Gne by auto. apply H4. lia.
            - intros i e p Hi Hlo Hne Hne2 Hge Hgp.
              rewrite Gne in Hge, Hgp by auto. apply (H5 i e p); auto; lia.
            - left; reflexivity.
            - left; reflexivity. }
          destruct (bubble_down_spec (len - 1) 1 el Hgl Hhdl (len - 1) es1 1 ltac:(lia) B)
            as (es2 & Hrun & Hlen2 & Hx2 & Hfr2 & Hok2 & Hord2 & Hmem2).
          exists es2. split; [exact Hrun|].
          assert (H02 : cget es2 0 = Some sentinel).
          { rewrite Hfr2 by lia. rewrite Gne by lia. exact H3. }
          split.
          { split; cbn [entries hlen hsize]; [congruence|]. right.
            split; [lia|]. split; [lia|]. split; [exact H02|]. split; [exact Hok2|].
            apply ordered_from_0; auto. }
          split.
          + intros e He. apply Hmem2 in He. destruct He as [->|(i & Hi & Hne & Hge)].
            * exists (len - 1). split; [lia|exact Hel].
            * rewrite Gne in Hge by auto. exists i. split; [lia|exact Hge].
          + intros e (i & Hi & Hge).
            destruct (Nat.eq_dec i 1) as [->|Hi1].
            * rewrite He1 in Hge. inversion Hge; subst e. auto.
            * left. apply Hmem2. destruct (Nat.eq_dec i (len - 1)) as [->|Hil].
              -- left. congruence.
              -- right. exists i. rewrite Gne by auto. repeat split; auto; lia. }
      destruct Hstep as (es2 & Hrun & Hinv2 & Hsub & Hsup).
      rewrite Hrun. cbn [obind].
      destruct (IH (mkHeap es2 (len - 1) size) ltac:(cbn; lia) Hinv2)
        as (h' & r & Hrun' & Hinv' & Hsz' & Hlen' & Hsub' & Hsup' & Hres).
      exists h', r. split; [exact Hrun'|]. split; [exact Hinv'|]. split; [exact Hsz'|].
      cbn [hlen] in *. split; [lia|].
      split; [intros e He; apply Hsub, Hsub'; exact He|].
      split; [|exact Hres].
      intros e He. destruct (Hsup e He) as [H|H]; [|auto]. apply Hsup'. exact H.
  Qed.

  Theorem root_spec : forall cb h, heap_inv h ->
    exists h' r, root cb h = Some (h', r) /\ heap_inv h' /\ hsize h' = hsize h /\
      (forall e, In_heap h' e -> In_heap h e) /\
      (forall e, In_heap h e -> cb e = false -> In_heap h' e) /\
      (((forall e, In_heap h e -> cb e = true) /\ r = sentinel) \/
       (In_heap h r /\ cb r = false /\ ehd r <> None /\
        forall e, In_heap h e -> cb e = false -> le (ekey r) (ekey e))).
  Proof.
    intros cb h Hinv. unfold Heap.root.
    destruct (root_loop_spec cb (hlen h) h ltac:(lia) Hinv)
      as (h' & r & Hrun & Hinv' & Hsz & Hlen & Hsub & Hsup & Hres).
    exists h', r. split; [exact Hrun|]. split; [exact Hinv'|]. split; [exact Hsz|].
    split; [exact Hsub|].
    assert (Hkeep : forall e, In_heap h e -> cb e = false -> In_heap h' e).
    { intros e He Hcb. destruct (Hsup e He) as [H|H]; [exact H|congruence]. }
    split; [exact Hkeep|].
    destruct Hres as [(Hl & ->)|(Hl & Hr & Hcb)].
    - left. split; [|reflexivity]. intros e He. destruct (Hsup e He) as [(i & Hi & _)|H]; [lia|exact H].
    - right. destruct Hinv' as (_ & [(H0 & _)|(H1 & H2 & H3 & H4 & H5)]); [lia|].
      assert (Hin : In_heap h' r) by (exists 1; split; [lia|exact Hr]).
      split; [apply Hsub; exact Hin|]. split; [exact Hcb|].
      split.
      { destruct (H4 1 ltac:(lia)) as (r' & Hr' & _ & Hhd). rewrite Hr in Hr'. inversion Hr'; subst r'. exact Hhd. }
      intros e He Hcbe. destruct (Hkeep e He Hcbe) as (i & Hi & Hge).
      apply (root_le_all (entries h') (hlen h') r H5 H4 Hr i e Hi Hge).
  Qed.

  (** ** delete_events *)
  Lemma hd_eqb_spec : forall (a : option N) (hd : N), hd_eqb a (Some hd) = true <-> a = Some hd.
  Proof.
    intros [x|] hd; cbn; split; intros H; try discriminate.
    - apply N.eqb_eq in H. congruence.
    - inversion H. apply N.eqb_refl.
  Qed.

  Lemma del_loop_spec : forall hd fuel es len ci, len <= fuel + ci -> 1 <= ci <= len -> len < length es ->
    (forall i, 1 <= i < len -> cell_ok es i) ->
    (forall i e, 1 <= i < ci -> cget es i = Some e -> ehd e <> Some hd) ->
    exists es' len', del_loop fuel es len ci hd = Some (es', len') /\ 1 <= len' <= len /\
      length es' = length es /\ cget es' 0 = cget es 0 /\
      (forall i, 1 <= i < len' -> cell_ok es' i) /\
      (forall e, In_cells es' len' e <-> In_cells es len e /\ ehd e <> Some hd).
  Proof.
    intros hd. induction fuel as [|f IH]; intros es len ci Hf Hci Hlen Hok Hpre.
    - assert (ci = len) by lia. subst ci. cbn [Heap.del_loop]. rewrite Nat.ltb_irrefl.
      exists es, len. split; [reflexivity|]. split; [lia|]. split; [reflexivity|]. split; [reflexivity|].
      split; [exact Hok|]. intros e. split.
      + intros (i & Hi & Hge). split; [exists i; auto|]. apply (Hpre i e); auto.
      + intros (H & _); exact H.
    - cbn [Heap.del_loop]. destruct (Nat.ltb_spec ci len) as [L|L].
      2:{ assert (ci = len) by lia. subst ci.
          exists es, len. split; [reflexivity|]. split; [lia|]. split; [reflexivity|]. split; [reflexivity|].
          split; [exact Hok|]. intros e. split.
          + intros (i & Hi & Hge). split; [exists i; auto|]. apply (Hpre i e); auto.
          + intros (H & _); exact H. }
      destruct (Hok ci ltac:(lia)) as (e0 & He0 & _).
      rewrite He0. cbn [obind].
      destruct (hd_eqb (ehd e0) (Some hd)) eqn:Ehd.
      + apply hd_eqb_spec in Ehd.
        destruct (Hok (len - 1) ltac:(lia)) as (el & Hel & Hgl & Hhdl).
        rewrite Hel. cbn [obind].
        destruct (cset_some es ci el ltac:(lia)) as (es1 & Hset). rewrite Hset. cbn [obind].
        destruct (cset_inv _ _ _ _ Hset) as (_ & Hlen1 & G).
        assert (Gci : cget es1 ci = Some el) by (rewrite G, Nat.eqb_refl; reflexivity).
        assert (Gne : forall j, j <> ci -> cget es1 j = cget es j).
        { intros j Hj. rewrite G. destruct (Nat.eqb_spec j ci); [contradiction|reflexivity]. }
        destruct (IH es1 (len - 1) ci ltac:(lia) ltac:(lia) ltac:(lia)) as (es' & len' & Hrun & Hl' & Hlen' & H0' & Hok' & Hmem').
        { intros i Hi. destruct (Nat.eq_dec i ci) as [->|Hic].
          - exists el. auto.
          - unfold cell_ok. rewrite Gne by auto. apply Hok. lia. }
        { intros i e Hi Hge. rewrite Gne in Hge by lia. apply (Hpre i e); auto. }
        exists es', len'. split; [exact Hrun|]. split; [lia|]. split; [congruence|].
        split; [rewrite H0'; apply Gne; lia|]. split; [exact Hok'|].
        intros e. rewrite Hmem'. split.
        * intros ((i & Hi & Hge) & Hne). split; [|exact Hne].
          destruct (Nat.eq_dec i ci) as [->|Hic].
          -- rewrite Gci in Hge. inversion Hge; subst e. exists (len - 1). split; [lia|exact Hel].
          -- rewrite Gne in Hge by auto. exists i. split; [lia|exact Hge].
        * intros ((i & Hi & Hge) & Hne). split; [|exact Hne].
          destruct (Nat.eq_dec i ci) as [->|Hic].
          -- rewrite He0 in Hge. inversion Hge; subst e. contradiction.
          -- destruct (Nat.eq_dec i (len - 1)) as [->|Hil].
             ++ exists ci. split; [lia|]. rewrite Gci. congruence.
             ++ exists i. split; [lia|]. rewrite Gne by auto. exact Hge.
      + destruct (IH es len (S ci) ltac:(lia) ltac:(lia) Hlen Hok) as (es' & len' & Hrun & Hrest).
        { intros i e Hi Hge. destruct (Nat.eq_dec i ci) as [->|Hic].
          - rewrite He0 in Hge. inversion Hge; subst e. intros E. apply hd_eqb_spec in E. congruence.
          - apply (Hpre i e); auto. lia. }
        exists es', len'. split; [exact Hrun|exact Hrest].
  Qed.

  Lemma heapify_spec : forall idx es len, 2 * idx < len + 1 -> idx < len -> len < length es ->
    (forall i, 1 <= i < len -> cell_ok es i) -> ordered_from (S idx) es len ->
    exists es', heapify idx es len = Some es' /\ length es' = length es /\ cget es' 0 = cget es 0 /\
      (forall i, 1 <= i < len -> cell_ok es' i) /\ ordered_from 1 es' len /\
      (forall e, In_cells es' len e <-> In_cells es len e).
  Proof.
    induction idx as [|i IH]; intros es len H2 Hil Hlen Hok Hord.
    - exists es. cbn [Heap.heapify]. split; [reflexivity|]. split; [reflexivity|]. split; [reflexivity|].
      split; [exact Hok|]. split; [exact Hord|]. intros e; reflexivity.
    - cbn [Heap.heapify].
      destruct (Hok (S i) ltac:(lia)) as (e0 & He0 & Hg0 & Hhd0).
      rewrite He0. cbn [obind].
      destruct (cset_some es len e0 Hlen) as (es1 & Hset). rewrite Hset. cbn [obind].
      destruct (cset_inv _ _ _ _ Hset) as (_ & Hlen1 & G).
      assert (Gl : cget es1 len = Some e0) by (rewrite G, Nat.eqb_refl; reflexivity).
      assert (Gne : forall j, j <> len -> cget es1 j = cget es j).
      { intros j Hj. rewrite G. destruct (Nat.eqb_spec j len); [contradiction|reflexivity]. }
      assert (B : BD len (S i) e0 es1 (S i)).
      { constructor.
        - lia.
        - lia.
        - exact Gl.
        - intros j Hj. unfold cell_ok. rewrite Gne by lia. apply Hok; auto.
        - intros j e p Hj Hlo Hne Hne2 Hge Hgp.
          pose proof (div2_lt j ltac:(lia)).
          rewrite Gne in Hge, Hgp by lia. apply (Hord j e p); auto. lia.
        - left; reflexivity.
        - left; reflexivity. }
      destruct (bubble_down_spec len (S i) e0 Hg0 Hhd0 len es1 (S i) ltac:(lia) B)
        as (es2 & Hrun & Hlen2 & Hx2 & Hfr2 & Hok2 & Hord2 & Hmem2).
      rewrite Hrun. cbn [obind].
      destruct (IH es2 len ltac:(lia) ltac:(lia) ltac:(lia) Hok2 Hord2)
        as (es' & Hrun' & Hlen' & H0' & Hok' & Hord' & Hmem').
      exists es'. split; [exact Hrun'|]. split; [congruence|].
      split; [rewrite H0', Hfr2 by lia; apply Gne; lia|].
      split; [exact Hok'|]. split; [exact Hord'|].
      intros e. rewrite Hmem', Hmem2. split.
      + intros [->|(j & Hj & Hne & Hge)].
        * exists (S i). split; [lia|exact He0].
        * rewrite Gne in Hge by lia. exists j; auto.
      + intros (j & Hj & Hge). destruct (Nat.eq_dec j (S i)) as [->|Hji].
        * left. congruence.
        * right. exists j. rewrite Gne by lia. auto.
  Qed.

  Theorem delete_events_spec : forall h hd, heap_inv h ->
    exists h', delete_events h hd = Some h' /\ heap_inv h' /\ hsize h' = hsize h /\
      (forall e, In_heap h' e <-> In_heap h e /\ ehd e <> Some hd).
  Proof.
    intros [es len size] hd Hinv. unfold heap_inv in Hinv. cbn [entries hlen hsize] in Hinv.
    unfold Heap.delete_events. cbn [entries hlen hsize].
    destruct Hinv as (Hl & [(H0 & Hs0)|(H1 & H2 & H3 & H4 & H5)]).
    - subst len. cbn [Heap.del_loop]. change (1 <? 0) with false. cbv iota. cbn [obind].
      change (0 / 2) with 0. cbn [Heap.heapify obind].
      eexists. split; [reflexivity|]. split.
      { split; cbn [entries hlen hsize]; auto. }
      split; [reflexivity|]. intros e. unfold In_heap, In_cells. cbn [entries hlen]. split.
      + intros (i & Hi & _); lia.
      + intros ((i & Hi & _) & _); lia.
    - destruct (del_loop_spec hd len es len 1 ltac:(lia) ltac:(lia) ltac:(lia) H4)
        as (es1 & len1 & Hrun & Hl1 & Hlen1 & H01 & Hok1 & Hmem1).
      { intros i e Hi; lia. }
      rewrite Hrun. cbn [obind].
      assert (Hdiv : 2 * (len1 / 2) <= len1).
      { pose proof (Nat.div_mod len1 2 ltac:(lia)). lia. }
      assert (Hdl : len1 / 2 < len1) by (apply div2_lt; lia).
      destruct (heapify_spec (len1 / 2) es1 len1 ltac:(lia) Hdl ltac:(lia) Hok1)
        as (es2 & Hrun2 & Hlen2 & H02 & Hok2 & Hord2 & Hmem2).
      { intros i e p Hi Hlo Hge Hgp.
        pose proof (Nat.div_mod i 2 ltac:(lia)) as Di.
        pose proof (Nat.div_mod len1 2 ltac:(lia)) as D.
        pose proof (Nat.mod_upper_bound len1 2 ltac:(lia)). lia. }
      rewrite Hrun2. cbn [obind].
      eexists. split; [reflexivity|].
      assert (H0f : cget es2 0 = Some sentinel) by congruence.
      split.
      { split; cbn [entries hlen hsize]; [congruence|]. right.
        split; [lia|]. split; [lia|]. split; [exact H0f|]. split; [exact Hok2|].
        apply ordered_from_0; auto. }
      split; [reflexivity|].
      intros e. unfold In_heap. cbn [entries hlen]. rewrite Hmem2, Hmem1. reflexivity.
  Qed.

  (** ** entry *)
  Lemma entry_at_spec : forall h index, heap_inv h ->
    (index + 1 < hlen h /\ exists e, entry_at bot h index = Some e /\ cget (entries h) (index + 1) = Some e /\
                                     ehd e <> None /\ good (ekey e)) \/
    (hlen h <= index + 1 /\ entry_at bot h index = Some sentinel).
  Proof.
    intros h index Hinv. unfold Heap.entry_at.
    destruct (Nat.ltb_spec (index + 1) (hlen h)) as [L|L]; [left|right; auto].
    split; [exact L|].
    destruct Hinv as (_ & [(H0 & _)|(H1 & H2 & H3 & H4 & H5)]); [lia|].
    destruct (H4 (index + 1) ltac:(lia)) as (e & He & Hg & Hhd). exists e. auto.
  Qed.

  Lemma empty_heap_inv : heap_inv (@empty_heap K).
  Proof. split; cbn; auto. Qed.

  (** ** insertion of a key that is not smaller than its parent: plain append (used for pickling) *)
  Lemma insert_prep_frame : forall h, heap_inv h ->
    forall es len size pos, insert_prep h = Some (es, len, size, pos) ->
      pos = (if hlen h =? 0 then 1 else hlen h) /\
      forall i, 1 <= i < pos -> cget es i = cget (entries h) i.
  Proof.
    intros [es0 len0 size0] (Hl & Hinv) es len size pos. cbn [entries hlen hsize] in *.
    unfold insert_prep. cbn [entries hlen hsize].
    destruct Hinv as [(H0 & H1)|(H1 & H2 & H3 & H4 & H5)].
    - subst len0. rewrite H1 in *. change (0 <? 1 + 1) with true. change (0 =? 0) with true. cbv beta iota zeta.
      destruct (cset _ 0 sentinel); cbn [obind]; intros E; [|discriminate E].
      inversion E; subst. split; [reflexivity|]. intros i Hi; lia.
    - destruct (Nat.eqb_spec len0 0) as [E0|E0]; [lia|].
      destruct (size0 <? S len0 + 1) eqn:Eg.
      + destruct (Nat.eqb_spec size0 0) as [E1|E1]; [lia|].
        intros E; inversion E; subst. split; [reflexivity|].
        intros i Hi. apply cget_app_l. lia.
      + intros E; inversion E; subst. split; [reflexivity|]. auto.
  Qed.

  Lemma bubble_up_stop : forall f es pos k pe, cget es (pos / 2) = Some pe -> ltb k (ekey pe) = false ->
    bubble_up (S f) es pos k = Some (es, pos).
  Proof. intros f es pos k pe H1 H2. cbn [Heap.bubble_up]. rewrite H1. cbn [obind]. rewrite H2. reflexivity. Qed.

  Lemma insert_append : forall h k hd c, heap_inv h -> good k ->
    (forall pe, 2 <= hlen h -> cget (entries h) (hlen h / 2) = Some pe -> le (ekey pe) k) ->
    let pos := if hlen h =? 0 then 1 else hlen h in
    exists h', insert h k hd c = Some h' /\ heap_inv h' /\ hlen h' = S pos /\
      (forall i, 1 <= i < pos -> cget (entries h') i = cget (entries h) i) /\
      cget (entries h') pos = Some (mkE k (Some hd) c).
  Proof.
    intros h k hd c Hinv Hk Hpar pos.
    destruct (insert_spec h k hd c Hinv Hk) as (h' & Hins & Hinv' & _).
    exists h'. split; [exact Hins|]. split; [exact Hinv'|].
    destruct (insert_prep_spec h Hinv) as (es & p & size & Hprep & P1 & P2 & P3 & P4 & P5 & P6 & P7 & P8).
    destruct (insert_prep_frame h Hinv _ _ _ _ Hprep) as (Hp & Hfr). fold pos in Hp. subst p.
    rewrite insert_unfold, Hprep in Hins. cbn [obind] in Hins.
    assert (Hpe : exists pe, cget es (pos / 2) = Some pe /\ ltb k (ekey pe) = false).
    { destruct (Nat.eq_dec (pos / 2) 0) as [E|E].
      - rewrite E. exists sentinel. split; [exact P5|]. apply bot_least.
      - assert (Hlt : pos / 2 < pos) by (apply div2_lt; lia).
        destruct (P6 (pos / 2) ltac:(lia)) as (pe & Hpe & _).
        exists pe. split; [exact Hpe|].
        assert (Hh : pos = hlen h /\ 2 <= hlen h).
        { unfold pos in *. destruct (hlen h =? 0); [cbn in E; congruence|]. split; [reflexivity|].
          destruct (hlen h) as [|[|n]]; cbn in E; try congruence; lia. }
        destruct Hh as (Hh1 & Hh2). apply (Hpar pe Hh2). rewrite <- Hh1. rewrite <- Hfr by lia. exact Hpe. }
    destruct Hpe as (pe & Hpe & Hstop).
    rewrite (bubble_up_stop pos es pos k pe Hpe Hstop) in Hins. cbn [obind] in Hins.
    destruct (cset es pos (mkE k (Some hd) c)) as [es3|] eqn:Hset; cbn [obind] in Hins; [|discriminate].
    inversion Hins; subst h'. cbn [hlen entries].
    destruct (cset_inv _ _ _ _ Hset) as (_ & _ & G).
    split; [reflexivity|]. split.
    - intros i Hi. rewrite G. destruct (Nat.eqb_spec i pos); [lia|]. apply Hfr; auto.
    - rewrite G, Nat.eqb_refl. reflexivity.
  Qed.

End HeapProofs.
