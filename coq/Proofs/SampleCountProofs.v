(** * Proofs/SampleCountProofs.v — the number of samples of an accepted run (C17). *)
From Coq Require Import ZArith List Bool Lia.
Require Import JF.Base.F64 JF.Model.Time JF.Model.Kinematics JF.Model.Sampling JF.Model.SampleCount.
Import ListNotations.

Lemma nth_time_shift t dt k : nth_time (time_add t dt) dt k = nth_time t dt (S k).
Proof.
  induction k as [|k IH]; [reflexivity|].
  cbn [nth_time] in *. rewrite IH. reflexivity.
Qed.

Lemma count_samples_cons l legs :
  count_samples (l :: legs) = if Nat.eqb (fst l) 1 then S (count_samples legs) else count_samples legs.
Proof. unfold count_samples. cbn [filter]. destruct (Nat.eqb (fst l) 1); reflexivity. Qed.

(** every sample that was written was due no later than the end of the run *)
Lemma samples_before_end dt e legs : forall t,
  count_ok dt e t legs = true ->
  forall k, (1 <= k <= count_samples legs)%nat -> time_le (nth_time t dt k) e = true.
Proof.
  induction legs as [|[kd T] rest IH]; intros t H k Hk.
  - unfold count_samples in Hk. cbn in Hk. lia.
  - rewrite count_samples_cons in Hk. cbn [fst] in Hk.
    cbn [count_ok] in H.
    destruct kd as [|[|[|kd]]]; cbn [Nat.eqb] in Hk.
    + apply andb_prop in H. destruct H as [_ H]. apply IH; assumption.
    + apply andb_prop in H. destruct H as [H H3]. apply andb_prop in H. destruct H as [_ H2].
      destruct (Nat.eq_dec k 1) as [->|Hne].
      * cbn [nth_time]. exact H2.
      * destruct k as [|k]; [lia|].
        rewrite <- nth_time_shift. apply IH; [exact H3|lia].
    + apply andb_prop in H. destruct H as [_ H]. destruct rest; [|discriminate].
      unfold count_samples in Hk. cbn in Hk. lia.
    + apply andb_prop in H. destruct H as [_ H]. apply IH; assumption.
Qed.

(** when the end of the run is committed, the next sample was not due before it *)
Lemma next_sample_not_before_end dt e pre : forall t T,
  count_ok dt e t (pre ++ [(2%nat, T)]) = true ->
  time_le e (nth_time t dt (S (count_samples pre))) = true.
Proof.
  induction pre as [|[kd T0] rest IH]; intros t T H.
  - cbn [app count_ok] in H. unfold count_samples. cbn [filter length nth_time].
    apply andb_prop in H. destruct H as [H _]. apply andb_prop in H. destruct H as [_ H]. exact H.
  - rewrite count_samples_cons. cbn [fst].
    change ((kd, T0) :: rest) with ([(kd, T0)] ++ rest) in H. rewrite <- app_assoc in H.
    cbn [app count_ok] in H.
    destruct kd as [|[|[|kd]]]; cbn [Nat.eqb].
    + apply andb_prop in H. destruct H as [_ H]. eapply IH; exact H.
    + apply andb_prop in H. destruct H as [_ H]. rewrite <- nth_time_shift. eapply IH; exact H.
    + apply andb_prop in H. destruct H as [_ H]. destruct rest; discriminate.
    + apply andb_prop in H. destruct H as [_ H]. eapply IH; exact H.
Qed.

Lemma accepted_sample_count (c : ncase) :
  check_ncase c = true ->
  (forall k, (1 <= k <= count_samples (n_legs c))%nat ->
     time_le (nth_time (ft (n_t0 c)) (n_dt c) k) (from_float (n_end c)) = true) /\
  (forall pre T, n_legs c = pre ++ [(2%nat, T)] ->
     time_le (from_float (n_end c)) (nth_time (ft (n_t0 c)) (n_dt c) (S (count_samples pre))) = true).
Proof.
  unfold check_ncase. intros H. split.
  - apply samples_before_end. exact H.
  - intros pre T E. rewrite E in H. eapply next_sample_not_before_end. exact H.
Qed.

(** The same over the reals: the samples written are exactly those whose (rounded) nominal time
    [value (nth_time k)] is at most the configured end time, up to a tie at exactly the end time. *)
From Coq Require Import Reals.
From Flocq Require Import Core.Core IEEE754.BinarySingleNaN.
Require Import JF.Proofs.F64Facts JF.Proofs.TimeProofs JF.Proofs.SamplingProofs.

Lemma accepted_sample_count_real (c : ncase) :
  check_ncase c = true ->
  normalised (ft (n_t0 c)) -> ffinite (n_dt c) = true -> (0 <= B2R (n_dt c))%R ->
  ffinite (n_end c) = true -> (0 <= B2R (n_end c))%R ->
  (forall j, side (nth_time (ft (n_t0 c)) (n_dt c) j) (n_dt c)) ->
  (forall k, (1 <= k <= count_samples (n_legs c))%nat ->
     (value (nth_time (ft (n_t0 c)) (n_dt c) k) <= B2R (n_end c))%R) /\
  (forall pre T, n_legs c = pre ++ [(2%nat, T)] ->
     (B2R (n_end c) <= value (nth_time (ft (n_t0 c)) (n_dt c) (S (count_samples pre))))%R).
Proof.
  intros H Hn Hf Hd He He0 Hside.
  destruct (accepted_sample_count c H) as [A B].
  destruct (from_float_exact (n_end c) He He0) as [Ve Ne].
  assert (Nk : forall k, normalised (nth_time (ft (n_t0 c)) (n_dt c) k)).
  { intro k. apply (nth_time_error (ft (n_t0 c)) (n_dt c) k Hn Hf Hd). intros j _. apply Hside. }
  split.
  - intros k Hk. specialize (A k Hk). rewrite time_le_exact in A by (try apply Nk; exact Ne).
    apply Rle_bool_true_inv in A. rewrite Ve in A. exact A.
  - intros pre T E. specialize (B pre T E). rewrite time_le_exact in B by (try apply Nk; exact Ne).
    apply Rle_bool_true_inv in B. rewrite Ve in B. exact B.
Qed.
