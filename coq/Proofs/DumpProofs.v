(** * Proofs/DumpProofs.v — C19: a run continued with an observationally equivalent scheduler commits
    the same events; comparison functions are equalities. *)
From Coq Require Import List Bool Arith ZArith.
Require Import JF.Base.F64 JF.Model.Kinematics JF.Model.Dump.
Import ListNotations.

Section Resume.
  Variables R Sc H T E : Type.
  Variable push : Sc -> T -> H -> Sc.
  Variable trash : Sc -> H -> Sc.
  Variable get : Sc -> option H.
  Variable produce : R -> list (T * H) * R.
  Variable commit : R -> H -> option (E * R * list H).
  Variable eqv : Sc -> Sc -> Prop.
  Hypothesis Hb : bisim Sc H T push trash get eqv.

  Lemma push_all_eqv l : forall s s', eqv s s' -> eqv (push_all Sc H T push s l) (push_all Sc H T push s' l).
  Proof.
    unfold push_all. induction l as [|c l IH]; intros s s' He; simpl; [exact He|].
    apply IH. apply (b_push _ _ _ _ _ _ _ Hb). exact He.
  Qed.

  Lemma trash_all_eqv l : forall s s', eqv s s' -> eqv (trash_all Sc H trash s l) (trash_all Sc H trash s' l).
  Proof.
    unfold trash_all. induction l as [|h l IH]; intros s s' He; simpl; [exact He|].
    apply IH. apply (b_trash _ _ _ _ _ _ _ Hb). exact He.
  Qed.

  (** one leg from equivalent schedulers: same observed event, same rest-state, equivalent schedulers *)
  Lemma leg_eqv r s s' : eqv s s' ->
    match leg R Sc H T E push trash get produce commit (r, s), leg R Sc H T E push trash get produce commit (r, s') with
    | Some (e, (r1, s1)), Some (e', (r1', s1')) => e = e' /\ r1 = r1' /\ eqv s1 s1'
    | None, None => True
    | _, _ => False
    end.
  Proof.
    intro He. unfold leg. simpl. destruct (produce r) as [cands r1].
    pose proof (push_all_eqv cands s s' He) as Hp.
    rewrite (b_get _ _ _ _ _ _ _ Hb _ _ Hp).
    destruct (get (push_all Sc H T push s' cands)) as [h|]; [|exact I].
    destruct (commit r1 h) as [[[e r2] tr]|]; [|exact I].
    repeat split. apply trash_all_eqv. exact Hp.
  Qed.

  (** the resumed run (equivalent scheduler, identical rest) commits exactly the same events,
      for any number of legs *)
  Theorem run_eqv n : forall r s s', eqv s s' ->
    run R Sc H T E push trash get produce commit n (r, s) = run R Sc H T E push trash get produce commit n (r, s').
  Proof.
    induction n as [|n IH]; intros r s s' He; simpl; [reflexivity|].
    pose proof (leg_eqv r s s' He) as Hl.
    destruct (leg R Sc H T E push trash get produce commit (r, s)) as [[e [r1 s1]]|],
             (leg R Sc H T E push trash get produce commit (r, s')) as [[e' [r1' s1']]|]; try contradiction; auto.
    destruct Hl as (-> & -> & He1). f_equal. apply IH. exact He1.
  Qed.
End Resume.

(** ** The comparison of recorded legs is bit-level equality. *)
Lemma feqb_bits_refl x : feqb_bits x x = true.
Proof.
  unfold feqb_bits. destruct x as [s|s| |s m e Hb]; simpl; try apply eqb_reflx; auto.
  rewrite eqb_reflx, Pos.eqb_refl, Z.eqb_refl. reflexivity.
Qed.

Lemma klegs_eqb_length a : forall b, klegs_eqb a b = true -> length a = length b.
Proof.
  induction a as [|x a IH]; intros [|y b] H; simpl in *; try discriminate; auto.
  apply andb_true_iff in H as [_ H]. f_equal. apply IH. exact H.
Qed.

Lemma klegs_eqb_nth a : forall b i x y, klegs_eqb a b = true ->
  nth_error a i = Some x -> nth_error b i = Some y -> kleg_eqb x y = true.
Proof.
  induction a as [|x0 a IH]; intros [|y0 b] i x y H Hx Hy; destruct i; simpl in *; try discriminate.
  - inversion Hx; inversion Hy; subst. apply andb_true_iff in H. apply H.
  - apply andb_true_iff in H as [_ H]. eapply IH; eauto.
Qed.
