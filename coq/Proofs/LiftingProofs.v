(** * Proofs/LiftingProofs.v — lemmas about Model/Lifting.v (C05). *)
From Coq Require Import QArith Lqa List Bool ZArith Lia.
Require Import JF.Base.QInterval JF.Model.Lifting.
Import ListNotations.
Open Scope Q_scope.

(** ** comparisons *)
Lemma Qlt_bool_iff a b : Qlt_bool a b = true <-> a < b.
Proof.
  unfold Qlt_bool. rewrite negb_true_iff. split; intros H.
  - apply Qnot_le_lt. intro L. apply Qle_bool_iff in L. congruence.
  - destruct (Qle_bool b a) eqn:E; auto. apply Qle_bool_iff in E. lra.
Qed.

Lemma Qlt_bool_false a b : Qlt_bool a b = false <-> b <= a.
Proof.
  unfold Qlt_bool. rewrite negb_false_iff. apply Qle_bool_iff.
Qed.

Lemma Qle_bool_false a b : Qle_bool a b = false <-> b < a.
Proof.
  split; intros H.
  - apply Qnot_le_lt. intro L. apply Qle_bool_iff in L. congruence.
  - destruct (Qle_bool a b) eqn:E; auto. apply Qle_bool_iff in E. lra.
Qed.

Lemma mul_le_one u q : 0 <= q -> u <= 1 -> u * q <= q.
Proof.
  intros Hq Hu. assert (0 <= (1 - u) * q) by (apply Qmult_le_0_compat; lra). lra.
Qed.

Lemma mul_lt_one u q : 0 < q -> u < 1 -> u * q < q.
Proof.
  intros Hq Hu. assert (0 < (1 - u) * q) by (apply Qmult_lt_0_compat; lra). lra.
Qed.

(** ** tables without the activity flag ([utable], [activate]: see Model/Lifting.v) *)
Definition rates (t : utable) : list Q := map fst t.
Definition rate_at (a : nat) (t : utable) : Q := nth a (rates t) 0.
(** positive part of a rate: the outflow of the unit when it is active *)
Definition weight (r : Q) : Q := if Qlt_bool 0 r then r else 0.

(** magnitudes / identifiers of the non-positive entries, in insertion order *)
Fixpoint negs (t : utable) : list Q :=
  match t with
  | [] => []
  | e :: t' => if Qlt_bool 0 (fst e) then negs t' else (- fst e) :: negs t'
  end.
Fixpoint neg_ids (t : utable) : list Z :=
  match t with
  | [] => []
  | e :: t' => if Qlt_bool 0 (fst e) then neg_ids t' else snd e :: neg_ids t'
  end.

Definition possum (t : utable) : Q := qsum (map (fun e => weight (fst e)) t).
Definition pos_before (a : nat) (t : utable) : Q := possum (firstn a t).
Definition S_neg (t : utable) : Q := qsum (negs t).
Definition cum (l : list Q) (j : nat) : Q := qsum (firstn j l).
Definition nonneg_list (l : list Q) : Prop := forall x, In x l -> 0 <= x.

Lemma weight_nonneg r : 0 <= weight r.
Proof. unfold weight. destruct (Qlt_bool 0 r) eqn:E. apply Qlt_bool_iff in E. lra. lra. Qed.

Lemma weight_pos r : 0 < r -> weight r = r.
Proof. intros H. unfold weight. apply Qlt_bool_iff in H. rewrite H. reflexivity. Qed.

Lemma weight_nonpos r : r <= 0 -> weight r = 0.
Proof. intros H. unfold weight. apply Qlt_bool_false in H. rewrite H. reflexivity. Qed.

Lemma possum_nonneg t : 0 <= possum t.
Proof.
  unfold possum. apply qsum_nonneg. intros x Hx. apply in_map_iff in Hx. destruct Hx as [e [<- _]].
  apply weight_nonneg.
Qed.

Lemma negs_nonneg t : nonneg_list (negs t).
Proof.
  induction t as [|e t IH]; simpl; intros x Hx. contradiction.
  destruct (Qlt_bool 0 (fst e)) eqn:E. apply IH; auto.
  destruct Hx as [<- | Hx]. apply Qlt_bool_false in E. lra. apply IH; auto.
Qed.

Lemma negs_ids_length t : length (neg_ids t) = length (negs t).
Proof.
  induction t as [|e t IH]; simpl; auto. destruct (Qlt_bool 0 (fst e)); simpl; auto.
Qed.

(** positive and negative parts add up to the table's sum *)
Lemma possum_negs t : possum t - S_neg t == qsum (rates t).
Proof.
  unfold possum, S_neg, rates. induction t as [|e t IH]; simpl. lra.
  unfold weight at 1. destruct (Qlt_bool 0 (fst e)) eqn:E; simpl; lra.
Qed.

Lemma pos_before_le a t : (a < length t)%nat -> pos_before a t + weight (rate_at a t) <= possum t.
Proof.
  revert a. unfold pos_before, rate_at, rates, possum.
  induction t as [|e t IH]; intros a Ha; simpl in Ha. lia.
  destruct a; simpl.
  - assert (H := possum_nonneg t). unfold possum in H. lra.
  - assert (H := IH a ltac:(lia)). lra.
Qed.

Lemma pos_before_nonneg a t : 0 <= pos_before a t.
Proof. apply possum_nonneg. Qed.

(** ** filling the table *)
Lemma fill_inactive_rec u t : forall st,
  active_rec st = true ->
  exists st', l_fill u st (inactive t) = Some st' /\
    neg_rates st' = neg_rates st ++ negs t /\ assoc_ids st' = assoc_ids st ++ neg_ids t /\
    rand_pos st' = rand_pos st /\ sum_pos st' == sum_pos st + possum t /\ active_rec st' = true.
Proof.
  induction t as [|e t IH]; intros st Ha; simpl.
  - exists st. rewrite !app_nil_r. unfold possum. simpl. repeat split; auto. lra.
  - unfold l_insert. destruct (Qlt_bool 0 (fst e)) eqn:E.
    + rewrite Ha. simpl.
      edestruct IH as [st' [H1 [H2 [H3 [H4 [H5 H6]]]]]]; [| exists st'; split; [exact H1|]]. simpl; auto.
      simpl in *. repeat split; auto. unfold possum in *. simpl. unfold weight at 1. rewrite E. lra.
    + edestruct IH as [st' [H1 [H2 [H3 [H4 [H5 H6]]]]]]; [| exists st'; split; [exact H1|]]. simpl; auto.
      simpl in *. rewrite <- !app_assoc in *. simpl in *. repeat split; auto.
      unfold possum in *. simpl. unfold weight at 1. rewrite E. lra.
Qed.

Lemma fill_activate u t : forall a st,
  (a < length t)%nat -> 0 < rate_at a t -> active_rec st = false ->
  exists st', l_fill u st (activate a t) = Some st' /\
    neg_rates st' = neg_rates st ++ negs t /\ assoc_ids st' = assoc_ids st ++ neg_ids t /\
    rand_pos st' == rand_pos st + pos_before a t + uniform u 0 (rate_at a t) /\
    sum_pos st' == sum_pos st + possum t /\ active_rec st' = true.
Proof.
  induction t as [|e t IH]; intros a st Hlen Hq Ha; simpl in Hlen. lia.
  destruct a as [|a]; simpl.
  - unfold rate_at, rates in Hq. simpl in Hq. unfold l_insert.
    assert (E : Qlt_bool 0 (fst e) = true) by (apply Qlt_bool_iff; auto). rewrite E.
    edestruct (fill_inactive_rec u t) as [st' [H1 [H2 [H3 [H4 [H5 H6]]]]]];
      [| exists st'; split; [exact H1|]]. simpl; auto.
    simpl in *. repeat split; auto.
    + rewrite H4. unfold pos_before, possum, rate_at, rates. simpl. lra.
    + rewrite H5. unfold possum. simpl. unfold weight at 2. rewrite E. lra.
  - unfold rate_at, rates in Hq. simpl in Hq. unfold l_insert.
    destruct (Qlt_bool 0 (fst e)) eqn:E.
    + rewrite Ha. simpl.
      edestruct (IH a) as [st' [H1 [H2 [H3 [H4 [H5 H6]]]]]];
        [| | | exists st'; split; [exact H1|]]; [lia | exact Hq | simpl; auto |].
      simpl in *. repeat split; auto.
      * rewrite H4. unfold pos_before, possum, rate_at, rates. simpl. unfold weight at 2. rewrite E. lra.
      * rewrite H5. unfold possum. simpl. unfold weight at 2. rewrite E. lra.
    + edestruct (IH a) as [st' [H1 [H2 [H3 [H4 [H5 H6]]]]]];
        [| | | exists st'; split; [exact H1|]]; [lia | exact Hq | simpl; auto |].
      simpl in *. rewrite <- !app_assoc in *. simpl in *. repeat split; auto.
      * rewrite H4. unfold pos_before, possum, rate_at, rates. simpl. unfold weight at 2. rewrite E. lra.
      * rewrite H5. unfold possum. simpl. unfold weight at 2. rewrite E. lra.
Qed.

(** ** cumulative sums *)
Lemma In_firstn {A} (x : A) : forall j l, In x (firstn j l) -> In x l.
Proof.
  induction j; intros l H; simpl in H. contradiction.
  destruct l; simpl in *. contradiction. destruct H; auto.
Qed.

Lemma cum_nonneg l j : nonneg_list l -> 0 <= cum l j.
Proof.
  intros H. apply qsum_nonneg. intros x Hx. apply H. eapply In_firstn; eauto.
Qed.

Lemma cum_cons r l j : cum (r :: l) (S j) = r + cum l j.
Proof. reflexivity. Qed.

Lemma cum_0 l : cum l 0 = 0.
Proof. reflexivity. Qed.

Lemma cum_S l : forall j, (j < length l)%nat -> cum l (S j) == cum l j + nth j l 0.
Proof.
  unfold cum. induction l as [|r l IH]; intros j Hj; simpl in Hj. lia.
  destruct j; simpl. lra. rewrite (IH j) by lia. lra.
Qed.

Lemma cum_all l j : (length l <= j)%nat -> cum l j = qsum l.
Proof. intros. unfold cum. rewrite firstn_all2; auto. Qed.

Lemma cum_le_total l : nonneg_list l -> forall j, cum l j <= qsum l.
Proof.
  unfold cum. induction l as [|r l IH]; intros Hn j.
  - rewrite firstn_nil. simpl. lra.
  - destruct j; simpl.
    + assert (0 <= r) by (apply Hn; simpl; auto).
      assert (0 <= qsum l) by (apply qsum_nonneg; intros; apply Hn; simpl; auto). lra.
    + assert (qsum (firstn j l) <= qsum l) by (apply IH; intros x Hx; apply Hn; simpl; auto). lra.
Qed.

(** ** the cumulative walk *)
Lemma walk_hit : forall l p acc i j,
  nonneg_list l -> (j < length l)%nat -> acc + cum l j < p -> p <= acc + cum l (S j) ->
  walk p acc i l = Some (i + j)%nat.
Proof.
  induction l as [|r l IH]; intros p acc i j Hn Hj H1 H2; simpl in Hj. lia.
  assert (Hn' : nonneg_list l) by (intros x Hx; apply Hn; simpl; auto).
  destruct j; simpl.
  - rewrite cum_cons, cum_0 in H2.
    assert (E : Qle_bool p (acc + r) = true) by (apply Qle_bool_iff; lra). rewrite E.
    f_equal. lia.
  - rewrite cum_cons in H1, H2.
    assert (0 <= cum l j) by (apply cum_nonneg; auto).
    assert (E : Qle_bool p (acc + r) = false) by (apply Qle_bool_false; lra). rewrite E.
    rewrite (IH p (acc + r) (S i) j); auto; try lra; try lia. f_equal. lia.
Qed.

Lemma walk_some : forall l p acc i k,
  nonneg_list l -> walk p acc i l = Some k ->
  exists j, k = (i + j)%nat /\ (j < length l)%nat /\ p <= acc + cum l (S j) /\
            (acc < p -> acc + cum l j < p).
Proof.
  induction l as [|r l IH]; intros p acc i k Hn H; simpl in H. discriminate.
  assert (Hn' : nonneg_list l) by (intros x Hx; apply Hn; simpl; auto).
  destruct (Qle_bool p (acc + r)) eqn:E.
  - inversion H; subst. exists O. rewrite cum_cons, !cum_0. apply Qle_bool_iff in E.
    simpl. repeat split; try lia; try lra.
  - apply Qle_bool_false in E. destruct (IH _ _ _ _ Hn' H) as [j [K1 [K2 [K3 K4]]]].
    exists (S j). rewrite !cum_cons. simpl length. specialize (K4 E).
    repeat split; try lia; try lra.
Qed.

Lemma walk_none : forall l p acc i, walk p acc i l = None -> acc + qsum l < p \/ l = [].
Proof.
  induction l as [|r l IH]; intros p acc i H; simpl in H. right; auto.
  destruct (Qle_bool p (acc + r)) eqn:E. discriminate.
  apply Qle_bool_false in E. left. destruct (IH _ _ _ H) as [K | ->]; simpl; lra.
Qed.

(** [select_window]: for 0 < x <= S the walk returns k iff c_{k-1} < x <= c_k *)
Lemma walk_window l x k :
  nonneg_list l -> 0 < x -> x <= qsum l ->
  (walk x 0 0%nat l = Some k <-> (k < length l)%nat /\ mem_oc x (mkI (cum l k) (cum l (S k)))).
Proof.
  intros Hn H0 HS. unfold mem_oc. simpl. split.
  - intros H. destruct (walk_some _ _ _ _ _ Hn H) as [j [K1 [K2 [K3 K4]]]]. simpl in K1. subst k.
    specialize (K4 H0). repeat split; auto; lra.
  - intros [Hk [H1 H2]]. rewrite (walk_hit l x 0 0%nat k); auto; lra.
Qed.

Lemma walk_total l x :
  nonneg_list l -> 0 < x -> x <= qsum l -> exists k, walk x 0 0%nat l = Some k.
Proof.
  intros Hn H0 HS. destruct (walk x 0 0%nat l) eqn:E. eauto.
  destruct (walk_none _ _ _ _ E) as [K | ->]. lra. simpl in HS. lra.
Qed.

(** ** index of a result *)
Definition l_index (r : lres) : option nat := match r with LOk i _ => Some i | _ => None end.

Lemma finish_some st i :
  length (assoc_ids st) = length (neg_rates st) -> (i < length (neg_rates st))%nat ->
  l_finish st (Some i) = LOk i (nth i (assoc_ids st) 0%Z).
Proof.
  intros HL Hi. unfold l_finish. destruct (nth_error (assoc_ids st) i) eqn:E.
  - rewrite (nth_error_nth _ _ _ E). reflexivity.
  - apply nth_error_None in E. lia.
Qed.

(** ** segments, windows, and the interval of draws selecting a unit *)
Definition seg (s : scheme) (t : utable) (a : nat) : qint :=
  match s with
  | InsideFirst => mkI (pos_before a t) (pos_before a t + weight (rate_at a t))
  | OutsideFirst => mkI (S_neg t - pos_before a t - weight (rate_at a t)) (S_neg t - pos_before a t)
  | Ratio => mkI 0 (S_neg t)
  end.

Definition win (t : utable) (k : nat) : qint := mkI (cum (negs t) k) (cum (negs t) (S k)).

(** the set of draws for which the active unit [a] hands the activity to the [k]-th non-positive
    unit: InsideFirst — draw u1 in (lo, hi]; OutsideFirst — u1 in [lo, hi); Ratio — u2 in (lo, hi]. *)
Definition sel_int (s : scheme) (t : utable) (a k : nat) : qint :=
  let I := inter (seg s t a) (win t k) in
  let q := rate_at a t in
  let P := pos_before a t in
  match s with
  | InsideFirst => mkI ((lo I - P) / q) ((hi I - P) / q)
  | OutsideFirst => mkI ((S_neg t - P - hi I) / q) ((S_neg t - P - lo I) / q)
  | Ratio => mkI ((lo I - 0) / S_neg t) ((hi I - 0) / S_neg t)
  end.

Definition draw_in (s : scheme) (u1 u2 : Q) (i : qint) : Prop :=
  match s with
  | InsideFirst => mem_oc u1 i
  | OutsideFirst => mem_co u1 i
  | Ratio => mem_oc u2 i
  end.

(** the range of the draw that decides: (0,1] resp. [0,1) resp. (0,1] *)
Definition draw_range (s : scheme) (u1 u2 : Q) : Prop := draw_in s u1 u2 (mkI 0 1).

Definition balanced (t : utable) : Prop := qsum (rates t) == 0.

Lemma balanced_S t : balanced t -> possum t == S_neg t.
Proof. unfold balanced. intros H. assert (K := possum_negs t). lra. Qed.

(** position used by the walk, after filling the table with unit [a] active *)
Lemma run_unfold s u1 u2 t a :
  (a < length t)%nat -> 0 < rate_at a t ->
  exists st, l_fill u1 l_init (activate a t) = Some st /\
    neg_rates st = negs t /\ assoc_ids st = neg_ids t /\
    rand_pos st == pos_before a t + u1 * rate_at a t /\
    l_run s u1 u2 (activate a t) = l_finish st (walk (l_position s u2 st) 0 0%nat (negs t)).
Proof.
  intros Ha Hq.
  destruct (fill_activate u1 t a l_init Ha Hq eq_refl) as [st [H1 [H2 [H3 [H4 [H5 H6]]]]]].
  exists st. simpl in *. repeat split; auto.
  - rewrite H4. unfold uniform. lra.
  - unfold l_run, l_reset. rewrite H1. unfold l_get. rewrite H6. cbn [negb fst]. rewrite H2. reflexivity.
Qed.

Lemma position_eq s u1 u2 t a st :
  neg_rates st = negs t -> rand_pos st == pos_before a t + u1 * rate_at a t ->
  l_position s u2 st ==
    match s with
    | InsideFirst => pos_before a t + u1 * rate_at a t
    | OutsideFirst => S_neg t - pos_before a t - u1 * rate_at a t
    | Ratio => u2 * S_neg t
    end.
Proof.
  intros H2 H4. destruct s; simpl; auto.
  - unfold py_sum. rewrite fold_left_qsum. rewrite H2. unfold S_neg. lra.
  - unfold py_sum, uniform. rewrite fold_left_qsum. rewrite H2. unfold S_neg. lra.
Qed.

(** [segments_tile], first half: the position lies in the active unit's segment *)
Lemma position_in_seg s u1 u2 t a st :
  (a < length t)%nat -> 0 < rate_at a t -> balanced t -> draw_range s u1 u2 ->
  neg_rates st = negs t -> rand_pos st == pos_before a t + u1 * rate_at a t ->
  mem_oc (l_position s u2 st) (seg s t a) /\ 0 < l_position s u2 st /\ l_position s u2 st <= S_neg t.
Proof.
  intros Ha Hq Hb Hr H2 H4.
  assert (Hp := position_eq s u1 u2 t a st H2 H4).
  assert (HS := balanced_S t Hb).
  assert (HP := pos_before_nonneg a t).
  assert (HL := pos_before_le a t Ha). rewrite (weight_pos _ Hq) in HL.
  unfold mem_oc, seg. rewrite (weight_pos _ Hq).
  set (q := rate_at a t) in *. set (P := pos_before a t) in *.
  destruct s; unfold draw_range, draw_in, mem_oc, mem_co in Hr; simpl in Hr, Hp |- *; destruct Hr as [R1 R2].
  - assert (0 < u1 * q) by (apply Qmult_lt_0_compat; auto).
    assert (u1 * q <= q) by (apply mul_le_one; lra). repeat split; lra.
  - assert (0 <= u1 * q) by (apply Qmult_le_0_compat; lra).
    assert (u1 * q < q) by (apply mul_lt_one; lra). repeat split; lra.
  - assert (0 < S_neg t) by lra.
    assert (0 < u2 * S_neg t) by (apply Qmult_lt_0_compat; auto).
    assert (u2 * S_neg t <= S_neg t) by (apply mul_le_one; lra). repeat split; lra.
Qed.

(** membership of the draw in [sel_int] is membership of the position in [seg ∩ win] *)
Lemma sel_int_mem s u1 u2 t a k st :
  0 < rate_at a t -> 0 < S_neg t ->
  neg_rates st = negs t -> rand_pos st == pos_before a t + u1 * rate_at a t ->
  (draw_in s u1 u2 (sel_int s t a k) <-> mem_oc (l_position s u2 st) (inter (seg s t a) (win t k))).
Proof.
  intros Hq HS H2 H4.
  assert (Hp := position_eq s u1 u2 t a st H2 H4).
  remember (l_position s u2 st) as p eqn:Ep. clear Ep.
  unfold sel_int. cbv zeta.
  remember (inter (seg s t a) (win t k)) as I eqn:EI. clear EI.
  set (q := rate_at a t) in *. set (P := pos_before a t) in *.
  destruct s; unfold draw_in, mem_oc, mem_co; cbn [lo hi].
  - rewrite div_lt_iff, le_div_iff by auto. split; intros [A B]; split; lra.
  - rewrite div_le_iff, lt_div_iff by auto. split; intros [A B]; split; lra.
  - rewrite div_lt_iff, le_div_iff by auto. split; intros [A B]; split; lra.
Qed.

(** ** main characterisation: which draws select which unit *)
Theorem select_spec s u1 u2 t a k :
  (a < length t)%nat -> 0 < rate_at a t -> balanced t -> draw_range s u1 u2 ->
  (l_index (l_run s u1 u2 (activate a t)) = Some k <-> draw_in s u1 u2 (sel_int s t a k)).
Proof.
  intros Ha Hq Hb Hr.
  destruct (run_unfold s u1 u2 t a Ha Hq) as [st [H1 [H2 [H3 [H4 H5]]]]].
  destruct (position_in_seg s u1 u2 t a st Ha Hq Hb Hr H2 H4) as [M1 [M2 M3]].
  assert (HS : 0 < S_neg t) by lra.
  rewrite (sel_int_mem s u1 u2 t a k st Hq HS H2 H4). rewrite mem_oc_inter. rewrite H5.
  set (p := l_position s u2 st) in *.
  assert (Hn := negs_nonneg t).
  assert (HL : length (assoc_ids st) = length (neg_rates st))
    by (rewrite H2, H3; apply negs_ids_length).
  destruct (walk_total (negs t) p Hn M2 M3) as [k' Hk'].
  assert (Hw := walk_window (negs t) p k' Hn M2 M3). destruct Hw as [Hw _]. specialize (Hw Hk').
  destruct Hw as [Hlt Hmem]. rewrite Hk'. rewrite finish_some by (auto; rewrite H2; auto). simpl.
  split.
  - intros E. inversion E; subst. split; auto.
  - intros [_ Hm]. f_equal. unfold win, mem_oc in *. simpl in *.
    (* windows are disjoint: both k and k' contain p *)
    destruct (Nat.lt_trichotomy k k') as [L | [L | L]]; auto; exfalso.
    + assert (cum (negs t) (S k) <= cum (negs t) k').
      { clear - L Hn Hlt. induction L. lra.
        assert (m < length (negs t))%nat by lia. rewrite (cum_S _ m) by lia.
        assert (0 <= nth m (negs t) 0) by (apply Hn; apply nth_In; lia).
        assert (cum (negs t) (S k) <= cum (negs t) m) by (apply IHL; lia). lra. }
      lra.
    + assert (cum (negs t) (S k') <= cum (negs t) k).
      { clear - L Hn Hm. destruct Hm as [Hm1 Hm2].
        assert (G : forall m, (S k' <= m)%nat -> cum (negs t) (S k') <= cum (negs t) m).
        { induction 1. lra. destruct (Nat.lt_ge_cases m (length (negs t))).
          - rewrite (cum_S _ m) by lia.
            assert (0 <= nth m (negs t) 0) by (apply Hn; apply nth_In; lia). lra.
          - rewrite (cum_all _ (S m)) by lia. rewrite (cum_all _ m) in IHle by lia. lra. }
        apply G. lia. }
      lra.
Qed.

(** the identifier returned is the one inserted with that rate *)
Lemma select_id s u1 u2 t a :
  (a < length t)%nat -> 0 < rate_at a t -> balanced t -> draw_range s u1 u2 ->
  exists k, (k < length (negs t))%nat /\
            l_run s u1 u2 (activate a t) = LOk k (nth k (neg_ids t) 0%Z) /\
            mem_oc (nth k (negs t) 0) (mkI 0 (nth k (negs t) 0)) .
Proof.
  intros Ha Hq Hb Hr.
  destruct (run_unfold s u1 u2 t a Ha Hq) as [st [H1 [H2 [H3 [H4 H5]]]]].
  destruct (position_in_seg s u1 u2 t a st Ha Hq Hb Hr H2 H4) as [M1 [M2 M3]].
  set (p := l_position s u2 st) in *.
  assert (Hn := negs_nonneg t).
  assert (HL : length (assoc_ids st) = length (neg_rates st))
    by (rewrite H2, H3; apply negs_ids_length).
  destruct (walk_total (negs t) p Hn M2 M3) as [k Hk].
  destruct (walk_window (negs t) p k Hn M2 M3) as [Hw _]. destruct (Hw Hk) as [Hlt [W1 W2]].
  exists k. split; auto. rewrite H5, Hk, finish_some by (auto; rewrite H2; auto). rewrite H3.
  split; auto. simpl in W1, W2. rewrite (cum_S _ k Hlt) in W2. unfold mem_oc. simpl. split; lra.
Qed.

(** [never_nonnegative] *)
Theorem selected_rate_negative s u1 u2 t a :
  (a < length t)%nat -> 0 < rate_at a t -> balanced t -> draw_range s u1 u2 ->
  exists k, (k < length (negs t))%nat /\
            l_run s u1 u2 (activate a t) = LOk k (nth k (neg_ids t) 0%Z) /\
            0 < nth k (negs t) 0.
Proof.
  intros Ha Hq Hb Hr. destruct (select_id s u1 u2 t a Ha Hq Hb Hr) as [k [K1 [K2 [K3 _]]]].
  exists k. simpl in K3. auto.
Qed.

(** ** tiling and flow balance *)
Lemma sum_seq_cons (f : nat -> Q) n :
  qsum (map f (seq 0 (S n))) == f 0%nat + qsum (map (fun a => f (S a)) (seq 0 n)).
Proof. simpl. rewrite <- seq_shift. rewrite map_map. reflexivity. Qed.

Lemma tile_inside t : forall off w,
  qsum (map (fun a => len (inter (mkI (off + pos_before a t)
                                      (off + pos_before a t + weight (rate_at a t))) w))
            (seq 0 (length t)))
  == len (inter (mkI off (off + possum t)) w).
Proof.
  induction t as [|e t IH]; intros off w.
  - simpl. unfold possum. simpl. symmetry. apply len_empty. unfold inter. simpl. qmm.
  - change (length (e :: t)) with (S (length t)). rewrite sum_seq_cons.
    rewrite (qsum_map_ext _ (fun a => len (inter (mkI ((off + weight (fst e)) + pos_before a t)
                 ((off + weight (fst e)) + pos_before a t + weight (rate_at a t))) w))).
    + rewrite IH.
      rewrite <- (len_inter_split off (off + weight (fst e)) (off + possum (e :: t)) w).
      * apply Qplus_comp.
        -- apply len_inter_ext; [|apply ieq_refl]. unfold ieq, pos_before, possum, rate_at, rates.
           simpl. split; lra.
        -- apply len_inter_ext; [|apply ieq_refl]. unfold ieq, possum. simpl. split; lra.
      * assert (H := weight_nonneg (fst e)). lra.
      * assert (H := possum_nonneg t). unfold possum in *. simpl. lra.
    + intros a _. apply len_inter_ext; [|apply ieq_refl].
      unfold ieq, pos_before, possum, rate_at, rates. simpl. split; lra.
Qed.

Lemma tile_outside t : forall top w,
  qsum (map (fun a => len (inter (mkI (top - pos_before a t - weight (rate_at a t))
                                      (top - pos_before a t)) w))
            (seq 0 (length t)))
  == len (inter (mkI (top - possum t) top) w).
Proof.
  induction t as [|e t IH]; intros top w.
  - simpl. unfold possum. simpl. symmetry. apply len_empty. unfold inter. simpl. qmm.
  - change (length (e :: t)) with (S (length t)). rewrite sum_seq_cons.
    rewrite (qsum_map_ext _ (fun a => len (inter (mkI ((top - weight (fst e)) - pos_before a t - weight (rate_at a t))
                 ((top - weight (fst e)) - pos_before a t)) w))).
    + rewrite IH.
      rewrite <- (len_inter_split (top - possum (e :: t)) (top - weight (fst e)) top w).
      * rewrite (Qplus_comm (len (inter (mkI (top - possum (e :: t)) (top - weight (fst e))) w))).
        apply Qplus_comp.
        -- apply len_inter_ext; [|apply ieq_refl]. unfold ieq, pos_before, possum, rate_at, rates.
           simpl. split; lra.
        -- apply len_inter_ext; [|apply ieq_refl]. unfold ieq, possum. simpl. split; lra.
      * assert (H := possum_nonneg t). unfold possum in *. simpl. lra.
      * assert (H := weight_nonneg (fst e)). lra.
    + intros a _. apply len_inter_ext; [|apply ieq_refl].
      unfold ieq, pos_before, possum, rate_at, rates. simpl. split; lra.
Qed.

(** [segments_tile], second half: the segments of all units tile (0, S+] resp. (S- - S+, S-] *)
Lemma segments_tile_sum s t w :
  s <> Ratio ->
  qsum (map (fun a => len (inter (seg s t a) w)) (seq 0 (length t)))
  == len (inter (match s with OutsideFirst => mkI (S_neg t - possum t) (S_neg t)
                              | _ => mkI 0 (possum t) end) w).
Proof.
  intros Hs. destruct s; try congruence.
  - rewrite <- (len_inter_ext (mkI 0 (0 + possum t)) _ w w); [| split; simpl; lra | apply ieq_refl].
    rewrite <- tile_inside. apply qsum_map_ext. intros a _.
    apply len_inter_ext; [|apply ieq_refl]. unfold seg, ieq. simpl. split; lra.
  - rewrite <- tile_outside. apply qsum_map_ext. intros a _. reflexivity.
Qed.

Lemma len_inter_empty i w : hi i <= lo i -> len (inter i w) == 0.
Proof. unfold len, inter. simpl. intros. qmm. Qed.

Lemma win_len t k : (k < length (negs t))%nat -> len (win t k) == nth k (negs t) 0.
Proof.
  intros Hk. unfold win. assert (Hn := negs_nonneg t).
  assert (0 <= nth k (negs t) 0) by (apply Hn; apply nth_In; auto).
  rewrite len_mk; rewrite (cum_S _ k Hk); lra.
Qed.

Lemma win_inside t k : 0 <= lo (win t k) /\ hi (win t k) <= S_neg t.
Proof.
  unfold win. simpl. split. apply cum_nonneg, negs_nonneg. apply cum_le_total, negs_nonneg.
Qed.

(** weighted length of the selecting draws = length of seg ∩ win (for a non-positive unit both are 0) *)
Lemma term_eq s t a k :
  s <> Ratio ->
  weight (rate_at a t) * len (sel_int s t a k) == len (inter (seg s t a) (win t k)).
Proof.
  intros Hs. unfold weight. destruct (Qlt_bool 0 (rate_at a t)) eqn:E.
  - apply Qlt_bool_iff in E. rewrite Qmult_comm.
    destruct s; try congruence; unfold sel_int.
    + rewrite len_scale by auto. reflexivity.
    + rewrite len_scale_neg by auto. reflexivity.
  - apply Qlt_bool_false in E. rewrite len_inter_empty. lra.
    destruct s; try congruence; simpl; rewrite (weight_nonpos _ E); lra.
Qed.

Definition flow (s : scheme) (t : utable) (k : nat) : Q :=
  qsum (map (fun a => weight (rate_at a t) * len (sel_int s t a k)) (seq 0 (length t))).

Lemma possum_as_seq t : qsum (map (fun a => weight (rate_at a t)) (seq 0 (length t))) == possum t.
Proof.
  unfold possum, rate_at, rates. induction t as [|e t IH]. simpl. lra.
  change (length (e :: t)) with (S (length t)). rewrite sum_seq_cons. simpl. rewrite IH. lra.
Qed.

Theorem flow_balance_main s t k :
  balanced t -> (k < length (negs t))%nat -> flow s t k == nth k (negs t) 0.
Proof.
  intros Hb Hk. assert (HS := balanced_S t Hb). destruct (win_inside t k) as [W1 W2].
  assert (Hw := win_len t k Hk). unfold flow.
  destruct s.
  - rewrite (qsum_map_ext _ (fun a => len (inter (seg InsideFirst t a) (win t k))))
      by (intros; apply term_eq; congruence).
    rewrite segments_tile_sum by congruence. rewrite len_inter_comm, len_inter_sub; cbn [lo hi]; lra.
  - rewrite (qsum_map_ext _ (fun a => len (inter (seg OutsideFirst t a) (win t k))))
      by (intros; apply term_eq; congruence).
    rewrite segments_tile_sum by congruence. rewrite len_inter_comm, len_inter_sub; cbn [lo hi]; lra.
  - (* ratio: every positive unit sends the same fraction n_k / S *)
    destruct (Qlt_le_dec 0 (S_neg t)) as [Hpos | Hzero].
    + rewrite (qsum_map_ext _ (fun a => (nth k (negs t) 0 / S_neg t) * weight (rate_at a t))).
      * rewrite qsum_map_scale. rewrite possum_as_seq. rewrite HS. field. lra.
      * intros a _. unfold sel_int.
        assert (L := len_scale 0 (S_neg t) (lo (inter (seg Ratio t a) (win t k)))
                       (hi (inter (seg Ratio t a) (win t k))) Hpos).
        assert (L2 : len (inter (seg Ratio t a) (win t k)) == nth k (negs t) 0).
        { rewrite len_inter_comm, len_inter_sub; unfold seg; cbn [lo hi]; lra. }
        set (X := len (mkI _ _)) in *.
        assert (X == nth k (negs t) 0 / S_neg t).
        { apply (Qmult_inj_r _ _ (S_neg t)). lra.
          rewrite L. unfold len in *. simpl in *. rewrite L2. field. lra. }
        rewrite H. lra.
    + (* S- = 0: then every negative magnitude is 0 and there is no positive unit *)
      assert (Hn := negs_nonneg t).
      assert (S_neg t == 0) by (assert (0 <= S_neg t) by (apply qsum_nonneg; auto); lra).
      assert (Z : nth k (negs t) 0 == 0) by (apply (qsum_zero_all (negs t)); auto; apply nth_In; auto).
      rewrite Z.
      assert (P0 : possum t == 0) by lra.
      rewrite (qsum_map_ext _ (fun a => 0)).
      * clear. induction (seq 0 (length t)); simpl; lra.
      * intros a Ha. apply in_seq in Ha.
        assert (weight (rate_at a t) == 0).
        { assert (A := pos_before_le a t ltac:(lia)). assert (B := pos_before_nonneg a t).
          assert (C := weight_nonneg (rate_at a t)). lra. }
        rewrite H0. lra.
Qed.

(** ** reachability: every point of the segment is the position of exactly the draw (p - P)/q *)
Lemma segment_reached t a p :
  (a < length t)%nat -> 0 < rate_at a t -> mem_oc p (seg InsideFirst t a) ->
  exists u1, mem_oc u1 (mkI 0 1) /\ pos_before a t + u1 * rate_at a t == p.
Proof.
  intros Ha Hq [M1 M2]. simpl in M1, M2. rewrite (weight_pos _ Hq) in M2.
  exists ((p - pos_before a t) / rate_at a t). split.
  - unfold mem_oc. simpl. split.
    + apply lt_div_iff; auto. lra.
    + apply div_le_iff; auto. lra.
  - field. lra.
Qed.

(** ** determinism / dependence on table and draw only *)
Lemma run_after_reset s u1 u2 t st :
  match l_fill u1 (l_reset st) t with
  | None => LAssertionError
  | Some st' => fst (l_get s u2 st')
  end = l_run s u1 u2 t.
Proof. reflexivity. Qed.
