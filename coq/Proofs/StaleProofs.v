(** * Proofs/StaleProofs.v — C08: bookkeeping of pending in-states and what accepted runs satisfy. *)
From Coq Require Import ZArith QArith Qabs List Bool Lia.
Require Import JF.Base.F64 JF.Model.Kinematics JF.Model.Stale.
Import ListNotations.

(** ** The in-state bookkeeping. *)
Lemma lookup_remove_h ins h k :
  lookup_h (remove_h ins k) h = if Nat.eqb k h then None else lookup_h ins h.
Proof.
  induction ins as [|[j x] ins IH]; simpl.
  - destruct (Nat.eqb k h); reflexivity.
  - destruct (Nat.eqb j k) eqn:Ejk; simpl.
    + apply Nat.eqb_eq in Ejk. subst j. rewrite IH. destruct (Nat.eqb k h); reflexivity.
    + rewrite IH. destruct (Nat.eqb j h) eqn:Ejh; [|reflexivity].
      apply Nat.eqb_eq in Ejh. subst j. rewrite Nat.eqb_sym in Ejk. rewrite Ejk. reflexivity.
Qed.

Lemma lookup_remove_all hs : forall ins h,
  lookup_h (remove_all ins hs) h = if existsb (Nat.eqb h) hs then None else lookup_h ins h.
Proof.
  unfold remove_all. induction hs as [|k hs IH]; intros ins h; simpl; [reflexivity|].
  rewrite IH, lookup_remove_h. rewrite (Nat.eqb_sym h k).
  destruct (existsb (Nat.eqb h) hs), (Nat.eqb k h); reflexivity.
Qed.

Lemma lookup_add_all_notin new : forall ins h,
  ~ In h (map fst new) -> lookup_h (add_all ins new) h = lookup_h ins h.
Proof.
  induction new as [|[k x] new IH]; intros ins h Hn; simpl; [reflexivity|].
  simpl in Hn. rewrite IH by tauto. simpl.
  destruct (Nat.eqb k h) eqn:E; [apply Nat.eqb_eq in E; subst; tauto|].
  rewrite lookup_remove_h, E. reflexivity.
Qed.

Lemma lookup_add_all_in new : forall ins h x,
  NoDup (map fst new) -> In (h, x) new -> lookup_h (add_all ins new) h = Some x.
Proof.
  induction new as [|[k y] new IH]; intros ins h x Hnd Hin; simpl in *; [contradiction|].
  inversion Hnd as [|? ? Hk Hnd']; subst.
  destruct Hin as [E|Hin].
  - inversion E; subst. rewrite lookup_add_all_notin by exact Hk. simpl. rewrite Nat.eqb_refl. reflexivity.
  - apply IH; assumption.
Qed.

(** ** One accepted leg. *)
Record sleg_facts (Ls : list Q) (fh : list nat) (n : nat) (s s' : kstate) (ins ins' : instates) (l : sleg) (T : Q)
  : Prop := {
  sf_kin : leg_ok Ls n s (sl_k l) = Some s';
  sf_time : tvalue (k_time (sl_k l)) = Some T;
  sf_ins : ins' = remove_all (add_all ins (sl_instates l)) (k_trash (sl_k l));
  (* not stale: the in-state registered for the committing factor handler agrees with the global
     state right before its commit *)
  sf_commit : is_factor_handler fh (k_pick (sl_k l)) = true ->
      exists ius, lookup_h (add_all ins (sl_instates l)) (k_pick (sl_k l)) = Some ius /\
                  instate_current Ls T (s_units s) ius = true;
  (* survivors: every factor event still pending after the commit sees all its units on an
     unchanged trajectory in the NEW global state *)
  sf_survivors : forall h ius, In (h, ius) ins' -> is_factor_handler fh h = true ->
      instate_current Ls T (s_units s') ius = true
}.

Theorem sleg_ok_facts Ls fh n s ins l s' ins' :
  sleg_ok Ls fh n s ins l = Some (s', ins') ->
  exists T, sleg_facts Ls fh n s s' ins ins' l T.
Proof.
  unfold sleg_ok. intro H.
  destruct (leg_ok Ls n s (sl_k l)) as [s1|] eqn:El; [|discriminate].
  destruct (tvalue (k_time (sl_k l))) as [T|] eqn:Et; [|discriminate].
  destruct (negb (is_factor_handler fh (k_pick (sl_k l))) || _) eqn:Ec; [|discriminate].
  destruct (forallb _ (remove_all (add_all ins (sl_instates l)) (k_trash (sl_k l)))) eqn:Es; [|discriminate].
  inversion H; subst s1 ins'; clear H.
  exists T. constructor; auto.
  - intro Hf. rewrite Hf in Ec. simpl in Ec.
    destruct (lookup_h (add_all ins (sl_instates l)) (k_pick (sl_k l))) as [ius|]; [|discriminate].
    exists ius. auto.
  - intros h ius Hin Hf. rewrite forallb_forall in Es. specialize (Es (h, ius) Hin).
    simpl in Es. rewrite Hf in Es. simpl in Es. exact Es.
Qed.

(** ** Whole runs: every leg of an accepted run has the facts. *)
Inductive run_facts (Ls : list Q) (fh : list nat)
  : nat -> kstate -> instates -> list sleg -> list (kstate * instates) -> Prop :=
| rf_nil : forall n s ins, run_facts Ls fh n s ins [] []
| rf_cons : forall n s ins l rest s' ins' r T,
    sleg_facts Ls fh n s s' ins ins' l T ->
    run_facts Ls fh (S n) s' ins' rest r ->
    run_facts Ls fh n s ins (l :: rest) ((s', ins') :: r).

Theorem srun_facts Ls fh ls : forall n s ins r,
  srun Ls fh n s ins ls = Some r -> run_facts Ls fh n s ins ls r.
Proof.
  induction ls as [|l ls IH]; intros n s ins r H; simpl in H.
  - inversion H; subst. constructor.
  - destruct (sleg_ok Ls fh n s ins l) as [[s' ins']|] eqn:El; [|discriminate].
    destruct (srun Ls fh (S n) s' ins' ls) as [r'|] eqn:Er; [|discriminate].
    inversion H; subst r; clear H.
    destruct (sleg_ok_facts _ _ _ _ _ _ _ _ El) as [T F].
    econstructor; eauto.
Qed.

(** An in-state registered for handler [h] persists unchanged (whatever the number of legs) as long as
    [h] is neither trashed nor started again. *)
Lemma ins_step_persist ins new trash h :
  ~ In h (map fst new) -> existsb (Nat.eqb h) trash = false ->
  lookup_h (remove_all (add_all ins new) trash) h = lookup_h ins h.
Proof.
  intros Hn Ht. rewrite lookup_remove_all, Ht. apply lookup_add_all_notin. exact Hn.
Qed.

Theorem instate_persists Ls fh ls : forall n s ins r h ius,
  run_facts Ls fh n s ins ls r ->
  lookup_h ins h = Some ius ->
  Forall (fun l => ~ In h (map fst (sl_instates l)) /\ existsb (Nat.eqb h) (k_trash (sl_k l)) = false) ls ->
  forall i si, nth_error r i = Some si -> lookup_h (snd si) h = Some ius.
Proof.
  induction ls as [|l ls IH]; intros n s ins r h ius HR Hl Hall i si Hi; inversion HR; subst.
  - destruct i; discriminate.
  - inversion Hall as [|? ? [Hn Ht] Hall']; subst.
    match goal with F : sleg_facts _ _ _ _ _ _ _ _ _ |- _ => pose proof (sf_ins _ _ _ _ _ _ _ _ _ F) as Hins end.
    assert (Hl' : lookup_h ins' h = Some ius).
    { rewrite Hins. rewrite ins_step_persist; assumption. }
    destruct i as [|i]; simpl in Hi.
    + inversion Hi; subst. exact Hl'.
    + eapply IH; eauto.
Qed.

(** meaning of [instate_current] *)
Lemma instate_current_spec Ls T st ius :
  instate_current Ls T st ius = true ->
  forall iu, In iu ius -> exists gu, lookup st (u_id iu) = Some gu /\ same_line Ls T gu iu = true.
Proof.
  unfold instate_current. intro H. rewrite forallb_forall in H. intros iu Hin. specialize (H iu Hin).
  destruct (lookup st (u_id iu)) as [gu|]; [|discriminate]. exists gu. auto.
Qed.

Lemma same_line_velocity Ls T gu iu : same_line Ls T gu iu = true ->
  match u_vel gu, u_vel iu with
  | None, None => vel_eqb (u_pos gu) (u_pos iu) = true
  | Some a, Some b => vel_eqb a b = true
  | _, _ => False
  end.
Proof.
  unfold same_line. destruct (u_vel gu), (u_vel iu); intro H; try discriminate; auto.
  apply andb_true_iff in H. apply H.
Qed.

Theorem accepted_run_stale (c : stcase) :
  check_stcase c = true ->
  exists r, run_facts (map f2q (st_L c)) (st_factor_handlers c) 0
              {| s_units := st_init c; s_now := 0; s_pending := []; s_started := false; s_speed2 := None |}
              [] (st_legs c) r.
Proof.
  unfold check_stcase. intro H. apply andb_true_iff in H as [_ H].
  destruct (srun _ _ 0 _ [] (st_legs c)) as [r|] eqn:E; [|discriminate].
  exists r. apply srun_facts. exact E.
Qed.
