(** * Proofs/StateHandlerProofs.v — lemmas about Model/StateHandler.v (C13). *)
From Coq Require Import ZArith List Bool Arith PArith Lia.
Require Import JF.Base.Store JF.Model.StateHandler.
Import ListNotations.

(* ======================================================================================== *)
(** ** Specification vocabulary *)

Definition valid (g : gstate) (id : ident) : Prop := phys_get (g_phys g) id <> None.

(** [k] is the node [id], one of its ancestors or one of its descendants. *)
Definition related (id k : ident) : Prop :=
  k = id \/
  match id, k with
  | Leaf i _, Root i' => i = i'
  | Root i, Leaf i' _ => i = i'
  | _, _ => False
  end.

(** An object is reachable from the global state. *)
Definition greach (g : gstate) (a : addr) : Prop :=
  (exists id, phys_get (g_phys g) id = Some a) \/
  (exists id v t, assoc id (l_dict (g_lift g)) = Some (v, t) /\ (a = v \/ a = t)).

Definition lifted (g : gstate) (id : ident) : Prop := assoc id (l_dict (g_lift g)) <> None.

Definition unit_wf (u : unit_) : Prop := unit_wfb u = true.

(** The unit of the last occurrence of [id] in an insertion order. *)
Fixpoint find_last (id : ident) (us : list unit_) : option unit_ :=
  match us with
  | [] => None
  | u :: r =>
      match find_last id r with
      | Some x => Some x
      | None => if ident_eqb id (u_id u) then Some u else None
      end
  end.

Definition lift_ok (l : lifting) : Prop :=
  forall id, mem id (l_lifted l) = true <-> assoc id (l_dict l) <> None.

Record ginv (g : gstate) : Prop := mkGinv {
  gi_wf : store_wf (g_store g);
  gi_reach : forall a, greach g a -> (a < next (g_store g))%positive;
  gi_lift : lift_ok (g_lift g);
  gi_lvalid : forall id, lifted g id -> valid g id
}.

Record cinv (c : cstate) : Prop := mkCinv {
  ci_g : ginv (c_g c);
  ci_held : forall b a, In b (c_held c) -> In a (branch_addrs b) -> (a < next (g_store (c_g c)))%positive;
  ci_owned : forall a, In a (c_owned c) -> (a < next (g_store (c_g c)))%positive;
  ci_sep : forall a, In a (c_owned c) -> ~ greach (c_g c) a;
  ci_valid : forall b u, In b (c_held c) -> In u (units b) -> valid (c_g c) (u_id u)
}.

(* ======================================================================================== *)
(** ** Identifiers, association lists, list update *)

Lemma ident_eqb_eq a b : ident_eqb a b = true <-> a = b.
Proof.
  destruct a, b; simpl; try (split; [discriminate | intro H; discriminate H]).
  - rewrite Nat.eqb_eq. split; [intros ->; reflexivity | intro H; injection H; auto].
  - rewrite andb_true_iff, !Nat.eqb_eq. split; [intros [-> ->]; reflexivity | intro H; injection H; auto].
Qed.

Lemma ident_eqb_refl a : ident_eqb a a = true.
Proof. apply ident_eqb_eq. reflexivity. Qed.

Lemma ident_eqb_neq a b : ident_eqb a b = false <-> a <> b.
Proof.
  split.
  - intros H E. apply ident_eqb_eq in E. congruence.
  - intro H. destruct (ident_eqb a b) eqn:E; [|reflexivity]. apply ident_eqb_eq in E. contradiction.
Qed.

Lemma ident_eqb_sym a b : ident_eqb a b = ident_eqb b a.
Proof.
  destruct (ident_eqb a b) eqn:E.
  - apply ident_eqb_eq in E. subst. symmetry. apply ident_eqb_refl.
  - apply ident_eqb_neq in E. symmetry. apply ident_eqb_neq. congruence.
Qed.

Lemma assoc_dremove_same id d : assoc id (dremove id d) = None.
Proof.
  induction d as [|[k x] r IH]; simpl; [reflexivity|].
  destruct (ident_eqb id k) eqn:E; simpl; [exact IH|]. rewrite E. exact IH.
Qed.

Lemma assoc_dremove_other id id' d : id' <> id -> assoc id' (dremove id d) = assoc id' d.
Proof.
  intro N. induction d as [|[k x] r IH]; simpl; [reflexivity|].
  destruct (ident_eqb id k) eqn:E; simpl.
  - apply ident_eqb_eq in E. subst k. apply ident_eqb_neq in N. rewrite N. exact IH.
  - destruct (ident_eqb id' k); [reflexivity | exact IH].
Qed.

Lemma mem_filter_same id l : mem id (filter (fun k => negb (ident_eqb id k)) l) = false.
Proof.
  induction l as [|k r IH]; simpl; [reflexivity|].
  destruct (ident_eqb id k) eqn:E; simpl; [exact IH|]. rewrite E. exact IH.
Qed.

Lemma mem_filter_other id id' l : id' <> id ->
  mem id' (filter (fun k => negb (ident_eqb id k)) l) = mem id' l.
Proof.
  intro N. unfold mem. induction l as [|k r IH]; simpl; [reflexivity|].
  destruct (ident_eqb id k) eqn:E; simpl.
  - apply ident_eqb_eq in E. subst k. apply ident_eqb_neq in N. rewrite N. exact IH.
  - rewrite IH. reflexivity.
Qed.

Lemma nth_error_upd_same {A} (f : A -> A) : forall n l,
  nth_error (upd n f l) n = option_map f (nth_error l n).
Proof.
  induction n; destruct l; simpl; auto.
Qed.

Lemma nth_error_upd_other {A} (f : A -> A) : forall n m l, n <> m ->
  nth_error (upd n f l) m = nth_error l m.
Proof.
  induction n; destruct m, l; simpl; intros; auto; try congruence.
Qed.

Lemma length_upd {A} (f : A -> A) : forall n l, length (upd n f l) = length l.
Proof. induction n; destruct l; simpl; auto. Qed.

Lemma In_upd {A} (f : A -> A) : forall n l x, In x (upd n f l) -> In x l \/ exists y, In y l /\ x = f y.
Proof.
  induction n; destruct l; simpl; intros x H; auto.
  - destruct H as [<-|H]; [right; eauto | left; auto].
  - destruct H as [<-|H]; [left; auto|]. apply IHn in H. destruct H as [H|[y [H1 H2]]]; [left; auto | right; eauto].
Qed.

(* ======================================================================================== *)
(** ** Physical state: get after set *)

Lemma phys_get_set ph id a id' :
  phys_get (phys_set ph id a) id' =
  if ident_eqb id' id then match phys_get ph id with Some _ => Some a | None => None end
  else phys_get ph id'.
Proof.
  destruct (ident_eqb id' id) eqn:E.
  - apply ident_eqb_eq in E. subst id'. destruct id as [i|i j]; simpl.
    + rewrite nth_error_upd_same. destruct (nth_error ph i); reflexivity.
    + rewrite nth_error_upd_same. destruct (nth_error ph i) as [[p cs]|]; simpl; [|reflexivity].
      rewrite nth_error_upd_same. destruct (nth_error cs j); reflexivity.
  - apply ident_eqb_neq in E. destruct id as [i|i j], id' as [i'|i' j']; simpl.
    + rewrite nth_error_upd_other; [reflexivity | congruence].
    + destruct (Nat.eq_dec i i') as [->|N].
      * rewrite nth_error_upd_same. destruct (nth_error ph i') as [[p cs]|]; reflexivity.
      * rewrite nth_error_upd_other by exact N. reflexivity.
    + destruct (Nat.eq_dec i i') as [->|N].
      * rewrite nth_error_upd_same. destruct (nth_error ph i') as [[p cs]|]; reflexivity.
      * rewrite nth_error_upd_other by exact N. reflexivity.
    + destruct (Nat.eq_dec i i') as [->|N].
      * rewrite nth_error_upd_same. destruct (nth_error ph i') as [[p cs]|]; simpl; [|reflexivity].
        rewrite nth_error_upd_other; [reflexivity | congruence].
      * rewrite nth_error_upd_other by exact N. reflexivity.
Qed.

Lemma phys_get_set_valid ph id a id' :
  phys_get (phys_set ph id a) id' <> None <-> phys_get ph id' <> None.
Proof.
  rewrite phys_get_set. destruct (ident_eqb id' id) eqn:E; [|tauto].
  apply ident_eqb_eq in E. subst. destruct (phys_get ph id); split; congruence.
Qed.

(* ======================================================================================== *)
(** ** Lifting state: get after set, consistency of the lifted sets *)

Lemma assoc_lift_set l id vel ts id' :
  unit_wfb (mkUnit id 1%positive vel ts) = true ->
  assoc id' (l_dict (lift_set l id vel ts)) =
  if ident_eqb id' id then match vel, ts with Some v, Some t => Some (v, t) | _, _ => None end
  else assoc id' (l_dict l).
Proof.
  unfold unit_wfb; simpl. intro W.
  destruct vel as [v|], ts as [t|]; try discriminate; simpl.
  - destruct (ident_eqb id' id) eqn:E; [reflexivity|].
    apply ident_eqb_neq in E. apply assoc_dremove_other. exact E.
  - unfold lift_delete. destruct (ident_eqb id' id) eqn:E.
    + apply ident_eqb_eq in E. subst id'. destruct (assoc id (l_dict l)) eqn:A; simpl.
      * apply assoc_dremove_same.
      * exact A.
    + apply ident_eqb_neq in E. destruct (assoc id (l_dict l)); simpl; [|reflexivity].
      apply assoc_dremove_other. exact E.
Qed.

(** Without the well-formedness of the pair: every entry is an old one or the given pair. *)
Lemma assoc_lift_set_incl l id vel ts id' v t :
  assoc id' (l_dict (lift_set l id vel ts)) = Some (v, t) ->
  (id' = id /\ vel = Some v /\ ts = Some t) \/ assoc id' (l_dict l) = Some (v, t).
Proof.
  destruct vel as [v0|], ts as [t0|]; simpl; auto.
  - destruct (ident_eqb id' id) eqn:E.
    + apply ident_eqb_eq in E. intro H. injection H as -> ->. left; auto.
    + apply ident_eqb_neq in E. rewrite assoc_dremove_other by exact E. auto.
  - unfold lift_delete. destruct (assoc id (l_dict l)) eqn:A; simpl; auto.
    destruct (ident_eqb id' id) eqn:E.
    + apply ident_eqb_eq in E. subst. rewrite assoc_dremove_same. discriminate.
    + apply ident_eqb_neq in E. rewrite assoc_dremove_other by exact E. auto.
Qed.

Lemma assoc_lift_set_dom l id vel ts id' :
  assoc id' (l_dict (lift_set l id vel ts)) <> None -> id' = id \/ assoc id' (l_dict l) <> None.
Proof.
  intro H. destruct (assoc id' (l_dict (lift_set l id vel ts))) as [[v t]|] eqn:A; [|congruence].
  apply assoc_lift_set_incl in A. destruct A as [[-> _]|A]; [left; reflexivity | right; congruence].
Qed.

Lemma lift_ok_set l id vel ts : lift_ok l -> lift_ok (lift_set l id vel ts).
Proof.
  intros OK id'. destruct vel as [v|], ts as [t|]; simpl; try apply OK.
  - destruct (ident_eqb id' id) eqn:E.
    + apply ident_eqb_eq in E. subst id'. split; [congruence|]. intros _.
      destruct (mem id (l_lifted l)) eqn:M; [exact M|]. simpl. rewrite ident_eqb_refl. reflexivity.
    + pose proof E as E'. apply ident_eqb_neq in E'. rewrite assoc_dremove_other by exact E'.
      destruct (mem id (l_lifted l)) eqn:M; [apply OK|]. simpl. rewrite E. apply OK.
  - unfold lift_delete. destruct (assoc id (l_dict l)) eqn:A; simpl; [|apply OK].
    destruct (ident_eqb id' id) eqn:E.
    + apply ident_eqb_eq in E. subst id'. rewrite assoc_dremove_same.
      change (existsb (ident_eqb id) (filter (fun k => negb (ident_eqb id k)) (l_lifted l)))
        with (mem id (filter (fun k => negb (ident_eqb id k)) (l_lifted l))).
      rewrite mem_filter_same. split; [discriminate | congruence].
    + apply ident_eqb_neq in E. rewrite assoc_dremove_other by exact E.
      change (existsb (ident_eqb id') (filter (fun k => negb (ident_eqb id k)) (l_lifted l)))
        with (mem id' (filter (fun k => negb (ident_eqb id k)) (l_lifted l))).
      rewrite mem_filter_other by exact E. apply OK.
Qed.

Lemma lift_get_assoc l id :
  lift_get l id = match assoc id (l_dict l) with Some (v, t) => (Some v, Some t) | None => (None, None) end.
Proof. reflexivity. Qed.

(* ======================================================================================== *)
(** ** insert_into_global_state *)

Lemma insert_flat : forall bs g, insert g bs = fold_left insert_unit (flat bs) g.
Proof.
  induction bs as [|b r IH]; intro g; [reflexivity|].
  unfold insert, flat in *. simpl. rewrite fold_left_app. rewrite <- IH. reflexivity.
Qed.

Lemma store_insert_unit g u : g_store (insert_unit g u) = g_store g.
Proof. reflexivity. Qed.

Lemma store_fold_insert : forall us g, g_store (fold_left insert_unit us g) = g_store g.
Proof. induction us; simpl; intro g; [reflexivity|]. rewrite IHus. reflexivity. Qed.

Lemma valid_insert_unit g u id : valid (insert_unit g u) id <-> valid g id.
Proof. unfold valid; simpl. apply phys_get_set_valid. Qed.

Lemma valid_fold_insert : forall us g id, valid (fold_left insert_unit us g) id <-> valid g id.
Proof.
  induction us; simpl; intros g id; [tauto|]. rewrite IHus. apply valid_insert_unit.
Qed.

Lemma grefs_insert_unit g u id : unit_wf u ->
  grefs (insert_unit g u) id =
  if ident_eqb id (u_id u) then match grefs g id with Some _ => Some (urefs u) | None => None end
  else grefs g id.
Proof.
  intro W. unfold grefs, insert_unit; simpl. rewrite phys_get_set, !lift_get_assoc.
  rewrite assoc_lift_set by exact W.
  destruct (ident_eqb id (u_id u)) eqn:E; [|reflexivity].
  apply ident_eqb_eq in E. subst id.
  destruct (phys_get (g_phys g) (u_id u)); [|reflexivity].
  unfold unit_wf, unit_wfb in W. unfold urefs.
  destruct (assoc (u_id u) (l_dict (g_lift g))) as [[v0 t0]|];
    destruct (u_vel u), (u_ts u); try discriminate; reflexivity.
Qed.

Lemma grefs_fold_insert : forall us g id, Forall unit_wf us ->
  grefs (fold_left insert_unit us g) id =
  match find_last id us with
  | Some u => match grefs g id with Some _ => Some (urefs u) | None => None end
  | None => grefs g id
  end.
Proof.
  induction us as [|u r IH]; intros g id W; simpl; [reflexivity|].
  inversion W as [|? ? Wu Wr]; subst. rewrite IH by exact Wr.
  rewrite grefs_insert_unit by exact Wu.
  destruct (find_last id r) as [x|].
  - destruct (ident_eqb id (u_id u)); [|reflexivity]. destruct (grefs g id); reflexivity.
  - destruct (ident_eqb id (u_id u)); reflexivity.
Qed.

Lemma abs_fold_insert us g id : Forall unit_wf us ->
  abs (fold_left insert_unit us g) id =
  match find_last id us with
  | Some u => match abs g id with Some _ => Some (uvals (g_store g) u) | None => None end
  | None => abs g id
  end.
Proof.
  intro W. unfold abs. rewrite store_fold_insert, grefs_fold_insert by exact W.
  destruct (find_last id us); [|reflexivity]. destruct (grefs g id); reflexivity.
Qed.

Lemma find_last_id id : forall us u, find_last id us = Some u -> u_id u = id /\ In u us.
Proof.
  induction us as [|x r IH]; simpl; intros u H; [discriminate|].
  destruct (find_last id r) as [y|].
  - injection H as <-. destruct (IH y eq_refl). auto.
  - destruct (ident_eqb id (u_id x)) eqn:E; [|discriminate]. injection H as <-.
    apply ident_eqb_eq in E. auto.
Qed.

Lemma find_last_none id : forall us, find_last id us = None <-> forall u, In u us -> u_id u <> id.
Proof.
  induction us as [|x r IH]; simpl.
  - split; [intros _ u [] | reflexivity].
  - destruct (find_last id r) as [y|] eqn:F.
    + split; [discriminate|]. intro H. destruct (find_last_id _ _ _ F) as [E I].
      exfalso. apply (H y); auto.
    + destruct (ident_eqb id (u_id x)) eqn:E.
      * apply ident_eqb_eq in E. split; [discriminate|]. intro H. exfalso. apply (H x); auto.
      * apply ident_eqb_neq in E. split; [|reflexivity]. intros _ u [<-|I]; [congruence|].
        apply IH; auto.
Qed.

Lemma greach_insert_unit g u a : greach (insert_unit g u) a -> greach g a \/ In a (unit_addrs u).
Proof.
  intros [[id H]|[id [v [t [H Ha]]]]].
  - simpl in H. rewrite phys_get_set in H. destruct (ident_eqb id (u_id u)).
    + destruct (phys_get (g_phys g) (u_id u)); [|discriminate]. injection H as <-.
      right. left. reflexivity.
    + left. left. eauto.
  - simpl in H. apply assoc_lift_set_incl in H. destruct H as [[_ [Hv Ht]]|H].
    + right. unfold unit_addrs. right. rewrite Hv, Ht. simpl. destruct Ha as [->| ->]; auto.
    + left. right. eauto 6.
Qed.

Lemma greach_fold_insert : forall us g a,
  greach (fold_left insert_unit us g) a -> greach g a \/ exists u, In u us /\ In a (unit_addrs u).
Proof.
  induction us as [|u r IH]; simpl; intros g a H; [auto|].
  apply IH in H. destruct H as [H|[x [I Hx]]].
  - apply greach_insert_unit in H. destruct H; [auto | right; eauto].
  - right; eauto.
Qed.

Lemma ginv_insert_unit g u :
  ginv g -> valid g (u_id u) ->
  (forall a, In a (unit_addrs u) -> (a < next (g_store g))%positive) ->
  ginv (insert_unit g u).
Proof.
  intros [W R L V] Vu B. constructor.
  - exact W.
  - intros a H. apply greach_insert_unit in H. destruct H; auto.
  - simpl. apply lift_ok_set. exact L.
  - intros id H. apply valid_insert_unit. unfold lifted in H; simpl in H.
    apply assoc_lift_set_dom in H. destruct H as [->|H]; [exact Vu | apply V; exact H].
Qed.

Lemma ginv_fold_insert : forall us g,
  ginv g -> (forall u, In u us -> valid g (u_id u)) ->
  (forall u a, In u us -> In a (unit_addrs u) -> (a < next (g_store g))%positive) ->
  ginv (fold_left insert_unit us g).
Proof.
  induction us as [|u r IH]; simpl; intros g G V B; [exact G|].
  apply IH.
  - apply ginv_insert_unit; [exact G | apply V; auto | intros a; apply B; auto].
  - intros x I. apply valid_insert_unit. apply V; auto.
  - intros x a I. simpl. apply B; auto.
Qed.

(* ======================================================================================== *)
(** ** Copies *)

Definition lift_below (l : lifting) (s : store) : Prop :=
  forall id v t, assoc id (l_dict l) = Some (v, t) -> (v < next s)%positive /\ (t < next s)%positive.

Lemma lift_below_ext l s s' : ext s s' -> lift_below l s -> lift_below l s'.
Proof. intros [L _] B id v t H. destruct (B id v t H). split; lia. Qed.

Lemma opt_read_ext s s' o :
  ext s s' -> (forall a, In a (opt_addrs o) -> (a < next s)%positive) ->
  option_map (read s') o = option_map (read s) o.
Proof.
  intros E B. destruct o as [a|]; simpl; [|reflexivity].
  rewrite (ext_read s s' a E); [reflexivity|]. apply B. simpl; auto.
Qed.

Lemma copy_spec s a s' a' : store_wf s -> copy s a = (s', a') ->
  store_wf s' /\ ext s s' /\ a' = next s /\ next s' = Pos.succ (next s) /\ read s' a' = read s a.
Proof.
  intros W H. unfold copy in H.
  assert (Hs : s' = fst (alloc s (read s a))) by (rewrite H; reflexivity).
  assert (Ha : a' = snd (alloc s (read s a))) by (rewrite H; reflexivity).
  subst s' a'.
  split; [apply wf_alloc; exact W|]. split; [apply ext_alloc|].
  split; [reflexivity|]. split; [reflexivity|]. apply read_alloc_new.
Qed.

Lemma copy_opt_spec s o s' o' : store_wf s -> copy_opt s o = (s', o') ->
  store_wf s' /\ ext s s' /\
  (forall a, In a (opt_addrs o') -> (next s <= a < next s')%positive) /\
  option_map (read s') o' = option_map (read s) o /\
  (o' = None <-> o = None).
Proof.
  intros W H. destruct o as [a|]; unfold copy_opt in H.
  - destruct (copy s a) as [s1 a1] eqn:C. injection H as <- <-.
    destruct (copy_spec _ _ _ _ W C) as [W1 [E1 [A1 [N1 R1]]]].
    split; [exact W1|]. split; [exact E1|]. split; [|split].
    + intros b [<-|[]]. lia.
    + simpl. rewrite R1. reflexivity.
    + split; discriminate.
  - injection H as <- <-. split; [exact W|]. split; [apply ext_refl|]. split; [|split].
    + intros a [].
    + reflexivity.
    + tauto.
Qed.

(** One unit: fresh objects for position, velocity, time stamp, holding the current values. *)
Lemma extract_unit_spec l s id p s' u :
  store_wf s -> (p < next s)%positive -> lift_below l s ->
  extract_unit l s id p = (s', u) ->
  store_wf s' /\ ext s s' /\ u_id u = id /\
  (forall a, In a (unit_addrs u) -> (next s <= a < next s')%positive) /\
  NoDup (unit_addrs u) /\
  uvals s' u = rvals s (p, fst (lift_get l id), snd (lift_get l id)) /\
  (u_vel u = None <-> assoc id (l_dict l) = None) /\ unit_wf u.
Proof.
  intros W P B H. unfold extract_unit in H.
  assert (Hb : forall a, In a (opt_addrs (fst (lift_get l id)) ++ opt_addrs (snd (lift_get l id))) ->
               (a < next s)%positive).
  { rewrite lift_get_assoc. destruct (assoc id (l_dict l)) as [[v t]|] eqn:A; simpl; [|tauto].
    destruct (B id v t A). intros a [<-|[<-|[]]]; assumption. }
  assert (Hn : fst (lift_get l id) = None <-> assoc id (l_dict l) = None).
  { rewrite lift_get_assoc. destruct (assoc id (l_dict l)) as [[v t]|]; simpl; split; congruence. }
  assert (Hw : (fst (lift_get l id) = None <-> snd (lift_get l id) = None)).
  { rewrite lift_get_assoc. destruct (assoc id (l_dict l)) as [[v t]|]; simpl; split; congruence. }
  destruct (lift_get l id) as [v t]. simpl in Hb, Hn, Hw.
  destruct (copy s p) as [s1 p1] eqn:C1.
  destruct (copy_opt s1 v) as [s2 v2] eqn:C2.
  destruct (copy_opt s2 t) as [s3 t3] eqn:C3.
  injection H as <- <-.
  destruct (copy_spec _ _ _ _ W C1) as [W1 [E1 [A1 [N1 R1]]]].
  destruct (copy_opt_spec _ _ _ _ W1 C2) as [W2 [E2 [A2 [R2 Z2]]]].
  destruct (copy_opt_spec _ _ _ _ W2 C3) as [W3 [E3 [A3 [R3 Z3]]]].
  pose proof (ext_trans _ _ _ E1 E2) as E12.
  pose proof (ext_trans _ _ _ E12 E3) as E13.
  pose proof (ext_trans _ _ _ E2 E3) as E23.
  assert (L1 : (next s <= next s1)%positive) by (destruct E1; assumption).
  assert (L2 : (next s1 <= next s2)%positive) by (destruct E2; assumption).
  assert (L3 : (next s2 <= next s3)%positive) by (destruct E3; assumption).
  split; [exact W3|]. split; [exact E13|]. split; [reflexivity|].
  split; [|split; [|split; [|split]]].
  - intros a H. unfold unit_addrs in H. simpl in H. destruct H as [<-|H]; [lia|].
    apply in_app_or in H. destruct H as [H|H]; [apply A2 in H | apply A3 in H]; lia.
  - unfold unit_addrs; simpl. constructor.
    + intro H. apply in_app_or in H. destruct H as [H|H]; [apply A2 in H | apply A3 in H]; lia.
    + destruct v2 as [a2|], t3 as [a3|]; simpl; repeat constructor; simpl; try tauto.
      intros [E|[]]. pose proof (A2 a2 (or_introl eq_refl)). pose proof (A3 a3 (or_introl eq_refl)). lia.
  - unfold uvals, urefs, rvals; simpl.
    assert (Rp : read s3 p1 = read s p).
    { rewrite (ext_read s1 s3 p1 E23) by lia. exact R1. }
    assert (Rv : option_map (read s3) v2 = option_map (read s) v).
    { rewrite (opt_read_ext s2 s3 v2 E3) by (intros a Ha; apply A2 in Ha; lia).
      rewrite R2. apply opt_read_ext; [exact E1|]. intros a Ha. apply Hb. apply in_or_app; auto. }
    assert (Rt : option_map (read s3) t3 = option_map (read s) t).
    { rewrite R3. apply opt_read_ext; [exact E12|]. intros a Ha. apply Hb. apply in_or_app; auto. }
    rewrite Rp, Rv, Rt. reflexivity.
  - simpl. split; intro H; [apply Hn; apply Z2; exact H | apply Z2; apply Hn; exact H].
  - unfold unit_wf, unit_wfb; simpl.
    destruct v2, t3; try reflexivity; exfalso.
    + assert (t = None) by (apply Z3; reflexivity). assert (v = None) by (apply Hw; assumption).
      assert (Some a = None) by (apply Z2; assumption). discriminate.
    + assert (v = None) by (apply Z2; reflexivity). assert (t = None) by (apply Hw; assumption).
      assert (Some a = None) by (apply Z3; assumption). discriminate.
Qed.

Lemma NoDup_app_intro {A} (l1 l2 : list A) :
  NoDup l1 -> NoDup l2 -> (forall a, In a l1 -> ~ In a l2) -> NoDup (l1 ++ l2).
Proof.
  induction l1 as [|x r IH]; simpl; intros N1 N2 D; [exact N2|].
  inversion N1; subst. constructor.
  - intro H. apply in_app_or in H. destruct H; [contradiction|]. apply (D x); auto.
  - apply IH; auto.
Qed.

Lemma rvals_ext s s' p v t :
  ext s s' -> (p < next s)%positive ->
  (forall a, In a (opt_addrs v ++ opt_addrs t) -> (a < next s)%positive) ->
  rvals s' (p, v, t) = rvals s (p, v, t).
Proof.
  intros E P B. unfold rvals. rewrite (ext_read s s' p E P).
  rewrite (opt_read_ext s s' v E) by (intros a Ha; apply B; apply in_or_app; auto).
  rewrite (opt_read_ext s s' t E) by (intros a Ha; apply B; apply in_or_app; auto).
  reflexivity.
Qed.

Lemma uvals_ext s s' u :
  ext s s' -> (forall a, In a (unit_addrs u) -> (a < next s)%positive) -> uvals s' u = uvals s u.
Proof.
  intros E B. unfold uvals, urefs. apply rvals_ext; [exact E | apply B; left; reflexivity |].
  intros a Ha. apply B. right. exact Ha.
Qed.

Lemma lift_refs_below l s id :
  lift_below l s ->
  forall a, In a (opt_addrs (fst (lift_get l id)) ++ opt_addrs (snd (lift_get l id))) -> (a < next s)%positive.
Proof.
  intro B. rewrite lift_get_assoc. destruct (assoc id (l_dict l)) as [[v t]|] eqn:A; simpl; [|tauto].
  destruct (B id v t A). intros a [<-|[<-|[]]]; assumption.
Qed.

Lemma extract_children_spec l i s0 : forall cs j s s' us,
  store_wf s -> ext s0 s -> (forall p, In p cs -> (p < next s0)%positive) -> lift_below l s0 ->
  extract_children l s i j cs = (s', us) ->
  store_wf s' /\ ext s s' /\
  (forall a, In a (flat_map unit_addrs us) -> (next s <= a < next s')%positive) /\
  NoDup (flat_map unit_addrs us) /\
  length us = length cs /\
  (forall k u, nth_error us k = Some u ->
     exists p, nth_error cs k = Some p /\ u_id u = Leaf i (j + k) /\
       uvals s' u = rvals s0 (p, fst (lift_get l (Leaf i (j + k))), snd (lift_get l (Leaf i (j + k)))) /\
       unit_wf u /\ (u_vel u = None <-> assoc (Leaf i (j + k)) (l_dict l) = None)).
Proof.
  induction cs as [|pc r IH]; intros j s s' us W E0 P B H; simpl in H.
  - injection H as <- <-. split; [exact W|]. split; [apply ext_refl|].
    split; [intros a []|]. split; [constructor|]. split; [reflexivity|].
    intros k u Hk. destruct k; discriminate.
  - destruct (extract_unit l s (Leaf i j) pc) as [s1 u] eqn:U.
    destruct (extract_children l s1 i (S j) r) as [s2 us'] eqn:C.
    injection H as <- <-.
    assert (L0 : (next s0 <= next s)%positive) by (destruct E0; assumption).
    assert (Ppc : (pc < next s)%positive) by (specialize (P pc (or_introl eq_refl)); lia).
    destruct (extract_unit_spec l s (Leaf i j) pc s1 u W Ppc (lift_below_ext _ _ _ E0 B) U)
      as [W1 [E1 [I1 [A1 [N1 [V1 [Z1 F1]]]]]]].
    assert (E01 : ext s0 s1) by (eapply ext_trans; eauto).
    destruct (IH (S j) s1 s2 us' W1 E01 (fun p Hp => P p (or_intror Hp)) B C)
      as [W2 [E2 [A2 [N2 [Len K2]]]]].
    assert (L1 : (next s <= next s1)%positive) by (destruct E1; assumption).
    assert (L2 : (next s1 <= next s2)%positive) by (destruct E2; assumption).
    split; [exact W2|]. split; [eapply ext_trans; eauto|].
    split; [|split; [|split]].
    + cbn [flat_map]. intros a Ha. apply in_app_or in Ha. destruct Ha as [Ha|Ha]; [apply A1 in Ha | apply A2 in Ha]; lia.
    + cbn [flat_map]. apply NoDup_app_intro; [exact N1 | exact N2 |].
      intros a Ha Hb. apply A1 in Ha. apply A2 in Hb. lia.
    + simpl. rewrite Len. reflexivity.
    + intros k x Hk. destruct k as [|k']; simpl in Hk.
      * injection Hk as <-. exists pc. rewrite Nat.add_0_r. split; [reflexivity|]. split; [exact I1|].
        split; [|split; [exact F1 | exact Z1]].
        rewrite (uvals_ext s1 s2 u E2) by (intros a Ha; apply A1 in Ha; lia).
        rewrite V1. apply rvals_ext; [exact E0 | apply P; left; reflexivity | apply lift_refs_below; exact B].
      * destruct (K2 k' x Hk) as [p [Hp [Hi [Hv [Hw Hz]]]]].
        exists p. rewrite <- plus_n_Sm. simpl in Hi, Hv, Hz. auto.
Qed.

(* ======================================================================================== *)
(** ** extract_from_global_state *)

Definition nchildren (g : gstate) (i : nat) : nat :=
  match nth_error (g_phys g) i with Some (_, cs) => length cs | None => 0 end.

(** The node, its ancestors, its descendants (in the order of the branch). *)
Definition branch_ids (g : gstate) (id : ident) : list ident :=
  match id with
  | Root i => Root i :: map (Leaf i) (seq 0 (nchildren g i))
  | Leaf i j => [Root i; Leaf i j]
  end.

(** What a copying extraction of [id] guarantees. *)
Definition extract_post (g : gstate) (id : ident) (g' : gstate) (b : branch) : Prop :=
  g' = set_store g (g_store g') /\ store_wf (g_store g') /\ ext (g_store g) (g_store g') /\
  (forall a, In a (branch_addrs b) -> (next (g_store g) <= a < next (g_store g'))%positive) /\
  NoDup (branch_addrs b) /\
  map u_id (units b) = branch_ids g id /\
  (forall u, In u (units b) ->
     abs g (u_id u) = Some (uvals (g_store g') u) /\ unit_wf u /\ (u_vel u = None <-> ~ lifted g (u_id u))).

Lemma ginv_lift_below g : ginv g -> lift_below (g_lift g) (g_store g).
Proof.
  intros G id v t H. split; apply (gi_reach g G); right; exists id, v, t; auto.
Qed.

Lemma ginv_phys_below g id p : ginv g -> phys_get (g_phys g) id = Some p -> (p < next (g_store g))%positive.
Proof. intros G H. apply (gi_reach g G). left. eauto. Qed.

Lemma abs_of_refs g id p :
  phys_get (g_phys g) id = Some p ->
  abs g id = Some (rvals (g_store g) (p, fst (lift_get (g_lift g) id), snd (lift_get (g_lift g) id))).
Proof.
  intro H. unfold abs, grefs. rewrite H. destruct (lift_get (g_lift g) id). reflexivity.
Qed.

Lemma map_nth_ids_gen i : forall (us : list unit_) j,
  (forall k u, nth_error us k = Some u -> u_id u = Leaf i (j + k)) ->
  map u_id us = map (Leaf i) (seq j (length us)).
Proof.
  induction us as [|x r IH]; intros j H; simpl; [reflexivity|].
  f_equal.
  - rewrite (H 0 x eq_refl). rewrite Nat.add_0_r. reflexivity.
  - apply IH. intros k u Hk. rewrite (H (S k) u Hk). f_equal. lia.
Qed.

Lemma map_nth_ids (us : list unit_) i n :
  length us = n -> (forall k u, nth_error us k = Some u -> u_id u = Leaf i (0 + k)) ->
  map u_id us = map (Leaf i) (seq 0 n).
Proof. intros <- H. apply map_nth_ids_gen. exact H. Qed.

Theorem extract_spec g id g' b : ginv g -> extract g id = (g', Some b) -> extract_post g id g' b.
Proof.
  intros G H. pose proof (gi_wf g G) as W. pose proof (ginv_lift_below g G) as B.
  destruct id as [i|i j]; simpl in H.
  - destruct (nth_error (g_phys g) i) as [[p cs]|] eqn:N; [|discriminate].
    destruct (extract_unit (g_lift g) (g_store g) (Root i) p) as [s1 ru] eqn:U.
    destruct (extract_children (g_lift g) s1 i 0 cs) as [s2 cus] eqn:C.
    injection H as <- <-.
    assert (Pp : phys_get (g_phys g) (Root i) = Some p) by (simpl; rewrite N; reflexivity).
    pose proof (ginv_phys_below g _ _ G Pp) as Lp.
    destruct (extract_unit_spec _ _ _ _ _ _ W Lp B U) as [W1 [E1 [I1 [A1 [N1 [V1 [Z1 F1]]]]]]].
    assert (Pc : forall pc, In pc cs -> (pc < next (g_store g))%positive).
    { intros pc Hc. apply In_nth_error in Hc. destruct Hc as [k Hk].
      apply (ginv_phys_below g (Leaf i k)); [exact G|]. simpl. rewrite N. exact Hk. }
    destruct (extract_children_spec _ i (g_store g) cs 0 s1 s2 cus W1 E1 Pc B C)
      as [W2 [E2 [A2 [N2 [Len K2]]]]].
    assert (L1 : (next (g_store g) <= next s1)%positive) by (destruct E1; assumption).
    assert (L2 : (next s1 <= next s2)%positive) by (destruct E2; assumption).
    unfold extract_post. cbn [g_store set_store]. unfold units; cbn [b_root b_children map].
    split; [reflexivity|]. split; [exact W2|]. split; [eapply ext_trans; eauto|].
    split; [|split; [|split]].
    + unfold branch_addrs, units; cbn [flat_map b_root b_children].
      intros a Ha. apply in_app_or in Ha. destruct Ha as [Ha|Ha]; [apply A1 in Ha | apply A2 in Ha]; lia.
    + unfold branch_addrs, units; cbn [flat_map b_root b_children].
      apply NoDup_app_intro; [exact N1 | exact N2 |]. intros a Ha Hb. apply A1 in Ha. apply A2 in Hb. lia.
    + unfold branch_ids, nchildren. rewrite N, I1. f_equal. apply map_nth_ids; [exact Len|].
      intros k u Hk. destruct (K2 k u Hk) as [_ [_ [Hi _]]]. exact Hi.
    + intros u [<-|Hu].
      * rewrite I1. split; [|split; [exact F1|]].
        -- rewrite (abs_of_refs g (Root i) p Pp). f_equal.
           rewrite (uvals_ext s1 s2 ru E2) by (intros a Ha; apply A1 in Ha; lia). symmetry. exact V1.
        -- unfold lifted. rewrite Z1. split; [intros -> ?; congruence|].
           intro Hn. destruct (assoc (Root i) (l_dict (g_lift g))); [exfalso; apply Hn; discriminate | reflexivity].
      * apply In_nth_error in Hu. destruct Hu as [k Hk].
        destruct (K2 k u Hk) as [pc [Hpc [Hi [Hv [Hw Hz]]]]]. simpl in Hi, Hv, Hz.
        rewrite Hi. split; [|split; [exact Hw|]].
        -- assert (Pl : phys_get (g_phys g) (Leaf i k) = Some pc) by (simpl; rewrite N; exact Hpc).
           rewrite (abs_of_refs g (Leaf i k) pc Pl). f_equal. symmetry. exact Hv.
        -- unfold lifted. rewrite Hz. split; [intros -> ?; congruence|].
           intro Hn. destruct (assoc (Leaf i k) (l_dict (g_lift g))); [exfalso; apply Hn; discriminate | reflexivity].
  - destruct (nth_error (g_phys g) i) as [[p cs]|] eqn:N; [|discriminate].
    destruct (nth_error cs j) as [pc|] eqn:Nc; [|discriminate].
    destruct (extract_unit (g_lift g) (g_store g) (Root i) p) as [s1 ru] eqn:U.
    destruct (extract_unit (g_lift g) s1 (Leaf i j) pc) as [s2 cu] eqn:C.
    injection H as <- <-.
    assert (Pp : phys_get (g_phys g) (Root i) = Some p) by (simpl; rewrite N; reflexivity).
    assert (Pl : phys_get (g_phys g) (Leaf i j) = Some pc) by (simpl; rewrite N; exact Nc).
    pose proof (ginv_phys_below g _ _ G Pp) as Lp.
    pose proof (ginv_phys_below g _ _ G Pl) as Lc.
    destruct (extract_unit_spec _ _ _ _ _ _ W Lp B U) as [W1 [E1 [I1 [A1 [N1 [V1 [Z1 F1]]]]]]].
    assert (L1 : (next (g_store g) <= next s1)%positive) by (destruct E1; assumption).
    assert (Lc1 : (pc < next s1)%positive) by lia.
    destruct (extract_unit_spec _ _ _ _ _ _ W1 Lc1 (lift_below_ext _ _ _ E1 B) C)
      as [W2 [E2 [I2 [A2 [N2 [V2 [Z2 F2]]]]]]].
    assert (L2 : (next s1 <= next s2)%positive) by (destruct E2; assumption).
    unfold extract_post. cbn [g_store set_store]. unfold units; cbn [b_root b_children map].
    split; [reflexivity|]. split; [exact W2|]. split; [eapply ext_trans; eauto|].
    split; [|split; [|split]].
    + unfold branch_addrs, units; cbn [flat_map b_root b_children]. rewrite app_nil_r.
      intros a Ha. apply in_app_or in Ha. destruct Ha as [Ha|Ha]; [apply A1 in Ha | apply A2 in Ha]; lia.
    + unfold branch_addrs, units; cbn [flat_map b_root b_children]. rewrite app_nil_r.
      apply NoDup_app_intro; [exact N1 | exact N2 |]. intros a Ha Hb. apply A1 in Ha. apply A2 in Hb. lia.
    + rewrite I1, I2. reflexivity.
    + intros u [<-|[<-|[]]].
      * rewrite I1. split; [|split; [exact F1|]].
        -- rewrite (abs_of_refs g (Root i) p Pp). f_equal.
           rewrite (uvals_ext s1 s2 ru E2) by (intros a Ha; apply A1 in Ha; lia). symmetry. exact V1.
        -- unfold lifted. rewrite Z1. split; [intros -> ?; congruence|].
           intro Hn. destruct (assoc (Root i) (l_dict (g_lift g))); [exfalso; apply Hn; discriminate | reflexivity].
      * rewrite I2. split; [|split; [exact F2|]].
        -- rewrite (abs_of_refs g (Leaf i j) pc Pl). f_equal. rewrite V2. symmetry.
           apply rvals_ext; [exact E1 | exact Lc | apply lift_refs_below; exact B].
        -- unfold lifted. rewrite Z2. split; [intros -> ?; congruence|].
           intro Hn. destruct (assoc (Leaf i j) (l_dict (g_lift g))); [exfalso; apply Hn; discriminate | reflexivity].
Qed.

(* ======================================================================================== *)
(** ** Frame lemmas: the abstraction reads only objects reachable from the global state *)

Lemma grefs_reach g id p v t :
  grefs g id = Some (p, v, t) ->
  forall a, In a (p :: opt_addrs v ++ opt_addrs t) -> greach g a.
Proof.
  unfold grefs. destruct (phys_get (g_phys g) id) as [p0|] eqn:P; [|discriminate].
  rewrite lift_get_assoc. destruct (assoc id (l_dict (g_lift g))) as [[v0 t0]|] eqn:A;
    intro H; injection H as <- <- <-; simpl.
  - intros a [<-|[<-|[<-|[]]]]; [left; eauto | right; exists id, v0, t0; auto | right; exists id, v0, t0; auto].
  - intros a [<-|[]]. left; eauto.
Qed.

Lemma rvals_frame s s' p v t :
  (forall a, In a (p :: opt_addrs v ++ opt_addrs t) -> read s' a = read s a) ->
  rvals s' (p, v, t) = rvals s (p, v, t).
Proof.
  intro H. unfold rvals. rewrite (H p (or_introl eq_refl)).
  assert (option_map (read s') v = option_map (read s) v) as ->.
  { destruct v as [a|]; simpl; [|reflexivity]. rewrite (H a); [reflexivity|]. right. simpl. auto. }
  assert (option_map (read s') t = option_map (read s) t) as ->.
  { destruct t as [a|]; simpl; [|reflexivity]. rewrite (H a); [reflexivity|]. right. apply in_or_app. simpl; auto. }
  reflexivity.
Qed.

Lemma abs_frame g s' id :
  (forall a, greach g a -> read s' a = read (g_store g) a) ->
  abs (set_store g s') id = abs g id.
Proof.
  intro H. unfold abs. change (grefs (set_store g s') id) with (grefs g id).
  destruct (grefs g id) as [[[p v] t]|] eqn:R; [|reflexivity]. simpl. f_equal.
  apply rvals_frame. intros a Ha. apply H. eapply grefs_reach; eauto.
Qed.

Lemma abs_ext g s' id : ginv g -> ext (g_store g) s' -> abs (set_store g s') id = abs g id.
Proof.
  intros G E. apply abs_frame. intros a Ha. apply ext_read; [exact E | apply (gi_reach g G); exact Ha].
Qed.

Lemma abs_write g a v id : ~ greach g a -> abs (set_store g (write (g_store g) a v)) id = abs g id.
Proof.
  intro N. apply abs_frame. intros b Hb. apply read_write_other. intros ->. contradiction.
Qed.

Lemma ginv_set_store g s' : ginv g -> store_wf s' -> (next (g_store g) <= next s')%positive -> ginv (set_store g s').
Proof.
  intros [W R L V] W' Le. constructor; simpl; auto.
  intros a Ha. specialize (R a Ha). lia.
Qed.

Lemma set_store_id g : set_store g (g_store g) = g.
Proof. destruct g; reflexivity. Qed.

Lemma extract_none g id g' : extract g id = (g', None) -> g' = g.
Proof.
  destruct id as [i|i j]; simpl.
  - destruct (nth_error (g_phys g) i) as [[p cs]|]; [|congruence].
    destruct (extract_unit _ _ _ _). destruct (extract_children _ _ _ _ _). discriminate.
  - destruct (nth_error (g_phys g) i) as [[p cs]|]; [|congruence].
    destruct (nth_error cs j); [|congruence].
    destruct (extract_unit _ _ _ _). destruct (extract_unit _ _ _ _). discriminate.
Qed.

Lemma extract_valid_some g id : valid g id -> exists b, snd (extract g id) = Some b.
Proof.
  unfold valid. destruct id as [i|i j]; simpl.
  - destruct (nth_error (g_phys g) i) as [[p cs]|]; simpl; [|congruence]. intros _.
    destruct (extract_unit _ _ _ _). destruct (extract_children _ _ _ _ _). simpl. eauto.
  - destruct (nth_error (g_phys g) i) as [[p cs]|]; simpl; [|congruence].
    destruct (nth_error cs j); [|congruence]. intros _.
    destruct (extract_unit _ _ _ _). destruct (extract_unit _ _ _ _). simpl. eauto.
Qed.

Lemma abs_some_valid g id x : abs g id = Some x -> valid g id.
Proof.
  unfold abs, grefs, valid. destruct (phys_get (g_phys g) id); [congruence | discriminate].
Qed.

(** What holds of a branch handed out by a copying extraction, relative to a later store [sf]. *)
Definition extracted (g : gstate) (sf : store) (id : ident) (b : branch) : Prop :=
  (forall a, In a (branch_addrs b) -> (next (g_store g) <= a < next sf)%positive) /\
  map u_id (units b) = branch_ids g id /\
  (forall u, In u (units b) ->
     abs g (u_id u) = Some (uvals sf u) /\ unit_wf u /\ (u_vel u = None <-> ~ lifted g (u_id u))).

Lemma extract_post_extracted g id g' b : extract_post g id g' b -> extracted g (g_store g') id b.
Proof. intros [_ [_ [_ [A [_ [I U]]]]]]. split; [exact A | split; [exact I | exact U]]. Qed.

Lemma uvals_branch_ext s s' b u :
  ext s s' -> (forall a, In a (branch_addrs b) -> (a < next s)%positive) -> In u (units b) ->
  uvals s' u = uvals s u.
Proof.
  intros E B Hu. apply uvals_ext; [exact E|]. intros a Ha. apply B.
  unfold branch_addrs. apply in_flat_map. eauto.
Qed.

Lemma Forall2_weaken {A B} (P Q : A -> B -> Prop) l1 l2 :
  (forall a b, P a b -> Q a b) -> Forall2 P l1 l2 -> Forall2 Q l1 l2.
Proof. intros H F. induction F; constructor; auto. Qed.

Lemma Forall2_In_r {A B} (P : A -> B -> Prop) l1 l2 b :
  Forall2 P l1 l2 -> In b l2 -> exists a, In a l1 /\ P a b.
Proof.
  intro F. induction F as [|x y l l' H F IH]; simpl; [intros []|].
  intros [<-|Hb]; [eauto|]. destruct (IH Hb) as [a [Ha Hp]]. eauto.
Qed.

Lemma extract_list_spec : forall ids g g' bs,
  ginv g -> (forall id, In id ids -> valid g id) -> extract_list g ids = (g', bs) ->
  g' = set_store g (g_store g') /\ store_wf (g_store g') /\ ext (g_store g) (g_store g') /\
  Forall2 (extracted g (g_store g')) ids bs /\ NoDup (flat_map branch_addrs bs).
Proof.
  induction ids as [|id r IH]; intros g g' bs G V H; simpl in H.
  - injection H as <- <-. rewrite set_store_id.
    split; [reflexivity|]. split; [apply (gi_wf g G)|]. split; [apply ext_refl|]. split; constructor.
  - destruct (extract g id) as [g1 ob] eqn:X.
    destruct (extract_list g1 r) as [g2 bs'] eqn:Y. injection H as <- <-.
    destruct (extract_valid_some g id (V id (or_introl eq_refl))) as [b Hb].
    rewrite X in Hb. simpl in Hb. subst ob.
    pose proof (extract_spec g id g1 b G X) as P.
    destruct P as [S1 [W1 [E1 [A1 [N1 [I1 U1]]]]]].
    assert (L1 : (next (g_store g) <= next (g_store g1))%positive) by (destruct E1; assumption).
    assert (G1 : ginv g1) by (rewrite S1; apply ginv_set_store; assumption).
    assert (V1 : forall id', In id' r -> valid g1 id').
    { intros id' Hi. rewrite S1. unfold valid; simpl. apply V. right. exact Hi. }
    destruct (IH g1 g2 bs' G1 V1 Y) as [S2 [W2 [E2 [F2 N2]]]].
    assert (L2 : (next (g_store g1) <= next (g_store g2))%positive) by (destruct E2; assumption).
    split; [rewrite S2, S1; reflexivity|]. split; [exact W2|]. split; [eapply ext_trans; eauto|].
    split.
    + constructor.
      * split; [|split; [exact I1|]].
        -- intros a Ha. apply A1 in Ha. lia.
        -- intros u Hu. destruct (U1 u Hu) as [Ab [Wf Z]]. split; [|split; assumption].
           rewrite Ab. f_equal. symmetry. eapply uvals_branch_ext; eauto. intros a Ha. apply A1 in Ha. lia.
      * eapply Forall2_weaken; [|exact F2]. intros id' b' [A' [I' U']].
        split; [|split].
        -- intros a Ha. apply A' in Ha. lia.
        -- rewrite I'. rewrite S1. reflexivity.
        -- intros u Hu. destruct (U' u Hu) as [Ab [Wf Z]]. split; [|split; [exact Wf|]].
           ++ rewrite <- Ab. rewrite S1. symmetry. apply abs_ext; assumption.
           ++ rewrite Z. rewrite S1. reflexivity.
    + cbn [flat_map]. apply NoDup_app_intro; [exact N1 | exact N2 |].
      intros a Ha Hb. apply A1 in Ha. apply in_flat_map in Hb. destruct Hb as [b' [Hb' Ha']].
      destruct (Forall2_In_r _ _ _ b' F2 Hb') as [id' [_ [A' _]]]. apply A' in Ha'. lia.
Qed.

(* ======================================================================================== *)
(** ** The independent-active rule *)

Lemma filter_len_le {A} (p : A -> bool) (l : list A) : length (filter p l) <= length l.
Proof. induction l; simpl; [lia|]. destruct (p a); simpl; lia. Qed.

Lemma filter_all_length {A} (p : A -> bool) (l : list A) :
  length (filter p l) = length l <-> forall x, In x l -> p x = true.
Proof.
  induction l as [|a r IH]; simpl.
  - split; [intros _ x [] | reflexivity].
  - destruct (p a) eqn:E; simpl.
    + split.
      * intros H x [<-|Hx]; [exact E|]. apply IH; [lia | exact Hx].
      * intro H. f_equal. apply IH. intros x Hx. apply H. auto.
    + split.
      * intro H. pose proof (filter_len_le p r). lia.
      * intro H. specialize (H a (or_introl eq_refl)). congruence.
Qed.

Lemma filter_not_all {A} (p : A -> bool) (l : list A) :
  length (filter p l) <> length l -> exists x, In x l /\ p x = false.
Proof.
  induction l as [|a r IH]; simpl; [congruence|].
  destruct (p a) eqn:E; simpl.
  - intro H. destruct IH as [x [Hx Px]]; [lia|]. eauto.
  - intros _. eauto.
Qed.

Lemma is_lifted_iff g id : ginv g -> (is_lifted g id = true <-> lifted g id).
Proof. intro G. apply (gi_lift g G). Qed.

Lemma is_lifted_false g id : ginv g -> (is_lifted g id = false <-> ~ lifted g id).
Proof.
  intro G. rewrite <- (is_lifted_iff g id G). destruct (is_lifted g id); split; congruence.
Qed.

Lemma root_valid g i : i < length (g_phys g) <-> valid g (Root i).
Proof.
  unfold valid; simpl. rewrite <- nth_error_Some.
  destruct (nth_error (g_phys g) i); simpl; split; congruence.
Qed.

(** One level ([_yield_independent_lifted_identifiers_simple]): the lifted identifiers. *)
Lemma active_ids_rule1 g : g_levels g = 1 ->
  forall id, In id (active_ids g) <-> exists i, id = Root i /\ i < length (g_phys g) /\ lifted g (Root i).
Proof.
  intros L id. unfold active_ids. rewrite L. simpl. rewrite filter_In, in_map_iff. split.
  - intros [[i [<- Hi]] H]. apply in_seq in Hi. exists i. split; [reflexivity|]. split; [lia|].
    unfold lifted. destruct (assoc (Root i) (l_dict (g_lift g))); congruence.
  - intros [i [-> [Hi H]]]. split.
    + exists i. split; [reflexivity|]. apply in_seq. lia.
    + unfold lifted in H. destruct (assoc (Root i) (l_dict (g_lift g))); congruence.
Qed.

(** Two levels ([yield_independent_lifted_identifiers]): a lifted root whose [g_npr] children are
    all lifted is extracted as a composite object; otherwise its lifted children are. *)
Lemma active_ids_rule2 g : ginv g -> g_levels g <> 1 ->
  forall id, In id (active_ids g) <->
  match id with
  | Root i => i < length (g_phys g) /\ lifted g (Root i) /\ forall j, j < g_npr g -> lifted g (Leaf i j)
  | Leaf i j => i < length (g_phys g) /\ lifted g (Root i) /\ j < g_npr g /\ lifted g (Leaf i j) /\
                exists j', j' < g_npr g /\ ~ lifted g (Leaf i j')
  end.
Proof.
  intros G L id. unfold active_ids. apply Nat.eqb_neq in L. rewrite L.
  rewrite in_flat_map.
  set (ls := fun i => filter (fun j => is_lifted g (Leaf i j)) (seq 0 (g_npr g))).
  assert (Hall : forall i, length (ls i) = g_npr g <-> forall j, j < g_npr g -> lifted g (Leaf i j)).
  { intro i. unfold ls. rewrite <- (seq_length (g_npr g) 0) at 2. rewrite filter_all_length.
    split; intros H j Hj.
    - apply is_lifted_iff; [exact G|]. apply H. apply in_seq. lia.
    - apply is_lifted_iff; [exact G|]. apply H. apply in_seq in Hj. lia. }
  split.
  - intros [i [Hi H]]. apply in_seq in Hi.
    destruct (is_lifted g (Root i)) eqn:R; [|destruct H].
    apply is_lifted_iff in R; [|exact G].
    fold (ls i) in H. destruct (Nat.eqb (length (ls i)) (g_npr g)) eqn:E.
    + apply Nat.eqb_eq in E. destruct H as [<-|[]]. split; [lia|]. split; [exact R|]. apply (proj1 (Hall i)). exact E.
    + apply Nat.eqb_neq in E. apply in_map_iff in H. destruct H as [j [<- Hj]].
      unfold ls in Hj. apply filter_In in Hj. destruct Hj as [Hj Lj]. apply in_seq in Hj.
      split; [lia|]. split; [exact R|]. split; [lia|]. split; [apply is_lifted_iff; assumption|].
      unfold ls in E. rewrite <- (seq_length (g_npr g) 0) in E at 2.
      apply filter_not_all in E. destruct E as [j' [Hj' Fj']]. apply in_seq in Hj'.
      exists j'. split; [lia|]. apply is_lifted_false; assumption.
  - destruct id as [i|i j].
    + intros [Hi [R A]]. exists i. split; [apply in_seq; lia|].
      apply (is_lifted_iff g _ G) in R. rewrite R. fold (ls i).
      pose proof (proj2 (Hall i) A) as A'. apply Nat.eqb_eq in A'. rewrite A'. left. reflexivity.
    + intros [Hi [R [Hj [Lj [j' [Hj' N]]]]]]. exists i. split; [apply in_seq; lia|].
      apply (is_lifted_iff g _ G) in R. rewrite R. fold (ls i).
      destruct (Nat.eqb (length (ls i)) (g_npr g)) eqn:E.
      * apply Nat.eqb_eq in E. pose proof (proj1 (Hall i) E) as E'. exfalso. apply N. apply E'. exact Hj'.
      * apply in_map. unfold ls. apply filter_In. split; [apply in_seq; lia|].
        apply is_lifted_iff; assumption.
Qed.

Lemma active_ids_valid g : ginv g -> forall id, In id (active_ids g) -> valid g id.
Proof.
  intros G id H. destruct (Nat.eq_dec (g_levels g) 1) as [L|L].
  - apply (active_ids_rule1 g L) in H. destruct H as [i [-> [Hi _]]]. apply root_valid. exact Hi.
  - apply (active_ids_rule2 g G L) in H. destruct id as [i|i j].
    + apply root_valid. tauto.
    + apply (gi_lvalid g G). tauto.
Qed.

Theorem extract_active_spec g g' bs : ginv g -> extract_active g = (g', bs) ->
  g' = set_store g (g_store g') /\ store_wf (g_store g') /\ ext (g_store g) (g_store g') /\
  Forall2 (extracted g (g_store g')) (active_ids g) bs /\ NoDup (flat_map branch_addrs bs).
Proof.
  intros G H. apply extract_list_spec; [exact G | apply active_ids_valid; exact G | exact H].
Qed.

(* ======================================================================================== *)
(** ** extract_global_state hands out the global objects themselves *)

Lemma global_unit_refs g id p : phys_get (g_phys g) id = Some p ->
  u_id (global_unit g id p) = id /\ grefs g id = Some (urefs (global_unit g id p)).
Proof.
  intro H. unfold global_unit, grefs. rewrite H. destruct (lift_get (g_lift g) id). simpl. auto.
Qed.

Lemma global_children_In g i : forall cs j u, In u (global_children g i j cs) ->
  exists k p, nth_error cs k = Some p /\ u = global_unit g (Leaf i (j + k)) p.
Proof.
  induction cs as [|pc r IH]; simpl; intros j u H; [destruct H|].
  destruct H as [<-|H].
  - exists 0, pc. rewrite Nat.add_0_r. auto.
  - destruct (IH (S j) u H) as [k [p [Hk Hu]]]. exists (S k), p. rewrite <- plus_n_Sm. auto.
Qed.

Lemma global_roots_In g : forall ph i b, In b (global_roots g i ph) ->
  exists k p cs, nth_error ph k = Some (p, cs) /\
    b = mkBranch (global_unit g (Root (i + k)) p) (global_children g (i + k) 0 cs).
Proof.
  induction ph as [|[p cs] r IH]; simpl; intros i b H; [destruct H|].
  destruct H as [<-|H].
  - exists 0, p, cs. rewrite Nat.add_0_r. auto.
  - destruct (IH (S i) b H) as [k [p' [cs' [Hk Hb]]]]. exists (S k), p', cs'. rewrite <- plus_n_Sm. auto.
Qed.

Theorem extract_global_aliases_lemma g b u :
  In b (extract_global g) -> In u (units b) -> grefs g (u_id u) = Some (urefs u).
Proof.
  intros Hb Hu. unfold extract_global in Hb. apply global_roots_In in Hb.
  destruct Hb as [k [p [cs [Hk ->]]]]. simpl in Hk. destruct Hu as [<-|Hu].
  - simpl. assert (P : phys_get (g_phys g) (Root k) = Some p) by (simpl; rewrite Hk; reflexivity).
    destruct (global_unit_refs g _ _ P) as [-> R]. exact R.
  - simpl in Hu. apply global_children_In in Hu. destruct Hu as [j [pc [Hj ->]]]. simpl.
    assert (P : phys_get (g_phys g) (Leaf k j) = Some pc) by (simpl; rewrite Hk; exact Hj).
    destruct (global_unit_refs g _ _ P) as [-> R]. exact R.
Qed.

Lemma grefs_some_valid g id r : grefs g id = Some r -> valid g id.
Proof. unfold grefs, valid. destruct (phys_get (g_phys g) id); [congruence | discriminate]. Qed.

(* ======================================================================================== *)
(** ** The invariant is kept by every operation (disciplined or not) *)

Lemma In_branch_addrs b a : In a (branch_addrs b) <-> exists u, In u (units b) /\ In a (unit_addrs u).
Proof. unfold branch_addrs. apply in_flat_map. Qed.

Lemma cinv_intro g' held' owned' :
  ginv g' ->
  (forall b u a, In b held' -> In u (units b) -> In a (unit_addrs u) -> (a < next (g_store g'))%positive) ->
  (forall b u, In b held' -> In u (units b) -> valid g' (u_id u)) ->
  (forall a, In a owned' -> (a < next (g_store g'))%positive /\ ~ greach g' a) ->
  cinv (mkC g' held' owned').
Proof.
  intros G H V O. constructor; simpl; auto.
  - intros b a Hb Ha. apply In_branch_addrs in Ha. destruct Ha as [u [Hu Ha]]. eauto.
  - intros a Ha. apply O. exact Ha.
  - intros a Ha. apply O. exact Ha.
Qed.

Lemma cinv_held_unit c b u a : cinv c -> In b (c_held c) -> In u (units b) -> In a (unit_addrs u) ->
  (a < next (g_store (c_g c)))%positive.
Proof. intros C Hb Hu Ha. apply (ci_held c C b a Hb). apply In_branch_addrs. eauto. Qed.

Lemma units_map_unit b k fn u' : In u' (units (map_unit b k fn)) ->
  In u' (units b) \/ exists u, In u (units b) /\ u' = fn u.
Proof.
  unfold units. destruct k as [|k']; simpl.
  - intros [<-|H]; [right; eauto | left; auto].
  - intros [<-|H]; [left; auto|]. apply In_upd in H. destruct H as [H|[y [Hy ->]]]; [left; auto | right; eauto].
Qed.

Lemma rebind_units c h k fn b' u' : In b' (rebind c h k fn) -> In u' (units b') ->
  (exists b, In b (c_held c) /\ In u' (units b)) \/
  (exists b u, In b (c_held c) /\ In u (units b) /\ u' = fn u).
Proof.
  unfold rebind. intros Hb Hu. apply In_upd in Hb. destruct Hb as [Hb|[b [Hb ->]]].
  - left; eauto.
  - apply units_map_unit in Hu. destruct Hu as [Hu|[u [Hu ->]]]; [left; eauto | right; eauto].
Qed.

Lemma greach_set_store g s a : greach (set_store g s) a <-> greach g a.
Proof. unfold greach; simpl. tauto. Qed.

Lemma held_unit_In c h k u : held_unit c h k = Some u -> exists b, In b (c_held c) /\ In u (units b).
Proof.
  unfold held_unit. destruct (nth_error (c_held c) h) as [b|] eqn:N; [|discriminate].
  intro H. exists b. split; [eapply nth_error_In; eauto|].
  unfold get_unit in H. unfold units. destruct k; [injection H as <-; left; reflexivity|].
  right. eapply nth_error_In; eauto.
Qed.

Lemma field_set_id f o u : u_id (field_set f o u) = u_id u.
Proof. destruct f, o; reflexivity. Qed.

Lemma field_set_addrs f o u a : In a (unit_addrs (field_set f o u)) -> In a (unit_addrs u) \/ o = Some a.
Proof.
  unfold unit_addrs. destruct f; simpl.
  - destruct o as [x|]; simpl; [|tauto]. intros [<-|H]; [right; reflexivity | left; right; exact H].
  - intros [<-|H]; [left; left; reflexivity|]. apply in_app_or in H. destruct H as [H|H].
    + destruct o as [x|]; simpl in H; [|destruct H]. destruct H as [<-|[]]. right. reflexivity.
    + left. right. apply in_or_app. auto.
  - intros [<-|H]; [left; left; reflexivity|]. apply in_app_or in H. destruct H as [H|H].
    + left. right. apply in_or_app. auto.
    + destruct o as [x|]; simpl in H; [|destruct H]. destruct H as [<-|[]]. right. reflexivity.
Qed.

Lemma field_get_addrs f u a : field_get u f = Some a -> In a (unit_addrs u).
Proof.
  unfold unit_addrs. destruct f; simpl.
  - intro H. injection H as <-. left. reflexivity.
  - intros ->. right. simpl. left. reflexivity.
  - intros ->. right. apply in_or_app. right. simpl. left. reflexivity.
Qed.

Lemma select_In {A} (l : list A) : forall hs x, In x (select l hs) -> In x l.
Proof.
  induction hs as [|h r IH]; simpl; intros x H; [destruct H|].
  destruct (nth_error l h) eqn:N; [|auto]. destruct H as [<-|H]; [eapply nth_error_In; eauto | auto].
Qed.

Lemma inb_In a l : inb a l = true <-> In a l.
Proof.
  unfold inb. rewrite existsb_exists. split.
  - intros [x [Hx E]]. apply Pos.eqb_eq in E. subst. exact Hx.
  - intro H. exists a. split; [exact H | apply Pos.eqb_refl].
Qed.

Lemma In_flat_units bs u : In u (flat bs) <-> exists b, In b bs /\ In u (units b).
Proof. unfold flat. apply in_flat_map. Qed.

Theorem cinv_step c o : cinv c -> cinv (step c o).
Proof.
  intro C. pose proof (ci_g c C) as G. destruct o; unfold step.
  - (* OExtract *)
    destruct (extract (c_g c) id) as [g' [b|]] eqn:X.
    + destruct (extract_spec _ _ _ _ G X) as [S1 [W1 [E1 [A1 [N1 [I1 U1]]]]]].
      assert (L1 : (next (g_store (c_g c)) <= next (g_store g'))%positive) by (destruct E1; assumption).
      assert (G' : ginv g') by (rewrite S1; apply ginv_set_store; assumption).
      apply cinv_intro; [exact G' | | |].
      * intros b0 u a Hb Hu Ha. apply in_app_or in Hb. destruct Hb as [Hb|[<-|[]]].
        -- pose proof (cinv_held_unit c b0 u a C Hb Hu Ha). lia.
        -- assert (In a (branch_addrs b)) by (apply In_branch_addrs; eauto). apply A1 in H. lia.
      * intros b0 u Hb Hu. rewrite S1. unfold valid; simpl. apply in_app_or in Hb. destruct Hb as [Hb|[<-|[]]].
        -- apply (ci_valid c C b0 u Hb Hu).
        -- destruct (U1 u Hu) as [Ab _]. eapply abs_some_valid; eauto.
      * intros a Ha. rewrite S1, greach_set_store. apply in_app_or in Ha. destruct Ha as [Ha|Ha].
        -- split; [pose proof (ci_owned c C a Ha); simpl; lia | apply (ci_sep c C a Ha)].
        -- apply A1 in Ha. split; [simpl; lia|]. intro R. apply (gi_reach _ G) in R. lia.
    + apply extract_none in X. subst g'. destruct C; constructor; assumption.
  - (* OExtractActive *)
    destruct (extract_active (c_g c)) as [g' bs] eqn:X.
    destruct (extract_active_spec _ _ _ G X) as [S1 [W1 [E1 [F1 N1]]]].
    assert (L1 : (next (g_store (c_g c)) <= next (g_store g'))%positive) by (destruct E1; assumption).
    assert (G' : ginv g') by (rewrite S1; apply ginv_set_store; assumption).
    apply cinv_intro; [exact G' | | |].
    + intros b0 u a Hb Hu Ha. apply in_app_or in Hb. destruct Hb as [Hb|Hb].
      * pose proof (cinv_held_unit c b0 u a C Hb Hu Ha). lia.
      * destruct (Forall2_In_r _ _ _ b0 F1 Hb) as [id [_ [A _]]].
        assert (In a (branch_addrs b0)) by (apply In_branch_addrs; eauto). apply A in H. lia.
    + intros b0 u Hb Hu. rewrite S1. unfold valid; simpl. apply in_app_or in Hb. destruct Hb as [Hb|Hb].
      * apply (ci_valid c C b0 u Hb Hu).
      * destruct (Forall2_In_r _ _ _ b0 F1 Hb) as [id [_ [_ [_ U]]]].
        destruct (U u Hu) as [Ab _]. eapply abs_some_valid; eauto.
    + intros a Ha. rewrite S1, greach_set_store. apply in_app_or in Ha. destruct Ha as [Ha|Ha].
      * split; [pose proof (ci_owned c C a Ha); simpl; lia | apply (ci_sep c C a Ha)].
      * apply in_flat_map in Ha. destruct Ha as [b0 [Hb Ha]].
        destruct (Forall2_In_r _ _ _ b0 F1 Hb) as [id [_ [A _]]]. apply A in Ha.
        split; [simpl; lia|]. intro R. apply (gi_reach _ G) in R. lia.
  - (* OExtractGlobal *)
    apply cinv_intro; [exact G | | |].
    + intros b u a Hb Hu Ha. apply in_app_or in Hb. destruct Hb as [Hb|Hb].
      * eapply cinv_held_unit; eauto.
      * pose proof (extract_global_aliases_lemma _ _ _ Hb Hu) as R. apply (gi_reach _ G).
        unfold urefs in R. eapply grefs_reach; [exact R|]. exact Ha.
    + intros b u Hb Hu. apply in_app_or in Hb. destruct Hb as [Hb|Hb].
      * apply (ci_valid c C b u Hb Hu).
      * eapply grefs_some_valid. eapply extract_global_aliases_lemma; eauto.
    + intros a Ha. split; [apply (ci_owned c C a Ha) | apply (ci_sep c C a Ha)].
  - (* OWrite *)
    destruct (target c h k f) as [a|]; [|exact C].
    assert (G' : ginv (set_store (c_g c) (write (g_store (c_g c)) a v))).
    { apply ginv_set_store; [exact G | apply wf_write; apply (gi_wf _ G) | rewrite next_write; lia]. }
    apply cinv_intro; [exact G' | | |]; cbn [g_store set_store].
    + intros b u a0 Hb Hu Ha. rewrite next_write. eapply cinv_held_unit; eauto.
    + intros b u Hb Hu. apply (ci_valid c C b u Hb Hu).
    + intros a0 Ha. rewrite greach_set_store, next_write.
      split; [apply (ci_owned c C a0 Ha) | apply (ci_sep c C a0 Ha)].
  - (* ONew *)
    destruct (held_unit c h k) as [u0|] eqn:HU; [|exact C].
    destruct (alloc (g_store (c_g c)) v) as [s' a] eqn:AL.
    assert (Hs : s' = fst (alloc (g_store (c_g c)) v)) by (rewrite AL; reflexivity).
    assert (Ha : a = next (g_store (c_g c))) by (pose proof (alloc_addr (g_store (c_g c)) v) as Q; rewrite AL in Q; exact Q).
    assert (W' : store_wf s') by (rewrite Hs; apply wf_alloc; apply (gi_wf _ G)).
    assert (N' : next s' = Pos.succ (next (g_store (c_g c)))) by (rewrite Hs; reflexivity).
    assert (G' : ginv (set_store (c_g c) s')) by (apply ginv_set_store; [exact G | exact W' | lia]).
    apply cinv_intro; [exact G' | | |]; cbn [g_store set_store].
    + intros b' u' a' Hb Hu Ha'. destruct (rebind_units c h k _ b' u' Hb Hu) as [[b [Hb0 Hu0]]|[b [u [Hb0 [Hu0 ->]]]]].
      * pose proof (cinv_held_unit c b u' a' C Hb0 Hu0 Ha'). lia.
      * apply field_set_addrs in Ha'. destruct Ha' as [Ha'|Ha'].
        -- pose proof (cinv_held_unit c b u a' C Hb0 Hu0 Ha'). lia.
        -- injection Ha' as <-. lia.
    + intros b' u' Hb Hu. unfold valid; simpl.
      destruct (rebind_units c h k _ b' u' Hb Hu) as [[b [Hb0 Hu0]]|[b [u [Hb0 [Hu0 ->]]]]].
      * apply (ci_valid c C b u' Hb0 Hu0).
      * rewrite field_set_id. apply (ci_valid c C b u Hb0 Hu0).
    + intros a' Ha'. rewrite greach_set_store. apply in_app_or in Ha'. destruct Ha' as [Ha'|[<-|[]]].
      * split; [pose proof (ci_owned c C a' Ha'); lia | apply (ci_sep c C a' Ha')].
      * split; [lia|]. intro R. apply (gi_reach _ G) in R. lia.
  - (* OClear *)
    apply cinv_intro; [exact G | | |].
    + intros b' u' a' Hb Hu Ha'. destruct (rebind_units c h k _ b' u' Hb Hu) as [[b [Hb0 Hu0]]|[b [u [Hb0 [Hu0 ->]]]]].
      * eapply cinv_held_unit; eauto.
      * apply field_set_addrs in Ha'. destruct Ha' as [Ha'|Ha']; [|discriminate].
        apply field_set_addrs in Ha'. destruct Ha' as [Ha'|Ha']; [|discriminate].
        eapply cinv_held_unit; eauto.
    + intros b' u' Hb Hu. destruct (rebind_units c h k _ b' u' Hb Hu) as [[b [Hb0 Hu0]]|[b [u [Hb0 [Hu0 ->]]]]].
      * apply (ci_valid c C b u' Hb0 Hu0).
      * rewrite !field_set_id. apply (ci_valid c C b u Hb0 Hu0).
    + intros a Ha. split; [apply (ci_owned c C a Ha) | apply (ci_sep c C a Ha)].
  - (* OShare *)
    destruct (held_unit c h' k') as [u2|] eqn:HU; [|exact C].
    destruct (held_unit_In _ _ _ _ HU) as [b2 [Hb2 Hu2]].
    apply cinv_intro; [exact G | | |].
    + intros b' u' a' Hb Hu Ha'. destruct (rebind_units c h k _ b' u' Hb Hu) as [[b [Hb0 Hu0]]|[b [u [Hb0 [Hu0 ->]]]]].
      * eapply cinv_held_unit; eauto.
      * apply field_set_addrs in Ha'. destruct Ha' as [Ha'|Ha'].
        -- apply (cinv_held_unit c b u a' C Hb0 Hu0 Ha').
        -- apply field_get_addrs in Ha'. apply (cinv_held_unit c b2 u2 a' C Hb2 Hu2 Ha').
    + intros b' u' Hb Hu. destruct (rebind_units c h k _ b' u' Hb Hu) as [[b [Hb0 Hu0]]|[b [u [Hb0 [Hu0 ->]]]]].
      * apply (ci_valid c C b u' Hb0 Hu0).
      * rewrite field_set_id. apply (ci_valid c C b u Hb0 Hu0).
    + intros a Ha. split; [apply (ci_owned c C a Ha) | apply (ci_sep c C a Ha)].
  - (* OInsert *)
    rewrite insert_flat. set (bs := select (c_held c) hs).
    assert (HB : forall u, In u (flat bs) -> exists b, In b (c_held c) /\ In u (units b)).
    { intros u Hu. apply In_flat_units in Hu. destruct Hu as [b [Hb Hu]]. exists b. split; [|exact Hu].
      eapply select_In; eauto. }
    assert (G' : ginv (fold_left insert_unit (flat bs) (c_g c))).
    { apply ginv_fold_insert; [exact G | |].
      - intros u Hu. destruct (HB u Hu) as [b [Hb Hu']]. apply (ci_valid c C b u Hb Hu').
      - intros u a Hu Ha. destruct (HB u Hu) as [b [Hb Hu']]. eapply cinv_held_unit; eauto. }
    apply cinv_intro; [exact G' | | |]; rewrite ?store_fold_insert.
    + intros b u a Hb Hu Ha. eapply cinv_held_unit; eauto.
    + intros b u Hb Hu. apply valid_fold_insert. apply (ci_valid c C b u Hb Hu).
    + intros a Ha. apply filter_In in Ha. destruct Ha as [Ha Hn].
      split; [apply (ci_owned c C a Ha)|]. intro R. apply greach_fold_insert in R.
      destruct R as [R|[u [Hu Hau]]]; [apply (ci_sep c C a Ha); exact R|].
      apply negb_true_iff in Hn. assert (inb a (flat_map branch_addrs bs) = true); [|congruence].
      apply inb_In. apply In_flat_units in Hu. destruct Hu as [b [Hb Hu]].
      apply in_flat_map. exists b. split; [exact Hb|]. apply In_branch_addrs. eauto.
Qed.

(* ======================================================================================== *)
(** ** The initial state satisfies the invariant, for every tree *)

Lemma alloc_list_spec : forall vs s s' l, store_wf s -> alloc_list s vs = (s', l) ->
  store_wf s' /\ (next s <= next s')%positive /\ forall a, In a l -> (a < next s')%positive.
Proof.
  induction vs as [|v r IH]; cbn [alloc_list]; intros s s' l W H.
  - injection H as <- <-. split; [exact W|]. split; [lia | intros a []].
  - destruct (alloc s v) as [s1 a1] eqn:A. destruct (alloc_list s1 r) as [s2 l2] eqn:B.
    injection H as <- <-.
    assert (s1 = fst (alloc s v)) by (rewrite A; reflexivity).
    assert (a1 = next s) by (pose proof (alloc_addr s v) as Q; rewrite A in Q; exact Q).
    assert (W1 : store_wf s1) by (subst s1; apply wf_alloc; exact W).
    assert (N1 : next s1 = Pos.succ (next s)) by (subst s1; reflexivity).
    destruct (IH s1 s2 l2 W1 B) as [W2 [L2 A2]].
    split; [exact W2|]. split; [lia|]. intros a [<-|Ha]; [lia | apply A2; exact Ha].
Qed.

Lemma init_phys_spec : forall tree s s' ph, store_wf s -> init_phys s tree = (s', ph) ->
  store_wf s' /\ (next s <= next s')%positive /\
  forall n a, In n ph -> In a (fst n :: snd n) -> (a < next s')%positive.
Proof.
  induction tree as [|[pv cvs] r IH]; cbn [init_phys]; intros s s' ph W H.
  - injection H as <- <-. split; [exact W|]. split; [lia | intros n a []].
  - destruct (alloc s pv) as [s1 p] eqn:A. destruct (alloc_list s1 cvs) as [s2 cs] eqn:B.
    destruct (init_phys s2 r) as [s3 ns] eqn:D. injection H as <- <-.
    assert (s1 = fst (alloc s pv)) by (rewrite A; reflexivity).
    assert (p = next s) by (pose proof (alloc_addr s pv) as Q; rewrite A in Q; exact Q).
    assert (W1 : store_wf s1) by (subst s1; apply wf_alloc; exact W).
    assert (N1 : next s1 = Pos.succ (next s)) by (subst s1; reflexivity).
    destruct (alloc_list_spec _ _ _ _ W1 B) as [W2 [L2 A2]].
    destruct (IH s2 s3 ns W2 D) as [W3 [L3 A3]].
    split; [exact W3|]. split; [lia|]. intros n a [<-|Hn] Ha.
    + simpl in Ha. destruct Ha as [<-|Ha]; [lia|]. apply A2 in Ha. lia.
    + eapply A3; eauto.
Qed.

Lemma phys_get_In ph id a : phys_get ph id = Some a -> exists n, In n ph /\ In a (fst n :: snd n).
Proof.
  destruct id as [i|i j]; simpl.
  - destruct (nth_error ph i) as [n|] eqn:N; simpl; [|discriminate]. intro H. injection H as <-.
    exists n. split; [eapply nth_error_In; eauto | left; reflexivity].
  - destruct (nth_error ph i) as [[p cs]|] eqn:N; [|discriminate]. intro H.
    exists (p, cs). split; [eapply nth_error_In; eauto | right; eapply nth_error_In; eauto].
Qed.

Theorem cinv_init levels npr tree : cinv (mkC (init levels npr tree) [] []).
Proof.
  unfold init. destruct (init_phys empty_store tree) as [s ph] eqn:I.
  destruct (init_phys_spec _ _ _ _ wf_empty I) as [W [_ A]].
  apply cinv_intro.
  - constructor; simpl.
    + exact W.
    + intros a [[id H]|[id [v [t [H _]]]]]; simpl in H; [|discriminate].
      apply phys_get_In in H. destruct H as [n [Hn Ha]]. eapply A; eauto.
    + intro id. simpl. split; [discriminate | congruence].
    + intros id H. unfold lifted in H. simpl in H. congruence.
  - intros b u a [].
  - intros b u [].
  - intros a [].
Qed.

(* ======================================================================================== *)
(** ** Non-interference *)

Definition op_ok (c : cstate) (o : op) : Prop := op_okb c o = true.

(** What one operation does to the abstraction and to the store. *)
Definition step_spec (c : cstate) (o : op) (c' : cstate) : Prop :=
  match o with
  | OInsert hs =>
      g_store (c_g c') = g_store (c_g c) /\
      forall id, abs (c_g c') id =
        match find_last id (flat (select (c_held c) hs)) with
        | Some u => match abs (c_g c) id with Some _ => Some (uvals (g_store (c_g c)) u) | None => None end
        | None => abs (c_g c) id
        end
  | OWrite h k f v =>
      (forall id, abs (c_g c') id = abs (c_g c) id) /\
      (forall a, target c h k f <> Some a -> read (g_store (c_g c')) a = read (g_store (c_g c)) a)
  | _ =>
      (forall id, abs (c_g c') id = abs (c_g c) id) /\
      (forall a, allocated (g_store (c_g c)) a -> read (g_store (c_g c')) a = read (g_store (c_g c)) a)
  end.

Lemma wf_allocated_lt s a : store_wf s -> allocated s a -> (a < next s)%positive.
Proof. intros W H. apply W. exact H. Qed.

Theorem step_spec_holds c o : cinv c -> op_ok c o -> step_spec c o (step c o).
Proof.
  intros C OK. pose proof (ci_g c C) as G. pose proof (gi_wf _ G) as W.
  destruct o; unfold step, step_spec.
  - destruct (extract (c_g c) id) as [g' [b|]] eqn:X.
    + destruct (extract_spec _ _ _ _ G X) as [S1 [W1 [E1 _]]]. cbn [c_g].
      split.
      * intro id'. rewrite S1. apply abs_ext; assumption.
      * intros a Ha. apply ext_read; [exact E1 | apply wf_allocated_lt; assumption].
    + apply extract_none in X. subst g'. cbn [c_g]. split; reflexivity.
  - destruct (extract_active (c_g c)) as [g' bs] eqn:X.
    destruct (extract_active_spec _ _ _ G X) as [S1 [W1 [E1 _]]]. cbn [c_g].
    split.
    + intro id'. rewrite S1. apply abs_ext; assumption.
    + intros a Ha. apply ext_read; [exact E1 | apply wf_allocated_lt; assumption].
  - cbn [c_g]. split; reflexivity.
  - destruct (target c h k f) as [a|] eqn:T; [|split; reflexivity]. cbn [c_g].
    unfold op_ok, op_okb in OK. rewrite T in OK. apply inb_In in OK.
    split.
    + intro id. apply abs_write. apply (ci_sep c C a OK).
    + intros a0 Ha. cbn [g_store set_store]. apply read_write_other. congruence.
  - destruct (held_unit c h k); [|split; reflexivity].
    destruct (alloc (g_store (c_g c)) v) as [s' a] eqn:AL. cbn [c_g].
    assert (Hs : s' = fst (alloc (g_store (c_g c)) v)) by (rewrite AL; reflexivity).
    assert (E : ext (g_store (c_g c)) s') by (rewrite Hs; apply ext_alloc).
    split.
    + intro id. apply abs_ext; assumption.
    + intros a0 Ha. cbn [g_store set_store]. apply ext_read; [exact E | apply wf_allocated_lt; assumption].
  - cbn [c_g]. split; reflexivity.
  - destruct (held_unit c h' k'); cbn [c_g]; split; reflexivity.
  - cbn [c_g]. rewrite insert_flat. split; [apply store_fold_insert|].
    intro id. apply abs_fold_insert.
    unfold op_ok, op_okb in OK. rewrite forallb_forall in OK. apply Forall_forall. exact OK.
Qed.

Fixpoint trace_spec (c : cstate) (ops : list op) : Prop :=
  match ops with
  | [] => True
  | o :: r => step_spec c o (step c o) /\ trace_spec (step c o) r
  end.

Theorem noninterference_lemma : forall ops c, cinv c -> disciplinedb c ops = true -> trace_spec c ops.
Proof.
  induction ops as [|o r IH]; intros c C D; simpl; [exact I|].
  simpl in D. apply andb_true_iff in D. destruct D as [D1 D2].
  split; [apply step_spec_holds; assumption|]. apply IH; [apply cinv_step; exact C | exact D2].
Qed.

Lemma cinv_run : forall ops c, cinv c -> cinv (run c ops).
Proof.
  unfold run. induction ops as [|o r IH]; simpl; intros c C; [exact C|]. apply IH. apply cinv_step. exact C.
Qed.

Definition is_insert (o : op) : bool := match o with OInsert _ => true | _ => false end.

(** Between two commits the global state does not change. *)
Theorem no_insert_no_change_lemma : forall ops c, cinv c -> disciplinedb c ops = true ->
  forallb (fun o => negb (is_insert o)) ops = true ->
  forall id, abs (c_g (run c ops)) id = abs (c_g c) id.
Proof.
  unfold run. induction ops as [|o r IH]; intros c C D N id; simpl; [reflexivity|].
  simpl in D, N. apply andb_true_iff in D. destruct D as [D1 D2].
  apply andb_true_iff in N. destruct N as [N1 N2].
  rewrite (IH (step c o) (cinv_step c o C) D2 N2 id).
  pose proof (step_spec_holds c o C D1) as S. destruct o; try (destruct S as [S _]; apply S).
  discriminate.
Qed.

(** A held branch is unaffected by any operation that does not write one of its own objects
    (values of the branch as it was before the operation; rebinding its attributes is the
    client's own doing). *)
Theorem held_branch_isolated_lemma c o b u :
  cinv c -> In b (c_held c) -> In u (units b) ->
  (forall h k f v a, o = OWrite h k f v -> target c h k f = Some a -> ~ In a (branch_addrs b)) ->
  uvals (g_store (c_g (step c o))) u = uvals (g_store (c_g c)) u.
Proof.
  intros C Hb Hu Hw. pose proof (ci_g c C) as G. pose proof (gi_wf _ G) as W.
  assert (Hlt : forall a, In a (unit_addrs u) -> (a < next (g_store (c_g c)))%positive).
  { intros a Ha. eapply cinv_held_unit; eauto. }
  assert (Ext : forall s', ext (g_store (c_g c)) s' -> uvals s' u = uvals (g_store (c_g c)) u).
  { intros s' E. apply uvals_ext; assumption. }
  destruct o; unfold step.
  - destruct (extract (c_g c) id) as [g' [b0|]] eqn:X; cbn [c_g].
    + destruct (extract_spec _ _ _ _ G X) as [_ [_ [E1 _]]]. apply Ext. exact E1.
    + apply extract_none in X. subst g'. reflexivity.
  - destruct (extract_active (c_g c)) as [g' bs] eqn:X. cbn [c_g].
    destruct (extract_active_spec _ _ _ G X) as [_ [_ [E1 _]]]. apply Ext. exact E1.
  - reflexivity.
  - destruct (target c h k f) as [a|] eqn:T; [|reflexivity]. cbn [c_g g_store set_store].
    unfold uvals, urefs. apply rvals_frame. intros a0 Ha0. apply read_write_other.
    intros ->. apply (Hw h k f v a0 eq_refl T). apply In_branch_addrs. exists u. split; [exact Hu|].
    exact Ha0.
  - destruct (held_unit c h k); [|reflexivity].
    destruct (alloc (g_store (c_g c)) v) as [s' a] eqn:AL. cbn [c_g g_store set_store].
    apply Ext. assert (Hs : s' = fst (alloc (g_store (c_g c)) v)) by (rewrite AL; reflexivity).
    rewrite Hs. apply ext_alloc.
  - reflexivity.
  - destruct (held_unit c h' k'); reflexivity.
  - cbn [c_g]. rewrite insert_flat, store_fold_insert. reflexivity.
Qed.

(** Freshness of a copying extraction. *)
Theorem extract_fresh_lemma c id g' b :
  cinv c -> extract (c_g c) id = (g', Some b) ->
  NoDup (branch_addrs b) /\
  forall a, In a (branch_addrs b) ->
    ~ allocated (g_store (c_g c)) a /\ ~ greach g' a /\ ~ In a (c_owned c) /\
    forall b', In b' (c_held c) -> ~ In a (branch_addrs b').
Proof.
  intros C X. pose proof (ci_g c C) as G.
  destruct (extract_spec _ _ _ _ G X) as [S1 [W1 [E1 [A1 [N1 _]]]]].
  split; [exact N1|]. intros a Ha. apply A1 in Ha.
  split; [|split; [|split]].
  - intro H. apply (gi_wf _ G) in H. lia.
  - rewrite S1, greach_set_store. intro R. apply (gi_reach _ G) in R. lia.
  - intro H. apply (ci_owned c C) in H. lia.
  - intros b' Hb' H. apply (ci_held c C b' a Hb') in H. lia.
Qed.

(* ======================================================================================== *)
(** ** Completeness of a branch: node + ancestors + descendants *)

Lemma extract_some_valid g id g' b : extract g id = (g', Some b) -> valid g id.
Proof.
  unfold valid. destruct id as [i|i j]; simpl.
  - destruct (nth_error (g_phys g) i) as [[p cs]|]; simpl; [congruence | discriminate].
  - destruct (nth_error (g_phys g) i) as [[p cs]|]; [|discriminate].
    destruct (nth_error cs j); [congruence | discriminate].
Qed.

Lemma NoDup_map_leaf i : forall n j, NoDup (map (Leaf i) (seq j n)).
Proof.
  induction n as [|n IH]; intro j; simpl; constructor; [|apply IH].
  intro H. apply in_map_iff in H. destruct H as [x [E Hx]]. injection E as ->.
  apply in_seq in Hx. lia.
Qed.

Lemma branch_ids_NoDup g id : NoDup (branch_ids g id).
Proof.
  destruct id as [i|i j]; simpl.
  - constructor; [|apply NoDup_map_leaf]. intro H. apply in_map_iff in H. destruct H as [x [E _]]. discriminate.
  - constructor; [|constructor; [intros [] | constructor]]. intros [E|[]]. discriminate.
Qed.

Lemma branch_ids_related g id k : valid g id -> valid g k -> (In k (branch_ids g id) <-> related id k).
Proof.
  unfold valid, related. intros Vi Vk. destruct id as [i|i j]; simpl.
  - destruct k as [i'|i' j']; simpl.
    + split.
      * intros [E|H]; [left; congruence|]. apply in_map_iff in H. destruct H as [x [E _]]. discriminate.
      * intros [E|[]]. left. congruence.
    + split.
      * intros [E|H]; [discriminate|]. apply in_map_iff in H. destruct H as [x [E _]]. injection E as -> _.
        right. reflexivity.
      * intros [E|E]; [discriminate|]. subst i'. right. apply in_map_iff. exists j'. split; [reflexivity|].
        apply in_seq. unfold nchildren. simpl in Vk. destruct (nth_error (g_phys g) i) as [[p cs]|]; [|congruence].
        apply nth_error_Some in Vk. lia.
  - destruct k as [i'|i' j']; simpl.
    + split.
      * intros [E|[E|[]]]; [injection E as ->; right; reflexivity | discriminate].
      * intros [E|E]; [discriminate|]. subst. left. reflexivity.
    + split.
      * intros [E|[E|[]]]; [discriminate|]. left. congruence.
      * intros [E|[]]. right. left. congruence.
Qed.

Theorem extract_complete_lemma g id g' b : ginv g -> extract g id = (g', Some b) ->
  (forall k, valid g k -> (In k (map u_id (units b)) <-> related id k)) /\
  NoDup (map u_id (units b)) /\
  (forall u, In u (units b) -> abs g (u_id u) = Some (uvals (g_store g') u)) /\
  (forall k, abs g' k = abs g k).
Proof.
  intros G X. destruct (extract_spec _ _ _ _ G X) as [S1 [W1 [E1 [A1 [N1 [I1 U1]]]]]].
  pose proof (extract_some_valid _ _ _ _ X) as V.
  split; [|split; [|split]].
  - intros k Vk. rewrite I1. apply branch_ids_related; assumption.
  - rewrite I1. apply branch_ids_NoDup.
  - intros u Hu. apply U1. exact Hu.
  - intro k. rewrite S1. apply abs_ext; assumption.
Qed.

(* ======================================================================================== *)
(** ** insert: exact read-back and aliasing, stated on [insert] *)

Theorem insert_reads_back_lemma g bs id : Forall unit_wf (flat bs) ->
  abs (insert g bs) id =
  match find_last id (flat bs) with
  | Some u => match abs g id with Some _ => Some (uvals (g_store g) u) | None => None end
  | None => abs g id
  end.
Proof. intro W. rewrite insert_flat. apply abs_fold_insert. exact W. Qed.

Theorem insert_aliases_lemma g bs id : Forall unit_wf (flat bs) ->
  grefs (insert g bs) id =
  match find_last id (flat bs) with
  | Some u => match grefs g id with Some _ => Some (urefs u) | None => None end
  | None => grefs g id
  end.
Proof. intro W. rewrite insert_flat. apply grefs_fold_insert. exact W. Qed.

Lemma store_insert g bs : g_store (insert g bs) = g_store g.
Proof. rewrite insert_flat. apply store_fold_insert. Qed.

(* ======================================================================================== *)
(** ** The rule on coherent states (a moving point mass induces a velocity of its composite
    object — docstring of [yield_independent_lifted_identifiers]; kept by the event handlers, C12) *)

Definition coherent (g : gstate) : Prop := forall i j, lifted g (Leaf i j) -> lifted g (Root i).

Lemma leaf_valid_root g i j : valid g (Leaf i j) -> i < length (g_phys g).
Proof.
  unfold valid; simpl. intro H. apply nth_error_Some. destruct (nth_error (g_phys g) i); congruence.
Qed.

Theorem active_ids_rule2_coherent g : ginv g -> g_levels g <> 1 -> coherent g -> 0 < g_npr g ->
  forall id, In id (active_ids g) <->
  match id with
  | Root i => i < length (g_phys g) /\ forall j, j < g_npr g -> lifted g (Leaf i j)
  | Leaf i j => j < g_npr g /\ lifted g (Leaf i j) /\ exists j', j' < g_npr g /\ ~ lifted g (Leaf i j')
  end.
Proof.
  intros G L Co Np id. rewrite (active_ids_rule2 g G L id). destruct id as [i|i j].
  - split; [tauto|]. intros [Hi A]. split; [exact Hi|]. split; [|exact A]. apply (Co i 0). apply A. exact Np.
  - split; [tauto|]. intros [Hj [Lj E]]. split; [|split; [apply (Co i j); exact Lj | tauto]].
    apply (leaf_valid_root g i j). apply (gi_lvalid g G). exact Lj.
Qed.

(* ======================================================================================== *)
(** ** Assembled statements used by Props/C13.v *)

Theorem insert_reads_back_full g bs id : Forall unit_wf (flat bs) ->
  g_store (insert g bs) = g_store g /\
  abs (insert g bs) id =
  match find_last id (flat bs) with
  | Some u => match abs g id with Some _ => Some (uvals (g_store g) u) | None => None end
  | None => abs g id
  end.
Proof. intro W. split; [apply store_insert | apply insert_reads_back_lemma; exact W]. Qed.

Theorem independent_active_rule_lemma g : ginv g ->
  (g_levels g = 1 -> forall id, In id (active_ids g) <->
     exists i, id = Root i /\ i < length (g_phys g) /\ lifted g (Root i)) /\
  (g_levels g <> 1 -> forall id, In id (active_ids g) <->
     match id with
     | Root i => i < length (g_phys g) /\ lifted g (Root i) /\ forall j, j < g_npr g -> lifted g (Leaf i j)
     | Leaf i j => i < length (g_phys g) /\ lifted g (Root i) /\ j < g_npr g /\ lifted g (Leaf i j) /\
                   exists j', j' < g_npr g /\ ~ lifted g (Leaf i j')
     end) /\
  (forall g' bs, extract_active g = (g', bs) ->
     Forall2 (extracted g (g_store g')) (active_ids g) bs /\
     NoDup (flat_map branch_addrs bs) /\ forall id, abs g' id = abs g id).
Proof.
  intro G. split; [exact (active_ids_rule1 g)|]. split; [exact (active_ids_rule2 g G)|].
  intros g' bs X. destruct (extract_active_spec g g' bs G X) as [S [W [E [F N]]]].
  split; [exact F|]. split; [exact N|]. intro id. rewrite S. apply abs_ext; assumption.
Qed.
