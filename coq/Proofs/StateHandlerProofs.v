(** * Proofs/StateHandlerProofs.v — lemmas about Model/StateHandler.v (C13). *)
From Coq Require Import ZArith List Bool Arith PArith Lia.
Require Import JF.Base.Store JF.Model.StateHandler.
Import ListNotations.

(* ======================================================================================== *)
(** ** Specification vocabulary *)

Definition valid (g : gstate) (id : ident) : Prop := phys_get (g_phys g) id <> None.

(** [k] is the node [id], one of its ancestors or one of its descendants. *)
Definition related (id k : ident) : Prop :=
  k = id \/
  match id, k with
  | Leaf i _, Root i' => i = i'
  | Root i, Leaf i' _ => i = i'
  | _, _ => False
  end.

(** An object is reachable from the global state. *)
Definition greach (g : gstate) (a : addr) : Prop :=
  (exists id, phys_get (g_phys g) id = Some a) \/
  (exists id v t, assoc id (l_dict (g_lift g)) = Some (v, t) /\ (a = v \/ a = t)).

Definition lifted (g : gstate) (id : ident) : Prop := assoc id (l_dict (g_lift g)) <> None.

Definition unit_wf (u : unit_) : Prop := unit_wfb u = true.

(** The unit of the last occurrence of [id] in an insertion order. *)
Fixpoint find_last (id : ident) (us : list unit_) : option unit_ :=
  match us with
  | [] => None
  | u :: r =>
      match find_last id r with
      | Some x => Some x
      | None => if ident_eqb id (u_id u) then Some u else None
      end
  end.

Definition lift_ok (l : lifting) : Prop :=
  forall id, mem id (l_lifted l) = true <-> assoc id (l_dict l) <> None.

Record ginv (g : gstate) : Prop := mkGinv {
  gi_wf : store_wf (g_store g);
  gi_reach : forall a, greach g a -> (a < next (g_store g))%positive;
  gi_lift : lift_ok (g_lift g);
  gi_lvalid : forall id, lifted g id -> valid g id
}.

Record cinv (c : cstate) : Prop := mkCinv {
  ci_g : ginv (c_g c);
  ci_held : forall b a, In b (c_held c) -> In a (branch_addrs b) -> (a < next (g_store (c_g c)))%positive;
  ci_owned : forall a, In a (c_owned c) -> (a < next (g_store (c_g c)))%positive;
  ci_sep : forall a, In a (c_owned c) -> ~ greach (c_g c) a;
  ci_valid : forall b u, In b (c_held c) -> In u (units b) -> valid (c_g c) (u_id u)
}.

(* ======================================================================================== *)
(** ** Identifiers, association lists, list update *)

Lemma ident_eqb_eq a b : ident_eqb a b = true <-> a = b.
Proof.
  destruct a, b; simpl; try (split; [discriminate | intro H; discriminate H]).
  - rewrite Nat.eqb_eq. split; [intros ->; reflexivity | intro H; injection H; auto].
  - rewrite andb_true_iff, !Nat.eqb_eq. split; [intros [-> ->]; reflexivity | intro H; injection H; auto].
Qed.

Lemma ident_eqb_refl a : ident_eqb a a = true.
Proof. apply ident_eqb_eq. reflexivity. Qed.

Lemma ident_eqb_neq a b : ident_eqb a b = false <-> a <> b.
Proof.
  split.
  - intros H E. apply ident_eqb_eq in E. congruence.
  - intro H. destruct (ident_eqb a b) eqn:E; [|reflexivity]. apply ident_eqb_eq in E. contradiction.
Qed.

Lemma ident_eqb_sym a b : ident_eqb a b = ident_eqb b a.
Proof.
  destruct (ident_eqb a b) eqn:E.
  - apply ident_eqb_eq in E. subst. symmetry. apply ident_eqb_refl.
  - apply ident_eqb_neq in E. symmetry. apply ident_eqb_neq. congruence.
Qed.

Lemma assoc_dremove_same id d : assoc id (dremove id d) = None.
Proof.
  induction d as [|[k x] r IH]; simpl; [reflexivity|].
  destruct (ident_eqb id k) eqn:E; simpl; [exact IH|]. rewrite E. exact IH.
Qed.

Lemma assoc_dremove_other id id' d : id' <> id -> assoc id' (dremove id d) = assoc id' d.
Proof.
  intro N. induction d as [|[k x] r IH]; simpl; [reflexivity|].
  destruct (ident_eqb id k) eqn:E; simpl.
  - apply ident_eqb_eq in E. subst k. apply ident_eqb_neq in N. rewrite N. exact IH.
  - destruct (ident_eqb id' k); [reflexivity | exact IH].
Qed.

Lemma mem_filter_same id l : mem id (filter (fun k => negb (ident_eqb id k)) l) = false.
Proof.
  induction l as [|k r IH]; simpl; [reflexivity|].
  destruct (ident_eqb id k) eqn:E; simpl; [exact IH|]. rewrite E. exact IH.
Qed.

Lemma mem_filter_other id id' l : id' <> id ->
  mem id' (filter (fun k => negb (ident_eqb id k)) l) = mem id' l.
Proof.
  intro N. unfold mem. induction l as [|k r IH]; simpl; [reflexivity|].
  destruct (ident_eqb id k) eqn:E; simpl.
  - apply ident_eqb_eq in E. subst k. apply ident_eqb_neq in N. rewrite N. exact IH.
  - rewrite IH. reflexivity.
Qed.

Lemma nth_error_upd_same {A} (f : A -> A) : forall n l,
  nth_error (upd n f l) n = option_map f (nth_error l n).
Proof.
  induction n; destruct l; simpl; auto.
Qed.

Lemma nth_error_upd_other {A} (f : A -> A) : forall n m l, n <> m ->
  nth_error (upd n f l) m = nth_error l m.
Proof.
  induction n; destruct m, l; simpl; intros; auto; try congruence.
Qed.

Lemma length_upd {A} (f : A -> A) : forall n l, length (upd n f l) = length l.
Proof. induction n; destruct l; simpl; auto. Qed.

Lemma In_upd {A} (f : A -> A) : forall n l x, In x (upd n f l) -> In x l \/ exists y, In y l /\ x = f y.
Proof.
  induction n; destruct l; simpl; intros x H; auto.
  - destruct H as [<-|H]; [right; eauto | left; auto].
  - destruct H as [<-|H]; [left; auto|]. apply IHn in H. destruct H as [H|[y [H1 H2]]]; [left; auto | right; eauto].
Qed.

(* ======================================================================================== *)
(** ** Physical state: get after set *)

Lemma phys_get_set ph id a id' :
  phys_get (phys_set ph id a) id' =
  if ident_eqb id' id then match phys_get ph id with Some _ => Some a | None => None end
  else phys_get ph id'.
Proof.
  destruct (ident_eqb id' id) eqn:E.
  - apply ident_eqb_eq in E. subst id'. destruct id as [i|i j]; simpl.
    + rewrite nth_error_upd_same. destruct (nth_error ph i); reflexivity.
    + rewrite nth_error_upd_same. destruct (nth_error ph i) as [[p cs]|]; simpl; [|reflexivity].
      rewrite nth_error_upd_same. destruct (nth_error cs j); reflexivity.
  - apply ident_eqb_neq in E. destruct id as [i|i j], id' as [i'|i' j']; simpl.
    + rewrite nth_error_upd_other; [reflexivity | congruence].
    + destruct (Nat.eq_dec i i') as [->|N].
      * rewrite nth_error_upd_same. destruct (nth_error ph i') as [[p cs]|]; reflexivity.
      * rewrite nth_error_upd_other by exact N. reflexivity.
    + destruct (Nat.eq_dec i i') as [->|N].
      * rewrite nth_error_upd_same. destruct (nth_error ph i') as [[p cs]|]; reflexivity.
      * rewrite nth_error_upd_other by exact N. reflexivity.
    + destruct (Nat.eq_dec i i') as [->|N].
      * rewrite nth_error_upd_same. destruct (nth_error ph i') as [[p cs]|]; simpl; [|reflexivity].
        rewrite nth_error_upd_other; [reflexivity | congruence].
      * rewrite nth_error_upd_other by exact N. reflexivity.
Qed.

Lemma phys_get_set_valid ph id a id' :
  phys_get (phys_set ph id a) id' <> None <-> phys_get ph id' <> None.
Proof.
  rewrite phys_get_set. destruct (ident_eqb id' id) eqn:E; [|tauto].
  apply ident_eqb_eq in E. subst. destruct (phys_get ph id); split; congruence.
Qed.

(* ======================================================================================== *)
(** ** Lifting state: get after set, consistency of the lifted sets *)

Lemma assoc_lift_set l id vel ts id' :
  unit_wfb (mkUnit id 1%positive vel ts) = true ->
  assoc id' (l_dict (lift_set l id vel ts)) =
  if ident_eqb id' id then match vel, ts with Some v, Some t => Some (v, t) | _, _ => None end
  else assoc id' (l_dict l).
Proof.
  unfold unit_wfb; simpl. intro W.
  destruct vel as [v|], ts as [t|]; try discriminate; simpl.
  - destruct (ident_eqb id' id) eqn:E; [reflexivity|].
    apply ident_eqb_neq in E. apply assoc_dremove_other. exact E.
  - unfold lift_delete. destruct (ident_eqb id' id) eqn:E.
    + apply ident_eqb_eq in E. subst id'. destruct (assoc id (l_dict l)) eqn:A; simpl.
      * apply assoc_dremove_same.
      * exact A.
    + apply ident_eqb_neq in E. destruct (assoc id (l_dict l)); simpl; [|reflexivity].
      apply assoc_dremove_other. exact E.
Qed.

(** Without the well-formedness of the pair: every entry is an old one or the given pair. *)
Lemma assoc_lift_set_incl l id vel ts id' v t :
  assoc id' (l_dict (lift_set l id vel ts)) = Some (v, t) ->
  (id' = id /\ vel = Some v /\ ts = Some t) \/ assoc id' (l_dict l) = Some (v, t).
Proof.
  destruct vel as [v0|], ts as [t0|]; simpl; auto.
  - destruct (ident_eqb id' id) eqn:E.
    + apply ident_eqb_eq in E. intro H. injection H as -> ->. left; auto.
    + apply ident_eqb_neq in E. rewrite assoc_dremove_other by exact E. auto.
  - unfold lift_delete. destruct (assoc id (l_dict l)) eqn:A; simpl; auto.
    destruct (ident_eqb id' id) eqn:E.
    + apply ident_eqb_eq in E. subst. rewrite assoc_dremove_same. discriminate.
    + apply ident_eqb_neq in E. rewrite assoc_dremove_other by exact E. auto.
Qed.

Lemma assoc_lift_set_dom l id vel ts id' :
  assoc id' (l_dict (lift_set l id vel ts)) <> None -> id' = id \/ assoc id' (l_dict l) <> None.
Proof.
  intro H. destruct (assoc id' (l_dict (lift_set l id vel ts))) as [[v t]|] eqn:A; [|congruence].
  apply assoc_lift_set_incl in A. destruct A as [[-> _]|A]; [left; reflexivity | right; congruence].
Qed.

Lemma lift_ok_set l id vel ts : lift_ok l -> lift_ok (lift_set l id vel ts).
Proof.
  intros OK id'. destruct vel as [v|], ts as [t|]; simpl; try apply OK.
  - destruct (ident_eqb id' id) eqn:E.
    + apply ident_eqb_eq in E. subst id'. split; [congruence|]. intros _.
      destruct (mem id (l_lifted l)) eqn:M; [exact M|]. simpl. rewrite ident_eqb_refl. reflexivity.
    + pose proof E as E'. apply ident_eqb_neq in E'. rewrite assoc_dremove_other by exact E'.
      destruct (mem id (l_lifted l)) eqn:M; [apply OK|]. simpl. rewrite E. apply OK.
  - unfold lift_delete. destruct (assoc id (l_dict l)) eqn:A; simpl; [|apply OK].
    destruct (ident_eqb id' id) eqn:E.
    + apply ident_eqb_eq in E. subst id'. rewrite assoc_dremove_same.
      change (existsb (ident_eqb id) (filter (fun k => negb (ident_eqb id k)) (l_lifted l)))
        with (mem id (filter (fun k => negb (ident_eqb id k)) (l_lifted l))).
      rewrite mem_filter_same. split; [discriminate | congruence].
    + apply ident_eqb_neq in E. rewrite assoc_dremove_other by exact E.
      change (existsb (ident_eqb id') (filter (fun k => negb (ident_eqb id k)) (l_lifted l)))
        with (mem id' (filter (fun k => negb (ident_eqb id k)) (l_lifted l))).
      rewrite mem_filter_other by exact E. apply OK.
Qed.

Lemma lift_get_assoc l id :
  lift_get l id = match assoc id (l_dict l) with Some (v, t) => (Some v, Some t) | None => (None, None) end.
Proof. reflexivity. Qed.

(* ======================================================================================== *)
(** ** insert_into_global_state *)

Lemma insert_flat : forall bs g, insert g bs = fold_left insert_unit (flat bs) g.
Proof.
  induction bs as [|b r IH]; intro g; [reflexivity|].
  unfold insert, flat in *. simpl. rewrite fold_left_app. rewrite <- IH. reflexivity.
Qed.

Lemma store_insert_unit g u : g_store (insert_unit g u) = g_store g.
Proof. reflexivity. Qed.

Lemma store_fold_insert : forall us g, g_store (fold_left insert_unit us g) = g_store g.
Proof. induction us; simpl; intro g; [reflexivity|]. rewrite IHus. reflexivity. Qed.

Lemma valid_insert_unit g u id : valid (insert_unit g u) id <-> valid g id.
Proof. unfold valid; simpl. apply phys_get_set_valid. Qed.

Lemma valid_fold_insert : forall us g id, valid (fold_left insert_unit us g) id <-> valid g id.
Proof.
  induction us; simpl; intros g id; [tauto|]. rewrite IHus. apply valid_insert_unit.
Qed.

Lemma grefs_insert_unit g u id : unit_wf u ->
  grefs (insert_unit g u) id =
  if ident_eqb id (u_id u) then match grefs g id with Some _ => Some (urefs u) | None => None end
  else grefs g id.
Proof.
  intro W. unfold grefs, insert_unit; simpl. rewrite phys_get_set, !lift_get_assoc.
  rewrite assoc_lift_set by exact W.
  destruct (ident_eqb id (u_id u)) eqn:E; [|reflexivity].
  apply ident_eqb_eq in E. subst id.
  destruct (phys_get (g_phys g) (u_id u)); [|reflexivity].
  unfold unit_wf, unit_wfb in W. unfold urefs.
  destruct (assoc (u_id u) (l_dict (g_lift g))) as [[v0 t0]|];
    destruct (u_vel u), (u_ts u); try discriminate; reflexivity.
Qed.

Lemma grefs_fold_insert : forall us g id, Forall unit_wf us ->
  grefs (fold_left insert_unit us g) id =
  match find_last id us with
  | Some u => match grefs g id with Some _ => Some (urefs u) | None => None end
  | None => grefs g id
  end.
Proof.
  induction us as [|u r IH]; intros g id W; simpl; [reflexivity|].
  inversion W as [|? ? Wu Wr]; subst. rewrite IH by exact Wr.
  rewrite grefs_insert_unit by exact Wu.
  destruct (find_last id r) as [x|].
  - destruct (ident_eqb id (u_id u)); [|reflexivity]. destruct (grefs g id); reflexivity.
  - destruct (ident_eqb id (u_id u)); reflexivity.
Qed.

Lemma abs_fold_insert us g id : Forall unit_wf us ->
  abs (fold_left insert_unit us g) id =
  match find_last id us with
  | Some u => match abs g id with Some _ => Some (uvals (g_store g) u) | None => None end
  | None => abs g id
  end.
Proof.
  intro W. unfold abs. rewrite store_fold_insert, grefs_fold_insert by exact W.
  destruct (find_last id us); [|reflexivity]. destruct (grefs g id); reflexivity.
Qed.

Lemma find_last_id id : forall us u, find_last id us = Some u -> u_id u = id /\ In u us.
Proof.
  induction us as [|x r IH]; simpl; intros u H; [discriminate|].
  destruct (find_last id r) as [y|].
  - injection H as <-. destruct (IH y eq_refl). auto.
  - destruct (ident_eqb id (u_id x)) eqn:E; [|discriminate]. injection H as <-.
    apply ident_eqb_eq in E. auto.
Qed.

Lemma find_last_none id : forall us, find_last id us = None <-> forall u, In u us -> u_id u <> id.
Proof.
  induction us as [|x r IH]; simpl.
  - split; [intros _ u [] | reflexivity].
  - destruct (find_last id r) as [y|] eqn:F.
    + split; [discriminate|]. intro H. destruct (find_last_id _ _ _ F) as [E I].
      exfalso. apply (H y); auto.
    + destruct (ident_eqb id (u_id x)) eqn:E.
      * apply ident_eqb_eq in E. split; [discriminate|]. intro H. exfalso. apply (H x); auto.
      * apply ident_eqb_neq in E. split; [|reflexivity]. intros _ u [<-|I]; [congruence|].
        apply IH; auto.
Qed.

Lemma greach_insert_unit g u a : greach (insert_unit g u) a -> greach g a \/ In a (unit_addrs u).
Proof.
  intros [[id H]|[id [v [t [H Ha]]]]].
  - simpl in H. rewrite phys_get_set in H. destruct (ident_eqb id (u_id u)).
    + destruct (phys_get (g_phys g) (u_id u)); [|discriminate]. injection H as <-.
      right. left. reflexivity.
    + left. left. eauto.
  - simpl in H. apply assoc_lift_set_incl in H. destruct H as [[_ [Hv Ht]]|H].
    + right. unfold unit_addrs. right. rewrite Hv, Ht. simpl. destruct Ha as [->| ->]; auto.
    + left. right. eauto 6.
Qed.

Lemma greach_fold_insert : forall us g a,
  greach (fold_left insert_unit us g) a -> greach g a \/ exists u, In u us /\ In a (unit_addrs u).
Proof.
  induction us as [|u r IH]; simpl; intros g a H; [auto|].
  apply IH in H. destruct H as [H|[x [I Hx]]].
  - apply greach_insert_unit in H. destruct H; [auto | right; eauto].
  - right; eauto.
Qed.

Lemma ginv_insert_unit g u :
  ginv g -> valid g (u_id u) ->
  (forall a, In a (unit_addrs u) -> (a < next (g_store g))%positive) ->
  ginv (insert_unit g u).
Proof.
  intros [W R L V] Vu B. constructor.
  - exact W.
  - intros a H. apply greach_insert_unit in H. destruct H; auto.
  - simpl. apply lift_ok_set. exact L.
  - intros id H. apply valid_insert_unit. unfold lifted in H; simpl in H.
    apply assoc_lift_set_dom in H. destruct H as [->|H]; [exact Vu | apply V; exact H].
Qed.

Lemma ginv_fold_insert : forall us g,
  ginv g -> (forall u, In u us -> valid g (u_id u)) ->
  (forall u a, In u us -> In a (unit_addrs u) -> (a < next (g_store g))%positive) ->
  ginv (fold_left insert_unit us g).
Proof.
  induction us as [|u r IH]; simpl; intros g G V B; [exact G|].
  apply IH.
  - apply ginv_insert_unit; [exact G | apply V; auto | intros a; apply B; auto].
  - intros x I. apply valid_insert_unit. apply V; auto.
  - intros x a I. simpl. apply B; auto.
Qed.

(* ======================================================================================== *)
(** ** Copies *)

Definition lift_below (l : lifting) (s : store) : Prop :=
  forall id v t, assoc id (l_dict l) = Some (v, t) -> (v < next s)%positive /\ (t < next s)%positive.

Lemma lift_below_ext l s s' : ext s s' -> lift_below l s -> lift_below l s'.
Proof. intros [L _] B id v t H. destruct (B id v t H). split; lia. Qed.

Lemma opt_read_ext s s' o :
  ext s s' -> (forall a, In a (opt_addrs o) -> (a < next s)%positive) ->
  option_map (read s') o = option_map (read s) o.
Proof.
  intros E B. destruct o as [a|]; simpl; [|reflexivity].
  rewrite (ext_read s s' a E); [reflexivity|]. apply B. simpl; auto.
Qed.

Lemma copy_spec s a s' a' : store_wf s -> copy s a = (s', a') ->
  store_wf s' /\ ext s s' /\ a' = next s /\ next s' = Pos.succ (next s) /\ read s' a' = read s a.
Proof.
  intros W H. unfold copy in H.
  assert (Hs : s' = fst (alloc s (read s a))) by (rewrite H; reflexivity).
  assert (Ha : a' = snd (alloc s (read s a))) by (rewrite H; reflexivity).
  subst s' a'. repeat split.
  - apply wf_alloc. exact W.
  - apply ext_alloc.
  - intros b Hb. apply lookup_alloc_other. lia.
  - apply read_alloc_new.
Qed.

Lemma copy_opt_spec s o s' o' : store_wf s -> copy_opt s o = (s', o') ->
  store_wf s' /\ ext s s' /\
  (forall a, In a (opt_addrs o') -> (next s <= a < next s')%positive) /\
  option_map (read s') o' = option_map (read s) o /\
  (o' = None <-> o = None).
Proof.
  intros W H. destruct o as [a|]; simpl in H.
  - destruct (copy s a) as [s1 a1] eqn:C. injection H as <- <-.
    destruct (copy_spec _ _ _ _ W C) as [W1 [E1 [A1 [N1 R1]]]].
    repeat split; auto; try (destruct E1; assumption); try discriminate.
    + destruct H as [<-|[]]. lia.
    + destruct H as [<-|[]]. lia.
    + simpl. rewrite R1. reflexivity.
  - injection H as <- <-. repeat split; auto; try apply ext_refl; try (intros a []); try lia.
    intros; apply ext_refl; assumption.
Qed.

(** One unit: fresh objects for position, velocity, time stamp, holding the current values. *)
Lemma extract_unit_spec l s id p s' u :
  store_wf s -> (p < next s)%positive -> lift_below l s ->
  extract_unit l s id p = (s', u) ->
  store_wf s' /\ ext s s' /\ u_id u = id /\
  (forall a, In a (unit_addrs u) -> (next s <= a < next s')%positive) /\
  NoDup (unit_addrs u) /\
  uvals s' u = rvals s (p, fst (lift_get l id), snd (lift_get l id)) /\
  (u_vel u = None <-> assoc id (l_dict l) = None) /\ unit_wf u.
Proof.
  intros W P B H. unfold extract_unit in H.
  assert (Hb : forall a, In a (opt_addrs (fst (lift_get l id)) ++ opt_addrs (snd (lift_get l id))) ->
               (a < next s)%positive).
  { rewrite lift_get_assoc. destruct (assoc id (l_dict l)) as [[v t]|] eqn:A; simpl; [|tauto].
    destruct (B id v t A). intros a [<-|[<-|[]]]; assumption. }
  assert (Hn : fst (lift_get l id) = None <-> assoc id (l_dict l) = None).
  { rewrite lift_get_assoc. destruct (assoc id (l_dict l)) as [[v t]|]; simpl; split; congruence. }
  assert (Hw : (fst (lift_get l id) = None <-> snd (lift_get l id) = None)).
  { rewrite lift_get_assoc. destruct (assoc id (l_dict l)) as [[v t]|]; simpl; split; congruence. }
  destruct (lift_get l id) as [v t]. simpl in Hb, Hn, Hw.
  destruct (copy s p) as [s1 p1] eqn:C1.
  destruct (copy_opt s1 v) as [s2 v2] eqn:C2.
  destruct (copy_opt s2 t) as [s3 t3] eqn:C3.
  injection H as <- <-.
  destruct (copy_spec _ _ _ _ W C1) as [W1 [E1 [A1 [N1 R1]]]].
  destruct (copy_opt_spec _ _ _ _ W1 C2) as [W2 [E2 [A2 [R2 Z2]]]].
  destruct (copy_opt_spec _ _ _ _ W2 C3) as [W3 [E3 [A3 [R3 Z3]]]].
  pose proof (ext_trans _ _ _ E1 E2) as E12.
  pose proof (ext_trans _ _ _ E12 E3) as E13.
  pose proof (ext_trans _ _ _ E2 E3) as E23.
  assert (L1 : (next s <= next s1)%positive) by (destruct E1; assumption).
  assert (L2 : (next s1 <= next s2)%positive) by (destruct E2; assumption).
  assert (L3 : (next s2 <= next s3)%positive) by (destruct E3; assumption).
  repeat split; auto.
  - unfold unit_addrs in H. simpl in H. destruct H as [<-|H]; [lia|].
    apply in_app_or in H. destruct H as [H|H]; [apply A2 in H | apply A3 in H]; lia.
  - unfold unit_addrs in H. simpl in H. destruct H as [<-|H]; [lia|].
    apply in_app_or in H. destruct H as [H|H]; [apply A2 in H | apply A3 in H]; lia.
  - unfold unit_addrs; simpl. constructor.
    + intro H. apply in_app_or in H. destruct H as [H|H]; [apply A2 in H | apply A3 in H]; lia.
    + destruct v2 as [a2|], t3 as [a3|]; simpl; repeat constructor; simpl; try tauto.
      intros [<-|[]]. specialize (A2 a2 (or_introl eq_refl)). specialize (A3 a2 (or_introl eq_refl)). lia.
  - unfold uvals, urefs, rvals; simpl.
    assert (Rp : read s3 p1 = read s p).
    { rewrite (ext_read s1 s3 p1 E23) by lia. exact R1. }
    assert (Rv : option_map (read s3) v2 = option_map (read s) v).
    { rewrite (opt_read_ext s2 s3 v2 E3) by (intros a Ha; apply A2 in Ha; lia).
      rewrite R2. apply opt_read_ext; [exact E1|]. intros a Ha. apply Hb. apply in_or_app; auto. }
    assert (Rt : option_map (read s3) t3 = option_map (read s) t).
    { rewrite R3. apply opt_read_ext; [exact E12|]. intros a Ha. apply Hb. apply in_or_app; auto. }
    rewrite Rp, Rv, Rt. reflexivity.
  - simpl. intro H. apply Hn. apply Z2. exact H.
  - simpl. intro H. apply Z2. apply Hn. exact H.
  - unfold unit_wf, unit_wfb; simpl.
    destruct v2, t3; try reflexivity; exfalso.
    + assert (t = None) by (apply Z3; reflexivity). assert (v = None) by (apply Hw; assumption).
      assert (Some a = None) by (apply Z2; assumption). discriminate.
    + assert (v = None) by (apply Z2; reflexivity). assert (t = None) by (apply Hw; assumption).
      assert (Some a = None) by (apply Z3; assumption). discriminate.
Qed.
