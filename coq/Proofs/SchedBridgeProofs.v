(** * Proofs/SchedBridgeProofs.v — bridge C06 -> C07: the schedulers' answer satisfies the local check
    [Kinematics.is_min] on the pending list kept by the mediator model of Model/Kinematics.v. *)
From Coq Require Import List Arith Bool NArith ZArith QArith Qreals Reals Lia Lra.
From Flocq Require Import Core.Core IEEE754.BinarySingleNaN.
Require Import JF.Base.F64 JF.Model.Time JF.Model.Heap JF.Model.Sched JF.Model.Kinematics.
Require Import JF.Proofs.TimeProofs JF.Proofs.F2QBridge JF.Proofs.HeapProofs JF.Proofs.SchedProofs.
Import ListNotations.

(** ** abstraction function: RefSched's live list (arrival order, times as float pairs, infinite times
    kept) -> Kinematics' pending list (newest first, exact rational times, finite times only) *)
Fixpoint alpha (l : list (fkey * N)) : list (nat * Q) :=
  match l with
  | [] => []
  | (t, hd) :: r =>
      match tvalue t with
      | Some q => alpha r ++ [(N.to_nat hd, q)]
      | None => alpha r
      end
  end.

Lemma alpha_app : forall l1 l2, alpha (l1 ++ l2) = alpha l2 ++ alpha l1.
Proof.
  induction l1 as [|[t hd] r IH]; intros l2; cbn [alpha app].
  - rewrite app_nil_r. reflexivity.
  - rewrite IH. destruct (tvalue t); [rewrite app_assoc|]; reflexivity.
Qed.

Lemma alpha_In : forall l h q, In (h, q) (alpha l) <->
  exists t hd, In (t, hd) l /\ tvalue t = Some q /\ N.to_nat hd = h.
Proof.
  induction l as [|[t hd] r IH]; intros h q; cbn [alpha In].
  - split; [intros []|intros (? & ? & [] & _)].
  - destruct (tvalue t) as [q0|] eqn:E.
    + rewrite in_app_iff, IH. cbn [In]. split.
      * intros [(t' & hd' & H1 & H2 & H3)|[H|[]]].
        -- exists t', hd'. auto.
        -- inversion H; subst. exists t, hd. auto.
      * intros (t' & hd' & [H1|H1] & H2 & H3).
        -- inversion H1; subst. right. left. congruence.
        -- left. exists t', hd'. auto.
    + rewrite IH. split.
      * intros (t' & hd' & H1 & H2 & H3). exists t', hd'. auto.
      * intros (t' & hd' & [H1|H1] & H2 & H3); [inversion H1; subst; congruence|].
        exists t', hd'. auto.
Qed.

Lemma drop_handler_app : forall h p1 p2, drop_handler h (p1 ++ p2) = drop_handler h p1 ++ drop_handler h p2.
Proof. intros. unfold drop_handler. apply filter_app. Qed.

Lemma alpha_trash1 : forall hd l, alpha (rs_trash fkey hd l) = drop_handler (N.to_nat hd) (alpha l).
Proof.
  intros hd. induction l as [|[t hd'] r IH]; [reflexivity|].
  cbn [rs_trash filter snd alpha]. fold (rs_trash fkey hd r).
  destruct (N.eqb_spec hd' hd) as [->|Hne]; cbn [negb].
  - rewrite IH. destruct (tvalue t); [|reflexivity].
    rewrite drop_handler_app. cbn. rewrite Nat.eqb_refl. cbn. rewrite app_nil_r. reflexivity.
  - cbn [alpha]. rewrite IH. destruct (tvalue t); [|reflexivity].
    rewrite drop_handler_app. cbn.
    destruct (Nat.eqb_spec (N.to_nat hd') (N.to_nat hd)) as [E|E]; [apply N2Nat.inj in E; contradiction|reflexivity].
Qed.

Lemma drop_handler_absent : forall hd l, ~ In hd (map snd l) -> drop_handler (N.to_nat hd) (alpha l) = alpha l.
Proof.
  intros hd l Hn. rewrite <- alpha_trash1. rewrite (rs_trash_notin fkey hd l Hn). reflexivity.
Qed.

(** the scheduler operations of one Kinematics leg, on RefSched's live list *)
Definition ref_push_all (l : list (fkey * N)) (cs : list (nat * ftime)) : list (fkey * N) :=
  fold_left (fun l c => l ++ [(snd c, N.of_nat (fst c))]) cs l.
Definition ref_trash_all (l : list (fkey * N)) (hs : list nat) : list (fkey * N) :=
  fold_left (fun l h => rs_trash fkey (N.of_nat h) l) hs l.

(** protocol hypothesis: a handler is pushed only while it has no live event (its previous event was
    trashed or committed-and-trashed before) *)
Fixpoint push_ok (l : list (fkey * N)) (cs : list (nat * ftime)) : Prop :=
  match cs with
  | [] => True
  | (h, t) :: r => ~ In (N.of_nat h) (map snd l) /\ push_ok (l ++ [(t, N.of_nat h)]) r
  end.

Lemma ref_push_all_cons : forall l h t r, ref_push_all l ((h, t) :: r) = ref_push_all (l ++ [(t, N.of_nat h)]) r.
Proof. reflexivity. Qed.
Lemma ref_trash_all_cons : forall l h r, ref_trash_all l (h :: r) = ref_trash_all (rs_trash fkey (N.of_nat h) l) r.
Proof. reflexivity. Qed.

Lemma alpha_push_all : forall cs l, push_ok l cs -> alpha (ref_push_all l cs) = push_all (alpha l) cs.
Proof.
  induction cs as [|[h t] r IH]; intros l Hp; [reflexivity|].
  destruct Hp as (Hn & Hr). rewrite ref_push_all_cons. cbn [push_all]. rewrite (IH _ Hr).
  rewrite alpha_app. cbn [alpha]. pose proof (drop_handler_absent _ _ Hn) as D. rewrite Nat2N.id in D.
  destruct (tvalue t); rewrite D; cbn; rewrite ?Nat2N.id; reflexivity.
Qed.

Lemma alpha_trash_all : forall hs l, alpha (ref_trash_all l hs) = trash_all_k (alpha l) hs.
Proof.
  induction hs as [|h r IH]; intros l; [reflexivity|].
  rewrite ref_trash_all_cons, IH, alpha_trash1, Nat2N.id. reflexivity.
Qed.

(** the same operations through the RefSched step function *)
Lemma ref_push_all_run : forall cs rs,
  rs_live (fst (rs_run fkey fkey_lt rs (map (fun c => OpPush (snd c) (N.of_nat (fst c))) cs))) = ref_push_all (rs_live rs) cs.
Proof.
  induction cs as [|c r IH]; intros rs; [reflexivity|].
  cbn [map]. rewrite rs_run_cons. cbn [fst]. rewrite IH. reflexivity.
Qed.

Lemma ref_trash_all_run : forall hs rs,
  rs_live (fst (rs_run fkey fkey_lt rs (map (fun h => OpTrash (N.of_nat h)) hs))) = ref_trash_all (rs_live rs) hs.
Proof.
  induction hs as [|c r IH]; intros rs; [reflexivity|].
  cbn [map]. rewrite rs_run_cons. cbn [fst]. rewrite IH. reflexivity.
Qed.

(** ** times: normalised (integer quotient, remainder in [0,1)) or the infinite time *)
Definition tnorm (t : fkey) : Prop := normalised (mkTime (fst t) (snd t)) \/ t = fkey_inf.

Lemma finite_not_nan : forall x : f64, ffinite x = true -> fisnan x = false.
Proof. intros [s|s| |s m e H]; cbn; congruence. Qed.

Lemma tnorm_good : forall t, tnorm t -> good_key t.
Proof.
  intros t [[Fq _ Fr _]| ->]; [|split; reflexivity]. cbn in Fq, Fr.
  split; apply finite_not_nan; assumption.
Qed.

Lemma tvalue_norm : forall t, normalised (mkTime (fst t) (snd t)) ->
  exists q, tvalue t = Some q /\ Q2R q = value (mkTime (fst t) (snd t)).
Proof.
  intros t [Fq _ Fr _]. cbn in Fq, Fr. unfold tvalue. rewrite Fq, Fr. cbn [andb].
  eexists. split; [reflexivity|]. rewrite Q2R_plus, !f2q_B2R. reflexivity.
Qed.

Lemma tvalue_some_norm : forall t q, tnorm t -> tvalue t = Some q -> normalised (mkTime (fst t) (snd t)).
Proof. intros t q [H| ->] E; [exact H|]. vm_compute in E. discriminate. Qed.

(** the only place where real numbers are used: the quotient-then-remainder comparison of normalised
    times is the comparison of their exact rational values (Proofs/TimeProofs.v, [time_lt_exact]) *)
Lemma fkey_lt_Qlt : forall a b qa qb,
  normalised (mkTime (fst a) (snd a)) -> normalised (mkTime (fst b) (snd b)) ->
  tvalue a = Some qa -> tvalue b = Some qb ->
  (fkey_lt a b = true <-> (qa < qb)%Q).
Proof.
  intros a b qa qb Na Nb Ea Eb.
  destruct (tvalue_norm a Na) as (qa' & Ea' & Va). destruct (tvalue_norm b Nb) as (qb' & Eb' & Vb).
  rewrite Ea in Ea'. rewrite Eb in Eb'. inversion Ea'; inversion Eb'; subst qa' qb'.
  unfold fkey_lt. rewrite c_time_lt_is_time_lt, (time_lt_exact _ _ Na Nb), <- Va, <- Vb.
  destruct (Rlt_bool_spec (Q2R qa) (Q2R qb)) as [H|H]; split; intros X; try reflexivity; try discriminate.
  - apply Rlt_Qlt. exact H.
  - apply Qlt_Rlt in X. lra.
Qed.

Lemma fkey_lt_false_Qle : forall a b qa qb,
  normalised (mkTime (fst a) (snd a)) -> normalised (mkTime (fst b) (snd b)) ->
  tvalue a = Some qa -> tvalue b = Some qb ->
  (fkey_lt a b = false <-> (qb <= qa)%Q).
Proof.
  intros a b qa qb Na Nb Ea Eb. pose proof (fkey_lt_Qlt a b qa qb Na Nb Ea Eb) as H.
  destruct (fkey_lt a b); split; intros X; try reflexivity; try discriminate.
  - exfalso. apply (Qlt_not_le qa qb); [apply H; reflexivity|exact X].
  - apply Qnot_lt_le. intros Y. apply H in Y. discriminate.
Qed.

Lemma finite_tvalue : forall t, tnorm t -> (finite fkey fkey_lt fkey_inf t <-> tvalue t <> None).
Proof.
  intros t [N| ->].
  - destruct (tvalue_norm t N) as (q & E & _). rewrite E. split; [congruence|]. intros _.
    unfold finite, fkey_lt. rewrite c_time_lt_is_time_lt. apply (inf_greatest _ N).
  - split; [intros H; vm_compute in H; discriminate|intros H; vm_compute in H; congruence].
Qed.

Definition all_tnorm (l : list (fkey * N)) : Prop := forall x, In x l -> tnorm (fst x).

(** ** (t, hd) live and minimal among the finite live events of the reference list  ==>  is_min *)
Theorem min_is_min : forall l t hd, all_tnorm l -> In (t, hd) l ->
  finite fkey fkey_lt fkey_inf t ->
  (forall y, In y l -> finite fkey fkey_lt fkey_inf (fst y) -> fkey_lt (fst y) t = false) ->
  exists T, tvalue t = Some T /\ is_min (alpha l) (N.to_nat hd) T = true.
Proof.
  intros l t hd Hn Hin Hf Hmin.
  pose proof (Hn _ Hin) as Nt. cbn [fst] in Nt.
  destruct (tvalue t) as [T|] eqn:ET; [|apply (finite_tvalue t Nt) in Hf; congruence].
  pose proof (tvalue_some_norm t T Nt ET) as Nt'.
  exists T. split; [reflexivity|]. unfold is_min. apply andb_true_iff. split.
  - apply existsb_exists. exists (N.to_nat hd, T). split.
    + apply alpha_In. exists t, hd. auto.
    + cbn [fst snd]. rewrite Nat.eqb_refl. cbn. apply Qeq_bool_iff. reflexivity.
  - apply forallb_forall. intros [h q] He. cbn [snd]. apply alpha_In in He.
    destruct He as (t' & hd' & Hin' & Et' & _).
    pose proof (Hn _ Hin') as Nt2. cbn [fst] in Nt2.
    pose proof (tvalue_some_norm t' q Nt2 Et') as Nt2'.
    apply Qle_bool_iff. apply (fkey_lt_false_Qle t' t q T Nt2' Nt' Et' ET).
    apply (Hmin (t', hd') Hin'). apply (finite_tvalue t' Nt2). cbn [fst]. congruence.
Qed.

(** ** conversely: whatever is_min accepts is a live event of the reference list that no live event
    precedes in the schedulers' order, i.e. an answer RefSched may give (its actual answer has an
    equivalent time) *)
Theorem is_min_is_answer : forall l h T, all_tnorm l -> is_min (alpha l) h T = true ->
  exists t hd T', In (t, hd) l /\ N.to_nat hd = h /\ tvalue t = Some T' /\ (T' == T)%Q /\
    finite fkey fkey_lt fkey_inf t /\ forall y, In y l -> fkey_lt (fst y) t = false.
Proof.
  intros l h T Hn H. unfold is_min in H. apply andb_true_iff in H. destruct H as (Hex & Hall).
  apply existsb_exists in Hex. destruct Hex as ([h' T'] & He & Hb). cbn [fst snd] in Hb.
  apply andb_true_iff in Hb. destruct Hb as (Hh & HT). apply Nat.eqb_eq in Hh. subst h'.
  apply Qeq_bool_iff in HT.
  apply alpha_In in He. destruct He as (t & hd & Hin & Et & Hhd).
  pose proof (Hn _ Hin) as Nt. cbn [fst] in Nt. pose proof (tvalue_some_norm t T' Nt Et) as Nt'.
  exists t, hd, T'. repeat (split; [assumption|]). split.
  - apply (finite_tvalue t Nt). congruence.
  - intros [t2 hd2] Hin2. cbn [fst]. pose proof (Hn _ Hin2) as N2. cbn [fst] in N2.
    destruct N2 as [N2| ->].
    + destruct (tvalue_norm t2 N2) as (q2 & E2 & _).
      apply (fkey_lt_false_Qle t2 t q2 T' N2 Nt' E2 Et).
      rewrite HT. rewrite forallb_forall in Hall.
      apply Qle_bool_iff. apply (Hall (N.to_nat hd2, q2)). apply alpha_In. exists t2, hd2. auto.
    + unfold fkey_lt. rewrite c_time_lt_is_time_lt. apply (inf_greatest _ Nt').
Qed.

(** ** the three schedulers *)
Lemma all_tnorm_good : forall l, all_tnorm l -> all_good fkey good_key l.
Proof. intros l H x Hx. apply tnorm_good. apply H. exact Hx. Qed.

Theorem list_get_is_min : forall ls hd t, all_tnorm (ls_times ls) ->
  (exists x, In x (ls_times ls) /\ tvalue (fst x) <> None) ->
  snd (ls_get fkey fkey_lt ls) = OGot hd t ->
  exists T, tvalue t = Some T /\ is_min (alpha (ls_times ls)) (N.to_nat hd) T = true.
Proof.
  intros ls hd t Hn (x & Hx & Hfx) Hget.
  destruct (ls_get_finite fkey fkey_lt fkey_inf good_key fkey_asym fkey_le_trans fkey_inf_good ls
              (all_tnorm_good _ Hn)) with (hd := hd) (t := t) as (Hf & Hin & Hmin); auto.
  { exists x. split; [exact Hx|]. apply (finite_tvalue _ (Hn _ Hx)). exact Hfx. }
  apply (min_is_min (ls_times ls) t hd Hn Hin Hf). intros y Hy _. apply (Hmin y Hy).
Qed.

Lemma rs_get_as_list : forall rs, snd (rs_step fkey fkey_lt rs OpGet) = snd (ls_get fkey fkey_lt (mkLS (rs_live rs) (rs_last rs))).
Proof.
  intros [l last]. unfold ls_get. cbn [rs_step rs_live rs_last ls_times ls_last]. destruct l as [|x r]; [reflexivity|].
  cbv zeta. destruct (guard fkey fkey_lt last (fst (list_min fkey fkey_lt x r))); reflexivity.
Qed.

Theorem ref_get_is_min : forall rs hd t, all_tnorm (rs_live rs) ->
  (exists x, In x (rs_live rs) /\ tvalue (fst x) <> None) ->
  snd (rs_step fkey fkey_lt rs OpGet) = OGot hd t ->
  exists T, tvalue t = Some T /\ is_min (alpha (rs_live rs)) (N.to_nat hd) T = true.
Proof.
  intros rs hd t Hn Hf Hget. rewrite rs_get_as_list in Hget.
  exact (list_get_is_min (mkLS (rs_live rs) (rs_last rs)) hd t Hn Hf Hget).
Qed.

Definition norm_op (o : op fkey) : Prop := match o with OpPush t _ => tnorm t | _ => True end.

Lemma norm_good_ops : forall ops, Forall norm_op ops -> Forall (good_op fkey good_key) ops.
Proof.
  intros ops H. induction H as [|o r Ho Hr IH]; constructor; auto.
  destruct o; cbn in *; auto. apply tnorm_good; auto.
Qed.

Lemma rs_step_tnorm : forall rs o, all_tnorm (rs_live rs) -> norm_op o ->
  all_tnorm (rs_live (fst (rs_step fkey fkey_lt rs o))).
Proof.
  intros rs o Hn Ho. destruct o as [t hd|hd| | |hd n].
  - cbn. intros x Hx. apply in_app_or in Hx. destruct Hx as [Hx|[<-|[]]]; [apply Hn; auto|exact Ho].
  - cbn. intros x Hx. apply rs_trash_In in Hx. apply Hn. tauto.
  - rewrite rs_get_live. exact Hn.
  - exact Hn.
  - cbn. destruct (N.eqb n 0); [exact Hn|]. intros x Hx. apply rs_trash_In in Hx. apply Hn. tauto.
Qed.

Lemma rs_run_tnorm : forall ops rs, all_tnorm (rs_live rs) -> Forall norm_op ops ->
  all_tnorm (rs_live (fst (rs_run fkey fkey_lt rs ops))).
Proof.
  induction ops as [|o r IH]; intros rs Hn Hall; [exact Hn|].
  inversion Hall; subst. rewrite rs_run_cons. cbn [fst]. apply IH; auto. apply rs_step_tnorm; auto.
Qed.

(** heap scheduler: after ANY operation sequence (pushed times normalised or infinite), whatever
    get_succeeding_event returns passes is_min on the abstraction of the reference list *)
Theorem heap_get_is_min : forall ops, Forall norm_op ops ->
  exists s outs, hs_run fkey fkey_lt fkey_bot fkey_inf (hs_init fkey fkey_bot) ops = Some (s, outs) /\
    exists s' out, hs_get fkey fkey_lt fkey_bot s = Some (s', out) /\
      forall hd t, out = OGot hd t ->
        exists T, tvalue t = Some T /\
          is_min (alpha (rs_live (fst (rs_run fkey fkey_lt (rs_init fkey fkey_bot) ops)))) (N.to_nat hd) T = true.
Proof.
  intros ops Hops.
  destruct (get_after_run fkey fkey_lt fkey_bot fkey_inf good_key fkey_asym fkey_le_trans fkey_bot_least fkey_bot_good
              ops (norm_good_ops _ Hops)) as (s & outs & Hrun & _ & s' & out & Hget & _ & Hcase).
  exists s, outs. split; [exact Hrun|]. exists s', out. split; [exact Hget|].
  intros hd t ->. cbv zeta in Hcase.
  assert (Hn : all_tnorm (rs_live (fst (rs_run fkey fkey_lt (rs_init fkey fkey_bot) ops)))).
  { apply rs_run_tnorm; auto. intros x []. }
  destruct Hcase as [(_ & E)|(t' & hd' & Hin & Hf & Hmin & [(_ & E)|(_ & E)])]; try discriminate.
  inversion E; subst t' hd'. apply (min_is_min _ t hd Hn Hin Hf). intros y Hy Hfy. apply (Hmin y Hy Hfy).
Qed.

(** ** a whole run of Kinematics legs: the pending list of the mediator model IS the abstraction of the
    reference scheduler's live list driven by the same pushes and trashes *)
Definition leg_ops (c : list (nat * ftime) * list nat) : list (op fkey) :=
  map (fun c => OpPush (snd c) (N.of_nat (fst c))) (fst c) ++ [OpGet] ++ map (fun h => OpTrash (N.of_nat h)) (snd c).

Fixpoint kin_pending (p : list (nat * Q)) (legs : list (list (nat * ftime) * list nat)) : list (nat * Q) :=
  match legs with
  | [] => p
  | (cs, tr) :: r => kin_pending (trash_all_k (push_all p cs) tr) r
  end.

Fixpoint legs_ok (l : list (fkey * N)) (legs : list (list (nat * ftime) * list nat)) : Prop :=
  match legs with
  | [] => True
  | (cs, tr) :: r => push_ok l cs /\ legs_ok (ref_trash_all (ref_push_all l cs) tr) r
  end.

Lemma rs_run_app_live : forall a b rs,
  rs_live (fst (rs_run fkey fkey_lt rs (a ++ b))) =
  rs_live (fst (rs_run fkey fkey_lt (fst (rs_run fkey fkey_lt rs a)) b)).
Proof.
  induction a as [|o r IH]; intros b rs; [reflexivity|].
  cbn [app]. rewrite !rs_run_cons. cbn [fst]. apply IH.
Qed.

Lemma leg_live : forall cs tr rs,
  rs_live (fst (rs_run fkey fkey_lt rs (leg_ops (cs, tr)))) = ref_trash_all (ref_push_all (rs_live rs) cs) tr.
Proof.
  intros cs tr rs. unfold leg_ops. cbn [fst snd]. rewrite rs_run_app_live.
  cbn [app]. rewrite rs_run_cons. cbn [fst]. rewrite ref_trash_all_run, rs_get_live, ref_push_all_run. reflexivity.
Qed.

Theorem alpha_legs : forall legs rs, legs_ok (rs_live rs) legs ->
  alpha (rs_live (fst (rs_run fkey fkey_lt rs (flat_map leg_ops legs)))) = kin_pending (alpha (rs_live rs)) legs.
Proof.
  induction legs as [|[cs tr] r IH]; intros rs Hok; [reflexivity|].
  destruct Hok as (Hp & Hr). cbn [flat_map kin_pending]. rewrite rs_run_app_live.
  rewrite IH by (rewrite leg_live; exact Hr).
  rewrite leg_live, alpha_trash_all, (alpha_push_all _ _ Hp). reflexivity.
Qed.

(** under the mediator protocol the list scheduler holds exactly the reference list *)
Corollary list_run_times : forall ops, proto_run fkey fkey_lt (lproto fkey) (rs_init fkey fkey_bot) ops ->
  ls_times (fst (ls_run fkey fkey_lt (ls_init fkey fkey_bot) ops)) = rs_live (fst (rs_run fkey fkey_lt (rs_init fkey fkey_bot) ops)).
Proof.
  intros ops H. destruct (list_refines_ref fkey fkey_lt ops _ _ (LSim_init fkey fkey_bot) H) as (L & _).
  apply (lsim_times _ _ _ L).
Qed.
