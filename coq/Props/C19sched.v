(** * Props/C19sched.v — C19's [resume_same_trace] instantiated with the HeapScheduler model (C06).

    [hs_inv s]   : heap_inv of the C heap /\ _allocated_memory_bytes = size * sizeof(entry); holds in every
                   state reachable by any operation sequence ([reach_hs_inv]).
    [seqv s s']  : both satisfy hs_inv, the heap arrays agree on cells 0 .. length-1 ([heq]; or both
                   hold no entry), the counters agree for every handler, _last_returned_event agrees.
                   NOT compared (and really different after a pickle): the allocated size (the rebuilt
                   heap restarts at 64 entries and doubles only as far as needed) and with it
                   _allocated_memory_bytes; the stale cells at and beyond [length]; length 0 (never
                   allocated) versus 1 (allocated, all entries consumed) of a heap without entries.
                   Counters, _last_returned_event and the array itself are identical: __setstate__
                   re-inserts in level order, which never bubbles (C06 pickle_roundtrip).  Therefore
                   get returns the same HANDLER, also among equal times.
    [Sc] = option state, [None] = stuck scheduler: a model-level memory fault, MemoryError or a NaN time
    (excluded by hypothesis in C06) makes [w_push] return [None]; [w_get None = None].
    [w_getst] maps the SchedulerErrors of get_succeeding_event (empty / decreasing time) to [None] = the
    run ends there (Dump.run stops on [get = None]).
    Dump.v's [get] is a pure function Sc -> option H, whereas the real get_succeeding_event changes the
    scheduler (lazy deletion; _last_returned_event := returned time).  [resume_same_trace_heap] is the
    instance of Dump.run with [w_get] = handler only (effects of get not persisted: the monotonicity
    guard stays at its value of the dump); [resume_same_trace_heap_st] is the same statement for
    [run_st], the mediator loop in which get returns the changed scheduler — the faithful one;
    [run_st_is_run] shows Dump.run is the special case of an effect-free get. *)
From Coq Require Import List Arith Bool NArith ZArith Lia.
Require Import JF.Base.F64 JF.Model.Time JF.Model.Heap JF.Model.Sched JF.Model.Dump.
Require Import JF.Proofs.HeapProofs JF.Proofs.SchedProofs JF.Proofs.DumpProofs JF.Proofs.DumpSchedProofs.
Import ListNotations.

(** (1) pickle_bisim *)
Theorem pickle_bisim :
  (forall s : hsched fkey, hs_inv s ->
     exists s', hs_pickle fkey fkey_lt fkey_bot s = Some s' /\ oeqv (Some s) (Some s')) /\
  bisim Sc N fkey w_push w_trash w_get oeqv.
Proof. exact pickle_bisim_proof. Qed.
Print Assumptions pickle_bisim.

(** the bisimulation also covers the state change of get: same handler AND equivalent successor states *)
Theorem pickle_bisim_get_st : forall o o', oeqv o o' ->
  match w_getst o, w_getst o' with
  | Some (h, o1), Some (h', o1') => h = h' /\ oeqv o1 o1'
  | None, None => True
  | _, _ => False
  end.
Proof. exact w_getst_eqv. Qed.
Print Assumptions pickle_bisim_get_st.

(** (2) for every mediator and every heap-scheduler state satisfying the invariant, the run continued
    with the unpickled scheduler commits the same events, for every number of legs *)
Theorem resume_same_trace_heap :
  forall (R E : Type) (produce : R -> list (fkey * N) * R) (commit : R -> N -> option (E * R * list N))
         (s : hsched fkey), hs_inv s ->
  exists s', hs_pickle fkey fkey_lt fkey_bot s = Some s' /\
    forall n r, run R Sc N fkey E w_push w_trash w_get produce commit n (r, Some s) =
                run R Sc N fkey E w_push w_trash w_get produce commit n (r, Some s').
Proof. exact resume_same_trace_heap_proof. Qed.
Print Assumptions resume_same_trace_heap.

Theorem resume_same_trace_heap_st :
  forall (R E : Type) (produce : R -> list (fkey * N) * R) (commit : R -> N -> option (E * R * list N))
         (s : hsched fkey), hs_inv s ->
  exists s', hs_pickle fkey fkey_lt fkey_bot s = Some s' /\
    forall n r, run_st R Sc N fkey E w_push w_trash w_getst produce commit n (r, Some s) =
                run_st R Sc N fkey E w_push w_trash w_getst produce commit n (r, Some s').
Proof. exact resume_same_trace_heap_st_proof. Qed.
Print Assumptions resume_same_trace_heap_st.

Theorem run_st_is_run : forall R S H T E push trash (get : S -> option H) produce commit n st,
  run_st R S H T E push trash (fun s => option_map (fun h => (h, s)) (get s)) produce commit n st =
  run R S H T E push trash get produce commit n st.
Proof. exact run_st_pure. Qed.
Print Assumptions run_st_is_run.

(** the invariant is not an extra assumption: every reachable state has it *)
Theorem reachable_hs_inv : forall ops, Forall (good_op fkey good_key) ops ->
  exists s outs, hs_run fkey fkey_lt fkey_bot fkey_inf (hs_init fkey fkey_bot) ops = Some (s, outs) /\ hs_inv s.
Proof. exact reach_hs_inv. Qed.
Print Assumptions reachable_hs_inv.

(** ListScheduler: pickled as is, the unpickled scheduler is the same value; eqv = equality *)
Theorem resume_same_trace_list :
  forall (ls : lsched fkey), fst (ls_step fkey fkey_lt ls OpPickle) = ls.
Proof. exact list_pickle_id. Qed.
Print Assumptions resume_same_trace_list.

(** ** Non-vacuity: a state with a trashed entry at the root and a tie (handlers 2, 5 at 1.0; 2 trashed;
    handlers 7 and, pushed later, 10, 11, 12 tie at 2.25), pickled, then 3 legs of a mediator that pushes one
    candidate per leg and trashes the handler that fired.  The third leg is decided among four equal
    times: original and unpickled scheduler pick the same handler (12 with the state-changing get, 10 when
    the lazy deletions of get are not persisted: a different but again common array layout). *)
Definition t15 : fkey := (of_bits 4607182418800017408, of_bits 4602678819172646912).
Definition t10 : fkey := (of_bits 4607182418800017408, of_bits 0).
Definition t225 : fkey := (of_bits 4611686018427387904, of_bits 4598175219545276416).
Definition ex_hist : list (op fkey) :=
  [OpPush t15 3%N; OpPush t10 2%N; OpPush t10 5%N; OpPush t225 7%N; OpTrash 2%N].
Definition ex_produce (r : N) : list (fkey * N) * N := ([(t225, (10 + r)%N)], r).
Definition ex_commit (r : N) (h : N) : option (N * N * list N) := Some (h, (r + 1)%N, [h]).

Definition ex_s : option (hsched fkey) :=
  option_map fst (hs_run fkey fkey_lt fkey_bot fkey_inf (hs_init fkey fkey_bot) ex_hist).
Definition ex_s' : option (hsched fkey) :=
  match ex_s with Some s => hs_pickle fkey fkey_lt fkey_bot s | None => None end.

Example resume_nonvacuous_inv : exists s, ex_s = Some s /\ hs_inv s.
Proof.
  destruct (reachable_hs_inv ex_hist ltac:(repeat constructor)) as (s & outs & Hrun & Hinv).
  exists s. split; [unfold ex_s; rewrite Hrun; reflexivity|exact Hinv].
Qed.

Example resume_nonvacuous :
  match ex_s, ex_s' with
  | Some s, Some s' =>
      hs_getstate fkey fkey_bot s = Some [mkE t10 (Some 2%N) 0%N; mkE t15 (Some 3%N) 0%N; mkE t10 (Some 5%N) 0%N; mkE t225 (Some 7%N) 0%N] /\
      hs_getstate fkey fkey_bot s' = hs_getstate fkey fkey_bot s /\
      run_st N Sc N fkey N w_push w_trash w_getst ex_produce ex_commit 3 (0%N, Some s) = [5%N; 3%N; 12%N] /\
      run_st N Sc N fkey N w_push w_trash w_getst ex_produce ex_commit 3 (0%N, Some s') = [5%N; 3%N; 12%N] /\
      run N Sc N fkey N w_push w_trash w_get ex_produce ex_commit 3 (0%N, Some s) = [5%N; 3%N; 10%N] /\
      run N Sc N fkey N w_push w_trash w_get ex_produce ex_commit 3 (0%N, Some s') = [5%N; 3%N; 10%N]
  | _, _ => False
  end.
Proof. vm_compute. repeat split. Qed.
