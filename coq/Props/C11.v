(** * C11 — The cell-occupancy bookkeeping mirrors the true particle positions (model / proof part).
    Model: Model/Occupancy.v (SingleActiveCellOccupancy.initialize / update); proofs: Proofs/OccupancyProofs.v.
    [cells]: the cells of the system (duplicate-free), [units]: the relevant units on the cell level,
    [cellof u]: the cell that contains the current position of unit [u].
    The run-time part (every leg of a recorded run satisfies the hypotheses of [update_inv]; a cell-boundary event
    puts the active unit into the neighbouring cell) is the trace validator's obligation. *)
From Coq Require Import List ZArith Bool Permutation.
Require Import JF.Model.Occupancy JF.Proofs.OccupancyProofs.
Import ListNotations.

(** initialize establishes the invariant for any number of cells and units *)
Theorem init_inv :
  forall (cell id : Type) (cell_eqb : cell -> cell -> bool) (id_eqb : id -> id -> bool),
    (forall a b : cell, cell_eqb a b = true <-> a = b) ->
    forall cells : list cell, NoDup cells ->
    forall (lim : option nat) (us : list (id * cell * bool)) (cellof : id -> cell),
      (forall u c r, In (u, c, r) us -> In c cells /\ cellof u = c) ->
      exists s, initialize cell_eqb cells lim us = Ok s
                /\ occ_inv cell_eqb id_eqb cells s (units_of us) cellof
                /\ active_id s = None /\ limit s = lim.
Proof. exact OccupancyProofs.init_inv. Qed.
Print Assumptions init_inv.

(** update preserves the invariant after any step in which the inactive units did not change their cell and,
    if the active unit changes, the previous active unit is still in its recorded cell; [c] is the cell in which
    the (new) active unit is reported.  If the identifier stays the same the unit may be reported in any cell. *)
Theorem update_inv :
  forall (cell id : Type) (cell_eqb : cell -> cell -> bool) (id_eqb : id -> id -> bool),
    (forall a b : cell, cell_eqb a b = true <-> a = b) ->
    (forall a b : id, id_eqb a b = true <-> a = b) ->
    forall cells : list cell, NoDup cells ->
    forall (units : list id) (cellof cellof' : id -> cell),
      NoDup units ->
      (forall u, In u units -> In (cellof' u) cells) ->
      forall (s : state cell id) (nid : id) (rel : bool) (c : cell),
        occ_inv cell_eqb id_eqb cells s units cellof ->
        (rel = true <-> In nid units) ->
        (rel = true -> c = cellof' nid) ->
        (forall u, In u units -> is_active id_eqb s u = false -> cellof' u = cellof u) ->
        (forall a, active_id s = Some a -> a <> nid -> cellof' a = cellof a) ->
        exists s', update cell_eqb id_eqb s nid rel c = Ok s' /\ occ_inv cell_eqb id_eqb cells s' units cellof'.
Proof. exact OccupancyProofs.update_inv. Qed.
Print Assumptions update_inv.

(** what the invariant says, element-wise: every relevant non-active unit is recorded exactly once, in the
    occupant or surplus list of the cell that contains its position *)
Theorem recorded_exactly_once :
  forall (cell id : Type) (cell_eqb : cell -> cell -> bool) (id_eqb : id -> id -> bool)
         (cs : cellsys cell) (units : list id) (cellof : id -> cell),
    NoDup units ->
    forall (s : state cell id) (u : id),
      occ_inv cell_eqb id_eqb (cs_cells cs) s units cellof ->
      In u units -> is_active id_eqb s u = false ->
      In u (occ_of cell_eqb s (cellof u) ++ sur_of cell_eqb s (cellof u))
      /\ NoDup (recorded cell_eqb (cs_cells cs) s)
      /\ (forall c, In c (cs_cells cs) -> In u (occ_of cell_eqb s c ++ sur_of cell_eqb s c) -> c = cellof u).
Proof. exact OccupancyProofs.occ_inv_exactly_once. Qed.
Print Assumptions recorded_exactly_once.

(** the active unit is in neither list; it is stored with the cell that contains its position *)
Theorem active_not_recorded :
  forall (cell id : Type) (cell_eqb : cell -> cell -> bool) (id_eqb : id -> id -> bool),
    (forall a b : id, id_eqb a b = true <-> a = b) ->
    forall (cs : cellsys cell) (units : list id) (cellof : id -> cell) (s : state cell id) (a : id),
      occ_inv cell_eqb id_eqb (cs_cells cs) s units cellof ->
      active_id s = Some a ->
      ~ In a (recorded cell_eqb (cs_cells cs) s) /\ active_cell s = Some (cellof a).
Proof. exact OccupancyProofs.occ_inv_active_not_recorded. Qed.
Print Assumptions active_not_recorded.

(** no cell lists more occupants than its limit; no empty surplus list is stored *)
Theorem occupants_within_limit :
  forall (cell id : Type) (cell_eqb : cell -> cell -> bool) (id_eqb : id -> id -> bool)
         (cells : list cell) (units : list id) (cellof : id -> cell) (s : state cell id),
    occ_inv cell_eqb id_eqb cells s units cellof ->
    (forall c k, limit s = Some k -> length (occ_of cell_eqb s c) <= k)
    /\ (forall c, aget cell_eqb (surplus s) c <> Some []).
Proof. exact OccupancyProofs.occ_inv_limit. Qed.
Print Assumptions occupants_within_limit.

(** the "move one surplus unit into the freed slot" branch of update is dead code: under the invariant update
    equals update with that branch deleted (and if it were ever entered it would raise IndexError) *)
Theorem refill_branch_dead :
  forall (cell id : Type) (cell_eqb : cell -> cell -> bool) (id_eqb : id -> id -> bool),
    (forall a b : cell, cell_eqb a b = true <-> a = b) ->
    forall (cells : list cell) (s : state cell id) (units : list id) (cellof : id -> cell)
           (nid : id) (rel : bool) (c : cell),
      occ_inv cell_eqb id_eqb cells s units cellof ->
      (forall u, In u units -> In (cellof u) cells) ->
      update cell_eqb id_eqb s nid rel c = update_norefill cell_eqb id_eqb s nid rel c.
Proof. exact OccupancyProofs.refill_branch_dead. Qed.
Print Assumptions refill_branch_dead.

Theorem refill_would_raise :
  forall (cell id : Type) (cell_eqb : cell -> cell -> bool) (s : state cell id) (c : cell),
    refill_condition cell_eqb s c = true -> refill cell_eqb s c = Err IndexError.
Proof. exact OccupancyProofs.refill_would_raise. Qed.
Print Assumptions refill_would_raise.

(** ** Non-vacuity: a concrete system (5 cells on a ring, limit 1, six relevant units of which three share a
    cell, one irrelevant unit) satisfies the hypotheses; the invariant holds after initialize and after update. *)
Import OccExample.

Example init_inv_nonvacuous :
  NoDup (cs_cells cs5)
  /\ (forall u c r, In (u, c, r) us -> In c (cs_cells cs5) /\ cellof u = c)
  /\ occ_inv list_Z_eqb list_Z_eqb (cs_cells cs5) s0 units cellof
  /\ surplus s0 = [([0%Z], [[1%Z]; [4%Z]])].
Proof.
  split; [exact (ok_cells_nodup _ _ cs5_ok)|]. split; [exact us_ok|]. split; [exact s0_inv|].
  vm_compute. reflexivity.
Qed.

Example update_inv_nonvacuous :
  occ_inv list_Z_eqb list_Z_eqb (cs_cells cs5) s1 units cellof
  /\ update list_Z_eqb list_Z_eqb s0 [0%Z] true [0%Z] = Ok s1
  /\ active_id s1 = Some [0%Z] /\ surplus s1 = [([0%Z], [[1%Z]; [4%Z]])] /\ occ_of list_Z_eqb s1 [0%Z] = [].
Proof. split; [exact s1_inv|]. vm_compute. auto. Qed.

Example recorded_exactly_once_nonvacuous :
  In [4%Z] units /\ is_active list_Z_eqb s1 [4%Z] = false
  /\ In [4%Z] (occ_of list_Z_eqb s1 (cellof [4%Z]) ++ sur_of list_Z_eqb s1 (cellof [4%Z])).
Proof. vm_compute. tauto. Qed.

Example active_not_recorded_nonvacuous :
  active_id s1 = Some [0%Z] /\ ~ In [0%Z] (recorded list_Z_eqb (cs_cells cs5) s1).
Proof.
  split; [vm_compute; reflexivity|].
  exact (proj1 (active_not_recorded _ _ list_Z_eqb list_Z_eqb list_Z_eqb_spec cs5 units cellof s1 [0%Z] s1_inv
                 (proj1 s1_active))).
Qed.

Example occupants_within_limit_nonvacuous :
  limit s1 = Some 1%nat /\ length (occ_of list_Z_eqb s1 [2%Z]) = 1%nat
  /\ length (sur_of list_Z_eqb s1 [0%Z]) = 2%nat.
Proof. vm_compute. auto. Qed.

Example refill_branch_dead_nonvacuous :
  update list_Z_eqb list_Z_eqb s1 [1%Z] true [0%Z] = update_norefill list_Z_eqb list_Z_eqb s1 [1%Z] true [0%Z]
  /\ exists s2, update list_Z_eqb list_Z_eqb s1 [1%Z] true [0%Z] = Ok s2 /\ occ_of list_Z_eqb s2 [0%Z] = [[0%Z]].
Proof. split; [vm_compute; reflexivity|]. eexists. vm_compute. split; reflexivity. Qed.

Example refill_would_raise_nonvacuous :
  let s := mkState (occupants s1) [([0%Z], [])] (active_cell s1) (active_id s1) (limit s1) in
  refill_condition list_Z_eqb s [0%Z] = true.
Proof. vm_compute. reflexivity. Qed.

(** ** Run-time part: recorded runs accepted by the replay [check_ocase] (Model/OccupancyRun.v).
    A case holds the box, the grid, the occupant limit, the cell-level units of the initial state and, per leg, what
    [update] received, the recorded positions of all relevant units and the recorded internals.  Cells are computed from
    position bits by [Cells.idx] (CuboidCells._cell_index on binary64). *)
Require Import JF.Model.OccupancyRun JF.Proofs.OccupancyRunProofs.

(** every accepted run, of any length: the invariant holds for the model state (= the recorded internals) after
    initialize and after every leg's update, with [cellof] = cell of the unit's recorded position at that leg *)
Theorem run_occ_inv :
  forall c : ocase, check_ocase c = true ->
  exists states,
    run_case c = Some states
    /\ length states = S (length (oc_legs c))
    /\ NoDup (torus_cells (oc_counts c)) /\ NoDup (case_units c)
    /\ Forall (fun sc => occ_inv list_Z_eqb list_Z_eqb (torus_cells (oc_counts c)) (fst sc) (case_units c)
                                 (cellof_of (snd sc))) states.
Proof. exact OccupancyRunProofs.run_occ_inv. Qed.
Print Assumptions run_occ_inv.

(** the cell map of leg n is literally position_to_cell of the positions recorded at leg n *)
Theorem run_cells_are_position_cells :
  forall (c : ocase) states, run_case c = Some states ->
  match states with
  | [] => False
  | (_, cl0) :: rest =>
      cl0 = case_cl0 c
      /\ Forall2 (fun l sc => snd sc = cells_of_positions (case_sides c) (oc_counts c) (ol_units l)) (oc_legs c) rest
  end.
Proof. exact OccupancyRunProofs.run_cells_are_position_cells. Qed.
Print Assumptions run_cells_are_position_cells.

(** one leg: acceptance gives the invariant after the update (the step of [run_occ_inv]) *)
Theorem step_leg_inv :
  forall cfg : rcfg, NoDup (rc_cells cfg) -> NoDup (rc_units cfg) ->
  forall s cl l s' cl',
    occ_inv list_Z_eqb list_Z_eqb (rc_cells cfg) s (rc_units cfg) (cellof_of cl) ->
    step_leg cfg s cl l = Some (s', cl') ->
    occ_inv list_Z_eqb list_Z_eqb (rc_cells cfg) s' (rc_units cfg) (cellof_of cl')
    /\ cl' = cells_of_positions (rc_sides cfg) (rc_counts cfg) (ol_units l)
    /\ update list_Z_eqb list_Z_eqb s (ol_nid l) (ol_rel l) (cell_of (rc_sides cfg) (rc_counts cfg) (ol_pos l)) = Ok s'.
Proof. exact OccupancyRunProofs.step_leg_inv. Qed.
Print Assumptions step_leg_inv.

(** in every accepted run the active unit changes its recorded cell only at a cell-boundary event, and then into the
    neighbouring cell (+-1 modulo the count in exactly one direction): [crossings_ok] chains [crossing_fact] over
    all legs *)
Theorem active_changes_cell_only_at_boundary :
  forall (c : ocase) states, run_case c = Some states ->
  match states with
  | [] => False
  | (s0, _) :: rest => crossings_ok (case_cfg c) s0 (oc_legs c) rest
  end.
Proof. exact OccupancyRunProofs.active_changes_cell_only_at_boundary. Qed.
Print Assumptions active_changes_cell_only_at_boundary.

Theorem active_never_leaves_silently :
  forall (cfg : rcfg) s cl l s' cl', step_leg cfg s cl l = Some (s', cl') ->
  forall a ac c', active_id s = Some a -> active_id s' = Some a ->
                  active_cell s = Some ac -> active_cell s' = Some c' -> ac <> c' ->
                  ol_prev_boundary l = true /\ neighbour (rc_counts cfg) ac c' = true.
Proof. exact OccupancyRunProofs.step_leg_crossing. Qed.
Print Assumptions active_never_leaves_silently.

(** non-vacuity: box of length 1, 4 cells, limit 1, units at 0.1 and 0.6; unit (0,) becomes active, crosses into
    cell 1 by a cell-boundary event (position 0.25 = the neighbour's minimum), then unit (1,) becomes active *)
Definition ex_ocase : ocase :=
  mkOCase [4607182418800017408%Z] [4%Z] 1%Z
    [([0%Z], [4591870180066957722%Z], true); ([1%Z], [4603579539098121011%Z], true)]
    (mkOSnap [([0%Z], [[0%Z]]); ([2%Z], [[1%Z]])] [] None None)
    [mkOLeg false [0%Z] [4591870180066957722%Z] true
       [([0%Z], [4591870180066957722%Z]); ([1%Z], [4603579539098121011%Z])]
       (mkOSnap [([2%Z], [[1%Z]])] [] (Some [0%Z]) (Some [0%Z]));
     mkOLeg true [0%Z] [4598175219545276416%Z] true
       [([0%Z], [4598175219545276416%Z]); ([1%Z], [4603579539098121011%Z])]
       (mkOSnap [([2%Z], [[1%Z]])] [] (Some [1%Z]) (Some [0%Z]));
     mkOLeg false [1%Z] [4603579539098121011%Z] true
       [([0%Z], [4598175219545276416%Z]); ([1%Z], [4603579539098121011%Z])]
       (mkOSnap [([1%Z], [[0%Z]])] [] (Some [2%Z]) (Some [1%Z]))].

Example run_occ_inv_nonvacuous : check_ocase ex_ocase = true.
Proof. vm_compute. reflexivity. Qed.

(** the same run with the crossing reported after an event that is not a cell-boundary event is rejected, and so is
    a run whose recorded internals miss the re-inserted unit *)
Example active_changes_cell_only_at_boundary_nonvacuous :
  check_ocase (mkOCase (oc_L ex_ocase) (oc_counts ex_ocase) (oc_max ex_ocase) (oc_init ex_ocase)
                 (oc_init_snap ex_ocase)
                 (map (fun l => mkOLeg false (ol_nid l) (ol_pos l) (ol_rel l) (ol_units l) (ol_snap l))
                      (oc_legs ex_ocase))) = false
  /\ check_ocase (mkOCase (oc_L ex_ocase) (oc_counts ex_ocase) (oc_max ex_ocase) (oc_init ex_ocase)
                    (oc_init_snap ex_ocase)
                    (map (fun l => mkOLeg (ol_prev_boundary l) (ol_nid l) (ol_pos l) (ol_rel l) (ol_units l)
                                          (mkOSnap [([2%Z], [[1%Z]])] [] (os_acell (ol_snap l)) (os_aid (ol_snap l))))
                         (oc_legs ex_ocase))) = false.
Proof. vm_compute. auto. Qed.
