(** Placeholder until the proofs land. *)
Require Import JF.Model.PotentialsR.
