(** * Props/C02.v — the candidate event distance inverts the cumulative uphill energy.

    Specification (independent of the code): while the active unit advances by s along the motion, the separation
    component x along the motion becomes x - s, the squared transverse distance q stays; [Eplus f breaks d] is the
    total positive variation of the energy f along the path on [0, d], defined from explicit break points between
    which f is monotone ([breaks_monotone x] = closest approach only).  [None] models float('inf').

    PARTIAL.  Proved over the reals: inverse power potential (repulsive and attractive, general real power, with
    the division by the speed), hard sphere (first contact, infinite iff no contact), cell bounding (constant rate),
    totality and sign in exact arithmetic for the inverse power branches, sign of dU/ds on each piece.
    NOT proved (tied to the code only by the kernel-checked numerical correspondence and by the positive-variation
    oracle of harness/c02.py on every run):
      displacement_inverts_mexhat_partial :
        forall m in {lj_mexhat k sigma, dep_mexhat k r0 p}, 0 < q -> 0 < dE ->
        mh_displacement m dE x q = Some d ->
          Eplus (fun s => mh_pot m (q + (x - s)^2)) (breaks_mexhat x q (mh_r0 m)) d = dE
        and  mh_displacement m dE x q = None -> forall d >= 0, Eplus ... d <= dE      (7 paths through the 4 cases);
      laps_correct_partial (CoulombBoundR.ipc_displacement): Eplus of the nearest-image 1/r potential gains
        |U(0) - U(L/2)| per box length and ipc_displacement inverts it;
      hard dipole: first time of reaching the minimal or the maximal separation (harness oracle: exact rationals);
      float-level totality ("returns a value for every positive budget down to denormals"): cannot be carried by a
      real model; it is searched on every run and fails in the classes F3a-F3d (known findings). *)
From Coq Require Import Reals Lra.
From Coquelicot Require Import Coquelicot.
From Interval Require Import Tactic.
Require Import JF.Model.PotentialsR JF.Model.PotentialsRCases JF.Proofs.PotentialsRProofs.
Open Scope R_scope.

(** InversePowerPotential.displacement(velocity, separation, c1, c2, potential_change) *)
Theorem displacement_inverts_inverse_power : forall p pref c1 c2 dE x q speed t : R,
  0 < p -> 0 < q -> 0 < dE -> 0 < speed -> pref * (c1 * c2) <> 0 ->
  sv_displacement (ip_displacement p pref c1 c2 dE x q) speed = Some t ->
  0 < t /\ Eplus (ip_path p pref (c1 * c2) x q) (breaks_monotone x) (t * speed) = dE.
Proof. exact ip_displacement_inverts. Qed.
Print Assumptions displacement_inverts_inverse_power.
Example displacement_inverts_inverse_power_nonvacuous :
  sv_displacement (ip_displacement 6 1 1 1 (1 / 4) 1 1) 2 <> None.
Proof. resolve. unfold_leaves. discriminate. Qed.
Example displacement_inverts_inverse_power_nonvacuous_attractive :
  sv_displacement (ip_displacement 1 1 1 (-1) (1 / 4) 1 1) 2 <> None.
Proof. resolve. unfold_leaves. discriminate. Qed.

Theorem infinite_iff_never_reached_inverse_power : forall p pref c1 c2 dE x q speed : R,
  0 < p -> 0 < q -> 0 < dE -> 0 < speed -> pref * (c1 * c2) <> 0 ->
  sv_displacement (ip_displacement p pref c1 c2 dE x q) speed = None ->
  forall d, 0 <= d -> Eplus (ip_path p pref (c1 * c2) x q) (breaks_monotone x) d <= dE.
Proof. exact ip_displacement_infinite. Qed.
Print Assumptions infinite_iff_never_reached_inverse_power.
Example infinite_iff_never_reached_inverse_power_nonvacuous :
  sv_displacement (ip_displacement 6 1 1 1 (1 / 4) (-1) 1) 2 = None.
Proof. resolve. reflexivity. Qed.

(** converse for the repulsive branch: if the budget is never reached the result is infinite; and when finite the
    event lies strictly before the closest approach, the radicand is non-negative, and the energy at the event is the
    start energy plus the budget *)
Theorem infinite_iff_never_reached_repulsive : forall p pref c dE x q : R,
  0 < p -> 0 < q -> 0 < dE -> 0 < c * pref ->
  ((forall d, 0 <= d -> Eplus (ip_path p pref c x q) (breaks_monotone x) d < dE) ->
   ip_disp_repulsive p pref c dE x q = None) /\
  (ip_disp_repulsive p pref c dE x q = None ->
   forall d, 0 <= d -> Eplus (ip_path p pref c x q) (breaks_monotone x) d <= dE).
Proof. exact ip_repulsive_infinite_iff. Qed.
Print Assumptions infinite_iff_never_reached_repulsive.
Example infinite_iff_never_reached_repulsive_nonvacuous : ip_disp_repulsive 2 1 1 5 1 1 = None.
Proof. resolve. reflexivity. Qed.

Theorem displacement_inverts_repulsive : forall p pref c dE x q d : R,
  0 < p -> 0 < q -> 0 < dE -> 0 < c * pref ->
  ip_disp_repulsive p pref c dE x q = Some d ->
  0 < d < x /\
  q <= Rpower (c * pref / (ip_potential p pref c (q + x * x) + dE)) (2 / p) /\
  ip_path p pref c x q d = ip_path p pref c x q 0 + dE /\
  Eplus (ip_path p pref c x q) (breaks_monotone x) d = dE.
Proof. exact ip_repulsive_inverts. Qed.
Print Assumptions displacement_inverts_repulsive.
Example displacement_inverts_repulsive_nonvacuous : ip_disp_repulsive 2 1 1 (1 / 4) 1 1 <> None.
Proof. resolve. unfold_leaves. discriminate. Qed.

Theorem displacement_inverts_attractive : forall p pref c dE x q d : R,
  0 < p -> 0 < q -> 0 < dE -> c * pref < 0 ->
  ip_disp_attractive p pref c dE x q = Some d ->
  Rmax 0 x < d /\
  ip_path p pref c x q d = ip_path p pref c x q (Rmax 0 x) + dE /\
  Eplus (ip_path p pref c x q) (breaks_monotone x) d = dE.
Proof. exact ip_attractive_inverts. Qed.
Print Assumptions displacement_inverts_attractive.
Example displacement_inverts_attractive_nonvacuous : ip_disp_attractive 2 1 (-1) (1 / 4) 1 1 <> None.
Proof. resolve. unfold_leaves. discriminate. Qed.

Theorem infinite_iff_never_reached_attractive : forall p pref c dE x q : R,
  0 < p -> 0 < q -> 0 < dE -> c * pref < 0 ->
  ip_disp_attractive p pref c dE x q = None ->
  forall d, 0 <= d -> Eplus (ip_path p pref c x q) (breaks_monotone x) d < dE.
Proof. exact ip_attractive_infinite. Qed.
Print Assumptions infinite_iff_never_reached_attractive.
Example infinite_iff_never_reached_attractive_nonvacuous : ip_disp_attractive 2 1 (-1) 5 1 1 = None.
Proof. resolve. reflexivity. Qed.

(** the code's potential() is the energy k c / r^p, and the sign of its derivative along the path is constant on
    each side of the closest approach *)
Theorem pieces_monotone_inverse_power : forall p pref c1 c2 x q s0 : R,
  0 < p -> 0 < q ->
  is_derive (fun s => ip_U p (pref * c1 * c2) (sqrt (q + (x - s) * (x - s)))) s0 (ip_derivative p pref c1 c2 (x - s0) q) /\
  (0 < pref * c1 * c2 -> (s0 < x -> 0 < ip_derivative p pref c1 c2 (x - s0) q) /\
                         (x < s0 -> ip_derivative p pref c1 c2 (x - s0) q < 0)) /\
  (pref * c1 * c2 < 0 -> (s0 < x -> ip_derivative p pref c1 c2 (x - s0) q < 0) /\
                         (x < s0 -> 0 < ip_derivative p pref c1 c2 (x - s0) q)).
Proof. exact ip_pieces_monotone. Qed.
Print Assumptions pieces_monotone_inverse_power.
Example pieces_monotone_inverse_power_nonvacuous : 0 < 1 * 1 * 1 /\ (0 : R) < 1. Proof. lra. Qed.

Theorem potential_is_energy_inverse_power : forall p pref c r2 : R,
  0 < r2 -> ip_potential p pref c r2 = ip_U p (c * pref) (sqrt r2).
Proof. exact ip_potential_U. Qed.
Print Assumptions potential_is_energy_inverse_power.
Example potential_is_energy_inverse_power_nonvacuous : (0 : R) < 2. Proof. lra. Qed.

Theorem radicands_nonneg_inverse_power : forall p pref c dE x q : R,
  0 < p -> 0 < q -> 0 < dE -> c * pref <> 0 ->
  let k := c * pref in
  (0 < k -> 0 < x -> dE < ip_potential p pref c (q + 0 * 0) - ip_potential p pref c (q + x * x) ->
     let U0 := ip_potential p pref c (q + x * x) in
     0 < k / (U0 + dE) /\ 0 <= Rpower (k / (U0 + dE)) (2 / p) - q /\
     0 <= until_pos x q (Rpower (k / (U0 + dE)) (2 / p))) /\
  (k < 0 ->
     let x1 := if Rlt_dec 0 x then 0 else x in
     let U0 := ip_potential p pref c (q + x1 * x1) in
     U0 + dE < 0 ->
     0 < k / (U0 + dE) /\ 0 <= Rpower (k / (U0 + dE)) (2 / p) - q /\
     0 <= (if Rlt_dec 0 x then x else 0) + until_neg x1 q (Rpower (k / (U0 + dE)) (2 / p))).
Proof. exact ip_radicands_nonneg. Qed.
Print Assumptions radicands_nonneg_inverse_power.
Example radicands_nonneg_inverse_power_nonvacuous :
  (1 / 4 : R) < ip_potential 2 1 1 (1 + 0 * 0) - ip_potential 2 1 1 (1 + 1 * 1).
Proof. unfold_leaves. interval. Qed.

(** HardSpherePotential.displacement(velocity, separation): general velocity; d2 = squared diameter *)
Theorem hard_sphere_first_contact : forall (d2 : R) (v s : vec3) (t : R),
  0 < dot3 v v -> d2 <= dot3 s s ->
  hs_displacement d2 v s = Some t ->
  0 <= t /\
  dot3 (sub3 s (scal3 t v)) (sub3 s (scal3 t v)) = d2 /\
  (forall t', 0 <= t' < t -> d2 < dot3 (sub3 s (scal3 t' v)) (sub3 s (scal3 t' v))).
Proof. exact hs_first_contact. Qed.
Print Assumptions hard_sphere_first_contact.
Example hard_sphere_first_contact_nonvacuous : hs_displacement 1 (1, 0, 0) (3, 0, 0) <> None.
Proof. resolve. unfold_leaves. discriminate. Qed.

Theorem hard_sphere_infinite_iff_no_contact : forall (d2 : R) (v s : vec3),
  0 < dot3 v v -> d2 < dot3 s s ->
  (hs_displacement d2 v s = None <->
   forall t, 0 <= t -> d2 < dot3 (sub3 s (scal3 t v)) (sub3 s (scal3 t v))).
Proof. exact hs_infinite_iff_no_contact. Qed.
Print Assumptions hard_sphere_infinite_iff_no_contact.
Example hard_sphere_infinite_iff_no_contact_nonvacuous : hs_displacement 1 (1, 0, 0) (3, 2, 0) = None.
Proof. resolve. reflexivity. Qed.

(** CellBoundingPotential: constant bounding rate *)
Theorem displacement_inverts_cell_bounding : forall rate dE speed t : R,
  0 < dE -> 0 < speed ->
  sv_displacement (cb_displacement rate dE) speed = Some t -> 0 < t /\ rate * (t * speed) = dE.
Proof. exact cb_displacement_inverts. Qed.
Print Assumptions displacement_inverts_cell_bounding.
Example displacement_inverts_cell_bounding_nonvacuous : sv_displacement (cb_displacement 2 3) 1 <> None.
Proof. resolve. unfold_leaves. discriminate. Qed.

Theorem infinite_iff_cell_bounding : forall rate dE speed : R,
  sv_displacement (cb_displacement rate dE) speed = None <-> rate <= 0.
Proof. exact cb_infinite_iff. Qed.
Print Assumptions infinite_iff_cell_bounding.
Example infinite_iff_cell_bounding_nonvacuous : sv_displacement (cb_displacement (-1) 3) 1 = None.
Proof. resolve. reflexivity. Qed.

(** Mexican-hat potentials (Lennard-Jones, displaced even power): building blocks of the partial theorem
    displacement_inverts_mexhat_partial (see the header): the code's _potential is the energy, and the two inverse
    functions used by the four geometric cases are correct on their side of the minimum. *)
Theorem potential_is_energy_lennard_jones : forall k sigma r2 : R,
  0 < r2 -> lj_pot k sigma r2 = lj_U k sigma (sqrt r2).
Proof. exact lj_pot_U. Qed.
Print Assumptions potential_is_energy_lennard_jones.
Example potential_is_energy_lennard_jones_nonvacuous : (0 : R) < 3 / 2. Proof. lra. Qed.

Theorem invert_outside_minimum_lennard_jones_partial : forall k sigma U rn : R,
  0 < k -> 0 < sigma -> - k / 4 <= U ->
  lj_inv_out k sigma U = Some rn -> U < 0 /\ lj_pot k sigma (rn * rn) = U.
Proof. exact lj_invert_outside. Qed.
Print Assumptions invert_outside_minimum_lennard_jones_partial.
Example invert_outside_minimum_lennard_jones_partial_nonvacuous : lj_inv_out 1 1 (- 1 / 8) <> None.
Proof. resolve. discriminate. Qed.

Theorem invert_inside_minimum_lennard_jones_partial : forall k sigma U : R,
  0 < k -> 0 < sigma -> - k / 4 <= U ->
  let rn := lj_inv_in k sigma U in lj_pot k sigma (rn * rn) = U.
Proof. exact lj_invert_inside. Qed.
Print Assumptions invert_inside_minimum_lennard_jones_partial.
Example invert_inside_minimum_lennard_jones_partial_nonvacuous : - (1 : R) / 4 <= 3. Proof. lra. Qed.

Theorem invert_outside_minimum_displaced_even_power_partial : forall (k r0 : R) (p : nat) (U rn : R),
  0 < k -> 0 <= r0 -> (0 < p)%nat -> 0 < U ->
  dep_inv_out k r0 p U = Some rn -> r0 < rn /\ dep_pot k r0 p (rn * rn) = U.
Proof. exact dep_invert_outside. Qed.
Print Assumptions invert_outside_minimum_displaced_even_power_partial.
Example invert_outside_minimum_displaced_even_power_partial_nonvacuous : dep_inv_out 1 1 2 (1 / 4) <> None.
Proof. discriminate. Qed.

Theorem invert_inside_minimum_displaced_even_power_partial : forall (k r0 : R) (p : nat) (U : R),
  0 < k -> (0 < p)%nat -> Nat.Even p -> 0 < U -> U <= k * r0 ^ p -> 0 < r0 ->
  let rn := dep_inv_in k r0 p U in
  0 <= rn < r0 /\ dep_pot k r0 p (rn * rn) = U.
Proof. exact dep_invert_inside. Qed.
Print Assumptions invert_inside_minimum_displaced_even_power_partial.
Example invert_inside_minimum_displaced_even_power_partial_nonvacuous :
  Nat.Even 2 /\ (1 / 4 : R) <= 1 * 1 ^ 2.
Proof. split; [exists 1%nat; reflexivity | lra]. Qed.

(** one of the four geometric cases, fully: in front of the target and outside the minimum sphere, for ANY Mexican
    hat whose potential increases outside the minimum and whose outside-inverse is correct; instantiated for the
    displaced even power potential (the other three cases compose this one with the inside pieces: partial) *)
Theorem displacement_inverts_mexhat_front_outside_partial :
  forall (m : mexhat) (dE x q d : R) (bs : list R),
  (forall a b, mh_r0sq m <= a -> a < b -> mh_pot m a < mh_pot m b) ->
  (forall U rn, mh_pot m (mh_r0sq m) < U -> mh_inv_out m U = Some rn ->
                0 <= rn /\ mh_r0sq m <= rn * rn /\ mh_pot m (rn * rn) = U) ->
  x <= 0 -> mh_r0sq m <= q + x * x -> 0 < dE -> 0 <= q ->
  List.Forall (fun b => b <= 0) bs ->
  mh_front_outside m (mh_pot m (q + x * x)) dE x q = Some d ->
  0 < d /\
  mh_pot m (q + (x - d) * (x - d)) = mh_pot m (q + x * x) + dE /\
  Eplus (fun s => mh_pot m (q + (x - s) * (x - s))) bs d = dE.
Proof. exact mh_front_outside_inverts. Qed.
Print Assumptions displacement_inverts_mexhat_front_outside_partial.

Theorem displacement_inverts_displaced_even_power_front_outside_partial :
  forall (k r0 : R) (p : nat) (dE x q d : R),
  0 < k -> 0 < r0 -> (0 < p)%nat ->
  x <= 0 -> r0 * r0 <= q + x * x -> 0 < dE -> 0 <= q ->
  mh_front_outside (dep_mexhat k r0 p) (dep_pot k r0 p (q + x * x)) dE x q = Some d ->
  0 < d /\
  dep_pot k r0 p (q + (x - d) * (x - d)) = dep_pot k r0 p (q + x * x) + dE /\
  Eplus (fun s => dep_pot k r0 p (q + (x - s) * (x - s))) (breaks_mexhat x q r0) d = dE.
Proof. exact dep_front_outside_inverts. Qed.
Print Assumptions displacement_inverts_displaced_even_power_front_outside_partial.
(** non-vacuity of both (the second instantiates the hypotheses of the first) *)
Example displacement_inverts_displaced_even_power_front_outside_partial_nonvacuous :
  mh_front_outside (dep_mexhat 1 1 2) (dep_pot 1 1 2 (1 / 4 + (-2) * (-2))) (1 / 2) (-2) (1 / 4) <> None
  /\ (1 : R) * 1 <= 1 / 4 + (-2) * (-2).
Proof. split; [discriminate | lra]. Qed.
Example displacement_inverts_mexhat_front_outside_partial_nonvacuous :
  (forall a b, mh_r0sq (dep_mexhat 1 1 2) <= a -> a < b -> mh_pot (dep_mexhat 1 1 2) a < mh_pot (dep_mexhat 1 1 2) b).
Proof. intros a b Ha Hab. simpl in *. apply dep_pot_increasing_outside; try lra. repeat constructor. Qed.
