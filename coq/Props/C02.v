(** * Props/C02.v — the candidate event distance inverts the cumulative uphill energy.

    Specification (independent of the code): while the active unit advances by s along the motion, the separation
    component x along the motion becomes x - s, the squared transverse distance q stays; [Eplus f breaks d] is the
    total positive variation of the energy f along the path on [0, d], defined from explicit break points between
    which f is monotone ([breaks_monotone x] = closest approach only).  [None] models float('inf').

    Proved over the reals (full theorems): inverse power potential (repulsive and attractive, general real power,
    with the division by the speed), Lennard-Jones and displaced even power through all cases of the code's case
    tree (via a generic theorem for any well-formed Mexican hat), the C 1/r bounding potential with periodic images
    ([laps_correct]), hard sphere (first contact, infinite iff no contact), hard dipole (first contact with the inner sphere, else
    the time of reaching the maximal separation), cell bounding (constant rate), "infinite
    exactly when never reached" for all of them, totality and sign in exact arithmetic for the inverse power
    branches, sign of dU/ds on each piece.
    PARTIAL (tied to the code only by the kernel-checked numerical correspondence and by the oracles of
    harness/c02.py on every run):
      float_totality_partial : "returns a value for every admissible separation and every positive budget down to
        denormals, not negative beyond rounding" is a statement about libm pow/sqrt and float cancellation; a real
        model cannot carry it; it is searched on every run and fails in the classes F3a-F3e (known findings);
      the single budget value "dE = inner barrier" of the Mexican hats and the start exactly on the minimum sphere
        of the hard sphere (measure zero) are excluded by hypotheses (see the statements). *)
From Coq Require Import Reals Lra.
From Coquelicot Require Import Coquelicot.
Require Import JF.Model.PotentialsR JF.Model.CoulombBoundR JF.Proofs.PotentialsRProofs.
Open Scope R_scope.

(** InversePowerPotential.displacement(velocity, separation, c1, c2, potential_change) *)
Theorem displacement_inverts_inverse_power : forall p pref c1 c2 dE x q speed t : R,
  0 < p -> 0 < q -> 0 < dE -> 0 < speed -> pref * (c1 * c2) <> 0 ->
  sv_displacement (ip_displacement p pref c1 c2 dE x q) speed = Some t ->
  0 < t /\ Eplus (ip_path p pref (c1 * c2) x q) (breaks_monotone x) (t * speed) = dE.
Proof. exact ip_displacement_inverts. Qed.
Print Assumptions displacement_inverts_inverse_power.
(* Example displacement_inverts_inverse_power_nonvacuous: see Props/C02nonvacuous.v *)
(* Example displacement_inverts_inverse_power_nonvacuous_attractive: see Props/C02nonvacuous.v *)

Theorem infinite_iff_never_reached_inverse_power : forall p pref c1 c2 dE x q speed : R,
  0 < p -> 0 < q -> 0 < dE -> 0 < speed -> pref * (c1 * c2) <> 0 ->
  sv_displacement (ip_displacement p pref c1 c2 dE x q) speed = None ->
  forall d, 0 <= d -> Eplus (ip_path p pref (c1 * c2) x q) (breaks_monotone x) d <= dE.
Proof. exact ip_displacement_infinite. Qed.
Print Assumptions infinite_iff_never_reached_inverse_power.
(* Example infinite_iff_never_reached_inverse_power_nonvacuous: see Props/C02nonvacuous.v *)

(** converse for the repulsive branch: if the budget is never reached the result is infinite; and when finite the
    event lies strictly before the closest approach, the radicand is non-negative, and the energy at the event is the
    start energy plus the budget *)
Theorem infinite_iff_never_reached_repulsive : forall p pref c dE x q : R,
  0 < p -> 0 < q -> 0 < dE -> 0 < c * pref ->
  ((forall d, 0 <= d -> Eplus (ip_path p pref c x q) (breaks_monotone x) d < dE) ->
   ip_disp_repulsive p pref c dE x q = None) /\
  (ip_disp_repulsive p pref c dE x q = None ->
   forall d, 0 <= d -> Eplus (ip_path p pref c x q) (breaks_monotone x) d <= dE).
Proof. exact ip_repulsive_infinite_iff. Qed.
Print Assumptions infinite_iff_never_reached_repulsive.
(* Example infinite_iff_never_reached_repulsive_nonvacuous: see Props/C02nonvacuous.v *)

Theorem displacement_inverts_repulsive : forall p pref c dE x q d : R,
  0 < p -> 0 < q -> 0 < dE -> 0 < c * pref ->
  ip_disp_repulsive p pref c dE x q = Some d ->
  0 < d < x /\
  q <= Rpower (c * pref / (ip_potential p pref c (q + x * x) + dE)) (2 / p) /\
  ip_path p pref c x q d = ip_path p pref c x q 0 + dE /\
  Eplus (ip_path p pref c x q) (breaks_monotone x) d = dE.
Proof. exact ip_repulsive_inverts. Qed.
Print Assumptions displacement_inverts_repulsive.
(* Example displacement_inverts_repulsive_nonvacuous: see Props/C02nonvacuous.v *)

Theorem displacement_inverts_attractive : forall p pref c dE x q d : R,
  0 < p -> 0 < q -> 0 < dE -> c * pref < 0 ->
  ip_disp_attractive p pref c dE x q = Some d ->
  Rmax 0 x < d /\
  ip_path p pref c x q d = ip_path p pref c x q (Rmax 0 x) + dE /\
  Eplus (ip_path p pref c x q) (breaks_monotone x) d = dE.
Proof. exact ip_attractive_inverts. Qed.
Print Assumptions displacement_inverts_attractive.
(* Example displacement_inverts_attractive_nonvacuous: see Props/C02nonvacuous.v *)

Theorem infinite_iff_never_reached_attractive : forall p pref c dE x q : R,
  0 < p -> 0 < q -> 0 < dE -> c * pref < 0 ->
  ip_disp_attractive p pref c dE x q = None ->
  forall d, 0 <= d -> Eplus (ip_path p pref c x q) (breaks_monotone x) d < dE.
Proof. exact ip_attractive_infinite. Qed.
Print Assumptions infinite_iff_never_reached_attractive.
(* Example infinite_iff_never_reached_attractive_nonvacuous: see Props/C02nonvacuous.v *)

(** the code's potential() is the energy k c / r^p, and the sign of its derivative along the path is constant on
    each side of the closest approach *)
Theorem pieces_monotone_inverse_power : forall p pref c1 c2 x q s0 : R,
  0 < p -> 0 < q ->
  is_derive (fun s => ip_U p (pref * c1 * c2) (sqrt (q + (x - s) * (x - s)))) s0 (ip_derivative p pref c1 c2 (x - s0) q) /\
  (0 < pref * c1 * c2 -> (s0 < x -> 0 < ip_derivative p pref c1 c2 (x - s0) q) /\
                         (x < s0 -> ip_derivative p pref c1 c2 (x - s0) q < 0)) /\
  (pref * c1 * c2 < 0 -> (s0 < x -> ip_derivative p pref c1 c2 (x - s0) q < 0) /\
                         (x < s0 -> 0 < ip_derivative p pref c1 c2 (x - s0) q)).
Proof. exact ip_pieces_monotone. Qed.
Print Assumptions pieces_monotone_inverse_power.
Example pieces_monotone_inverse_power_nonvacuous : 0 < 1 * 1 * 1 /\ (0 : R) < 1. Proof. lra. Qed.

Theorem potential_is_energy_inverse_power : forall p pref c r2 : R,
  0 < r2 -> ip_potential p pref c r2 = ip_U p (c * pref) (sqrt r2).
Proof. exact ip_potential_U. Qed.
Print Assumptions potential_is_energy_inverse_power.
Example potential_is_energy_inverse_power_nonvacuous : (0 : R) < 2. Proof. lra. Qed.

Theorem radicands_nonneg_inverse_power : forall p pref c dE x q : R,
  0 < p -> 0 < q -> 0 < dE -> c * pref <> 0 ->
  let k := c * pref in
  (0 < k -> 0 < x -> dE < ip_potential p pref c (q + 0 * 0) - ip_potential p pref c (q + x * x) ->
     let U0 := ip_potential p pref c (q + x * x) in
     0 < k / (U0 + dE) /\ 0 <= Rpower (k / (U0 + dE)) (2 / p) - q /\
     0 <= until_pos x q (Rpower (k / (U0 + dE)) (2 / p))) /\
  (k < 0 ->
     let x1 := if Rlt_dec 0 x then 0 else x in
     let U0 := ip_potential p pref c (q + x1 * x1) in
     U0 + dE < 0 ->
     0 < k / (U0 + dE) /\ 0 <= Rpower (k / (U0 + dE)) (2 / p) - q /\
     0 <= (if Rlt_dec 0 x then x else 0) + until_neg x1 q (Rpower (k / (U0 + dE)) (2 / p))).
Proof. exact ip_radicands_nonneg. Qed.
Print Assumptions radicands_nonneg_inverse_power.
(* Example radicands_nonneg_inverse_power_nonvacuous: see Props/C02nonvacuous.v *)

(** HardSpherePotential.displacement(velocity, separation): general velocity; d2 = squared diameter *)
Theorem hard_sphere_first_contact : forall (d2 : R) (v s : vec3) (t : R),
  0 < dot3 v v -> d2 <= dot3 s s ->
  hs_displacement d2 v s = Some t ->
  0 <= t /\
  dot3 (sub3 s (scal3 t v)) (sub3 s (scal3 t v)) = d2 /\
  (forall t', 0 <= t' < t -> d2 < dot3 (sub3 s (scal3 t' v)) (sub3 s (scal3 t' v))).
Proof. exact hs_first_contact. Qed.
Print Assumptions hard_sphere_first_contact.
(* Example hard_sphere_first_contact_nonvacuous: see Props/C02nonvacuous.v *)

Theorem hard_sphere_infinite_iff_no_contact : forall (d2 : R) (v s : vec3),
  0 < dot3 v v -> d2 < dot3 s s ->
  (hs_displacement d2 v s = None <->
   forall t, 0 <= t -> d2 < dot3 (sub3 s (scal3 t v)) (sub3 s (scal3 t v))).
Proof. exact hs_infinite_iff_no_contact. Qed.
Print Assumptions hard_sphere_infinite_iff_no_contact.
(* Example hard_sphere_infinite_iff_no_contact_nonvacuous: see Props/C02nonvacuous.v *)

(** CellBoundingPotential: constant bounding rate *)
Theorem displacement_inverts_cell_bounding : forall rate dE speed t : R,
  0 < dE -> 0 < speed ->
  sv_displacement (cb_displacement rate dE) speed = Some t -> 0 < t /\ rate * (t * speed) = dE.
Proof. exact cb_displacement_inverts. Qed.
Print Assumptions displacement_inverts_cell_bounding.
(* Example displacement_inverts_cell_bounding_nonvacuous: see Props/C02nonvacuous.v *)

Theorem infinite_iff_cell_bounding : forall rate dE speed : R,
  sv_displacement (cb_displacement rate dE) speed = None <-> rate <= 0.
Proof. exact cb_infinite_iff. Qed.
Print Assumptions infinite_iff_cell_bounding.
(* Example infinite_iff_cell_bounding_nonvacuous: see Props/C02nonvacuous.v *)

(** ** Mexican-hat potentials (Lennard-Jones, displaced even power): all cases of the code's case tree
    (in front of / behind the closest approach  x  inside / outside the minimum sphere  x  can / cannot climb the inner
    barrier  x  enters / passes by the sphere).  Specification side: [Eplus] over the break points
    [breaks_mexhat x q r0] = closest approach and the two crossings of the minimum sphere (independent of the code).
    Hypothesis "dE <> inner barrier": the budget is not exactly the energy needed to reach the closest approach from
    the start (inside) or from the minimum sphere (entering from outside) -- one single value, the branch boundary
    "can / cannot climb"; exactly there the real model of Python's [**] ([Rpower 0 _ = 1] in Coq) differs from Python
    and the float code itself fails (known finding F3e). *)
Theorem potential_is_energy_lennard_jones : forall k sigma r2 : R,
  0 < r2 -> lj_pot k sigma r2 = lj_U k sigma (sqrt r2).
Proof. exact lj_pot_U. Qed.
Print Assumptions potential_is_energy_lennard_jones.
Example potential_is_energy_lennard_jones_nonvacuous : (0 : R) < 3 / 2. Proof. lra. Qed.

Theorem displacement_inverts_lennard_jones : forall k sigma dE x q speed t : R,
  0 < k -> 0 < sigma -> 0 < q -> 0 < dE -> 0 < speed ->
  (0 < x -> q <= lj_r0 sigma * lj_r0 sigma ->
   dE <> lj_pot k sigma q - lj_pot k sigma (Rmin (q + x * x) (lj_r0 sigma * lj_r0 sigma))) ->
  sv_displacement (lj_displacement k sigma dE x q) speed = Some t ->
  0 < t /\
  Eplus (fun s => lj_pot k sigma (q + (x - s) * (x - s))) (breaks_mexhat x q (lj_r0 sigma)) (t * speed) = dE.
Proof. exact lj_displacement_inverts. Qed.
Print Assumptions displacement_inverts_lennard_jones.
(* Example displacement_inverts_lennard_jones_nonvacuous: see Props/C02nonvacuous.v *)

Theorem infinite_iff_never_reached_lennard_jones : forall k sigma dE x q speed : R,
  0 < k -> 0 < sigma -> 0 < q -> 0 < dE ->
  (0 < x -> q <= lj_r0 sigma * lj_r0 sigma ->
   dE <> lj_pot k sigma q - lj_pot k sigma (Rmin (q + x * x) (lj_r0 sigma * lj_r0 sigma))) ->
  (sv_displacement (lj_displacement k sigma dE x q) speed = None <->
   forall d, 0 <= d ->
     Eplus (fun s => lj_pot k sigma (q + (x - s) * (x - s))) (breaks_mexhat x q (lj_r0 sigma)) d < dE).
Proof. exact lj_infinite_iff. Qed.
Print Assumptions infinite_iff_never_reached_lennard_jones.
(* Example infinite_iff_never_reached_lennard_jones_nonvacuous: see Props/C02nonvacuous.v *)

Theorem displacement_inverts_displaced_even_power : forall (k r0 : R) (p : nat) (dE x q speed t : R),
  0 < k -> 0 < r0 -> (0 < p)%nat -> Nat.Even p -> 0 < q -> 0 < dE -> 0 < speed ->
  (0 < x -> q <= r0 * r0 -> dE <> dep_pot k r0 p q - dep_pot k r0 p (Rmin (q + x * x) (r0 * r0))) ->
  sv_displacement (dep_displacement k r0 p dE x q) speed = Some t ->
  0 < t /\ Eplus (fun s => dep_pot k r0 p (q + (x - s) * (x - s))) (breaks_mexhat x q r0) (t * speed) = dE.
Proof. exact dep_displacement_inverts. Qed.
Print Assumptions displacement_inverts_displaced_even_power.
(* Example displacement_inverts_displaced_even_power_nonvacuous: see Props/C02nonvacuous.v *)

(** the displaced even power potential grows without bound: its event distance is never infinite, so
    "infinite exactly when never reached" holds with both sides false *)
Theorem infinite_iff_never_reached_displaced_even_power : forall (k r0 : R) (p : nat) (dE x q speed : R),
  sv_displacement (dep_displacement k r0 p dE x q) speed <> None.
Proof. exact dep_never_infinite. Qed.
Print Assumptions infinite_iff_never_reached_displaced_even_power.
Example infinite_iff_never_reached_displaced_even_power_nonvacuous :
  sv_displacement (dep_displacement 1 1 2 5 (-2) 1) 1 <> None.
Proof. apply dep_never_infinite. Qed.

(** the generic statement behind both: any [mexhat] record whose potential decreases inside and increases outside
    the minimum sphere and whose two inverse functions are correct ([mh_wf]); finite and infinite results at once *)
Theorem displacement_correct_mexhat : forall (m : mexhat) (dE x q : R),
  mh_wf m -> 0 < q -> 0 < dE ->
  (0 < x -> q <= mh_r0sq m -> dE <> mh_pot m q - mh_pot m (Rmin (q + x * x) (mh_r0sq m))) ->
  match mh_displacement m dE x q with
  | Some d => 0 < d /\ Eplus (mh_path m x q) (breaks_mexhat x q (mh_r0 m)) d = dE
  | None => forall d, 0 <= d -> Eplus (mh_path m x q) (breaks_mexhat x q (mh_r0 m)) d < dE
  end.
Proof. exact mh_displacement_correct. Qed.
Print Assumptions displacement_correct_mexhat.

Theorem mexhat_well_formed_lennard_jones : forall k sigma : R, 0 < k -> 0 < sigma -> mh_wf (lj_mexhat k sigma).
Proof. exact lj_mexhat_wf. Qed.
Print Assumptions mexhat_well_formed_lennard_jones.
Theorem mexhat_well_formed_displaced_even_power : forall (k r0 : R) (p : nat),
  0 < k -> 0 < r0 -> (0 < p)%nat -> Nat.Even p -> mh_wf (dep_mexhat k r0 p).
Proof. exact dep_mexhat_wf. Qed.
Print Assumptions mexhat_well_formed_displaced_even_power.
(** non-vacuity of the three: the hypothesis [mh_wf] is inhabited by both shipped potentials *)
Example displacement_correct_mexhat_nonvacuous : mh_wf (lj_mexhat 1 1) /\ mh_wf (dep_mexhat 1 1 2).
Proof.
  split; [apply lj_mexhat_wf; lra | apply dep_mexhat_wf; try lra; [repeat constructor | exists 1%nat; reflexivity]].
Qed.

(** the two inverse functions are correct on their side of the minimum *)
Theorem invert_outside_minimum_lennard_jones : forall k sigma U rn : R,
  0 < k -> 0 < sigma -> - k / 4 <= U ->
  lj_inv_out k sigma U = Some rn -> U < 0 /\ lj_pot k sigma (rn * rn) = U.
Proof. exact lj_invert_outside. Qed.
Print Assumptions invert_outside_minimum_lennard_jones.
(* Example invert_outside_minimum_lennard_jones_nonvacuous: see Props/C02nonvacuous.v *)

Theorem invert_inside_minimum_lennard_jones : forall k sigma U : R,
  0 < k -> 0 < sigma -> - k / 4 <= U ->
  let rn := lj_inv_in k sigma U in lj_pot k sigma (rn * rn) = U.
Proof. exact lj_invert_inside. Qed.
Print Assumptions invert_inside_minimum_lennard_jones.
Example invert_inside_minimum_lennard_jones_nonvacuous : - (1 : R) / 4 <= 3. Proof. lra. Qed.

Theorem invert_outside_minimum_displaced_even_power : forall (k r0 : R) (p : nat) (U rn : R),
  0 < k -> 0 <= r0 -> (0 < p)%nat -> 0 < U ->
  dep_inv_out k r0 p U = Some rn -> r0 < rn /\ dep_pot k r0 p (rn * rn) = U.
Proof. exact dep_invert_outside. Qed.
Print Assumptions invert_outside_minimum_displaced_even_power.
Example invert_outside_minimum_displaced_even_power_nonvacuous : dep_inv_out 1 1 2 (1 / 4) <> None.
Proof. discriminate. Qed.

Theorem invert_inside_minimum_displaced_even_power : forall (k r0 : R) (p : nat) (U : R),
  0 < k -> (0 < p)%nat -> Nat.Even p -> 0 < U -> U <= k * r0 ^ p -> 0 < r0 ->
  let rn := dep_inv_in k r0 p U in
  0 <= rn < r0 /\ dep_pot k r0 p (rn * rn) = U.
Proof. exact dep_invert_inside. Qed.
Print Assumptions invert_inside_minimum_displaced_even_power.
Example invert_inside_minimum_displaced_even_power_nonvacuous :
  Nat.Even 2 /\ (1 / 4 : R) <= 1 * 1 ^ 2.
Proof. split; [exists 1%nat; reflexivity | lra]. Qed.

(** ** inverse_power_coulomb_bounding_potential.c with periodic images.
    Specification side: [ipc_path kc x q L s] = kc / |nearest image of the separation after the active unit advanced
    by s|, break points x + j L/2 ([ipc_breaks]); its positive variation gains [ipc_per_lap] per box length. *)
Theorem nearest_image_potential_periodic : forall kc x q L s : R,
  0 < L -> ipc_path kc x q L (s + L) = ipc_path kc x q L s.
Proof. exact ipc_path_periodic. Qed.
Print Assumptions nearest_image_potential_periodic.
Example nearest_image_potential_periodic_nonvacuous : nearest_image 2 (1 / 2) = 1 / 2.
Proof. apply nearest_image_id; lra. Qed.

Theorem gain_per_lap_coulomb_bound : forall (kc x q L d : R) (n : nat),
  0 < L -> 0 < q -> kc <> 0 -> - L / 2 <= x <= L / 2 -> 0 <= d ->
  Eplus (ipc_path kc x q L) (ipc_breaks x L (S (S (S (S n))))) (d + L) =
  ipc_per_lap kc q L + Eplus (ipc_path kc x q L) (ipc_breaks x L (S (S n))) d.
Proof. exact ipc_one_more_lap. Qed.
Print Assumptions gain_per_lap_coulomb_bound.
Example gain_per_lap_coulomb_bound_nonvacuous : 0 < ipc_per_lap (- 3 / 2) 1 2.
Proof. apply ipc_per_lap_pos; lra. Qed.

Theorem laps_correct : forall kc dE x q L d : R,
  0 < L -> 0 < q -> kc <> 0 -> 0 < dE -> - L / 2 <= x <= L / 2 ->
  ipc_displacement kc dE x q L = Some d ->
  exists (n : nat) (r : R),
    Int_part (dE / ipc_per_lap kc q L) = Z.of_nat n /\
    INR n * ipc_per_lap kc q L <= dE < (INR n + 1) * ipc_per_lap kc q L /\
    d = INR n * L + r /\ 0 <= r /\
    Eplus (ipc_path kc x q L) (ipc_breaks x L 4) r = dE - INR n * ipc_per_lap kc q L /\
    Eplus (ipc_path kc x q L) (ipc_breaks x L (2 * n + 4)) d = dE.
Proof. exact ipc_laps_correct. Qed.
Print Assumptions laps_correct.
(** the routine always returns a value (the periodic 1/r potential accumulates any budget) *)
Example laps_correct_nonvacuous : exists d, ipc_displacement 1 5 (1 / 4) (1 / 8) 1 = Some d.
Proof. eexists. reflexivity. Qed.

(** ** HardDipolePotential.displacement: min2 / max2 = squared minimal / maximal separation.
    If the inner sphere is hit (the hard-sphere routine with the minimal separation returns a time) that time is
    returned -- it is the first contact by [hard_sphere_first_contact]; otherwise the returned time is the moment at
    which the maximal separation is reached: the distance stays within it before and exceeds it afterwards. *)
Theorem hard_dipole_inner_contact : forall (min2 max2 : R) (v s : vec3) (t : R),
  hs_displacement min2 v s = Some t -> hd_displacement min2 max2 v s = t.
Proof. exact hd_inner. Qed.
Print Assumptions hard_dipole_inner_contact.
(* Example hard_dipole_inner_contact_nonvacuous: see Props/C02nonvacuous.v *)

Theorem hard_dipole_reaches_maximal_separation : forall (min2 max2 : R) (v s : vec3),
  0 < dot3 v v -> dot3 s s <= max2 ->
  hs_displacement min2 v s = None ->
  let t := hd_displacement min2 max2 v s in
  0 <= t /\
  dot3 (sub3 s (scal3 t v)) (sub3 s (scal3 t v)) = max2 /\
  (forall t', 0 <= t' <= t -> dot3 (sub3 s (scal3 t' v)) (sub3 s (scal3 t' v)) <= max2) /\
  (forall t', t < t' -> max2 < dot3 (sub3 s (scal3 t' v)) (sub3 s (scal3 t' v))).
Proof. exact hd_reaches_max. Qed.
Print Assumptions hard_dipole_reaches_maximal_separation.
(* Example hard_dipole_reaches_maximal_separation_nonvacuous: see Props/C02nonvacuous.v *)
