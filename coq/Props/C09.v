(** * Props/C09.v — Pending candidate events equal what a fresh start from the current state creates.

    Model: [JF.Model.Activator] (TagActivator + Tagger.(de)activate).  The taggers' generation
    functions are inputs ([gen]); what they contain is the subject of C10.

    Tie to the code: harness/c09.py replays every leg of recorded real runs through the model inside
    Coq ([check_acase], Model/ActivatorCases.v): started handlers, in-states, trash lists and
    activation flags must coincide with the real TagActivator's. *)
From Coq Require Import List Arith Bool.
Require Import JF.Model.Activator JF.Model.ActivatorCases JF.Proofs.ActivatorProofs JF.Proofs.ActivatorRunProofs.
Import ListNotations.

(** One leg (the committed event of tagger [t] trashes, the next activator call creates) preserves
    "pending in-states == effective fresh generation" for every tagger, for identity-sensitive taggers
    as multisets, for count-only taggers as counts — given the local frame condition [frame_ok_x]. *)
Theorem pending_fresh_step :
  forall w kinds s t gen s1 tl s2 tr e0 n,
  lens s n ->
  NoDup (nthl (w_creates w) t) ->
  Inv kinds s e0 ->
  act_trash w s t = (s1, tl) ->
  act_update w s1 t gen = Some (s2, tr) ->
  (forall x, frame_ok_x w t x (kinds x) (e0 x) (eff s2 gen x) = true) ->
  lens s2 n /\ Inv kinds s2 (eff s2 gen).
Proof. exact leg_preserves_inv. Qed.
Print Assumptions pending_fresh_step.

(** Whole runs, any length, any wiring, any interleaving of event kinds: a recorded run accepted by the
    checker satisfies the invariant after every committed event (from the second leg on; before the
    start-of-run event nothing has been created yet). *)
Theorem pending_fresh :
  forall (c : acase) l0 l1 rest,
  check_acase c = true ->
  c_legs c = l0 :: l1 :: rest ->
  exists U0 U1 us,
    run_states (c_w c) (a_init (c_w c)) None (c_legs c) = Some (U0 :: U1 :: us) /\
    Forall2 (fun U l => Inv (kind_of c) U (eff_l l)) (U1 :: us) (l1 :: rest).
Proof. exact accepted_run_pending_fresh. Qed.
Print Assumptions pending_fresh.

(** The number of event handlers demanded never exceeds what the tagger owns: starting handlers fails
    (TagActivatorError) only if more in-states are generated than handlers are not running. *)
Theorem no_handler_shortage :
  forall ins s x,
  length ins <= length (nthl (a_notrun s) x) ->
  x < length (a_notrun s) ->
  start_handlers s x ins <> None.
Proof. exact start_handlers_enough. Qed.
Print Assumptions no_handler_shortage.

(** Non-vacuity: a small wiring (pair tagger 0, sampling tagger 1, start-of-run tagger 2) and a run of
    three legs accepted by the checker. *)
Definition ex_w : wiring :=
  {| w_creates := [[0]; [1]; [0; 1]]; w_trashes := [[0]; [1]; [2]];
     w_activates := [[]; []; []]; w_deactivates := [[]; []; []];
     w_handlers := [[0; 1]; [2]; [3]]; w_start := 2; w_tagger_of := [0; 0; 1; 2] |}.
Definition ex_gen (a : nat) : list (list instate) :=
  [[Some [[a]; [1 - a]]]; [None]; [None]].
Definition ex_case : acase :=
  {| c_w := ex_w; c_kinds := [TIdentity; TCount; TOneShot];
     c_legs := [ {| l_gen := ex_gen 0; l_torun := [(3, None)]; l_active := [true; true; true]; l_pick := 3; l_trash := [3] |};
                 {| l_gen := ex_gen 0; l_torun := [(1, Some [[0]; [1]]); (2, None)]; l_active := [true; true; true];
                    l_pick := 1; l_trash := [1] |};
                 {| l_gen := ex_gen 1; l_torun := [(1, Some [[1]; [0]])]; l_active := [true; true; true];
                    l_pick := 2; l_trash := [2] |} ] |}.
Example ex_case_accepted : check_acase ex_case = true.
Proof. vm_compute. reflexivity. Qed.
(** ... and a run in which a pending pair event is NOT re-created after the active unit changed is
    rejected (the frame condition fails), so the checker is not vacuous either. *)
Definition ex_bad : acase :=
  {| c_w := {| w_creates := [[]; [1]; [0; 1]]; w_trashes := [[0]; [1]; [2]];
               w_activates := [[]; []; []]; w_deactivates := [[]; []; []];
               w_handlers := [[0; 1]; [2]; [3]]; w_start := 2; w_tagger_of := [0; 0; 1; 2] |};
     c_kinds := [TIdentity; TCount; TOneShot];
     c_legs := [ {| l_gen := ex_gen 0; l_torun := [(3, None)]; l_active := [true; true; true]; l_pick := 3; l_trash := [3] |};
                 {| l_gen := ex_gen 0; l_torun := [(1, Some [[0]; [1]]); (2, None)]; l_active := [true; true; true];
                    l_pick := 1; l_trash := [1] |};
                 {| l_gen := ex_gen 1; l_torun := []; l_active := [true; true; true];
                    l_pick := 2; l_trash := [2] |} ] |}.
Example ex_bad_rejected : check_acase ex_bad = false.
Proof. vm_compute. reflexivity. Qed.
