Require Import JF.Model.Activator.
