(** * Props/C07eoc.v — C07 at the end of a chain: the end-of-chain event handlers only hand velocity over.

    The executable model Model/EndOfChain.v (binary64) is compared bit for bit with the real
    [send_event_time] / [send_out_state] of both end-of-chain handlers on every run of the C07 check
    (JF.Model.EndOfChainCases.check_eoccase).  The theorems state, for every dimension, every velocity and
    every time, what the model's velocity rule and chain-time rule do:
    periodic direction — the single non-zero component is moved, unchanged bit for bit, to the next
    direction (so the speed is exactly the speed before), the rule has period [dim] and reaches every
    direction; sequential direction — an exact rotation scales the squared speed by c^2 + s^2 (so with
    the rounded cos / sin the speed is conserved up to rounding only: the C07 oracle allows 2^-48
    relative per event); chain time — requested at the last committed event time, the new chain time is
    the configured chain time bit for bit and the candidate is [time + chain_time] (C14 bounds its
    rounding); outside the window [0, chain_time] the handler refuses. *)
From Coq Require Import ZArith QArith List Bool Arith Reals.
From Flocq Require Import Core.Core IEEE754.BinarySingleNaN.
Require Import JF.Base.F64 JF.Model.Time JF.Model.Periodic JF.Model.TimeSlice JF.Model.Lifting JF.Model.Handlers
               JF.Model.SliceCases JF.Model.EndOfChain JF.Model.EndOfChainCases JF.Proofs.F64Facts
               JF.Proofs.EndOfChainProofs.
Import ListNotations.

(** every velocity the periodic-direction handler accepts: exactly one component [d] is non-zero, and the
    new velocity is that component in direction (d + 1) mod dim, every other component +0.0 *)
Theorem periodic_direction_new_velocity : forall dim v d, (0 < dim)%nat -> nonzero_idxs v = [d] ->
  new_velocity EPeriodic dim v = Some (unit_vec dim ((d + 1) mod dim) (nth d v fnan)).
Proof. exact periodic_general. Qed.
Print Assumptions periodic_direction_new_velocity.

Theorem periodic_direction_rejects_other_velocities : forall dim v,
  length (nonzero_idxs v) <> 1%nat -> new_velocity EPeriodic dim v = None.
Proof. exact periodic_rejects. Qed.
Print Assumptions periodic_direction_rejects_other_velocities.

(** the velocity after n ends of chain: the same component, n directions further (mod dim) *)
Theorem periodic_direction_after_n_chains : forall n dim j x, (j < dim)%nat -> fne x fzero = true ->
  iter_nv n dim (unit_vec dim j x) = Some (unit_vec dim ((j + n) mod dim) x).
Proof. exact periodic_iter. Qed.
Print Assumptions periodic_direction_after_n_chains.

Theorem periodic_direction_has_period_dim : forall dim j x, (j < dim)%nat -> fne x fzero = true ->
  iter_nv dim dim (unit_vec dim j x) = Some (unit_vec dim j x).
Proof. exact periodic_cycle. Qed.
Print Assumptions periodic_direction_has_period_dim.

(** every direction is reached within dim - 1 ends of chain (the irreducibility mechanism C01 relies on) *)
Theorem periodic_direction_visits_every_direction : forall dim j k x,
  (j < dim)%nat -> (k < dim)%nat -> fne x fzero = true ->
  exists n, (n < dim)%nat /\ iter_nv n dim (unit_vec dim j x) = Some (unit_vec dim k x).
Proof. exact periodic_visits_all. Qed.
Print Assumptions periodic_direction_visits_every_direction.

(** the new velocity has one non-zero component again, equal to the old one: the speed is unchanged exactly *)
Theorem periodic_direction_keeps_the_component : forall dim j x, (j < dim)%nat -> fne x fzero = true ->
  nonzero_idxs (unit_vec dim j x) = [j] /\ nth j (unit_vec dim j x) fnan = x /\ length (unit_vec dim j x) = dim.
Proof.
  intros dim j x Hj Hx. split; [exact (unit_vec_nonzero dim j x Hj Hx)|]. split; [|exact (unit_vec_length dim j x)].
  rewrite (unit_vec_nth dim j x j Hj). rewrite Nat.eqb_refl. reflexivity.
Qed.
Print Assumptions periodic_direction_keeps_the_component.

Theorem sequential_direction_scales_speed : forall c s x y : Q,
  ((x * c - y * s) * (x * c - y * s) + (x * s + y * c) * (x * s + y * c) == (c * c + s * s) * (x * x + y * y))%Q.
Proof. exact rotation_speed_Q. Qed.
Print Assumptions sequential_direction_scales_speed.

(** requested at the last committed event time, the chain time is the configured one, bit for bit *)
Theorem regular_end_of_chain_time : forall (t : time) (chain : f64),
  ffinite (tq t) = true -> ffinite (tr t) = true -> ffinite chain = true -> (0 < B2R chain)%R ->
  new_chain_time t t chain = Some chain /\ eoc_event_time t t chain = Some (time_add t chain).
Proof. intros; split; [apply regular_chain_time|apply regular_event_time]; assumption. Qed.
Print Assumptions regular_end_of_chain_time.

Theorem end_of_chain_time_window : forall last cur chain x,
  new_chain_time last cur chain = Some x ->
  fle fzero (time_sub cur last) = true /\ fle (time_sub cur last) chain = true.
Proof. exact chain_time_window. Qed.
Print Assumptions end_of_chain_time_window.

(** the end of a chain ONLY hands the velocity over (single point masses): the old active unit is at its time-sliced
    position, at rest and without time stamp; the new active unit has not moved, carries the new velocity and the event
    time; nothing else is in the out-state; the stored last committed event time is the event time *)
Theorem end_of_chain_hands_velocity_over : forall env k T u w v ts p nv,
  hu_parent u = None -> hu_parent w = None ->
  hu_vel u = Some v -> hu_ts u = Some ts -> hu_vel w = None -> hu_ts w = None ->
  zl_eqb (hu_id w) (hu_id u) = false ->
  time_slice_position (hu_pos u) v T ts (repeat (e_L env) (e_dim env)) = Some p ->
  vec_eqb v v = true ->
  new_velocity k (e_dim env) v = Some nv -> small nv = false -> small (repeat fzero (e_dim env)) = true ->
  eoc_out_state env k T [u] [w] =
  Some (mkEO [mkHU (hu_id u) p None None (hu_charge u) None (hu_weight u);
              mkHU (hu_id w) (hu_pos w) (Some nv) (Some T) (hu_charge w) None (hu_weight w)] T).
Proof. exact single_point_mass_handover. Qed.
Print Assumptions end_of_chain_hands_velocity_over.

(** non-vacuity, and the model evaluated on concrete inputs *)
Definition ex_v : list f64 := [fzero; of_bits 4607182418800017408; fzero].      (* (0, 1.0, 0) *)
Example periodic_direction_nonvacuous :
  nonzero_idxs ex_v = [1%nat] /\
  match new_velocity EPeriodic 3 ex_v with
  | Some w => fl_eqb w [fzero; fzero; of_bits 4607182418800017408] | None => false end = true.
Proof. split; vm_compute; reflexivity. Qed.

Example regular_end_of_chain_time_nonvacuous :
  let t := mkTime (of_bits 4638355772470722560) (of_bits 4602678819172646912) in   (* 123 + 0.5 *)
  let chain := of_bits 4605287754436782640 in
  ffinite (tq t) = true /\ ffinite (tr t) = true /\ ffinite chain = true /\
  flt fzero chain = true /\
  match eoc_event_time t t chain with
  | Some T => feqb_bits (tq T) (of_bits 4638426141214900224) && feqb_bits (tr T) (of_bits 4598889490446177376)
  | None => false end = true.
Proof. cbv zeta. repeat split; vm_compute; reflexivity. Qed.

Example end_of_chain_hands_velocity_over_nonvacuous :
  let env := mkEnv fone 3 fone false 0 false fzero fzero [] Ratio in
  let t0 := mkTime (of_bits 4638355772470722560) (of_bits 4602678819172646912) in
  let T := mkTime (of_bits 4638426141214900224) (of_bits 4598889490446177376) in
  let u := mkHU [1%Z] [of_bits 4599075939470750515; fzero; fzero] (Some ex_v) (Some t0) fnan None fone in
  let w := mkHU [4%Z] [fzero; fzero; of_bits 4602678819172646912] None None fnan None fone in
  match eoc_out_state env EPeriodic T [u] [w] with
  | Some o => match eo_units o with
              | [a; b] => match hu_vel a, hu_vel b with
                          | None, Some nv => fl_eqb nv [fzero; fzero; of_bits 4607182418800017408]
                          | _, _ => false end
              | _ => false end
  | None => false
  end = true.
Proof. vm_compute. reflexivity. Qed.
