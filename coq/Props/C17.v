(** * Props/C17.v — Samples and end of run occur at nominal times on a fully time-sliced state.

    Models: [JF.Model.Sampling] (fixed-interval handlers iterate [Time.__add__]; end of run is
    [Time.from_float]) on [JF.Model.Time] (C14) and [JF.Model.Kinematics] (C07).
    Tie to the code: harness/c17.py — recorded candidate times of every sampling / dumping handler and
    of the end-of-run handler are compared bit for bit with the model inside Coq; the states at
    sampling / end-of-run legs are the model states of C07 (equal to the real ones by [after_ok]). *)
From Coq Require Import ZArith QArith Bool List Reals.
From Flocq Require Import Core.Core IEEE754.BinarySingleNaN.
Require Import JF.Base.F64 JF.Model.Time JF.Model.Kinematics JF.Model.Sampling
               JF.Proofs.F64Facts JF.Proofs.TimeProofs JF.Proofs.SamplingProofs.
Import ListNotations.

(** The k-th sample time differs from t0 + k * interval by at most k half-ulps of (1 + interval):
    one rounding of the REMAINDER per step, independent of how large the time already is. *)
Theorem sample_time_k :
  forall (t0 : time) (dt : f64) (k : nat),
  normalised t0 -> ffinite dt = true -> (0 <= B2R dt)%R ->
  (forall j, (j < k)%nat -> side (nth_time t0 dt j) dt) ->
  normalised (nth_time t0 dt k) /\
  (Rabs (value (nth_time t0 dt k) - (value t0 + INR k * B2R dt)) <= INR k * (/ 2 * ulp64 (1 + B2R dt)))%R.
Proof. exact nth_time_error. Qed.
Print Assumptions sample_time_k.

(** The recorded candidate times of a handler that conforms ([periodic_ok], evaluated on every traced
    run) are exactly the model's iterated sums. *)
Theorem recorded_times_are_model_times :
  forall dt ts t, times_conform t dt ts = true ->
  forall k r, nth_error ts k = Some r -> time_bits_eqb (nth_time t dt (S k)) r = true.
Proof. exact times_conform_nth. Qed.
Print Assumptions recorded_times_are_model_times.

(** A moving unit stamped with the sample time is written at exactly its current position:
    advancing it to the sample time changes nothing, so what is written does not depend on when
    the last interaction event happened. *)
Theorem sample_fully_sliced_position :
  forall (u : unit) (T : ftime) (Tq : Q) (d : nat),
  stamped_with T u = true -> moving u = true -> tvalue T = Some Tq ->
  ffinite (nth d (u_pos u) fnan) = true ->
  match u_vel u with Some v => ffinite (nth d v fnan) = true | None => False end ->
  exists p, pos_at u Tq d = Some p /\ (p == f2q (nth d (u_pos u) fnan))%Q.
Proof. exact sliced_position_is_current. Qed.
Print Assumptions sample_fully_sliced_position.

(** Accepted runs of any length: the run is a C07 run, and at every sampling and end-of-run leg
    EVERY unit of the global state that moves carries the commit time as its time stamp. *)
Theorem sample_fully_sliced :
  forall c : scase, check_scase c = true ->
  check_kcase (sc_k c) = true /\
  exists ss, run_states_k (map f2q (kc_L (sc_k c))) 0 (kinit (sc_k c)) (kc_legs (sc_k c)) = Some ss /\
    forall i l s, nth_error (kc_legs (sc_k c)) i = Some l -> nth_error ss i = Some s ->
      is_output_kind (k_kind l) = true ->
      forall u, In u (s_units s) -> stamped_with (k_time l) u = true.
Proof. exact accepted_samples_sliced. Qed.
Print Assumptions sample_fully_sliced.

(** Non-vacuity: three samples at interval 0.25 from Time(0, 0) conform; a skipped sample does not. *)
Definition q0 := 0%Z. Definition q025 := 4598175219545276416%Z. Definition q05 := 4602678819172646912%Z.
Definition q075 := 4604930618986332160%Z.
Example ex_periodic_ok :
  periodic_ok {| p_dt := of_bits q025; p_t0 := (of_bits q0, of_bits q0);
                 p_times := [(of_bits q0, of_bits q025); (of_bits q0, of_bits q05); (of_bits q0, of_bits q075)] |} = true.
Proof. vm_compute. reflexivity. Qed.
Example ex_periodic_skipped :
  periodic_ok {| p_dt := of_bits q025; p_t0 := (of_bits q0, of_bits q0);
                 p_times := [(of_bits q0, of_bits q025); (of_bits q0, of_bits q075)] |} = false.
Proof. vm_compute. reflexivity. Qed.
