(** * Props/C07.v — Particles move continuously at recorded velocity; events only hand velocity over.

    Model: [JF.Model.Kinematics] — global state of all units (exact rationals from the recorded bit
    patterns), commit = override by the out-state, pending candidate times, current time.
    Each recorded leg is checked LOCALLY ([leg_ok]); the theorems below lift the local facts to every
    unit of the global state and to runs of any length.

    Tie to the code: harness/c07.py replays every leg of traced real runs through [check_kcase] inside
    Coq; [after_ok] additionally requires the model's global state to equal the real one after every
    commit. *)
From Coq Require Import ZArith QArith Qabs List Bool.
Require Import JF.Base.F64 JF.Model.Kinematics JF.Proofs.KinematicsProofs.
Import ListNotations.
Open Scope Q_scope.

(** Committed event times never decrease (and all pending candidates stay in the future): the
    scheduler's pick is a minimum of the pending events (C06) and every new candidate is not earlier
    than the current time (C14's add_never_decreases at the call sites). *)
Theorem times_monotone :
  forall Ls n s l s', pending_future s -> leg_ok Ls n s l = Some s' ->
  s_now s <= s_now s' /\ pending_future s'.
Proof. exact leg_time_monotone. Qed.
Print Assumptions times_monotone.

(** Frame + contract for EVERY unit of the global state at an accepted leg: a unit is either untouched
    (bit-identical record: it does not move discontinuously, and does not move at all if it is not
    moving) or replaced by an out-state unit satisfying [unit_ok]; the chain condition holds from the
    start-of-run event on; the model state equals the real state. *)
Theorem every_unit_frame_or_contract :
  forall Ls n s l s', ids_nodup (map u_id (s_units s)) = true -> leg_ok Ls n s l = Some s' ->
  exists T, leg_facts Ls s s' l T.
Proof. exact leg_ok_facts. Qed.
Print Assumptions every_unit_frame_or_contract.

(** The contract implies continuity at the commit time: the old and the new trajectory of the unit,
    evaluated exactly at the commit time, agree modulo the box within the rounding bound of the two
    time-slices ([slice_tol]: relative 2^-50). *)
Theorem continuity :
  forall Ls k T tT u u', unit_ok Ls k T tT u u' = true -> continuous_at Ls k T u u'.
Proof. exact unit_ok_continuous. Qed.
Print Assumptions continuity.

(** Inactive units do not move at all: an out-state unit that was not moving keeps its position
    bit for bit (cell-boundary events only ever carry the active unit). *)
Theorem inactive_do_not_move :
  forall Ls k T tT u u', unit_ok Ls k T tT u u' = true -> moving u = false -> k <> KCellBoundary ->
  vel_eqb (u_pos u) (u_pos u') = true.
Proof. exact unit_ok_inactive_fixed. Qed.
Print Assumptions inactive_do_not_move.

(** Whole runs of any length: non-decreasing commit times; after every commit the identifiers are the
    initial ones, every position lies in the box, all pending candidates lie in the future, and from the
    start-of-run event on the moving point masses are one point mass or all point masses of one
    composite object with one common velocity ([chain_ok]). *)
Theorem accepted_run :
  forall c : kcase, check_kcase c = true ->
  exists ss,
    run_states_k (map f2q (kc_L c)) 0 (kinit c) (kc_legs c) = Some ss /\
    nondecreasing 0 ss /\
    Forall (good (map f2q (kc_L c)) (map u_id (kc_init c))) ss.
Proof. exact accepted_run_kinematics. Qed.
Print Assumptions accepted_run.

(** Meaning of [circ_le]: some integer number of box lengths separates the two values by at most tol. *)
Theorem circ_le_sound :
  forall a b L tol, circ_le a b L tol = true -> exists k : Z, Qabs (a - b - inject_Z k * L) <= tol.
Proof.
  intros a b L tol H. unfold circ_le in H. exists (nearest_k (a - b) L). apply Qle_bool_iff. exact H.
Qed.
Print Assumptions circ_le_sound.

(** Non-vacuity: a two-particle run in one dimension (start of run, then a hand-over at t = 0.25)
    is accepted; the same run with the first particle displaced at the hand-over is rejected. *)
Definition b0 := 0%Z. Definition b025 := 4598175219545276416%Z. Definition b05 := 4602678819172646912%Z.
Definition b075 := 4604930618986332160%Z. Definition b1 := 4607182418800017408%Z.
Definition mk i p v t := {| u_id := [i]; u_pos := [of_bits p]; u_vel := v; u_ts := t; u_charge := [] |}.
Definition ex_run (p_handover : Z) : kcase :=
  {| kc_L := [of_bits b1];
     kc_init := [mk 0%nat b025 None None; mk 1%nat b075 None None];
     kc_legs :=
       [ {| k_kind := KStart; k_cands := [(0%nat, (of_bits b0, of_bits b0))]; k_pick := 0%nat;
            k_time := (of_bits b0, of_bits b0);
            k_out := [mk 0%nat b025 (Some [of_bits b1]) (Some (of_bits b0, of_bits b0))];
            k_trash := [0%nat];
            k_after := [mk 0%nat b025 (Some [of_bits b1]) (Some (of_bits b0, of_bits b0))] |};
         {| k_kind := KInteraction; k_cands := [(1%nat, (of_bits b0, of_bits b025))]; k_pick := 1%nat;
            k_time := (of_bits b0, of_bits b025);
            k_out := [mk 0%nat p_handover None None;
                      mk 1%nat b075 (Some [of_bits b1]) (Some (of_bits b0, of_bits b025))];
            k_trash := [1%nat];
            k_after := [mk 0%nat p_handover None None;
                        mk 1%nat b075 (Some [of_bits b1]) (Some (of_bits b0, of_bits b025))] |} ] |}.
Example ex_run_accepted : check_kcase (ex_run b05) = true.
Proof. vm_compute. reflexivity. Qed.
Example ex_jump_rejected : check_kcase (ex_run b075) = false.
Proof. vm_compute. reflexivity. Qed.
