Require Import JF.Model.Kinematics.
