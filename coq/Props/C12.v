(** * Props/C12.v — Composite objects stay consistent with their point masses.

    Part 1 (exact arithmetic over Q, one vector component): the velocity bookkeeping of the event
    handlers keeps "root velocity == weighted sum of the point masses' velocities", free flight keeps
    the root on the weighted barycentre, and the random node creators start there.
    Part 2: on every state of an accepted recorded run (any length) the consistency conditions
    [composite_ok] hold, including the randomly generated initial molecules.

    Tie to the code: harness/c12.py evaluates [check_ccase] inside Coq on traced real runs of all
    composite-object configurations (dipoles, water, hard-disk dipole, generated variations). *)
From Coq Require Import ZArith QArith Qabs List Bool.
Require Import JF.Base.F64 JF.Model.Kinematics JF.Model.Composite JF.Proofs.CompositeProofs.
Import ListNotations.
Open Scope Q_scope.

Theorem exchange_take_preserves :
  forall ws vs rv a v,
  length ws = length vs -> nth a vs None = Some v ->
  vel_inv rv (wsum ws vs) ->
  (let S' := wsum ws vs - nth a ws 0 * v in S' == 0 \/ cutoff <= Qabs S') ->
  vel_inv (snd (take ws vs rv a v)) (wsum ws (fst (take ws vs rv a v))).
Proof. exact take_preserves. Qed.
Print Assumptions exchange_take_preserves.

Theorem exchange_give_preserves :
  forall ws vs rv b v,
  length ws = length vs -> (b < length vs)%nat -> nth b vs None = None ->
  vel_inv rv (wsum ws vs) ->
  (let S' := wsum ws vs + nth b ws 0 * v in S' == 0 \/ cutoff <= Qabs S') ->
  vel_inv (snd (give ws vs rv b v)) (wsum ws (fst (give ws vs rv b v))).
Proof. exact give_preserves. Qed.
Print Assumptions exchange_give_preserves.

(** Without the hypothesis on the cut-off the velocity invariant can be lost: a root moving slower
    than 1e-13 is declared not moving although a point mass moves (documentation of the hypothesis). *)
Theorem cutoff_misfire_refuted :
  exists ws vs rv b v,
    length ws = length vs /\ nth b vs None = None /\ vel_inv rv (wsum ws vs) /\
    ~ vel_inv (snd (give ws vs rv b v)) (wsum ws (fst (give ws vs rv b v))).
Proof.
  exists [1 # 2; 1 # 2], [Some (1 # 1); None], (Some (1 # 2)), 1%nat, (-1 + (1 # 100000000000000)).
  repeat split; try reflexivity. vm_compute. intro H. discriminate H.
Qed.
Print Assumptions cutoff_misfire_refuted.

Theorem root_position_flight :
  forall ws ps vs P V t,
  length ws = length ps -> length ps = length vs ->
  P == wdot ws ps -> V == wdot ws vs ->
  P + V * t == wdot ws (advance ps vs t).
Proof. exact root_stays_on_barycentre. Qed.
Print Assumptions root_position_flight.

Theorem creators_centre_dipole : forall c u s : Q, (1 # 2) * (c + u * s) + (1 # 2) * (c - u * s) == c.
Proof. exact dipole_creator_centre. Qed.
Theorem creators_centre_water : forall c a b : Q,
  let o := c - (a + b) / 3 in (1 # 3) * (o + a) + (1 # 3) * o + (1 # 3) * (o + b) == c.
Proof. exact water_creator_centre. Qed.
Print Assumptions creators_centre_water.

Theorem accepted_run :
  forall c : ccase, check_ccase c = true ->
  check_kcase (cc_k c) = true /\
  composite_ok (map f2q (kc_L (cc_k c))) (cc_w c) (kc_init (cc_k c)) 0 0 = true /\
  exists ss, run_states_k (map f2q (kc_L (cc_k c))) 0 (kinit (cc_k c)) (kc_legs (cc_k c)) = Some ss /\
    forall i s, nth_error ss i = Some s -> s_started s = true ->
      composite_ok (map f2q (kc_L (cc_k c))) (cc_w c) (s_units s) (s_now s) (1 + i) = true.
Proof. exact accepted_run_composite. Qed.
Print Assumptions accepted_run.

(** Non-vacuity of the hypotheses of the exchange theorems: a dipole whose first point mass moves. *)
Example ex_take :
  vel_inv (snd (take [1 # 2; 1 # 2] [Some 1; None] (Some (1 # 2)) 0 1))
          (wsum [1 # 2; 1 # 2] (fst (take [1 # 2; 1 # 2] [Some 1; None] (Some (1 # 2)) 0 1))).
Proof. vm_compute. reflexivity. Qed.
