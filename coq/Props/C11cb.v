(** * Props/C11cb.v — C11 at a cell-boundary event: the event is the earliest wall, and it puts the unit onto that wall.

    The executable model Model/CellBoundary.v (binary64) is compared bit for bit with the real
    [CellBoundaryEventHandler.send_event_time] / [send_out_state] on every run of the C11 check (cubic and non-cubic
    boxes, real CuboidPeriodicCells grids; JF.Model.CellBoundaryCases.check_cbcase).  The cell system is an oracle of
    this model (its partition and torus theorems are C16).  Theorems, for every dimension and every list of candidates:
    the candidate the handler stores is one of the per-direction candidates and no direction has a strictly earlier
    time; the out-state is the time-sliced in-state except that the relevant unit's coordinate in the direction of the
    event is the stored boundary value, bit for bit — which is the neighbour cell's own [cell_min] ([cell_max] for motion
    in negative direction) and therefore maps into that neighbour cell by C16's [extent_loops_correct_partial] /
    [grid_partition_partial]. *)
From Coq Require Import ZArith List Bool Arith Reals.
From Flocq Require Import Core.Core IEEE754.BinarySingleNaN.
Require Import JF.Base.F64 JF.Model.Time JF.Model.Periodic JF.Model.Handlers JF.Model.CellBoundary
               JF.Proofs.F64Facts JF.Proofs.CellBoundaryProofs.
Import ListNotations.

Theorem cell_boundary_event_is_the_earliest_wall : forall cs best,
  Forall cand_finite cs -> fold_left cb_better cs cb_start = best -> flt (cb_t best) finf = true ->
  In (Some best) cs /\ forall c, In (Some c) cs -> (B2R (cb_t best) <= B2R (cb_t c))%R.
Proof. exact choose_earliest. Qed.
Print Assumptions cell_boundary_event_is_the_earliest_wall.

(** what the handler stores: a direction of motion, one of the two wall values the cell system supplied for that direction,
    and a time that no other direction undercuts *)
Theorem cell_boundary_event_stores_a_wall_of_its_direction : forall pos vel Ls bmins bmaxs c,
  Forall cand_finite (cb_candidates pos vel Ls bmins bmaxs) ->
  cb_choose pos vel Ls bmins bmaxs = Some c ->
  (cb_dir c < length vel)%nat /\
  (cb_bound c = nth (cb_dir c) bmins fnan \/ cb_bound c = nth (cb_dir c) bmaxs fnan) /\
  forall c', In (Some c') (cb_candidates pos vel Ls bmins bmaxs) -> (B2R (cb_t c) <= B2R (cb_t c'))%R.
Proof. exact chosen_bound. Qed.
Print Assumptions cell_boundary_event_stores_a_wall_of_its_direction.

Theorem cell_boundary_out_state : forall Ls T c st r out,
  cb_out_state Ls T c st r = Some out ->
  exists st1, all_some (map (slice_unit_Ls Ls T) st) = Some st1 /\ length out = length st1 /\
    (forall i, (i < length st1)%nat -> i <> r -> getu out i = getu st1 i) /\
    ((r < length st1)%nat ->
       hu_pos (getu out r) = set_nth (hu_pos (getu st1 r)) (cb_dir c) (cb_bound c) /\
       hu_vel (getu out r) = hu_vel (getu st1 r) /\ hu_ts (getu out r) = hu_ts (getu st1 r) /\
       hu_id (getu out r) = hu_id (getu st1 r)).
Proof. exact out_state_shape. Qed.
Print Assumptions cell_boundary_out_state.

Theorem unit_sits_on_the_boundary : forall (l : list f64) k x d,
  (k < length l)%nat ->
  nth k (set_nth l k x) d = x /\ length (set_nth l k x) = length l /\
  forall j, j <> k -> nth j (set_nth l k x) d = nth j l d.
Proof.
  intros l k x d H. split; [apply set_nth_same; exact H|]. split; [apply set_nth_length|].
  intros j Hj. apply set_nth_other. exact Hj.
Qed.
Print Assumptions unit_sits_on_the_boundary.

(** non-vacuity: a unit at (0.3, 0.6) moving with (1, 0) in the unit box with 4 cells per side: the wall at 0.5 is
    reached after 0.2 (binary64: 0.5 - 0.3), direction 0 *)
Definition ex_pos : list f64 := [of_bits 4599075939470750515; of_bits 4603579539098121011].
Definition ex_vel : list f64 := [of_bits 4607182418800017408; fzero].
Definition ex_Ls : list f64 := [of_bits 4607182418800017408; of_bits 4607182418800017408].
Definition ex_bmins : list f64 := [of_bits 4602678819172646912; of_bits 4604930618986332160].   (* 0.5, 0.75 *)
Definition ex_bmaxs : list f64 := [of_bits 4598175219545276415; of_bits 4602678819172646911].
Example cell_boundary_nonvacuous :
  Forall cand_finite (cb_candidates ex_pos ex_vel ex_Ls ex_bmins ex_bmaxs) /\
  match cb_choose ex_pos ex_vel ex_Ls ex_bmins ex_bmaxs with
  | Some c => Nat.eqb (cb_dir c) 0 && feqb_bits (cb_bound c) (of_bits 4602678819172646912)
              && feqb_bits (cb_t c) (fsub (of_bits 4602678819172646912) (of_bits 4599075939470750515))
  | None => false
  end = true.
Proof.
  split; [|vm_compute; reflexivity].
  unfold cb_candidates. cbn [length ex_vel seq map].
  repeat constructor; vm_compute; reflexivity.
Qed.
