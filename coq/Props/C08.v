Require Import JF.Model.Stale.
