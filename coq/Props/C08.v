(** * Props/C08.v — A committed event was computed from the trajectory that is still current.

    Model: [JF.Model.Stale] on top of [JF.Model.Kinematics]: for every pending event handler the
    in-state from which its candidate time was computed is remembered (registered when the handler is
    started, dropped when it is trashed).
    Tie to the code: harness/c08.py evaluates [check_stcase] inside Coq on traced real runs; the
    in-states are recorded exactly as extracted from the global state, before the handler touches them. *)
From Coq Require Import ZArith QArith List Bool.
Require Import JF.Base.F64 JF.Model.Kinematics JF.Model.Stale JF.Proofs.StaleProofs.
Import ListNotations.

(** Facts of one accepted leg: it is a C07 leg; NOT STALE — the in-state registered for the committing
    interaction / cell-veto handler agrees (same velocity bits, same line) with the global state right
    before its commit; SURVIVORS UNDISTURBED — every interaction / cell-veto event still pending after
    the commit sees all its units on an unchanged trajectory in the new global state, i.e. no candidate
    survives in the scheduler after another event changed the motion of a unit it depends on. *)
Theorem not_stale_leg :
  forall Ls fh n s ins l s' ins', sleg_ok Ls fh n s ins l = Some (s', ins') ->
  exists T, sleg_facts Ls fh n s s' ins ins' l T.
Proof. exact sleg_ok_facts. Qed.
Print Assumptions not_stale_leg.

(** Runs of any length accepted by the checker have these facts at every leg. *)
Theorem not_stale :
  forall c : stcase, check_stcase c = true ->
  exists r, run_facts (map f2q (st_L c)) (st_factor_handlers c) 0
              {| s_units := st_init c; s_now := 0; s_pending := []; s_started := false; s_speed2 := None |}
              [] (st_legs c) r.
Proof. exact accepted_run_stale. Qed.
Print Assumptions not_stale.

(** The in-state compared at the commit is the one registered when the candidate was computed,
    however many legs ago: registrations persist unchanged while the handler is neither trashed nor
    started again. *)
Theorem instate_is_the_one_registered :
  forall Ls fh ls n s ins r h ius,
  run_facts Ls fh n s ins ls r ->
  lookup_h ins h = Some ius ->
  Forall (fun l => ~ In h (map fst (sl_instates l)) /\ existsb (Nat.eqb h) (k_trash (sl_k l)) = false) ls ->
  forall i si, nth_error r i = Some si -> lookup_h (snd si) h = Some ius.
Proof. exact instate_persists. Qed.
Print Assumptions instate_is_the_one_registered.

Theorem registered_when_started :
  forall new ins h x, NoDup (map fst new) -> In (h, x) new -> lookup_h (add_all ins new) h = Some x.
Proof. intros; eapply lookup_add_all_in; eauto. Qed.
Theorem dropped_when_trashed :
  forall hs ins h, lookup_h (remove_all ins hs) h = if existsb (Nat.eqb h) hs then None else lookup_h ins h.
Proof. exact lookup_remove_all. Qed.
Print Assumptions dropped_when_trashed.

(** Meaning of "agrees": for every unit of the in-state the global state holds a unit with the same
    identifier, the same velocity bit for bit (same position bit for bit if it does not move). *)
Theorem current_means_same_motion :
  forall Ls T st ius, instate_current Ls T st ius = true ->
  forall iu, In iu ius -> exists gu, lookup st (u_id iu) = Some gu /\ same_line Ls T gu iu = true /\
    match u_vel gu, u_vel iu with
    | None, None => vel_eqb (u_pos gu) (u_pos iu) = true
    | Some a, Some b => vel_eqb a b = true
    | _, _ => False
    end.
Proof.
  intros Ls T st ius H iu Hin. destruct (instate_current_spec _ _ _ _ H iu Hin) as [gu [Hl Hs]].
  exists gu. repeat split; auto. apply (same_line_velocity _ _ _ _ Hs).
Qed.
Print Assumptions current_means_same_motion.

(** Non-vacuity: same-line accepts a time-sliced copy and rejects a changed velocity. *)
Definition bq (z : Z) := of_bits z.
Definition u_a := {| u_id := [0%nat]; u_pos := [bq 4598175219545276416]; u_vel := Some [bq 4607182418800017408];
                     u_ts := Some (bq 0, bq 0); u_charge := [] |}.                    (* x=0.25 v=1 t=0 *)
Definition u_b := {| u_id := [0%nat]; u_pos := [bq 4602678819172646912]; u_vel := Some [bq 4607182418800017408];
                     u_ts := Some (bq 0, bq 4598175219545276416); u_charge := [] |}.  (* x=0.5 v=1 t=0.25 *)
Definition u_c := {| u_id := [0%nat]; u_pos := [bq 4602678819172646912]; u_vel := Some [bq 4602678819172646912];
                     u_ts := Some (bq 0, bq 4598175219545276416); u_charge := [] |}.  (* v=0.5 *)
Example ex_same_line : same_line [1%Q] (1 # 2) u_b u_a = true.
Proof. vm_compute. reflexivity. Qed.
Example ex_changed_velocity : same_line [1%Q] (1 # 2) u_c u_a = false.
Proof. vm_compute. reflexivity. Qed.
