(** * Props/C13.v — In-states are isolated copies; only commits change the global state.

    Model: Model/StateHandler.v (TreeStateHandler + TreePhysicalState + TreeLiftingState on the
    object store Base/Store.v).  [abs g id] is the abstraction of VALUES
    (position, velocity or None, time stamp or None) per identifier; [grefs g id] the OBJECTS.
    All theorems quantify over arbitrary trees (any number of roots / children per root), arbitrary
    identifiers and arbitrary operation sequences; nothing is bounded.

    Client discipline ([disciplinedb], hypothesis of [noninterference]): in-place writes go only to
    objects the client owns, i.e. objects handed out by a copying extraction or created by the
    client and not part of an inserted branch since; inserted units carry velocity and time stamp
    together or neither (the code asserts this). *)
From Coq Require Import ZArith List Bool Arith PArith.
Require Import JF.Base.Store JF.Model.StateHandler JF.Proofs.StateHandlerProofs.
Import ListNotations.

(* ---------------------------------------------------------------------------------------- *)
(** The invariant holds initially for every tree and is kept by EVERY operation. *)

Theorem invariant_initial : forall levels npr tree, cinv (mkC (init levels npr tree) [] []).
Proof. exact cinv_init. Qed.
Print Assumptions invariant_initial.

Theorem invariant_preserved : forall ops c, cinv c -> cinv (run c ops).
Proof. exact cinv_run. Qed.
Print Assumptions invariant_preserved.

(* ---------------------------------------------------------------------------------------- *)
(** A branch handed out for [id] contains exactly the node, its ancestors and its descendants
    (among the identifiers of the tree), each once, with the current values; the extraction does
    not change the global state. *)
Theorem extract_complete : forall g id g' b,
  ginv g -> extract g id = (g', Some b) ->
  (forall k, valid g k -> (In k (map u_id (units b)) <-> related id k)) /\
  NoDup (map u_id (units b)) /\
  (forall u, In u (units b) -> abs g (u_id u) = Some (uvals (g_store g') u)) /\
  (forall k, abs g' k = abs g k).
Proof. exact extract_complete_lemma. Qed.
Print Assumptions extract_complete.

(** The objects of an extracted branch are new: pairwise distinct, not allocated before, not
    reachable from the global state, in no branch handed out earlier, not owned by the client. *)
Theorem extract_fresh : forall c id g' b,
  cinv c -> extract (c_g c) id = (g', Some b) ->
  NoDup (branch_addrs b) /\
  forall a, In a (branch_addrs b) ->
    ~ allocated (g_store (c_g c)) a /\ ~ greach g' a /\ ~ In a (c_owned c) /\
    forall b', In b' (c_held c) -> ~ In a (branch_addrs b').
Proof. exact extract_fresh_lemma. Qed.
Print Assumptions extract_fresh.

(* ---------------------------------------------------------------------------------------- *)
(** Non-interference, for every disciplined operation sequence from every state satisfying the
    invariant: at every step ([trace_spec] unfolds [step_spec] along the run)
    - extract / extract-active / extract-global / write / new / clear / share leave [abs] unchanged
      for every identifier, and change no object other than the one written;
    - [OInsert hs] leaves the store unchanged and makes [abs] equal to the previous [abs]
      overridden, for the identifiers of the inserted units, by exactly the inserted values
      (last occurrence in insertion order), and to the previous [abs] everywhere else. *)
Theorem noninterference : forall ops c, cinv c -> disciplinedb c ops = true -> trace_spec c ops.
Proof. exact noninterference_lemma. Qed.
Print Assumptions noninterference.

(** One step, spelled out. *)
Theorem noninterference_step : forall c o, cinv c -> op_okb c o = true ->
  match o with
  | OInsert hs =>
      g_store (c_g (step c o)) = g_store (c_g c) /\
      forall id, abs (c_g (step c o)) id =
        match find_last id (flat (select (c_held c) hs)) with
        | Some u => match abs (c_g c) id with Some _ => Some (uvals (g_store (c_g c)) u) | None => None end
        | None => abs (c_g c) id
        end
  | OWrite h k f v =>
      (forall id, abs (c_g (step c o)) id = abs (c_g c) id) /\
      (forall a, target c h k f <> Some a -> read (g_store (c_g (step c o))) a = read (g_store (c_g c)) a)
  | _ =>
      (forall id, abs (c_g (step c o)) id = abs (c_g c) id) /\
      (forall a, allocated (g_store (c_g c)) a -> read (g_store (c_g (step c o))) a = read (g_store (c_g c)) a)
  end.
Proof. exact step_spec_holds. Qed.
Print Assumptions noninterference_step.

(** Between two commits the global state does not change. *)
Theorem no_commit_no_change : forall ops c, cinv c -> disciplinedb c ops = true ->
  forallb (fun o => negb (is_insert o)) ops = true ->
  forall id, abs (c_g (run c ops)) id = abs (c_g c) id.
Proof. exact no_insert_no_change_lemma. Qed.
Print Assumptions no_commit_no_change.

(** Changing a branch has no effect on other extracted branches: a held branch keeps its values
    under every operation except an in-place write to one of its own objects. *)
Theorem held_branch_isolated : forall c o b u,
  cinv c -> In b (c_held c) -> In u (units b) ->
  (forall h k f v a, o = OWrite h k f v -> target c h k f = Some a -> ~ In a (branch_addrs b)) ->
  uvals (g_store (c_g (step c o))) u = uvals (g_store (c_g c)) u.
Proof. exact held_branch_isolated_lemma. Qed.
Print Assumptions held_branch_isolated.

(** After [insert] exactly the inserted values are read back and nothing else changed. *)
Theorem insert_reads_back : forall g bs id, Forall unit_wf (flat bs) ->
  g_store (insert g bs) = g_store g /\
  abs (insert g bs) id =
  match find_last id (flat bs) with
  | Some u => match abs g id with Some _ => Some (uvals (g_store g) u) | None => None end
  | None => abs g id
  end.
Proof. exact insert_reads_back_full. Qed.
Print Assumptions insert_reads_back.

(* ---------------------------------------------------------------------------------------- *)
(** Documented facts about aliasing (true of the code, see harness/c13.py: the number of aliased
    objects is compared with the implementation's [id()]s after every operation). *)

(** After [insert] the objects of the branch ARE the objects of the global state. *)
Theorem insert_aliases : forall g bs id, Forall unit_wf (flat bs) ->
  grefs (insert g bs) id =
  match find_last id (flat bs) with
  | Some u => match grefs g id with Some _ => Some (urefs u) | None => None end
  | None => grefs g id
  end.
Proof. exact insert_aliases_lemma. Qed.
Print Assumptions insert_aliases.

(** [extract_global_state] hands out the global objects themselves. *)
Theorem extract_global_aliases : forall g b u,
  In b (extract_global g) -> In u (units b) -> grefs g (u_id u) = Some (urefs u).
Proof. exact extract_global_aliases_lemma. Qed.
Print Assumptions extract_global_aliases.

(** Hence isolation does NOT hold without the discipline: writing through a branch after it was
    inserted changes the global state although no insert takes place. *)
Theorem isolation_without_discipline_refuted :
  exists c o id, cinv c /\ is_insert o = false /\ abs (c_g (step c o)) id <> abs (c_g c) id.
Proof.
  exists (run (mkC (init 1 1 [([1%Z], [])]) [] []) [OExtract (Root 0); OInsert [0]]),
         (OWrite 0 0 FPos [2%Z]), (Root 0).
  split; [apply cinv_run; apply cinv_init|]. split; [reflexivity|]. vm_compute. discriminate.
Qed.
Print Assumptions isolation_without_discipline_refuted.

(* ---------------------------------------------------------------------------------------- *)
(** The active part extracted is exactly the set of independently moving units. *)
Theorem independent_active_rule : forall g, ginv g ->
  (* one level: the lifted identifiers *)
  (g_levels g = 1 -> forall id, In id (active_ids g) <->
     exists i, id = Root i /\ i < length (g_phys g) /\ lifted g (Root i)) /\
  (* two levels: a lifted root with all its [g_npr] children lifted is a composite object; of a
     lifted root with some child not lifted, the lifted children move independently *)
  (g_levels g <> 1 -> forall id, In id (active_ids g) <->
     match id with
     | Root i => i < length (g_phys g) /\ lifted g (Root i) /\ forall j, j < g_npr g -> lifted g (Leaf i j)
     | Leaf i j => i < length (g_phys g) /\ lifted g (Root i) /\ j < g_npr g /\ lifted g (Leaf i j) /\
                   exists j', j' < g_npr g /\ ~ lifted g (Leaf i j')
     end) /\
  (* what is handed out: one copied branch per such identifier, with the current values, all
     objects new and pairwise distinct; the global state is unchanged *)
  (forall g' bs, extract_active g = (g', bs) ->
     Forall2 (extracted g (g_store g')) (active_ids g) bs /\
     NoDup (flat_map branch_addrs bs) /\ forall id, abs g' id = abs g id).
Proof. exact independent_active_rule_lemma. Qed.
Print Assumptions independent_active_rule.

(** On coherent states (a moving point mass induces a velocity of its composite object: the
    assumption stated in the docstring of [yield_independent_lifted_identifiers], kept by the
    event handlers, C12) the rule needs no reference to the root's own velocity: a composite
    object is extracted iff all its point masses move, a point mass iff it moves and some
    sibling does not.  (A lifted leaf under a root WITHOUT velocity is not extracted by the code:
    it iterates over the lifted roots only.) *)
Theorem independent_active_rule_coherent : forall g,
  ginv g -> g_levels g <> 1 -> coherent g -> 0 < g_npr g ->
  forall id, In id (active_ids g) <->
  match id with
  | Root i => i < length (g_phys g) /\ forall j, j < g_npr g -> lifted g (Leaf i j)
  | Leaf i j => j < g_npr g /\ lifted g (Leaf i j) /\ exists j', j' < g_npr g /\ ~ lifted g (Leaf i j')
  end.
Proof. exact active_ids_rule2_coherent. Qed.
Print Assumptions independent_active_rule_coherent.

(* ======================================================================================== *)
(** Non-vacuity: concrete, non-trivial instances of the hypotheses. *)

Definition ex_tree : list (val * list val) :=
  [([10; 11]%Z, [[12; 13]%Z; [14; 15]%Z]); ([20; 21]%Z, [[22; 23]%Z; [24; 25]%Z])].
Definition ex_c0 : cstate := mkC (init 2 2 ex_tree) [] [].
(** extract a leaf, give root and leaf a velocity and a time stamp, commit; extract the active
    part, time-slice it in place, hand the velocity over to the other leaf, commit both. *)
Definition ex_ops : list op :=
  [OExtract (Leaf 0 1); ONew 0 0 FVel [1; 0]%Z; ONew 0 0 FTs [0; 0]%Z; ONew 0 1 FVel [2; 0]%Z;
   ONew 0 1 FTs [0; 0]%Z; OInsert [0]; OExtractActive; OWrite 1 1 FPos [16; 17]%Z;
   OWrite 1 1 FTs [3; 5]%Z; OExtract (Leaf 0 0); OShare 2 1 1 1 FVel; OShare 2 1 1 1 FTs;
   OClear 1 1; OInsert [1; 2]; OExtractGlobal].

Example ex_invariant : cinv ex_c0 /\ cinv (run ex_c0 ex_ops).
Proof. split; [apply invariant_initial | apply invariant_preserved; apply invariant_initial]. Qed.

Example ex_disciplined : disciplinedb ex_c0 ex_ops = true.
Proof. vm_compute. reflexivity. Qed.

Example ex_noninterference : trace_spec ex_c0 ex_ops.
Proof. apply noninterference; [apply invariant_initial | exact ex_disciplined]. Qed.

(** the run really commits something: the state after differs from the state before *)
Example ex_changes : abs (c_g (run ex_c0 ex_ops)) (Leaf 0 0) = Some ([12; 13]%Z, Some [2; 0]%Z, Some [3; 5]%Z)
                     /\ abs (c_g (run ex_c0 ex_ops)) (Leaf 0 1) = Some ([16; 17]%Z, None, None)
                     /\ abs (c_g ex_c0) (Leaf 0 1) = Some ([14; 15]%Z, None, None).
Proof. vm_compute. repeat split. Qed.

Example ex_extract : exists g' b, extract (c_g (run ex_c0 ex_ops)) (Root 0) = (g', Some b)
                                  /\ length (units b) = 3 /\ length (branch_addrs b) = 7.
Proof. eexists. eexists. split; [vm_compute; reflexivity | split; reflexivity]. Qed.

Example ex_no_commit : forall id,
  abs (c_g (run ex_c0 (firstn 5 ex_ops))) id = abs (c_g ex_c0) id.
Proof. apply no_commit_no_change; [apply invariant_initial | reflexivity | reflexivity]. Qed.

Example ex_isolated :
  let c := run ex_c0 (firstn 9 ex_ops) in
  (exists b, nth_error (c_held c) 0 = Some b) /\
  forall b u, nth_error (c_held c) 0 = Some b -> In u (units b) ->
    uvals (g_store (c_g (step c (OWrite 1 1 FPos [99]%Z)))) u = uvals (g_store (c_g c)) u.
Proof.
  intro c. split; [vm_compute; eexists; reflexivity|]. intros b u N Hu.
  apply (held_branch_isolated c _ b u);
    [apply invariant_preserved; apply invariant_initial | eapply nth_error_In; exact N | exact Hu |].
  intros h k f v a E T. injection E as <- <- <- <-. vm_compute in N. injection N as <-.
  vm_compute in T. injection T as <-. vm_compute. intuition discriminate.
Qed.

Example ex_insert_wf : Forall unit_wf (flat (select (c_held (run ex_c0 (firstn 13 ex_ops))) [1; 2])).
Proof. apply Forall_forall. apply forallb_forall. vm_compute. reflexivity. Qed.

Example ex_active : active_ids (c_g (run ex_c0 (firstn 6 ex_ops))) = [Leaf 0 1]
                    /\ active_ids (c_g (run ex_c0 ex_ops)) = [Leaf 0 0]
                    /\ g_levels (c_g ex_c0) <> 1.
Proof. vm_compute. repeat split; discriminate. Qed.

(** a coherent state with an active point mass: root 0 and leaf (0,0) lifted *)
Example ex_coherent : coherent (c_g (run ex_c0 ex_ops)) /\ 0 < g_npr (c_g (run ex_c0 ex_ops)).
Proof.
  split; [|vm_compute; repeat constructor]. intros i j. unfold lifted. vm_compute.
  destruct i as [|[|i]]; destruct j as [|[|j]]; simpl; congruence.
Qed.

Example ex_global_aliases : length (extract_global (c_g (run ex_c0 ex_ops))) = 2.
Proof. reflexivity. Qed.
