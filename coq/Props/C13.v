(** Placeholder until the proofs land. *)
Require Import JF.Base.Store JF.Model.StateHandler.
