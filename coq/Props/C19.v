(** * Props/C19.v — A dumped run resumes to exactly the run that was never interrupted.

    What is proved is the LOGIC: the mediator loop is a deterministic function of (everything but the
    scheduler, scheduler); a dump stores the former as is and replaces the heap scheduler by a rebuilt,
    observationally equivalent one ([HeapScheduler.__getstate__/__setstate__], C06); such a run
    commits the same events for any number of legs.  What dill does to module globals, closures and
    cffi objects is runtime behaviour outside any executable model: it is covered by the differential
    runs of real processes in harness/c19.py, whose traces are compared bit for bit inside Coq
    ([check_dcase], [check_icase]). *)
From Coq Require Import List Bool Arith ZArith.
Require Import JF.Base.F64 JF.Model.Kinematics JF.Model.Dump JF.Proofs.DumpProofs.
Import ListNotations.

(** For every mediator (any [produce] / [commit], i.e. any activator, handlers, state handler, random
    stream) and every scheduler implementation with a bisimulation [eqv] for push / trash / get:
    continuing with an equivalent scheduler commits the same sequence of events, whatever the number
    of legs. *)
Theorem resume_same_trace :
  forall (R Sc H T E : Type) (push : Sc -> T -> H -> Sc) (trash : Sc -> H -> Sc) (get : Sc -> option H)
         (produce : R -> list (T * H) * R) (commit : R -> H -> option (E * R * list H))
         (eqv : Sc -> Sc -> Prop),
  bisim Sc H T push trash get eqv ->
  forall n r s s', eqv s s' ->
  run R Sc H T E push trash get produce commit n (r, s) = run R Sc H T E push trash get produce commit n (r, s').
Proof. exact run_eqv. Qed.
Print Assumptions resume_same_trace.

(** Non-vacuity: a list-based scheduler (pending events in arrival order, [get] = first minimum)
    and the same scheduler with its list reversed are bisimilar when all times are distinct ... here
    simply instantiated with syntactic equality, for which every interface is a bisimulation. *)
Example bisim_eq :
  forall (Sc H T : Type) push trash get, bisim Sc H T push trash get (@eq Sc).
Proof. intros. constructor; intros; subst; reflexivity. Qed.

(** Two recorded leg sequences accepted by [klegs_eqb] have the same length and agree leg by leg
    (handler, event time, candidates, out-state, trash list, changed units — all bit for bit). *)
Theorem compared_runs_agree :
  forall a b, klegs_eqb a b = true ->
  length a = length b /\
  forall i x y, nth_error a i = Some x -> nth_error b i = Some y -> kleg_eqb x y = true.
Proof. intros a b H. split; [apply klegs_eqb_length; exact H | intros; eapply klegs_eqb_nth; eauto]. Qed.
Print Assumptions compared_runs_agree.
