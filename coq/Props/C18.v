(** * Props/C18.v — the alias table selects each cell with probability rate/total.

    Model: JF.Model.Walker (walker.py over Q; items identified by their position in the input;
    draws explicit: [row] = index chosen by random.choice, [u] behind random.uniform(0.0, mean)).
    Vocabulary (JF.Proofs.WalkerProofs):
    - [share i row]: the part of [row]'s mass that belongs to cell [i]; [tshare i tbl]: sum over rows;
    - [row_mass row]; [rows_ok mean tbl]: every pair row is (s, mean - s) with 0 <= s <= mean, every
      single row carries exactly [mean];
    - [sel_len i mean row]: length of the set of draws u in (0,1] for which [row] yields cell [i];
    - [sel_prob i mean tbl = (sum_rows sel_len i mean row) / #rows]: probability of cell [i] over the
      pair of draws (uniform row, uniform u). *)
From Coq Require Import QArith Lqa List Bool ZArith Lia.
Require Import JF.Base.QInterval JF.Model.Lifting JF.Model.Walker JF.Proofs.LiftingProofs JF.Proofs.WalkerProofs.
Import ListNotations.
Open Scope Q_scope.

Ltac conj := repeat match goal with |- _ /\ _ => split end.
Ltac qc := vm_compute; first [reflexivity | congruence | discriminate | lia].

Definition rs_ex : list Q := [3#10; 7#10; 0; 11#10; 1#10; 4#5].

(** The model's fuel always suffices, and for non-negative rates with positive total the
    constructor succeeds: none of the final asserts fails in exact arithmetic (left-over items
    have rate exactly mean). *)
Theorem build_terminates : forall rs : list Q,
  build rs <> WFuel /\
  ((forall r, In r rs -> 0 <= r) -> 0 < qsum rs -> exists tbl, build rs = WOk tbl).
Proof.
  intros rs. split. apply build_no_fuel.
  intros H1 H2. destruct (build_ok rs H1 H2) as [tbl [B _]]. eauto.
Qed.
Print Assumptions build_terminates.

Example build_terminates_nonvacuous :
  (forall r, In r rs_ex -> 0 <= r) /\ 0 < qsum rs_ex /\
  match build rs_ex with WOk t => length t = 6%nat | _ => False end.
Proof.
  conj; try qc. intros r H. simpl in H.
  repeat (destruct H as [<- | H]; [qc|]). contradiction.
Qed.

(** One row per input cell, each of mass exactly mean. *)
Theorem rows_mass : forall (rs : list Q) (tbl : list wrow),
  (forall r, In r rs -> 0 <= r) -> 0 < qsum rs -> build rs = WOk tbl ->
  length tbl = length rs /\ rows_ok (mean_rate rs) tbl /\
  forall row, In row tbl -> row_mass row == mean_rate rs.
Proof.
  intros rs tbl H1 H2 Hb. destruct (build_ok rs H1 H2) as [tbl' [B1 [B2 [B3 B4]]]].
  rewrite Hb in B1. inversion B1; subst tbl'. conj; auto.
  intros row Hr. apply row_ok_mass. auto.
Qed.
Print Assumptions rows_mass.

Example rows_mass_nonvacuous :
  match build rs_ex with
  | WOk t => forallb (fun row => Qeq_bool (row_mass row) (mean_rate rs_ex)) t = true
  | _ => False end.
Proof. qc. Qed.

(** EXACTNESS.  Every cell's shares over all rows add up to its rate; [sample] returns [i] exactly
    for the draws in the intervals whose lengths [sel_len] adds up; hence the probability of cell [i]
    over the two draws is rate_i / total. *)
Theorem alias_exact : forall (rs : list Q) (tbl : list wrow),
  (forall r, In r rs -> 0 <= r) -> 0 < qsum rs -> build rs = WOk tbl ->
  (forall i, tshare i tbl == nth i rs 0) /\
  (forall r u row i, 0 < u -> u <= 1 -> nth_error tbl r = Some row ->
     (sample tbl (mean_rate rs) r u = SOk i <->
      match row with
      | RPair s l => (w_id s = i /\ mem_oc u (mkI 0 (w_rate s / mean_rate rs))) \/
                     (w_id l = i /\ mem_oc u (mkI (w_rate s / mean_rate rs) 1))
      | RSingle it => w_id it = i /\ mem_oc u (mkI 0 (w_rate it / mean_rate rs))
      end)) /\
  (forall i, sel_prob i (mean_rate rs) tbl == nth i rs 0 / total_rate rs).
Proof.
  intros rs tbl H1 H2 Hb. destruct (build_ok rs H1 H2) as [tbl' [B1 [B2 [B3 B4]]]].
  rewrite Hb in B1. inversion B1; subst tbl'. conj; auto.
  - intros. apply sample_spec; auto. apply mean_pos; auto.
  - intros i. apply alias_prob; auto.
Qed.
Print Assumptions alias_exact.

Example alias_exact_nonvacuous :
  match build rs_ex with
  | WOk t => Qeq_bool (tshare 3 t) (11#10) = true /\ Qeq_bool (sel_prob 3 (mean_rate rs_ex) t) (11#30) = true
             /\ sample t (mean_rate rs_ex) 0 (9#10) = SOk 5%nat
  | _ => False end.
Proof. vm_compute. conj; reflexivity. Qed.

(** The reported total is the sum of the rates. *)
Theorem total_is_sum : forall rs : list Q, total_rate rs == qsum rs.
Proof. exact total_rate_qsum. Qed.
Print Assumptions total_is_sum.

Example total_is_sum_nonvacuous : Qeq_bool (total_rate rs_ex) 3 = true.
Proof. qc. Qed.

(** A cell of rate zero is never selected, for every row and every draw u in (0, 1]. *)
Theorem zero_rate_never : forall (rs : list Q) (tbl : list wrow) (i r : nat) (u : Q),
  (forall x, In x rs -> 0 <= x) -> 0 < qsum rs -> build rs = WOk tbl ->
  nth i rs 0 == 0 -> 0 < u -> u <= 1 -> sample tbl (mean_rate rs) r u <> SOk i.
Proof. exact zero_never. Qed.
Print Assumptions zero_rate_never.

Example zero_rate_never_nonvacuous :
  nth 2 rs_ex 0 == 0 /\
  match build rs_ex with
  | WOk t => existsb (fun row => match row with RPair s _ => Nat.eqb (w_id s) 2 | RSingle x => Nat.eqb (w_id x) 2 end) t = true
  | _ => False end.
Proof. conj; qc. Qed.

(** Finding F5: at the boundary draw u = 0 the statement is false of the faithful model: the row
    whose first entry is a zero-rate cell returns that cell (0 <= 0). *)
Theorem zero_rate_boundary_refuted :
  exists (rs : list Q) (tbl : list wrow) (i r : nat),
    (forall x, In x rs -> 0 <= x) /\ 0 < qsum rs /\ build rs = WOk tbl /\
    nth i rs 0 == 0 /\ sample tbl (mean_rate rs) r 0 = SOk i.
Proof.
  exists [0; 1], [RPair (mkW 0 0) (mkW 1 (1#2)); RSingle (mkW 1 (1#2))], 0%nat, 0%nat.
  conj; try qc.
  intros x H. simpl in H. repeat (destruct H as [<- | H]; [qc|]). contradiction.
Qed.
Print Assumptions zero_rate_boundary_refuted.
