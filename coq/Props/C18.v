(** * Props/C18.v — the alias table selects each cell with probability rate/total.

    Model: JF.Model.Walker (walker.py over Q; items identified by their position in the input;
    draws explicit: [row] = index chosen by random.choice, [u] behind random.uniform(0.0, mean)).
    Vocabulary (JF.Proofs.WalkerProofs):
    - [share i row]: the part of [row]'s mass that belongs to cell [i]; [tshare i tbl]: sum over rows;
    - [row_mass row]; [rows_ok mean tbl]: every pair row is (s, mean - s) with 0 <= s <= mean, every
      single row carries exactly [mean];
    - [sel_len i mean row]: length of the set of draws u in (0,1] for which [row] yields cell [i];
    - [sel_prob i mean tbl = (sum_rows sel_len i mean row) / #rows]: probability of cell [i] over the
      pair of draws (uniform row, uniform u). *)
From Coq Require Import QArith Lqa List Bool ZArith Lia.
Require Import JF.Base.QInterval JF.Model.Lifting JF.Model.Walker JF.Proofs.LiftingProofs JF.Proofs.WalkerProofs.
Import ListNotations.
Open Scope Q_scope.

Ltac conj := repeat match goal with |- _ /\ _ => split end.
Ltac qc := vm_compute; first [reflexivity | congruence | discriminate | lia].

Definition rs_ex : list Q := [3#10; 7#10; 0; 11#10; 1#10; 4#5].

(** The model's fuel always suffices, and for non-negative rates with positive total the
    constructor succeeds: none of the final asserts fails in exact arithmetic (left-over items
    have rate exactly mean). *)
Theorem build_terminates : forall rs : list Q,
  build rs <> WFuel /\
  ((forall r, In r rs -> 0 <= r) -> 0 < qsum rs -> exists tbl, build rs = WOk tbl).
Proof.
  intros rs. split. apply build_no_fuel.
  intros H1 H2. destruct (build_ok rs H1 H2) as [tbl [B _]]. eauto.
Qed.
Print Assumptions build_terminates.

Example build_terminates_nonvacuous :
  (forall r, In r rs_ex -> 0 <= r) /\ 0 < qsum rs_ex /\
  match build rs_ex with WOk t => length t = 6%nat | _ => False end.
Proof.
  conj; try qc. intros r H. simpl in H.
  repeat (destruct H as [<- | H]; [qc|]). contradiction.
Qed.

(** One row per input cell, each of mass exactly mean. *)
Theorem rows_mass : forall (rs : list Q) (tbl : list wrow),
  (forall r, In r rs -> 0 <= r) -> 0 < qsum rs -> build rs = WOk tbl ->
  length tbl = length rs /\ rows_ok (mean_rate rs) tbl /\
  forall row, In row tbl -> row_mass row == mean_rate rs.
Proof.
  intros rs tbl H1 H2 Hb. destruct (build_ok rs H1 H2) as [tbl' [B1 [B2 [B3 B4]]]].
  rewrite Hb in B1. inversion B1; subst tbl'. conj; auto.
  intros row Hr. apply row_ok_mass. auto.
Qed.
Print Assumptions rows_mass.

Example rows_mass_nonvacuous :
  match build rs_ex with
  | WOk t => forallb (fun row => Qeq_bool (row_mass row) (mean_rate rs_ex)) t = true
  | _ => False end.
Proof. qc. Qed.

(** EXACTNESS.  Every cell's shares over all rows add up to its rate; [sample] returns [i] exactly
    for the draws in the intervals whose lengths [sel_len] adds up; hence the probability of cell [i]
    over the two draws is rate_i / total. *)
Theorem alias_exact : forall (rs : list Q) (tbl : list wrow),
  (forall r, In r rs -> 0 <= r) -> 0 < qsum rs -> build rs = WOk tbl ->
  (forall i, tshare i tbl == nth i rs 0) /\
  (forall r u row i, 0 < u -> u <= 1 -> nth_error tbl r = Some row ->
     (sample tbl (mean_rate rs) r u = SOk i <->
      match row with
      | RPair s l => (w_id s = i /\ mem_oc u (mkI 0 (w_rate s / mean_rate rs))) \/
                     (w_id l = i /\ mem_oc u (mkI (w_rate s / mean_rate rs) 1))
      | RSingle it => w_id it = i /\ mem_oc u (mkI 0 (w_rate it / mean_rate rs))
      end)) /\
  (forall i, sel_prob i (mean_rate rs) tbl == nth i rs 0 / total_rate rs).
Proof.
  intros rs tbl H1 H2 Hb. destruct (build_ok rs H1 H2) as [tbl' [B1 [B2 [B3 B4]]]].
  rewrite Hb in B1. inversion B1; subst tbl'. conj; auto.
  - intros. apply sample_spec; auto. apply mean_pos; auto.
  - intros i. apply alias_prob; auto.
Qed.
Print Assumptions alias_exact.

Example alias_exact_nonvacuous :
  match build rs_ex with
  | WOk t => Qeq_bool (tshare 3 t) (11#10) = true /\ Qeq_bool (sel_prob 3 (mean_rate rs_ex) t) (11#30) = true
             /\ sample t (mean_rate rs_ex) 0 (9#10) = SOk 5%nat
  | _ => False end.
Proof. vm_compute. conj; reflexivity. Qed.

(** The reported total is the sum of the rates. *)
Theorem total_is_sum : forall rs : list Q, total_rate rs == qsum rs.
Proof. exact total_rate_qsum. Qed.
Print Assumptions total_is_sum.

Example total_is_sum_nonvacuous : Qeq_bool (total_rate rs_ex) 3 = true.
Proof. qc. Qed.

(** A cell of rate zero is never selected, for every row and every draw u in (0, 1]. *)
Theorem zero_rate_never : forall (rs : list Q) (tbl : list wrow) (i r : nat) (u : Q),
  (forall x, In x rs -> 0 <= x) -> 0 < qsum rs -> build rs = WOk tbl ->
  nth i rs 0 == 0 -> 0 < u -> u <= 1 -> sample tbl (mean_rate rs) r u <> SOk i.
Proof. exact zero_never. Qed.
Print Assumptions zero_rate_never.

Example zero_rate_never_nonvacuous :
  nth 2 rs_ex 0 == 0 /\
  match build rs_ex with
  | WOk t => existsb (fun row => match row with RPair s _ => Nat.eqb (w_id s) 2 | RSingle x => Nat.eqb (w_id x) 2 end) t = true
  | _ => False end.
Proof. conj; qc. Qed.

(** Finding F5: at the boundary draw u = 0 the statement is false of the faithful model: the row
    whose first entry is a zero-rate cell returns that cell (0 <= 0). *)
Theorem zero_rate_boundary_refuted :
  exists (rs : list Q) (tbl : list wrow) (i r : nat),
    (forall x, In x rs -> 0 <= x) /\ 0 < qsum rs /\ build rs = WOk tbl /\
    nth i rs 0 == 0 /\ sample tbl (mean_rate rs) r 0 = SOk i.
Proof.
  exists [0; 1], [RPair (mkW 0 0) (mkW 1 (1#2)); RSingle (mkW 1 (1#2))], 0%nat, 0%nat.
  conj; try qc.
  intros x H. simpl in H. repeat (destruct H as [<- | H]; [qc|]). contradiction.
Qed.
Print Assumptions zero_rate_boundary_refuted.

(** ** Handler glue (Model/CellVeto.v: CellVetoEventHandler.send_event_time on binary64, tied to the code by a
    bit-exact correspondence evaluated in Coq, harness/c18_glue.py).  Vocabulary (JF.Proofs.CellVetoProofs):
    [cv_walker d cf] / [cv_factor cf]: the walker and |charge factor| chosen from the sign of the charge correction
    factor; [value] / [normalised]: exact value and normal form of a time stamp (JF.Proofs.TimeProofs). *)
From Coq Require Import Reals Lra.
From Flocq Require Import Core.Core IEEE754.BinarySingleNaN.
Require Import JF.Base.F64 JF.Model.Time JF.Model.CellIndex JF.Model.CellVeto.
Require Import JF.Proofs.F64Facts JF.Proofs.TimeProofs JF.Proofs.CellIndexProofs JF.Proofs.CellVetoProofs.

(** The candidate event time [stamp + Exp / (total * |factor| * speed)] is a normalised time stamp that is not
    before the active unit's time stamp, for every finite non-negative displacement (C14's add_never_decreases). *)
Theorem event_time_not_before_stamp : forall ns seps d active stamp speed cf row u e t off target ber,
  cv_send_event_time ns seps d active stamp speed cf row u e = CVOk t off target ber ->
  let dsp := cv_displacement e (fst (fst (cv_walker d cf))) (cv_factor cf) speed in
  normalised stamp -> (0 <= B2R (tq stamp))%R -> ffinite dsp = true -> (0 <= B2R dsp)%R ->
  (B2R (tq stamp) + IZR (Zfloor (RN (B2R (tr stamp) + B2R dsp))) <= bpow radix2 53)%R ->
  (value stamp <= value t)%R /\ normalised t.
Proof. exact CellVetoProofs.event_time_not_before_stamp. Qed.
Print Assumptions event_time_not_before_stamp.

Definition cv_dir_ex : cvdir :=
  mkDir [(f_05, f_025); (f_05, fzero)]
        (fone, f_05, [((1%nat, f_05), None); ((0%nat, f_05), None)])
        (f_025, of_bits 0x3FC0000000000000, [((1%nat, fzero), Some (0%nat, of_bits 0x3FC0000000000000)); ((0%nat, of_bits 0x3FC0000000000000), None)]).

Example event_time_not_before_stamp_nonvacuous :
  let dsp := cv_displacement f_05 (fst (fst (cv_walker cv_dir_ex fone))) (cv_factor fone) fone in
  (exists t off target ber,
     cv_send_event_time [4; 5]%Z [[2; 0]; [2; 3]]%Z cv_dir_ex [3; 4]%Z sample_b fone fone 0 f_05 f_05 = CVOk t off target ber) /\
  normalised sample_b /\ (0 <= B2R (tq sample_b))%R /\ ffinite dsp = true /\ (0 <= B2R dsp)%R /\
  (B2R (tq sample_b) + IZR (Zfloor (RN (B2R (tr sample_b) + B2R dsp))) <= bpow radix2 53)%R.
Proof.
  intros dsp. destruct sample_add_hyps as (N & F & P & Q & H).
  assert (E : B2R dsp = B2R f_05) by (apply feqb_bits_B2R; vm_compute; reflexivity).
  split; [|split; [exact N|split; [exact Q|split; [vm_compute; reflexivity|split]]]].
  - apply cv_is_ok_ex. vm_compute. reflexivity.
  - rewrite E. exact P.
  - rewrite E. exact H.
Qed.

(** The proposed target cell is the active cell translated by the sampled offset (a valid cell, and the offset is
    recovered as relative_cell(target, active)); the bound used for the confirmation is the one stored for that
    offset, entry 0 (upper) for a positive charge factor and entry 1 (minus lower) otherwise, times |factor|,
    and it is positive. *)
Theorem target_cell_is_translate : forall ns seps d active stamp speed cf row u e t off target ber,
  cv_send_event_time ns seps d active stamp speed cf row u e = CVOk t off target ber ->
  exists rel b, nth_error seps off = Some rel /\ nth_error (d_bounds d) off = Some b /\
    target = translate ns active rel /\
    (valid ns active -> valid ns rel -> valid ns target /\ relative ns target active = rel) /\
    ber = fmul (bound_at b (if fgt cf fzero then 0 else 1)%nat) (if fgt cf fzero then cf else fmul cf (fopp fone)) /\
    fgt ber fzero = true.
Proof. exact CellVetoProofs.target_and_bound. Qed.
Print Assumptions target_cell_is_translate.

Example target_cell_is_translate_nonvacuous :
  (exists t off ber,
     cv_send_event_time [4; 5]%Z [[2; 0]; [2; 3]]%Z cv_dir_ex [3; 4]%Z sample_b fone (fopp fone) 0 fone f_05
     = CVOk t off [1; 4]%Z ber) /\
  validb [4; 5]%Z [3; 4]%Z = true /\ validb [4; 5]%Z [2; 0]%Z = true.
Proof. split; [apply cv_target_is_ex; vm_compute; reflexivity | split; vm_compute; reflexivity]. Qed.
