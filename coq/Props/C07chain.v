(** * Props/C07chain.v — the single-chain condition follows from a LOCAL contract of each out-state.

    Model/Kinematics.v ([leg_ok]) recomputes the global predicate [chain_ok] on the whole model state
    after every commit.  The theorems below replace that recomputation as the REASON: a boolean contract
    on one out-state ([handover_ok st out], Model/Handover.v: coverage of the leaves that move before,
    and the leaves of the out-state that move after are non-empty, carry one velocity bit for bit, and
    are a single leaf or all leaves of one root node) implies [chain_ok] of the state after the commit,
    by a frame argument: units outside the out-state are unchanged and, by coverage, not moving.
    [handover_run] is the contract on every leg from the start-of-run event on; the whole-run corollary
    uses only that the states are the iterated commits, nothing else of [leg_ok]. *)
From Coq Require Import ZArith QArith Qabs List Bool Permutation.
Require Import JF.Base.F64 JF.Model.Kinematics JF.Proofs.KinematicsProofs JF.Model.Handover
               JF.Model.HandoverCases JF.Proofs.HandoverProofs.
Import ListNotations.

(** (2) local contract => global chain condition after the commit *)
Theorem chain_from_handover : forall st out,
  ids_nodup (map u_id st) = true -> handover_ok st out = true -> chain_ok (commit st out) = true.
Proof. exact chain_from_handover_lemma. Qed.
Print Assumptions chain_from_handover.

(** the moving leaves after the commit ARE the moving leaves of the out-state, all with the velocity
    of the first one *)
Theorem moving_leaves_after_commit : forall st out,
  ids_nodup (map u_id st) = true -> handover_ok st out = true ->
  exists m rest, out_moving_leaves st out = m :: rest /\
    (forall x, In x (moving_leaves (commit st out)) <-> In x (m :: rest)) /\
    (forall y, In y (m :: rest) -> same_vel y m = true).
Proof. exact handover_facts. Qed.
Print Assumptions moving_leaves_after_commit.

(** (3) squared speed: if the common velocity after has the same squared speed as the common velocity
    before, [chain_speed2] is unchanged exactly ... *)
Theorem speed_from_handover : forall st out m rest m0 rest0 va vb,
  ids_nodup (map u_id st) = true -> handover_ok st out = true ->
  out_moving_leaves st out = m :: rest -> u_vel m = Some va ->
  moving_leaves st = m0 :: rest0 -> u_vel m0 = Some vb ->
  (speed2 va == speed2 vb)%Q ->
  exists a b, chain_speed2 (commit st out) = Some a /\ chain_speed2 st = Some b /\ (a == b)%Q.
Proof. exact speed_from_handover_lemma. Qed.
Print Assumptions speed_from_handover.

(** ... which holds when the velocity is handed over bit for bit (all event handlers except end of
    chain), *)
Theorem speed2_same_bits : forall va vb, vel_eqb va vb = true -> (speed2 va == speed2 vb)%Q.
Proof. exact speed2_bits. Qed.
Print Assumptions speed2_same_bits.

(** when its components are permuted (SingleIndependentActivePeriodicDirectionEndOfChainEventHandler:
    the non-zero component moves to the next axis, a cyclic shift), *)
Theorem speed2_permuted : forall va vb, Permutation (map f2q va) (map f2q vb) -> (speed2 va == speed2 vb)%Q.
Proof. exact speed2_perm. Qed.
Print Assumptions speed2_permuted.

(** and when they are permuted up to signs.  (The sequential-direction end-of-chain handler rotates the
    velocity by an angle in floating point: there the squared speed is preserved only up to rounding;
    that case stays with the tolerance [speed_ok] of Model/Kinematics.v.) *)
Theorem speed2_permuted_signed : forall va vb,
  Permutation (map (fun x => Qabs (f2q x)) va) (map (fun x => Qabs (f2q x)) vb) -> (speed2 va == speed2 vb)%Q.
Proof. exact speed2_abs_perm. Qed.
Print Assumptions speed2_permuted_signed.

(** (4) whole runs: if every out-state from the start-of-run event on satisfies the local contract, every
    state after a commit satisfies the chain condition (states = iterated commits) ... *)
Theorem chain_from_handover_run : forall legs st started,
  ids_nodup (map u_id st) = true -> handover_run st started legs = true ->
  Forall (fun p => snd p = true -> chain_ok (fst p) = true) (commit_states st started legs).
Proof. exact chain_from_handover_run_lemma. Qed.
Print Assumptions chain_from_handover_run.

(** ... in particular the states of [run_states_k]: the global recomputation of [chain_ok] in [leg_ok]
    is implied by the local contracts, not assumed (the proof uses of [leg_ok] only that
    [s_units s' = commit (s_units s) (k_out l)] and [s_started s' = s_started s || is_start (k_kind l)]). *)
Theorem run_chain_from_handover : forall Ls n s ls ss,
  ids_nodup (map u_id (s_units s)) = true ->
  run_states_k Ls n s ls = Some ss ->
  handover_run (s_units s) (s_started s) ls = true ->
  Forall (fun s' => s_started s' = true -> chain_ok (s_units s') = true) ss.
Proof. exact run_chain_from_handover_lemma. Qed.
Print Assumptions run_chain_from_handover.

(* ======================================================================================== *)
(** Non-vacuity *)
Definition c0 := 0%Z. Definition c025 := 4598175219545276416%Z. Definition c05 := 4602678819172646912%Z.
Definition c075 := 4604930618986332160%Z. Definition c1 := 4607182418800017408%Z.
Definition t0 : ftime := (of_bits c0, of_bits c0).
Definition un i p v t := {| u_id := i; u_pos := [of_bits p; of_bits p]; u_vel := v; u_ts := t; u_charge := [] |}.
Definition vx := Some [of_bits c1; of_bits c0].      (* velocity (1, 0) *)
Definition vy := Some [of_bits c0; of_bits c1].      (* velocity (0, 1) *)

(** two dipoles; leaf (0,0) is moving (and its root with half the velocity) *)
Definition ex_st : gstate :=
  [ un [0%nat] c025 (Some [of_bits c05; of_bits c0]) (Some t0); un [0%nat; 0%nat] c025 vx (Some t0);
    un [0%nat; 1%nat] c05 None None;
    un [1%nat] c075 None None; un [1%nat; 0%nat] c075 None None; un [1%nat; 1%nat] c075 None None ].

(** a hand-over from leaf (0,0) to leaf (1,1), velocity bit for bit: accepted *)
Definition ex_handover : list unit :=
  [ un [0%nat] c025 None None; un [0%nat; 0%nat] c025 None None;
    un [1%nat] c075 (Some [of_bits c05; of_bits c0]) (Some t0); un [1%nat; 1%nat] c075 vx (Some t0) ].
Example ex_handover_accepted : ids_nodup (map u_id ex_st) = true /\ handover_ok ex_st ex_handover = true
                               /\ chain_ok (commit ex_st ex_handover) = true.
Proof.
  split; [reflexivity|]. split; [vm_compute; reflexivity|].
  apply chain_from_handover; vm_compute; reflexivity.
Qed.

(** a second chain starting: leaf (1,1) starts to move while leaf (0,0) keeps moving — rejected, whether
    the old chain is left out of the out-state (coverage) or carried along (two leaves of two roots) *)
Definition ex_second_a : list unit :=
  [ un [1%nat] c075 (Some [of_bits c05; of_bits c0]) (Some t0); un [1%nat; 1%nat] c075 vx (Some t0) ].
Definition ex_second_b : list unit :=
  [ un [0%nat] c025 (Some [of_bits c05; of_bits c0]) (Some t0); un [0%nat; 0%nat] c025 vx (Some t0);
    un [1%nat] c075 (Some [of_bits c05; of_bits c0]) (Some t0); un [1%nat; 1%nat] c075 vx (Some t0) ].
Example ex_second_chain_rejected :
  handover_ok ex_st ex_second_a = false /\ handover_ok ex_st ex_second_b = false
  /\ chain_ok (commit ex_st ex_second_a) = false /\ chain_ok (commit ex_st ex_second_b) = false.
Proof. vm_compute. repeat split. Qed.

(** a whole composite object takes over (all leaves of root 1), and an end of chain turning the velocity
    from x to y: accepted, squared speed unchanged exactly *)
Definition ex_composite : list unit :=
  [ un [0%nat] c025 None None; un [0%nat; 0%nat] c025 None None;
    un [1%nat] c075 vy (Some t0); un [1%nat; 0%nat] c075 vy (Some t0); un [1%nat; 1%nat] c075 vy (Some t0) ].
Example ex_composite_accepted :
  handover_ok ex_st ex_composite = true /\
  exists a b, chain_speed2 (commit ex_st ex_composite) = Some a /\ chain_speed2 ex_st = Some b /\ (a == b)%Q.
Proof.
  split; [vm_compute; reflexivity|].
  apply (speed_from_handover ex_st ex_composite (un [1%nat; 0%nat] c075 vy (Some t0))
           [un [1%nat; 1%nat] c075 vy (Some t0)] (un [0%nat; 0%nat] c025 vx (Some t0)) []
           [of_bits c0; of_bits c1] [of_bits c1; of_bits c0]); try (vm_compute; reflexivity).
Qed.

Example ex_cyclic_shift : (speed2 [of_bits c0; of_bits c1] == speed2 [of_bits c1; of_bits c0])%Q.
Proof. apply speed2_permuted. simpl. apply (Permutation_app_comm [f2q (of_bits c0)] [f2q (of_bits c1)]). Qed.

(** only one of the two leaves of root 1 moving together with a leaf of root 0: rejected *)
Example ex_partial_rejected :
  handover_ok ex_st [ un [0%nat; 0%nat] c025 vx (Some t0); un [0%nat; 1%nat] c05 vx (Some t0);
                      un [1%nat; 0%nat] c075 vx (Some t0) ] = false.
Proof. vm_compute. reflexivity. Qed.

(** a run: start of run on the resting state, then the hand-over *)
Definition ex_rest : gstate :=
  [ un [0%nat] c025 None None; un [0%nat; 0%nat] c025 None None; un [0%nat; 1%nat] c05 None None;
    un [1%nat] c075 None None; un [1%nat; 0%nat] c075 None None; un [1%nat; 1%nat] c075 None None ].
Definition leg k out := {| k_kind := k; k_cands := []; k_pick := 0%nat; k_time := t0; k_out := out;
                           k_trash := []; k_after := [] |}.
Definition ex_legs := [ leg KStart [ un [0%nat] c025 (Some [of_bits c05; of_bits c0]) (Some t0);
                                     un [0%nat; 0%nat] c025 vx (Some t0) ];
                        leg KInteraction ex_handover ].
Example ex_run : check_hocase {| kc_L := [of_bits c1; of_bits c1]; kc_init := ex_rest; kc_legs := ex_legs |} = true
                 /\ Forall (fun p => snd p = true -> chain_ok (fst p) = true) (commit_states ex_rest false ex_legs)
                 /\ length (commit_states ex_rest false ex_legs) = 2%nat
                 /\ check_hocase {| kc_L := [of_bits c1; of_bits c1]; kc_init := ex_rest;
                                    kc_legs := ex_legs ++ [leg KInteraction [ un [0%nat] c025 (Some [of_bits c05; of_bits c0]) (Some t0);
                                                                               un [0%nat; 0%nat] c025 vx (Some t0) ]] |} = false.
Proof.
  split; [vm_compute; reflexivity|]. split; [|split; [reflexivity | vm_compute; reflexivity]].
  apply chain_from_handover_run; vm_compute; reflexivity.
Qed.
