(** * Props/C20.v — Multi-process mediator commits the same events as the single-process mediator.

    Model: JF.Model.MultiMediator (Level A: the two mediators over abstract oracles; Level B: one pipe with
    its two events and the worker loop run_in_process).  Proofs: JF.Proofs.MultiMediatorProofs.

    Hypothesis [sp_run_wf n s_init = true] (decidable, about the single-process reference run only):
    in each of the n legs the activator names every handler at most once and only handlers without a
    pending event, the scheduler is not empty, the selected candidate time is strictly smaller than every
    other pending candidate time (see tie_sensitivity_refuted), and the committing handler is among its own
    trashable events.  Out-state computations are functions of the in-state ([out_state] oracle): this is
    the "draws no random numbers" clause of the property.  The schedule argument ranges over ALL lists of
    batches of pipe indices. *)
From Coq Require Import List ZArith Bool Arith.
Require Import JF.Model.MultiMediator JF.Proofs.MultiMediatorProofs.
Import ListNotations.

(** ** commit_equivalence: same committed (handler, time, out-state) sequence, for every arrival schedule,
    every core count, every number of legs. *)
Theorem commit_equivalence :
  forall (OS : Type) (ncores : nat) (has_args : H -> bool) (to_run : hist OS -> list H)
         (ev_time : H -> hist OS -> Z) (out_state : H -> hist OS -> hist OS -> OS)
         (trash_of : hist OS -> list H) (n : nat) (sched : list (list (list H))),
    sp_run_wf OS has_args to_run ev_time out_state trash_of n (s_init OS) = true ->
    exists m' s',
      mp_run OS ncores has_args to_run ev_time out_state trash_of n sched (m_init OS) = inl m' /\
      sp_run OS has_args to_run ev_time out_state trash_of n (s_init OS) = inl s' /\
      m_hist OS m' = s_hist OS s'.
Proof. exact commit_equivalence_thm. Qed.
Print Assumptions commit_equivalence.

Example commit_equivalence_nonvacuous :
  Witness.w_sp_wf 5 = true /\
  commits_of_m Z (Witness.w_mp 4 5 Witness.w_sched) = commits_of_s Z (Witness.w_sp 5) /\
  length (match commits_of_s Z (Witness.w_sp 5) with Some l => l | None => [] end) = 5.
Proof. vm_compute. repeat split. Qed.

(** Same samples: the writes are a function of the commit sequence. *)
Theorem writes_equivalence :
  forall (OS : Type) (ncores : nat) (has_args : H -> bool) (to_run : hist OS -> list H)
         (ev_time : H -> hist OS -> Z) (out_state : H -> hist OS -> hist OS -> OS)
         (trash_of : hist OS -> list H) (writes_output : H -> bool) (n : nat) (sched : list (list (list H))),
    sp_run_wf OS has_args to_run ev_time out_state trash_of n (s_init OS) = true ->
    exists m' s',
      mp_run OS ncores has_args to_run ev_time out_state trash_of n sched (m_init OS) = inl m' /\
      sp_run OS has_args to_run ev_time out_state trash_of n (s_init OS) = inl s' /\
      writes_of OS writes_output (m_hist OS m') = writes_of OS writes_output (s_hist OS s').
Proof. exact writes_equal_thm. Qed.
Print Assumptions writes_equivalence.

Example writes_equivalence_nonvacuous :
  match Witness.w_mp 4 5 Witness.w_sched with
  | inl m => length (writes_of Z (fun h => Nat.eqb h 2) (m_hist Z m)) = 1
  | inr _ => False
  end.
Proof. vm_compute. reflexivity. Qed.

(** ** no_protocol_error (mediator level): for every schedule the multi-process run reaches no MediatorError
    ("Event Process not ready!"), no empty scheduler, no missing entry of _out_states and no failed
    idle-assert: [mp_run] returns [inl].  (The "already finished" branch is Level B: channel_safe.) *)
Theorem no_protocol_error :
  forall (OS : Type) (ncores : nat) (has_args : H -> bool) (to_run : hist OS -> list H)
         (ev_time : H -> hist OS -> Z) (out_state : H -> hist OS -> hist OS -> OS)
         (trash_of : hist OS -> list H) (n : nat) (sched : list (list (list H))),
    sp_run_wf OS has_args to_run ev_time out_state trash_of n (s_init OS) = true ->
    exists m', mp_run OS ncores has_args to_run ev_time out_state trash_of n sched (m_init OS) = inl m'.
Proof. exact no_error_thm. Qed.
Print Assumptions no_protocol_error.

Example no_protocol_error_nonvacuous :
  exists m', Witness.w_mp 3 5 [[[3; 2]; [1]; [0]]; []; [[1]]]%nat = inl m' /\ m_skip Z m' = 0.
Proof. eexists. vm_compute. split; reflexivity. Qed.

(** While the receive loop still misses an event time, some pipe of the leg has an outstanding event-time
    request — after any sequence of arrivals.  Together with worker_answers: connection.wait returns. *)
Theorem wait_never_starves :
  forall (OS : Type) (ncores : nat) (has_args : H -> bool) (to_run : hist OS -> list H)
         (ev_time : H -> hist OS -> Z) (out_state : H -> hist OS -> hist OS -> OS)
         (trash_of : hist OS -> list H) (m : mstate OS) (s : sstate OS) (choices : list H),
    R OS has_args out_state m s ->
    sp_leg_wf OS has_args to_run ev_time out_state trash_of s = true ->
    let hist0 := m_hist OS m in
    let pipes := to_run hist0 in
    exists m1, fold_left (m_start OS hist0) pipes (inl m) = inl m1 /\
               let l := process_batch OS ncores has_args ev_time out_state hist0 pipes (length pipes) choices
                                      (mkL OS m1 [] 0) in
               l_rec OS l < length pipes -> exists p, In p pipes /\ m_stg OS (l_m OS l) p = ETS.
Proof. exact wait_never_starves_thm. Qed.
Print Assumptions wait_never_starves.

Example wait_never_starves_nonvacuous :
  R Z Witness.w_has_args Witness.w_out_state (m_init Z) (s_init Z) /\
  sp_leg_wf Z Witness.w_has_args Witness.w_to_run Witness.w_ev_time Witness.w_out_state Witness.w_trash_of
            (s_init Z) = true.
Proof. split; [exact (R_init Z Witness.w_has_args Witness.w_out_state) | vm_compute; reflexivity]. Qed.

(** ** Level B: every interleaving of mediator actions (with the guards of the code) and worker steps, on
    one pipe: neither the worker's error branches / asserts nor the mediator's "already finished" branch are
    reachable; a pipe holds an object only while the stage announces it (and of the announced kind); an idle
    or suspended worker is blocked and its pipe is empty. *)
Theorem channel_safe :
  forall (ne no : bool) (l : list act),
    let c := crun ne no l chan_init in
    k_werr c = false /\ k_merr c = false /\ k_start c && k_cont c = false /\
    (k_out c <> [] -> (k_stage c = ETS /\ k_out c = [MTime]) \/ (k_stage c = OSS /\ k_out c = [MOut])) /\
    ((k_stage c = Idle \/ k_stage c = Susp) -> k_out c = [] /\ wstep ne no c = None).
Proof. exact channel_safe_thm. Qed.
Print Assumptions channel_safe.

Example channel_safe_nonvacuous :
  let c := crun true true [AM AStart; AW; AW; AM ARecv; AM ACont; AW; AW; AM ABlockRecv; AM AStart; AW; AW] chan_init in
  k_stage c = ETS /\ k_pc c = W1 /\ k_out c = [MTime] /\ k_args c = 0.
Proof. vm_compute. repeat split. Qed.

(** The worker answers every request within three steps, none of which blocks. *)
Theorem worker_answers :
  forall (ne no : bool) (l : list act),
    let c := crun ne no l chan_init in
    (k_stage c = ETS \/ k_stage c = OSS) -> exists k, k <= 3 /\ k_out (wsteps ne no k c) <> [].
Proof. exact worker_answers_thm. Qed.
Print Assumptions worker_answers.

Example worker_answers_nonvacuous :
  let c := crun true false [AM AStart; AW; AW; AM ARecv; AM ATrashSusp; AM AStart] chan_init in
  k_stage c = ETS /\ k_pc c = W1 /\ k_out (wsteps true false 2 c) = [] /\ k_out (wsteps true false 3 c) = [MTime].
Proof. vm_compute. repeat split. Qed.

(** ** precomputed_used_or_discarded: at every leg boundary an out-state kept in _out_states belongs to a
    handler whose event is still pending (it was not trashed since the request: a trashed handler's
    pre-computed out-state has been discarded), the handler has no out-state arguments and is idle, and the
    stored out-state is the one of the handler's latest in-state.  (That every committed out-state is the
    single-process one is commit_equivalence.) *)
Theorem precomputed_used_or_discarded :
  forall (OS : Type) (ncores : nat) (has_args : H -> bool) (to_run : hist OS -> list H)
         (ev_time : H -> hist OS -> Z) (out_state : H -> hist OS -> hist OS -> OS)
         (trash_of : hist OS -> list H) (n : nat) (sched : list (list (list H))) (m' : mstate OS),
    sp_run_wf OS has_args to_run ev_time out_state trash_of n (s_init OS) = true ->
    mp_run OS ncores has_args to_run ev_time out_state trash_of n sched (m_init OS) = inl m' ->
    forall h os, m_ost OS m' h = Some os ->
                 In h (map fst (m_pend OS m')) /\ has_args h = false /\ m_stg OS m' h = Idle /\
                 os = out_state h (m_het OS m' h) (m_het OS m' h).
Proof. exact precomputed_thm. Qed.
Print Assumptions precomputed_used_or_discarded.

Example precomputed_nonvacuous :
  (* 4 cores; in leg 1 the out-states of 0 and 2 are started ahead and the one of 2 also arrives ahead *)
  exists m', Witness.w_mp 4 1 [[[0]; [2]; [1]; [2; 3]]]%nat = inl m' /\
             m_ost Z m' 2%nat = Some 2000%Z /\ m_ost Z m' 0%nat = None.
Proof. eexists. vm_compute. repeat split. Qed.

(** ** workers_idle_at_commit: what holds — no handler is in stage event_time_started at a leg boundary, and
    every handler without a pending event (never started, or trashed: in particular the handler that just
    committed) is idle with no stored out-state ... *)
Theorem stages_at_leg_boundary :
  forall (OS : Type) (ncores : nat) (has_args : H -> bool) (to_run : hist OS -> list H)
         (ev_time : H -> hist OS -> Z) (out_state : H -> hist OS -> hist OS -> OS)
         (trash_of : hist OS -> list H) (n : nat) (sched : list (list (list H))) (m' : mstate OS),
    sp_run_wf OS has_args to_run ev_time out_state trash_of n (s_init OS) = true ->
    mp_run OS ncores has_args to_run ev_time out_state trash_of n sched (m_init OS) = inl m' ->
    forall h, m_stg OS m' h <> ETS /\
              (~ In h (map fst (m_pend OS m')) -> m_stg OS m' h = Idle /\ m_ost OS m' h = None).
Proof. exact stages_at_leg_boundary_thm. Qed.
Print Assumptions stages_at_leg_boundary.

Example stages_at_leg_boundary_nonvacuous :
  exists m', Witness.w_mp 4 2 Witness.w_sched = inl m' /\ m_stg Z m' 1%nat = Idle /\ m_stg Z m' 3%nat = Susp.
Proof. eexists. vm_compute. repeat split. Qed.

(** ... but NOT "all workers idle at a commit": a worker whose out-state was started ahead may still be
    computing (stage out_state_started) when another handler commits. *)
Theorem workers_idle_at_commit_refuted :
  exists (ncores : nat) (sched : list (list (list H))) (m' : mstate Z),
    Witness.w_sp_wf 1 = true /\
    mp_run Z ncores Witness.w_has_args Witness.w_to_run Witness.w_ev_time Witness.w_out_state Witness.w_trash_of
           1 sched (m_init Z) = inl m' /\
    m_stg Z m' 2 = OSS.
Proof.
  exists 4, Witness.w_sched. eexists. vm_compute. repeat split.
Qed.
Print Assumptions workers_idle_at_commit_refuted.

(** ** tie_sensitivity_refuted: without the strict-minimum hypothesis the statement is false of the faithful
    model — with two equal candidate times the arrival order decides which handler the scheduler returns
    (one schedule agrees with the single-process mediator, another does not). *)
Theorem tie_sensitivity_refuted :
  exists (ncores : nat) (has_args : H -> bool) (to_run : hist Z -> list H) (ev_time : H -> hist Z -> Z)
         (out_state : H -> hist Z -> hist Z -> Z) (trash_of : hist Z -> list H) (n : nat)
         (sched1 sched2 : list (list (list H))),
    commits_of_m Z (mp_run Z ncores has_args to_run ev_time out_state trash_of n sched1 (m_init Z)) =
    commits_of_s Z (sp_run Z has_args to_run ev_time out_state trash_of n (s_init Z)) /\
    commits_of_m Z (mp_run Z ncores has_args to_run ev_time out_state trash_of n sched2 (m_init Z)) <>
    commits_of_s Z (sp_run Z has_args to_run ev_time out_state trash_of n (s_init Z)) /\
    commits_of_m Z (mp_run Z ncores has_args to_run ev_time out_state trash_of n sched2 (m_init Z)) <> None.
Proof.
  exists 2, Witness.w_has_args, Witness.w_to_run, Witness.t_ev_time, Witness.w_out_state, Witness.w_trash_of, 1,
         [[[0]; [1]; [2]; [3]]], [[[1]; [0]; [2]; [3]]].
  vm_compute. repeat split; intro Hc; discriminate Hc.
Qed.
Print Assumptions tie_sensitivity_refuted.
