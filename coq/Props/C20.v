(** Placeholder until the proofs land. *)
Require Import JF.Model.MultiMediator JF.Model.MultiMediatorCases.
