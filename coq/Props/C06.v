(** * Props/C06.v — Scheduler always yields a live event with the smallest candidate time.

    Instance: keys = (quotient, remainder) pairs of binary64 ([fkey]) compared by [fkey_lt] =
    heap.c's / Time.__lt__'s quotient-then-remainder comparison ([JF.Model.Time.c_time_lt]);
    [good_key] = no NaN component.  [le a b] means [fkey_lt b a = false] ("b is not smaller").
    A result [None] of a model function = invalid memory access (index outside the allocation or read
    of an uninitialised cell) or a loop running out of fuel; [ExMemory] = MemoryError in Python.
    Excluded by hypothesis: NaN times, realloc failure, >= 2^31 heap entries (uint wrap of length/size). *)
From Coq Require Import List Arith Bool NArith ZArith Lia.
Require Import JF.Base.F64 JF.Model.Time JF.Model.Heap JF.Model.Sched.
Require Import JF.Proofs.HeapProofs JF.Proofs.SchedProofs.
Import ListNotations.

(** heap_inv (sentinel at 0, length + 1 <= size, every cell 1..length-1 initialised with a non-NULL
    handler, heap order key(i/2) <= key(i)) is preserved by insert, across the first allocation and every
    doubling; the call performs no invalid memory access; the stored entries are the old ones plus the new one. *)
Theorem heap_inv_insert : forall h k hd c,
  heap_inv fkey fkey_lt fkey_bot good_key h -> good_key k ->
  exists h', insert fkey fkey_lt fkey_bot h k hd c = Some h' /\
    heap_inv fkey fkey_lt fkey_bot good_key h' /\
    (forall e, In_heap fkey h' e <-> e = mkE k (Some hd) c \/ In_heap fkey h e) /\
    hsize h <= hsize h' /\ 2 <= hlen h' /\ hlen h' = (if hlen h =? 0 then 2 else S (hlen h)).
Proof. exact (insert_spec fkey fkey_lt fkey_bot good_key fkey_asym fkey_le_trans fkey_bot_least fkey_bot_good). Qed.
Print Assumptions heap_inv_insert.

(** root (lazy deletion driven by an arbitrary validity callback [cb], [cb e = true] = "dead"):
    no invalid memory access, invariant preserved, only dead entries are dropped, and the entry
    returned is live and <= every live entry of the heap; if every entry is dead the sentinel
    {-inf, -inf, NULL} is returned. *)
Theorem root_min_live : forall cb h,
  heap_inv fkey fkey_lt fkey_bot good_key h ->
  exists h' r, root fkey fkey_lt fkey_bot cb h = Some (h', r) /\
    heap_inv fkey fkey_lt fkey_bot good_key h' /\ hsize h' = hsize h /\
    (forall e, In_heap fkey h' e -> In_heap fkey h e) /\
    (forall e, In_heap fkey h e -> cb e = false -> In_heap fkey h' e) /\
    (((forall e, In_heap fkey h e -> cb e = true) /\ r = sentinel fkey_bot) \/
     (In_heap fkey h r /\ cb r = false /\ ehd r <> None /\
      forall e, In_heap fkey h e -> cb e = false -> le fkey fkey_lt (ekey r) (ekey e))).
Proof. exact (root_spec fkey fkey_lt fkey_bot good_key fkey_asym fkey_le_trans fkey_bot_least). Qed.
Print Assumptions root_min_live.

(** delete_events (counter-overflow branch): removes exactly the entries of the handler and
    re-establishes the heap order (Floyd heapify through bubble_down); no invalid memory access. *)
Theorem heap_inv_delete_events : forall h hd,
  heap_inv fkey fkey_lt fkey_bot good_key h ->
  exists h', delete_events fkey fkey_lt h hd = Some h' /\
    heap_inv fkey fkey_lt fkey_bot good_key h' /\ hsize h' = hsize h /\
    (forall e, In_heap fkey h' e <-> In_heap fkey h e /\ ehd e <> Some hd).
Proof. exact (delete_events_spec fkey fkey_lt fkey_bot good_key fkey_asym fkey_le_trans fkey_bot_least). Qed.
Print Assumptions heap_inv_delete_events.

(** no_oob: for ALL operation sequences (push / trash / get / pickle / counter bump, any handlers,
    any number of reallocations, counters beyond 2^32, pickling anywhere) the HeapScheduler model never
    performs an invalid memory access, never raises MemoryError, and ends in a state satisfying heap_inv. *)
Theorem no_oob : forall ops, Forall (good_op fkey good_key) ops ->
  exists s outs, hs_run fkey fkey_lt fkey_bot fkey_inf (hs_init fkey fkey_bot) ops = Some (s, outs) /\
    heap_inv fkey fkey_lt fkey_bot good_key (hs_heap s) /\ length outs = length ops.
Proof. exact (no_oob_run fkey fkey_lt fkey_bot fkey_inf good_key fkey_asym fkey_le_trans fkey_bot_least fkey_bot_good). Qed.
Print Assumptions no_oob.

(** sched_min_live: after ANY operation sequence, get_succeeding_event of the heap scheduler returns a
    handler hd with time t such that (t, hd) is a live event of the reference list l (pushed, not
    trashed since: trashed events are never returned), t is finite (< inf) and minimal among the finite
    live events — unless t is smaller than the last returned time (SchedulerError of the monotonicity
    guard) or no finite live event exists (SchedulerError "empty"). *)
Theorem sched_min_live : forall ops, Forall (good_op fkey good_key) ops ->
  exists s outs, hs_run fkey fkey_lt fkey_bot fkey_inf (hs_init fkey fkey_bot) ops = Some (s, outs) /\
    heap_inv fkey fkey_lt fkey_bot good_key (hs_heap s) /\
    let l := rs_live (fst (rs_run fkey fkey_lt (rs_init fkey fkey_bot) ops)) in
    exists s' out, hs_get fkey fkey_lt fkey_bot s = Some (s', out) /\
      heap_inv fkey fkey_lt fkey_bot good_key (hs_heap s') /\
      (((forall x, In x l -> ~ finite fkey fkey_lt fkey_inf (fst x)) /\ out = OExc ExEmpty) \/
       (exists t hd, In (t, hd) l /\ finite fkey fkey_lt fkey_inf t /\
          (forall x, In x l -> finite fkey fkey_lt fkey_inf (fst x) -> le fkey fkey_lt t (fst x)) /\
          ((fkey_lt t (hs_last s) = true /\ out = OExc ExDecreasing) \/
           (fkey_lt t (hs_last s) = false /\ out = OGot hd t)))).
Proof. exact (get_after_run fkey fkey_lt fkey_bot fkey_inf good_key fkey_asym fkey_le_trans fkey_bot_least fkey_bot_good). Qed.
Print Assumptions sched_min_live.

(** empty_error: with no finite live event the heap scheduler raises the "empty" SchedulerError;
    the list scheduler raises it when it holds no event. *)
Theorem empty_error : forall ops, Forall (good_op fkey good_key) ops ->
  (forall x, In x (rs_live (fst (rs_run fkey fkey_lt (rs_init fkey fkey_bot) ops))) ->
             ~ finite fkey fkey_lt fkey_inf (fst x)) ->
  exists s outs s', hs_run fkey fkey_lt fkey_bot fkey_inf (hs_init fkey fkey_bot) ops = Some (s, outs) /\
                    hs_get fkey fkey_lt fkey_bot s = Some (s', OExc ExEmpty).
Proof. exact (empty_error_run fkey fkey_lt fkey_bot fkey_inf good_key fkey_asym fkey_le_trans fkey_bot_least fkey_bot_good). Qed.
Print Assumptions empty_error.

Theorem empty_error_list : forall last, snd (ls_get fkey fkey_lt (mkLS [] last)) = OExc ExEmpty.
Proof. exact (ls_get_empty fkey fkey_lt). Qed.
Print Assumptions empty_error_list.

(** infinite_never_first (list scheduler; for the heap scheduler it is part of sched_min_live): if a
    finite event is stored, the returned event is stored, minimal, and finite. *)
Theorem infinite_never_first : forall ls,
  all_good fkey good_key (ls_times ls) ->
  (exists x, In x (ls_times ls) /\ finite fkey fkey_lt fkey_inf (fst x)) ->
  forall hd t, snd (ls_get fkey fkey_lt ls) = OGot hd t ->
    finite fkey fkey_lt fkey_inf t /\ In (t, hd) (ls_times ls) /\
    forall y, In y (ls_times ls) -> le fkey fkey_lt t (fst y).
Proof. exact (ls_get_finite fkey fkey_lt fkey_inf good_key fkey_asym fkey_le_trans fkey_inf_good). Qed.
Print Assumptions infinite_never_first.

(** refine_ref_heap: for every operation sequence in which pushed times are not NaN and every get is
    asked while a finite live event exists, HeapScheduler and RefSched produce, operation by operation,
    the same exceptions and equivalent times ([keq]: neither smaller = numerically equal quotient and
    remainder).  No restriction on the number of live events per handler. *)
Theorem refine_ref_heap : forall ops,
  proto_run fkey fkey_lt (proto fkey fkey_lt fkey_inf good_key) (rs_init fkey fkey_bot) ops ->
  exists s outs, hs_run fkey fkey_lt fkey_bot fkey_inf (hs_init fkey fkey_bot) ops = Some (s, outs) /\
                 Forall2 (out_equiv fkey fkey_lt) outs (snd (rs_run fkey fkey_lt (rs_init fkey fkey_bot) ops)).
Proof. exact (heap_refines_ref_init fkey fkey_lt fkey_bot fkey_inf good_key fkey_asym fkey_le_trans fkey_bot_least fkey_bot_good fkey_inf_good). Qed.
Print Assumptions refine_ref_heap.

(** refine_ref: under the mediator protocol (additionally: at most one live event per handler, trash
    only live handlers) all three agree for every history: heap scheduler ~ reference (equivalent times,
    same exceptions), list scheduler = reference (identical outcomes). *)
Theorem refine_ref : forall ops,
  proto_run fkey fkey_lt (fun rs o => proto fkey fkey_lt fkey_inf good_key rs o /\ lproto fkey rs o)
            (rs_init fkey fkey_bot) ops ->
  exists s outs_h, hs_run fkey fkey_lt fkey_bot fkey_inf (hs_init fkey fkey_bot) ops = Some (s, outs_h) /\
    Forall2 (out_equiv fkey fkey_lt) outs_h (snd (rs_run fkey fkey_lt (rs_init fkey fkey_bot) ops)) /\
    snd (ls_run fkey fkey_lt (ls_init fkey fkey_bot) ops) = snd (rs_run fkey fkey_lt (rs_init fkey fkey_bot) ops).
Proof. exact (refine_all fkey fkey_lt fkey_bot fkey_inf good_key fkey_asym fkey_le_trans fkey_bot_least fkey_bot_good fkey_inf_good). Qed.
Print Assumptions refine_ref.

(** pickle_roundtrip: __getstate__ reads the array l; __setstate__ rebuilds a heap from l whose array,
    read the same way, is again exactly l (level-order re-insertion never bubbles). *)
Theorem pickle_roundtrip : forall h, heap_inv fkey fkey_lt fkey_bot good_key h ->
  exists l h', getstate_loop fkey fkey_bot (S (hlen h)) h 0 = Some l /\
               rebuild fkey fkey_lt fkey_bot empty_heap l = Some h' /\
               heap_inv fkey fkey_lt fkey_bot good_key h' /\
               getstate_loop fkey fkey_bot (S (hlen h')) h' 0 = Some l.
Proof. exact (pickle_exact fkey fkey_lt fkey_bot good_key fkey_asym fkey_le_trans fkey_bot_least fkey_bot_good). Qed.
Print Assumptions pickle_roundtrip.

(** ** Non-vacuity: concrete histories (times 1.0 + 0.5, 1.0 + 0.0, 2.0 + 0.25, inf) *)
Definition t15 : fkey := (of_bits 4607182418800017408, of_bits 4602678819172646912).
Definition t10 : fkey := (of_bits 4607182418800017408, of_bits 0).
Definition t225 : fkey := (of_bits 4611686018427387904, of_bits 4598175219545276416).
Definition ex_ops : list (op fkey) :=
  [OpPush t15 3%N; OpPush t10 2%N; OpPush fkey_inf 7%N; OpGet; OpTrash 2%N; OpPickle; OpGet; OpTrash 3%N;
   OpBump 3%N 4294967296%N; OpPush t225 3%N; OpGet].

Example ex_good : Forall (good_op fkey good_key) ex_ops.
Proof. repeat constructor. Qed.

(** the run exists, goes through the overflow branch (counter of handler 3 is 2^32 + 1 at the last push,
    reset to 0) and returns handlers 2, 3, 3 *)
Example no_oob_nonvacuous :
  exists s, hs_run fkey fkey_lt fkey_bot fkey_inf (hs_init fkey fkey_bot) ex_ops =
    Some (s, [ONone; ONone; ONone; OGot 2%N t10; ONone; ONone; OGot 3%N t15; ONone; ONone; ONone; OGot 3%N t225])
    /\ hlen (hs_heap s) = 2 /\ hs_mvc s 3%N = 0%N /\ hs_mvc s 2%N = 1%N.
Proof. eexists. vm_compute. repeat split. Qed.

Example refine_ref_nonvacuous :
  proto_run fkey fkey_lt (fun rs o => proto fkey fkey_lt fkey_inf good_key rs o /\ lproto fkey rs o)
            (rs_init fkey fkey_bot) ex_ops.
Proof.
  vm_compute. repeat split; try (intros H; repeat (destruct H as [H|H]; try discriminate H); exact H);
    try (right; intros H; repeat (destruct H as [H|H]; try discriminate H); exact H).
  all: first [ solve [eexists; split; [left; reflexivity | vm_compute; reflexivity]]
             | solve [eexists; split; [right; left; reflexivity | vm_compute; reflexivity]]
             | solve [left; reflexivity] | solve [right; left; reflexivity] ].
Qed.

(** a heap satisfying heap_inv with 3 stored entries exists; its root is live-minimal for a callback
    that declares handler 2 dead *)
Example root_min_live_nonvacuous :
  exists h h' r, heap_inv fkey fkey_lt fkey_bot good_key h /\ hlen h = 4 /\
    root fkey fkey_lt fkey_bot (fun e => hd_eqb (ehd e) (Some 2%N)) h = Some (h', r) /\
    ehd r = Some 3%N /\ hlen h' = 3.
Proof.
  destruct (no_oob [OpPush t15 3%N; OpPush t10 2%N; OpPush t225 5%N] ltac:(repeat constructor))
    as (s & outs & Hrun & Hinv & _).
  vm_compute in Hrun. inversion Hrun; subst s. clear Hrun.
  eexists _, _, _. split; [exact Hinv|]. vm_compute. repeat split.
Qed.

Example pickle_roundtrip_nonvacuous :
  exists s s', hs_run fkey fkey_lt fkey_bot fkey_inf (hs_init fkey fkey_bot)
                 [OpPush t15 3%N; OpPush t10 2%N; OpPush t225 5%N; OpTrash 2%N] = Some (s, [ONone; ONone; ONone; ONone]) /\
    hs_pickle fkey fkey_lt fkey_bot s = Some s' /\
    hs_getstate fkey fkey_bot s' = hs_getstate fkey fkey_bot s /\
    hs_getstate fkey fkey_bot s = Some [mkE t10 (Some 2%N) 0%N; mkE t15 (Some 3%N) 0%N; mkE t225 (Some 5%N) 0%N].
Proof. eexists _, _. vm_compute. repeat split. Qed.

Example empty_error_nonvacuous :
  exists s, hs_run fkey fkey_lt fkey_bot fkey_inf (hs_init fkey fkey_bot)
              [OpPush fkey_inf 1%N; OpPush t10 2%N; OpTrash 2%N; OpGet] =
            Some (s, [ONone; ONone; ONone; OExc ExEmpty]) /\
    snd (ls_run fkey fkey_lt (ls_init fkey fkey_bot) [OpPush fkey_inf 1%N; OpPush t10 2%N; OpTrash 2%N; OpGet]) =
      [ONone; ONone; ONone; OGot 1%N fkey_inf].
Proof. eexists. vm_compute. repeat split. Qed.
