(** * Props/C17count.v — the number of samples written is the number of sampling times before the end.

    Model: [JF.Model.SampleCount] (pending sample = last sample + interval, end = from_float end_time,
    the earliest candidate is committed).  Tie to the code: harness/c17.py replays the committed legs
    of every traced run that has a fixed-interval handler and a configured end time through
    [check_ncase] inside Coq. *)
From Coq Require Import ZArith Bool List Reals.
From Flocq Require Import Core.Core IEEE754.BinarySingleNaN.
Require Import JF.Base.F64 JF.Model.Time JF.Model.Kinematics JF.Model.Sampling JF.Model.SampleCount
               JF.Proofs.F64Facts JF.Proofs.TimeProofs JF.Proofs.SamplingProofs JF.Proofs.SampleCountProofs.
Import ListNotations.

(** Accepted runs of any length: every sample written (the k-th, k = 1 .. number of sampling legs) was
    due no later than the end of the run, and when the end of the run is committed the next sample
    was not due before it — so the number of samples is the number of sampling times before the end
    (a sampling time exactly equal to the end time may fall on either side). *)
Theorem sample_count :
  forall c : ncase, check_ncase c = true ->
  (forall k, (1 <= k <= count_samples (n_legs c))%nat ->
     time_le (nth_time (ft (n_t0 c)) (n_dt c) k) (from_float (n_end c)) = true) /\
  (forall pre T, n_legs c = pre ++ [(2%nat, T)] ->
     time_le (from_float (n_end c)) (nth_time (ft (n_t0 c)) (n_dt c) (S (count_samples pre))) = true).
Proof. exact accepted_sample_count. Qed.
Print Assumptions sample_count.

(** The same as inequalities between real numbers (the values of the quotient/remainder times). *)
Theorem sample_count_real :
  forall c : ncase, check_ncase c = true ->
  normalised (ft (n_t0 c)) -> ffinite (n_dt c) = true -> (0 <= B2R (n_dt c))%R ->
  ffinite (n_end c) = true -> (0 <= B2R (n_end c))%R ->
  (forall j, side (nth_time (ft (n_t0 c)) (n_dt c) j) (n_dt c)) ->
  (forall k, (1 <= k <= count_samples (n_legs c))%nat ->
     (value (nth_time (ft (n_t0 c)) (n_dt c) k) <= B2R (n_end c))%R) /\
  (forall pre T, n_legs c = pre ++ [(2%nat, T)] ->
     (B2R (n_end c) <= value (nth_time (ft (n_t0 c)) (n_dt c) (S (count_samples pre))))%R).
Proof. exact accepted_sample_count_real. Qed.
Print Assumptions sample_count_real.

(** Non-vacuity: interval 0.25, end time 0.75 (0x3FE8...): another event at 0.1-ish, samples at 0.25,
    0.5, 0.75 and the end at 0.75 are accepted (3 samples; the tie at 0.75 went to the sample); a run
    that ends after two samples although the third was due at 0.75 <= ... is accepted only if the end
    is not later than the next sample; a run that skips the sample at 0.5 is rejected. *)
Definition z0 := 0%Z. Definition z025 := 4598175219545276416%Z. Definition z05 := 4602678819172646912%Z.
Definition z075 := 4604930618986332160%Z. Definition z01 := 4591870180066957722%Z.
Definition T (r : Z) : ftime := (of_bits z0, of_bits r).
Example ex_count_ok :
  check_ncase {| n_dt := of_bits z025; n_t0 := T z0; n_end := of_bits z075;
                 n_legs := [(0%nat, T z0); (0%nat, T z01); (1%nat, T z025); (1%nat, T z05); (1%nat, T z075);
                            (2%nat, T z075)] |} = true.
Proof. vm_compute. reflexivity. Qed.
Example ex_count_skipped :
  check_ncase {| n_dt := of_bits z025; n_t0 := T z0; n_end := of_bits z075;
                 n_legs := [(1%nat, T z025); (1%nat, T z075); (2%nat, T z075)] |} = false.
Proof. vm_compute. reflexivity. Qed.
Example ex_count_end_too_late :
  check_ncase {| n_dt := of_bits z025; n_t0 := T z0; n_end := of_bits z075;
                 n_legs := [(1%nat, T z025); (2%nat, T z075)] |} = false.
Proof. vm_compute. reflexivity. Qed.
Example ex_count_late_other :
  check_ncase {| n_dt := of_bits z025; n_t0 := T z0; n_end := of_bits z075;
                 n_legs := [(0%nat, T z05)] |} = false.
Proof. vm_compute. reflexivity. Qed.
