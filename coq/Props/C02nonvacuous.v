(** * Props/C02nonvacuous.v — the non-vacuity examples of Props/C02.v whose proofs use Coq-Interval (directly, or through
    the [resolve] tactic of Model/PotentialsRCases.v, which decides every branch condition of the modelled displacement
    function with [interval]).  They are kept in a file of their own: coqchk re-evaluates Coq-Interval's reflexive
    proofs without the VM and does not finish them within 50 minutes, so this file is checked by coqc only, while
    Props/C02.v (all theorems of the property) and everything it depends on is re-checked by coqchk like every other
    Props module. *)
From Coq Require Import Reals Lra.
From Coquelicot Require Import Coquelicot.
From Interval Require Import Tactic.
Require Import JF.Model.PotentialsR JF.Model.CoulombBoundR JF.Model.PotentialsRCases JF.Proofs.PotentialsRProofs.
Open Scope R_scope.

Example displacement_inverts_inverse_power_nonvacuous :
  sv_displacement (ip_displacement 6 1 1 1 (1 / 4) 1 1) 2 <> None.
Proof. resolve. unfold_leaves. discriminate. Qed.

Example displacement_inverts_inverse_power_nonvacuous_attractive :
  sv_displacement (ip_displacement 1 1 1 (-1) (1 / 4) 1 1) 2 <> None.
Proof. resolve. unfold_leaves. discriminate. Qed.

Example infinite_iff_never_reached_inverse_power_nonvacuous :
  sv_displacement (ip_displacement 6 1 1 1 (1 / 4) (-1) 1) 2 = None.
Proof. resolve. reflexivity. Qed.

Example infinite_iff_never_reached_repulsive_nonvacuous : ip_disp_repulsive 2 1 1 5 1 1 = None.
Proof. resolve. reflexivity. Qed.

Example displacement_inverts_repulsive_nonvacuous : ip_disp_repulsive 2 1 1 (1 / 4) 1 1 <> None.
Proof. resolve. unfold_leaves. discriminate. Qed.

Example displacement_inverts_attractive_nonvacuous : ip_disp_attractive 2 1 (-1) (1 / 4) 1 1 <> None.
Proof. resolve. unfold_leaves. discriminate. Qed.

Example infinite_iff_never_reached_attractive_nonvacuous : ip_disp_attractive 2 1 (-1) 5 1 1 = None.
Proof. resolve. reflexivity. Qed.

Example radicands_nonneg_inverse_power_nonvacuous :
  (1 / 4 : R) < ip_potential 2 1 1 (1 + 0 * 0) - ip_potential 2 1 1 (1 + 1 * 1).
Proof. unfold_leaves. interval. Qed.

Example hard_sphere_first_contact_nonvacuous : hs_displacement 1 (1, 0, 0) (3, 0, 0) <> None.
Proof. resolve. unfold_leaves. discriminate. Qed.

Example hard_sphere_infinite_iff_no_contact_nonvacuous : hs_displacement 1 (1, 0, 0) (3, 2, 0) = None.
Proof. resolve. reflexivity. Qed.

Example displacement_inverts_cell_bounding_nonvacuous : sv_displacement (cb_displacement 2 3) 1 <> None.
Proof. resolve. unfold_leaves. discriminate. Qed.

Example infinite_iff_cell_bounding_nonvacuous : sv_displacement (cb_displacement (-1) 3) 1 = None.
Proof. resolve. reflexivity. Qed.

(** behind the closest approach, outside, entering the sphere, budget above the inner barrier: the longest path *)
Example displacement_inverts_lennard_jones_nonvacuous :
  sv_displacement (lj_displacement 1 1 (2 / 5) (3 / 2) 1) 2 <> None /\
  (2 / 5 <> lj_pot 1 1 1 - lj_pot 1 1 (Rmin (1 + 3 / 2 * (3 / 2)) (lj_r0 1 * lj_r0 1))).
Proof.
  split; [resolve; unfold_leaves; discriminate|].
  unfold Rmin. resolve. apply Rgt_not_eq. unfold_leaves. interval.
Qed.

Example infinite_iff_never_reached_lennard_jones_nonvacuous :
  sv_displacement (lj_displacement 1 1 (1 / 2) (- 3 / 2) (1 / 4)) 1 = None.
Proof. resolve. reflexivity. Qed.

Example displacement_inverts_displaced_even_power_nonvacuous :
  sv_displacement (dep_displacement 1 1 2 (1 / 2) (1 / 2) (1 / 4)) 2 <> None /\ Nat.Even 2 /\
  (1 / 2 <> dep_pot 1 1 2 (1 / 4) - dep_pot 1 1 2 (Rmin (1 / 4 + 1 / 2 * (1 / 2)) (1 * 1))).
Proof.
  split; [apply dep_never_infinite|]. split; [exists 1%nat; reflexivity|].
  unfold Rmin. resolve. apply Rgt_not_eq. unfold_leaves. interval.
Qed.

Example invert_outside_minimum_lennard_jones_nonvacuous : lj_inv_out 1 1 (- 1 / 8) <> None.
Proof. resolve. discriminate. Qed.

Example hard_dipole_inner_contact_nonvacuous : hs_displacement 1 (1, 0, 0) (3, 0, 0) <> None.
Proof. resolve. unfold_leaves. discriminate. Qed.

Example hard_dipole_reaches_maximal_separation_nonvacuous :
  hs_displacement 1 (1, 0, 0) (3, 2, 0) = None /\ dot3 (3, 2, 0) (3, 2, 0) <= 16.
Proof. split; [resolve; reflexivity | simpl; lra]. Qed.
