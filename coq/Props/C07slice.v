(** * Props/C07slice.v — rounding bound of one time-slice entry (the constant [slice_tol] used by
    C07's trace validator, JF.Model.Kinematics).

    Model: [JF.Model.TimeSlice.time_slice_entry x v T ts L = wrap (x + v * (T - ts)) L] on binary64,
    with [T - ts] = [Time.__sub__] ([JF.Model.Time.time_sub]) and [wrap] = correct_position_entry
    ([JF.Model.Periodic.wrap], current code incl. the repair of F1).
    [value t] exact real value of a time, [normalised t]: finite integer quotient, remainder in [0,1). *)
From Coq Require Import ZArith QArith Qreals Bool Reals Lia Lra.
From Flocq Require Import Core.Core IEEE754.BinarySingleNaN.
Require Import JF.Base.F64 JF.Base.PyFloat JF.Model.Time JF.Model.Periodic JF.Model.TimeSlice.
Require Import JF.Model.Kinematics.
Require Import JF.Proofs.F64Facts JF.Proofs.TimeProofs JF.Proofs.PeriodicProofs JF.Proofs.TimeSliceProofs.
Require Import JF.Proofs.F2QBridge.
Local Open Scope R_scope.

(** With D := value T - value ts (exact) and y := x + v * D (exact), the float result w lies in
    [0, L) and is congruent to y modulo L to within
      (|v| * max(1, |D|) + max(|y|, L)) * 2^-50.
    Hypotheses: finite x, v, L; normalised times with |quotient| <= 2^1020; L >= 2^-1000;
    |v| * max(1,|D|) + |x| + L <= 2^1000 (no overflow).  (0 <= x < L is not needed.) *)
Theorem time_slice_error : forall (x v L : f64) (T ts : time),
  ffinite x = true -> ffinite v = true -> ffinite L = true ->
  normalised T -> normalised ts ->
  Rabs (B2R (tq T)) <= bpow radix2 1020 -> Rabs (B2R (tq ts)) <= bpow radix2 1020 ->
  bpow radix2 (-1000) <= B2R L ->
  let D := value T - value ts in
  let y := B2R x + B2R v * D in
  Rabs (B2R v) * Rmax 1 (Rabs D) + Rabs (B2R x) + B2R L <= bpow radix2 1000 ->
  exists (w : f64) (k : Z),
    time_slice_entry x v T ts L = Some w /\ ffinite w = true /\ 0 <= B2R w < B2R L /\
    Rabs (B2R w - (y - IZR k * B2R L)) <=
      (Rabs (B2R v) * Rmax 1 (Rabs D) + Rmax (Rabs y) (B2R L)) * bpow radix2 (-50).
Proof. exact TimeSliceProofs.time_slice_error. Qed.
Print Assumptions time_slice_error.
Example time_slice_error_nonvacuous :
  (ffinite f_025 = true /\ ffinite f_05 = true /\ ffinite fone = true /\
   normalised sample_b /\ normalised sample_a /\
   Rabs (B2R (tq sample_b)) <= bpow radix2 1020 /\ Rabs (B2R (tq sample_a)) <= bpow radix2 1020 /\
   bpow radix2 (-1000) <= B2R fone /\
   Rabs (B2R f_05) * Rmax 1 (Rabs (value sample_b - value sample_a)) + Rabs (B2R f_025) + B2R fone
     <= bpow radix2 1000) /\
  match time_slice_entry f_025 f_05 sample_b sample_a fone with
  | Some w => feqb_bits w f_05 | None => false end = true.
Proof. split; [exact sample_slice_hyps|vm_compute; reflexivity]. Qed.

(** [Time.__sub__] is finite under the same hypotheses. *)
Theorem time_sub_finite : forall a b : time,
  normalised a -> normalised b ->
  Rabs (B2R (tq a)) <= bpow radix2 1020 -> Rabs (B2R (tq b)) <= bpow radix2 1020 ->
  ffinite (time_sub a b) = true.
Proof. exact TimeSliceProofs.time_sub_finite. Qed.
Print Assumptions time_sub_finite.
Example time_sub_finite_nonvacuous :
  normalised sample_a /\ normalised sample_b /\
  Rabs (B2R (tq sample_a)) <= bpow radix2 1020 /\ Rabs (B2R (tq sample_b)) <= bpow radix2 1020.
Proof. exact sample_sub_hyps. Qed.

(** Bridge to the validator's rationals: [f2q] (Model/Kinematics.v) is the exact value [B2R]
    (for every float; both are 0 on non-finite ones). *)
Theorem f2q_B2R : forall x : f64, Q2R (f2q x) = B2R x.
Proof. exact F2QBridge.f2q_B2R. Qed.
Print Assumptions f2q_B2R.
Example f2q_B2R_nonvacuous : Qeq_bool (f2q f_075) (3 # 4) = true.
Proof. vm_compute; reflexivity. Qed.
