(** * Props/C14.v — Time stamps keep full resolution and order (property C14).

    Model: [JF.Model.Time] (binary64, CPython's divmod transcribed in [JF.Base.PyFloat]).
    [value t = B2R (tq t) + B2R (tr t)] is the exact real value of a time stamp;
    [normalised t]: finite integer-valued quotient, finite remainder in [0, 1);
    [RN] is rounding to nearest-even in binary64, [ulp64] its unit in the last place. *)
From Coq Require Import ZArith Bool Reals Lia Lra.
From Flocq Require Import Core.Core IEEE754.BinarySingleNaN.
Require Import JF.Base.F64 JF.Base.PyFloat JF.Model.Time JF.Proofs.F64Facts JF.Proofs.TimeProofs.
Local Open Scope R_scope.

(** ** All six comparisons agree with the exact order of quotient + remainder. *)
Theorem cmp_exact : forall a b, normalised a -> normalised b ->
  time_eq a b = Req_bool (value a) (value b) /\
  time_ne a b = negb (Req_bool (value a) (value b)) /\
  time_lt a b = Rlt_bool (value a) (value b) /\
  time_gt a b = Rlt_bool (value b) (value a) /\
  time_le a b = Rle_bool (value a) (value b) /\
  time_ge a b = Rle_bool (value b) (value a).
Proof. exact TimeProofs.cmp_exact. Qed.
Print Assumptions cmp_exact.
Example cmp_exact_nonvacuous :
  normalised sample_a /\ normalised sample_b /\ time_lt sample_a sample_b = true /\
  time_eq sample_a sample_b = false.
Proof. repeat split; try apply sample_a_normalised; try apply sample_b_normalised; vm_compute; reflexivity. Qed.

(** The comparison used by the C heap (heap.c) is the same function, hence exact as well. *)
Theorem c_time_lt_exact : forall q1 r1 q2 r2,
  normalised (mkTime q1 r1) -> normalised (mkTime q2 r2) ->
  c_time_lt q1 r1 q2 r2 = Rlt_bool (B2R q1 + B2R r1) (B2R q2 + B2R r2).
Proof. exact TimeProofs.c_time_lt_exact. Qed.
Print Assumptions c_time_lt_exact.
Example c_time_lt_exact_nonvacuous :
  normalised (mkTime f_3 f_025) /\ normalised (mkTime f_3 f_075) /\ c_time_lt f_3 f_025 f_3 f_075 = true.
Proof. repeat split; try apply sample_a_normalised; try apply sample_b_normalised; vm_compute; reflexivity. Qed.

(** Exactly one of <, ==, > holds. *)
Theorem cmp_total : forall a b, normalised a -> normalised b ->
  (time_lt a b = true /\ time_eq a b = false /\ time_gt a b = false) \/
  (time_lt a b = false /\ time_eq a b = true /\ time_gt a b = false) \/
  (time_lt a b = false /\ time_eq a b = false /\ time_gt a b = true).
Proof. exact TimeProofs.cmp_total. Qed.
Print Assumptions cmp_total.
Example cmp_total_nonvacuous : normalised sample_a /\ normalised sample_b /\ time_gt sample_b sample_a = true.
Proof. repeat split; try apply sample_a_normalised; try apply sample_b_normalised; vm_compute; reflexivity. Qed.

Theorem time_lt_trans : forall a b c, normalised a -> normalised b -> normalised c ->
  time_lt a b = true -> time_lt b c = true -> time_lt a c = true.
Proof. exact TimeProofs.time_lt_trans. Qed.
Print Assumptions time_lt_trans.
Example time_lt_trans_nonvacuous :
  normalised sample_a /\ normalised sample_b /\ normalised (time_add sample_b f_05) /\
  time_lt sample_a sample_b = true /\ time_lt sample_b (time_add sample_b f_05) = true.
Proof.
  destruct sample_add_hyps as (N & F & P & Q & H).
  repeat split; try apply sample_a_normalised; try apply sample_b_normalised;
    try (vm_compute; reflexivity); apply (add_value sample_b f_05 N F P Q H).
Qed.

Theorem time_le_trans : forall a b c, normalised a -> normalised b -> normalised c ->
  time_le a b = true -> time_le b c = true -> time_le a c = true.
Proof. exact TimeProofs.time_le_trans. Qed.
Print Assumptions time_le_trans.
Example time_le_trans_nonvacuous :
  normalised sample_a /\ normalised sample_b /\ time_le sample_a sample_a = true /\ time_le sample_a sample_b = true.
Proof. repeat split; try apply sample_a_normalised; try apply sample_b_normalised; vm_compute; reflexivity. Qed.

Theorem time_le_antisym : forall a b, normalised a -> normalised b ->
  time_le a b = true -> time_le b a = true -> time_eq a b = true.
Proof. exact TimeProofs.time_le_antisym. Qed.
Print Assumptions time_le_antisym.
Example time_le_antisym_nonvacuous : normalised sample_a /\ time_le sample_a sample_a = true.
Proof. split; [apply sample_a_normalised|vm_compute; reflexivity]. Qed.

(** ** Infinity is larger than every finite time, equal only to itself, and absorbing. *)
Theorem inf_greatest : forall t, normalised t ->
  time_lt t time_inf = true /\ time_le t time_inf = true /\
  time_gt time_inf t = true /\ time_ge time_inf t = true /\
  time_eq t time_inf = false /\ time_ne t time_inf = true /\
  time_gt t time_inf = false /\ time_ge t time_inf = false /\
  time_lt time_inf t = false /\ time_le time_inf t = false /\
  time_eq time_inf t = false.
Proof. exact TimeProofs.inf_greatest. Qed.
Print Assumptions inf_greatest.
Example inf_greatest_nonvacuous : normalised sample_a /\ time_lt sample_a time_inf = true.
Proof. split; [apply sample_a_normalised|vm_compute; reflexivity]. Qed.

Theorem inf_self :
  time_eq time_inf time_inf = true /\ time_lt time_inf time_inf = false /\
  time_le time_inf time_inf = true /\ time_ge time_inf time_inf = true /\
  time_gt time_inf time_inf = false /\ time_ne time_inf time_inf = false.
Proof. exact TimeProofs.inf_self. Qed.
Print Assumptions inf_self.
Example inf_self_nonvacuous : feqb_bits (tq time_inf) finf = true.
Proof. vm_compute; reflexivity. Qed.

Theorem inf_absorbing : forall t, time_add t finf = time_inf.
Proof. exact TimeProofs.inf_absorbing. Qed.
Print Assumptions inf_absorbing.
Example inf_absorbing_nonvacuous : feqb_bits (tr (time_add sample_a finf)) finf = true.
Proof. vm_compute; reflexivity. Qed.

(** ** Conversion from a non-negative float is exact. *)
Theorem from_float_exact : forall x : f64, ffinite x = true -> 0 <= B2R x ->
  value (from_float x) = B2R x /\ normalised (from_float x).
Proof. exact TimeProofs.from_float_exact. Qed.
Print Assumptions from_float_exact.
Example from_float_exact_nonvacuous :
  ffinite f_35 = true /\ 0 <= B2R f_35 /\ feqb_bits (tq (from_float f_35)) f_3 = true /\
  feqb_bits (tr (from_float f_35)) f_05 = true.
Proof. split; [vm_compute; reflexivity|]. split; [rewrite f_35_R; lra|]. split; vm_compute; reflexivity. Qed.

(** Domain documentation: for a tiny negative input CPython's divmod returns remainder 1.0. *)
Theorem from_float_negative_refuted :
  exists x : f64, ffinite x = true /\ B2R x < 0 /\
    feqb_bits (tr (from_float x)) fone = true /\ ~ normalised (from_float x).
Proof. exact TimeProofs.from_float_negative_refuted. Qed.
Print Assumptions from_float_negative_refuted.
Example from_float_negative_witness :
  feqb_bits (tq (from_float neg_tiny)) (of_bits 0xBFF0000000000000) = true /\
  feqb_bits (tr (from_float neg_tiny)) fone = true.
Proof. split; vm_compute; reflexivity. Qed.

(** ** Addition of a non-negative displacement.
    Side condition: the new quotient q + floor(RN(r + d)) does not exceed 2^53. *)
Theorem add_value : forall (t : time) (d : f64),
  normalised t -> ffinite d = true -> 0 <= B2R d -> 0 <= B2R (tq t) ->
  B2R (tq t) + IZR (Zfloor (RN (B2R (tr t) + B2R d))) <= bpow radix2 53 ->
  value (time_add t d) = B2R (tq t) + RN (B2R (tr t) + B2R d) /\ normalised (time_add t d).
Proof. exact TimeProofs.add_value. Qed.
Print Assumptions add_value.
Example add_value_nonvacuous :
  (normalised sample_b /\ ffinite f_05 = true /\ 0 <= B2R f_05 /\ 0 <= B2R (tq sample_b) /\
   B2R (tq sample_b) + IZR (Zfloor (RN (B2R (tr sample_b) + B2R f_05))) <= bpow radix2 53) /\
  feqb_bits (tq (time_add sample_b f_05)) (of_bits 0x4010000000000000) = true /\
  feqb_bits (tr (time_add sample_b f_05)) f_025 = true.
Proof. split; [exact sample_add_hyps|split; vm_compute; reflexivity]. Qed.

(** The error is one rounding of the remainder sum — independent of the size of the quotient. *)
Theorem add_error_one_rounding : forall (t : time) (d : f64),
  normalised t -> ffinite d = true -> 0 <= B2R d -> 0 <= B2R (tq t) ->
  B2R (tq t) + IZR (Zfloor (RN (B2R (tr t) + B2R d))) <= bpow radix2 53 ->
  Rabs (value (time_add t d) - (value t + B2R d)) <= / 2 * ulp64 (B2R (tr t) + B2R d).
Proof. exact TimeProofs.add_error_one_rounding. Qed.
Print Assumptions add_error_one_rounding.
Example add_error_one_rounding_nonvacuous :
  normalised sample_b /\ ffinite f_05 = true /\ 0 <= B2R f_05 /\ 0 <= B2R (tq sample_b) /\
  B2R (tq sample_b) + IZR (Zfloor (RN (B2R (tr sample_b) + B2R f_05))) <= bpow radix2 53.
Proof. exact sample_add_hyps. Qed.

Theorem add_monotone : forall (t : time) (d1 d2 : f64),
  normalised t -> 0 <= B2R (tq t) ->
  ffinite d1 = true -> ffinite d2 = true -> 0 <= B2R d1 -> B2R d1 <= B2R d2 ->
  B2R (tq t) + IZR (Zfloor (RN (B2R (tr t) + B2R d2))) <= bpow radix2 53 ->
  value (time_add t d1) <= value (time_add t d2).
Proof. exact TimeProofs.add_monotone. Qed.
Print Assumptions add_monotone.
Example add_monotone_nonvacuous :
  normalised sample_b /\ 0 <= B2R (tq sample_b) /\ ffinite f_025 = true /\ ffinite f_05 = true /\
  0 <= B2R f_025 /\ B2R f_025 <= B2R f_05 /\
  B2R (tq sample_b) + IZR (Zfloor (RN (B2R (tr sample_b) + B2R f_05))) <= bpow radix2 53.
Proof.
  destruct sample_add_hyps as (N & F & P & Q & H).
  repeat split; try assumption; try apply N; try (vm_compute; reflexivity);
    rewrite ?f_025_R, ?f_05_R; lra.
Qed.

Theorem add_never_decreases : forall (t : time) (d : f64),
  normalised t -> ffinite d = true -> 0 <= B2R d -> 0 <= B2R (tq t) ->
  B2R (tq t) + IZR (Zfloor (RN (B2R (tr t) + B2R d))) <= bpow radix2 53 ->
  value t <= value (time_add t d).
Proof. exact TimeProofs.add_never_decreases. Qed.
Print Assumptions add_never_decreases.
Example add_never_decreases_nonvacuous :
  normalised sample_b /\ ffinite f_05 = true /\ 0 <= B2R f_05 /\ 0 <= B2R (tq sample_b) /\
  B2R (tq sample_b) + IZR (Zfloor (RN (B2R (tr sample_b) + B2R f_05))) <= bpow radix2 53.
Proof. exact sample_add_hyps. Qed.

(** ** Subtraction: [Time.__sub__] evaluates fl(fl(fl(qa - qb) + ra) - rb); the result is within
    three units in the last place of max(1, |exact difference|) (no bound on the quotients other
    than |q| <= 2^1020, which excludes overflow). *)
Theorem sub_error : forall a b : time,
  normalised a -> normalised b ->
  Rabs (B2R (tq a)) <= bpow radix2 1020 -> Rabs (B2R (tq b)) <= bpow radix2 1020 ->
  Rabs (B2R (time_sub a b) - (value a - value b)) <=
    3 * ulp64 (Rmax 1 (Rabs (value a - value b))).
Proof. exact TimeProofs.sub_error. Qed.
Print Assumptions sub_error.
Example sub_error_nonvacuous :
  (normalised sample_a /\ normalised sample_b /\
   Rabs (B2R (tq sample_a)) <= bpow radix2 1020 /\ Rabs (B2R (tq sample_b)) <= bpow radix2 1020) /\
  feqb_bits (time_sub sample_b sample_a) f_05 = true.
Proof. split; [exact sample_sub_hyps|vm_compute; reflexivity]. Qed.
