(** * Props/C09wiring.v — the static wiring obligations hold along every history (C08 / C09).

    Model: [JF.Model.Wiring] — the create / trash / activate / deactivate lists of a configuration,
    TRANSLATED from the .ini files on every run (harness/wiring.py, fail-closed); [wiring_static_ok]
    and [mode_fun_ok] are decided by [vm_compute] for every shipped configuration.  The theorems
    below say what an accepted configuration guarantees for event histories of ANY length. *)
From Coq Require Import List Arith Bool.
Require Import JF.Model.Kinematics JF.Model.Reach JF.Model.Wiring JF.Proofs.ReachProofs JF.Proofs.WiringProofs.
Import ListNotations.

(** Every activation vector reachable from the start of the run by any finite sequence of events
    of taggers that can fire satisfies [pair_ok]: a tagger whose pending events depend on what the
    event changes is trashed AND created, a tagger activated by the event is created, a tagger
    deactivated by it is trashed, every tagger trashes itself. *)
Theorem static_wiring_all_histories :
  forall w : swiring, wiring_static_ok w = true ->
  exists s, start_index w = Some s /\ pair_ok w (all_on w) s true = true /\
    forall a, reach avec (vsucc w) (apply_act w (all_on w) s) a ->
    forall t, In t (can_fire w a) -> pair_ok w a t false = true.
Proof. exact static_ok_all_histories. Qed.
Print Assumptions static_wiring_all_histories.

(** Along every history the set of activated taggers is a function of the mode of motion (a point
    mass moves / a composite object moves): a mode switch can never leave a tagger deactivated that
    a fresh start in the same mode has activated (then its factors would silently be missing). *)
Theorem activation_is_a_function_of_the_mode :
  forall (w : swiring) (aims : list (option nat)) (m0 : nat),
  mode_fun_ok w aims m0 = true ->
  exists s, start_index w = Some s /\
    forall m a a',
      reach mstate (msucc w aims) (m0, apply_act w (all_on w) s) (m, a) ->
      reach mstate (msucc w aims) (m0, apply_act w (all_on w) s) (m, a') -> a = a'.
Proof. exact mode_function. Qed.
Print Assumptions activation_is_a_function_of_the_mode.

(** Non-vacuity: a five-tagger wiring with molecule / atom mode switching
    (0 start of run, 1 leaf factors, 2 leaf-to-root switch, 3 root-to-leaf switch, 4 root factors). *)
Definition tg c k cr tr ac de : stag :=
  {| g_class := c; g_hkind := k; g_label := None; g_creates := cr; g_trashes := tr;
     g_activates := ac; g_deactivates := de |}.
Definition ex_w (act3 : list nat) : swiring :=
  [ tg TNoInState KStart [1; 2] [0] [] [3; 4];
    tg TFactorMap KInteraction [1] [1] [] [];
    tg TActiveRoot KSwitcher [3; 4] [1; 2] [3; 4] [1; 2];
    tg TActiveRoot KSwitcher [1; 2] [3; 4] act3 [3; 4];
    tg TFactorMap KInteraction [4] [4] [] [] ]%nat.
Definition ex_aims : list (option nat) := [None; None; Some 1; Some 0; None]%nat.

Example ex_static_ok : wiring_static_ok (ex_w [1; 2]%nat) = true.
Proof. vm_compute. reflexivity. Qed.
Example ex_mode_ok : mode_fun_ok (ex_w [1; 2]%nat) ex_aims 0 = true.
Proof. vm_compute. reflexivity. Qed.
(** the root-to-leaf switch forgets to re-activate the leaf factors: the create / trash conditions
    cannot see it (the tagger is consistently deactivated), the mode function can *)
Example ex_forgotten_static : wiring_static_ok (ex_w [2]%nat) = true.
Proof. vm_compute. reflexivity. Qed.
Example ex_forgotten_mode : mode_fun_ok (ex_w [2]%nat) ex_aims 0 = false.
Proof. vm_compute. reflexivity. Qed.
