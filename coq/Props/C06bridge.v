(** * Props/C06bridge.v — bridge from the schedulers of C06 to the local check [Kinematics.is_min] of C07.

    Abstraction function [alpha : list (fkey * N) -> list (nat * Q)] from RefSched's live list (arrival
    order; times as (quotient, remainder) float pairs; infinite times kept) to the pending list of
    Model/Kinematics.v (newest first; exact rational time [tvalue]; finite times only):
      alpha []            = []
      alpha ((t, hd) :: r) = alpha r ++ [(N.to_nat hd, q)]   if tvalue t = Some q
                           = alpha r                          if tvalue t = None (infinite time).
    The heap scheduler and the list scheduler are related to the same live list by C06 (relation [R] /
    [LSim]; theorems sched_min_live, refine_ref), so [alpha] of that list is their abstraction too.
    Handlers: Kinematics uses [nat], the scheduler models [N] ([N.of_nat] / [N.to_nat]).

    Hypotheses: [tnorm t]: the time is normalised (finite integer quotient, remainder in [0, 1)) or is
    the infinite time (inf, inf) — what [Time.from_float] / [Time.__add__] produce (C14);
    [push_ok]: a handler is pushed only while it has no live event in the scheduler (its previous event,
    finite or infinite, was trashed before) — the mediator protocol "one live event per handler".
    Without it Kinematics' [push_all] REPLACES the handler's old entry while the real schedulers would
    keep both.

    Real numbers enter only through [fkey_lt_is_Qlt] (exactness of the quotient-then-remainder
    comparison, from Proofs/TimeProofs.v [time_lt_exact]); the abstraction theorems are axiom-free. *)
From Coq Require Import List Arith Bool NArith ZArith QArith Lia.
Require Import JF.Base.F64 JF.Model.Time JF.Model.Heap JF.Model.Sched JF.Model.Kinematics.
Require Import JF.Proofs.TimeProofs JF.Proofs.HeapProofs JF.Proofs.SchedProofs JF.Proofs.SchedBridgeProofs.
Import ListNotations.

(** pushes: RefSched appends, Kinematics replaces-and-conses; equal under the protocol *)
Theorem alpha_commutes_push : forall cs l, push_ok l cs ->
  alpha (ref_push_all l cs) = push_all (alpha l) cs.
Proof. exact alpha_push_all. Qed.
Print Assumptions alpha_commutes_push.

(** trashes: no hypothesis *)
Theorem alpha_commutes_trash : forall hs l, alpha (ref_trash_all l hs) = trash_all_k (alpha l) hs.
Proof. exact alpha_trash_all. Qed.
Print Assumptions alpha_commutes_trash.

(** any number of legs (push candidates, get, trash): Kinematics' pending list is the abstraction of the
    reference scheduler driven through its step function by the same operations *)
Theorem alpha_commutes_legs : forall legs rs, legs_ok (rs_live rs) legs ->
  alpha (rs_live (fst (rs_run fkey fkey_lt rs (flat_map leg_ops legs)))) = kin_pending (alpha (rs_live rs)) legs.
Proof. exact alpha_legs. Qed.
Print Assumptions alpha_commutes_legs.

(** the schedulers' order on normalised times is the order of the exact rational values *)
Theorem fkey_lt_is_Qlt : forall a b qa qb,
  normalised (mkTime (fst a) (snd a)) -> normalised (mkTime (fst b) (snd b)) ->
  tvalue a = Some qa -> tvalue b = Some qb ->
  (fkey_lt a b = true <-> (qa < qb)%Q).
Proof. exact fkey_lt_Qlt. Qed.
Print Assumptions fkey_lt_is_Qlt.

(** a live event that no finite live event precedes passes is_min *)
Theorem min_live_is_min : forall l t hd, all_tnorm l -> In (t, hd) l ->
  finite fkey fkey_lt fkey_inf t ->
  (forall y, In y l -> finite fkey fkey_lt fkey_inf (fst y) -> fkey_lt (fst y) t = false) ->
  exists T, tvalue t = Some T /\ is_min (alpha l) (N.to_nat hd) T = true.
Proof. exact min_is_min. Qed.
Print Assumptions min_live_is_min.

(** RefSched *)
Theorem ref_get_passes_is_min : forall rs hd t, all_tnorm (rs_live rs) ->
  (exists x, In x (rs_live rs) /\ tvalue (fst x) <> None) ->
  snd (rs_step fkey fkey_lt rs OpGet) = OGot hd t ->
  exists T, tvalue t = Some T /\ is_min (alpha (rs_live rs)) (N.to_nat hd) T = true.
Proof. exact ref_get_is_min. Qed.
Print Assumptions ref_get_passes_is_min.

(** ListScheduler (under the mediator protocol its list is RefSched's list: [list_holds_ref_list]) *)
Theorem list_get_passes_is_min : forall ls hd t, all_tnorm (ls_times ls) ->
  (exists x, In x (ls_times ls) /\ tvalue (fst x) <> None) ->
  snd (ls_get fkey fkey_lt ls) = OGot hd t ->
  exists T, tvalue t = Some T /\ is_min (alpha (ls_times ls)) (N.to_nat hd) T = true.
Proof. exact list_get_is_min. Qed.
Print Assumptions list_get_passes_is_min.

Theorem list_holds_ref_list : forall ops, proto_run fkey fkey_lt (lproto fkey) (rs_init fkey fkey_bot) ops ->
  ls_times (fst (ls_run fkey fkey_lt (ls_init fkey fkey_bot) ops)) =
  rs_live (fst (rs_run fkey fkey_lt (rs_init fkey fkey_bot) ops)).
Proof. exact list_run_times. Qed.
Print Assumptions list_holds_ref_list.

(** HeapScheduler: after ANY operation sequence whose pushed times are normalised or infinite (no
    protocol needed), what get_succeeding_event returns passes is_min on the abstraction *)
Theorem heap_get_passes_is_min : forall ops, Forall norm_op ops ->
  exists s outs, hs_run fkey fkey_lt fkey_bot fkey_inf (hs_init fkey fkey_bot) ops = Some (s, outs) /\
    exists s' out, hs_get fkey fkey_lt fkey_bot s = Some (s', out) /\
      forall hd t, out = OGot hd t ->
        exists T, tvalue t = Some T /\
          is_min (alpha (rs_live (fst (rs_run fkey fkey_lt (rs_init fkey fkey_bot) ops)))) (N.to_nat hd) T = true.
Proof. exact heap_get_is_min. Qed.
Print Assumptions heap_get_passes_is_min.

(** converse: whatever is_min accepts is a live event with that handler and (up to ==) that time which
    no live event precedes in the schedulers' order: a possible answer of RefSched up to ties *)
Theorem is_min_is_possible_answer : forall l h T, all_tnorm l -> is_min (alpha l) h T = true ->
  exists t hd T', In (t, hd) l /\ N.to_nat hd = h /\ tvalue t = Some T' /\ (T' == T)%Q /\
    finite fkey fkey_lt fkey_inf t /\ forall y, In y l -> fkey_lt (fst y) t = false.
Proof. exact is_min_is_answer. Qed.
Print Assumptions is_min_is_possible_answer.

(** ** Non-vacuity: handler 1 at 3.75, handler 2 at 3.25, handler 3 at inf *)
Definition ex_cands : list (nat * ftime) := [(1%nat, (f_3, f_075)); (2%nat, (f_3, f_025)); (3%nat, (finf, finf))].
Definition ex_ops : list (op fkey) := map (fun c => OpPush (snd c) (N.of_nat (fst c))) ex_cands.

Example ex_norm : Forall norm_op ex_ops.
Proof.
  unfold ex_ops, ex_cands. cbn [map fst snd].
  apply Forall_cons; [left; exact sample_b_normalised|].
  apply Forall_cons; [left; exact sample_a_normalised|].
  apply Forall_cons; [right; reflexivity|]. apply Forall_nil.
Qed.

Example ex_push_ok : push_ok [] ex_cands.
Proof. cbn. repeat split; intros H; repeat (destruct H as [H|H]; try discriminate H); exact H. Qed.

Example bridge_nonvacuous :
  alpha (rs_live (fst (rs_run fkey fkey_lt (rs_init fkey fkey_bot) ex_ops))) = push_all [] ex_cands /\
  (exists s, hs_run fkey fkey_lt fkey_bot fkey_inf (hs_init fkey fkey_bot) (ex_ops ++ [OpGet]) =
             Some (s, [ONone; ONone; ONone; OGot 2%N (f_3, f_025)])) /\
  snd (ls_run fkey fkey_lt (ls_init fkey fkey_bot) (ex_ops ++ [OpGet])) = [ONone; ONone; ONone; OGot 2%N (f_3, f_025)] /\
  match tvalue (f_3, f_025) with Some T => Qeq_bool T (13 # 4) = true | None => False end /\
  is_min (push_all [] ex_cands) 2%nat (13 # 4) = true /\
  is_min (push_all [] ex_cands) 1%nat (15 # 4) = false /\
  List.length (push_all [] ex_cands) = 2%nat.
Proof.
  split; [vm_compute; reflexivity|]. split; [eexists; vm_compute; reflexivity|].
  split; [vm_compute; reflexivity|]. vm_compute. repeat split.
Qed.
