(** Placeholder until the proofs land. *)
Require Import JF.Model.Cells JF.Model.CellIndex JF.Model.CellsCases.
