(** * Props/C16.v — C16: the cell grid partitions the box; neighbour / nearby / relative-offset /
    translate relations coincide with index arithmetic modulo the number of cells per side.

    Float part (one direction of the box; the directions are independent and are combined by the flat
    index): Model/Cells.v on Flocq binary64.  Index part: Model/CellIndex.v on Z, any dimension,
    unequal numbers of cells per side.

    Stated limitation (DESIGN.md, C16): the code computes relative_cell / translate through float cell
    midpoints; that this equals the index arithmetic [relative] / [translate] below for ALL box lengths is
    not proved; it is checked exhaustively (all cell pairs) on every generated grid by the correspondence. *)
From Coq Require Import ZArith Reals Bool List Lia.
From Flocq Require Import Core.Core IEEE754.BinarySingleNaN.
Require Import JF.Base.F64 JF.Base.PyFloat JF.Model.Cells JF.Model.CellIndex JF.Model.CellsCases.
Require Import JF.Proofs.CellsProofs JF.Proofs.CellIndexProofs.
Import ListNotations.
Local Open Scope Z_scope.

(* ------------------------------------------------------------------------------------------- *)
(** ** 1. position -> cell index (one direction) *)

(** The cell index is monotone in the position (as long as the quotient of the larger position is finite,
    which holds for positions in the box: hypothesis [pre_ok] below checks it at pred L). *)
Theorem idx_monotone : forall (s : f64) (n : Z) (x y : f64),
  ffinite x = true -> (0 <= val x <= val y)%R -> (0 < val s)%R -> ffinite (fdiv y s) = true ->
  idx s n x <= idx s n y.
Proof. exact CellsProofs.idx_monotone. Qed.
Print Assumptions idx_monotone.

Example idx_monotone_nonvacuous :
  (ffinite ex_quarter = true /\ (0 <= val ex_quarter <= val ex_top)%R /\ (0 < val ex_s)%R /\
   ffinite (fdiv ex_top ex_s) = true) /\ idx ex_s 3 ex_quarter = 0 /\ idx ex_s 3 ex_top = 2.
Proof.
  split; [|split; by_eval]. split; [by_eval|]. split; [|split; [|by_eval]].
  - split; [change 0%R with (val fzero) |]; apply fle_spec; by_eval.
  - apply fgt_zero; by_eval.
Qed.

(** The same for positions of the box, with no finiteness side condition, on the domain
    2^-1000 <= L <= 2^1000, 1 <= n <= 2^20. *)
Theorem idx_monotone_box : forall (L : f64) (n : Z) (x y : f64),
  ffinite L = true -> (bpow radix2 (-1000) <= val L <= bpow radix2 1000)%R -> 1 <= n <= 2 ^ 20 ->
  ffinite x = true -> ffinite y = true -> (0 <= val x <= val y)%R -> (val y < val L)%R ->
  idx (side L n) n x <= idx (side L n) n y.
Proof. exact CellsProofs.idx_monotone_box_lemma. Qed.
Print Assumptions idx_monotone_box.

Example idx_monotone_box_nonvacuous :
  domain ex_L 3 /\ ffinite ex_quarter = true /\ ffinite ex_top = true /\
  (0 <= val ex_quarter <= val ex_top)%R /\ flt ex_top ex_L = true.
Proof.
  split; [exact domain_example|]. split; [by_eval|]. split; [by_eval|]. split; [|by_eval].
  split; [change 0%R with (val fzero) |]; apply fle_spec; by_eval.
Qed.

(** Every non-negative position is mapped to a cell of the grid (in particular every 0 <= x < L). *)
Theorem idx_in_range : forall (s : f64) (n : Z) (x : f64),
  1 <= n -> ffinite x = true -> (0 <= val x)%R -> (0 < val s)%R -> 0 <= idx s n x < n.
Proof. exact CellsProofs.idx_in_range. Qed.
Print Assumptions idx_in_range.

Example idx_in_range_nonvacuous :
  (1 <= 3 /\ ffinite ex_top = true /\ (0 <= val ex_top)%R /\ (0 < val ex_s)%R) /\ idx ex_s 3 ex_top = 2.
Proof.
  split; [|by_eval]. split; [lia|]. split; [by_eval|]. split.
  - change 0%R with (val fzero). apply fle_spec; by_eval.
  - apply fgt_zero; by_eval.
Qed.

(** Finding F2 (repaired in /repo by 0904f0b) on the UNCLAMPED index int(x / side): a position in [0, L)
    whose raw index is the number of cells.  Witness L = 1, n = 3, x = pred 1. *)
Theorem idx_top_raw_refuted : exists (L : f64) (n : Z) (x : f64),
  fle fzero x = true /\ flt x L = true /\ raw_idx (side L n) x = n.
Proof. exact CellsProofs.idx_top_raw_refuted. Qed.
Print Assumptions idx_top_raw_refuted.

Example idx_top_raw_refuted_witness : raw_idx ex_s ex_top = 3 /\ idx ex_s 3 ex_top = 2.
Proof. split; by_eval. Qed.

(** Positions of the box [0, L) are exactly the floats of the domain [0, pred L] used below. *)
Theorem box_positions_domain : forall (L x : f64),
  ffinite L = true -> ffinite x = true -> (0 <= val x < val L)%R -> inD (fpred L) x.
Proof. exact CellsProofs.in_box_inD. Qed.
Print Assumptions box_positions_domain.

Example box_positions_domain_nonvacuous :
  ffinite ex_L = true /\ ffinite ex_quarter = true /\ (0 <= val ex_quarter)%R /\ (val ex_quarter <= val ex_top)%R.
Proof.
  split; [by_eval|]. split; [by_eval|]. split; [change 0%R with (val fzero) |]; apply fle_spec; by_eval.
Qed.

(* ------------------------------------------------------------------------------------------- *)
(** ** 2. abstract partition lemma *)

(** A monotone map from consecutive integers lo..hi (think: the floats of [0, pred L] in their order) to Z
    cuts its domain into intervals: every element lies between the least and greatest element of its
    fibre; a fibre is exactly the interval between its ends (hence fibres are pairwise disjoint);
    consecutive non-empty fibres abut without gap or overlap; the first starts at lo and the last ends
    at hi. *)
Theorem monotone_partition : forall f lo hi, mono_on f lo hi ->
  (forall x, lo <= x <= hi ->
     exists mn mx, fibre_min f lo hi (f x) mn /\ fibre_max f lo hi (f x) mx /\ mn <= x <= mx) /\
  (forall c mn mx, fibre_min f lo hi c mn -> fibre_max f lo hi c mx ->
     forall x, lo <= x <= hi -> (f x = c <-> mn <= x <= mx)) /\
  (forall c c' mx mn', c < c' -> fibre_max f lo hi c mx -> fibre_min f lo hi c' mn' ->
     (forall x, lo <= x <= hi -> f x <= c \/ c' <= f x) -> mn' = mx + 1) /\
  (forall mn, fibre_min f lo hi (f lo) mn -> mn = lo) /\
  (forall mx, fibre_max f lo hi (f hi) mx -> mx = hi).
Proof. exact CellsProofs.monotone_partition. Qed.
Print Assumptions monotone_partition.

Example monotone_partition_nonvacuous :
  mono_on (fun x => x / 4) 0 10 /\ fibre_min (fun x => x / 4) 0 10 1 4 /\ fibre_max (fun x => x / 4) 0 10 1 7.
Proof.
  split; [|split].
  - intros x y H1 H2 H3. apply Z.div_le_mono; lia.
  - split; [lia|]. split; [reflexivity|]. intros x Hx He.
    destruct (Z_lt_le_dec x 4); [|lia]. assert (x / 4 < 1) by (apply Z.div_lt_upper_bound; lia). lia.
  - split; [lia|]. split; [reflexivity|]. intros x Hx He.
    destruct (Z_lt_le_dec 7 x); [|lia]. assert (2 <= x / 4) by (apply Z.div_le_lower_bound; lia). lia.
Qed.

(* ------------------------------------------------------------------------------------------- *)
(** ** 3. the constructor's stepping loops and the recorded extents *)

(** FULL statements on the domain 2^-1000 <= L <= 2^1000, 1 <= n <= 2^20 (no per-grid precondition).

    The constructor's loops terminate within [default_fuel] = 64 steps (the proof shows that each of the four
    loops ends after at most 5 steps: the start points fl(k*side) are within a factor 1 +- 2^-53 of k*side,
    the index boundary k lies in (k*side*(1-2^-52), k*side], and one float step is a relative change of at
    least 2^-53), and they return the least / greatest float of [0, pred L] that is mapped to the cell. *)
Theorem extent_loops_correct : forall (L : f64) (n : Z),
  ffinite L = true -> (bpow radix2 (-1000) <= val L <= bpow radix2 1000)%R -> 1 <= n <= 2 ^ 20 ->
  let s := side L n in let top := fpred L in
  (forall i, 1 <= i <= n - 1 -> exists r,
     lower_loops default_fuel next_float_up next_float_down (idx s n) i (lower_start s i) = Some r /\
     is_fmin s top n i r) /\
  (forall i, 0 <= i <= n - 2 -> exists r,
     upper_loops default_fuel next_float_up next_float_down (idx s n) i (upper_start s i) = Some r /\
     is_fmax s top n i r).
Proof. exact CellsProofs.extent_loops_lemma. Qed.
Print Assumptions extent_loops_correct.

Example extent_loops_correct_nonvacuous :
  domain ex_L 3 /\
  match lower_loops default_fuel next_float_up next_float_down (idx ex_s 3) 2 (lower_start ex_s 2) with
  | Some r => feqb_bits r (nth 2 ex_mins fzero) | None => false end = true.
Proof. split; [exact domain_example | by_eval]. Qed.

(** The grid partitions the box: for every L and n of the domain the constructor computes extents
    mn i / mx i for all cells; they are the least / greatest floats of the cells; the first cell starts at
    0 and the last ends at the largest float below L (cover of [0, L)); the float following mx i is
    mn (i+1) (cells abut, no gap, no overlap); every position of [0, pred L] (= every float position
    0 <= x < L, see box_positions_domain) is mapped to a cell of the grid, lies in that cell's recorded
    extent and in no other cell's extent. *)
Theorem grid_partition : forall (L : f64) (n : Z),
  ffinite L = true -> (bpow radix2 (-1000) <= val L <= bpow radix2 1000)%R -> 1 <= n <= 2 ^ 20 ->
  let s := side L n in let top := fpred L in
  exists mn mx : Z -> f64,
  (forall i, 0 <= i < n ->
     cell_min default_fuel L n i = Some (mn i) /\ cell_max default_fuel L n i = Some (mx i) /\
     is_fmin s top n i (mn i) /\ is_fmax s top n i (mx i)) /\
  val (mn 0) = 0%R /\ mx (n - 1) = fpred L /\
  (forall i, 0 <= i -> i + 1 < n ->
     val (fsucc (mx i)) = val (mn (i + 1)) /\ val (mn (i + 1)) = succ radix2 fexp64 (val (mx i))) /\
  (forall x, inD top x ->
     0 <= idx s n x < n /\
     (val (mn (idx s n x)) <= val x <= val (mx (idx s n x)))%R /\
     (forall c, 0 <= c < n -> (val (mn c) <= val x <= val (mx c))%R -> c = idx s n x)).
Proof. exact CellsProofs.grid_partition_lemma. Qed.
Print Assumptions grid_partition.

Example grid_partition_nonvacuous :
  ffinite ex_L = true /\ (bpow radix2 (-1000) <= val ex_L <= bpow radix2 1000)%R /\ 1 <= 3 <= 2 ^ 20.
Proof. exact domain_example. Qed.

(** Outside the domain (subnormal-adjacent or overflow-adjacent box lengths, more than 2^20 cells per side)
    the two theorems below remain: they are conditional on hypotheses that the correspondence evaluates in
    Coq for every generated grid ([pre_ok], case CPre), including grids with such lengths. *)

(** Whenever the (fuelled) loops of the constructor return, the result is the least (lower loops) /
    greatest (upper loops) float of [0, top] that is mapped to cell i — provided cell i is not empty
    (witness w), the start point lies in [0, top] on the right side of the cell, and (upper loops) some
    position z is mapped above cell i.  "With enough fuel" = the loops return [Some _]; the real loops
    are observed to terminate on every generated grid (the constructor returns).

    PARTIAL.  Full statement: [extent_loops_correct] above, proved for 2^-1000 <= L <= 2^1000 and
    1 <= n <= 2^20.  Not proved: the same for every finite positive L (subnormal-adjacent lengths, where
    the constructor may legitimately reject the grid, and L > 2^1000) and for n > 2^20; there the
    hypotheses below are evaluated in Coq for every generated grid ([pre_ok], case CPre). *)
Theorem extent_loops_correct_partial :
  (forall (s top : f64) (n i : Z) fuel (start w r : f64),
     1 <= n -> 1 <= i -> (0 < val s)%R -> ffinite (fdiv top s) = true ->
     inD top start -> idx s n start <= i ->
     inD top w -> idx s n w = i ->
     lower_loops fuel next_float_up next_float_down (idx s n) i start = Some r ->
     inD top r /\ idx s n r = i /\ (forall y, inD top y -> idx s n y = i -> (val r <= val y)%R)) /\
  (forall (s top : f64) (n i : Z) fuel (start w z r : f64),
     (0 < val s)%R -> ffinite (fdiv top s) = true ->
     inD top start -> i <= idx s n start ->
     inD top w -> idx s n w = i ->
     inD top z -> i < idx s n z ->
     upper_loops fuel next_float_up next_float_down (idx s n) i start = Some r ->
     inD top r /\ idx s n r = i /\ (forall y, inD top y -> idx s n y = i -> (val y <= val r)%R)).
Proof. exact CellsProofs.extent_loops_correct_lemma. Qed.
Print Assumptions extent_loops_correct_partial.

Example extent_loops_correct_partial_nonvacuous :
  let start := lower_start ex_s 1 in let w := nth 1 ex_mins fzero in
  (0 < val ex_s)%R /\ ffinite (fdiv ex_top ex_s) = true /\
  inD ex_top start /\ idx ex_s 3 start <= 1 /\ inD ex_top w /\ idx ex_s 3 w = 1 /\
  match lower_loops 64 next_float_up next_float_down (idx ex_s 3) 1 start with
  | Some r => feqb_bits r w | None => false end = true.
Proof.
  cbv zeta. split; [apply fgt_zero; by_eval|]. split; [by_eval|].
  split; [ex_inD|]. split; [vm_compute; discriminate|]. split; [ex_inD|]. split; by_eval.
Qed.

(** The recorded extents of one direction partition the positions of the box.
    [pre_ok L n ws] is a boolean evaluated inside Coq for every generated grid by the correspondence
    (case CPre): the quotient pred L / side is finite, no cell is empty (witnesses ws), the loop start
    points i*side and (i+1)*side lie in [0, pred L] on the right side of cell i.
    If the constructor's loops returned mn i / mx i for every cell, then: the first cell starts at 0 and the
    last ends at the largest float below L (the grid covers [0, L)); the float following mx i is mn (i+1)
    (cells abut without gap or overlap); and every position of [0, pred L] is mapped to a cell of the
    grid, lies in that cell's recorded extent, and lies in no other cell's extent.

    PARTIAL.  Full statement: [grid_partition] above, proved without [pre_ok] and with the existence of
    mn / mx as a conclusion for 2^-1000 <= L <= 2^1000 and 1 <= n <= 2^20.  Not proved: the same for box
    lengths or cell counts outside that domain. *)
Theorem grid_partition_partial : forall fuel (L : f64) (n : Z) (ws : list f64) (mn mx : Z -> f64),
  let s := side L n in let top := fpred L in
  pre_ok L n ws = true ->
  (forall i, 0 <= i < n -> cell_min fuel L n i = Some (mn i) /\ cell_max fuel L n i = Some (mx i)) ->
  val (mn 0) = 0%R /\ mx (n - 1) = fpred L /\
  (forall i, 0 <= i -> i + 1 < n ->
     val (fsucc (mx i)) = val (mn (i + 1)) /\ val (mn (i + 1)) = succ radix2 fexp64 (val (mx i))) /\
  (forall x, inD top x ->
     0 <= idx s n x < n /\
     (val (mn (idx s n x)) <= val x <= val (mx (idx s n x)))%R /\
     (forall c, 0 <= c < n -> (val (mn c) <= val x <= val (mx c))%R -> c = idx s n x)).
Proof. exact CellsProofs.grid_partition_checked. Qed.
Print Assumptions grid_partition_partial.

Example grid_partition_partial_nonvacuous :
  pre_ok ex_L 3 ex_mins = true /\
  check_extents ex_L 3 0 [0; 0x3FD5555555555555; 0x3FE5555555555555]
                         [0x3FD5555555555554; 0x3FE5555555555554; 0x3FEFFFFFFFFFFFFF] = true.
Proof. split; by_eval. Qed.

(* ------------------------------------------------------------------------------------------- *)
(** ** 4. index relations: a torus (any dimension, unequal numbers of cells per side) *)

(** The flat index is a bijection between valid identifiers and [0, number_of_cells): "every identifier
    names exactly one cell". *)
Theorem flat_bijective : forall ns,
  (forall id, valid ns id -> 0 <= flat ns id < number_of_cells ns /\ unflat ns (flat ns id) = id) /\
  (positive_counts ns -> forall k, 0 <= k < number_of_cells ns ->
     flat ns (unflat ns k) = k /\ valid ns (unflat ns k)).
Proof. exact flat_bijective_lemma. Qed.
Print Assumptions flat_bijective.

Example flat_bijective_nonvacuous :
  valid [4; 5; 3] [3; 4; 2] /\ flat [4; 5; 3] [3; 4; 2] = 59 /\ unflat [4; 5; 3] 59 = [3; 4; 2] /\
  positive_counts [4; 5; 3].
Proof. split; [apply validb_spec; reflexivity|]. repeat split; repeat constructor. Qed.

(** All directions together: the identifier computed by position_to_cell (per-direction [_cell_index],
    model [idx_vec]) is a valid identifier, so its flat index names exactly one cell of [_cells]. *)
Theorem position_to_cell_in_grid : forall (ss : list f64) (ns xs : list Z),
  length ns = length ss -> length xs = length ss ->
  Forall (fun s => (0 < val s)%R) ss -> Forall (fun n => 1 <= n) ns ->
  Forall (fun x => ffinite (of_bits x) = true /\ (0 <= val (of_bits x))%R) xs ->
  valid ns (idx_vec ss ns xs) /\ 0 <= flat ns (idx_vec ss ns xs) < number_of_cells ns.
Proof. exact position_to_cell_in_grid_lemma. Qed.
Print Assumptions position_to_cell_in_grid.

Example position_to_cell_in_grid_nonvacuous :
  let ss := sides [0x3FF0000000000000; 0x4000000000000000] [3; 5] in
  let xs := [0x3FEFFFFFFFFFFFFF; 0x3FF0000000000000] in
  Forall (fun s => fgt s fzero = true) ss /\ idx_vec ss [3; 5] xs = [2; 2] /\ flat [3; 5] [2; 2] = 8.
Proof. cbv zeta. split; [repeat constructor | split; by_eval]. Qed.

(** The constructor's odometer stores the cell with flat index k at list position k. *)
Theorem cell_list_order : forall ns k, positive_counts ns -> 0 <= k < number_of_cells ns ->
  let id := nth (Z.to_nat k) (all_idents ns) [] in valid ns id /\ flat ns id = k.
Proof. exact all_idents_nth. Qed.
Print Assumptions cell_list_order.

Example cell_list_order_nonvacuous : positive_counts [2; 3] /\ nth 3 (all_idents [2; 3]) [] = [1; 1].
Proof. split; [repeat constructor | reflexivity]. Qed.

(** translate inverts relative offset, and conversely *)
Theorem translate_relative : forall ns c r, valid ns c -> valid ns r ->
  translate ns r (relative ns c r) = c.
Proof. exact CellIndexProofs.translate_relative. Qed.
Print Assumptions translate_relative.

Example translate_relative_nonvacuous :
  valid [4; 5; 3] [1; 4; 0] /\ valid [4; 5; 3] [3; 2; 2] /\ relative [4; 5; 3] [1; 4; 0] [3; 2; 2] = [2; 2; 1].
Proof. split; [apply validb_spec; reflexivity|]. split; [apply validb_spec; reflexivity | reflexivity]. Qed.

Theorem relative_translate : forall ns c rel, valid ns c -> valid ns rel ->
  relative ns (translate ns c rel) c = rel.
Proof. exact CellIndexProofs.relative_translate. Qed.
Print Assumptions relative_translate.

Example relative_translate_nonvacuous :
  valid [4; 5; 3] [3; 2; 2] /\ valid [4; 5; 3] [2; 2; 1] /\ translate [4; 5; 3] [3; 2; 2] [2; 2; 1] = [1; 4; 0].
Proof. split; [apply validb_spec; reflexivity|]. split; [apply validb_spec; reflexivity | reflexivity]. Qed.

(** nearby is exactly "every index entry shifted by at most [layers], modulo the count", symmetric,
    reflexive, duplicate-free (also when 2*layers+1 exceeds the number of cells in a direction) *)
Theorem nearby_characterised : forall l ns a b,
  (In b (nearby_p l ns a) <-> near l ns a b) /\ NoDup (nearby_p l ns a).
Proof. exact nearby_characterised_lemma. Qed.
Print Assumptions nearby_characterised.

Example nearby_characterised_nonvacuous : length (nearby_p 2 [4; 5; 3] [0; 0; 0]) = 60%nat.
Proof. reflexivity. Qed.

Theorem nearby_symmetric : forall l ns a b, valid ns a -> valid ns b ->
  (In b (nearby_p l ns a) <-> In a (nearby_p l ns b)).
Proof. exact CellIndexProofs.nearby_symmetric. Qed.
Print Assumptions nearby_symmetric.

Example nearby_symmetric_nonvacuous :
  valid [4; 5] [0; 0] /\ valid [4; 5] [3; 4] /\ In [3; 4] (nearby_p 1 [4; 5] [0; 0]) /\
  In [0; 0] (nearby_p 1 [4; 5] [3; 4]) /\ ~ In [2; 2] (nearby_p 1 [4; 5] [0; 0]).
Proof.
  split; [apply validb_spec; reflexivity|]. split; [apply validb_spec; reflexivity|].
  split; [vm_compute; tauto|]. split; [vm_compute; tauto|].
  vm_compute. intros H. repeat (destruct H as [H|H]; [discriminate H|]). exact H.
Qed.

Theorem nearby_refl : forall l ns a, 0 <= l -> valid ns a -> In a (nearby_p l ns a).
Proof. exact CellIndexProofs.nearby_refl. Qed.
Print Assumptions nearby_refl.

Example nearby_refl_nonvacuous : valid [4; 5] [3; 4] /\ nearby_p 0 [4; 5] [3; 4] = [[3; 4]].
Proof. split; [apply validb_spec; reflexivity | reflexivity]. Qed.

(** nearby of any cell is the translate of nearby of the zero cell (as sets) — the fact the cell-based
    bounding potentials rely on *)
Theorem nearby_translation_invariant : forall l ns a b, valid ns a ->
  (In b (nearby_p l ns a) <-> In b (map (translate ns a) (nearby_p l ns (zero ns)))).
Proof. exact CellIndexProofs.nearby_translation_invariant. Qed.
Print Assumptions nearby_translation_invariant.

Example nearby_translation_invariant_nonvacuous :
  valid [2; 5] [1; 4] /\ length (nearby_p 1 [2; 5] [1; 4]) = 6%nat /\
  In [0; 0] (map (translate [2; 5] [1; 4]) (nearby_p 1 [2; 5] (zero [2; 5]))).
Proof. split; [apply validb_spec; reflexivity|]. split; [reflexivity | vm_compute; tauto]. Qed.

(** the periodic neighbour in direction d is the translate by the unit cell; positive and negative
    neighbours are mutually inverse *)
Theorem neighbor_is_translate_unit : forall ns a d positive, valid ns a ->
  neighbor_p ns a d positive = translate ns a (unit_cell ns d positive) /\
  neighbor_p ns (neighbor_p ns a d positive) d (negb positive) = a.
Proof. exact neighbor_unit_lemma. Qed.
Print Assumptions neighbor_is_translate_unit.

Example neighbor_is_translate_unit_nonvacuous :
  valid [4; 5; 3] [3; 0; 2] /\ neighbor_p [4; 5; 3] [3; 0; 2] 0 true = [0; 0; 2] /\
  neighbor_p [4; 5; 3] [3; 0; 2] 1 false = [3; 4; 2] /\ unit_cell [4; 5; 3] 1 false = [0; 4; 0].
Proof. split; [apply validb_spec; reflexivity|]. repeat split. Qed.

(** the non-periodic class CuboidCells: neighbour is None exactly at the border and otherwise the
    periodic one; nearby is the unwrapped part of the periodic neighbourhood, symmetric and reflexive *)
Theorem nonperiodic_relations : forall l ns a,
  valid ns a ->
  (forall d positive b, neighbor_np ns a d positive = Some b ->
     b = neighbor_p ns a d positive /\ 0 <= nth d a 0 + sgn positive < nth d ns 0) /\
  (forall d positive, (d < length ns)%nat ->
     (neighbor_np ns a d positive = None <-> ~ (0 <= nth d a 0 + sgn positive < nth d ns 0))) /\
  (forall b, In b (nearby_np l ns a) <-> near_np l ns a b) /\
  (forall b, In b (nearby_np l ns a) -> In b (nearby_p l ns a)) /\
  (forall b, valid ns b -> (In b (nearby_np l ns a) <-> In a (nearby_np l ns b))) /\
  (0 <= l -> In a (nearby_np l ns a)).
Proof. exact nonperiodic_relations_lemma. Qed.
Print Assumptions nonperiodic_relations.

Example nonperiodic_relations_nonvacuous :
  valid [4; 5] [3; 0] /\ neighbor_np [4; 5] [3; 0] 0 true = None /\
  neighbor_np [4; 5] [3; 0] 1 true = Some [3; 1] /\ length (nearby_np 1 [4; 5] [3; 0]) = 4%nat.
Proof. split; [apply validb_spec; reflexivity|]. repeat split. Qed.
