(** * Props/C04.v — Thinning is sound: acceptance is the exact ratio; domination is MONITORED, not proved.

    What is proved here (axiom-free, over Q, Model/Thinning.v transcribes the comparisons of the six
    event handlers that propose events from a bounding potential):
    - [accept_probability]: for a bounding rate [b > 0] and a true rate [r <= b] the uniform numbers
      [u] in [0,1) that confirm the event form the interval [0, max 0 r / b), of length [max 0 r / b];
    - [accept_when_exceeded], [deficit_when_exceeded]: if the bound fails ([r > b]) every proposed event
      is confirmed and the realised rate [b] is smaller than the true rate: thinning is then biased
      (the code only logs a warning);
    - [unconfirmed_unchanged]: an unconfirmed event returns the time-sliced in-state, all velocities and
      identifiers unchanged;
    - [summed_bound_dominates]: the summed bound of the composite-object handler dominates (and is
      positive where the event rate is) whenever each pairwise bound dominates its pairwise rate;
    - [thinning_exact]: CONDITIONAL on the hypothesis [Dominates : forall s, rate_true s <= rate_bound s],
      proposal rate x acceptance probability = max 0 (true rate).

    What is NOT proved: the hypothesis [Dominates] for the shipped bound, i.e. that the derivative of the
    scaled nearest-image potential 1.5837 q_i q_j / |r| dominates the derivative of the merged-image
    (Ewald) Coulomb potential at every separation of the minimum-image cube.  That is a statement about
    the supremum over a continuous 3-D domain of a lattice sum with erfc/exp and a Fourier sum; it is
    not available with the installed libraries.  harness/c04.py MONITORS it numerically on the compiled
    extensions (dense stratified sampling; largest ratio observed 0.99990202 at separations
    (-> 0, +-L/2, +-L/2) along the direction of motion, i.e. a margin of 1e-4 for the prefactor 1.5837)
    and intercepts [bounding_potential_warning] in real runs.  The evidence labels this clause
    "sampled, not proved". *)
From Coq Require Import QArith Lqa List Bool.
Require Import JF.Base.QInterval JF.Model.Thinning JF.Proofs.ThinningProofs.
Import ListNotations.
Open Scope Q_scope.

(** The executable decision is the transcribed comparison. *)
Theorem confirm_decision : forall f x r, confirmb f x r = true <-> confirm_x f x r.
Proof. exact confirmb_spec. Qed.
Print Assumptions confirm_decision.

(** Leaf family ([r > 0 and uniform < r]) and composite family ([not (max 0 r <= uniform)]) decide alike. *)
Theorem families_decide_alike : forall x r, 0 <= x -> (confirm_x FLeaf x r <-> confirm_x FComposite x r).
Proof. exact families_agree. Qed.
Print Assumptions families_decide_alike.

Theorem accept_probability : forall b r, 0 < b -> r <= b ->
  accept_probability_of b r == qmax 0 r / b /\
  forall f u, mem_co u unit_int -> (confirm f u b r <-> mem_co u (accept_set b r)).
Proof. exact accept_probability_lemma. Qed.
Print Assumptions accept_probability.

Theorem accept_when_exceeded : forall b r, 0 < b -> b < r ->
  accept_probability_of b r == 1 /\ forall f u, mem_co u unit_int -> confirm f u b r.
Proof. exact accept_when_exceeded_lemma. Qed.
Print Assumptions accept_when_exceeded.

Theorem deficit_when_exceeded : forall b r, 0 < b -> b < r ->
  b * accept_probability_of b r == b /\ b < qmax 0 r.
Proof. exact deficit_when_exceeded_lemma. Qed.
Print Assumptions deficit_when_exceeded.

Theorem unconfirmed_unchanged : forall adv accepted_out f t x r st,
  ~ confirm_x f x r ->
  out_state adv accepted_out f t x r st = time_slice adv t st /\
  map uvel (out_state adv accepted_out f t x r st) = map uvel st /\
  map uid (out_state adv accepted_out f t x r st) = map uid st.
Proof. exact unconfirmed_unchanged_lemma. Qed.
Print Assumptions unconfirmed_unchanged.

Theorem summed_bound_dominates : forall rs bs, Forall2 Qle rs bs ->
  event_rate rs <= summed_bound bs /\ (0 < event_rate rs -> 0 < summed_bound bs).
Proof. exact summed_bound_dominates_lemma. Qed.
Print Assumptions summed_bound_dominates.

(** CONDITIONAL exactness: the hypothesis [Dominates] is explicit; it is not established for the
    shipped Coulomb bound (see the header). *)
Theorem thinning_exact : forall (S : Type) (rate_true rate_bound : S -> Q),
  (forall s, rate_true s <= rate_bound s) (* Dominates *) ->
  forall s,
    (0 < rate_bound s ->
       rate_bound s * accept_probability_of (rate_bound s) (rate_true s) == qmax 0 (rate_true s)) /\
    (rate_bound s <= 0 -> qmax 0 (rate_true s) == 0).
Proof. exact thinning_exact_section. Qed.
Print Assumptions thinning_exact.

(* ======================================================================================== *)
(** Non-vacuity *)

Example ex_accept : accept_probability_of (7 # 10) (1 # 2) == 5 # 7
                    /\ confirm FLeaf (4 # 7) (7 # 10) (1 # 2) /\ ~ confirm FLeaf (6 # 7) (7 # 10) (1 # 2)
                    /\ ~ confirm FLeaf (5 # 7) (7 # 10) (1 # 2)   (* the tie u*b = r is not confirmed *)
                    /\ ~ confirm FComposite (5 # 7) (7 # 10) (1 # 2).
Proof.
  split; [vm_compute; reflexivity|].
  split; [apply confirmb_spec; reflexivity|].
  split; [apply confirmb_false; reflexivity|].
  split; apply confirmb_false; reflexivity.
Qed.

Example ex_negative_rate : accept_probability_of 1 (-(1 # 3)) == 0 /\ ~ confirm FLeaf 0 1 (-(1 # 3)).
Proof. split; [vm_compute; reflexivity | apply confirmb_false; reflexivity]. Qed.

Example ex_exceeded : accept_probability_of (1 # 2) (3 # 4) == 1 /\ confirm FLeaf (99 # 100) (1 # 2) (3 # 4).
Proof. split; [vm_compute; reflexivity | apply confirmb_spec; reflexivity]. Qed.

Example ex_summed : Forall2 Qle [1 # 2; -(3 # 1); 1 # 4] [1; -(2 # 1); 1 # 3]
                    /\ event_rate [1 # 2; -(3 # 1); 1 # 4] == 0 /\ summed_bound [1; -(2 # 1); 1 # 3] == 4 # 3
                    /\ event_rate [1 # 2; -(1 # 8); 1 # 4] == 5 # 8.
Proof. split; [repeat constructor; vm_compute; discriminate | vm_compute; repeat split]. Qed.

Example ex_unconfirmed :
  let st := [mkUnit [0%nat] [1 # 2; 0] (Some [1; 0]) (Some 0); mkUnit [1%nat] [1 # 4; 0] None None] in
  map uvel (out_state (fun t u => upos u) (fun s => rev s) FLeaf 2 (3 # 5) (1 # 2) st) = map uvel st
  /\ map uvel (out_state (fun t u => upos u) (fun s => rev s) FLeaf 2 (2 # 5) (1 # 2) st) <> map uvel st.
Proof. split; [reflexivity | vm_compute; discriminate]. Qed.

(** the conditional theorem applies to a concrete dominated pair of rate functions *)
Example ex_exact : forall s : Q,
  0 < 2 + s * s -> (2 + s * s) * accept_probability_of (2 + s * s) (1 - s) == qmax 0 (1 - s).
Proof.
  intros s H. apply (thinning_exact Q (fun s => 1 - s) (fun s => 2 + s * s)); [|exact H].
  intro t. simpl. nra.
Qed.
