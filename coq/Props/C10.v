(** placeholder until the proofs land *)
Require Import JF.Model.Occupancy JF.Model.FactorMap.
