(** * C10 — Cell-based and file-based factor decompositions cover each partner exactly once.
    Models: Model/Occupancy.v (occupancy + the cell taggers + the cell-veto target lookup), Model/FactorMap.v
    (factor-file parser, factor type maps, FactorTypeMapInStateTagger).
    Proofs: Proofs/OccupancyProofs.v, Proofs/FactorMapProofs.v.  [occ_inv] is the C11 invariant. *)
From Coq Require Import List ZArith Bool Permutation.
Require Import JF.Model.Occupancy JF.Model.FactorMap JF.Proofs.OccupancyProofs JF.Proofs.FactorMapProofs.
Import ListNotations.

(** ** Cell part.  [cellsys_ok cs]: duplicate-free cells and nearby lists, translate/relative inverse to each other
    on the cells of the system, nearby relation translation invariant (decidable: [cellsys_ok_b_sound]). *)

(** cell-veto targets (occupants of the cells reached from the walker's items) ++ nearby targets (explicit pair
    events with the occupants of nearby cells) ++ surplus targets = all relevant units except the active one,
    as multisets: nobody is missed, nobody is treated twice *)
Theorem cells_partition :
  forall (cell id : Type) (cell_eqb : cell -> cell -> bool) (id_eqb : id -> id -> bool),
    (forall a b : cell, cell_eqb a b = true <-> a = b) ->
    forall cs : cellsys cell, cellsys_ok cs ->
    forall (units : list id) (cellof : id -> cell),
      (forall u, In u units -> In (cellof u) (cs_cells cs)) ->
      forall (s : state cell id) (a : id),
        occ_inv cell_eqb id_eqb (cs_cells cs) s units cellof ->
        active_id s = Some a ->
        Permutation (cell_veto_targets cell_eqb cs s ++ nearby_targets cell_eqb cs s ++ surplus_targets s)
                    (others id_eqb s units).
Proof. exact OccupancyProofs.cells_partition. Qed.
Print Assumptions cells_partition.

(** the same element-wise: the concatenation is duplicate-free and contains exactly the other relevant units *)
Theorem cells_partition_nodup :
  forall (cell id : Type) (cell_eqb : cell -> cell -> bool) (id_eqb : id -> id -> bool),
    (forall a b : cell, cell_eqb a b = true <-> a = b) ->
    (forall a b : id, id_eqb a b = true <-> a = b) ->
    forall cs : cellsys cell, cellsys_ok cs ->
    forall (units : list id) (cellof : id -> cell),
      NoDup units ->
      (forall u, In u units -> In (cellof u) (cs_cells cs)) ->
      forall (s : state cell id) (a : id),
        occ_inv cell_eqb id_eqb (cs_cells cs) s units cellof ->
        active_id s = Some a ->
        NoDup (cell_veto_targets cell_eqb cs s ++ nearby_targets cell_eqb cs s ++ surplus_targets s)
        /\ (forall u, In u (cell_veto_targets cell_eqb cs s ++ nearby_targets cell_eqb cs s ++ surplus_targets s)
                      <-> In u units /\ u <> a).
Proof. exact OccupancyProofs.cells_partition_nodup. Qed.
Print Assumptions cells_partition_nodup.

(** the cell-bounding family (CellBoundingPotentialTagger: one in-state per non-empty cell that is not nearby)
    treats the same units as the cell-veto family *)
Theorem cell_bounding_same_targets :
  forall (cell id : Type) (cell_eqb : cell -> cell -> bool) (id_eqb : id -> id -> bool),
    (forall a b : cell, cell_eqb a b = true <-> a = b) ->
    forall cs : cellsys cell, cellsys_ok cs ->
    forall (units : list id) (cellof : id -> cell),
      (forall u, In u units -> In (cellof u) (cs_cells cs)) ->
      forall (s : state cell id) (a : id),
        occ_inv cell_eqb id_eqb (cs_cells cs) s units cellof ->
        active_id s = Some a ->
        Permutation (bounding_targets cell_eqb cs s) (cell_veto_targets cell_eqb cs s).
Proof. exact OccupancyProofs.cell_bounding_same_targets. Qed.
Print Assumptions cell_bounding_same_targets.

(** every walker item of the cell-veto handler is a key of its bound table *)
Theorem veto_keys_consistent :
  forall (cell : Type) (cell_eqb : cell -> cell -> bool) (cs : cellsys cell),
    cellsys_ok cs -> veto_keys cell_eqb cs = veto_domain cell_eqb cs.
Proof. exact OccupancyProofs.veto_keys_consistent. Qed.
Print Assumptions veto_keys_consistent.

(** [cellsys_ok] can be decided by computation for a concrete cell system *)
Theorem cellsys_ok_decidable :
  forall (cell : Type) (cell_eqb : cell -> cell -> bool),
    (forall a b : cell, cell_eqb a b = true <-> a = b) ->
    forall cs : cellsys cell, cellsys_ok_b cell cell_eqb cs = true -> cellsys_ok cs.
Proof. exact OccupancyProofs.cellsys_ok_b_sound. Qed.
Print Assumptions cellsys_ok_decidable.

(** ** File part.  [f]: the parsed non-comment lines of a factor file, [n]: point masses per composite object,
    [nroot]: number of composite objects, active point mass (r, a). *)

(** a well-formed file is accepted by the parser *)
Theorem wf_file_loads :
  forall (n : Z) (lines : list (list Z)) (f : pfile),
    parse_file lines = Some f -> wf_file n f = true ->
    exists fs, load_file n lines = FOk fs /\ load_parsed n f [] = FOk fs.
Proof. exact FactorMapProofs.wf_file_loads. Qed.
Print Assumptions wf_file_loads.

(** inter-object factor type: the generated in-states are {inst S r o | S in file, a in S, o <> r}, each once *)
Theorem factor_map_exact :
  forall (n nroot : Z) (f : pfile) (fs : fmaps),
    wf_file n f = true -> load_parsed n f [] = FOk fs ->
    forall (nm : fname) (m : fmap) (r a : Z),
      fget fs nm = Some m -> fm_local m = Some false -> (1 < n)%Z ->
      (0 <= r < nroot)%Z -> (0 <= a < n)%Z ->
      let spec := flat_map (fun o => map (inst n r o) (sets_with f nm a)) (other_roots nroot r) in
      yield_factor_identifier n nroot m [r; a] = FOk spec /\ NoDup spec.
Proof. exact FactorMapProofs.factor_map_exact_inter. Qed.
Print Assumptions factor_map_exact.

Theorem factor_map_exact_members :
  forall (n nroot : Z) (f : pfile) (nm : fname) (a r : Z) (x : finstate),
    In x (flat_map (fun o => map (inst n r o) (sets_with f nm a)) (other_roots nroot r)) <->
    exists St o, In St (sets_of nm f) /\ In a St /\ (0 <= o < nroot)%Z /\ o <> r /\ x = inst n r o St.
Proof. exact FactorMapProofs.factor_map_inter_members. Qed.
Print Assumptions factor_map_exact_members.

(** intra-object factor type: {inst S r | S in file, a in S}, each once *)
Theorem factor_map_exact_intra :
  forall (n nroot : Z) (f : pfile) (fs : fmaps),
    wf_file n f = true -> load_parsed n f [] = FOk fs ->
    forall (nm : fname) (m : fmap) (r a : Z),
      fget fs nm = Some m -> fm_local m = Some true ->
      (0 <= r < nroot)%Z -> (0 <= a < n)%Z ->
      yield_factor_identifier n nroot m [r; a] = FOk (map (inst_local r) (sets_with f nm a))
      /\ NoDup (map (inst_local r) (sets_with f nm a)).
Proof. exact FactorMapProofs.factor_map_exact_intra. Qed.
Print Assumptions factor_map_exact_intra.

Theorem factor_map_exact_intra_members :
  forall (f : pfile) (nm : fname) (a r : Z) (x : finstate),
    In x (map (inst_local r) (sets_with f nm a)) <->
    exists St, In St (sets_of nm f) /\ In a St /\ x = inst_local r St.
Proof. exact FactorMapProofs.factor_map_intra_members. Qed.
Print Assumptions factor_map_exact_intra_members.

(** without composite objects (one point mass per root node; identifiers have one level) the index sets are
    ignored: the active unit is paired with every other root node, each once *)
Theorem no_composite_exact :
  forall (nroot r : Z), (0 <= r < nroot)%Z ->
    let spec := map (fun o => [[r]; [o]]) (other_roots nroot r) in
    yield_no_composite nroot [r] = FOk spec /\ NoDup spec
    /\ (forall m, fm_local m = Some false -> yield_factor_identifier 1 nroot m [r] = FOk spec)
    /\ yield_default 1 nroot [r] = FOk spec.
Proof. exact FactorMapProofs.no_composite_exact. Qed.
Print Assumptions no_composite_exact.

(** the tagger's set(...): duplicate-free, same members (several active leaves) *)
Theorem dedup_sound :
  forall l : list finstate, NoDup (dedup l) /\ (forall x, In x (dedup l) <-> In x l).
Proof. exact FactorMapProofs.dedup_sound. Qed.
Print Assumptions dedup_sound.

Theorem tagger_dedup :
  forall (n nroot : Z) (fs : fmaps) (nm : fname) (acts : list uid) (d : list finstate),
    tagger_in_states n nroot fs nm acts = FOk d ->
    exists l, yield_all n nroot fs nm acts = FOk l /\ NoDup d /\ (forall x, In x d <-> In x l).
Proof. exact FactorMapProofs.tagger_dedup. Qed.
Print Assumptions tagger_dedup.

(** ** Non-vacuity *)
Import OccExample.

(** a concrete state with an active unit in which all three families are non-empty satisfies the hypotheses *)
Example cells_partition_nonvacuous :
  cellsys_ok cs5 /\ NoDup units /\ (forall u, In u units -> In (cellof u) (cs_cells cs5))
  /\ occ_inv list_Z_eqb list_Z_eqb (cs_cells cs5) s1 units cellof /\ active_id s1 = Some [0%Z]
  /\ cell_veto_targets list_Z_eqb cs5 s1 = [[2%Z]; [3%Z]]
  /\ nearby_targets list_Z_eqb cs5 s1 = [[5%Z]]
  /\ surplus_targets s1 = [[1%Z]; [4%Z]]
  /\ others list_Z_eqb s1 units = [[1%Z]; [2%Z]; [3%Z]; [4%Z]; [5%Z]].
Proof.
  split; [exact cs5_ok|]. split; [exact units_nodup|]. split; [exact cellof_valid|]. split; [exact s1_inv|].
  vm_compute. auto 10.
Qed.

Example cells_partition_nodup_nonvacuous :
  In [4%Z] (cell_veto_targets list_Z_eqb cs5 s1 ++ nearby_targets list_Z_eqb cs5 s1 ++ surplus_targets s1)
  /\ ~ In [0%Z] (cell_veto_targets list_Z_eqb cs5 s1 ++ nearby_targets list_Z_eqb cs5 s1 ++ surplus_targets s1).
Proof. vm_compute. split; [tauto|]. intros H. repeat (destruct H as [H|H]; [discriminate|]). contradiction. Qed.

Example cell_bounding_same_targets_nonvacuous :
  cell_bounding_tagger list_Z_eqb cs5 s1 = [[[0%Z]; [2%Z]]; [[0%Z]; [3%Z]]]
  /\ bounding_targets list_Z_eqb cs5 s1 = [[2%Z]; [3%Z]].
Proof. vm_compute. auto. Qed.

Example veto_keys_consistent_nonvacuous : veto_domain list_Z_eqb cs5 = [[2%Z]; [3%Z]].
Proof. vm_compute. reflexivity. Qed.

(** a 3 x 4 x 5 torus with one neighbour layer, and a 7-ring with two layers *)
Example cellsys_ok_decidable_nonvacuous :
  cellsys_ok (torus_cs [3%Z; 4%Z; 5%Z] 1) /\ cellsys_ok (torus_cs [7%Z] 2).
Proof.
  split; apply (cellsys_ok_decidable _ list_Z_eqb list_Z_eqb_spec); vm_compute; reflexivity.
Qed.

(** the water file: two intra-object types, one inter-object pair type, one inter-object type over all six atoms *)
Definition ex_lines : list (list Z) :=
  map (map Z.of_nat)
    [[35; 32; 119]%nat;                                                             (* "# w" *)
     [91; 48; 44; 32; 49; 93; 44; 32; 72; 97; 114; 10]%nat;                         (* "[0, 1], Har\n" *)
     [91; 49; 44; 32; 50; 93; 44; 32; 72; 97; 114; 10]%nat;                         (* "[1, 2], Har\n" *)
     [91; 49; 44; 32; 52; 93; 44; 32; 76; 106; 10]%nat;                             (* "[1, 4], Lj\n" *)
     [91; 48; 44; 32; 49; 44; 32; 50; 44; 32; 51; 44; 32; 52; 44; 32; 53; 93; 44; 32; 67; 10]%nat].  (* "[0, .., 5], C" *)
Definition ex_har : fname := map Z.of_nat [72; 97; 114]%nat.
Definition ex_lj : fname := map Z.of_nat [76; 106]%nat.
Definition ex_file : pfile :=
  [([0; 1], ex_har); ([1; 2], ex_har); ([1; 4], ex_lj); ([0; 1; 2; 3; 4; 5], map Z.of_nat [67]%nat)]%Z.

Example wf_file_loads_nonvacuous : parse_file ex_lines = Some ex_file /\ wf_file 3 ex_file = true.
Proof. vm_compute. auto. Qed.

Definition ex_fs : fmaps := match load_parsed 3 ex_file [] with FOk fs => fs | FErr _ => [] end.

Example factor_map_exact_nonvacuous :
  load_parsed 3 ex_file [] = FOk ex_fs
  /\ (exists m, fget ex_fs ex_lj = Some m /\ fm_local m = Some false
                /\ yield_factor_identifier 3 3 m [1; 1]%Z = FOk [[[1; 1]; [0; 1]]; [[1; 1]; [2; 1]]]%Z)
  /\ (exists m, fget ex_fs ex_har = Some m /\ fm_local m = Some true
                /\ yield_factor_identifier 3 3 m [1; 1]%Z = FOk [[[1; 0]; [1; 1]]; [[1; 1]; [1; 2]]]%Z).
Proof. vm_compute. split; [reflexivity|]. split; eexists; repeat split. Qed.

Example factor_map_exact_members_nonvacuous :
  sets_with ex_file ex_lj 1 = [[1; 4]]%Z /\ other_roots 3 1 = [0; 2]%Z /\ sets_with ex_file ex_har 1 = [[0; 1]; [1; 2]]%Z.
Proof. vm_compute. auto. Qed.

Example no_composite_exact_nonvacuous :
  yield_no_composite 3 [1%Z] = FOk [[[1]; [0]]; [[1]; [2]]]%Z.
Proof. vm_compute. reflexivity. Qed.

Example dedup_sound_nonvacuous :
  exists m, fget ex_fs ex_har = Some m
  /\ tagger_in_states 3 3 ex_fs ex_har [[1; 0]; [1; 1]; [1; 2]]%Z = FOk [[[1; 0]; [1; 1]]; [[1; 1]; [1; 2]]]%Z
  /\ yield_all 3 3 ex_fs ex_har [[1; 0]; [1; 1]; [1; 2]]%Z
     = FOk [[[1; 0]; [1; 1]]; [[1; 0]; [1; 1]]; [[1; 1]; [1; 2]]; [[1; 1]; [1; 2]]]%Z.
Proof. vm_compute. eexists. repeat split. Qed.

(** ** The cell part on REAL RUNS.
    [check_tcase_run] (Model/OccupancyRun.v) replays one occupancy of a traced real run (as [check_ocase], C11) and
    requires at every recorded state that what every cell-based tagger connected to the occupancy really generated
    ([fresh]: its [yield_identifiers_send_event_time] on the current active state) equals the model's tagger function
    on the replayed state, as a multiset of in-state tuples; deactivated taggers generate nothing. *)
Require Import JF.Model.OccupancyRun JF.Proofs.OccupancyRunProofs.

(** the index-tuple torus is a cell system in the sense of [cellsys_ok], for every dimension, all positive counts and
    every number of neighbour layers *)
Theorem torus_cs_ok :
  forall (ns : list Z) (l : Z), Forall (fun n => (0 < n)%Z) ns -> (0 <= l)%Z -> cellsys_ok (torus_cs ns l).
Proof. exact OccupancyRunProofs.torus_cs_ok. Qed.
Print Assumptions torus_cs_ok.

(** every accepted run, of any length, at every recorded state with a relevant active unit: the targets of the
    RECORDED generations of the nearby tagger and of the surplus tagger, together with the far family -- the occupants
    of the cells the cell-veto handler can sample ([cell_veto_targets] of the replayed state = the recorded
    internals), or the targets of the recorded generation of a cell-bounding tagger -- are a permutation of all other
    relevant units ([partition_at]) *)
Theorem run_cells_partition :
  forall c : tcase, check_tcase_run c = true ->
  exists states,
    run_case (tc_o c) = Some states
    /\ Forall2 (partition_at (case_cs c) (case_units (tc_o c))) states (tc_gens c).
Proof. exact OccupancyRunProofs.run_cells_partition. Qed.
Print Assumptions run_cells_partition.

(** non-vacuity: box of length 1, 4 cells on a ring, one neighbour layer, limit 1, units at 0.1 and 0.6; unit (0,)
    becomes active (unit (1,) is two cells away: cell-bounding event), crosses into cell 1 (unit (1,) is now nearby),
    then unit (1,) becomes active *)
Definition ex_tcase : tcase :=
  mkTCase
    (mkOCase [4607182418800017408%Z] [4%Z] 1%Z
       [([0%Z], [4591870180066957722%Z], true); ([1%Z], [4603579539098121011%Z], true)]
       (mkOSnap [([0%Z], [[0%Z]]); ([2%Z], [[1%Z]])] [] None None)
       [mkOLeg false [0%Z] [4591870180066957722%Z] true
          [([0%Z], [4591870180066957722%Z]); ([1%Z], [4603579539098121011%Z])]
          (mkOSnap [([2%Z], [[1%Z]])] [] (Some [0%Z]) (Some [0%Z]));
        mkOLeg true [0%Z] [4598175219545276416%Z] true
          [([0%Z], [4598175219545276416%Z]); ([1%Z], [4603579539098121011%Z])]
          (mkOSnap [([2%Z], [[1%Z]])] [] (Some [1%Z]) (Some [0%Z]));
        mkOLeg false [1%Z] [4603579539098121011%Z] true
          [([0%Z], [4598175219545276416%Z]); ([1%Z], [4603579539098121011%Z])]
          (mkOSnap [([1%Z], [[0%Z]])] [] (Some [2%Z]) (Some [1%Z]))])
    1%Z
    [[mkTGen TBounding true []; mkTGen TNearby true []; mkTGen TSurplus true []; mkTGen TBoundary true []];
     [mkTGen TBounding true [[[0%Z]; [1%Z]]]; mkTGen TNearby true []; mkTGen TSurplus true [];
      mkTGen TBoundary true [[[0%Z]]]];
     [mkTGen TBounding true []; mkTGen TNearby true [[[0%Z]; [1%Z]]]; mkTGen TSurplus true [];
      mkTGen TBoundary true [[[0%Z]]]];
     [mkTGen TBounding true []; mkTGen TNearby true [[[1%Z]; [0%Z]]]; mkTGen TSurplus false [];
      mkTGen TBoundary true [[[1%Z]]]]]
    [[]; [[[1%Z]]]; []; []].

Example run_cells_partition_nonvacuous :
  check_tcase_run ex_tcase = true
  /\ (* a run in which the nearby tagger misses the partner is rejected *)
     check_tcase_run (mkTCase (tc_o ex_tcase) 1%Z
                        (map (map (fun g => match tg_kind g with
                                            | TNearby => mkTGen TNearby true []
                                            | _ => g end)) (tc_gens ex_tcase)) (tc_vetos ex_tcase)) = false
  /\ (* a cell-veto event that hits a unit in a nearby cell (treated twice) is rejected *)
     check_tcase_run (mkTCase (tc_o ex_tcase) 1%Z (tc_gens ex_tcase) [[]; []; [[[1%Z]]]; []]) = false.
Proof. vm_compute. auto. Qed.

(** the targets of every committed cell-veto event of an accepted run are among the model's cell-veto targets of the
    replayed state (occupants of a cell reached from a walker item), hence -- by [run_cells_partition] -- not among the
    targets of the nearby and surplus taggers *)
Theorem run_veto_targets_far :
  forall c : tcase, check_tcase_run c = true ->
  exists states,
    run_case (tc_o c) = Some states
    /\ Forall2 (fun sc vs => forall tg u, In tg vs -> In u tg ->
                              In u (cell_veto_targets list_Z_eqb (case_cs c) (fst sc))) states (tc_vetos c).
Proof. exact OccupancyRunProofs.run_veto_targets_far. Qed.
Print Assumptions run_veto_targets_far.

Example torus_cs_ok_nonvacuous : cellsys_ok (torus_cs [6%Z; 6%Z; 6%Z] 2) /\ cellsys_ok (torus_cs [3%Z; 5%Z; 7%Z] 1).
Proof. split; apply torus_cs_ok; repeat constructor; discriminate. Qed.
