(** * Props/C01.v — Sampled configurations follow the Boltzmann distribution (PARTIAL BY NATURE).

    What is proved here is the algebraic core of global balance, about the models
    JF.Model.Balance (this property) and JF.Model.Lifting (C05):
      - survival_law_partial: event-time sampling with the budget -ln(1-u)/beta realises the factor's
        Metropolis filter (probability that the event distance exceeds d = exp(-beta Eplus d));
      - superposition_partial: the earliest of independent candidates has the summed uphill energy;
      - jump_balance_partial (+ inflow_is_negative_part, jump_balance_factors, pair_factor): the jump part
        of the stationarity condition of the lifted process at a fixed configuration, as a COROLLARY of
        C05's flow balance (LiftingProofs.flow_balance_main = Props/C05.v flow_balance);
      - thinning with a bounding rate is C04's [thinning_exact] (Props/C04.v), not repeated here.
    The glue that feeds these (budget = expovariate(beta) with the configured beta, separation = target −
    active through the minimum image, candidate time = stamp + displacement, both units time-sliced, the
    velocity handed to the unit the lifting selected) is tied to the real event handlers by the
    correspondence JF.Model.HandlersCases.check_hcase (harness/c01.py).

    FULL STATEMENT (NOT proved, not decidable by this technique — statistical / measure-theoretic):
      for every supported realisation of the same physical model, the configurations handed to the output
      handlers at sampling events are distributed as exp(-beta U); observables converge to the
      Reference*.dat distributions; all algorithmic variants agree.
    Missing between the theorems below and that statement: irreducibility (end-of-chain resampling), the
    transport (free-flight) part of the generator and its combination with the jump part into
    stationarity of exp(-beta U) x uniform lifting, convergence of finite-run histograms, agreement of the
    variants.  "Interval length = probability" and "volume of a box of independent draws = product of the
    side lengths" are the (unproved, definitional) reading of the statements below. *)
From Coq Require Import Reals QArith List.
Require Import JF.Base.QInterval JF.Model.Lifting JF.Proofs.LiftingProofs JF.Model.Balance JF.Proofs.BalanceProofs.
Import ListNotations.

(** ** survival_law: for the uniform draw u in [0,1) the budget exceeds the cumulative uphill energy
    Eplus d exactly for u in (1 - exp(-beta Eplus d), 1) — a sub-interval of [0,1) of length
    exp(-beta Eplus d).  (The end point itself has length 0; [galois] form: survival_law_disp.) *)
Theorem survival_law_partial : forall (beta : R) (Ep : R -> R) (d : R),
    (0 < beta)%R -> (0 <= Ep d)%R ->
    (forall u, (0 <= u < 1)%R -> ((Ep d < budget beta u)%R <-> (1 - survival beta (Ep d) < u < 1)%R)) /\
    (0 <= 1 - survival beta (Ep d) < 1)%R /\
    (1 - (1 - survival beta (Ep d)) = exp (- beta * Ep d))%R.
Proof. exact survival_law_thm. Qed.
Print Assumptions survival_law_partial.

Theorem survival_law_disp : forall (beta : R) (f : factor) (d : R),
    (0 < beta)%R -> galois f -> (0 <= Eplus f d)%R ->
    forall u, (0 <= u < 1)%R ->
              ((d < disp f (budget beta u))%R <-> (1 - survival beta (Eplus f d) < u < 1)%R).
Proof. exact survival_law_disp_thm. Qed.
Print Assumptions survival_law_disp.

Example survival_law_nonvacuous :
  (0 < 2)%R /\ (0 <= (fun d : R => 3 * d) 1)%R /\ (0 <= 1 / 2 < 1)%R /\
  galois (fun d : R => 3 * d, fun E : R => E / 3)%R.
Proof.
  repeat split; try Lra.lra.
  - unfold disp, Eplus; simpl. intro. Lra.lra.
  - unfold disp, Eplus; simpl. intro. Lra.lra.
Qed.

(** ** superposition: for finitely many factors with independent uniform draws, the earliest candidate
    distance exceeds d iff every candidate does, iff the vector of draws lies in the box
    prod_i (1 - exp(-beta Eplus_i d), 1); the product of the side lengths is exp(-beta sum_i Eplus_i d). *)
Theorem superposition_partial : forall (beta d : R) (fs : list factor) (us : list R),
    (0 < beta)%R -> length us = length fs -> Forall galois fs -> Forall (fun u => (0 <= u < 1)%R) us ->
    Forall (fun f => (0 <= Eplus f d)%R) fs ->
    (earliest_exceeds d (candidates beta fs us) <-> in_box beta d fs us) /\
    rprod (map (fun f => (1 - (1 - survival beta (Eplus f d)))%R) fs) =
    exp (- beta * rsum (map (fun f => Eplus f d) fs)).
Proof. exact superposition_thm. Qed.
Print Assumptions superposition_partial.

(** "earliest exceeds" is "d < minimum" for a non-empty list of candidates *)
Theorem earliest_is_minimum : forall d c cs,
    (d < fold_right Rmin c cs)%R <-> earliest_exceeds d (c :: cs).
Proof.
  intros d c cs. unfold earliest_exceeds. rewrite lmin_gt. split.
  - intros (A & B). constructor; auto.
  - intros Hf. inversion Hf; auto.
Qed.
Print Assumptions earliest_is_minimum.

Example superposition_nonvacuous :
  let f1 : factor := (fun d : R => 3 * d, fun E : R => E / 3)%R in
  let f2 : factor := (fun d : R => d, fun E : R => E)%R in
  length [(1/2)%R; (1/4)%R] = length [f1; f2] /\ Forall galois [f1; f2] /\
  Forall (fun u => (0 <= u < 1)%R) [(1/2)%R; (1/4)%R] /\ Forall (fun f => (0 <= Eplus f 1)%R) [f1; f2].
Proof.
  simpl. split; [reflexivity|]. split; [|split].
  - constructor; [|constructor; [|constructor]];
      unfold galois, disp, Eplus; simpl; intros; split; intro; Lra.lra.
  - constructor; [|constructor; [|constructor]]; Lra.lra.
  - constructor; [|constructor; [|constructor]]; unfold Eplus; simpl; Lra.lra.
Qed.

(** ** jump_balance: for a factor with derivative table t (sum_k g_k = 0), every lifting scheme and every
    unit j of the table:  g_j - max 0 g_j + inflow_j = 0,  where
    inflow_j = sum_{a : g_a > 0} g_a * len {deciding draws for which the scheme run with a active selects j}
    ([flow] of C05; for g_j > 0 no draw selects j).  Corollary of C05 flow_balance. *)
Theorem jump_balance_partial : forall (s : scheme) (t : utable) (j : nat),
    balanced t -> (j < length t)%nat -> jump_term s t j == 0.
Proof. exact jump_balance_thm. Qed.
Print Assumptions jump_balance_partial.

Theorem inflow_is_negative_part : forall (s : scheme) (t : utable) (j : nat),
    balanced t -> (j < length t)%nat -> inflow s t j == weight (- rate_at j t).
Proof. exact inflow_is_negative_part_thm. Qed.
Print Assumptions inflow_is_negative_part.

Theorem jump_balance_factors : forall (fs : list (scheme * utable * nat)),
    Forall (fun f => balanced (snd (fst f)) /\ (snd f < length (snd (fst f)))%nat) fs ->
    qsum (map (fun f => jump_term (fst (fst f)) (snd (fst f)) (snd f)) fs) == 0.
Proof. exact jump_balance_factors_thm. Qed.
Print Assumptions jump_balance_factors.

Definition t_ex : utable := [(3#2, 10%Z); (-(1#2), 11%Z); (0, 12%Z); (1#2, 13%Z); (-(3#2), 14%Z)].

Example jump_balance_nonvacuous :
  balanced t_ex /\ (4 < length t_ex)%nat /\
  Qeq_bool (inflow Ratio t_ex 4) (3#2) = true /\ Qeq_bool (inflow InsideFirst t_ex 1) (1#2) = true /\
  Qeq_bool (inflow OutsideFirst t_ex 0) 0 = true /\ Qeq_bool (jump_term InsideFirst t_ex 4) 0 = true.
Proof. unfold balanced. repeat split; vm_compute; try reflexivity; try discriminate; try Lia.lia. Qed.

(** pair factor (two units, g_2 = -g_1 < 0 < g_1): the velocity is handed over with probability 1 by every
    scheme — what TwoLeafUnitEventHandler does without consulting a lifting object. *)
Theorem pair_factor : forall (s : scheme) (g : Q) (i1 i2 : Z),
    0 < g ->
    balanced (pair_table g i1 i2) /\
    len (sel_int s (pair_table g i1 i2) 0 0) == 1 /\
    jump_term s (pair_table g i1 i2) 0 == 0 /\ jump_term s (pair_table g i1 i2) 1 == 0 /\
    (forall u1 u2, draw_range s u1 u2 -> l_run s u1 u2 (activate 0 (pair_table g i1 i2)) = LOk 0 i2).
Proof. exact pair_factor_thm. Qed.
Print Assumptions pair_factor.

Example pair_factor_nonvacuous :
  0 < (7#3) /\ draw_range Ratio (1#2) (1#3) /\
  l_run Ratio (1#2) (1#3) (activate 0 (pair_table (7#3) 5 6)) = LOk 0 6%Z.
Proof. unfold draw_range, draw_in, mem_oc. simpl. repeat split; vm_compute; try reflexivity; try discriminate. Qed.
