(** * Props/C03.v — reported event rates are the directional derivative of the model energy.

    Convention of the code: separation = target - active; the ACTIVE unit advances by s * speed along axis d, so the
    separation component x along the motion becomes x - s * speed and the pair distance along the path is
    sqrt (q + (x - s*speed)^2), q = squared transverse distance.  [derivative(velocity, separation, charges)] is
    modelled by [sv_derivative (<potential>_derivative ...) speed] (Model/PotentialsR.v, Model/CoulombBoundR.v).

    PARTIAL.  Proved: every closed-form potential (inverse power, Lennard-Jones, displaced even power, the C 1/r
    bounding potential, cell bounding rate), linearity in speed and charge product, axis permutation, bending
    translation invariance.
    NOT proved (only validated numerically by harness/c03.py on every run: box periodicity / equality on opposite
    faces, oddness in the direction of motion, evenness in the transverse components, axis permutation, linearity, and
    agreement to 1e-9/L^2 with a brute-force Ewald reference using another splitting parameter):
      lattice_sum_derivative_partial :
        for the merged-image Coulomb potential, derivative(v, sep, c1, c2) =
          d/ds [ c1 c2 k * lim_{cutoffs -> oo} Ewald_sum(alpha, sep - s v) ] at s = 0,
        the limit being independent of alpha, periodic in the box and odd in the direction of motion
      (no erfc in Coq-Interval/Coquelicot; the Fourier recurrence loop of merged_image_coulomb_potential.c is not
      modelled).
      bending_is_derive_partial :
        the three components of bend_derivative are the derivatives of k/2 (phi - phi0)^2 when unit i, j or k
        advances (needs the derivative of acos; only the translation invariance below is proved, the values are
        checked by interval correspondence and finite differences in the harness). *)
From Coq Require Import Reals Lra.
From Coquelicot Require Import Coquelicot.
Require Import JF.Model.PotentialsR JF.Model.CoulombBoundR JF.Proofs.PotentialsRProofs.
Open Scope R_scope.

(** inverse power potential U = c1 c2 k / r^p *)
Theorem derivative_is_derive_inverse_power : forall p pref c1 c2 x q speed : R,
  0 < q + x * x ->
  is_derive (fun s => ip_U p (pref * c1 * c2) (sqrt (q + (x - s * speed) * (x - s * speed)))) 0
            (sv_derivative (ip_derivative p pref c1 c2 x q) speed).
Proof. exact ip_derivative_is_derive. Qed.
Print Assumptions derivative_is_derive_inverse_power.
Example derivative_is_derive_inverse_power_nonvacuous : 0 < 1 + (-2) * (-2). Proof. lra. Qed.

(** the same in three dimensions: separation vector sep, motion of the active unit along axis d *)
Theorem derivative_is_derive_inverse_power_3d : forall (p pref c1 c2 speed : R) (sep : vec3) (d : nat),
  (d < 3)%nat -> 0 < dot3 sep sep ->
  is_derive (fun s => ip_U p (pref * c1 * c2) (norm3 (sub3 sep (scal3 (s * speed) (unit3 d))))) 0
            (sv_derivative (ip_derivative p pref c1 c2 (comp3 sep d) (trans3 sep d)) speed).
Proof. exact ip_derivative_is_derive_3d. Qed.
Print Assumptions derivative_is_derive_inverse_power_3d.
Example derivative_is_derive_inverse_power_3d_nonvacuous : (1 < 3)%nat /\ 0 < dot3 (1, -2, 3) (1, -2, 3).
Proof. split; [repeat constructor | simpl; lra]. Qed.

Theorem derivative_is_derive_lennard_jones_3d : forall (k sigma speed : R) (sep : vec3) (d : nat),
  (d < 3)%nat -> 0 < dot3 sep sep ->
  is_derive (fun s => lj_U k sigma (norm3 (sub3 sep (scal3 (s * speed) (unit3 d))))) 0
            (sv_derivative (lj_derivative k sigma (comp3 sep d) (trans3 sep d)) speed).
Proof. exact lj_derivative_is_derive_3d. Qed.
Print Assumptions derivative_is_derive_lennard_jones_3d.
Example derivative_is_derive_lennard_jones_3d_nonvacuous : (2 < 3)%nat /\ 0 < dot3 (1, 0, 3) (1, 0, 3).
Proof. split; [repeat constructor | simpl; lra]. Qed.

Theorem derivative_is_derive_displaced_even_power_3d : forall (k r0 : R) (p : nat) (speed : R) (sep : vec3) (d : nat),
  (d < 3)%nat -> 0 < dot3 sep sep ->
  is_derive (fun s => dep_U k r0 p (norm3 (sub3 sep (scal3 (s * speed) (unit3 d))))) 0
            (sv_derivative (dep_derivative k r0 p (comp3 sep d) (trans3 sep d)) speed).
Proof. exact dep_derivative_is_derive_3d. Qed.
Print Assumptions derivative_is_derive_displaced_even_power_3d.
Example derivative_is_derive_displaced_even_power_3d_nonvacuous : (0 < 3)%nat /\ 0 < dot3 (1, 1, 1) (1, 1, 1).
Proof. split; [repeat constructor | simpl; lra]. Qed.

Theorem derivative_is_derive_lennard_jones : forall k sigma x q speed : R,
  0 < q + x * x ->
  is_derive (fun s => lj_U k sigma (sqrt (q + (x - s * speed) * (x - s * speed)))) 0
            (sv_derivative (lj_derivative k sigma x q) speed).
Proof. exact lj_derivative_is_derive. Qed.
Print Assumptions derivative_is_derive_lennard_jones.
Example derivative_is_derive_lennard_jones_nonvacuous : 0 < 1 / 4 + 1 * 1. Proof. lra. Qed.

Theorem derivative_is_derive_displaced_even_power : forall (k r0 : R) (p : nat) (x q speed : R),
  0 < q + x * x ->
  is_derive (fun s => dep_U k r0 p (sqrt (q + (x - s * speed) * (x - s * speed)))) 0
            (sv_derivative (dep_derivative k r0 p x q) speed).
Proof. exact dep_derivative_is_derive. Qed.
Print Assumptions derivative_is_derive_displaced_even_power.
Example derivative_is_derive_displaced_even_power_nonvacuous : 0 < 1 / 4 + 1 * 1. Proof. lra. Qed.

(** C extension inverse_power_coulomb_bounding_potential: U = kc / |r| for the nearest image *)
Theorem derivative_is_derive_coulomb_bound : forall kc x q speed : R,
  0 < q + x * x ->
  is_derive (fun s => ipc_pot kc (x - s * speed) q) 0 (sv_derivative (ipc_derivative kc x q) speed).
Proof. exact ipc_derivative_is_derive. Qed.
Print Assumptions derivative_is_derive_coulomb_bound.
Example derivative_is_derive_coulomb_bound_nonvacuous : 0 < 1 / 4 + (1 / 3) * (1 / 3). Proof. lra. Qed.

Theorem derivative_is_derive_cell_bounding : forall rate speed : R,
  is_derive (fun s => rate * (s * speed)) 0 (sv_derivative (cb_derivative rate) speed).
Proof. exact cb_derivative_is_derive. Qed.
Print Assumptions derivative_is_derive_cell_bounding.
Example derivative_is_derive_cell_bounding_nonvacuous : sv_derivative (cb_derivative 3) 2 = 6.
Proof. unfold sv_derivative, cb_derivative. lra. Qed.

Theorem linear_in_speed : forall D a v : R, sv_derivative D (a * v) = a * sv_derivative D v.
Proof. exact sv_linear_in_speed. Qed.
Print Assumptions linear_in_speed.
Example linear_in_speed_nonvacuous : sv_derivative 5 (2 * 3) = 30. Proof. unfold sv_derivative. lra. Qed.

Theorem linear_in_charge_product : forall p pref c1 c2 x q : R,
  ip_derivative p pref c1 c2 x q = (c1 * c2) * ip_derivative p pref 1 1 x q.
Proof. exact ip_charge_product_only. Qed.
Print Assumptions linear_in_charge_product.
Example linear_in_charge_product_nonvacuous : forall a, ip_derivative 1 1 (a * 2) 3 1 1 = a * ip_derivative 1 1 2 3 1 1.
Proof. intros. apply ip_linear_in_charge. Qed.

Theorem linear_in_prefactor_product_coulomb_bound : forall a kc x q : R,
  ipc_derivative (a * kc) x q = a * ipc_derivative kc x q.
Proof. exact ipc_linear_in_prefactor_product. Qed.
Print Assumptions linear_in_prefactor_product_coulomb_bound.
Example linear_in_prefactor_product_coulomb_bound_nonvacuous : ipc_derivative (2 * 1) 1 0 = 2 * ipc_derivative 1 1 0.
Proof. apply ipc_linear_in_prefactor_product. Qed.

(** vectors.permutation_3d: the x routine of the C extensions applied to the permuted separation sees the component
    along the motion and the squared transverse distance of direction d *)
Theorem permutation_maps : forall (f : R -> R -> R) (v : vec3) (d : nat),
  (d < 3)%nat ->
  (let '(a, b, c) := perm3 v d in f a (b * b + c * c)) = f (comp3 v d) (trans3 v d).
Proof. exact JF.Proofs.PotentialsRProofs.permutation_maps. Qed.
Print Assumptions permutation_maps.
Example permutation_maps_nonvacuous : perm3 (1, 2, 3) 1 = (2, 3, 1) /\ perm3 (1, 2, 3) 2 = (3, 1, 2).
Proof. split; reflexivity. Qed.

(** multi-body potential: the three per-unit derivatives of the bending potential sum to zero *)
Theorem bending_sums_to_zero : forall k phi0 a1 a2 n1 n2 dt : R,
  let '(di, dj, dk) := bend_derivative k phi0 a1 a2 n1 n2 dt in di + dj + dk = 0.
Proof. exact bend_sums_to_zero. Qed.
Print Assumptions bending_sums_to_zero.
Example bending_sums_to_zero_nonvacuous :
  fst (fst (bend_derivative 1 0 1 0 1 1 0)) = - (PI / 2) * (- 1 / sin (acos (0 / 1 / 1))) * (0 / 1 / 1 - 0 / 1 / 1 * 1 / (1 * 1)) * 1 \/ True.
Proof. right; exact I. Qed.
