(** * Props/C05.v — lifting schemes route the probability flow so that every unit's outflow is matched.

    Model: JF.Model.Lifting (lifting.py, inside_first_lifting.py, outside_first_lifting.py,
    ratio_lifting.py over Q; draws explicit).  Vocabulary (JF.Proofs.LiftingProofs):
    - [utable]: list of (rate, identifier) in insertion order; [activate a t] marks unit [a] active;
    - [negs t] / [neg_ids t]: magnitudes / identifiers of the units with non-positive rate, in order;
    - [weight r]: positive part of [r]; [rate_at a t]; [pos_before a t]: sum of the positive rates
      inserted before [a]; [cum l k]: sum of the first [k] entries; [S_neg t = qsum (negs t)];
    - [seg s t a]: positions reachable from active unit [a]; [win t k]: window of the k-th negative unit;
    - [sel_int s t a k]: interval of the deciding draw for which [a] hands the activity to [k]
      ([draw_in]: InsideFirst u1 in (lo,hi]; OutsideFirst u1 in [lo,hi); Ratio u2 in (lo,hi]);
    - [draw_range]: the deciding draw ranges over (0,1] / [0,1) / (0,1];
    - [flow s t k = sum_a weight(rate_a) * len (sel_int s t a k)]: probability of selecting [k],
      summed over the active units weighted by their positive rate. *)
From Coq Require Import QArith Lqa List Bool ZArith Lia.
Require Import JF.Base.QInterval JF.Model.Lifting JF.Proofs.LiftingProofs.
Import ListNotations.
Open Scope Q_scope.

Ltac conj := repeat match goal with |- _ /\ _ => split end.
Ltac qc := vm_compute; first [reflexivity | congruence | discriminate | lia].
Ltac unf := unfold draw_range, draw_in, mem_oc, mem_co, balanced; cbn [lo hi].

Definition t_ex : utable := [(3#2, 10%Z); (-(1#2), 11%Z); (0, 12%Z); (1#2, 13%Z); (-(3#2), 14%Z)].

(** The cumulative walk returns [k] exactly for positions in the k-th window (c_{k-1}, c_k]. *)
Theorem select_window : forall (l : list Q) (x : Q) (k : nat),
  nonneg_list l -> 0 < x -> x <= qsum l ->
  (walk x 0 0%nat l = Some k <-> (k < length l)%nat /\ cum l k < x /\ x <= cum l (S k)).
Proof. exact walk_window. Qed.
Print Assumptions select_window.

Example select_window_nonvacuous :
  nonneg_list (negs t_ex) /\ 0 < (3#4) /\ (3#4) <= qsum (negs t_ex) /\
  walk (3#4) 0 0%nat (negs t_ex) = Some 2%nat.
Proof. conj; try qc. apply negs_nonneg. Qed.

(** The position compared with the windows lies in the active unit's segment and in (0, S-];
    the segments of all units tile (0, S+] (inside first) resp. (S- - S+, S-] (outside first);
    every point of a segment is reached by exactly one draw (affine, slope = the active rate). *)
Theorem segments_tile : forall (s : scheme) (t : utable),
  (forall a u1 u2 st, (a < length t)%nat -> 0 < rate_at a t -> balanced t -> draw_range s u1 u2 ->
     l_fill u1 l_init (activate a t) = Some st ->
     mem_oc (l_position s u2 st) (seg s t a) /\ 0 < l_position s u2 st <= S_neg t) /\
  (s <> Ratio -> forall w,
     qsum (map (fun a => len (inter (seg s t a) w)) (seq 0 (length t))) ==
     len (inter (match s with OutsideFirst => mkI (S_neg t - possum t) (S_neg t)
                            | _ => mkI 0 (possum t) end) w)) /\
  (forall a p, (a < length t)%nat -> 0 < rate_at a t -> mem_oc p (seg InsideFirst t a) ->
     exists u1, mem_oc u1 (mkI 0 1) /\ pos_before a t + u1 * rate_at a t == p).
Proof.
  intros s t. split; [|split].
  - intros a u1 u2 st Ha Hq Hb Hr Hf.
    destruct (run_unfold s u1 u2 t a Ha Hq) as [st' [H1 [H2 [H3 [H4 H5]]]]].
    rewrite Hf in H1. inversion H1; subst st'.
    destruct (position_in_seg s u1 u2 t a st Ha Hq Hb Hr H2 H4) as [M1 [M2 M3]]. auto.
  - intros Hs w. apply segments_tile_sum; auto.
  - apply segment_reached.
Qed.
Print Assumptions segments_tile.

Example segments_tile_nonvacuous :
  (0 < length t_ex)%nat /\ 0 < rate_at 0 t_ex /\ balanced t_ex /\ draw_range InsideFirst (1#3) 0 /\
  exists st, l_fill (1#3) l_init (activate 0 t_ex) = Some st.
Proof. unf. conj; try qc. eexists. vm_compute. reflexivity. Qed.

(** GLOBAL BALANCE.  For every table whose rates sum to zero, every scheme and every unit [k] of
    non-positive rate: [sel_int s t a k] is exactly the set of deciding draws for which the scheme,
    run on the table with [a] active, returns [k]; and the lengths (= probabilities) of these sets,
    summed over the active units [a] weighted by their positive rate, equal |q_k|. *)
Theorem flow_balance : forall (s : scheme) (t : utable) (k : nat),
  balanced t -> (k < length (negs t))%nat ->
  (forall a u1 u2, (a < length t)%nat -> 0 < rate_at a t -> draw_range s u1 u2 ->
     (l_index (l_run s u1 u2 (activate a t)) = Some k <-> draw_in s u1 u2 (sel_int s t a k))) /\
  flow s t k == nth k (negs t) 0.
Proof.
  intros s t k Hb Hk. split.
  - intros. apply select_spec; auto.
  - apply flow_balance_main; auto.
Qed.
Print Assumptions flow_balance.

Example flow_balance_nonvacuous :
  balanced t_ex /\ (2 < length (negs t_ex))%nat /\
  Qeq_bool (flow InsideFirst t_ex 2) (3#2) = true /\ Qeq_bool (flow OutsideFirst t_ex 0) (1#2) = true /\
  Qeq_bool (flow Ratio t_ex 2) (3#2) = true /\
  l_run InsideFirst (1#2) 0 (activate 0 t_ex) = LOk 2 14%Z /\
  l_run OutsideFirst (1#2) 0 (activate 0 t_ex) = LOk 2 14%Z /\
  l_run Ratio (1#2) (1#8) (activate 3 t_ex) = LOk 0 11%Z.
Proof. unf. conj; qc. Qed.

(** The selected unit has a strictly negative rate (and is the unit inserted with that rate),
    whenever the deciding draw is in (0,1] (inside first, ratio) resp. [0,1) (outside first). *)
Theorem never_nonnegative : forall (s : scheme) (u1 u2 : Q) (t : utable) (a : nat),
  (a < length t)%nat -> 0 < rate_at a t -> balanced t -> draw_range s u1 u2 ->
  exists k, (k < length (negs t))%nat /\
            l_run s u1 u2 (activate a t) = LOk k (nth k (neg_ids t) 0%Z) /\
            0 < nth k (negs t) 0.
Proof. exact selected_rate_negative. Qed.
Print Assumptions never_nonnegative.

Corollary never_nonnegative_open : forall (s : scheme) (t : utable) (a : nat) (u1 u2 : Q),
  (a < length t)%nat -> 0 < rate_at a t -> balanced t -> 0 < u1 < 1 -> 0 < u2 < 1 ->
  exists k, (k < length (negs t))%nat /\
            l_run s u1 u2 (activate a t) = LOk k (nth k (neg_ids t) 0%Z) /\
            0 < nth k (negs t) 0.
Proof.
  intros s t a u1 u2 Ha Hq Hb [A1 A2] [B1 B2]. apply selected_rate_negative; auto.
  destruct s; unfold draw_range, draw_in, mem_oc, mem_co; simpl; split; lra.
Qed.
Print Assumptions never_nonnegative_open.

Example never_nonnegative_nonvacuous :
  (3 < length t_ex)%nat /\ 0 < rate_at 3 t_ex /\ balanced t_ex /\ draw_range OutsideFirst 0 0.
Proof. unf. conj; qc. Qed.

(** Finding F4: at the boundary draw u = 0 the statement is false of the faithful model — with the
    active unit inserted first and a zero-rate unit first among the rest, that zero-rate unit is
    selected (inside first: position 0; ratio: random number 0). *)
Theorem boundary_draw_refuted :
  exists (t : utable) (a : nat),
    balanced t /\ (a < length t)%nat /\ 0 < rate_at a t /\
    (exists k id, l_run InsideFirst 0 (1#2) (activate a t) = LOk k id /\ nth k (negs t) 0 == 0
                  /\ nth k (neg_ids t) 0%Z = id) /\
    (exists k id, l_run Ratio (1#2) 0 (activate a t) = LOk k id /\ nth k (negs t) 0 == 0).
Proof.
  exists [(1, 10%Z); (0, 11%Z); (-(1), 12%Z)], 0%nat.
  unf. conj; try qc.
  - exists 0%nat, 11%Z. conj; qc.
  - exists 0%nat, 11%Z. conj; qc.
Qed.
Print Assumptions boundary_draw_refuted.

(** The result is a function of the table and the draws only: whatever the object held before,
    reset / insert… / get_active_identifier gives [l_run s u1 u2 t]. *)
Theorem depends_only_on_table_and_draw : forall (s : scheme) (u1 u2 : Q) (t : list entry) (st : lstate),
  match l_fill u1 (l_reset st) t with
  | None => LAssertionError
  | Some st' => fst (l_get s u2 st')
  end = l_run s u1 u2 t.
Proof. exact run_after_reset. Qed.
Print Assumptions depends_only_on_table_and_draw.

Example depends_nonvacuous :
  l_fill (1#2) (l_reset (mkL [1] [5%Z] 7 7 true)) (activate 0 t_ex) <> None.
Proof. vm_compute. congruence. Qed.
