(** * Props/C15.v — Periodic wrapping and minimum-image separations (property C15).

    Model: [JF.Model.Periodic] (binary64; Python's float [%] transcribed in [JF.Base.PyFloat]).
    [wrap x L]  = correct_position_entry   (current code, i.e. with the repair of finding F1),
    [sep s L]   = correct_separation_entry ((s + L/2) % L - L/2 with L/2 = fl(L / 2.0)),
    [RN] rounding to nearest-even, [ulp64] unit in the last place of binary64.
    [None] models Python's ZeroDivisionError (impossible for L > 0). *)
From Coq Require Import ZArith Bool List Reals Lia Lra.
From Flocq Require Import Core.Core IEEE754.BinarySingleNaN.
Require Import JF.Base.F64 JF.Base.PyFloat JF.Model.Periodic JF.Proofs.F64Facts JF.Proofs.PeriodicProofs.
Import ListNotations.
Local Open Scope R_scope.

(** ** Corrected positions lie in the half-open range [0, L) — for every finite entry and every
    finite positive system length (including subnormal ones). *)
Theorem wrap_range : forall x L : f64,
  ffinite x = true -> ffinite L = true -> 0 < B2R L ->
  exists w, wrap x L = Some w /\ ffinite w = true /\ 0 <= B2R w < B2R L.
Proof. exact PeriodicProofs.wrap_range_ex. Qed.
Print Assumptions wrap_range.
Example wrap_range_nonvacuous :
  (ffinite p_m025 = true /\ ffinite fone = true /\ 0 < B2R fone) /\
  match wrap p_m025 fone with Some w => feqb_bits w p_075 | None => false end = true.
Proof. split; [exact sample_wrap_hyps|vm_compute; reflexivity]. Qed.

(** Documentation of the repaired finding F1: Python's float modulo alone returns L for a tiny
    negative entry (x = -1e-17, L = 1.0); [wrap] maps this to 0.0. *)
Theorem wrap_raw_hits_L :
  exists x L : f64, ffinite x = true /\ ffinite L = true /\ 0 < B2R L /\
    match wrap_raw x L with Some m => feqb_bits m L | None => false end = true /\
    match wrap x L with Some w => feqb_bits w fzero | None => false end = true.
Proof. exact PeriodicProofs.wrap_raw_hits_L. Qed.
Print Assumptions wrap_raw_hits_L.
Example wrap_raw_hits_L_witness :
  match wrap_raw f_m1em17 fone with Some m => feqb_bits m fone | None => false end = true.
Proof. vm_compute; reflexivity. Qed.

(** ** The corrected position is congruent to the entry modulo L: exactly for non-negative
    entries, to within half a unit in the last place of L for negative ones (one rounded addition). *)
Theorem wrap_congruent : forall x L : f64,
  ffinite x = true -> ffinite L = true -> 0 < B2R L ->
  exists (w : f64) (k : Z), wrap x L = Some w /\
    Rabs (B2R w - (B2R x - IZR k * B2R L)) <= / 2 * ulp64 (B2R L) /\
    (0 <= B2R x -> B2R w = B2R x - IZR k * B2R L).
Proof. exact PeriodicProofs.wrap_congruent_ex. Qed.
Print Assumptions wrap_congruent.
Example wrap_congruent_nonvacuous : ffinite p_m025 = true /\ ffinite fone = true /\ 0 < B2R fone.
Proof. exact sample_wrap_hyps. Qed.

(** The representative in [0, L) is unique. *)
Theorem representative_unique : forall (L a b : R) (k : Z),
  0 < L -> 0 <= a < L -> 0 <= b < L -> a = b - IZR k * L -> a = b.
Proof. exact PeriodicProofs.representative_unique. Qed.
Print Assumptions representative_unique.
Example representative_unique_nonvacuous : 0 < 1 /\ 0 <= / 2 < 1 /\ / 2 = / 2 - IZR 0 * 1.
Proof. simpl; lra. Qed.

(** ** Correcting a corrected position changes nothing (same float, bit for bit). *)
Theorem wrap_idempotent : forall x L w : f64,
  ffinite x = true -> ffinite L = true -> 0 < B2R L ->
  wrap x L = Some w -> wrap w L = Some w.
Proof. exact PeriodicProofs.wrap_idempotent. Qed.
Print Assumptions wrap_idempotent.
Example wrap_idempotent_nonvacuous :
  (ffinite p_m025 = true /\ ffinite fone = true /\ 0 < B2R fone) /\
  match wrap p_m025 fone with Some w => feqb_bits w p_075 | None => false end = true /\
  match wrap p_075 fone with Some w => feqb_bits w p_075 | None => false end = true.
Proof. split; [exact sample_wrap_hyps|split; vm_compute; reflexivity]. Qed.

(** ** Corrected separations.  Side conditions: L/2 is computed exactly (true for every
    L >= 2^-1021, see [half_exact]) and |s| + L <= 2^1023 (no overflow in s + L/2). *)
Theorem half_exact : forall L : f64, ffinite L = true -> bpow radix2 (-1021) <= B2R L ->
  B2R (half L) = B2R L / 2.
Proof. exact PeriodicProofs.half_exact. Qed.
Print Assumptions half_exact.
Example half_exact_nonvacuous : ffinite fone = true /\ bpow radix2 (-1021) <= B2R fone.
Proof. split; [apply fone_finite|rewrite fone_R; apply bpow_m1021_le_1]. Qed.

Theorem sep_bound : forall s L : f64,
  ffinite s = true -> ffinite L = true -> 0 < B2R L ->
  B2R (half L) = B2R L / 2 -> Rabs (B2R s) + B2R L <= bpow radix2 1023 ->
  exists d, sep s L = Some d /\ ffinite d = true /\ Rabs (B2R d) <= B2R L / 2.
Proof. exact PeriodicProofs.sep_bound_ex. Qed.
Print Assumptions sep_bound.
Example sep_bound_nonvacuous :
  (ffinite p_075 = true /\ ffinite fone = true /\ 0 < B2R fone /\
   B2R (half fone) = B2R fone / 2 /\ Rabs (B2R p_075) + B2R fone <= bpow radix2 1023) /\
  match sep p_075 fone with Some d => feqb_bits d p_m025 | None => false end = true.
Proof. split; [exact sample_sep_hyps|vm_compute; reflexivity]. Qed.

(** Domain documentation: for a subnormal L with an odd number of units L/2 is not a float and
    the bound fails (L = 3 * 2^-1074, s = 2^-1074 gives -2 * 2^-1074). *)
Theorem sep_bound_tiny_L_refuted :
  exists s L : f64, ffinite s = true /\ ffinite L = true /\ 0 < B2R L /\
    match sep s L with Some d => feqb_bits d (fopp f_u2) | None => false end = true /\
    B2R L / 2 < Rabs (B2R (fopp f_u2)).
Proof. exact PeriodicProofs.sep_bound_tiny_L_refuted. Qed.
Print Assumptions sep_bound_tiny_L_refuted.
Example sep_bound_tiny_L_witness :
  match sep f_u1 f_u3 with Some d => feqb_bits d (fopp f_u2) | None => false end = true.
Proof. vm_compute; reflexivity. Qed.

(** Congruence of the corrected separation: three roundings (the sum s + L/2, the modulo's
    possible addition of L, the final subtraction); explicit constant:
    ulp(s + L/2)/2 + ulp(L). *)
Theorem sep_congruent : forall s L : f64,
  ffinite s = true -> ffinite L = true -> 0 < B2R L ->
  B2R (half L) = B2R L / 2 -> Rabs (B2R s) + B2R L <= bpow radix2 1023 ->
  exists (d : f64) (k : Z), sep s L = Some d /\
    Rabs (B2R d - (B2R s - IZR k * B2R L)) <= / 2 * ulp64 (B2R s + B2R L / 2) + ulp64 (B2R L).
Proof. exact PeriodicProofs.sep_congruent_ex. Qed.
Print Assumptions sep_congruent.
Example sep_congruent_nonvacuous :
  ffinite p_075 = true /\ ffinite fone = true /\ 0 < B2R fone /\
  B2R (half fone) = B2R fone / 2 /\ Rabs (B2R p_075) + B2R fone <= bpow radix2 1023.
Proof. exact sample_sep_hyps. Qed.

(** ** Vectors: [correct_position] and [separation_vector] of the hypercubic class. *)
Theorem correct_position_range : forall (L : f64) (pos out : list f64),
  ffinite L = true -> 0 < B2R L -> Forall (fun x => ffinite x = true) pos ->
  cubic_correct_position L pos = Some out ->
  length out = length pos /\ Forall (in_box L) out.
Proof. exact PeriodicProofs.cubic_correct_position_range. Qed.
Print Assumptions correct_position_range.
Example correct_position_range_nonvacuous :
  match cubic_correct_position fone [p_m025; f_m1em17] with
  | Some [a; b] => feqb_bits a p_075 && feqb_bits b fzero | _ => false end = true.
Proof. vm_compute; reflexivity. Qed.

Theorem correct_position_idempotent : forall (L : f64) (pos out : list f64),
  ffinite L = true -> 0 < B2R L -> Forall (fun x => ffinite x = true) pos ->
  cubic_correct_position L pos = Some out -> cubic_correct_position L out = Some out.
Proof. exact PeriodicProofs.cubic_correct_position_idempotent. Qed.
Print Assumptions correct_position_idempotent.
Example correct_position_idempotent_nonvacuous :
  exists out, cubic_correct_position fone [p_m025; f_m1em17] = Some out.
Proof.
  apply cubic_correct_position_defined; [apply fone_finite|rewrite fone_R; lra|].
  repeat constructor.
Qed.

(** Separation vector of two positions in the box: [dimension] components, each of magnitude at
    most L/2. *)
Theorem separation_vector_bound : forall (dim : nat) (L : f64) (ref tgt out : list f64),
  ffinite L = true -> 0 < B2R L -> B2R (half L) = B2R L / 2 -> B2R L <= bpow radix2 1022 ->
  length ref = dim -> length tgt = dim -> Forall (in_box L) ref -> Forall (in_box L) tgt ->
  cubic_separation_vector dim L ref tgt = Some out ->
  length out = dim /\ Forall (fun d => ffinite d = true /\ Rabs (B2R d) <= B2R L / 2) out.
Proof. exact PeriodicProofs.cubic_separation_vector_bound. Qed.
Print Assumptions separation_vector_bound.
Example separation_vector_bound_nonvacuous :
  (Forall (in_box fone) [p_075; p_025] /\ Forall (in_box fone) [p_025; p_075]) /\
  match cubic_separation_vector 2 fone [p_075; p_025] [p_025; p_075] with
  | Some [a; b] => feqb_bits a (of_bits 0xBFE0000000000000) && feqb_bits b (of_bits 0xBFE0000000000000)
  | _ => false end = true.
Proof. split; [exact sample_in_box|vm_compute; reflexivity]. Qed.

(** ... and each component is congruent to the exact difference of the two entries modulo L, up to
    the rounding of the float subtraction and the three roundings of [sep]. *)
Theorem separation_vector_congruent : forall (dim : nat) (L : f64) (ref tgt out : list f64),
  ffinite L = true -> 0 < B2R L -> B2R (half L) = B2R L / 2 -> B2R L <= bpow radix2 1022 ->
  length ref = dim -> length tgt = dim -> Forall (in_box L) ref -> Forall (in_box L) tgt ->
  cubic_separation_vector dim L ref tgt = Some out ->
  forall i, (i < dim)%nat ->
  let t := B2R (nth i tgt fnan) in let r := B2R (nth i ref fnan) in
  exists k : Z,
    Rabs (B2R (nth i out fnan) - (t - r - IZR k * B2R L)) <=
      / 2 * ulp64 (t - r) + / 2 * ulp64 (RN (t - r) + B2R L / 2) + ulp64 (B2R L).
Proof. exact PeriodicProofs.cubic_separation_vector_congruent. Qed.
Print Assumptions separation_vector_congruent.
Example separation_vector_congruent_nonvacuous :
  (Forall (in_box fone) [p_075; p_025] /\ Forall (in_box fone) [p_025; p_075]) /\
  B2R (half fone) = B2R fone / 2 /\ B2R fone <= bpow radix2 1022 /\
  match cubic_separation_vector 2 fone [p_075; p_025] [p_025; p_075] with
  | Some [a; b] => true | _ => false end = true.
Proof.
  split; [exact sample_in_box|]. split; [apply sample_sep_hyps|].
  split; [rewrite fone_R; change 1 with (bpow radix2 0); apply bpow_le; lia|vm_compute; reflexivity].
Qed.

(** ** The cuboid class with all lengths equal is the cubic class (every method). *)
Theorem cubic_eq_cuboid : forall (L : f64) (n : nat),
  (forall x i, (i < n)%nat -> cuboid_wrap_entry (repeat L n) x i = wrap x L) /\
  (forall s i, (i < n)%nat -> cuboid_sep_entry (repeat L n) s i = sep s L) /\
  (forall x i, (i < n)%nat -> cuboid_next_image (repeat L n) x i = Some (cubic_next_image L x i)) /\
  (forall pos, (length pos <= n)%nat -> cuboid_correct_position (repeat L n) pos = cubic_correct_position L pos) /\
  (forall v, (length v <= n)%nat -> cuboid_correct_separation (repeat L n) v = cubic_correct_separation L v) /\
  (forall ref tgt, cuboid_separation_vector (repeat L n) ref tgt = cubic_separation_vector n L ref tgt).
Proof. exact PeriodicProofs.cubic_eq_cuboid. Qed.
Print Assumptions cubic_eq_cuboid.
Example cubic_eq_cuboid_nonvacuous :
  match cuboid_correct_position (repeat fone 2) [p_m025; f_m1em17] with
  | Some [a; b] => feqb_bits a p_075 && feqb_bits b fzero | _ => false end = true.
Proof. vm_compute; reflexivity. Qed.
