(** * Props/C03fourier.v — lattice-sum clause of C03: the C function [derivative] of
    merged_image_coulomb_potential.c (model: [JF.Model.EwaldFourierR], reals for doubles).

    [fourier_part_loop N alpha L sx sy sz acc0]: the Fourier-space loop exactly as written (running
      sines/cosines updated by angle-addition recurrences, reset when an inner loop is left), started
      with the already accumulated value [acc0];
    [fourier_part]: the explicit finite sum over the code's index set
      i = 1..N, j = 0..isqrt(N^2 - i^2), k = 0..isqrt(N^2 - i^2 - j^2)  of
      fourier_coef alpha L i j k * sin(i tx) * cos(j ty) * cos(k tz),   t. = 2 PI / L * s. ,
      fourier_coef = 4 i m(j,k) / (n^2 L^2) * exp(- PI^2 n^2 / alpha^2), n^2 = i^2+j^2+k^2,
      m = 1 (j = k = 0), 2 (exactly one of j, k is 0), 4 (otherwise);
    [position_sum] / [position_loop]: the position-space loop with an ARBITRARY function in place of erfc.

    NOT proved (and not claimed): independence of the Ewald splitting parameter alpha, convergence of
    the truncated sums, any property of the real erfc. *)
From Coq Require Import Reals Arith ZArith Lia Lra.
Require Import JF.Model.EwaldFourierR JF.Proofs.EwaldFourierRProofs.
Local Open Scope R_scope.

(** ** The recurrence loop computes the explicit finite sum. *)
Theorem fourier_loop_closed_form : forall (N : nat) (alpha L sx sy sz acc0 : R),
  fourier_part_loop N alpha L sx sy sz acc0 = acc0 + fourier_part N alpha L sx sy sz.
Proof. exact EwaldFourierRProofs.fourier_loop_closed_form. Qed.
Print Assumptions fourier_loop_closed_form.
(** The index set is not trivial: for cutoff 2 it has the 5 points (1,0,0) (1,0,1) (1,1,0) (1,1,1) (2,0,0). *)
Example fourier_loop_closed_form_nonvacuous : sum3 2 (fun _ _ _ => 1) = 5.
Proof. unfold sum3, cut_j, cut_k. simpl. ring. Qed.

(** The same for an arbitrary coefficient table and arbitrary angles. *)
Theorem fourier_loop_closed_form_gen : forall (N : nat) (farr : nat -> nat -> nat -> R) (tx ty tz acc0 : R),
  fourier_loop N farr tx ty tz acc0 = acc0 + fourier_sum N farr tx ty tz.
Proof. exact EwaldFourierRProofs.fourier_loop_closed_form_gen. Qed.
Print Assumptions fourier_loop_closed_form_gen.
Example fourier_loop_closed_form_gen_nonvacuous : forall t, fourier_sum 1 (fun _ _ _ => 1) t 0 0 = sin t.
Proof.
  intros t. unfold fourier_sum, cut_j, cut_k. simpl. rewrite !Rmult_0_l, cos_0. ring_simplify.
  f_equal. ring.
Qed.

(** ** Symmetries of the Fourier part. *)
Theorem fourier_part_odd : forall N alpha L sx sy sz,
  fourier_part N alpha L (- sx) sy sz = - fourier_part N alpha L sx sy sz.
Proof. exact EwaldFourierRProofs.fourier_part_odd. Qed.
Print Assumptions fourier_part_odd.
Example fourier_part_odd_nonvacuous : - (1 / 4) <> 1 / 4.
Proof. lra. Qed.

Theorem fourier_part_even_transverse : forall N alpha L sx sy sz,
  fourier_part N alpha L sx (- sy) sz = fourier_part N alpha L sx sy sz /\
  fourier_part N alpha L sx sy (- sz) = fourier_part N alpha L sx sy sz.
Proof.
  intros. split; [apply EwaldFourierRProofs.fourier_part_even_y|apply EwaldFourierRProofs.fourier_part_even_z].
Qed.
Print Assumptions fourier_part_even_transverse.
Example fourier_part_even_transverse_nonvacuous : - (1 / 4) <> 1 / 4.
Proof. lra. Qed.

Theorem fourier_part_periodic : forall N alpha L sx sy sz, L <> 0 ->
  fourier_part N alpha L (sx + L) sy sz = fourier_part N alpha L sx sy sz /\
  fourier_part N alpha L sx (sy + L) sz = fourier_part N alpha L sx sy sz /\
  fourier_part N alpha L sx sy (sz + L) = fourier_part N alpha L sx sy sz.
Proof. exact EwaldFourierRProofs.fourier_part_periodic. Qed.
Print Assumptions fourier_part_periodic.
Example fourier_part_periodic_nonvacuous : (33 / 10 : R) <> 0.
Proof. lra. Qed.

(** The Fourier sum is linear in the coefficient table. *)
Theorem fourier_sum_linear : forall N f g a b tx ty tz,
  fourier_sum N (fun i j k => a * f i j k + b * g i j k) tx ty tz =
  a * fourier_sum N f tx ty tz + b * fourier_sum N g tx ty tz.
Proof. exact EwaldFourierRProofs.fourier_sum_linear. Qed.
Print Assumptions fourier_sum_linear.
Example fourier_sum_linear_nonvacuous : sum3 2 (fun _ _ _ => 1) = 5.
Proof. unfold sum3, cut_j, cut_k. simpl. ring. Qed.

(** ** Position space, for an arbitrary function in place of erfc. *)
Theorem position_loop_sum : forall erfc P alpha L sx sy sz acc0,
  position_loop erfc P alpha L sx sy sz acc0 = acc0 + position_sum erfc P alpha L sx sy sz.
Proof. exact EwaldFourierRProofs.position_loop_sum. Qed.
Print Assumptions position_loop_sum.
Example position_loop_sum_nonvacuous : (pcut_j 2 1 = 1 /\ pcut_i 2 1 1 = 1 /\ pcut_i 2 0 0 = 2)%nat.
Proof. repeat split; reflexivity. Qed.

Theorem position_sum_symmetries : forall erfc P alpha L sx sy sz,
  position_sum erfc P alpha L (- sx) sy sz = - position_sum erfc P alpha L sx sy sz /\
  position_sum erfc P alpha L sx (- sy) sz = position_sum erfc P alpha L sx sy sz /\
  position_sum erfc P alpha L sx sy (- sz) = position_sum erfc P alpha L sx sy sz.
Proof.
  intros. split; [apply position_sum_odd|split; [apply position_sum_even_y|apply position_sum_even_z]].
Qed.
Print Assumptions position_sum_symmetries.
Example position_sum_symmetries_nonvacuous : (pcut_j 2 (-1) = pcut_j 2 1 /\ pcut_j 2 1 = 1)%nat.
Proof. split; reflexivity. Qed.

(** ** The whole function and the Python wrapper. *)
Theorem derivative_c_split : forall erfc N P alpha L sx sy sz,
  derivative_c erfc N P alpha L sx sy sz =
  position_sum erfc P alpha L sx sy sz + fourier_part N alpha L sx sy sz.
Proof. exact EwaldFourierRProofs.derivative_c_split. Qed.
Print Assumptions derivative_c_split.
Example derivative_c_split_nonvacuous : sum3 2 (fun _ _ _ => 1) = 5.
Proof. unfold sum3, cut_j, cut_k. simpl. ring. Qed.

(** Odd in the component along the direction of motion, even in the transverse ones. *)
Theorem lattice_odd : forall erfc N P alpha L sx sy sz,
  derivative_c erfc N P alpha L (- sx) sy sz = - derivative_c erfc N P alpha L sx sy sz.
Proof. exact EwaldFourierRProofs.derivative_c_odd. Qed.
Print Assumptions lattice_odd.
Example lattice_odd_nonvacuous : - (1 / 4) <> 1 / 4.
Proof. lra. Qed.

Theorem lattice_even_transverse : forall erfc N P alpha L sx sy sz,
  derivative_c erfc N P alpha L sx (- sy) sz = derivative_c erfc N P alpha L sx sy sz /\
  derivative_c erfc N P alpha L sx sy (- sz) = derivative_c erfc N P alpha L sx sy sz.
Proof. exact EwaldFourierRProofs.derivative_c_even_transverse. Qed.
Print Assumptions lattice_even_transverse.
Example lattice_even_transverse_nonvacuous : - (1 / 4) <> 1 / 4.
Proof. lra. Qed.

(** Linear in each charge. *)
Theorem fourier_linear_in_charges : forall erfc N P alpha L pf c1 c1' c2 a sx sy sz,
  standard_velocity_derivative erfc N P alpha L pf (a * c1 + c1') c2 sx sy sz =
    a * standard_velocity_derivative erfc N P alpha L pf c1 c2 sx sy sz
    + standard_velocity_derivative erfc N P alpha L pf c1' c2 sx sy sz /\
  standard_velocity_derivative erfc N P alpha L pf c2 (a * c1 + c1') sx sy sz =
    a * standard_velocity_derivative erfc N P alpha L pf c2 c1 sx sy sz
    + standard_velocity_derivative erfc N P alpha L pf c2 c1' sx sy sz.
Proof. exact EwaldFourierRProofs.fourier_linear_in_charges. Qed.
Print Assumptions fourier_linear_in_charges.
Example fourier_linear_in_charges_nonvacuous : 2 * 3 + 1 = (7 : R).
Proof. lra. Qed.
