(** * Base/QInterval.v — half-open intervals over Q: length, intersection, membership.

    Probabilities of the finite probabilistic tables (lifting C05, Walker C18) are expressed as
    lengths of half-open sub-intervals of the range of a uniform draw.  No measure theory: an
    interval is a pair of end points, [len] is [max 0 (hi - lo)], [inter] is (max lo, min hi).
    [qmax]/[qmin] are plain [if Qle_bool …] so that their results are syntactically one of the
    arguments (no setoid rewriting is needed anywhere). *)
From Coq Require Import QArith Lqa List.
Import ListNotations.
Open Scope Q_scope.

Definition qmax (a b : Q) : Q := if Qle_bool a b then b else a.
Definition qmin (a b : Q) : Q := if Qle_bool a b then a else b.

Record qint := mkI { lo : Q; hi : Q }.

Definition len (i : qint) : Q := qmax 0 (hi i - lo i).
Definition inter (i j : qint) : qint := mkI (qmax (lo i) (lo j)) (qmin (hi i) (hi j)).

(** (lo, hi] *)
Definition mem_oc (x : Q) (i : qint) : Prop := lo i < x /\ x <= hi i.
(** [lo, hi) *)
Definition mem_co (x : Q) (i : qint) : Prop := lo i <= x /\ x < hi i.

(** equality of intervals up to [==] on the end points *)
Definition ieq (i j : qint) : Prop := lo i == lo j /\ hi i == hi j.

Definition qsum (l : list Q) : Q := fold_right Qplus 0 l.

Lemma qmax_spec a b : (a <= b /\ qmax a b = b) \/ (b < a /\ qmax a b = a).
Proof.
  unfold qmax. destruct (Qle_bool a b) eqn:E.
  - left. split; auto. apply Qle_bool_iff; auto.
  - right. split; auto. apply Qnot_le_lt. intro H. apply Qle_bool_iff in H. congruence.
Qed.

Lemma qmin_spec a b : (a <= b /\ qmin a b = a) \/ (b < a /\ qmin a b = b).
Proof.
  unfold qmin. destruct (Qle_bool a b) eqn:E.
  - left. split; auto. apply Qle_bool_iff; auto.
  - right. split; auto. apply Qnot_le_lt. intro H. apply Qle_bool_iff in H. congruence.
Qed.

(** case split on every qmax / qmin in the goal, then linear arithmetic *)
Ltac qmm_step :=
  match goal with
  | |- context [qmax ?a ?b] =>
      let H := fresh "Hm" in let E := fresh "Em" in
      destruct (qmax_spec a b) as [[H E] | [H E]]; rewrite E in *; clear E
  | |- context [qmin ?a ?b] =>
      let H := fresh "Hm" in let E := fresh "Em" in
      destruct (qmin_spec a b) as [[H E] | [H E]]; rewrite E in *; clear E
  | H0 : context [qmax ?a ?b] |- _ =>
      let H := fresh "Hm" in let E := fresh "Em" in
      destruct (qmax_spec a b) as [[H E] | [H E]]; rewrite E in *; clear E
  | H0 : context [qmin ?a ?b] |- _ =>
      let H := fresh "Hm" in let E := fresh "Em" in
      destruct (qmin_spec a b) as [[H E] | [H E]]; rewrite E in *; clear E
  end.
Ltac qmm := repeat qmm_step; try lra.

Lemma len_nonneg i : 0 <= len i.
Proof. unfold len. qmm. Qed.

Lemma len_eq i : lo i <= hi i -> len i == hi i - lo i.
Proof. unfold len. intros. qmm. Qed.

Lemma len_empty i : hi i <= lo i -> len i == 0.
Proof. unfold len. intros. qmm. Qed.

Lemma len_mk a b : a <= b -> len (mkI a b) == b - a.
Proof. intros. apply len_eq. simpl. auto. Qed.

Lemma len_ext i j : ieq i j -> len i == len j.
Proof. unfold ieq, len. intros [H1 H2]. qmm. Qed.

Lemma inter_ext i i' j j' : ieq i i' -> ieq j j' -> ieq (inter i j) (inter i' j').
Proof. unfold ieq, inter. simpl. intros [H1 H2] [H3 H4]. split; qmm. Qed.

Lemma len_inter_ext i i' j j' : ieq i i' -> ieq j j' -> len (inter i j) == len (inter i' j').
Proof. intros. apply len_ext. apply inter_ext; auto. Qed.

Lemma ieq_refl i : ieq i i.
Proof. split; reflexivity. Qed.

Lemma mem_oc_inter x i j : mem_oc x (inter i j) <-> mem_oc x i /\ mem_oc x j.
Proof. unfold mem_oc, inter. simpl. split; intros; qmm; repeat split; lra. Qed.

Lemma mem_co_inter x i j : mem_co x (inter i j) <-> mem_co x i /\ mem_co x j.
Proof. unfold mem_co, inter. simpl. split; intros; qmm; repeat split; lra. Qed.

Lemma mem_oc_ext x y i j : x == y -> ieq i j -> mem_oc x i -> mem_oc y j.
Proof. unfold mem_oc, ieq. intros E [H1 H2] [H3 H4]. split; lra. Qed.

Lemma mem_oc_len_pos x i : mem_oc x i -> 0 < len i.
Proof. unfold mem_oc, len. intros [H1 H2]. qmm. Qed.

Lemma mem_co_len_pos x i : mem_co x i -> 0 < len i.
Proof. unfold mem_co, len. intros [H1 H2]. qmm. Qed.

(** consecutive intervals add up *)
Lemma len_inter_split a b c w :
  a <= b -> b <= c ->
  len (inter (mkI a b) w) + len (inter (mkI b c) w) == len (inter (mkI a c) w).
Proof. unfold len, inter. simpl. intros. qmm. Qed.

Lemma len_inter_empty_l a w : len (inter (mkI a a) w) == 0.
Proof. unfold len, inter. simpl. qmm. Qed.

Lemma len_inter_sub i w : lo w <= lo i -> hi i <= hi w -> len (inter i w) == len i.
Proof. unfold len, inter. simpl. intros. qmm. Qed.

Lemma len_inter_sub_r i w : lo i <= lo w -> hi w <= hi i -> len (inter i w) == len w.
Proof. unfold len, inter. simpl. intros. qmm. Qed.

Lemma len_inter_comm i j : len (inter i j) == len (inter j i).
Proof. unfold len, inter. simpl. qmm. Qed.

(** an affine change of variable x = P + u*q (q > 0) scales lengths by q *)
Lemma len_scale P q l h : 0 < q -> len (mkI ((l - P) / q) ((h - P) / q)) * q == len (mkI l h).
Proof.
  intros Hq. unfold len. simpl.
  assert (E : ((h - P) / q - (l - P) / q) * q == h - l) by (field; lra).
  set (d := (h - P) / q - (l - P) / q) in *.
  destruct (qmax_spec 0 d) as [[H1 E1] | [H1 E1]]; rewrite E1; clear E1;
    destruct (qmax_spec 0 (h - l)) as [[H2 E2] | [H2 E2]]; rewrite E2; clear E2; try lra.
  - assert (0 <= d * q) by (apply Qmult_le_0_compat; lra). lra.
  - assert (0 < (- d) * q) by (apply Qmult_lt_0_compat; lra). lra.
Qed.

(** reflected variant: x = P - u*q *)
Lemma len_scale_neg P q l h : 0 < q -> len (mkI ((P - h) / q) ((P - l) / q)) * q == len (mkI l h).
Proof.
  intros Hq. unfold len. simpl.
  assert (E : ((P - l) / q - (P - h) / q) * q == h - l) by (field; lra).
  set (d := (P - l) / q - (P - h) / q) in *.
  destruct (qmax_spec 0 d) as [[H1 E1] | [H1 E1]]; rewrite E1; clear E1;
    destruct (qmax_spec 0 (h - l)) as [[H2 E2] | [H2 E2]]; rewrite E2; clear E2; try lra.
  - assert (0 <= d * q) by (apply Qmult_le_0_compat; lra). lra.
  - assert (0 < (- d) * q) by (apply Qmult_lt_0_compat; lra). lra.
Qed.

(** division by a positive number and comparison *)
Lemma div_lt_iff x q u : 0 < q -> (x / q < u <-> x < u * q).
Proof.
  intros Hq. assert (E : x == (x / q) * q) by (field; lra).
  split; intros H.
  - rewrite E. apply Qmult_lt_r; auto.
  - rewrite E in H. apply Qmult_lt_r in H; auto.
Qed.

Lemma div_le_iff x q u : 0 < q -> (x / q <= u <-> x <= u * q).
Proof.
  intros Hq. assert (E : x == (x / q) * q) by (field; lra).
  split; intros H.
  - rewrite E. apply Qmult_le_r; auto.
  - rewrite E in H. apply Qmult_le_r in H; auto.
Qed.

Lemma lt_div_iff x q u : 0 < q -> (u < x / q <-> u * q < x).
Proof.
  intros Hq. assert (E : x == (x / q) * q) by (field; lra).
  split; intros H.
  - rewrite E. apply Qmult_lt_r; auto.
  - rewrite E in H. apply Qmult_lt_r in H; auto.
Qed.

Lemma le_div_iff x q u : 0 < q -> (u <= x / q <-> u * q <= x).
Proof.
  intros Hq. assert (E : x == (x / q) * q) by (field; lra).
  split; intros H.
  - rewrite E. apply Qmult_le_r; auto.
  - rewrite E in H. apply Qmult_le_r in H; auto.
Qed.

(** sums *)
Lemma qsum_app l1 l2 : qsum (l1 ++ l2) == qsum l1 + qsum l2.
Proof. induction l1; simpl; lra. Qed.

Lemma qsum_map_ext {A} (f g : A -> Q) l :
  (forall x, In x l -> f x == g x) -> qsum (map f l) == qsum (map g l).
Proof.
  induction l; simpl; intros H. lra.
  rewrite (H a) by auto. rewrite IHl. lra. intros; apply H; auto.
Qed.

Lemma qsum_nonneg l : (forall x, In x l -> 0 <= x) -> 0 <= qsum l.
Proof.
  induction l; simpl; intros H. lra.
  assert (0 <= a) by (apply H; auto). assert (0 <= qsum l) by (apply IHl; intros; apply H; auto). lra.
Qed.

Lemma qsum_zero_all l : (forall x, In x l -> 0 <= x) -> qsum l == 0 -> forall x, In x l -> x == 0.
Proof.
  induction l; simpl; intros Hn Hs x Hx. contradiction.
  assert (0 <= a) by (apply Hn; auto).
  assert (0 <= qsum l) by (apply qsum_nonneg; intros; apply Hn; auto).
  destruct Hx as [-> | Hx]. lra. apply IHl; auto. lra.
Qed.

Lemma fold_left_qsum l a : fold_left Qplus l a == a + qsum l.
Proof.
  revert a. induction l; intros; simpl. lra. rewrite IHl. lra.
Qed.

Lemma qsum_map_scale {A} (f : A -> Q) c l : qsum (map (fun x => c * f x) l) == c * qsum (map f l).
Proof. induction l; simpl. lra. rewrite IHl. lra. Qed.

Lemma qsum_map_plus {A} (f g : A -> Q) l :
  qsum (map (fun x => f x + g x) l) == qsum (map f l) + qsum (map g l).
Proof. induction l; simpl. lra. rewrite IHl. lra. Qed.
