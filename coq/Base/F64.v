(** * Base/F64.v — executable IEEE-754 binary64 layer (Flocq, axiom-free execution).

    Floats cross the Python/Coq boundary only as 64-bit patterns ([of_bits]).
    NaN is a single value (BinarySingleNaN), so comparison of results is
    structural equality of the [SpecFloat] image ([feqb_bits]). *)
From Coq Require Import ZArith Bool List.
From Flocq Require Import Core.Core IEEE754.BinarySingleNaN.
From Flocq Require IEEE754.Binary IEEE754.Bits.
From Coq Require Import SpecFloat.

Notation f64 := (binary_float 53 1024).

#[global] Instance Hprec53 : Prec_gt_0 53 := eq_refl.
#[global] Instance Hmax1024 : Prec_lt_emax 53 1024 := eq_refl.

Definition of_bits (z : Z) : f64 := Binary.B2BSN 53 1024 (Bits.b64_of_bits z).

Definition fadd : f64 -> f64 -> f64 := Bplus mode_NE.
Definition fsub : f64 -> f64 -> f64 := Bminus mode_NE.
Definition fmul : f64 -> f64 -> f64 := Bmult mode_NE.
Definition fdiv : f64 -> f64 -> f64 := Bdiv mode_NE.
Definition fsqrt : f64 -> f64 := Bsqrt mode_NE.
Definition fopp : f64 -> f64 := Bopp (prec:=53) (emax:=1024).
Definition fabs : f64 -> f64 := Babs (prec:=53) (emax:=1024).
Definition ftrunc : f64 -> f64 := Bnearbyint mode_ZR.   (* C trunc() *)
Definition ffloor : f64 -> f64 := Bnearbyint mode_DN.   (* C floor() *)
Definition ftruncZ : f64 -> Z := Btrunc.                  (* Python int() on finite *)
Definition fsucc : f64 -> f64 := Bsucc.
Definition fpred : f64 -> f64 := Bpred.
Definition fcompare : f64 -> f64 -> option comparison := Bcompare (prec:=53) (emax:=1024).
Definition fsign : f64 -> bool := Bsign (prec:=53) (emax:=1024).
Definition ffinite : f64 -> bool := is_finite (prec:=53) (emax:=1024).
Definition fisnan : f64 -> bool := is_nan (prec:=53) (emax:=1024).
Definition fisinf (x : f64) : bool := match x with B754_infinity _ => true | _ => false end.
Definition fiszero (x : f64) : bool := match x with B754_zero _ => true | _ => false end.

Definition fzero : f64 := B754_zero false.
Definition fnzero : f64 := B754_zero true.
Definition fone : f64 := Bone.
Definition finf : f64 := B754_infinity false.
Definition fninf : f64 := B754_infinity true.
Definition fnan : f64 := B754_nan.

(** IEEE comparisons as Python/C perform them (any comparison with NaN is false,
    except [!=]). *)
Definition feq (x y : f64) : bool := match fcompare x y with Some Eq => true | _ => false end.
Definition flt (x y : f64) : bool := match fcompare x y with Some Lt => true | _ => false end.
Definition fle (x y : f64) : bool := match fcompare x y with Some Lt | Some Eq => true | _ => false end.
Definition fgt (x y : f64) : bool := flt y x.
Definition fge (x y : f64) : bool := fle y x.
Definition fne (x y : f64) : bool := negb (feq x y).

(** Bit-level equality (all NaNs identified). *)
Definition sf_eqb (a b : spec_float) : bool :=
  match a, b with
  | S754_zero s, S754_zero t => Bool.eqb s t
  | S754_infinity s, S754_infinity t => Bool.eqb s t
  | S754_nan, S754_nan => true
  | S754_finite s m e, S754_finite t n f => Bool.eqb s t && Pos.eqb m n && Z.eqb e f
  | _, _ => false
  end.
Definition feqb_bits (x y : f64) : bool := sf_eqb (B2SF x) (B2SF y).

(** Integer -> float (round to nearest even). *)
Definition of_Z (z : Z) : f64 := BinarySingleNaN.binary_normalize 53 1024 _ _ mode_NE z 0%Z false.

(** copysign(x, y) *)
Definition fcopysign (x y : f64) : f64 :=
  if Bool.eqb (fsign x) (fsign y) then x else fopp x.
