(** * Base/PyFloat.v — CPython float operations that are not plain IEEE ops.

    Transcribed from CPython 3.12 [Objects/floatobject.c]
    ([float_rem], [_float_div_mod]) with C [fmod] implemented exactly on
    mantissa/exponent integers. *)
From Coq Require Import ZArith Bool List.
From Flocq Require Import Core.Core IEEE754.BinarySingleNaN.
Require Import JF.Base.F64.
Local Open Scope Z_scope.

(** Exact C fmod: x - trunc(x/y)*y, sign of x, exact. *)
Definition ffmod (x y : f64) : f64 :=
  match x, y with
  | B754_nan, _ | _, B754_nan => fnan
  | B754_infinity _, _ => fnan
  | _, B754_zero _ => fnan
  | B754_zero _, _ => x
  | _, B754_infinity _ => x
  | B754_finite sx mx ex _, B754_finite _ my ey _ =>
      let e := Z.min ex ey in
      let X := Z.pos mx * 2 ^ (ex - e) in
      let Y := Z.pos my * 2 ^ (ey - e) in
      let r := Z.rem X Y in
      BinarySingleNaN.binary_normalize 53 1024 _ _ mode_NE (if sx then - r else r) e sx
  end.

(** Python [x % y] for floats; [None] = ZeroDivisionError. *)
Definition py_mod (x y : f64) : option f64 :=
  if fiszero y then None else
  let m := ffmod x y in
  Some (if negb (fiszero m) && negb (fisnan m) then
          (if Bool.eqb (flt y fzero) (flt m fzero) then m else fadd m y)
        else if fisnan m then m else fcopysign fzero y).

(** Python [divmod(x, y)] for floats. *)
Definition py_divmod (x y : f64) : option (f64 * f64) :=
  if fiszero y then None else
  let m0 := ffmod x y in
  let d0 := fdiv (fsub x m0) y in
  let nz (v : f64) := negb (fiszero v) in   (* C truthiness: NaN is true *)
  let '(m, d) :=
    if nz m0 then
      (if Bool.eqb (flt y fzero) (flt m0 fzero) then (m0, d0)
       else (fadd m0 y, fsub d0 fone))
    else (fcopysign fzero y, d0) in
  let q :=
    if nz d then
      let fl := ffloor d in
      if fgt (fsub d fl) (of_bits 0x3FE0000000000000) then fadd fl fone else fl
    else fcopysign fzero (fdiv x y) in
  Some (q, m).

Definition py_divmod1 (x : f64) : f64 * f64 :=
  match py_divmod x fone with Some p => p | None => (fnan, fnan) end.

(** Python [int(x)] on a finite float (truncation toward zero). *)
Definition py_int (x : f64) : Z := ftruncZ x.
