(** * Base/Store.v — mini object store for properties about aliasing (C13).

    Python's mutable objects (position / velocity [list]s, [Time] objects) are modelled as
    cells of a store [addr -> list Z].  The content of a cell is a list of abstract "bit
    patterns" (a vector of floats as their 64-bit patterns; a [Time] as [quotient; remainder]).
    [alloc] returns a fresh address (Python: a new object), [write] overwrites a cell in
    place (Python: [l[d] = x], [Time.update]), [copy] is [copy.copy] on such an object.
    Addresses are never reused (the model has no garbage collection; Python's [id()] of a
    live object is never shared with another live object, which is all the model needs). *)
From Coq Require Import ZArith List PArith FMapPositive Lia.
Import ListNotations.

Definition addr := positive.
Definition val := list Z.

Record store := mkStore { cells : PositiveMap.t val; next : addr }.

Definition empty_store : store := mkStore (PositiveMap.empty val) 1%positive.

Definition lookup (s : store) (a : addr) : option val := PositiveMap.find a (cells s).

Definition read (s : store) (a : addr) : val :=
  match lookup s a with Some v => v | None => [] end.

Definition allocated (s : store) (a : addr) : Prop := lookup s a <> None.

(** New object holding [v]; the address handed out is [next s]. *)
Definition alloc (s : store) (v : val) : store * addr :=
  (mkStore (PositiveMap.add (next s) v (cells s)) (Pos.succ (next s)), next s).

(** In-place overwrite of an existing object; no effect on a dangling address. *)
Definition write (s : store) (a : addr) (v : val) : store :=
  match lookup s a with
  | Some _ => mkStore (PositiveMap.add a v (cells s)) (next s)
  | None => s
  end.

(** [copy.copy] of a list of floats / of a [Time]: a new object with the same content. *)
Definition copy (s : store) (a : addr) : store * addr := alloc s (read s a).

(** Well-formed: exactly the addresses below [next] are allocated. *)
Definition store_wf (s : store) : Prop :=
  forall a, allocated s a <-> (a < next s)%positive.

(** [ext s s']: [s'] extends [s] by fresh objects only (old objects untouched). *)
Definition ext (s s' : store) : Prop :=
  (next s <= next s')%positive /\ forall a, (a < next s)%positive -> lookup s' a = lookup s a.

(* ---------------------------------------------------------------------------------------- *)
(** ** Lemmas *)

Lemma wf_empty : store_wf empty_store.
Proof.
  intro a. unfold allocated, lookup, empty_store; simpl. rewrite PositiveMap.gempty.
  split; [congruence | lia].
Qed.

Lemma lookup_alloc_new s v : lookup (fst (alloc s v)) (snd (alloc s v)) = Some v.
Proof. unfold lookup, alloc; simpl. apply PositiveMap.gss. Qed.

Lemma lookup_alloc_other s v a : a <> next s -> lookup (fst (alloc s v)) a = lookup s a.
Proof. intro H. unfold lookup, alloc; simpl. apply PositiveMap.gso. exact H. Qed.

Lemma read_alloc_new s v : read (fst (alloc s v)) (snd (alloc s v)) = v.
Proof. unfold read. rewrite lookup_alloc_new. reflexivity. Qed.

Lemma read_alloc_other s v a : a <> next s -> read (fst (alloc s v)) a = read s a.
Proof. intro H. unfold read. rewrite lookup_alloc_other by exact H. reflexivity. Qed.

Lemma alloc_addr s v : snd (alloc s v) = next s.
Proof. reflexivity. Qed.

Lemma next_alloc s v : next (fst (alloc s v)) = Pos.succ (next s).
Proof. reflexivity. Qed.

(** Freshness: the address handed out was not allocated before. *)
Lemma alloc_fresh s v : store_wf s -> ~ allocated s (snd (alloc s v)).
Proof. intros W H. apply W in H. simpl in H. lia. Qed.

Lemma wf_alloc s v : store_wf s -> store_wf (fst (alloc s v)).
Proof.
  intros W a. unfold allocated. rewrite next_alloc.
  destruct (Pos.eq_dec a (next s)) as [->|N].
  - change (next s) with (snd (alloc s v)) at 1. rewrite lookup_alloc_new. split; [lia | congruence].
  - rewrite lookup_alloc_other by exact N. specialize (W a). unfold allocated in W. split; intro H.
    + apply W in H. lia.
    + apply W. lia.
Qed.

Lemma ext_refl s : ext s s.
Proof. split; [lia | auto]. Qed.

Lemma ext_trans s1 s2 s3 : ext s1 s2 -> ext s2 s3 -> ext s1 s3.
Proof.
  intros [L1 H1] [L2 H2]. split; [lia|]. intros a Ha. rewrite H2 by lia. apply H1. exact Ha.
Qed.

Lemma ext_alloc s v : ext s (fst (alloc s v)).
Proof.
  split; [rewrite next_alloc; lia|]. intros a Ha. apply lookup_alloc_other. lia.
Qed.

Lemma ext_read s s' a : ext s s' -> (a < next s)%positive -> read s' a = read s a.
Proof. intros [_ H] Ha. unfold read. rewrite H by exact Ha. reflexivity. Qed.

Lemma lookup_write_same s a v : allocated s a -> lookup (write s a v) a = Some v.
Proof.
  unfold allocated, write. intro H. destruct (lookup s a) eqn:E; [|congruence].
  unfold lookup; simpl. apply PositiveMap.gss.
Qed.

Lemma lookup_write_other s a b v : a <> b -> lookup (write s a v) b = lookup s b.
Proof.
  intro H. unfold write. destruct (lookup s a) eqn:E; [|reflexivity].
  unfold lookup; simpl. apply PositiveMap.gso. congruence.
Qed.

(** Read-after-write. *)
Lemma read_write_same s a v : allocated s a -> read (write s a v) a = v.
Proof. intro H. unfold read. rewrite lookup_write_same by exact H. reflexivity. Qed.

Lemma read_write_other s a b v : a <> b -> read (write s a v) b = read s b.
Proof. intro H. unfold read. rewrite lookup_write_other by exact H. reflexivity. Qed.

Lemma next_write s a v : next (write s a v) = next s.
Proof. unfold write. destruct (lookup s a); reflexivity. Qed.

Lemma allocated_write s a b v : allocated (write s a v) b <-> allocated s b.
Proof.
  unfold allocated. destruct (Pos.eq_dec a b) as [->|N].
  - unfold write. destruct (lookup s b) eqn:E.
    + unfold lookup; simpl. rewrite PositiveMap.gss. split; congruence.
    + rewrite E. tauto.
  - rewrite lookup_write_other by exact N. tauto.
Qed.

Lemma wf_write s a v : store_wf s -> store_wf (write s a v).
Proof. intros W b. rewrite allocated_write, next_write. apply W. Qed.

Lemma read_copy s a : read (fst (copy s a)) (snd (copy s a)) = read s a.
Proof. unfold copy. apply read_alloc_new. Qed.

Lemma wf_lt_allocated s a : store_wf s -> (a < next s)%positive -> allocated s a.
Proof. intros W H. apply W. exact H. Qed.
