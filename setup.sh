#!/bin/bash
# setup_cmd of MANIFEST.json: full .vo build of the Coq development (no -vos), offline.
#   --no-coqchk      skip the independent re-check (coqchk -o) at the end
#   --makefile-only  only regenerate _CoqProject and Makefile
set -e
cd "$(dirname "$0")/coq"
COQCHK=1; MKONLY=0
for a in "$@"; do case "$a" in --no-coqchk) COQCHK=0;; --makefile-only) MKONLY=1;; esac; done
{ echo "-Q . JF"; echo "-arg -w -arg -notation-overridden,-deprecated-hint-rewrite-without-locality,-deprecated-instance-without-locality,-deprecated-hint-without-locality"; for d in Base Model Proofs Props; do ls $d/*.v 2>/dev/null || true; done; } > _CoqProject
coq_makefile -f _CoqProject -o Makefile >/dev/null
[ $MKONLY = 1 ] && exit 0
# -k: one file that does not compile must not disable the checks of the other properties;
# the check of the affected property then reports its broken obligation.
timeout 6000 make -k -j16 || echo "WARNING: some Coq files did not compile (see above); the affected checks will report it" >&2
if [ $COQCHK = 1 ]; then
  mkdir -p ../evidence
  # independent re-check of every Props module and everything it depends on (stdlib and libraries included), one
  # coqchk process per module, eight at a time; the axiom summaries are concatenated into evidence/coqchk.txt
  rm -rf ../evidence/coqchk.d; mkdir -p ../evidence/coqchk.d
  # Props/C02nonvacuous.v (the non-vacuity EXAMPLES of C02 that are proved with Coq-Interval) is not re-checked by
  # coqchk: it re-evaluates the reflexive proofs of Coq-Interval without the VM and does not finish within 50 minutes
  # (measured); that file is checked by coqc (make) only.  Props/C02.v with all theorems of the property IS re-checked.
  echo "JF.Props.C02nonvacuous SKIPPED (examples only; coqchk does not finish the Coq-Interval proofs within 50 minutes; checked by coqc only)" >> ../evidence/coqchk.d/STATUS
  ls Props/*.v | grep -v '^Props/C02nonvacuous\.v$' | sed 's|/|.|; s|\.v$||; s|^|JF.|' | xargs -P 8 -I{} sh -c \
    'ulimit -s unlimited; if timeout 1800 coqchk -silent -o -Q . JF {} > ../evidence/coqchk.d/{}.txt 2>&1; then echo "{} checked" >> ../evidence/coqchk.d/STATUS; else echo "{} FAILED" >> ../evidence/coqchk.d/STATUS; fi'
  ( for f in ../evidence/coqchk.d/JF.*.txt; do echo "== $(basename $f .txt)"; cat $f; done; sort ../evidence/coqchk.d/STATUS ) > ../evidence/coqchk.txt
  rm -rf ../evidence/coqchk.d
  grep -q FAILED ../evidence/coqchk.txt && echo "coqchk did not finish cleanly for some module (see evidence/coqchk.txt)" >&2
fi
echo "setup done"
