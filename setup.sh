#!/bin/bash
# setup_cmd of MANIFEST.json: full .vo build of the Coq development (no -vos), offline.
#   --no-coqchk      skip the independent re-check (coqchk -o) at the end
#   --makefile-only  only regenerate _CoqProject and Makefile
set -e
cd "$(dirname "$0")/coq"
COQCHK=1; MKONLY=0
for a in "$@"; do case "$a" in --no-coqchk) COQCHK=0;; --makefile-only) MKONLY=1;; esac; done
{ echo "-Q . JF"; echo "-arg -w -arg -notation-overridden,-deprecated-hint-rewrite-without-locality,-deprecated-instance-without-locality,-deprecated-hint-without-locality"; for d in Base Model Proofs Props; do ls $d/*.v 2>/dev/null || true; done; } > _CoqProject
coq_makefile -f _CoqProject -o Makefile >/dev/null
[ $MKONLY = 1 ] && exit 0
# -k: one file that does not compile must not disable the checks of the other properties;
# the check of the affected property then reports its broken obligation.
timeout 6000 make -k -j16 || echo "WARNING: some Coq files did not compile (see above); the affected checks will report it" >&2
if [ $COQCHK = 1 ]; then
  mkdir -p ../evidence
  mods=$(ls Props/*.v | sed 's|/|.|; s|\.v$||; s|^|JF.|')
  ( ulimit -s unlimited; timeout 3000 coqchk -silent -o -Q . JF $mods > ../evidence/coqchk.txt 2>&1 ) || echo "coqchk did not finish cleanly (see evidence/coqchk.txt)" >&2
fi
echo "setup done"
