"""C20 — multi-process mediator == single-process mediator (DESIGN.md section 5, C20).

Runs the REAL SingleProcessMediator and the REAL MultiProcessMediator (fork, 2..6 cores, worker
processes with seed-derived delays) on the same configurations with identical per-event-handler random
streams, and
  (a) Python oracle (model independent): committed (handler, event time bits, out-state bits) sequences,
      write calls and written files identical; run ends before a timeout; no exception in mediator or
      workers; no child process left after post_run;
  (b) Coq correspondence: the recorded arrival schedule, candidate times, activator answers are fed to
      Model/MultiMediator.v, which has to reproduce the complete recorded sequence of mediator-side
      events (stage changes, pushes, picks, _out_states updates, commits, trashes); likewise the
      single-process reference model against the SingleProcessMediator trace.
"""
import json
import os

import common as C

HEADER = "Require Import JF.Model.MultiMediator JF.Model.MultiMediatorCases.\nOpen Scope Z_scope."

D = "config_files/2018_JCP_149_064113/"
EOR = "FinalTimeEndOfRunEventHandler"


def _e(t):
    return [[EOR, "end_of_run_time", t]]


# Scope A: configurations in which no event handler WITHOUT out-state arguments draws random numbers in
# send_out_state (only those can be computed ahead of time and discarded): shipped .ini files, with the
# taggers whose handlers use a bounding potential (random confirmation in send_out_state) removed.
# stream = "handler": one sequential PRNG per event handler (the property's setting).
CONFIGS_A = {
    "single_hard_disk_dipole": dict(ini="config_files/hard_disk_dipoles/single_hard_disk_dipole.ini", set=_e("3.1")),
    "dipoles_atom_factors-coulomb": dict(ini=D + "dipoles/atom_factors.ini", drop_tags=["coulomb"], set=_e("3.1")),
    "dipoles_atom_factors-coulomb_4dipoles": dict(
        ini=D + "dipoles/atom_factors.ini", drop_tags=["coulomb"],
        set=_e("2.3") + [["RandomInputHandler", "number_of_root_nodes", "4"], ["Repulsive", "number_event_handlers", "8"]]),
    "water_lj_inverted-coulomb-bending": dict(ini=D + "water/coulomb_power_bounded_lj_inverted.ini",
                                              drop_tags=["coulomb", "bending"], set=_e("4.3")),
    "water_lj_inverted-coulomb-bending_4molecules": dict(
        ini=D + "water/coulomb_power_bounded_lj_inverted.ini", drop_tags=["coulomb", "bending"],
        set=_e("3.3") + [["RandomInputHandler", "number_of_root_nodes", "4"], ["LennardJones", "number_event_handlers", "4"]]),
    "dipoles_cell_bounded-coulomb": dict(ini=D + "dipoles/cell_bounded.ini",
                                         drop_tags=["coulomb_cell_bounding", "coulomb_nearby", "coulomb_surplus"],
                                         set=_e("3.1")),
    "water_lj_cell_bounded-coulomb-bending-lj": dict(
        ini=D + "water/coulomb_power_bounded_lj_cell_bounded.ini",
        drop_tags=["coulomb", "bending", "lennard_jones_nearby", "lennard_jones_surplus", "lennard_jones_cell_bounding"],
        set=_e("4.3")),
    "water_single_molecule-bending": dict(ini=D + "water/single_molecule.ini", drop_tags=["bending"], set=_e("4.3")),
}
# Scope B (extension): unmodified shipped configurations whose out-states DO draw random numbers; the
# stream of a call is keyed by (seed, handler, number of the handler's event-time request), which makes the
# out-state a function of the in-state again.  stream = "call".
CONFIGS_B = {
    "coulomb_atoms_power_bounded": dict(ini=D + "coulomb_atoms/power_bounded.ini", set=_e("3.1")),
    "dipoles_inside_first": dict(ini=D + "dipoles/dipole_factors_inside_first.ini", set=_e("2.1")),
    "dipoles_outside_first": dict(ini=D + "dipoles/dipole_factors_outside_first.ini", set=_e("2.1")),
    "dipoles_ratio": dict(ini=D + "dipoles/dipole_factors_ratio.ini", set=_e("2.1")),
    "dipoles_atom_factors": dict(ini=D + "dipoles/atom_factors.ini", set=_e("2.1")),
    "dipole_motion": dict(ini=D + "dipoles/dipole_motion.ini", set=_e("2.1")),
    "dipoles_cell_bounded": dict(ini=D + "dipoles/cell_bounded.ini", set=_e("1.3")),
    "water_single_molecule": dict(ini=D + "water/single_molecule.ini", set=_e("3.3")),
    "water_lj_inverted": dict(ini=D + "water/coulomb_power_bounded_lj_inverted.ini", set=_e("2.3")),
    "coulomb_atoms_cell_veto": dict(ini=D + "coulomb_atoms/cell_veto.ini", set=_e("0.07")),
}
QUICK_A = ["dipoles_atom_factors-coulomb_4dipoles", "water_lj_inverted-coulomb-bending_4molecules",
           "dipoles_cell_bounded-coulomb"]


def time_key(t):
    """Order-preserving integer for a (non-negative) Time given as [quotient bits, remainder bits]."""
    return (int(t[0]) << 64) + int(t[1])


def is_nonneg(t):
    return t[0] < (1 << 63) and t[1] < (1 << 63)


# ------------------------------------------------------------------------------------------------
def gen_cases(ctx):
    rng = ctx.rng
    cases = []
    if ctx.quick():
        for name in QUICK_A:
            seed = rng.randrange(1, 10 ** 6)
            cores = rng.sample([2, 3, 4, 5, 6], 2)
            for c in cores:
                cases.append(dict(cfg=name, scope="A", stream="handler", seed=seed, cores=c,
                                  delay_seed=rng.randrange(10 ** 6), max_delay_ms=3.0))
        # schedule perturbation at the workers' synchronisation operations (pause after release / after send /
        # before clear), 2-4 cores
        for k in range(5):
            cases.append(pause_case(rng, rng.choice(PAUSE_CFGS), [2, 3, 4, 2, 3][k]))
        # worker-side out-state computations that take 0.3-0.8 s (still in flight when their handler is trashed)
        for k in range(4):
            cases.append(slow_case(rng, SLOW_CFGS[k % len(SLOW_CFGS)], [3, 6, 4, 5][k]))
        # exactly coinciding candidate times (finding F11), both schedulers
        for sched, cores, end in (("heap_scheduler", 4, "2.3"), ("heap_scheduler", 2, "2.3"), ("list_scheduler", 4, "2.3"),
                                  ("heap_scheduler", 6, "2.0"), ("list_scheduler", 3, "2.0")):
            cases.append(tie_case(rng, sched, cores, end))
        # in-states larger than the buffer of the mediator <-> worker pipe (seeded change C20-9)
        cases.append(fat_case(rng, 3))
    else:
        names = list(CONFIGS_A)
        for i in range(150):
            name = names[i % len(names)]
            seed = rng.randrange(1, 10 ** 6) if i % 3 == 0 or not cases else cases[-1]["seed"]
            cases.append(dict(cfg=name, scope="A", stream="handler", seed=seed, cores=rng.choice([2, 3, 4, 5, 6]),
                              delay_seed=rng.randrange(10 ** 6), max_delay_ms=rng.choice([0.0, 1.0, 3.0, 3.0])))
        for k in range(40):
            cases.append(pause_case(rng, rng.choice(PAUSE_CFGS), rng.choice([2, 2, 3, 3, 4, 6])))
        for k in range(16):
            cases.append(slow_case(rng, SLOW_CFGS[k % len(SLOW_CFGS)], rng.choice([3, 3, 4, 5, 6, 6])))
        for k in range(24):
            cases.append(tie_case(rng, rng.choice(["heap_scheduler", "list_scheduler"]), rng.choice([2, 3, 4, 6]),
                                  rng.choice(["2.3", "2.0", "3.1"]),
                                  rng.choice(["dipoles_atom_factors-coulomb_4dipoles", "dipoles_atom_factors-coulomb"])))
        for k in range(4):
            cases.append(fat_case(rng, [2, 3, 4, 6][k]))
        namesb = list(CONFIGS_B)
        for i in range(50):
            cases.append(dict(cfg=namesb[i % len(namesb)], scope="B", stream="call", seed=rng.randrange(1, 10 ** 6),
                              cores=rng.choice([2, 3, 4, 5, 6]), delay_seed=rng.randrange(10 ** 6),
                              max_delay_ms=rng.choice([0.0, 1.0, 3.0])))
    return cases


PAUSE_CFGS = ["dipoles_atom_factors-coulomb_4dipoles", "water_lj_inverted-coulomb-bending_4molecules",
              "dipoles_cell_bounded-coulomb", "dipoles_atom_factors-coulomb"]


def pause_case(rng, name, cores):
    return dict(cfg=name, scope="A", stream="handler", seed=rng.randrange(1, 10 ** 6), cores=cores,
                delay_seed=rng.randrange(10 ** 6), max_delay_ms=rng.choice([0.0, 1.0, 3.0]), timeout=60,
                pause={"seed": rng.randrange(10 ** 6), "prob": rng.choice([0.08, 0.15, 0.25]), "min_ms": 10.0,
                       "max_ms": 30.0, "ops": rng.choice([["release", "send", "clear"], ["release"], ["send", "clear"],
                                                          ["release", "send", "clear", "wait"]])})


SLOW_CFGS = ["dipoles_atom_factors-coulomb_4dipoles", "water_lj_inverted-coulomb-bending_4molecules"]
SLOW_SPEC = {"prob": 0.3, "per_worker": 1, "min_s": 0.3, "max_s": 0.8}


def slow_case(rng, name, cores):
    """cores >= 3: out-states are computed ahead of time; many handlers without out-state arguments whose events are
    trashed by every commit."""
    return dict(cfg=name, scope="A", stream="handler", seed=rng.randrange(1, 10 ** 6), cores=cores,
                delay_seed=rng.randrange(10 ** 6), max_delay_ms=1.0, timeout=90,
                slow_out=dict(SLOW_SPEC, seed=rng.randrange(10 ** 6)))


def fat_case(rng, cores):
    """Every point mass carries 15000 additional (unused) named charges: a pickled in-state of a pair handler is about
    0.6 MB, more than the pipe between the mediator and a worker buffers (about 200 kB), so that a send blocks until the
    worker reads (seeded change C20-9: in-state sent before the worker is started)."""
    return dict(cfg="dipoles_atom_factors-coulomb", scope="A", stream="handler", seed=rng.randrange(1, 10 ** 6),
                cores=cores, delay_seed=rng.randrange(10 ** 6), max_delay_ms=1.0, timeout=120, fat_charges=15000,
                extra_set=[[EOR, "end_of_run_time", "0.6"]])


def tie_case(rng, sched, cores, end="2.3", cfg="dipoles_atom_factors-coulomb_4dipoles"):
    """Exactly coinciding candidate times (finding F11): sampling interval = chain time = 0.5 (dyadic: the times agree
    bit for bit at 0.5, 1.0, ...); with end = "2.0" the end of the run ties as well."""
    return dict(cfg=cfg, scope="A", stream="handler", seed=rng.randrange(1, 10 ** 6), cores=cores,
                delay_seed=rng.randrange(10 ** 6), max_delay_ms=3.0, ties=True, timeout=90,
                extra_set=[[EOR, "end_of_run_time", end],
                           ["FixedIntervalSamplingEventHandler", "sampling_interval", "0.5"],
                           ["SingleIndependentActivePeriodicDirectionEndOfChainEventHandler", "chain_time", "0.5"],
                           ["SingleProcessMediator", "scheduler", sched]])


def commit_records(events):
    """[handler, time, out-state digest, write-or-None] per commit (the write of a mediating method follows its commit)"""
    recs = []
    for e in events:
        if e[0] == "commit":
            recs.append([e[1], e[2], e[3], None])
        elif e[0] == "write" and recs:
            recs[-1][3] = [e[1], e[2]]
    return recs


def compare_with_ties(s, m):
    """Finding F11 classification.  Returns (instances, failure message or None).  Outside groups of commits with
    bit-identical times the two runs must agree record for record (handler, time, out-state, write).  A maximal group
    of consecutive commits at one bit-identical time may list the same handlers in a different order (F11); inside such
    a group out-state digests and sample contents are not compared (the sampled state depends on whether the
    end-of-chain event of the same instant was committed before); if the end-of-run handler is in the group the
    comparison stops there (it may cut the other events of that instant off)."""
    a, b = commit_records(s["events"]), commit_records(m["events"])
    names = [h[0] for h in s["handlers"]]
    inst = []
    k = 0
    while k < min(len(a), len(b)):
        if a[k] == b[k]:
            k += 1
            continue
        t = a[k][1]
        if b[k][1] != t:
            return inst, "commit %d: single %s multi %s (different times)" % (k, a[k][:2], b[k][:2])
        # the group may have begun earlier with records that happened to agree
        k0 = k
        while k0 > 0 and a[k0 - 1][1] == t and b[k0 - 1][1] == t:
            k0 -= 1
        na = next((i for i in range(k0, len(a)) if a[i][1] != t), len(a)) - k0
        nb = next((i for i in range(k0, len(b)) if b[i][1] != t), len(b)) - k0
        ga, gb = [x[0] for x in a[k0:k0 + na]], [x[0] for x in b[k0:k0 + nb]]
        has_end = any("EndOfRun" in names[h] for h in ga + gb)
        if len(ga) > 1 or len(gb) > 1:
            if sorted(ga) == sorted(gb) and ga != gb:
                inst.append({"commit": k0, "time": t, "single": ga, "multi": gb})
                k = k0 + na
                continue
            if has_end and (ga != gb):
                inst.append({"commit": k0, "time": t, "single": ga, "multi": gb, "end_of_run_in_group": True})
                return inst, None
        return inst, "commit %d: single %s multi %s (not a permutation of simultaneous events: %s vs %s)" % (
            k, a[k], b[k], ga, gb)
    if not inst and len(a) != len(b):
        return inst, "different numbers of commits: %d vs %d" % (len(a), len(b))
    if inst and len(a) != len(b) and not inst[-1].get("end_of_run_in_group"):
        return inst, "different numbers of commits after a tie: %d vs %d" % (len(a), len(b))
    return inst, None


def payload(case, mediator):
    cfg = (CONFIGS_A if case["scope"] == "A" else CONFIGS_B)[case["cfg"]]
    p = dict(cfg)
    if case.get("extra_set"):
        keys = {(a, b) for a, b, _ in case["extra_set"]}
        p["set"] = [x for x in p.get("set", []) if (x[0], x[1]) not in keys] + [list(x) for x in case["extra_set"]]
    p.update(mediator=mediator, seed=case["seed"], stream=case["stream"], timeout=case.get("timeout", 150))
    if mediator == "multi":
        p.update(cores=case["cores"], delay_seed=case["delay_seed"], max_delay_ms=case["max_delay_ms"])
        if case.get("pause"):
            p["pause"] = case["pause"]
        if case.get("slow_out"):
            p["slow_out"] = case["slow_out"]
        if case.get("fat_charges"):
            p["fat_charges"] = case["fat_charges"]
    return p


def run_all(ctx, cases):
    """Runs one single-process run per (cfg, seed, stream) and one multi-process run per case."""
    skeys, spl = [], []
    for c in cases:
        k = (c["cfg"], c["scope"], c["seed"], c["stream"], json.dumps(c.get("extra_set")))
        if k not in skeys:
            skeys.append(k)
            spl.append(payload(c, "single"))
    mpl = [payload(c, "multi") for c in cases]
    outs = []
    allp = spl + mpl
    # moderate parallelism: every multi-process run owns one OS process per event handler
    step = 6
    for i in range(0, len(allp), step):
        outs += C.run_driver_parallel(ctx, "c20_multi", allp[i:i + step], timeout=400)
    single = dict(zip(skeys, outs[:len(spl)]))
    multi = outs[len(spl):]
    return single, multi


# ------------------------------------------------------------------------------------------------
# trace -> legs
def split_legs(events, multi):
    """Cut the event list into legs (one commit each)."""
    legs, cur, seen_commit = [], [], False
    for e in events:
        starts = (e[0] == "st" and e[2] == 1) if multi else (e[0] == "et")
        if starts and seen_commit:
            legs.append(cur)
            cur, seen_commit = [], False
        cur.append(e)
        if e[0] == "commit":
            seen_commit = True
    if cur:
        legs.append(cur)
    return legs


def commits_writes(events):
    return [e for e in events if e[0] in ("commit", "write")]


def min_ties(events):
    """Number of scheduler picks (single-process trace) at which the minimum was not unique, and number of
    picks that were not a minimum at all."""
    pend, ties, notmin = {}, 0, 0
    for e in events:
        if e[0] == "push":
            pend[e[1]] = time_key(e[2])
        elif e[0] == "trash":
            pend.pop(e[1], None)
        elif e[0] == "get":
            if not pend:
                continue
            m = min(pend.values())
            if pend.get(e[1]) != m:
                notmin += 1
            if sum(1 for v in pend.values() if v == m) > 1:
                ties += 1
    return ties, notmin


class Ids(object):
    def __init__(self):
        self.d = {}

    def __call__(self, digest):
        return self.d.setdefault(digest, len(self.d) + 1)


STAGES = ["Idle", "ETS", "Susp", "OSS"]


def coq_case(out, multi, cores, ids):
    """Coq term (MCase/SCase) for one recorded run; None if the trace is outside the model's vocabulary."""
    evs = out["events"]
    legs = split_legs(evs, multi)
    recs, log = [], []
    leg_et = {}
    for li, leg in enumerate(legs):
        rec = dict(run=[], times={}, outs=[], trash=[], batches=[])
        recs.append(rec)
        for e in leg:
            k = e[0]
            if k == "st":
                if e[2] == 1:
                    rec["run"].append(e[1])
                    leg_et[e[1]] = li
                log.append("EStage _ %d%%nat %s" % (e[1], STAGES[e[2]]))
            elif k == "et":
                rec["run"].append(e[1])
                leg_et[e[1]] = li
                log.append("EEt _ %d%%nat" % e[1])
            elif k == "push":
                if not is_nonneg(e[2]):
                    return None
                rec["times"][e[1]] = time_key(e[2])
                log.append("EPush _ %d%%nat %d" % (e[1], time_key(e[2])))
            elif k == "get":
                log.append("EPick _ %d%%nat" % e[1])
            elif k == "os":
                recs[leg_et[e[1]]]["outs"].append((e[1], ids(e[2])))
                log.append("EOsSet _ %d%%nat %d" % (e[1], ids(e[2])))
            elif k == "os_del":
                log.append("EOsDel _ %d%%nat" % e[1])
            elif k == "commit":
                if not multi:
                    recs[leg_et[e[1]]]["outs"].append((e[1], ids(e[3])))
                log.append("ECommit _ %d%%nat %d %d" % (e[1], time_key(e[2]), ids(e[3])))
            elif k == "trash":
                rec["trash"].append(e[1])
                log.append("ETrash _ %d%%nat" % e[1])
            elif k == "wait":
                rec["batches"].append(e[1])
    legterms = []
    for rec in recs:
        if any(h not in rec["times"] for h in rec["run"]):
            return None
        legterms.append("mkLeg %s %s %s %s %s" % (
            C.coq_list(["%d%%nat" % h for h in rec["run"]]),
            C.coq_list(["%d" % rec["times"][h] for h in rec["run"]]),
            C.coq_list(["(%d%%nat, %d)" % (h, o) for h, o in rec["outs"]]),
            C.coq_list(["%d%%nat" % h for h in rec["trash"]]),
            C.coq_list([C.coq_list(["%d%%nat" % h for h in b]) for b in rec["batches"]])))
    args = C.coq_list([C.coq_bool(h[2] != 0) for h in out["handlers"]])
    if multi:
        return "MCase %d%%nat %s\n %s\n %s" % (cores, args, C.coq_list(["(%s)" % t for t in legterms]),
                                                 C.coq_list(["(%s)" % t for t in log]))
    return "SCase %s\n %s\n %s" % (args, C.coq_list(["(%s)" % t for t in legterms]),
                                    C.coq_list(["(%s)" % t for t in log]))


# ------------------------------------------------------------------------------------------------
def oracle(case, s, m):
    """The property stated on the two real runs.  Returns (list of failure messages, list of exclusions)."""
    fails, excl = [], []
    if is_f7(case, s, m):
        return fails, ["F7"]
    for name, o in (("single-process", s), ("multi-process", m)):
        if o["status"] == "timeout":
            fails.append("%s run did not finish within the timeout (deadlock?) stages=%s pauses=%s"
                         % (name, o.get("stages_at_timeout"), o.get("pauses")))
        elif o["status"] != "ok":
            fails.append("%s run failed: %s %s" % (name, o["status"], o.get("exception", "")))
    if fails:
        return fails, excl
    if m["active_children_after_post_run"] or m["proc_children_after_post_run"]:
        fails.append("worker processes left behind after post_run: %d active children, /proc children %s"
                     % (m["active_children_after_post_run"], m["proc_children_after_post_run"]))
    if any(m["worker_err"]):
        fails.append("a worker process left run_in_process with an exception: %s" % m["worker_err"])
    noarg = [i for i, h in enumerate(s["handlers"]) if h[2] == 0]
    if case["stream"] == "handler":
        bad = [i for i in noarg if s["draws_os"][i] or m["draws_os"][i]]
        if bad:
            excl.append("out-state computation of handlers %s (no out-state arguments) draws random numbers: "
                        "outside the property's quantifier" % bad)
    if excl:
        return fails, excl
    ties, notmin = min_ties(s["events"])
    if ties or case.get("ties"):
        inst, msg = compare_with_ties(s, m)
        if msg:
            fails.append("runs with exactly coinciding candidate times differ by more than the order of simultaneous "
                         "events: " + msg)
        else:
            excl.append(["F11", inst, ties])
        return fails, excl
    cs, cm = commits_writes(s["events"]), commits_writes(m["events"])
    if cs != cm:
        i = next((i for i, (a, b) in enumerate(zip(cs, cm)) if a != b), min(len(cs), len(cm)))
        fails.append("committed (handler, time, out-state) / write sequences differ at position %d: single %s multi %s "
                     "(lengths %d, %d)" % (i, cs[i] if i < len(cs) else None, cm[i] if i < len(cm) else None,
                                           len(cs), len(cm)))
    elif s["files"] != m["files"]:
        fails.append("written sample files differ: %s vs %s" % (s["files"], m["files"]))
    return fails, excl


def is_f7(case, s, m):
    """Finding F7 (outside the property's quantifier: cell-veto out-states draw random numbers): under the
    multi-process mediator the target cell returned by a cell-veto worker is a pickled copy and is not a key of
    the cell occupancy -> KeyError in get_arguments_cell_veto_event_handler.  Matched on call site + input class."""
    return (case["scope"] == "B" and s["status"] == "ok" and m["status"] == "exception"
            and m.get("exception", "").startswith("KeyError") and "Cell object" in m.get("exception", "")
            and "get_arguments_cell_veto_event_handler" in m.get("traceback", "")
            and any("CellVeto" in h[0] for h in s.get("handlers", [])))


def trim(o):
    o = dict(o)
    ev = o.get("events", [])
    o["events"] = ev if len(ev) < 4000 else ev[:2000] + [["..."]] + ev[-2000:]
    return o


def run(ctx, cases_override=None):
    C.build_scratch(ctx, exts=("heap", "mic", "ipc"))
    broken = []
    ok, out, nthm = C.check_props(ctx)
    if not ok:
        broken.append("Props/C20.v does not check: " + out[-600:])
    cases = cases_override if cases_override is not None else load_corpus() + gen_cases(ctx)
    single, multi = run_all(ctx, cases)
    ids = Ids()
    terms, owner = [], []
    fails, exclusions, f7, tie_runs = [], [], [], []
    stats = dict(commits=0, ahead_received=0, ahead_used=0, ahead_discarded=0, trash_in_oss=0, batches=0,
                 batches_gt1=0, distinct_schedules=set(), cores={}, legs=0)
    done_single = set()
    for ci, (case, m) in enumerate(zip(cases, multi)):
        k = (case["cfg"], case["scope"], case["seed"], case["stream"], json.dumps(case.get("extra_set")))
        s = single[k]
        f, ex = oracle(case, s, m)
        if f:
            fails.append((ci, f))
            continue
        if ex == ["F7"]:
            f7.append(ci)
            continue
        if ex and isinstance(ex[0], list) and ex[0][0] == "F11":
            tie_runs.append((ci, ex[0][1], ex[0][2]))
            continue
        if ex:
            exclusions.append((ci, ex))
            continue
        # statistics of what the schedules exercised
        evs = m["events"]
        stats["commits"] += sum(1 for e in evs if e[0] == "commit")
        stats["legs"] += len(split_legs(evs, True))
        stg = {}
        for j, e in enumerate(evs):
            if e[0] == "wait":
                stats["batches"] += 1
                stats["batches_gt1"] += len(e[1]) > 1
            if e[0] == "st":
                if e[2] == 0 and stg.get(e[1]) == 3 and j > 0 and evs[j - 1][0] in ("trash", "os_del"):
                    stats["trash_in_oss"] += 1
                stg[e[1]] = e[2]
        n_os = sum(m["calls_os"])
        n_commit = sum(1 for e in evs if e[0] == "commit")
        stats["ahead_discarded"] += n_os - n_commit
        stats["distinct_schedules"].add(C.hash_str(json.dumps([e for e in evs if e[0] == "wait"])))
        stats["cores"][case["cores"]] = stats["cores"].get(case["cores"], 0) + 1
        t = coq_case(m, True, case["cores"], ids)
        if t is None:
            broken.append("multi-process trace of case %d is outside the model's vocabulary" % ci)
        else:
            terms.append(t)
            owner.append((ci, "multi"))
        if k not in done_single:
            done_single.add(k)
            t = coq_case(s, False, 0, ids)
            if t is None:
                broken.append("single-process trace of case %d is outside the model's vocabulary" % ci)
            else:
                terms.append(t)
                owner.append((ci, "single"))
    neval, bad, nfiles, nok, err = C.eval_cases(ctx, "c20", HEADER, terms, "check_mcase", "mcase", per_file=1)
    if err:
        broken.append("correspondence case files did not evaluate: " + err[-600:])
    mism = [owner[i] for i in bad]

    def rep(ci, extra):
        case = cases[ci]
        k = (case["cfg"], case["scope"], case["seed"], case["stream"], json.dumps(case.get("extra_set")))
        d = {"kind": "c20-cases", "cases": [case], "single": trim(single[k]), "multi": trim(multi[ci])}
        d.update(extra)
        return d

    if f7:
        what = ("MultiProcessMediator with a cell-veto event handler: KeyError <Cell object> in "
                "get_arguments_cell_veto_event_handler (the cell returned through the pipe is a pickled copy); "
                "%d probe run(s), e.g. %s" % (len(f7), cases[f7[0]]["cfg"]))
        if any(k.get("id") == "F7" for k in C.known_open("C20")):
            C.known(ctx, "F7", what)
        else:
            ctx.notes.append("finding F7 (not listed in known_findings.json, outside the property's quantifier): " + what)
    f11 = [(ci, i) for ci, inst, _ in tie_runs for i in inst]
    if f11:
        ci, i = f11[0]
        C.known(ctx, "F11", "%d group(s) of exactly simultaneous events committed in a different order by the "
                "multi-process mediator than by the single-process mediator (%d of %d runs with ties; tie broken by the "
                "order of pushes = arrival order of the candidate times), e.g. %s scheduler=%s cores=%d commit %d "
                "handlers single %r multi %r; nothing else differs"
                % (len(f11), len({c for c, _ in f11}), len(tie_runs), cases[ci]["cfg"],
                   [x[2] for x in cases[ci].get("extra_set", []) if x[1] == "scheduler"], cases[ci]["cores"],
                   i["commit"], i["single"], i["multi"]))
    if fails:
        ci, f = fails[0]
        C.violation(ctx, "oracle", rep(ci, {"message": f, "n_failing_cases": len(fails)}),
                    "C20 fails on the implementation: " + f[0][:300])
    elif mism:
        ci, which = mism[0]
        C.violation(ctx, "correspondence",
                    rep(ci, {"message": "the %s-process trace is not reproduced by Model/MultiMediator.v "
                                        "(check_mcase false for %d recorded runs); commits, samples and process table "
                                        "showed no failure; correspondence JF.Model.MultiMediatorCases.check_mcase no "
                                        "longer checks" % (which, len(mism))}),
                    "mediator model and implementation disagree on the recorded event sequence", nofail=True)
    elif broken:
        C.violation(ctx, "obligation", {"kind": "obligation", "broken": broken}, broken[0][:200], nofail=True)
    tie_probe = None
    if not ctx.quick() and cases_override is None:
        tie_probe = run_tie_probe(ctx)
    cfgs = sorted({c["cfg"] for c in cases})
    C.write_evidence(ctx, {
        "evaluations": len(cases) + len(single),
        "distinct_nontrivial": len(stats["distinct_schedules"]),
        "rule": "one evaluation = one complete run of a real mediator (multi-process: fork, one OS process per event "
                "handler); distinct = distinct recorded arrival schedules (sequence of connection.wait results) among the "
                "multi-process runs that entered the comparison",
        "samples": [dict(case=cases[i], commits=sum(1 for e in multi[i]["events"] if e[0] == "commit"),
                         handlers=len(multi[i].get("handlers", [])), run_s=multi[i].get("run_s"),
                         out_state_calls_in_workers=sum(multi[i]["calls_os"]))
                    for i in range(0, len(cases), max(1, len(cases) // 8))],
        "input_distribution": {
            "configurations": cfgs, "core_counts": stats["cores"],
            "scope_A (per-handler sequential streams, no random draw in pre-computable out-states)":
                sum(1 for c in cases if c["scope"] == "A"),
            "scope_B (unmodified shipped configurations, call-keyed streams; extension)":
                sum(1 for c in cases if c["scope"] == "B"),
            "legs": stats["legs"], "commits_compared": stats["commits"],
            "connection.wait batches": stats["batches"], "batches with more than one ready pipe": stats["batches_gt1"],
            "out-states computed by workers but never committed (discarded or unused)": stats["ahead_discarded"],
            "pre-computed out-states drained in the trash loop (stage out_state_started)": stats["trash_in_oss"],
            "excluded_cases": [[cases[i]["cfg"], e] for i, e in exclusions][:20],
            "n_excluded": len(exclusions),
            "runs with exactly coinciding candidate times (compared up to the order inside groups of simultaneous "
            "events; not fed to the Coq correspondence, whose scheduler has a fixed tie rule)": len(tie_runs),
            "of these with a swapped group (finding F11)": len({c for c, _ in f11}),
            "F11 instances": [dict(i, cfg=cases[c]["cfg"], cores=cases[c]["cores"]) for c, i in f11][:6],
            "runs with pauses at the workers' synchronisation operations (after release / after send / before clear)":
                sum(1 for c in cases if c.get("pause")),
            "pauses injected": sum(p["n"] for m_ in multi for p in m_.get("pauses", [])),
            "runs with slow worker-side out-state computations": sum(1 for c in cases if c.get("slow_out")),
            "out-state computations prolonged by 0.3-0.8 s (count, total seconds)":
                [sum(x[1] for m_ in multi for x in m_.get("slowed_out_states", [])),
                 round(sum(x[2] for m_ in multi for x in m_.get("slowed_out_states", [])) / 1000.0, 1)],
            "slow out-state specification": SLOW_SPEC,
            "cell-veto probes that hit finding F7": len(f7),
            "tie probe (documentation of the strict-minimum hypothesis, never decides pass/fail)": tie_probe,
        },
        "blocking_drain_obligation": "the mediator must WAIT for the in-flight out-state of a trashed handler: in the Coq "
                                     "protocol model (Model/MultiMediator.v, Level B) the only transitions out of stage "
                                     "out_state_started are receives (mstep ARecv / ABlockRecv; m_trash_one's OSS case is "
                                     "that blocking pipe.recv()), and theorem channel_safe (Props/C20.v: stage idle or "
                                     "suspended => pipe empty and worker blocked; an object in the pipe is of the kind "
                                     "the stage announces) is exactly what a timed-out / skipped drain breaks — such a "
                                     "mediator action is not among the model's mact, so no new theorem is needed; the "
                                     "recorded stage log is identical with and without the drain, hence the tie to the "
                                     "code is the slow-out-state stratum of real runs (out-state computations prolonged "
                                     "by 0.3-0.8 s in the worker, commits compared with the single-process run)",
        "model_vs_impl_mismatches": len(mism),
        "oracle_failures": len(fails),
        "traces_validated_against_impl": neval,
        "case_files": nfiles, "case_files_ok": nok,
        "explanation": "Props/C20.v re-checked (%d theorems); %d multi-process and %d single-process runs of the real "
                       "mediators; commits/samples/files bit-identical, no process left, no timeout; every recorded "
                       "event sequence reproduced by the Coq model under the recorded arrival schedule"
                       % (nthm, len(cases), len(single)),
        "trusted_base": TRUSTED,
    }, ASSUME)


def run_tie_probe(ctx):
    """single_hard_disk_dipole.ini (list scheduler) with end_of_run_time == chain_time: the end-of-chain and the
    end-of-run candidate tie in the leg after the start of the run; which one the scheduler returns depends on
    the arrival order under the multi-process mediator (tie_sensitivity_refuted on the real code)."""
    base = dict(ini="config_files/hard_disk_dipoles/single_hard_disk_dipole.ini", set=_e("0.5"), seed=1,
                stream="handler", timeout=100)
    pls = [dict(base, mediator="single")] + [dict(base, mediator="multi", cores=4, delay_seed=d, max_delay_ms=8.0)
                                             for d in range(8)]
    outs = C.run_driver_parallel(ctx, "c20_multi", pls[:5], timeout=300) + \
        C.run_driver_parallel(ctx, "c20_multi", pls[5:], timeout=300)
    seqs = [[e[1] for e in o["events"] if e[0] == "commit"] for o in outs]
    return {"single_process_commit_handlers": seqs[0], "ties_at_minimum_in_single_run": min_ties(outs[0]["events"])[0],
            "multi_process_runs": len(seqs) - 1,
            "multi_process_runs_with_a_different_commit_sequence": sum(1 for q in seqs[1:] if q != seqs[0]),
            "distinct_multi_process_commit_sequences": [list(x) for x in sorted({tuple(q) for q in seqs[1:]})]}


TRUSTED = [
    "hand-written model coq/Model/MultiMediator.v (transcription of MultiProcessMediator.run, run_in_process, "
    "SingleProcessMediator.run); global state abstracted to the list of commits",
    "tracer harness/drivers/c20_multi.py: recording wrappers (logging dicts for _event_handlers_state/_out_states, "
    "connection.wait shim, scheduler/state-handler/output wrappers), per-handler random streams, sleeps in workers",
    "OS process scheduling, pipe buffering, multiprocessing.Event atomicity and process teardown are not modelled "
    "(observed only through the real runs)",
]
ASSUME = [
    "candidate time that is selected is strictly smaller than every other pending candidate time (ties at the minimum "
    "are excluded: see tie_sensitivity_refuted); runs with such a tie are counted as excluded",
    "out-state computations that can be started ahead of time (handlers without out-state arguments) draw no random "
    "numbers (scope A), or random streams are keyed per request (scope B, extension)",
    "activator well-formedness (handlers to run have no pending event, committing handler is trashable) — asserted by "
    "TagActivator itself",
    "workers answer every request (proved for the worker automaton, Level B), OS delivers pipe objects in order",
]


def load_corpus():
    p = os.path.join(C.VERIF, "corpus", "C20", "cases.json")
    return json.load(open(p)) if os.path.exists(p) else []


def replay(ctx, path):
    data = json.load(open(path))
    cases = data.get("cases", [])
    # timing decides the arrival schedule: repeat the stored case a few times
    run(ctx, cases_override=[dict(c) for c in cases for _ in range(3)])
