"""Shared machinery of the history properties (C07, C08, C09, C11, C12, C13 run part, C17):
configuration list (shipped + generated variations), traced real runs, Coq encodings of traces."""
import glob
import json
import os

import common as C
import tracecheck as TC

NOT_RUNNABLE = ("hard_disk_dipoles.ini", "hard_disk_dipoles_cells.ini")   # need MDAnalysis (not installed)


def shipped_configs(ctx):
    base = os.path.join(ctx.scratch, "jellyfysh")
    cfgs = sorted(glob.glob(os.path.join(base, "config_files", "**", "*.ini"), recursive=True))
    return [os.path.relpath(c, base) for c in cfgs if os.path.basename(c) not in NOT_RUNNABLE]


def variations(ctx, cfgs, n_var):
    """Harness-generated configurations: shipped ones with overridden particle numbers, box lengths,
    schedulers, cell grids, chain times, sampling intervals (coincidence forcing) and short end times."""
    rng = ctx.rng
    out = []
    for _ in range(n_var):
        c = rng.choice(cfgs)
        ini = open(os.path.join(ctx.scratch, "jellyfysh", c)).read()
        ov = {}
        if rng.random() < 0.5:
            ov.setdefault("SingleProcessMediator", {})["scheduler"] = rng.choice(["heap_scheduler", "list_scheduler"])
        if "[RandomInputHandler]" in ini and "number_of_root_nodes" in ini and rng.random() < 0.7:
            nroots = rng.choice([2, 3, 4, 5, 6, 8])
            ov.setdefault("RandomInputHandler", {})["number_of_root_nodes"] = nroots
            # the configured numbers of event handlers are sized for the shipped particle number
            from configparser import ConfigParser
            cp = ConfigParser()
            cp.read_string(ini)
            for sec in cp.sections():
                if cp.has_option(sec, "number_event_handlers"):
                    ov.setdefault(sec, {})["number_event_handlers"] = max(int(cp.get(sec, "number_event_handlers")),
                                                                          6 * nroots)
        dt = rng.choice([0.125, 0.25, 0.5, 0.56789, 0.3, 1.0])
        if "[FixedIntervalSamplingEventHandler]" in ini and rng.random() < 0.8:
            ov.setdefault("FixedIntervalSamplingEventHandler", {})["sampling_interval"] = dt
        for sec in ("SingleIndependentActivePeriodicDirectionEndOfChainEventHandler",
                    "SingleIndependentActiveSequentialDirectionEndOfChainEventHandler"):
            if "[" + sec + "]" in ini and rng.random() < 0.8:
                # chain time equal to / commensurate with the sampling interval forces coincidences
                ov.setdefault(sec, {})["chain_time"] = rng.choice([dt, 2 * dt, dt / 2, 0.78965, 0.1])
        if "[FinalTimeEndOfRunEventHandler]" in ini and rng.random() < 0.8:
            ov.setdefault("FinalTimeEndOfRunEventHandler", {})["end_of_run_time"] = rng.choice([1.0, 2.5, 4 * dt, 3.3])
        if "[CuboidPeriodicCells]" in ini and "cell_veto" not in c and rng.random() < 0.6:
            ov.setdefault("CuboidPeriodicCells", {})["cells_per_side"] = rng.choice(["3", "4", "5", "3, 4, 5", "4, 3, 3"])
        out.append((c, ov))
    return out


def water_switch_overrides():
    """single water molecule with molecule/atom mode switching added (three point masses per composite object;
    no shipped configuration combines the switcher with more than two)"""
    return {
        "TagActivator": {"taggers": "harmonic (factor_type_map_in_state_tagger), bending (factor_type_map_in_state_tagger), "
                                    "sampling (no_in_state_tagger), end_of_chain (active_global_state_in_state_tagger), "
                                    "end_of_run (no_in_state_tagger), start_of_run (no_in_state_tagger), "
                                    "leaf_to_root (active_root_unit_in_state_tagger), "
                                    "root_to_leaf (active_root_unit_in_state_tagger)"},
        "RootToLeaf": {"create": "harmonic, bending, leaf_to_root, end_of_chain", "trash": "root_to_leaf, end_of_chain",
                       "activate": "harmonic, bending, leaf_to_root", "deactivate": "root_to_leaf",
                       "event_handler": "root_to_leaf_mode (root_leaf_unit_active_switcher)"},
        "RootToLeafMode": {"chain_length": "0.7", "aim_mode": "leaf_unit_active"},
        "LeafToRoot": {"trash": "harmonic, bending, leaf_to_root, end_of_chain", "create": "root_to_leaf, end_of_chain",
                       "activate": "root_to_leaf", "deactivate": "harmonic, bending, leaf_to_root",
                       "event_handler": "leaf_to_root_mode (root_leaf_unit_active_switcher)"},
        "LeafToRootMode": {"chain_length": "0.69", "aim_mode": "root_unit_active"},
        "StartOfRun": {"create": "harmonic, bending, sampling, end_of_chain, end_of_run, leaf_to_root",
                       "activate": "harmonic, bending, sampling, leaf_to_root, end_of_run, end_of_chain",
                       "deactivate": "root_to_leaf"},
        "EndOfRun": {"trash": "end_of_chain, harmonic, bending, end_of_run, leaf_to_root, root_to_leaf"},
        "SingleIndependentActivePeriodicDirectionEndOfChainEventHandler": {"chain_time": "0.5"},
    }



def deactivated_untrashed_job():
    """power_bounded.ini with four atoms and two timer taggers built from shipped classes: one DEACTIVATES the Coulomb
    tagger without trashing it, the other activates it again.  The Coulomb candidates stay in the scheduler while the
    tagger is deactivated and must still be found and trashed by the events that list its tag (C08).  Not a job for
    C09: by C09's wording a deactivated tagger with pending events is not a fresh start (the configuration itself
    asks for that)."""
    return ("config_files/2018_JCP_149_064113/coulomb_atoms/power_bounded.ini", {
        "RandomInputHandler": {"number_of_root_nodes": 4}, "Coulomb": {"number_event_handlers": 3},
        "SingleIndependentActivePeriodicDirectionEndOfChainEventHandler": {"chain_time": 0.1001},
        "TagActivator": {"taggers": "coulomb (factor_type_map_in_state_tagger), sampling (no_in_state_tagger), "
                                    "end_of_chain (active_global_state_in_state_tagger), "
                                    "start_of_run (no_in_state_tagger), end_of_run (no_in_state_tagger), "
                                    "switch_off (no_in_state_tagger), switch_on (no_in_state_tagger)"},
        "SwitchOff": {"create": "switch_off", "trash": "switch_off", "deactivate": "coulomb",
                      "event_handler": "switch_off_timer (fixed_interval_sampling_event_handler)"},
        "SwitchOffTimer": {"sampling_interval": 0.1, "output_handler": "separation_output_handler"},
        "SwitchOn": {"create": "switch_on, coulomb", "trash": "switch_on", "activate": "coulomb",
                     "event_handler": "switch_on_timer (fixed_interval_sampling_event_handler)"},
        "SwitchOnTimer": {"sampling_interval": 0.1002, "output_handler": "separation_output_handler"},
        "StartOfRun": {"create": "coulomb, sampling, end_of_chain, end_of_run, switch_off, switch_on"},
        "EndOfRun": {"trash": "end_of_chain, coulomb, sampling, end_of_run, switch_off, switch_on"}})


def crowded_jobs(cfgs):
    """Deterministic extra jobs: many units in few cells (several units per cell, surplus lists in use) and
    three composite objects with molecule/atom mode switching (two active leaves of one object at once)."""
    out = []
    for c in cfgs:
        if c.endswith("coulomb_atoms/cell_bounded.ini"):
            out.append((c, {"RandomInputHandler": {"number_of_root_nodes": 20},
                            "CuboidPeriodicCells": {"cells_per_side": "5, 2, 2"},
                            "CoulombCellBounding": {"number_event_handlers": 60},
                            "CoulombNearby": {"number_event_handlers": 60},
                            "CoulombSurplus": {"number_event_handlers": 60}}))
        if c.endswith("coulomb_atoms/cell_veto.ini"):
            # 24 atoms in 4 x 3 x 3 cells with occupant limit 1: surplus units and surplus-tagger events are frequent
            out.append((c, {"RandomInputHandler": {"number_of_root_nodes": 24},
                            "CuboidPeriodicCells": {"cells_per_side": "4, 3, 3"},
                            "CoulombNearby": {"number_event_handlers": 40},
                            "CoulombSurplus": {"number_event_handlers": 40}}))
            # the same at high temperature: few interaction events, so that cell-boundary events follow directly on
            # every kind of event (a missing re-creation of the cell-boundary event lets the active unit leave its cell)
            for beta in ("0.3", "0.05"):
                out.append((c, {"RandomInputHandler": {"number_of_root_nodes": 24},
                                "CuboidPeriodicCells": {"cells_per_side": "4, 3, 3"},
                                "HypercubicSetting": {"beta": beta},
                                "CoulombNearby": {"number_event_handlers": 40},
                                "CoulombSurplus": {"number_event_handlers": 40}}))
        if c.endswith("water/single_molecule.ini"):
            # molecule/atom mode switching with THREE point masses per composite object: one and three molecules
            out.append((c, water_switch_overrides()))
            ov = water_switch_overrides()
            ov["RandomInputHandler"] = {"number_of_root_nodes": 3}
            out.append((c, ov))
        if c.endswith("dipoles/dipole_motion.ini"):
            ov = {"RandomInputHandler": {"number_of_root_nodes": 3}}
            for sec in ("HarmonicLeaf", "CoulombLeaf", "RepulsiveLeaf", "CoulombRoot", "RepulsiveRoot"):
                ov[sec] = {"number_event_handlers": 12}
            out.append((c, ov))
    return out


def run_traces(ctx, jobs, max_legs, seeds=(1,)):
    """jobs: list of (config, overrides).  Returns list of traces (dict)."""
    payloads = []
    for (c, ov) in jobs:
        for s in seeds:
            if isinstance(ov, str):      # harness-generated configuration: (label, ini text)
                payloads.append({"config": c, "ini_text": ov, "seed": s, "max_legs": max_legs, "overrides": {}})
            else:
                payloads.append({"config": c, "seed": s, "max_legs": max_legs, "overrides": ov})
    trs = C.run_driver_parallel(ctx, "trace_run", payloads, timeout=1200)
    for tr, pl in zip(trs, payloads):
        tr["overrides"] = pl["overrides"]
        tr["ini_text"] = pl.get("ini_text")
    return trs


def standard_jobs(ctx):
    cfgs = shipped_configs(ctx)
    jobs = [(c, {}) for c in cfgs]
    jobs += crowded_jobs(cfgs)
    jobs += variations(ctx, cfgs, ctx.n(8, 100))
    jobs += generated_jobs(ctx, ctx.n(10, 100))
    return jobs


def trace_label(tr):
    return {"config": tr["config"], "seed": tr["seed"], "overrides": tr.get("overrides"), "legs": len(tr["legs"]),
            "ended": tr["ended"]}


# ----------------------------------------------------------------------------------------------
# Coq encodings
def coq_ident(i):
    return C.coq_list([str(int(x)) for x in i])


def coq_instate(x):
    if x is None:
        return "None"
    return "(Some %s)" % C.coq_list([coq_ident(i) for i in x])


def coq_nat_list(l):
    return C.coq_list([str(int(x)) for x in l])


def tagger_kind(meta, ti):
    t = meta["taggers"][ti]
    if "StartOfRunEventHandler" in t["handler_bases"]:
        return "TOneShot"
    base = TC.tagger_base(meta, ti)
    if base in TC.IDENTITY_TAGGERS:
        return "TIdentity"
    if base in TC.COUNT_TAGGERS:
        return "TCount"
    raise C.DriverError("unknown tagger class %s (fail closed)" % base)


def encode_acase(tr, max_legs=None):
    """Activator case (Model/ActivatorCases.v acase) of one trace."""
    meta = tr["meta"]
    tags = [t["tag"] for t in meta["taggers"]]
    tix = {t: i for i, t in enumerate(tags)}
    nt = len(tags)
    hs = [[] for _ in range(nt)]
    for hi, h in enumerate(meta["handlers"]):
        hs[h["tagger"]].append(hi)
    start = [i for i, t in enumerate(meta["taggers"]) if "StartOfRunEventHandler" in t["handler_bases"]]
    if len(start) != 1:
        raise C.DriverError("no unique start-of-run tagger")

    def tl(key):
        return C.coq_list([coq_nat_list([tix[x] for x in t[key]]) for t in meta["taggers"]])
    w = ("{| w_creates := %s; w_trashes := %s; w_activates := %s; w_deactivates := %s; w_handlers := %s; "
         "w_start := %d; w_tagger_of := %s |}" % (tl("creates"), tl("trashes"), tl("activates"), tl("deactivates"),
                                                  C.coq_list([coq_nat_list(x) for x in hs]), start[0],
                                                  coq_nat_list([h["tagger"] for h in meta["handlers"]])))
    kinds = C.coq_list([tagger_kind(meta, i) for i in range(nt)])
    legs = []
    for leg in tr["legs"][:max_legs]:
        if leg.get("pick") is None or "fresh" not in leg:
            break
        gens = []
        for ti in range(nt):
            f = leg["fresh"][str(ti)] if isinstance(leg["fresh"], dict) and str(ti) in leg["fresh"] else leg["fresh"][ti]
            if isinstance(f, str):
                f = []
            gens.append(C.coq_list([coq_instate(x) for x in f]))
        act = leg["activated"]
        actl = [act[str(ti)] if str(ti) in act else act[ti] for ti in range(nt)]
        legs.append("{| l_gen := %s; l_torun := %s; l_active := %s; l_pick := %d; l_trash := %s |}" % (
            C.coq_list(gens),
            C.coq_list(["(%d, %s)" % (h, coq_instate(i)) for h, i in leg["to_run"]]),
            C.coq_list([C.coq_bool(b) for b in actl]), leg["pick"], coq_nat_list(leg["trash"])))
    return "{| c_w := %s; c_kinds := %s; c_legs := %s |}" % (w, kinds, C.coq_list(legs))


# ----------------------------------------------------------------------------------------------
def run_history_check(ctx, prop, oracle_props, encoders, trusted, assumptions, explanation,
                      jobs=None, max_legs=None, coq_legs=None, replay_jobs=None, static_obligations=None, prebuilt=False,
                      extra_batches=(), record_fresh=True, record_instates=True):
    """Common body of the history checks.
    encoders: list of (name, header, checker, case_type, encode(trace) -> term or None).
    Traces are produced, checked and encoded in batches of BATCH runs so that memory stays bounded."""
    import time as _time
    if not prebuilt:
        C.build_scratch(ctx, exts=("heap", "mic", "ipc"))
    broken = []
    ok, out, nthm = C.check_props(ctx)
    if not ok:
        broken.append("Props/%s.v does not check: %s" % (prop, out[-600:]))
    if static_obligations:
        broken += static_obligations(ctx)
    max_legs = max_legs or ctx.n(250, 1200)
    coq_legs = coq_legs or ctx.n(150, 400)
    # ---- payloads
    payloads = []
    if replay_jobs is not None:
        payloads = [dict(pl) for pl in replay_jobs]
    else:
        jobs = jobs or standard_jobs(ctx)
        seeds = (ctx.seed, ctx.seed + 1000) if ctx.tier == "thorough" else (ctx.seed,)
        batches = [(jobs, max_legs, seeds)] + list(extra_batches)
        for (xjobs, xlegs, xseeds) in batches:
            for (c, ov) in xjobs:
                for sd in xseeds:
                    if isinstance(ov, str):      # harness-generated configuration: (label, ini text)
                        payloads.append({"config": c, "ini_text": ov, "seed": sd, "max_legs": xlegs, "overrides": {}})
                    else:
                        flags = dict(ov.get("_tracer") or {})      # tracer options of this job (not part of the .ini)
                        payloads.append(dict({"config": c, "seed": sd, "max_legs": xlegs,
                                              "overrides": {k: v for k, v in ov.items() if k != "_tracer"}}, **flags))
    for pl in payloads:
        pl.setdefault("record_fresh", record_fresh)
        pl.setdefault("record_instates", record_instates)
    BATCH = 24
    all_fail, mism, labels = [], [], []
    stats_sum, cfg_kinds = {}, {}
    neval_total = nleg = ntraces = 0
    t_trace = t_oracle = t_coq = 0.0
    for b0 in range(0, len(payloads), BATCH):
        pls = payloads[b0:b0 + BATCH]
        t0 = _time.time()
        trs = C.run_driver_parallel(ctx, "trace_run", pls, timeout=1800)
        for tr, pl in zip(trs, pls):
            tr["overrides"] = pl.get("overrides")
            tr["ini_text"] = pl.get("ini_text")
            tr["light"] = bool(pl.get("light"))
        t_trace += _time.time() - t0
        t0 = _time.time()
        # 1. model-independent oracle on every trace
        for ti, tr in enumerate(trs):
            fails, stats = TC.check_all(tr, props=oracle_props)
            for p_ in oracle_props:
                for f in fails[p_]:
                    all_fail.append((payload_of(tr, f["leg"] + 2), p_, f, tr["config"]))
            for k, v in stats.items():
                if isinstance(v, dict):
                    d = stats_sum.setdefault(k, {})
                    for kk, vv in v.items():
                        d[kk] = d.get(kk, 0) + vv
                elif k == "max_moving":
                    stats_sum[k] = max(stats_sum.get(k, 0), v)
                else:
                    stats_sum[k] = stats_sum.get(k, 0) + v
            nleg += len(tr["legs"])
            ntraces += 1
            cfg_kinds[tr["config"]] = cfg_kinds.get(tr["config"], 0) + 1
            if len(labels) < 8:
                labels.append(trace_label(tr))
        t_oracle += _time.time() - t0
        t0 = _time.time()
        # 2. conformance of the recorded runs with the Coq model, evaluated in Coq
        for (name, header, checker, case_type, encode) in encoders:
            terms, idx = [], []
            for ti, tr in enumerate(trs):
                if tr.get("error"):
                    continue
                t = encode(tr, coq_legs)
                if t is not None:
                    terms.append(t)
                    idx.append(ti)
            if not terms:
                continue
            neval, bad, nfiles, nok, err = C.eval_cases(ctx, "%s_b%03d" % (name, b0 // BATCH), header, terms, checker,
                                                        case_type, per_file=1)
            neval_total += neval
            if err:
                broken.append("%s case files did not evaluate: %s" % (name, err[-800:]))
            mism += [(name, payload_of(trs[idx[i]], coq_legs), trs[idx[i]]["config"]) for i in bad]
        t_coq += _time.time() - t0
        del trs
    ctx.notes += ["tracing took %.1fs" % t_trace, "oracle took %.1fs" % t_oracle, "coq conformance took %.1fs" % t_coq]
    # verdicts
    if all_fail:
        pl, p_, f, cfg = all_fail[0]
        C.violation(ctx, "oracle", {"kind": "trace", "payload": pl, "leg": f["leg"], "message": f["msg"],
                                    "n_failing": len(all_fail),
                                    "other_failures": [(c, b, d) for a, b, d, c in all_fail[1:6]]},
                    "%s fails on a real run: %s (leg %d of %s)" % (prop, f["msg"], f["leg"], cfg))
    elif mism:
        name, pl, cfg = mism[0]
        C.violation(ctx, "conformance", {"kind": "trace", "payload": pl,
                                         "message": "recorded run is not accepted by the Coq model (%s); the "
                                         "model-independent oracle found no failing step; correspondence %s no longer "
                                         "checks" % (name, name), "n_mismatching_traces": len(mism)},
                    "recorded run not accepted by the Coq model %s" % name, nofail=True)
    elif broken:
        C.violation(ctx, "obligation", {"kind": "obligation", "broken": broken}, broken[0][:300], nofail=True)
    C.write_evidence(ctx, {
        "evaluations": nleg,
        "distinct_nontrivial": stats_sum.get("commits", 0),
        "rule": "legs of traced real runs (jellyfysh.run.main with the tracer attached) of the 17 runnable shipped "
                "configurations, of variations of them (particle numbers, schedulers, cell grids, chain / sampling / "
                "end times, crowded cells, mode switching with three composite objects) and of harness-generated "
                "configurations (soft spheres in cubic and non-cubic boxes, unequal cell counts); "
                "distinct_nontrivial = committed events (each changes the global state or the scheduler contents)",
        "samples": labels,
        "input_distribution": {"traces": ntraces, "per_config": cfg_kinds, "event_kinds": stats_sum.get("kinds"),
                               "stats": {k: v for k, v in stats_sum.items() if k != "kinds"}},
        "traces_validated_against_impl": ntraces,
        "coq_conformance_cases": neval_total,
        "oracle_failures": len(all_fail), "conformance_mismatches": len(mism),
        "explanation": explanation,
        "trusted_base": trusted,
    }, assumptions)


def payload_of(tr, max_legs):
    return {"config": tr["config"], "seed": tr["seed"], "overrides": tr.get("overrides") or {},
            "max_legs": max_legs, "ini_text": tr.get("ini_text"), "light": bool(tr.get("light"))}


def replay_payloads(path):
    data = json.load(open(path))
    pl = dict(data.get("payload") or {})
    pl.setdefault("overrides", {})
    pl.setdefault("max_legs", 300)
    return [pl]


# ----------------------------------------------------------------------------------------------
# Kinematics case (Model/Kinematics.v kcase)
KIND_COQ = {"start_of_run": "KStart", "end_of_run": "KEndOfRun", "sampling": "KSampling", "dumping": "KDumping",
            "end_of_chain": "KEndOfChain", "switcher": "KSwitcher", "cell_boundary": "KCellBoundary",
            "cell_veto": "KCellVeto", "interaction": "KInteraction"}


def fbz(b):
    return "(of_bits %d%%Z)" % int(b)


def coq_unit(u):
    ch = u.get("charge") or {}
    return ("{| u_id := %s; u_pos := %s; u_vel := %s; u_ts := %s; u_charge := %s |}" % (
        coq_nat_list(u["id"]),
        C.coq_list([fbz(b) for b in u["pos"]]),
        "None" if u["vel"] is None else "(Some %s)" % C.coq_list([fbz(b) for b in u["vel"]]),
        "None" if u["ts"] is None else "(Some (%s, %s))" % (fbz(u["ts"][0]), fbz(u["ts"][1])),
        C.coq_list(["%d%%Z" % ch[k] for k in sorted(ch)])))


def coq_ftime(t):
    return "(%s, %s)" % (fbz(t[0]), fbz(t[1]))


def encode_kcase(tr, max_legs=None):
    meta = tr["meta"]
    legs = []
    for leg in tr["legs"][:max_legs]:
        if leg.get("pick") is None or leg.get("out") is None or leg.get("delta") is None or leg.get("time") is None:
            break
        legs.append("{| k_kind := %s; k_cands := %s; k_pick := %d; k_time := %s; k_out := %s; k_trash := %s; "
                    "k_after := %s |}" % (
                        KIND_COQ[TC.handler_kind(meta, leg["pick"])],
                        C.coq_list(["(%d, %s)" % (h, coq_ftime(t)) for h, t in leg["cands"]]),
                        leg["pick"], coq_ftime(leg["time"]),
                        C.coq_list([coq_unit(u) for u in leg["out"]]),
                        coq_nat_list(leg["trash"]),
                        C.coq_list([coq_unit(u) for u in leg["delta"]])))
    if not legs:
        return None
    return "{| kc_L := %s; kc_init := %s; kc_legs := %s |}" % (
        C.coq_list([fbz(b) for b in meta["system_lengths"]]),
        C.coq_list([coq_unit(u) for u in tr["init_state"]]),
        C.coq_list(legs))


KIN_HEADER = "Require Import JF.Base.F64 JF.Model.Kinematics.\nFrom Coq Require Import ZArith."


def encode_scase(tr, max_legs=None):
    meta = tr["meta"]
    k = encode_kcase(tr, max_legs)
    if k is None:
        return None
    legs = tr["legs"][:max_legs]
    per = []
    endt = "None"
    for hi, h in enumerate(meta["handlers"]):
        cands = [t for leg in legs for (x, t) in leg["cands"] if x == hi]
        dt = h.get("sampling_interval", h.get("dumping_interval"))
        if dt is not None and "initial_event_time" in h:
            per.append("{| p_dt := %s; p_t0 := %s; p_times := %s |}" % (
                fbz(dt), coq_ftime(h["initial_event_time"]), C.coq_list([coq_ftime(t) for t in cands])))
        if "EndOfRunEventHandler" in meta["taggers"][h["tagger"]]["handler_bases"] and cands \
                and tr.get("end_of_run_time") is not None:
            endt = "(Some (%s, %s))" % (fbz(tr["end_of_run_time"]), coq_ftime(cands[0]))
    return "{| sc_k := %s; sc_periodic := %s; sc_end := %s |}" % (k, C.coq_list(per), endt)


def encode_ncase(tr, max_legs=None, which=0):
    """Model/SampleCount.v ncase of the which-th fixed-interval (sampling / dumping) handler of a traced run with a
    configured end time: kind 1 = this handler committed, 2 = an end-of-run handler committed, 0 = anything else."""
    meta = tr["meta"]
    if tr.get("end_of_run_time") is None or tr.get("resumed"):
        return None
    per = [hi for hi, h in enumerate(meta["handlers"])
           if h.get("sampling_interval", h.get("dumping_interval")) is not None and "initial_event_time" in h]
    if which >= len(per):
        return None
    hi = per[which]
    h = meta["handlers"][hi]
    legs = []
    for leg in tr["legs"][:max_legs]:
        if leg.get("pick") is None or leg.get("time") is None:
            break
        bases = meta["taggers"][meta["handlers"][leg["pick"]]["tagger"]]["handler_bases"]
        kind = 1 if leg["pick"] == hi else (2 if "EndOfRunEventHandler" in bases else 0)
        legs.append("(%d%%nat, %s)" % (kind, coq_ftime(leg["time"])))
    if not legs:
        return None
    return "{| n_dt := %s; n_t0 := %s; n_end := %s; n_legs := %s |}" % (
        fbz(h.get("sampling_interval", h.get("dumping_interval"))), coq_ftime(h["initial_event_time"]),
        fbz(tr["end_of_run_time"]), C.coq_list(legs))


COUNT_HEADER = ("Require Import JF.Base.F64 JF.Model.Kinematics JF.Model.Sampling JF.Model.SampleCount.\n"
                "From Coq Require Import ZArith.")

SAMPLING_HEADER = ("Require Import JF.Base.F64 JF.Model.Kinematics JF.Model.Sampling.\n"
                   "From Coq Require Import ZArith.")


def encode_ccase(tr, max_legs=None):
    k = encode_kcase(tr, max_legs)
    if k is None or tr["meta"]["number_of_node_levels"] < 2:
        return None
    ws = C.coq_list(["(%s, %s)" % (coq_nat_list(u["id"]), fbz(u["w"])) for u in tr["init_state"]])
    return "{| cc_k := %s; cc_w := %s |}" % (k, ws)


COMPOSITE_HEADER = ("Require Import JF.Base.F64 JF.Model.Kinematics JF.Model.Composite.\n"
                    "From Coq Require Import ZArith.")


def factor_handlers(meta):
    return [hi for hi in range(len(meta["handlers"])) if TC.handler_kind(meta, hi) in ("interaction", "cell_veto")]


def encode_stcase(tr, max_legs=None):
    meta = tr["meta"]
    fh = set(factor_handlers(meta))
    legs = []
    for leg in tr["legs"][:max_legs]:
        if leg.get("pick") is None or leg.get("out") is None or leg.get("delta") is None or leg.get("time") is None:
            break
        k = ("{| k_kind := %s; k_cands := %s; k_pick := %d; k_time := %s; k_out := %s; k_trash := %s; "
             "k_after := %s |}" % (
                 KIND_COQ[TC.handler_kind(meta, leg["pick"])],
                 C.coq_list(["(%d, %s)" % (h, coq_ftime(t)) for h, t in leg["cands"]]),
                 leg["pick"], coq_ftime(leg["time"]),
                 C.coq_list([coq_unit(u) for u in leg["out"]]),
                 coq_nat_list(leg["trash"]),
                 C.coq_list([coq_unit(u) for u in leg["delta"]])))
        ins = []
        for hs, units in leg["instates"].items():
            if int(hs) in fh and units is not None:
                ins.append("(%d, %s)" % (int(hs), C.coq_list([coq_unit(u) for u in units])))
        legs.append("{| sl_k := %s; sl_instates := %s |}" % (k, C.coq_list(ins)))
    if not legs:
        return None
    return "{| st_L := %s; st_init := %s; st_factor_handlers := %s; st_legs := %s |}" % (
        C.coq_list([fbz(b) for b in meta["system_lengths"]]),
        C.coq_list([coq_unit(u) for u in tr["init_state"]]),
        coq_nat_list(sorted(fh)), C.coq_list(legs))


STALE_HEADER = ("Require Import JF.Base.F64 JF.Model.Kinematics JF.Model.Stale.\n"
                "From Coq Require Import ZArith.")


# ----------------------------------------------------------------------------------------------
# Harness-generated configurations (not derived from a shipped file): soft spheres in cubic and
# NON-CUBIC boxes of dimension 2-3, with and without a cell system with unequal cell counts, both
# schedulers, periodic / sequential end of chain, sampling intervals commensurate with the chain time.
def generated_ini(rng):
    dim = rng.choice([2, 3])
    cubic = rng.random() < 0.3
    if cubic:
        L = rng.choice([1.0, 2.0, 0.7])
        setting = "hypercubic_setting"
        ssec = "[HypercubicSetting]\nsystem_length = %r\nbeta = %r\ndimension = %d\n" % (L, rng.choice([1.0, 2.0]), dim)
        lengths = [L] * dim
    else:
        lengths = [rng.choice([3.0, 2.0, 1.5, 1.0, 0.8, 2.5]) for _ in range(dim)]
        if len(set(lengths)) == 1:
            lengths[0] = lengths[0] * 1.5
        setting = "hypercuboid_setting"
        ssec = "[HypercuboidSetting]\nsystem_lengths = %s\nbeta = %r\ndimension = %d\n" % (
            ", ".join(repr(x) for x in lengths), rng.choice([1.0, 2.0]), dim)
    n = rng.choice([2, 3, 4, 5, 6, 8])
    cells = rng.random() < 0.65
    sched = rng.choice(["heap_scheduler", "list_scheduler"])
    dt = rng.choice([0.25, 0.5, 0.3, 0.56789])
    chain = rng.choice([dt, 2 * dt, 0.78965, 4.3, 1.1])
    seq = False      # the invertible pair potentials need an axis-aligned velocity
    eoc = ("single_independent_active_sequential_direction_end_of_chain_event_handler" if seq
           else "single_independent_active_periodic_direction_end_of_chain_event_handler")
    eoc_sec = ("[SingleIndependentActiveSequentialDirectionEndOfChainEventHandler]\nchain_time = %r\n"
               "delta_phi_degree = %r\n" % (chain, rng.choice([10.0, 45.0, 33.3])) if seq else
               "[SingleIndependentActivePeriodicDirectionEndOfChainEventHandler]\nchain_time = %r\n" % chain)
    interact = "pair"
    taggers = ["pair (factor_type_map_in_state_tagger)", "sampling (no_in_state_tagger)",
               "end_of_chain (active_global_state_in_state_tagger)", "end_of_run (no_in_state_tagger)",
               "start_of_run (no_in_state_tagger)"]
    moving = ["pair"]
    extra = ""
    internal = ""
    if cells:
        cps = [rng.choice([3, 4, 5, 6]) for _ in range(dim)]
        taggers.insert(1, "cell_boundary (cell_boundary_tagger)")
        moving.append("cell_boundary")
        internal = "internal_states = single_active_cell_occupancy\n"
        extra = ("[SingleActiveCellOccupancy]\ncells = cuboid_periodic_cells\ncell_level = 1\n"
                 "maximum_number_occupants = %d\n[CuboidPeriodicCells]\ncells_per_side = %s\n"
                 "[CellBoundary]\ncreate = cell_boundary\ntrash = cell_boundary\n"
                 "internal_state_label = single_active_cell_occupancy\nevent_handler = cell_boundary_event_handler\n"
                 % (rng.choice([1, 2, -1]), ", ".join(map(str, cps))))
    mv = ", ".join(moving)
    ini = ("[Run]\nmediator = single_process_mediator\nsetting = %s\n%s"
           "[SingleProcessMediator]\nstate_handler = tree_state_handler\nscheduler = %s\nactivator = tag_activator\n"
           "input_output_handler = input_output_handler\n"
           "[TagActivator]\ntaggers =\n    %s\n%s"
           "[Pair]\ncreate = %s\ntrash = %s\nevent_handler = two_leaf_unit_event_handler\n"
           "number_event_handlers = %d\nfactor_type_maps = factor_type_maps\nfactor_type_maps_label = coulomb\n"
           "[FactorTypeMaps]\nfilename = config_files/factor_set_files/factor_set_coulomb_atoms.txt\n"
           "[TwoLeafUnitEventHandler]\npotential = inverse_power_potential\n"
           "[InversePowerPotential]\nprefactor = %r\npower = %r\n"
           "%s"
           "[Sampling]\ncreate = sampling\ntrash = sampling\nevent_handler = fixed_interval_sampling_event_handler\n"
           "[FixedIntervalSamplingEventHandler]\nsampling_interval = %r\noutput_handler = separation_output_handler\n"
           "[EndOfChain]\ncreate = end_of_chain, %s\ntrash = end_of_chain, %s\nevent_handler = %s\n%s"
           "[EndOfRun]\ncreate = end_of_run\ntrash = end_of_chain, %s, sampling, end_of_run\n"
           "event_handler = final_time_end_of_run_event_handler\n"
           "[FinalTimeEndOfRunEventHandler]\nend_of_run_time = %r\n"
           "[StartOfRun]\ntrash = start_of_run\ncreate = %s, sampling, end_of_chain, end_of_run\n"
           "event_handler = initial_chain_start_of_run_event_handler\n"
           "[InitialChainStartOfRunEventHandler]\ninitial_direction_of_motion = %d\nspeed = %r\n"
           "initial_active_identifier = %d\n"
           "[TreeStateHandler]\nphysical_state = tree_physical_state\nlifting_state = tree_lifting_state\n"
           "[InputOutputHandler]\noutput_handlers = separation_output_handler\ninput_handler = random_input_handler\n"
           "[RandomInputHandler]\nrandom_node_creator = atom_random_node_creator\nnumber_of_root_nodes = %d\n"
           "[AtomRandomNodeCreator]\ncharge_values = electric_charge_values (charge_values)\n"
           "[ElectricChargeValues]\ncharge_name = electric_charge\ncharge_values = 1\n"
           "[SeparationOutputHandler]\nfilename = output/generated_SamplesOfSeparation.dat\n"
           % (setting, ssec, sched, ",\n    ".join(taggers), internal, mv, mv, 2 * n,
              rng.choice([1.0, 0.1, 1e-3]), rng.choice([1.0, 2.0, 6.0]), extra, dt, mv, mv, eoc, eoc_sec, mv,
              rng.choice([3.0, 7.5, 20.0]), mv, rng.randrange(dim), rng.choice([1.0, 2.0, 0.5]), rng.randrange(n), n))
    label = "generated:%s dim=%d L=%s n=%d cells=%s %s eoc=%s" % (
        "cubic" if cubic else "cuboid", dim, lengths, n, cells, sched, "seq" if seq else "per")
    return label, ini


def generated_jobs(ctx, n):
    return [generated_ini(ctx.rng) for _ in range(n)]
