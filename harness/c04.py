"""C04 — Thinning is sound (DESIGN.md section 5, C04).

  1. Props/C04.v re-checked: acceptance probability = max(0, r)/b, behaviour when the bound fails, unconfirmed =
     unchanged, summed bound, CONDITIONAL exactness (hypothesis Dominates).
  2. Correspondence: the REAL handlers (two-leaf-unit / summed composite / cell-bounding / cell-veto families) are
     driven through send_event_time + send_out_state with patched random.uniform / random.expovariate and the real
     compiled potentials; the decision of Model/Thinning.v on the drawn value x and the true rate r, and the velocity
     pattern of the out-state, are compared inside Coq (JF.Model.ThinningCases.check_tcase).  Ties x == r included.
  3. Oracle independent of Coq (exact comparisons on the recorded floats / Fractions): decision, out-state of an
     unconfirmed event (all velocities, identifiers unchanged, time stamps = event time), and the glue: the bounding
     event rate handed to random.uniform is the derivative of the bounding potential at the EVENT position, for the
     active velocity, with the charges in the order of the leaf units.
  4. DOMINATION MONITOR — sampled, not proved: ratio true derivative / bounding derivative of the compiled
     extensions over the minimum-image cube (all directions, charge signs, several box lengths, the prefactors of
     the shipped configurations), stratified towards the peak regions; bounding_potential_warning intercepted in
     short real runs of shipped configurations.
"""
import json
import math
import os
from configparser import ConfigParser
from fractions import Fraction as Fr

import common as C
from common import f2b, b2f

HEADER = "From Coq Require Import QArith.\nRequire Import JF.Base.QInterval JF.Model.Thinning JF.Model.ThinningCases.\nOpen Scope Q_scope."
REL_TOL = Fr(1, 10 ** 12)
# rounding residue of the lattice sum when the component along the direction of motion is (sub)denormal / zero:
# observed <= 6e-19 / L^2 (terms of the sum are O(1/L^2), so the residue is O(1e-16/L^2)); anything above this floor counts (see known fact in the final report / evidence)
ABS_FLOOR = 1e-15

STRATA = ["uniform", "origin", "faces", "faces_exact", "axis", "edge", "tiny"]


# ----------------------------------------------------------------------------------------------------
# shipped configurations: which prefactors is the 1/r bound used with
def shipped_bounds(ctx):
    base = os.path.join(ctx.scratch, "jellyfysh")
    out = []
    for root, _, files in os.walk(os.path.join(base, "config_files")):
        for fn in sorted(files):
            if not fn.endswith(".ini"):
                continue
            p = os.path.join(root, fn)
            txt = open(p).read()
            if "inverse_power_coulomb_bounding_potential" not in txt:
                continue
            cp = ConfigParser()
            cp.read_string(txt)
            kb = cp.get("InversePowerCoulombBoundingPotential", "prefactor", fallback=None)
            km = cp.get("MergedImageCoulombPotential", "prefactor", fallback=None)
            mic = {k: cp.get("MergedImageCoulombPotential", k, fallback=None)
                   for k in ("alpha", "fourier_cutoff", "position_cutoff")}
            L = cp.get("HypercubicSetting", "system_length", fallback="1.0")
            out.append({"ini": os.path.relpath(p, base), "kb": None if kb is None else float(kb),
                        "km": None if km is None else float(km), "L": float(L),
                        "alpha": None if mic["alpha"] is None else float(mic["alpha"]),
                        "fourier_cutoff": None if mic["fourier_cutoff"] is None else int(mic["fourier_cutoff"]),
                        "position_cutoff": None if mic["position_cutoff"] is None else int(mic["position_cutoff"])})
    return out


def exceeds(t, b, L):
    """true rate t > 0 exceeds the bounding rate b (exact arithmetic on the floats)."""
    if t != t:
        return True
    if not t > ABS_FLOOR / (L * L):
        return False
    ft, fb = Fr(t), Fr(b)
    return fb <= 0 or ft > fb * (1 + REL_TOL)


def domination_monitor(ctx):
    bounds = shipped_bounds(ctx)
    combos = {}
    for s in bounds:
        key = (s["kb"], s["km"], s["alpha"], s["fourier_cutoff"], s["position_cutoff"])
        combos.setdefault(key, []).append(s)
    jobs = []
    n = ctx.n(200000, 1500000)
    lengths = {1.0, 10.0}
    for key, ss in combos.items():
        ls = sorted({s["L"] for s in ss} | (lengths if key[0] is None else set()))
        if key[0] is None:
            ls += [0.37, 3.0]
        for L in ls:
            nchunks = max(1, min(C.NCPU, n // 20000))
            for c in range(nchunks):
                jobs.append({"mode": "dom", "L": f2b(L), "kb": key[0], "km": key[1], "alpha": key[2],
                             "fourier_cutoff": key[3], "position_cutoff": key[4], "seed": ctx.rng.randrange(1 << 30),
                             "n": n // nchunks, "strata": STRATA, "top": 12,
                             "peaks": [[0.0, 0.5, 0.5], [0.0, -0.5, 0.5], [0.5, 0.0, 0.5], [0.5, 0.5, 0.0]],
                             "floor": ABS_FLOOR, "configs": [s["ini"] for s in ss],
                             # every other chunk through copy.deepcopy of the potentials, every fourth through dill
                             "deepcopy": ("dill" if c % 4 == 3 else c % 2 == 1)})
    outs = C.run_driver_parallel(ctx, "c04_thinning", jobs, timeout=1700)
    res = {"neval": 0, "npos": 0, "violations": [], "max_ratio": 0.0, "max_at": None, "hist": [0] * 22,
           "residues": 0, "max_residue": 0.0, "combos": [], "jobs": len(jobs), "max_clean": 0.0, "max_clean_at": None,
           "neval_deepcopy": 0, "copy_compared": 0, "copy_mismatch": []}
    per_combo = {}
    for job, o in zip(jobs, outs):
        o = o["out"]
        L = b2f(job["L"])
        res["neval"] += o["neval"]
        res["npos"] += o["npos"]
        if o.get("deepcopy"):
            res["neval_deepcopy"] += o["neval"]
            res["copy_compared"] += o["copy_compared"]
            for pt, d, ch, t, b, t0, b0 in o["copy_mismatch"]:
                res["copy_mismatch"].append({
                    "L": L, "separation": [b2f(x) for x in pt], "separation_bits": pt, "direction": d, "charges": ch,
                    "true_derivative": b2f(t), "bounding_derivative": b2f(b),
                    "true_derivative_of_deep_copy": b2f(t), "true_derivative_configured": b2f(t0),
                    "bounding_derivative_of_deep_copy": b2f(b), "bounding_derivative_configured": b2f(b0),
                    "kb": job["kb"], "km": job["km"], "configs": job["configs"],
                    "mic": [job["alpha"], job["fourier_cutoff"], job["position_cutoff"]]})
        res["residues"] += o.get("residues", 0)
        res["max_residue"] = max(res["max_residue"], b2f(o.get("max_residue", 0)) * L * L)
        for i, h in enumerate(o["hist"]):
            res["hist"][i] += h
        k = (job["kb"], job["km"], L)
        for score, rec in o["top"]:
            pt, d, ch, t, b = rec
            t, b = b2f(t), b2f(b)
            where = {"deepcopy": bool(o.get("deepcopy")),
                     "L": L, "separation": [b2f(x) for x in pt], "separation_bits": pt, "direction": d, "charges": ch,
                     "true_derivative": t, "bounding_derivative": b, "kb": job["kb"], "km": job["km"],
                     "configs": job["configs"], "mic": [job["alpha"], job["fourier_cutoff"], job["position_cutoff"]]}
            if exceeds(t, b, L):
                res["violations"].append(where)
            elif t > ABS_FLOOR / (L * L) and b > 0:
                ratio = t / b
                if score == "clean" and ratio > res["max_clean"]:
                    res["max_clean"], res["max_clean_at"] = ratio, where
                if ratio > res["max_ratio"]:
                    res["max_ratio"], res["max_at"] = ratio, where
                if ratio > per_combo.get(k, (0, None))[0]:
                    per_combo[k] = (ratio, [x / L for x in where["separation"]])
    res["violations"].sort(key=lambda w: -w["true_derivative"] * w["L"] ** 2)     # the largest rate first
    res["combos"] = [{"kb": k[0], "km": k[1], "L": k[2], "max_ratio": v[0], "at_over_L": v[1]}
                     for k, v in sorted(per_combo.items(), key=lambda kv: str(kv[0]))]
    return res


def replay_dom(ctx, where):
    job = {"mode": "dom", "L": f2b(where["L"]), "kb": where["kb"], "km": where["km"], "alpha": where["mic"][0],
           "fourier_cutoff": where["mic"][1], "position_cutoff": where["mic"][2], "seed": 1,
           "points": [where["separation_bits"]], "top": 12, "all_charges": True, "floor": ABS_FLOOR,
           "deepcopy": bool(where.get("deepcopy"))}
    o = C.run_driver(ctx, "c04_thinning", job)["out"]
    bad = []
    if where.get("copy_mismatch"):
        # replay of a deep-copy mismatch: every evaluation of the copy is compared
        job2 = dict(job, points=[where["separation_bits"]] * 4)
        o2 = C.run_driver(ctx, "c04_thinning", job2)["out"]
        if o2["copy_mismatch"]:
            return [where]
        return []
    for score, rec in o["top"]:
        pt, d, ch, t, b = rec
        if exceeds(b2f(t), b2f(b), where["L"]):
            bad.append(dict(where, direction=d, charges=ch, true_derivative=b2f(t), bounding_derivative=b2f(b)))
    return bad


# ----------------------------------------------------------------------------------------------------
# handler cases
def rnd_pos(rng, L):
    return [rng.random() * L for _ in range(3)]


def gen_handler_batch(ctx, n_cases):
    """payloads for the driver; one payload = one setting (L, beta, npr, family) with several in-states."""
    rng = ctx.rng
    payloads = []
    per = 25
    fams = ["leaf", "summed", "cell_leaf", "cell_comp", "veto_leaf", "veto_comp"]
    for i in range(0, n_cases, per):
        fam = fams[(i // per) % len(fams)]
        L = rng.choice([1.0, 1.0, 10.0, 2.5])
        beta = rng.choice([1.0, 2.0, 0.5])
        npr = 1 if fam in ("leaf", "cell_leaf", "veto_leaf") and rng.random() < 0.7 else 2
        if fam in ("summed", "cell_comp", "veto_comp"):
            npr = rng.choice([2, 2, 3])
        kb = rng.choice([None, None, None, 1.0, 0.5, 2.0])     # 1.0 / 0.5: the bound fails -> accept_when_exceeded branch
        cfg = {"mode": "handlers", "family": fam, "L": f2b(L), "beta": f2b(beta), "npr": npr, "roots": 2, "kb": kb,
               "cells_per_side": rng.choice([5, 6, 7]), "est_seed": rng.randrange(1 << 30), "cases": []}
        for _ in range(per):
            cfg["cases"].append(gen_case(rng, fam, L, npr))
        payloads.append(cfg)
    # handler pools (Tagger.initialize: the configured handler + k deep copies), driven in an interleaved order
    npools = max(8, n_cases // 25)
    for i in range(npools):
        fam = ["leaf", "summed", "cell_leaf", "cell_comp"][i % 4]
        L = rng.choice([1.0, 10.0, 2.5])
        npr = rng.choice([1, 2]) if fam in ("leaf", "cell_leaf") else rng.choice([2, 3])
        k = rng.choice([2, 3])
        cases = [gen_case(rng, fam, L, npr) for _ in range(12)]
        for c in cases:
            c["use_charge"] = True
        rounds, ci = [], 0
        while ci + 2 <= len(cases):
            size = min(rng.randrange(2, k + 2), len(cases) - ci)
            members = rng.sample(range(k + 1), size)
            order = list(members)
            rng.shuffle(order)
            if order == members and size > 1:
                order.reverse()
            rounds.append({"members": members, "cases": list(range(ci, ci + size)), "out_order": order})
            ci += size
        payloads.append({"mode": "handlers", "family": fam, "L": f2b(L), "beta": f2b(rng.choice([1.0, 2.0])),
                         "npr": npr, "roots": 2, "kb": None, "cells_per_side": rng.choice([5, 6, 7]),
                         "est_seed": rng.randrange(1 << 30), "cases": cases,
                         "pool": {"k": k, "rounds": rounds, "lifting": rng.choice(["ratio", "inside_first"])}})
    return payloads


def gen_case(rng, fam, L, npr):
    d = rng.randrange(3)
    speed = rng.choice([0.5, 1.0, 2.5, 1.0 / 3.0, 7.0])      # velocity = speed * unit vector along a random axis
    vel = [0.0, 0.0, 0.0]
    vel[d] = speed
    ts = [float(rng.randrange(0, 50)), rng.random()]
    charges = rng.choice([[1.0, -1.0], [1.0, 1.0], [-1.0, -2.0], [0.5, -1.5], [-1.0, 1.0], [2.0, 0.5]])
    active_root = rng.randrange(2)
    active_leaf = rng.randrange(npr)
    state = []
    base = [rnd_pos(rng, L), rnd_pos(rng, L)]
    if fam.startswith("cell") or fam.startswith("veto"):
        # far apart (the target cell must not be a nearby cell): opposite regions of the box
        base[1] = [(base[0][k] + L * (0.5 + 0.12 * (rng.random() - 0.5))) % L for k in range(3)]
    for ri in range(2):
        root_id = [ri * 3 + rng.randrange(3)] if ri == 0 else [7 + rng.randrange(3)]
        if rng.random() < 0.3:
            root_id = [root_id[0] + 20]
        if npr == 1:
            u = {"id": root_id, "pos": [f2b(x) for x in base[ri]], "charge": f2b(charges[ri])}
            if ri == active_root:
                u["vel"] = [f2b(x) for x in vel]
                u["ts"] = [f2b(x) for x in ts]
            state.append(u)
        else:
            w = 1.0 / npr
            r = {"id": root_id, "pos": [f2b(x) for x in base[ri]], "children": []}
            single = fam in ("leaf", "cell_leaf", "veto_leaf")     # branch of one leaf unit: root + that leaf only
            js = [active_leaf if ri == active_root else rng.randrange(npr)] if single else range(npr)
            for j in js:
                off = [(rng.random() - 0.5) * 0.1 * L for _ in range(3)]
                ch = {"id": root_id + [j], "pos": [f2b((base[ri][k] + off[k]) % L) for k in range(3)], "w": f2b(w),
                      "charge": f2b(charges[ri] * (1 if j % 2 == 0 else -1) if npr > 1 else charges[ri])}
                if ri == active_root and j == active_leaf:
                    ch["vel"] = [f2b(x) for x in vel]
                    ch["ts"] = [f2b(x) for x in ts]
                r["children"].append(ch)
            if ri == active_root:
                r["vel"] = [f2b(x * w) for x in vel]
                r["ts"] = [f2b(x) for x in ts]
            state.append(r)
    if rng.random() < 0.5:
        state.reverse()
    expo = [f2b(rng.expovariate(1.0) * rng.choice([1.0, 0.1, 3.0, 0.01])) for _ in range(4)]
    grid = [0.0, 0.25, 0.5, 0.75, 1.0 - 2.0 ** -53, rng.random(), rng.random(), 2.0 ** -53, 1e-9]
    umodes = [["u", f2b(u)] for u in rng.sample(grid, 3)] + [["tie", 0], ["tie", rng.choice([-1, 1])]]
    if rng.random() < 0.3:
        umodes.append(["tie", rng.choice([-3, 2, 5])])
    return {"state": state, "expo": expo, "umodes": umodes, "use_charge": rng.random() < 0.9,
            # the handler is copy.deepcopy'd after initialisation (Tagger.initialize) or restored through dill (resume.py)
            "deep": rng.choice([False, False, True, "dill"]),
            "lifting": rng.choice(["ratio", "inside_first"]), "row_u": f2b(rng.random())}


# ----------------------------------------------------------------------------------------------------
def leaf_units(flat):
    """leaf units of a flattened state (units without children: the flattening lists a root before its children)."""
    ids = [tuple(u["id"]) for u in flat]
    return [u for u in flat if not any(len(j) > len(u["id"]) and j[:len(u["id"])] == tuple(u["id"]) for j in ids)]


def oracle(cfg, case, res):
    """The property on the implementation's behaviour for one handler run.  Returns (message or None, summary)."""
    if "exc" in res:
        return "handler raised " + " | ".join(x.strip() for x in res["exc"].splitlines() if x.strip())[-300:], None
    fam = cfg["family"]
    composite = fam in ("summed", "cell_comp", "veto_comp")
    if res.get("skipped"):
        return None, None
    unis = res["uniform"]
    pot_calls = res["pot_calls"]
    sliced, out = res["sliced"], res["out"]
    lin, lout = leaf_units(sliced), leaf_units(out)
    vin = [u["vel"] for u in lin]
    vout = [u["vel"] for u in lout]
    L = b2f(cfg["L"])
    active = [u for u in lin if u["vel"] is not None]
    if len(active) != 1:
        return "in-state has %d active leaf units" % len(active), None
    active = active[0]
    avel = active["vel"]
    newact = [u for u in lout if u["vel"] is not None]
    if vin == vout:
        moved = False
    elif len(newact) == 1 and newact[0]["vel"] == avel and newact[0]["id"] != active["id"] and \
            [u["id"] for u in lin] == [u["id"] for u in lout]:
        moved = True
    else:
        return "leaf-unit velocities changed from %r to %r: neither unchanged (unconfirmed event) nor a hand-over " \
               "of the active velocity to one other leaf unit (confirmed event)" % (vin, vout), None
    # --- true rate the handler must have used: derivative of the potential at the event position
    if not pot_calls:
        return "the potential was not evaluated", None
    for c in pot_calls:
        if c["vel"] != avel:
            return "potential evaluated for a velocity that is not the active unit's", None
    for c in res["bnd_calls"]:
        if c["vel"] != avel:
            return "bounding potential evaluated for the velocity %r, the active unit moves with %r: the bounding " \
                   "event rate is not the derivative along the velocity (true and bounding rate must both scale " \
                   "with the speed)" % ([b2f(x) for x in c["vel"]], [b2f(x) for x in avel]), None
    if composite:
        r = 0.0
        for c in pot_calls[:cfg["npr"]]:
            r += b2f(c["res"])
    else:
        r = b2f(pot_calls[-1]["res"])
    # --- the rates must be those of the CONFIGURED potentials (freshly constructed, never copied)
    for name, calls in (("true", pot_calls), ("bounding", res["bnd_calls"])):
        for c in calls:
            if "ref" in c and c["ref"] != c["res"]:
                return "confirmation probability is not max(0, true rate)/bounding rate of the configured potential: " \
                       "the handler%s obtained the %s rate %r, a freshly constructed potential of the same " \
                       "configuration gives %r at the same separation" % (
                           (" (the configured handler restored through dill, as resume.py does)" if res.get("deep_kind") == "dill" else
                            " (a copy.deepcopy of the configured handler)") if res.get("deep") else "", name,
                           b2f(c["res"]), b2f(c["ref"])), None
    # --- glue: separations are minimum-image vectors between the EVENT positions; charges in leaf-unit order
    m = check_glue(cfg, case, res, lin, active, composite)
    if m:
        return m, None
    # --- the draw
    if composite:
        if len(unis) != 1:
            return "random.uniform called %d times" % len(unis), None
    else:
        if (r > 0) != (len(unis) == 1) or len(unis) > 1:
            return "random.uniform called %d times for true derivative %r" % (len(unis), r), None
    x = b2f(unis[0][2]) if unis else None
    if unis:
        if b2f(unis[0][0]) != 0.0:
            return "uniform lower end is not 0", None
        b = b2f(unis[0][1])
        eb = expected_bound(cfg, res, composite)
        if eb is not None and f2b(eb) != f2b(b):
            return "bounding event rate handed to random.uniform is %r, derivative of the bounding potential at the " \
                   "event position gives %r" % (b, eb), None
    # --- decision, exact
    if composite:
        want = not (Fr(max(0.0, r)) <= Fr(x))
    else:
        want = r > 0 and Fr(x) < Fr(r)
    if moved != want:
        return "event %s although uniform draw %r and true rate %r (confirmation must be: %s)" % (
            "confirmed" if moved else "not confirmed", x, r, want), None
    # --- out-state
    if [u["id"] for u in out] != [u["id"] for u in sliced] and not fam.startswith("veto"):
        return "identifiers of the out-state differ from the in-state", None
    if not moved:
        if [u["vel"] for u in out] != [u["vel"] for u in sliced] or \
                [u["vel"] for u in sliced[:len(res["in"])]] != [u["vel"] for u in res["in"]]:
            return "unconfirmed event changed a velocity", None
        for u in out:
            if u["vel"] is not None and u["ts"] != res["time"]:
                return "moving unit of an unconfirmed event is not stamped with the event time", None
            if (u["vel"] is None) != (u["ts"] is None):
                return "velocity / time stamp mismatch in the out-state", None
    else:
        newact = [u for u in lout if u["vel"] is not None]
        if len(newact) != 1 or newact[0]["vel"] != avel:
            return "confirmed event did not hand the active velocity to exactly one leaf unit", None
        if not composite and newact[0]["id"] == active["id"]:
            return "confirmed two-leaf event left the velocity on the active unit", None
    # cell-veto handlers: the candidate time is drawn at the rate total_rate * speed, i.e. the bounding event rate of
    # the sampled cell as a TIME rate is _bounding_event_rate * speed, while the handler draws uniform(0,
    # _bounding_event_rate) and compares with the time derivative (= space derivative * speed) of the potential.
    # For speed != 1 the confirmation probability is then speed * max(0, true)/bound.  Recorded, see run().
    veto_speed = None
    if fam.startswith("veto") and unis:
        speed = max(abs(b2f(x)) for x in avel)
        if speed != 1.0:
            veto_speed = {"handler": "LeafUnitCellVetoEventHandler" if fam == "veto_leaf"
                          else "CompositeObjectCellVetoEventHandler", "speed": speed,
                          "uniform_upper_end": b2f(unis[0][1]),
                          "bounding_time_rate_of_the_proposal (cell bound * charge factor * speed)":
                              b2f(res["veto_rate"]) * speed,
                          "true_time_rate_compared": max(0.0, r),
                          "confirmation_probability_of_the_code": min(1.0, max(0.0, r) / b2f(unis[0][1])),
                          "max(0,true rate)/bounding rate": min(1.0, max(0.0, r) / (b2f(res["veto_rate"]) * speed)),
                          "active_velocity": [b2f(x) for x in avel],
                          "event_positions": {json.dumps(u["id"]): [b2f(x) for x in u["pos"]] for u in lin}}
    return None, {"deep": bool(res.get("deep")), "veto_speed": veto_speed,
                  "fam": "FComposite" if composite else "FLeaf", "x": 0.0 if x is None else x, "r": r,
                  "conf": moved, "vin": vin, "vout": vout, "b": b2f(unis[0][1]) if unis else None,
                  "drawn": bool(unis)}


def min_image(a, b, L):
    """exact minimum-image separation b - a (Fractions), each component in [-L/2, L/2]"""
    out = []
    for x, y in zip(a, b):
        d = Fr(b2f(y)) - Fr(b2f(x))
        while d > Fr(L) / 2:
            d -= Fr(L)
        while d < -Fr(L) / 2:
            d += Fr(L)
        out.append(d)
    return out


def check_glue(cfg, case, res, lin, active, composite):
    L = b2f(cfg["L"])
    fam = cfg["family"]
    tol = Fr(math.ulp(L)) * 4
    use_charge = case.get("use_charge", True)

    def charge(u):
        return b2f(u["charge"]) if use_charge else 1.0
    others = [u for u in lin if u["id"][0] != active["id"][0]]
    if not composite:
        others = [u for u in lin if u is not active]
    calls = [("potential", c) for c in res["pot_calls"][:len(others) if composite else None]]
    if fam in ("leaf", "summed"):
        calls += [("bounding potential", c) for c in res["bnd_calls"]]
    for name, c in calls:
        if c["sep"] == "cell":
            continue
        sep = [Fr(b2f(x)) for x in c["sep"]]
        # which target?  the one whose minimum-image separation matches
        match = None
        for t in others:
            want = min_image(active["pos"], t["pos"], L)
            if all(abs(s - w) <= tol or abs(abs(s - w) - Fr(L)) <= tol for s, w in zip(sep, want)):
                match = t
                break
        if match is None:
            return "%s evaluated at a separation that is not the minimum-image separation between the active unit " \
                   "and a target unit at the event position" % name
        got = [b2f(x) for x in c["charges"]]
        if composite:
            want = [charge(active), charge(match)]
        else:
            want = [charge(lin[0]), charge(lin[1])]
        if len(got) == 2 and got != want:
            return "%s called with charges %r, expected %r (order of the leaf units)" % (name, got, want)
    return None


def expected_bound(cfg, res, composite):
    fam = cfg["family"]
    if fam == "leaf":
        return b2f(res["bnd_calls"][-1]["res"]) if res["bnd_calls"] else None
    if fam == "summed":
        b = 0.0
        for c in res["bnd_calls"]:
            b += max(0.0, b2f(c["res"]))
        return b
    if fam in ("cell_leaf", "cell_comp"):
        return b2f(res["stub_rate"]) if res.get("stub_rate") is not None else None
    if fam in ("veto_leaf", "veto_comp"):
        return b2f(res["veto_rate"]) if res.get("veto_rate") is not None else None
    return None


def coq_q(x):
    return C.coq_q(Fr(x))


def coq_vels(v):
    return "[" + "; ".join("None" if u is None else "Some [%s]%%Z" % "; ".join(str(int(z)) for z in u) for u in v) + "]"


def case_term(s):
    return "mkT %s %s %s %s %s %s" % (s["fam"], coq_q(s["x"]), coq_q(s["r"]), C.coq_bool(s["conf"]),
                                      coq_vels(s["vin"]), coq_vels(s["vout"]))


# ----------------------------------------------------------------------------------------------------
RUN_CONFIGS = [
    "config_files/2018_JCP_149_064113/coulomb_atoms/power_bounded.ini",
    "config_files/2018_JCP_149_064113/coulomb_atoms/cell_veto.ini",
    "config_files/2018_JCP_149_064113/dipoles/dipole_motion.ini",
    "config_files/2018_JCP_149_064113/coulomb_atoms/cell_bounded.ini",
    "config_files/2018_JCP_149_064113/water/coulomb_power_bounded_lj_inverted.ini",
]


def real_runs(ctx, configs=None):
    if configs is None:
        configs = RUN_CONFIGS[:ctx.n(3, 5)]
    end = ctx.n("30.0", "300.0")
    payloads = [{"mode": "runs", "config": {"ini": c, "seed": ctx.rng.randrange(1 << 30),
                                            "override": [["FinalTimeEndOfRunEventHandler", "end_of_run_time", end]]}}
                for c in configs]
    outs = C.run_driver_parallel(ctx, "c04_thinning", payloads, timeout=1700)
    return [o["out"] for o in outs]


def run(ctx, replay_data=None):
    C.build_scratch(ctx, exts=("heap", "mic", "ipc"))
    broken = []
    ok, out, nthm = C.check_props(ctx)
    if not ok:
        broken.append("Props/C04.v does not check: " + out[-600:])

    # ---- handlers
    fails, summaries, stats = [], [], {"runs": 0, "confirmed": 0, "ties": 0, "exceeded": 0, "by_family": {},
                                       "negative_rate": 0, "skipped": 0}
    if replay_data is None or replay_data.get("kind") == "c04-handler":
        if replay_data is None:
            payloads = load_corpus() + gen_handler_batch(ctx, ctx.n(600, 20000))
        else:
            payloads = [replay_data["payload"]]
        # in batches: the raw records of a thorough run do not fit in memory at once
        for k in range(0, len(payloads), 4 * C.NCPU):
            batch = payloads[k:k + 4 * C.NCPU]
            outs = C.run_driver_parallel(ctx, "c04_thinning", batch, timeout=1700)
            for cfg, o in zip(batch, outs):
                for case, results in zip(cfg["cases"], o["out"]):
                    for res in results:
                        if res.get("skipped"):
                            stats["skipped"] += 1
                            continue
                        m, s = oracle(cfg, case, res)
                        stats["runs"] += 1
                        stats["by_family"][cfg["family"]] = stats["by_family"].get(cfg["family"], 0) + 1
                        if m:
                            if len(fails) < 20:
                                fails.append((cfg, case, res, m))
                            stats["failed"] = stats.get("failed", 0) + 1
                            continue
                        summaries.append(s)
                        if s.get("veto_speed"):
                            stats["veto_speed"] = stats.get("veto_speed", 0) + 1
                            stats.setdefault("veto_speed_example", s["veto_speed"])
                        stats["pool"] = stats.get("pool", 0) + (1 if res.get("pool") else 0)
                        stats["deep"] = stats.get("deep", 0) + (1 if s["deep"] else 0)
                        stats["confirmed"] += 1 if s["conf"] else 0
                        stats["ties"] += 1 if s["drawn"] and s["x"] == max(0.0, s["r"]) else 0
                        stats["negative_rate"] += 1 if s["r"] <= 0 else 0
                        stats["exceeded"] += 1 if s["b"] is not None and s["r"] > s["b"] else 0
            del outs
    terms = [case_term(s) for s in summaries]
    neval, bad, nfiles, nok, err = (0, [], 0, 0, "")
    if terms:
        neval, bad, nfiles, nok, err = C.eval_cases(ctx, "c04", HEADER, terms, "check_tcase", "tcase", per_file=500)
    if err:
        broken.append("correspondence case files did not evaluate: " + err[-600:])

    # ---- domination monitor + real runs
    dom = None
    runs = []
    dom_viol = []
    if replay_data is None:
        dom = domination_monitor(ctx)
        dom_viol = dom["violations"]
        runs = real_runs(ctx)
    elif replay_data.get("kind") == "c04-domination":
        dom_viol = replay_dom(ctx, replay_data["where"])
    elif replay_data.get("kind") == "c04-run":
        runs = real_runs(ctx, [replay_data["run"]["config"]])
    run_viol = [r for r in runs if r.get("n_exceeded")]
    for r in runs:
        if r.get("exc"):
            broken.append("real run %s did not complete: %s" % (r["config"], r["exc"][-300:]))

    # ---- cell-veto handlers with speed != 1 (latent: every shipped configuration uses speed = 1.0)
    if stats.get("veto_speed"):
        text = ("cell-veto handlers (CellVetoEventHandler.send_event_time + Leaf/CompositeObject send_out_state) draw "
                "uniform(0, cell bound * charge factor) and compare with the TIME derivative of the potential although "
                "the candidate time is drawn at the rate total_rate * speed: for speed != 1 the confirmation "
                "probability is speed * max(0, true rate)/bounding rate (%d of %d such runs; e.g. %s)"
                % (stats["veto_speed"], stats["by_family"].get("veto_leaf", 0) + stats["by_family"].get("veto_comp", 0),
                   json.dumps(stats["veto_speed_example"])[:400]))
        hits = [k for k in C.known_open("C04") if "veto" in json.dumps(k).lower() and "speed" in json.dumps(k).lower()]
        if hits:
            C.known(ctx, hits[0]["id"], text)
        else:
            ctx.notes.append("NOT A VERDICT (awaiting a decision, no open known finding matches): " + text)

    # ---- verdict
    if fails:
        cfg, case, res, m = fails[0]
        # a pool schedule refers to all its cases: keep the whole pool as the replay
        payload = cfg if cfg.get("pool") else dict(cfg, cases=[dict(case, umodes=[res["mode"]])])
        C.violation(ctx, "oracle", {"kind": "c04-handler", "payload": payload, "message": m,
                                    "n_failing": stats.get("failed", len(fails)), "family": cfg["family"]},
                    "C04 fails on the implementation (%s handler): %s" % (cfg["family"], m))
    elif dom is not None and dom["copy_mismatch"]:
        w = dict(dom["copy_mismatch"][0], copy_mismatch=True, deepcopy=True)
        C.violation(ctx, "deepcopy", {"kind": "c04-domination", "where": w,
                                      "message": "a copy.deepcopy of the potentials (as Tagger.initialize makes of every "
                                                 "2nd..n-th event handler) reports other rates than the configured "
                                                 "potential", "n_points": len(dom["copy_mismatch"])},
                    "C04 fails: deep-copied potential gives true rate %r (bounding %r), the configured potential %r "
                    "(bounding %r) at separation %r, L=%r: the confirmation probability of a deep-copied handler is not "
                    "max(0, true rate)/bounding rate" % (
                        w["true_derivative_of_deep_copy"], w["bounding_derivative_of_deep_copy"],
                        w["true_derivative_configured"], w["bounding_derivative_configured"], w["separation"], w["L"]))
    elif dom_viol:
        w = dom_viol[0]
        C.violation(ctx, "domination", {"kind": "c04-domination", "where": w, "n_points": len(dom_viol),
                                        "message": "true event rate %r exceeds bounding event rate %r at separation %r "
                                                   "(L = %r, direction %d, charges %r, bounding prefactor %r)" % (
                                                       w["true_derivative"], w["bounding_derivative"], w["separation"],
                                                       w["L"], w["direction"], w["charges"], w["kb"])},
                    "C04 fails: the bounding rate does not dominate at separation %r (L=%r): true %r > bound %r; "
                    "configurations: %s" % (w["separation"], w["L"], w["true_derivative"], w["bounding_derivative"],
                                            ", ".join(w.get("configs", [])[:3])))
    elif run_viol:
        r = run_viol[0]
        C.violation(ctx, "realrun", {"kind": "c04-run", "run": r},
                    "C04 fails in a real run of %s: bounding_potential_warning condition met %d times (%s)" % (
                        r["config"], r["n_exceeded"], r["exceeded"][:1]))
    elif bad:
        s = summaries[bad[0]]
        C.violation(ctx, "correspondence", {"kind": "c04-summary", "summary": s,
                                            "message": "Model/Thinning.v and the handlers disagree on %d runs; the exact "
                                                       "oracle found no failing input; correspondence "
                                                       "JF.Model.ThinningCases.check_tcase no longer checks" % len(bad)},
                    "thinning model and implementation disagree", nofail=True)
    elif broken:
        C.violation(ctx, "obligation", {"kind": "obligation", "broken": broken}, broken[0][:200], nofail=True)

    cov = {
        "evaluations": stats["runs"] + (dom["neval"] if dom else 0),
        "distinct_nontrivial": len({(s["fam"], s["x"], s["r"]) for s in summaries}),
        "rule": "distinct (family, drawn value, true rate) triples of handler runs with the real potentials; every run "
                "evaluates the lattice-sum derivative at a random event position",
        "samples": [{k: s[k] for k in ("fam", "x", "r", "b", "conf")} for s in summaries[:5]],
        "input_distribution": {"handler_runs": stats["runs"], "by_family": stats["by_family"],
                               "handler_runs_on_copy.deepcopy(handler)": stats.get("deep", 0),
                               "handler_runs_in_interleaved_pools (handler + 2..3 deep copies)": stats.get("pool", 0),
                               "active_speeds": [0.5, 1.0, 2.5, 1.0 / 3.0, 7.0],
                               "cell_veto_runs_with_speed_not_1 (confirmation probability off by the factor speed)":
                                   stats.get("veto_speed", 0),
                               "cell_veto_speed_example": stats.get("veto_speed_example"),
                               "confirmed": stats["confirmed"], "ties_x_equals_rate": stats["ties"],
                               "true_rate_not_positive": stats["negative_rate"],
                               "runs_with_true_rate_above_bound (lowered prefactor on purpose)": stats["exceeded"],
                               "skipped (event position left the cell: handler returns None)": stats["skipped"]},
        "model_vs_impl_mismatches": len(bad),
        "oracle_failures": stats.get("failed", len(fails)),
        "traces_validated_against_impl": neval,
        "case_files": nfiles, "case_files_ok": nok,
        "domination_monitor": None if dom is None else {
            "status": "sampled, not proved",
            "evaluations": dom["neval"], "with_positive_true_rate": dom["npos"], "violations": len(dom["violations"]),
            "evaluations_through_copy.deepcopy_of_the_potentials": dom["neval_deepcopy"],
            "deep_copy_vs_configured_compared_bitwise": dom["copy_compared"],
            "deep_copy_mismatches": len(dom["copy_mismatch"]),
            "largest_ratio_true_over_bound": dom["max_ratio"],
            "largest_ratio_at": None if dom["max_at"] is None else {
                k: dom["max_at"][k] for k in ("L", "separation", "direction", "charges", "kb", "km")},
            "largest_ratio_with_component_along_motion_above_1e-9_L (free of rounding noise)": dom["max_clean"],
            "largest_clean_ratio_at": None if dom["max_clean_at"] is None else {
                k: dom["max_clean_at"][k] for k in ("L", "separation", "direction", "charges", "kb", "km")},
            "per_prefactor_and_box": dom["combos"],
            "ratio_histogram_step_0.05": dom["hist"],
            "sign_residues_below_noise_floor": dom["residues"],
            "largest_residue_times_L2": dom["max_residue"],
            "noise_floor_times_L2": ABS_FLOOR, "strata": STRATA, "driver_jobs": dom["jobs"]},
        "real_runs": [
            {k: r.get(k) for k in ("config", "n_calls", "calls", "n_exceeded")} |
            {"max_ratio": {k: (v if v == "inf" else b2f(v)) for k, v in (r.get("max_ratio") or {}).items()}}
            for r in runs],
        "explanation": "acceptance logic proved; domination clause sampled, not proved. "
                       "Props/C04.v re-checked (%d theorems, acceptance logic); decisions and out-state velocity "
                       "patterns of the real handlers compared with Model/Thinning.v inside Coq; exact oracle incl. "
                       "glue; domination of the 1/r bound over the merged-image derivative is SAMPLED, NOT PROVED"
                       % nthm,
        "trusted_base": TRUSTED,
    }
    C.write_evidence(ctx, cov, ASSUME)


TRUSTED = [
    "hand-written model coq/Model/Thinning.v (comparisons transcribed from the six handlers) over Coq Q",
    "correspondence harness harness/c04.py + drivers/c04_thinning.py (patched random.uniform/expovariate inside the "
    "handler modules; floats as exact rationals)",
    "compiled extensions rebuilt from the current C sources (merged-image Coulomb, inverse-power bound); libm erfc/exp",
]
ASSUME = [
    "DOMINATION IS SAMPLED, NOT PROVED: that the derivative of 1.5837 q_i q_j/|r| (nearest image) dominates the "
    "merged-image Coulomb derivative on the whole minimum-image cube is the hypothesis 'Dominates' of thinning_exact; "
    "it is monitored by stratified sampling on the compiled code and in real runs only",
    "rounding of the float product in random.uniform(0, b) = b * random() is not modelled (the correspondence uses "
    "the drawn value itself)",
    "sign residues of the lattice sum below %g / L^2 at (sub)denormal or zero components along the direction of "
    "motion are treated as rounding noise (bounding rate exactly 0 there)" % ABS_FLOOR,
    "cell-based bounds (estimator tables of the cell-bounding / cell-veto handlers) are not claimed to be true bounds "
    "by the property; those handlers are driven with stub bounds for the acceptance logic only",
]


def load_corpus():
    p = os.path.join(C.VERIF, "corpus", "C04", "payloads.json")
    return json.load(open(p)) if os.path.exists(p) else []


def replay(ctx, path):
    run(ctx, replay_data=json.load(open(path)))
