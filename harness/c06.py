"""C06 — Scheduler returns a live event with the smallest time (DESIGN.md section 5, C06).

Pipeline: operation sequences (push / trash / get / pickle / counter bump / dump) are generated from the
seed, applied to the REAL HeapScheduler (C heap through cffi, rebuilt from the current heap.c) and the
REAL ListScheduler by harness/drivers/c06_sched.py, and then
  * evaluated against the Coq models (Model/Heap.v, Model/Sched.v) through Model/SchedCases.v:
    check_scase_strict (diagnostic: handler identity, bits, heap array layout) and, for the sequences
    failing it, check_scase (pass/fail: exception enum / None / float-equal returned time);
  * checked by an independent pure-Python oracle (reference scheduler = list of live (time, handler)
    pairs, times compared exactly as quotient-then-remainder on the raw floats).
"""
import json
import math
import os
import re
import subprocess
import time
from concurrent.futures import ThreadPoolExecutor

import common as C
from common import f2b, b2f

REQUIRE_PROPS = True   # True: a missing coq/Props/C06.v is a broken obligation

HEADER = ("Require Import JF.Base.F64 JF.Model.Time JF.Model.Heap JF.Model.Sched JF.Model.SchedCases.\n"
          "Open Scope Z_scope.")
DRIVER = "c06_sched"
INF = math.inf
TINF = (INF, INF)
BOT = (-INF, -INF)
TWO32 = 2 ** 32
MAX_HANDLERS = 40
MAX_DUMPS = 6
QPOOL = [0.0, 1.0, 2.0, 3.0, 4.0, 5.0, 6.0] * 4 + [-0.0, -0.0, 2.0 ** 52, -3.0]
RPOOL = [0.0, -0.0, 0.25, 0.5, math.nextafter(0.5, 1.0), 0.75, math.nextafter(1.0, 0.0), 5e-324]
STEPS = [0.0, 0.0, 0.0, 0.0, 1.0, 1.0, 2.0, 3.0]
LATE_STEPS = [3.0, 4.0, 5.0, 6.0, 7.0, 8.0]
OVF_TARGETS = [TWO32 - 2, TWO32 - 1, TWO32, TWO32 + 5]
FILL_TARGETS = [61, 62, 63, 64, 65, 125, 126, 127, 128, 129]
STREAM_MIX = [("protocol", 0.45), ("mediator", 0.25), ("offprotocol", 0.12), ("growth", 0.07),
              ("growth_off", 0.03), ("fill", 0.08)]


# ----------------------------------------------------------------------------------------------
# exact comparison of times on the raw floats and the reference scheduler
def lt(a, b):
    """Time.__lt__ / the comparison of heap.c: quotient, then remainder."""
    return a[0] < b[0] or (a[0] == b[0] and a[1] < b[1])


def teq(a, b):
    return a[0] == b[0] and a[1] == b[1]


def tbits(t):
    return (f2b(t[0]), f2b(t[1]))


def tstr(t):
    return "Time(%r, %r)" % (t[0], t[1])


class Ref(object):
    """Reference scheduler: the live (time, handler) pairs in order of arrival and the time returned last.
    kind 'heap': push drops times that are not < inf, trash / bump kill every event of the handler
    (lazy deletion by counter); kind 'list': everything is kept, trash removes the first event of the
    handler and fails (code 2) if there is none, bump is a no-op."""

    def __init__(self, kind):
        self.kind = kind
        self.live = []
        self.last = BOT

    def has(self, hd):
        return any(h == hd for _, h in self.live)

    def push(self, t, hd):
        if self.kind == "heap" and not lt(t, TINF):
            return
        self.live.append((t, hd))

    def trash(self, hd):
        if self.kind == "heap":
            self.live = [x for x in self.live if x[1] != hd]
            return None
        for i, x in enumerate(self.live):
            if x[1] == hd:
                del self.live[i]
                return None
        return 2

    def bump(self, hd, n):
        if self.kind == "heap" and n >= 1:
            self.live = [x for x in self.live if x[1] != hd]

    def min(self):
        best = self.live[0]
        for x in self.live[1:]:
            if lt(x[0], best[0]):
                best = x
        return best

    def get(self):
        """('exc', 0, None) | ('exc', 1, hd) | ('got', t, hd); updates `last` like the guard does."""
        if not self.live:
            return ("exc", 0, None)
        t, hd = self.min()
        if lt(t, self.last):
            return ("exc", 1, hd)
        self.last = t
        return ("got", t, hd)


def finite_live(live):
    return any(lt(t, TINF) for t, _ in live)


# ----------------------------------------------------------------------------------------------
# generator
class SeqGen(object):
    def __init__(self, rng, nh):
        self.rng = rng
        self.nh = nh
        self.ops = []
        self.rh = Ref("heap")
        self.rl = Ref("list")
        self.ctr = {}
        self.ndump = 0
        self.ovf = 0
        self.npickle = 0
        self.nfinite = 0

    def n(self):
        return len(self.ops)

    def live_hds(self):
        return [h for _, h in self.rl.live]

    def free_hds(self):
        live = set(self.live_hds())
        return [h for h in range(self.nh) if h not in live]

    def push(self, t, hd):
        self.ops.append(["push", f2b(t[0]), f2b(t[1]), hd])
        overflow = False
        if lt(t, TINF):
            self.nfinite += 1
            if self.ctr.get(hd, 0) >= TWO32:
                self.ctr[hd] = 0
                self.ovf += 1
                overflow = True
        self.rh.push(t, hd)
        self.rl.push(t, hd)
        if overflow:
            self.dump()
        return overflow

    def trash(self, hd):
        self.ops.append(["trash", hd])
        self.ctr[hd] = self.ctr.get(hd, 0) + 1
        self.rh.trash(hd)
        self.rl.trash(hd)

    def bump(self, hd, n):
        self.ops.append(["bump", hd, n])
        self.ctr[hd] = self.ctr.get(hd, 0) + n
        self.rh.bump(hd, n)

    def bump_to(self, hd, target):
        c = self.ctr.get(hd, 0)
        self.bump(hd, target - c if target > c else 1)

    def get(self):
        if self.rl.live and not finite_live(self.rl.live) and self.rng.random() < 0.85:
            # all live events are infinite: ListScheduler would return one of them and then refuse every
            # finite time (legitimate, but it makes the rest of the sequence degenerate): mostly avoid it
            free = self.free_hds()
            if not free:
                free = [self.rng.choice(self.live_hds())]
                self.trash(free[0])
            self.push(self.time(finite=True), self.rng.choice(free))
        self.ops.append(["get"])
        return self.rh.get(), self.rl.get()

    def pickle(self):
        self.ops.append(["pickle"])
        self.npickle += 1
        self.dump()

    def dump(self, force=False):
        if force or self.ndump < MAX_DUMPS - 1:
            if self.ops and self.ops[-1] == ["dump"]:
                return
            self.ops.append(["dump"])
            self.ndump += 1

    def time(self, late=False, finite=False):
        rng = self.rng
        u = rng.random()
        if not finite:
            if u < 0.08:
                return TINF
            if u < 0.0812:
                return (INF, 0.5)
            if u < 0.0824:
                return BOT
        last = self.rl.last
        if last[0] == INF:
            last = self.rh.last
        if late and last[0] in (INF, -INF):
            last = (1.0, 0.0)
        if u < 0.13 or last[0] in (INF, -INF):     # anything from the pools (~5%: below `last` on purpose)
            return (rng.choice(QPOOL), rng.choice(RPOOL))
        q = last[0] + rng.choice(LATE_STEPS if late else STEPS)
        if q == last[0]:
            rs = [r for r in RPOOL if r >= last[1]]
            r = rng.choice(rs) if rs else last[1]
        else:
            r = rng.choice(RPOOL)
        return (q, r)

    def drain(self, budget):
        while budget >= 2 and self.rl.live:
            el = self.get()[1]
            self.trash(el[2])
            budget -= 2


def pick_nh(rng):
    u = rng.random()
    if u < 0.1:
        return rng.randint(1, 3)
    if u < 0.5:
        return rng.randint(4, 12)
    return rng.randint(13, MAX_HANDLERS)


def pick_len(rng):
    u = rng.random()
    if u < 0.5:
        return rng.randint(5, 60)
    if u < 0.8:
        return rng.randint(61, 299)
    return rng.randint(300, 400)


class Plan(object):
    """Scheduled one-off events of a sequence (overflow macro, pickle) shared by the random-walk streams."""

    def __init__(self, rng, length, p_ovf, p_pickle):
        self.ovf_at = rng.randrange(0, max(1, length - 10)) if rng.random() < p_ovf else None
        self.pickle_at = rng.randrange(0, length) if rng.random() < p_pickle else None
        self.hot = None
        self.hot_left = 0


def start_overflow(g, plan, protocol=True):
    """White-box: move the counter of a handler without live event next to / beyond 2^32."""
    rng = g.rng
    free = g.free_hds()
    if protocol:
        if free:
            hd = rng.choice(free)
        else:
            hd = rng.choice(g.live_hds())
            g.trash(hd)
    else:
        hd = rng.randrange(g.nh)
    g.bump_to(hd, rng.choice(OVF_TARGETS))
    plan.hot = hd
    plan.hot_left = rng.randint(6, 14)
    plan.ovf_at = None


def stream_protocol(g, length):
    rng = g.rng
    plan = Plan(rng, length, 0.32, 0.3)
    target = rng.randint(1, g.nh)
    p_get = rng.choice([0.08, 0.2, 0.35])
    while g.n() < length:
        if plan.ovf_at is not None and g.n() >= plan.ovf_at:
            start_overflow(g, plan)
            continue
        if plan.pickle_at is not None and g.n() >= plan.pickle_at:
            plan.pickle_at = None
            g.pickle()
            continue
        u = rng.random()
        if u < 0.02:
            g.pickle()
        elif u < 0.03:
            g.dump()
        elif u < 0.03 + p_get:
            el = g.get()[1]
            if el[2] is not None and rng.random() < 0.6:
                g.trash(el[2])
        else:
            live = g.live_hds()
            if plan.hot is not None and plan.hot_left > 0 and rng.random() < 0.6:
                plan.hot_left -= 1
                if plan.hot in live:
                    g.trash(plan.hot)
                else:
                    g.push(g.time(finite=rng.random() < 0.8), plan.hot)
                continue
            want_push = rng.random() < (0.75 if len(live) < target else 0.3)
            free = g.free_hds()
            if (want_push and free) or not live:
                g.push(g.time(), rng.choice(free))
            else:
                g.trash(rng.choice(live))
    if rng.random() < 0.5:
        g.drain(min(2 * len(g.rl.live), 40))


def stream_mediator(g, length):
    """push k candidate events, ask for the succeeding one, trash a subset including the returned one."""
    rng = g.rng
    plan = Plan(rng, length, 0.32, 0.3)
    kmax = rng.randint(1, min(g.nh, 10))
    while g.n() < length:
        if plan.ovf_at is not None and g.n() >= plan.ovf_at:
            start_overflow(g, plan)
        if plan.pickle_at is not None and g.n() >= plan.pickle_at:
            plan.pickle_at = None
            g.pickle()
        free = g.free_hds()
        rng.shuffle(free)
        if plan.hot is not None and plan.hot_left > 0 and plan.hot in free:
            free.remove(plan.hot)
            free.insert(0, plan.hot)
            plan.hot_left -= 1
        for hd in free[:rng.randint(1, kmax)]:
            g.push(g.time(finite=(hd == plan.hot and rng.random() < 0.8)), hd)
        el = g.get()[1]
        if rng.random() < 0.02:
            g.pickle()
        if rng.random() < 0.02:
            g.dump()
        live = g.live_hds()
        for hd in live:
            if hd == el[2] or hd == plan.hot or rng.random() < 0.3:
                g.trash(hd)
    if rng.random() < 0.5:
        g.drain(min(2 * len(g.rl.live), 40))


def stream_offprotocol(g, length):
    """also trash absent handlers, push second live events, bump live handlers."""
    rng = g.rng
    plan = Plan(rng, length, 0.25, 0.3)
    while g.n() < length:
        if plan.ovf_at is not None and g.n() >= plan.ovf_at:
            start_overflow(g, plan, protocol=False)
            continue
        if plan.pickle_at is not None and g.n() >= plan.pickle_at:
            plan.pickle_at = None
            g.pickle()
            continue
        u = rng.random()
        live = g.live_hds()
        if u < 0.02:
            g.pickle()
        elif u < 0.03:
            g.dump()
        elif u < 0.2:
            el = g.get()[1]
            if el[2] is not None and rng.random() < 0.5:
                g.trash(el[2])
        elif u < 0.24:
            g.bump(rng.randrange(g.nh), rng.choice([0, 1, 1, 2, 3]))
        elif u < 0.65:
            if plan.hot is not None and plan.hot_left > 0 and rng.random() < 0.5:
                plan.hot_left -= 1
                hd = plan.hot
            elif live and rng.random() < 0.25:
                hd = rng.choice(live)                  # second live event
            else:
                hd = rng.randrange(g.nh)
            g.push(g.time(), hd)
        else:
            if plan.hot is not None and plan.hot_left > 0 and rng.random() < 0.5:
                plan.hot_left -= 1
                hd = plan.hot
            elif live and rng.random() < 0.7:
                hd = rng.choice(live)
            else:
                hd = rng.randrange(g.nh)               # possibly absent
            g.trash(hd)


def stream_growth(g, length, off=False):
    """Let dead entries pile up below a live root so that the array is reallocated (64 -> 128 -> 256 ...)."""
    rng = g.rng
    anchor = 0
    t0 = (rng.choice([0.0, 1.0, -3.0]), rng.choice(RPOOL))
    g.push(t0, anchor)
    pickle_at = rng.randrange(10, length) if rng.random() < 0.35 else None
    drain_at = int(length * rng.choice([0.8, 0.9, 1.0]))
    p_get = rng.choice([0.0, 0.02, 0.05])
    ovf_at = rng.randrange(10, length) if rng.random() < 0.25 else None
    while g.n() < drain_at:
        if pickle_at is not None and g.n() >= pickle_at:
            pickle_at = None
            g.pickle()
        if ovf_at is not None and g.n() >= ovf_at:
            ovf_at = None
            cands = [h for h in g.free_hds() if h != anchor]
            if cands:
                hd = rng.choice(cands)
                g.bump_to(hd, rng.choice(OVF_TARGETS[2:]))
                g.push(g.time(late=True, finite=True), hd)
        if rng.random() < p_get:
            g.get()
            continue
        free = [h for h in g.free_hds() if h != anchor]
        if off and rng.random() < 0.8:
            g.push(g.time(late=True, finite=True), rng.randrange(1, g.nh) if g.nh > 1 else 0)
        elif free and rng.random() < 0.9:
            g.push(g.time(late=True, finite=rng.random() < 0.95), rng.choice(free))
        else:
            live = [h for h in g.live_hds() if h != anchor]
            if live:
                g.trash(rng.choice(live))
            elif free:
                g.push(g.time(late=True, finite=True), rng.choice(free))
            else:
                g.get()
    g.dump()
    if g.rl.has(anchor):
        g.trash(anchor)
    g.drain(max(0, length - g.n()) + 30)


def stream_fill(g, length):
    """Bring the heap array to an exact number of stored entries, then run the OverflowError branch of
    push_event (delete_events + counter reset) at exactly that fill level."""
    rng = g.rng
    target = rng.choice(FILL_TARGETS)
    hot = rng.randrange(g.nh)
    fresh = rng.random() < 0.5         # the overflowing handler has no entry in the array at all
    while g.nfinite < target:
        free = [h for h in g.free_hds() if not (fresh and h == hot)]
        live = g.live_hds()
        if free and (rng.random() < 0.6 or not live):
            hd = hot if (hot in free and rng.random() < 0.3) else rng.choice(free)
            g.push(g.time(late=rng.random() < 0.5, finite=True), hd)
        else:
            g.trash(rng.choice(live))
    if g.rl.has(hot):
        g.trash(hot)
    g.bump_to(hot, rng.choice(OVF_TARGETS[2:]))
    g.push(g.time(finite=True), hot)
    if rng.random() < 0.3:
        g.pickle()
    while g.n() < length and rng.random() < 0.9:
        u = rng.random()
        free = g.free_hds()
        live = g.live_hds()
        if u < 0.3:
            el = g.get()[1]
            if el[2] is not None:
                g.trash(el[2])
        elif u < 0.7 and free:
            g.push(g.time(finite=True), rng.choice(free))
        elif live:
            g.trash(rng.choice(live))
    g.drain(60)


def gen_sequence(rng):
    u = rng.random()
    acc = 0.0
    stream = STREAM_MIX[-1][0]
    for name, p in STREAM_MIX:
        acc += p
        if u < acc:
            stream = name
            break
    if stream == "protocol":
        g = SeqGen(rng, pick_nh(rng))
        stream_protocol(g, pick_len(rng))
    elif stream == "mediator":
        g = SeqGen(rng, pick_nh(rng))
        stream_mediator(g, pick_len(rng))
    elif stream == "offprotocol":
        g = SeqGen(rng, pick_nh(rng))
        stream_offprotocol(g, pick_len(rng))
    elif stream == "growth":
        g = SeqGen(rng, rng.randint(25, MAX_HANDLERS))
        stream_growth(g, rng.randint(520, 560) if rng.random() < 0.3 else rng.randint(200, 400))
    elif stream == "growth_off":
        g = SeqGen(rng, rng.randint(10, MAX_HANDLERS))
        stream_growth(g, rng.randint(200, 400), off=True)
    else:
        g = SeqGen(rng, rng.randint(8, MAX_HANDLERS))
        stream_fill(g, rng.randint(150, 400))
    g.dump(force=True)
    return g.ops, stream


# ----------------------------------------------------------------------------------------------
# protocol conformance of a sequence (decided on the operations alone)
def respects_protocol(ops):
    return repair(ops) == [op for op in ops]


def repair(ops):
    """Drop the operations that break the mediator protocol (second live event of a handler, trash or
    bump of a handler that is not / is live)."""
    live = set()
    out = []
    for op in ops:
        k = op[0]
        if k == "push":
            if op[3] in live:
                continue
            live.add(op[3])
        elif k == "trash":
            if op[1] not in live:
                continue
            live.discard(op[1])
        elif k == "bump":
            if op[1] in live:
                continue
        out.append(op)
    return out


# ----------------------------------------------------------------------------------------------
# oracle + case term of one sequence
def show(ob):
    """Readable form of one observation."""
    try:
        if ob[0] == "got":
            t = (ob[4], ob[5]) if ob[2] is None else (ob[2], ob[3])
            return "handler %d (pushed at %s)" % (ob[1], tstr((b2f(t[0]), b2f(t[1]))))
        if ob[0] == "exc":
            return "exception code %d (%s)" % (ob[1], ob[2] if len(ob) > 2 else "")
        if ob[0] == "none":
            return "None"
    except Exception:  # noqa
        pass
    return repr(ob)


def obs_term(ob, bits):
    if ob[0] == "none":
        return "BNone"
    if ob[0] == "got":
        return "BGot %d%%N %d %d" % (ob[1], bits[0], bits[1])
    if ob[0] == "exc":
        return "BExc %d%%N" % ob[1]
    return "BExc 98%N"


def analyse(ops, out, meta=None, build_term=True):
    """Walk one sequence with the reference schedulers.  Returns dict:
       fail = None | (rule, op index, message)      first failure of the property on the implementation
       term = Coq term (mkCase ...)
       stats = counters"""
    rh, rl = Ref("heap"), Ref("list")
    proto = True
    steps = []
    state = {"fail": None}
    st = {"gets": 0, "answered_heap": 0, "answered_list": 0, "ties": 0, "guard_fired": 0, "empty_errors": 0,
          "agree_checked": 0, "code2": 0, "dumps": 0, "max_dump": 0}

    def bad(rule, k, msg):
        if state["fail"] is None:
            state["fail"] = (rule, k, msg)

    def expect(name, k, ob, code):
        if code is None:
            if ob != ["none"]:
                bad("exception", k, "%s: op %d %r gave %s, expected None" % (name, k, ops[k], show(ob)))
        elif ob[:2] != ["exc", code]:
            bad("exception", k, "%s: op %d %r gave %s, expected exception code %d"
                % (name, k, ops[k], show(ob), code))

    def check_get(ref, name, k, ob):
        live = ref.live
        bits = None
        rt = None
        if ob[0] == "got":
            hd = ob[1]
            evs = [t for t, h in live if h == hd]
            if len(evs) == 1:
                rt = evs[0]
                bits = tbits(rt)
                if (ob[4], ob[5]) != bits:
                    bad("trashed", k, "%s: op %d returned handler %d whose only live event is %s, but the scheduler "
                        "recorded the returned time %s: a trashed (stale) event was returned"
                        % (name, k, hd, tstr(rt), tstr((b2f(ob[4]), b2f(ob[5])))))
                elif proto and (ob[2], ob[3]) != bits:
                    bad("trashed", k, "%s: op %d returned handler %d: last pushed time differs from live event"
                        % (name, k, hd))
            elif evs:
                same = [t for t in evs if tbits(t) == (ob[4], ob[5])]
                rt = same[0] if same else min(evs, key=lambda t: (t[0], t[1]))
                bits = tbits(rt)
            else:
                bits = (ob[2], ob[3]) if ob[2] is not None else (ob[4], ob[5])
        what = "finite live" if ref.kind == "heap" else "live"
        if not live:
            if ob[:2] != ["exc", 0]:
                bad("empty", k, "%s: op %d get_succeeding_event on a scheduler without %s event gave %s instead "
                    "of the 'does not contain any events' SchedulerError" % (name, k, what, show(ob)))
            else:
                st["empty_errors"] += 1
            return bits
        m, mh = ref.min()
        if lt(m, ref.last):
            if ob[:2] != ["exc", 1]:
                bad("guard", k, "%s: op %d minimal live time %s is smaller than the last returned %s but get gave %s"
                    % (name, k, tstr(m), tstr(ref.last), show(ob)))
            else:
                st["guard_fired"] += 1
            return bits
        if ob[0] != "got":
            if ob[:2] == ["exc", 0]:
                bad("lost-event", k, "%s: op %d claims to be empty but handler %d has a %s event at %s"
                    % (name, k, mh, what, tstr(m)))
            else:
                bad("guard", k, "%s: op %d gave %s although the minimal live time %s is not smaller than the last "
                    "returned %s" % (name, k, show(ob), tstr(m), tstr(ref.last)))
            return bits
        if rt is None:
            bad("trashed", k, "%s: op %d returned handler %d which has no live event (trashed or never pushed)"
                % (name, k, ob[1]))
            return bits
        if not lt(rt, TINF) and finite_live(live):
            bad("infinite-first", k, "%s: op %d returned handler %d with infinite time %s while handler %d has a "
                "finite live event at %s" % (name, k, ob[1], tstr(rt), mh, tstr(m)))
        elif lt(m, rt):
            bad("minimal", k, "%s: op %d returned handler %d (live event at %s) but handler %d has a live event "
                "at the smaller time %s" % (name, k, ob[1], tstr(rt), mh, tstr(m)))
        ref.last = rt
        if ref.kind == "heap":
            st["answered_heap"] += 1
        else:
            st["answered_list"] += 1
            if sum(1 for t, _ in live if teq(t, m)) >= 2:
                st["ties"] += 1
        return bits

    if meta and meta.get("min_slack") is not None and meta["min_slack"] < 1:
        bad("spare-slot", meta.get("min_slack_op", 0),
            "HeapScheduler: after op %s the heap array has no spare slot (allocated entries - length = %d): "
            "delete_events / bubble_down write heap_entries[length] out of bounds"
            % (meta.get("min_slack_op"), meta["min_slack"]))

    for k, op in enumerate(ops):
        kind = op[0]
        o = out[k] if out is not None and k < len(out) else None
        if not isinstance(o, list) or not o:
            bad("driver", k, "no observation for op %d" % k)
            break
        if kind == "dump":
            if o[0] != "dump":
                bad("exception", k, "reading the heap array failed: %r" % (o,))
                continue
            ent = o[1]
            st["dumps"] += 1
            st["max_dump"] = max(st["max_dump"], len(ent))
            if ent and o[2] < len(ent) + 2:
                bad("spare-slot", k, "HeapScheduler: op %d: %d stored entries (+ sentinel) in an array of %d entries:"
                    " no spare slot" % (k, len(ent), o[2]))
            for i in range(1, len(ent)):
                p = (i + 1) // 2 - 1
                if lt((b2f(ent[i][0]), b2f(ent[i][1])), (b2f(ent[p][0]), b2f(ent[p][1]))):
                    bad("heap-order", k, "HeapScheduler: op %d: heap array entry %d is smaller than its parent %d"
                        % (k, i + 1, p + 1))
                    break
            present = set((e[0], e[1], e[2]) for e in ent)
            for t, hd in rh.live:
                if tbits(t) + (hd,) not in present:
                    bad("lost-event", k, "HeapScheduler: op %d: live event %s of handler %d is not in the heap array"
                        % (k, tstr(t), hd))
                    break
            if build_term:
                steps.append("(FDump %s, BSkip, BSkip)" % C.coq_list(
                    ["(%d, %d, %d%%N, %d%%N)" % (e[0], e[1], e[2], e[3]) for e in ent]))
            continue
        if len(o) != 2 or not isinstance(o[0], list) or not isinstance(o[1], list):
            bad("driver", k, "malformed observation for op %d: %r" % (k, o))
            break
        oh, ol = o
        bh = bl = None
        for name, ob in (("HeapScheduler", oh), ("ListScheduler", ol)):
            if ob[0] == "exc" and ob[1] not in (0, 1, 2):
                bad("exception", k, "%s: op %d %r raised %s" % (name, k, op, ob[2] if len(ob) > 2 else ob))
        if kind == "push":
            t = (b2f(op[1]), b2f(op[2]))
            hd = op[3]
            if rl.has(hd):
                proto = False
            rh.push(t, hd)
            rl.push(t, hd)
            expect("HeapScheduler", k, oh, None)
            expect("ListScheduler", k, ol, None)
            fop = "FPush %d %d %d%%N" % (op[1], op[2], hd)
        elif kind == "trash":
            hd = op[1]
            if not rl.has(hd):
                proto = False
            rh.trash(hd)
            code = rl.trash(hd)
            if code == 2:
                st["code2"] += 1
            expect("HeapScheduler", k, oh, None)
            expect("ListScheduler", k, ol, code)
            fop = "FTrash %d%%N" % hd
        elif kind == "bump":
            hd, n = op[1], op[2]
            if rl.has(hd):
                proto = False
            rh.bump(hd, n)
            expect("HeapScheduler", k, oh, None)
            expect("ListScheduler", k, ol, None)
            fop = "FBump %d%%N %d%%N" % (hd, n)
        elif kind == "pickle":
            expect("HeapScheduler", k, oh, None)
            expect("ListScheduler", k, ol, None)
            fop = "FPickle"
        elif kind == "get":
            st["gets"] += 1
            lasts_equal = teq(rh.last, rl.last)
            fin = finite_live(rl.live) and bool(rh.live)
            bh = check_get(rh, "HeapScheduler", k, oh)
            bl = check_get(rl, "ListScheduler", k, ol)
            if proto and fin and lasts_equal:
                st["agree_checked"] += 1
                if oh[0] == "got" and ol[0] == "got" and bh and bl:
                    th = (b2f(bh[0]), b2f(bh[1]))
                    tl = (b2f(bl[0]), b2f(bl[1]))
                    if not teq(th, tl):
                        bad("agree", k, "op %d: HeapScheduler returned handler %d at %s, ListScheduler handler %d at "
                            "%s" % (k, oh[1], tstr(th), ol[1], tstr(tl)))
                elif not (oh[:2] == ["exc", 1] and ol[:2] == ["exc", 1]):
                    bad("agree", k, "op %d: a finite live event exists but HeapScheduler gave %s and ListScheduler "
                        "%s" % (k, show(oh), show(ol)))
            fop = "FGet"
        else:
            bad("driver", k, "unknown op %r" % (op,))
            break
        steps.append("(%s, %s, %s)" % (fop, obs_term(oh, bh or (0, 0)), obs_term(ol, bl or (0, 0))))
    return {"fail": state["fail"], "stats": st,
            "term": share_literals("mkCase " + C.coq_list(steps)) if build_term else None}



# ----------------------------------------------------------------------------------------------
# "very large heap" stratum: tens of thousands of trashed far-future events pile up in the lazily
# deleting C heap (stored entries cross 2^16, in thorough also 2^17: realloc growth 64 -> 131072 /
# 262144 entries), interleaved with ordinary live events, then ordinary random operations and a drain.
# Checked by the reference-scheduler oracle (and the heap-order / spare-slot / no-lost-event checks on
# the dumped array) only: the list-based Coq model is not evaluated on these histories (an array of
# 10^5 cells under vm_compute is out of reach); the Coq theorems are for unbounded sizes and the
# model/implementation correspondence is exercised on the ordinary strata.
LARGE_ORDINARY = [0, 1, 2, 3]
LARGE_BULK = list(range(4, 12))


def gen_large(rng, target):
    g = SeqGen(rng, 12)
    for h in LARGE_ORDINARY:
        g.push((float(1 + h), rng.choice(RPOOL)), h)
    g.get()
    base = 2.0 ** 20
    nb = 0
    nxt = rng.randint(1500, 6000)
    while nb < target:
        h = LARGE_BULK[nb % len(LARGE_BULK)] if rng.random() < 0.9 else rng.choice(LARGE_BULK)
        if g.rl.has(h):
            g.trash(h)
        g.push((base + float(rng.randrange(0, 4096)), rng.choice(RPOOL)), h)
        nb += 1
        nxt -= 1
        if nxt <= 0:
            nxt = rng.randint(1500, 6000)
            el = g.get()[1]            # an ordinary live event fires, is trashed and re-created later
            hd = el[2]
            if hd is not None:
                g.trash(hd)
                if hd in LARGE_ORDINARY:
                    g.push(g.time(finite=True), hd)
    g.get()
    g.dump(force=True)                 # the whole array (> 2^16 entries) goes to the oracle once
    for h in LARGE_BULK[::2]:
        if g.rl.has(h):
            g.trash(h)
    g.ndump = MAX_DUMPS                # no further full dumps during the ordinary tail
    stream_protocol(g, g.n() + rng.randint(100, 300))
    g.drain(200)                       # pops tens of thousands of dead entries through root()
    g.get()
    g.ndump = 0
    g.dump(force=True)
    return g.ops


def run_large(ctx, seqs_override=None):
    """Returns dict(stats) after reporting a violation if the oracle fails on a large sequence."""
    if seqs_override is not None:
        seqs = [list(x) for x in seqs_override]
    else:
        # quick: one sequence crossing 2^16 stored entries and one crossing 2^17 (more than 10^5 pushes on one scheduler)
        targets = [2 ** 16 + 200] * ctx.n(1, 4) + [2 ** 17 + 200] * ctx.n(1, 2)
        seqs = [gen_large(ctx.rng, t) for t in targets]
    t1 = time.time()
    outs, metas, crashes, tdrv = run_impl(ctx, seqs, 1)
    info = {"sequences": len(seqs), "ops": sum(len(x) for x in seqs), "max_stored_entries": 0,
            "max_allocated_entries": 0, "gets": 0, "answered_heap": 0, "oracle_failures": 0,
            "driver_crashes": len(crashes)}
    fails = []
    for i, ops in enumerate(seqs):
        if outs[i] is None:
            continue
        res = analyse(ops, outs[i], metas[i], build_term=False)
        m = metas[i] or {}
        info["max_stored_entries"] = max(info["max_stored_entries"], m.get("max_entries", 0), res["stats"]["max_dump"])
        info["max_allocated_entries"] = max(info["max_allocated_entries"], m.get("cap", 0))
        info["gets"] += res["stats"]["gets"]
        info["answered_heap"] += res["stats"]["answered_heap"]
        if res["fail"]:
            fails.append((i,) + res["fail"])
    info["oracle_failures"] = len(fails)
    info["wall_s"] = round(time.time() - t1, 2)
    if crashes:
        c = crashes[0]
        C.violation(ctx, "large-crash", {"kind": "c06-large", "seqs": [seqs[j] for j in c["indices"]],
                                         "message": "driver crashed on a very-large-heap sequence: " + c["error"][-800:]},
                    "C06 fails on the implementation: driver crashed on a very-large-heap sequence", nofail=False)
    if fails:
        i, rule, k, msg = min(fails, key=lambda f: f[2])
        # shrink: the prefix up to the failing operation (re-running 10^5-operation candidates through
        # delta debugging is too slow); keep it only if it still fails
        pre = seqs[i][:k + 1]
        r, e = run_chunk(ctx, [pre], timeout=600)
        shr, shr_msg = seqs[i], msg
        if r is not None and r.get("out"):
            f = analyse(pre, r["out"][0], r["meta"][0], build_term=False)["fail"]
            if f:
                shr, shr_msg = pre, f[2]
        C.violation(ctx, "large", {"kind": "c06-large", "seqs": [shr], "stream": "large", "rule": rule,
                                   "message": shr_msg, "original_length": len(seqs[i]), "n_failing": len(fails),
                                   "failing_rules": sorted(set(x[1] for x in fails))},
                    "C06 fails on the implementation (very large heap, %d operations): %s" % (len(shr), shr_msg[:300]),
                    nofail=False)
    return info

BIGLIT = re.compile(r"(?<![\w%.])(\d{6,})(?![\d%])")


def share_literals(term):
    """Parsing a 64-bit Z literal is the dominant cost of a case file: bind each distinct one once."""
    names = {}

    def sub(m):
        v = m.group(1)
        if v not in names:
            names[v] = "z%d" % len(names)
        return names[v]
    body = BIGLIT.sub(sub, term).replace("); (", ");\n (")
    lets = "".join("let %s : Z := %s in\n" % (n, v) for v, n in names.items())
    return "(%s%s)" % (lets, body)


# ----------------------------------------------------------------------------------------------
# running the implementation
def run_chunk(ctx, seqs, timeout=900):
    """One driver process.  Returns (result dict, None) or (None, error text) if the process died."""
    try:
        return C.run_driver(ctx, DRIVER, {"seqs": seqs}, timeout=timeout), None
    except C.DriverError as e:
        return None, str(e)[-1500:]
    except subprocess.TimeoutExpired:
        return None, "driver timed out after %d s" % timeout


def run_impl(ctx, seqs, chunk):
    """Returns (outs, metas, crashes, driver_seconds); outs[i] is None for a sequence whose driver process
    died; crashes = list of dict(indices=[...], error=...)."""
    spans = [(i, min(i + chunk, len(seqs))) for i in range(0, len(seqs), chunk)]
    outs = [None] * len(seqs)
    metas = [None] * len(seqs)
    crashes = []
    tdrv = 0.0
    # a chunk of the clean implementation takes seconds; a hanging implementation must not stall the check for hours
    t_chunk = 150 if ctx.tier == "quick" else 600
    with ThreadPoolExecutor(max_workers=C.NCPU) as ex:
        res = list(ex.map(lambda s: run_chunk(ctx, seqs[s[0]:s[1]], timeout=t_chunk), spans))
    redo = []
    for (a, b), (r, err) in zip(spans, res):
        if r is not None and len(r.get("out", [])) == b - a:
            outs[a:b] = r["out"]
            metas[a:b] = r["meta"]
            tdrv += r.get("t", 0.0)
        else:
            redo.append((a, b, err or "driver returned %d results for %d sequences" % (len(r.get("out", [])), b - a)))
    for k, (a, b, err) in enumerate(redo):
        # the chunk's process died or hung: run its sequences one per process to find the culprit(s)
        # (only for the first few such chunks: one culprit is enough for a verdict)
        idx = list(range(a, b))
        if k >= 2:
            crashes.append({"indices": idx, "error": err})
            continue
        with ThreadPoolExecutor(max_workers=C.NCPU) as ex:
            single = list(ex.map(lambda i: run_chunk(ctx, [seqs[i]], timeout=60), idx))
        dead = []
        for i, (r, e) in zip(idx, single):
            if r is not None and len(r.get("out", [])) == 1:
                outs[i] = r["out"][0]
                metas[i] = r["meta"][0]
            else:
                dead.append((i, e))
        if dead:
            for i, e in dead:
                crashes.append({"indices": [i], "error": e})
        else:
            crashes.append({"indices": idx, "error": err})
    return outs, metas, crashes, tdrv


# ----------------------------------------------------------------------------------------------
# shrinking (delta debugging over the operation list)
def ddmin(ops, test_batch, fix=None, max_rounds=40, max_cands=600, budget_s=240):
    """test_batch(list of candidate op lists) -> list of bool (candidate still fails in the same way).
    Best effort within budget_s seconds of wall time (a candidate may hang the implementation until its timeout)."""
    import time as _t
    t_end = _t.time() + budget_s
    cur = list(ops)
    n = 2
    rounds = used = 0
    while len(cur) >= 2 and rounds < max_rounds and used < max_cands and _t.time() < t_end:
        size = -(-len(cur) // n)
        cands, seen = [], set()
        for i in range(0, len(cur), size):
            c = cur[:i] + cur[i + size:]
            if fix:
                c = fix(c)
            key = json.dumps(c)
            if c and len(c) < len(cur) and key not in seen:
                seen.add(key)
                cands.append(c)
        cands = cands[:max(1, max_cands - used)]
        if not cands:
            break
        res = test_batch(cands)
        rounds += 1
        used += len(cands)
        hit = next((j for j, ok in enumerate(res) if ok), None)
        if hit is not None:
            cur = cands[hit]
            n = max(n - 1, 2)
        elif size <= 1:
            break
        else:
            n = min(len(cur), n * 2)
    return cur


def shrink_oracle(ctx, ops, rule):
    fix = repair if respects_protocol(ops) else None

    def test(cands):
        r, err = run_chunk(ctx, cands, timeout=90)
        if r is None or len(r.get("out", [])) != len(cands):
            return [False] * len(cands)
        res = []
        for c, o, m in zip(cands, r["out"], r["meta"]):
            f = analyse(c, o, m)["fail"]
            res.append(f is not None and f[0] == rule)
        return res
    try:
        return ddmin(ops, test, fix)
    except Exception as e:  # noqa  (shrinking is best effort)
        ctx.notes.append("shrinking failed: %r" % (e,))
        return ops


def shrink_crash(ctx, ops):
    def test(cands):
        with ThreadPoolExecutor(max_workers=C.NCPU) as ex:
            res = list(ex.map(lambda c: run_chunk(ctx, [c], timeout=60), cands))
        return [r is None for r, _ in res]
    try:
        return ddmin(ops, test, None, max_rounds=30, max_cands=150)
    except Exception as e:  # noqa
        ctx.notes.append("shrinking failed: %r" % (e,))
        return ops


def shrink_mismatch(ctx, ops):
    """Model/implementation mismatch: candidates are re-run on the implementation and re-evaluated in Coq."""
    fix = repair if respects_protocol(ops) else None
    counter = [0]

    def test(cands):
        r, err = run_chunk(ctx, cands, timeout=90)
        if r is None or len(r.get("out", [])) != len(cands):
            return [False] * len(cands)
        terms = [analyse(c, o, m)["term"] for c, o, m in zip(cands, r["out"], r["meta"])]
        counter[0] += 1
        ob, di = ctx.obligations, ctx.discharged
        neval, bad, nfiles, nok, err = C.eval_cases(ctx, "c06shr%d" % counter[0], HEADER, terms, "check_scase",
                                                    "scase", per_file=max(1, -(-len(terms) // C.NCPU)))
        ctx.obligations, ctx.discharged = ob, di
        ctx.checker_cmds.pop()
        if err:
            return [False] * len(cands)
        return [i in set(bad) for i in range(len(cands))]
    try:
        return ddmin(ops, test, fix, max_rounds=12, max_cands=200)
    except Exception as e:  # noqa
        ctx.notes.append("shrinking failed: %r" % (e,))
        return ops


# ----------------------------------------------------------------------------------------------
# search step only: replay a sequence at the C level under ASan/UBSan
C_TEMPLATE = r"""
#include <stdio.h>
#include <stdint.h>
#include <string.h>
#include "%(heap_c)s"
#define NH 4096
static unsigned long long mvc[NH];
static int hobj[NH];
static struct Heap *heap;
static int idx(void *h) { return (int)((int *)h - hobj); }
static int cb(void *s, void *h, uint counter) { (void)s; return mvc[idx(h)] > (unsigned long long)counter; }
static double d(uint64_t b) { double x; memcpy(&x, &b, 8); return x; }
static void push(uint64_t qb, uint64_t rb, int h) {
    double q = d(qb), r = d(rb), inf = 1.0 / 0.0;
    if (!(q < inf || (q == inf && r < inf))) return;
    if (mvc[h] > 4294967295ULL) { delete_events(heap, &hobj[h]); mvc[h] = 0; insert(heap, q, r, &hobj[h], 0); }
    else insert(heap, q, r, &hobj[h], (uint)mvc[h]);
}
static void get(int k) {
    struct HeapEntry e = root(heap, NULL, cb);
    if (e.event_handler) printf("op %%d: root -> handler %%d\n", k, idx(e.event_handler));
    else printf("op %%d: root -> empty\n", k);
}
static void repickle(void) {
    uint n = 0, i;
    while (entry(heap, n).event_handler != NULL) n++;
    struct HeapEntry *copy = malloc((n + 1) * sizeof(struct HeapEntry));
    for (i = 0; i < n; i++) copy[i] = entry(heap, i);
    destroy_heap(heap);
    heap = construct_heap();
    for (i = 0; i < n; i++) insert(heap, copy[i].time_quotient, copy[i].time_remainder, copy[i].event_handler,
                                   copy[i].counter);
    free(copy);
}
static void dump(int k) {
    uint n = 0;
    while (entry(heap, n).event_handler != NULL) n++;
    printf("op %%d: %%u entries\n", k, n);
}
int main(void) {
    heap = construct_heap();
%(body)s
    destroy_heap(heap);
    printf("done\n");
    return 0;
}
"""


def sanitizer_replay(ctx, ops):
    """Compile heap.c of the scratch copy with ASan/UBSan into a driver replaying `ops`; never raises."""
    try:
        import shutil
        cc = shutil.which("clang") or shutil.which("gcc")
        if not cc:
            return {"available": False, "reason": "no clang/gcc found"}
        d = os.path.join(ctx.root, "asan")
        os.makedirs(d, exist_ok=True)
        heap_c = os.path.join(ctx.scratch, "jellyfysh", "scheduler", "heap_scheduler", "heap.c")
        body = []
        for k, op in enumerate(ops):
            if op[0] == "push":
                body.append("    push(%dULL, %dULL, %d);" % (op[1], op[2], op[3]))
            elif op[0] == "trash":
                body.append("    mvc[%d] += 1;" % op[1])
            elif op[0] == "bump":
                body.append("    mvc[%d] += %dULL;" % (op[1], op[2]))
            elif op[0] == "get":
                body.append("    get(%d);" % k)
            elif op[0] == "pickle":
                body.append("    repickle();")
            elif op[0] == "dump":
                body.append("    dump(%d);" % k)
        src = os.path.join(d, "replay.c")
        with open(src, "w") as f:
            f.write(C_TEMPLATE % {"heap_c": heap_c, "body": "\n".join(body)})
        exe = os.path.join(d, "replay")
        p = subprocess.run([cc, "-fsanitize=address,undefined", "-fno-omit-frame-pointer", "-g", "-O1", "-o", exe, src],
                           stdout=subprocess.PIPE, stderr=subprocess.STDOUT, timeout=120)
        if p.returncode != 0:
            return {"available": False, "compiler": cc,
                    "reason": "compilation with sanitizers failed: " + p.stdout.decode(errors="replace")[-600:]}
        env = dict(os.environ)
        env["ASAN_OPTIONS"] = "detect_leaks=0:abort_on_error=0"
        env["UBSAN_OPTIONS"] = "print_stacktrace=1"
        r = subprocess.run([exe], stdout=subprocess.PIPE, stderr=subprocess.PIPE, timeout=120, env=env)
        err = r.stderr.decode(errors="replace")
        return {"available": True, "compiler": cc, "returncode": r.returncode,
                "error_reported": ("ERROR: AddressSanitizer" in err) or ("runtime error" in err),
                "stderr": err[:2000], "stdout_tail": r.stdout.decode(errors="replace")[-300:]}
    except Exception as e:  # noqa
        return {"available": False, "reason": "sanitizer replay failed: %r" % (e,)}


# ----------------------------------------------------------------------------------------------
def load_corpus():
    d = os.path.join(C.VERIF, "corpus", "C06")
    seqs = []
    if os.path.isdir(d):
        for fn in sorted(os.listdir(d)):
            if fn.endswith(".json"):
                data = json.load(open(os.path.join(d, fn)))
                if isinstance(data, dict):
                    data = data.get("seqs", [])
                seqs += [s for s in data if isinstance(s, list)]
    return seqs


def len_bucket(n):
    for lo, hi in ((0, 20), (21, 60), (61, 150), (151, 299), (300, 400), (401, 10 ** 9)):
        if n <= hi:
            return "%d-%d" % (lo, hi) if hi < 10 ** 9 else ">400"


def cap_bucket(c):
    return str(c)


def run(ctx, seqs_override=None, large_override=None):
    C.build_scratch(ctx, exts=("heap",))
    broken = []
    nthm = 0
    if os.path.exists(os.path.join(C.COQ, "Props", "C06.v")):
        ok, out, nthm = C.check_props(ctx)
        if not ok:
            broken.append("Props/C06.v does not check: " + out[-600:])
    elif REQUIRE_PROPS:
        ctx.obligations += 1
        broken.append("Props/C06.v is missing: the property theorems are not checked")
    else:
        ctx.notes.append("coq/Props/C06.v not present: property theorems not re-checked on this run "
                         "(correspondence and oracle only)")

    if large_override is not None and seqs_override is None:
        seqs_override = []
    if seqs_override is not None:
        seqs = [list(s) for s in seqs_override]
        streams = ["replay"] * len(seqs)
        ncorpus = 0
    else:
        corpus = load_corpus()
        ncorpus = len(corpus)
        seqs = list(corpus)
        streams = ["corpus"] * len(corpus)
        for _ in range(ctx.n(600, 30000)):
            ops, stream = gen_sequence(ctx.rng)
            seqs.append(ops)
            streams.append(stream)

    chunk = len(seqs) if seqs_override is not None and len(seqs) <= 200 else ctx.n(20, 100)
    per_file = ctx.n(19, 50)
    batch = 3000

    agg = {"gets": 0, "answered_heap": 0, "answered_list": 0, "ties": 0, "guard_fired": 0, "empty_errors": 0,
           "agree_checked": 0, "code2": 0, "dumps": 0}
    opmix, streammix, lenhist, caphist = {}, {}, {}, {}
    n_ops = n_ovf_seq = n_ovf = n_pickle_seq = n_proto = 0
    cross = {"64": 0, "128": 0, "256": 0}
    distinct = set()
    oracle_fails = []      # (global index, rule, k, message)
    crashes_all = []
    mism_all = []          # global indices failing check_scase
    diag_all = []          # global indices failing only check_scase_strict
    neval_total = nfiles_total = nok_total = 0
    tdrv_total = 0.0
    t_impl = t_coq = 0.0
    samples = []

    for b0 in range(0, len(seqs), batch):
        bseqs = seqs[b0:b0 + batch]
        t1 = time.time()
        outs, metas, crashes, tdrv = run_impl(ctx, bseqs, chunk)
        t_impl += time.time() - t1
        tdrv_total += tdrv
        for c in crashes:
            crashes_all.append({"indices": [b0 + i for i in c["indices"]], "error": c["error"]})
        terms, tidx = [], []
        for i, ops in enumerate(bseqs):
            gi = b0 + i
            n_ops += len(ops)
            streammix[streams[gi]] = streammix.get(streams[gi], 0) + 1
            lb = len_bucket(len(ops))
            lenhist[lb] = lenhist.get(lb, 0) + 1
            has_pickle = False
            for op in ops:
                opmix[op[0]] = opmix.get(op[0], 0) + 1
                has_pickle = has_pickle or op[0] == "pickle"
            n_pickle_seq += has_pickle
            if outs[i] is None:
                continue
            res = analyse(ops, outs[i], metas[i])
            for k2 in agg:
                agg[k2] += res["stats"][k2]
            m = metas[i] or {}
            cap = m.get("cap", 0)
            caphist[cap_bucket(cap)] = caphist.get(cap_bucket(cap), 0) + 1
            for lim in (64, 128, 256):
                if cap > lim:
                    cross[str(lim)] += 1
            if m.get("ovf", 0):
                n_ovf_seq += 1
                n_ovf += m["ovf"]
            if respects_protocol(ops):
                n_proto += 1
            if res["stats"]["answered_heap"] + res["stats"]["answered_list"] >= 1:
                distinct.add(hash(json.dumps(ops)))
            if res["fail"]:
                oracle_fails.append((gi,) + res["fail"])
            terms.append(res["term"])
            tidx.append(gi)
            if len(samples) < 4 and len(ops) <= 12 and res["stats"]["answered_heap"]:
                samples.append({"stream": streams[gi], "ops": ops, "impl": outs[i]})
        t1 = time.time()
        neval, bad, nfiles, nok, err = C.eval_cases(ctx, "c06s%d" % (b0 // batch), HEADER, terms,
                                                    "check_scase_strict", "scase", per_file=per_file)
        neval_total += neval
        nfiles_total += nfiles
        nok_total += nok
        if err:
            broken.append("correspondence case files did not evaluate: " + err[-600:])
        if bad:
            wterms = [terms[i] for i in bad]
            neval2, bad2, nf2, nok2, err2 = C.eval_cases(ctx, "c06w%d" % (b0 // batch), HEADER, wterms,
                                                         "check_scase", "scase",
                                                         per_file=max(1, -(-len(wterms) // C.NCPU)))
            if err2:
                broken.append("correspondence case files (weak check) did not evaluate: " + err2[-600:])
            weak_bad = set(bad[j] for j in bad2)
            for i in bad:
                (mism_all if i in weak_bad else diag_all).append(tidx[i])
        t_coq += time.time() - t1

    # very large heap stratum (reference-scheduler oracle only, see gen_large)
    large = None
    if large_override is not None:
        large = run_large(ctx, large_override)
    elif seqs_override is None and not crashes_all:
        large = run_large(ctx)
    if large:
        n_ops += large["ops"]

    # ------------------------------------------------------------------------------------------
    # verdicts
    if crashes_all:
        c = crashes_all[0]
        if len(c["indices"]) == 1:
            gi = c["indices"][0]
            shr = shrink_crash(ctx, seqs[gi])
            data = {"kind": "c06-seqs", "seqs": [shr], "stream": streams[gi], "original_length": len(seqs[gi]),
                    "message": "driver crashed: " + c["error"][-800:], "n_crashing": len(crashes_all),
                    "sanitizer": sanitizer_replay(ctx, shr)}
        else:
            data = {"kind": "c06-seqs", "seqs": [seqs[i] for i in c["indices"]],
                    "message": "driver crashed on this chunk (no single sequence reproduces it alone): "
                               + c["error"][-800:], "n_crashing": len(crashes_all)}
        C.violation(ctx, "crash", data, "C06 fails on the implementation: driver crashed (the process running the "
                    "real schedulers died: invalid memory access / abort in the heap extension)", nofail=False)
    if oracle_fails:
        gi, rule, k, msg = min(oracle_fails, key=lambda f: len(seqs[f[0]]))
        shr = shrink_oracle(ctx, seqs[gi], rule)
        r, e = run_chunk(ctx, [shr], timeout=300)
        shr_msg, impl, f = msg, None, None
        if r is not None and r.get("out"):
            f = analyse(shr, r["out"][0], r["meta"][0])["fail"]
            impl = r["out"][0]
            if f:
                shr_msg = f[2]
        san = None
        if rule == "spare-slot" and f and f[0] == "spare-slot":
            # make the invalid access happen: a handler without any entry overflows its counter, so that
            # delete_events heapifies the full array and writes heap_entries[length] with length == size
            fresh = 1 + max([op[3] for op in shr if op[0] == "push"] + [0])
            ext = shr[:f[1] + 1] + [["bump", fresh, TWO32], ["push", f2b(1.0), f2b(0.5), fresh]]
            san = sanitizer_replay(ctx, ext)
            if san.get("error_reported"):
                shr = ext
                shr_msg += "; replayed at the C level under ASan/UBSan with a counter overflow appended: " \
                           "invalid memory access reported"
                impl = None
            else:
                san = None
        C.violation(ctx, "oracle", {"kind": "c06-seqs", "seqs": [shr], "stream": streams[gi], "rule": rule,
                                    "message": shr_msg, "original_message": msg, "original_length": len(seqs[gi]),
                                    "impl_result": impl, "n_failing": len(oracle_fails),
                                    "failing_rules": sorted(set(x[1] for x in oracle_fails)),
                                    "sanitizer": san or sanitizer_replay(ctx, shr)},
                    "C06 fails on the implementation: " + shr_msg[:300], nofail=False)
    elif mism_all and not crashes_all:
        gi = min(mism_all, key=lambda i: len(seqs[i]))
        shr = shrink_mismatch(ctx, seqs[gi])
        r, e = run_chunk(ctx, [shr], timeout=300)
        C.violation(ctx, "correspondence",
                    {"kind": "c06-seqs", "seqs": [shr], "stream": streams[gi], "original_length": len(seqs[gi]),
                     "impl_result": r["out"][0] if r is not None and r.get("out") else None,
                     "message": "Coq model (Model/Heap.v, Model/Sched.v) and implementation disagree on exception "
                                "enum / None / returned time for %d sequence(s); the reference-scheduler oracle found "
                                "no failing input; correspondence JF.Model.SchedCases.check_scase no longer checks"
                                % len(mism_all),
                     "sanitizer": sanitizer_replay(ctx, shr)},
                    "scheduler models and implementation disagree (JF.Model.SchedCases.check_scase)", nofail=True)
    elif broken and not crashes_all:
        C.violation(ctx, "obligation", {"kind": "obligation", "broken": broken}, broken[0][:200], nofail=True)
    if diag_all:
        ctx.notes.append("%d sequence(s) differ from the model only in handler identity on ties / bit pattern of "
                         "equal times / heap array layout (check_scase_strict); not an alarm; first: sequence %d"
                         % (len(diag_all), diag_all[0]))

    C.write_evidence(ctx, {
        "evaluations": n_ops,
        "sequences": len(seqs),
        "distinct_nontrivial": len(distinct),
        "rule": "distinct operation sequences (as JSON) in which at least one get_succeeding_event returned a "
                "handler on a real scheduler",
        "state_coverage": {
            "sequences_crossing_capacity_64": cross["64"],
            "sequences_crossing_capacity_128": cross["128"],
            "sequences_crossing_capacity_256": cross["256"],
            "max_allocated_entries_histogram": caphist,
            "sequences_executing_overflow_branch": n_ovf_seq,
            "overflow_branch_executions": n_ovf,
            "sequences_with_pickle": n_pickle_seq,
            "sequences_respecting_protocol": n_proto,
            "gets": agg["gets"],
            "gets_answered_heap": agg["answered_heap"],
            "gets_answered_list": agg["answered_list"],
            "gets_with_tie_among_minimal_live_times": agg["ties"],
            "decreasing_time_guard_fired": agg["guard_fired"],
            "empty_scheduler_errors": agg["empty_errors"],
            "cross_scheduler_agreement_checked": agg["agree_checked"],
            "list_trash_of_absent_handler": agg["code2"],
            "heap_array_dumps_compared": agg["dumps"],
            "very_large_heap_stratum": large or "not run (replay)",
        },
        "samples": samples,
        "input_distribution": {"op_mix": opmix, "stream_mix": streammix, "length_histogram": lenhist,
                               "corpus_sequences": ncorpus},
        "traces_validated_against_impl": neval_total,
        "case_files": nfiles_total, "case_files_ok": nok_total,
        "model_vs_impl_mismatches": len(mism_all),
        "layout_or_handler_diffs": len(diag_all),
        "oracle_failures": len(oracle_fails),
        "driver_crashes": len(crashes_all),
        "timing_s": {"implementation_wall": round(t_impl, 2), "driver_cpu": round(tdrv_total, 2),
                     "coq_wall": round(t_coq, 2)},
        "explanation": "Props/C06.v %s; every sequence applied to the real HeapScheduler (cffi build of the current "
                       "heap.c) and the real ListScheduler; each history evaluated in Coq against Model/Heap.v + "
                       "Model/Sched.v (strict: handler, bits, heap array at every dump; pass/fail: exception enum / "
                       "None / float-equal returned time); independent reference-scheduler oracle with exact "
                       "quotient-then-remainder comparison on every sequence, plus heap-order / spare-slot / "
                       "no-lost-event checks on the heap array read through lib.entry; plus a very-large-heap "
                       "stratum (stored entries beyond 2^16 / 2^17) checked by that oracle only, not in Coq"
                       % ("re-checked (%d theorems)" % nthm if nthm else "not present"),
        "trusted_base": TRUSTED,
    }, ASSUME)


TRUSTED = [
    "hand-written models coq/Model/Heap.v (transliteration of heap.c) and coq/Model/Sched.v",
    "Flocq 4.1 IEEE754 binary64 comparison (Model/Time.v c_time_lt)",
    "correspondence harness harness/c06.py + drivers/c06_sched.py (bit-level (de)serialisation of floats, "
    "white-box reads of _heap through lib.entry, _minimal_valid_counter, _allocated_memory_bytes, "
    "_last_returned_event)",
    "cffi build of heap.c from the current source in the scratch copy (compiler, cffi 2.1.1)",
    "sizeof(struct HeapEntry) = 32 assumed by the model (the driver reads it from ffi.sizeof)",
    "dill round trip of (HeapScheduler, ListScheduler, handlers) in one dumps call stands for the dumping of a run",
]
ASSUME = [
    "the models are tied to the code by differential evaluation on generated histories, not by a semantics of C/Python",
    "realloc failure and wrap-around of heap->length / heap->size (>= 2^31 entries) are excluded",
    "cross-scheduler agreement is claimed only for histories respecting the mediator protocol and only while "
    "every get had a finite live event (ListScheduler keeps and returns infinite times, HeapScheduler drops them)",
    "NaN times are excluded",
]


def replay(ctx, path):
    data = json.load(open(path))
    if data.get("kind") == "c06-large":
        run(ctx, large_override=data.get("seqs", []))
    else:
        run(ctx, seqs_override=data.get("seqs", []))
