"""C08 — a committed event was computed from the trajectory that is still current (DESIGN.md section 5, C08)."""
import common as C
import hist
import wiring

TRUSTED = [
    "hand-written model coq/Model/Stale.v (pending in-states per handler on top of Model/Kinematics.v)",
    "monkeypatching tracer harness/drivers/tracer.py (records the in-state of every started handler exactly as "
    "extracted from the global state, before the handler touches it)",
    "classification of handlers into interaction / cell-veto vs others by base class (harness/tracecheck.py)",
]
ASSUME = [
    "tie to the code: check_stcase evaluated inside Coq on traced real runs: at the commit of every interaction / "
    "cell-veto event its stored in-state agrees with the global state (same velocity bits, same line within the "
    "rounding bound); after every commit every surviving pending interaction / cell-veto event is undisturbed",
    "same-line tolerance: slice_tol of both records + 8*L*2^-50",
]


def encoders():
    return [("c08_stale", hist.STALE_HEADER, "check_stcase", "stcase", lambda tr, n: hist.encode_stcase(tr, n))]


def run(ctx, replay_jobs=None):
    C.build_scratch(ctx, exts=("heap", "mic", "ipc"))
    hist.run_history_check(
        ctx, "C08", ("C08",), encoders(), TRUSTED, ASSUME,
        "Props/C08.v re-checked; traced runs replayed through Model/Stale.v in Coq (sleg_ok: not stale at commit, "
        "survivors undisturbed after every commit); oracle: at every commit of an interaction / cell-veto handler "
        "each unit of the in-state its candidate was computed from has the same velocity and lies on the same line in "
        "the global state (exact rationals)",
        jobs=None if replay_jobs else hist.standard_jobs(ctx) + [hist.deactivated_untrashed_job()],
        replay_jobs=replay_jobs, static_obligations=wiring.static_obligations, coq_legs=ctx.n(60, 300), prebuilt=True)


def replay(ctx, path):
    run(ctx, replay_jobs=hist.replay_payloads(path))
