"""C18 — the alias table selects cells exactly in proportion to their rates; cell-veto glue
(DESIGN.md section 5, C18).

Streams through the real class jellyfysh.event_handler.walker.Walker (random.choice / random.uniform replaced):
  X  exact numbers (fractions.Fraction behind a duck-typed wrapper), arbitrary sizes 1..14: table (row order
     included), total, mean and every sample compared exactly with the Q model inside Coq;
  D  dyadic float vectors of power-of-two size (every float operation exact): compared exactly;
  G  generic double vectors: rows compared in order with tolerance 2^-40 * mean unless the exact run has a near
     tie (then a float run may legitimately pair items differently: counted, decided by the oracle alone);
     samples compared through the model's sample function on the implementation's own table, away from
     the row's break point;
  E  edge stream: empty vector, all-zero vector (ZeroDivisionError), negative rate (AssertionError), one cell.
Oracle (no Coq model): Fraction recomputation, from the implementation's table, of every cell's total share,
row masses, total, mean, and the exact integral over (row, u) of the implementation's sample_cell.
Finding F5 (uniform(0, mean) == 0.0 selects a zero-rate cell) is probed in every run.
Handler glue: see glue_jobs / drivers/c18_cellveto.py.
"""
import json
import math
import os
from fractions import Fraction as Fr

import common as C
from common import f2b, b2f

HEADER = ("From Coq Require Import QArith ZArith.\n"
          "Require Import JF.Model.Lifting JF.Model.Walker JF.Model.WalkerCases.\nOpen Scope Q_scope.")
TOL = Fr(1, 2 ** 40)


def enc(mode, v):
    if mode == "X":
        v = Fr(v)
        return [v.numerator, v.denominator]
    return f2b(v)


def decq(mode, v):
    if v is None:
        return None
    return Fr(int(v[0]), int(v[1])) if mode == "X" else Fr(b2f(v))


# ----------------------------------------------------------------------------------------------
def gen_rates_x(rng):
    n = rng.choice([1, 2, 2, 3, 3, 4, 5, 6, 7, 8, 9, 10, 12, 14])
    k = rng.random()
    if k < 0.12:        # equal rates (all equal to the mean)
        v = Fr(rng.randrange(1, 50), rng.choice([1, 3, 7, 10]))
        rates = [v] * n
    elif k < 0.3:       # widely differing magnitudes
        rates = [Fr(rng.randrange(0, 1000), 10 ** rng.randrange(0, 12)) * 10 ** rng.randrange(0, 9) for _ in range(n)]
    elif k < 0.45:      # some exactly equal to the mean: integers with a planted mean
        rates = [Fr(rng.randrange(0, 9)) for _ in range(n)]
        m = sum(rates) / n
        for _ in range(rng.randrange(0, 3)):
            i, j = rng.randrange(n), rng.randrange(n)
            d = rates[i] - m
            if i != j and rates[j] + d >= 0:
                rates[j] += d
                rates[i] = m
    else:
        rates = [Fr(rng.randrange(0, 200), rng.choice([1, 2, 3, 7, 10, 16, 1000])) for _ in range(n)]
    for i in range(n):
        if rng.random() < 0.15:
            rates[i] = Fr(0)
    if sum(rates) == 0:
        rates[rng.randrange(n)] = Fr(rng.randrange(1, 9), 3)
    return rates


def gen_rates_d(rng):
    n = rng.choice([1, 2, 4, 8, 16])
    e = rng.randrange(0, 8)
    rates = [0 if rng.random() < 0.15 else rng.randrange(0, 1024) for _ in range(n)]
    if rng.random() < 0.2:
        rates = [rates[0]] * n
    if rng.random() < 0.3 and n >= 4:      # plant items equal to the mean (n * mean = sum)
        s = sum(rates)
        r = s % n
        rates[0] += (n - r) % n
        m = sum(rates) // n
        i, j = rng.sample(range(n), 2)
        d = rates[i] - m
        if rates[j] + d >= 0:
            rates[j] += d
            rates[i] = m
    if sum(rates) == 0:
        rates[rng.randrange(n)] = 8
    return [v / 2.0 ** e for v in rates]


def gen_rates_g(rng):
    n = rng.randrange(1, 33)
    k = rng.random()
    if k < 0.1:
        rates = [rng.random()] * n
    elif k < 0.3:
        rates = [rng.random() * 10.0 ** rng.randrange(-12, 12) for _ in range(n)]
    else:
        sc = 10.0 ** rng.randrange(-6, 7)
        rates = [rng.random() * sc for _ in range(n)]
    for i in range(n):
        if rng.random() < 0.12:
            rates[i] = 0.0
    if not any(r > 0 for r in rates):
        rates[0] = 1.5
    return rates


class Job(object):
    def __init__(self, stream, mode, rates, kind="valid"):
        self.stream, self.mode, self.rates, self.kind = stream, mode, rates, kind
        self.rates_fr = [Fr(r) for r in rates]
        self.samples = []      # [row, u] raw
        self.tags = []         # ("pt"|"mid"|"rnd", row, k)
        self.res = None

    def payload(self):
        return {"mode": self.mode, "rates": [enc(self.mode, r) for r in self.rates],
                "samples": [[r, enc(self.mode, u)] for r, u in self.samples]}

    def replay(self):
        d = self.payload()
        d.update({"stream": self.stream, "kind": self.kind})
        return d

    def table(self):
        """the implementation's table with exact rationals: list of rows, row = [(id, Fraction), ...]"""
        return [[(i, decq(self.mode, r)) for i, r in row] for row in self.res["table"]]


def edge_jobs(rng):
    jobs = [Job("E", "X", [], "empty"), Job("E", "F", [], "empty"),
            Job("E", "X", [Fr(0)] * 3, "all-zero"), Job("E", "F", [0.0, 0.0], "all-zero"),
            Job("E", "X", [Fr(1), Fr(-1, 3), Fr(2)], "negative"), Job("E", "F", [1.0, -0.5], "negative"),
            Job("E", "X", [Fr(-1)], "negative"), Job("E", "X", [Fr(5, 7)], "single"), Job("E", "F", [0.3], "single")]
    return jobs


def f5_probe_jobs():
    a = Job("P", "F", [0.0, 1.0], "f5-probe")
    b = Job("P", "X", [Fr(0), Fr(1)], "f5-probe")
    return [a, b]


def run_impl(ctx, jobs):
    chunks = [jobs[i:i + 60] for i in range(0, len(jobs), 60)]
    outs = C.run_driver_parallel(ctx, "c18_walker", [{"jobs": [j.payload() for j in ch]} for ch in chunks])
    k = 0
    for o in outs:
        for r in o["out"]:
            jobs[k].res = r
            k += 1


def plan_samples(rng, job):
    """second round: choose the draws from the implementation's table"""
    if "exc" in job.res:
        return
    tab = job.table()
    mean = decq(job.mode, job.res["mean"])
    n = len(tab)
    for ri, row in enumerate(tab):
        if job.stream in ("X", "P"):
            cands = set()
            for _, r in row:
                if mean != 0:
                    cands |= {r / mean, 1 - r / mean}
            pts = sorted({x for x in cands if 0 < x < 1} | {Fr(0), Fr(1)})
            for k, x in enumerate(pts):
                job.samples.append([ri, x])
                job.tags.append(("pt", ri, k))
            for k in range(len(pts) - 1):
                job.samples.append([ri, (pts[k] + pts[k + 1]) / 2])
                job.tags.append(("mid", ri, k))
        elif job.stream == "D":
            us = {0.0, 1.0, rng.randrange(1, 64) / 64.0, rng.randrange(1, 64) / 64.0}
            b = row[0][1] / mean
            if b.denominator & (b.denominator - 1) == 0 and b.denominator <= 2 ** 20:
                us.add(float(b))             # the break point is an exactly representable draw
            for u in sorted(us):
                # u * mean must be exact: keep draws whose product has few bits
                if (Fr(u) * mean).denominator <= 2 ** 40:
                    job.samples.append([ri, u])
                    job.tags.append(("rnd", ri, 0))
        else:
            for u in (0.0, rng.random(), rng.random()):
                job.samples.append([ri, u])
                job.tags.append(("rnd", ri, 0))
    # out-of-range row index (random.choice never produces it; the model must agree on IndexError)
    if job.stream == "X" and rng.random() < 0.1:
        job.samples.append([n, Fr(1, 2)])
        job.tags.append(("rnd", n, 0))


def oracle_job(job, stats):
    """C18 stated on the implementation's outputs with exact rationals.  -> (failures, f5 sample indices)"""
    fails, f5 = [], []
    rates = job.rates_fr
    n = len(rates)
    if job.kind in ("empty", "all-zero", "negative"):
        want = "AssertionError" if job.kind == "negative" and n > 0 else "ZeroDivisionError"
        if job.res.get("exc") != want:
            fails.append((None, "constructor on a %s vector: expected %s, got %r" % (job.kind, want, job.res.get("exc") or "a table")))
        return fails, f5
    if "exc" in job.res:
        return [(None, "constructor raised %s on non-negative rates with positive total" % job.res["exc"])], f5
    exact = job.stream != "G"
    tab = job.table()
    total, mean = decq(job.mode, job.res["total"]), decq(job.mode, job.res["mean"])
    S = sum(rates)

    def close(a, b, scale):
        return a == b if exact else abs(a - b) <= TOL * scale
    if not close(total, S, S):
        fails.append((None, "total_rate %s is not the sum of the rates %s" % (total, S)))
    if not close(mean * n, total, S):
        fails.append((None, "mean rate %s is not total / n" % mean))
    if len(tab) != n:
        fails.append((None, "table has %d rows for %d cells" % (len(tab), n)))
    share = [Fr(0)] * n
    for ri, row in enumerate(tab):
        if not (1 <= len(row) <= 2) or any(not (0 <= i < n) for i, _ in row):
            fails.append((None, "malformed row %d: %r" % (ri, row)))
            return fails, f5
        if not close(sum(r for _, r in row), mean, mean):
            fails.append((None, "row %d has mass %s, mean is %s" % (ri, sum(r for _, r in row), mean)))
        if any(r < 0 for _, r in row):
            fails.append((None, "row %d has a negative share" % ri))
        for i, r in row:
            share[i] += r
    for i in range(n):
        if not close(share[i], rates[i], rates[i] + mean):
            fails.append((None, "cell %d: shares over all rows add up to %s, its rate is %s" % (i, share[i], rates[i])))
            break
        if rates[i] == 0 and share[i] != 0:
            fails.append((None, "zero-rate cell %d has a positive share %s" % (i, share[i])))
    # samples
    integ = {}
    for si, ((ri, u), tag, (sel, drawn)) in enumerate(zip(job.samples, job.tags, job.res["samples"])):
        u = Fr(u)
        if ri >= len(tab):
            continue
        if isinstance(sel, list):
            if 0 <= u <= 1:
                fails.append((si, "sample_cell raised %s for row %d, u = %s" % (sel[1], ri, u)))
            continue
        if sel not in [i for i, _ in tab[ri]]:
            fails.append((si, "sample_cell returned %r which is not in the chosen row %d" % (sel, ri)))
            continue
        if rates[sel] == 0:
            if decq(job.mode, drawn) == 0:
                f5.append(si)                       # finding F5: the uniform draw is exactly 0.0
            else:
                fails.append((si, "zero-rate cell %d selected (row %d, u = %s, uniform returned %s)"
                              % (sel, ri, u, decq(job.mode, drawn))))
        if tag[0] in ("pt", "mid"):
            integ.setdefault(ri, {"pt": {}, "mid": {}})[tag[0]][tag[2]] = (u, sel)
    if job.stream == "X" and not fails and integ:
        prob = [Fr(0)] * n
        for ri, d in integ.items():
            pts = [d["pt"][k][0] for k in range(len(d["pt"]))]
            for k in range(len(pts) - 1):
                prob[d["mid"][k][1]] += (pts[k + 1] - pts[k]) / n
            stats["pieces"] += len(pts) - 1
        for i in range(n):
            if prob[i] != rates[i] / S:
                fails.append((None, "cell %d is sampled with probability %s over (row, u), rate/total is %s"
                              % (i, prob[i], rates[i] / S)))
                break
        stats["integrals"] += 1
    return fails, f5


# ----------------------------------------------------------------------------------------------
def coq_item(i, r):
    return "(mkW %d %s)" % (i, C.coq_q(r))


def coq_table(tab):
    rows = []
    for row in tab:
        if len(row) == 2:
            rows.append("RPair %s %s" % (coq_item(*row[0]), coq_item(*row[1])))
        elif len(row) == 1:
            rows.append("RSingle %s" % coq_item(*row[0]))
        else:
            rows.append("RSingle (mkW 999999 0)")
    return C.coq_list(rows)


def coq_terms(job, stats):
    terms = []
    rq = C.coq_list([C.coq_q(r) for r in job.rates_fr])
    if "exc" in job.res:
        e = {"ZeroDivisionError": "XZeroDivision", "AssertionError": "XAssertionError"}.get(job.res["exc"])
        terms.append(("WBuild %s %s" % (rq, e or "(XTable 0 0 [])"), "build"))
        return terms
    tab = job.table()
    total, mean = decq(job.mode, job.res["total"]), decq(job.mode, job.res["mean"])
    if job.stream == "G":
        terms.append(("WBuildApprox %s %s %s %s %s" % (rq, C.coq_q(TOL * mean), C.coq_q(total), C.coq_q(mean),
                                                       coq_table(tab)), "approx"))
    else:
        terms.append(("WBuild %s (XTable %s %s %s)" % (rq, C.coq_q(total), C.coq_q(mean), coq_table(tab)), "build"))
    draws = []
    for (ri, u), (sel, drawn) in zip(job.samples, job.res["samples"]):
        u = Fr(u)
        if job.stream == "G" and ri < len(tab):
            if abs(u * mean - tab[ri][0][1]) <= TOL * mean:
                stats["g_near_breakpoint"] += 1
                continue
        e = "SIndexError" if isinstance(sel, list) and sel[1] == "IndexError" else (
            "(SOk %d)" % sel if isinstance(sel, int) else "(SOk 999999)")
        draws.append("(%d%%nat, %s, %s)" % (ri, C.coq_q(u), e))
    if draws:
        terms.append(("WSamples %s %s %s" % (coq_table(tab), C.coq_q(mean), C.coq_list(draws)), "samples"))
        stats["draws_to_coq"] += len(draws)
    return terms


def run(ctx, replay_jobs=None, replay_glue=None):
    C.build_scratch(ctx)
    rng = ctx.rng
    broken = []
    ok, out, nthm = C.check_props(ctx)
    if not ok:
        broken.append("Props/C18.v does not check: " + out[-800:])
    stats = {"pieces": 0, "integrals": 0, "g_near_breakpoint": 0, "draws_to_coq": 0}
    if replay_jobs is not None:
        jobs = replay_jobs
    elif replay_glue is not None:
        jobs = f5_probe_jobs()
    else:
        jobs = load_corpus() + f5_probe_jobs() + edge_jobs(rng)
        jobs += [Job("X", "X", gen_rates_x(rng)) for _ in range(ctx.n(1400, 10000))]
        jobs += [Job("D", "F", gen_rates_d(rng)) for _ in range(ctx.n(800, 6000))]
        jobs += [Job("G", "F", gen_rates_g(rng)) for _ in range(ctx.n(640, 4500))]
    preset = [j for j in jobs if j.samples]
    run_impl(ctx, jobs)                     # round 1: tables
    for j in jobs:
        if not j.samples:
            plan_samples(rng, j)
    run_impl(ctx, jobs)                     # round 2: same construction again + the planned draws
    fails, f5 = [], []
    for ji, job in enumerate(jobs):
        f, k = oracle_job(job, stats)
        fails += [(ji, si, m) for si, m in f]
        f5 += [(ji, si) for si in k]
    terms, owners, kinds = [], [], []
    for ji, job in enumerate(jobs):
        for t, kind in coq_terms(job, stats):
            terms.append(t)
            owners.append(ji)
            kinds.append(kind)
    neval, bad, nfiles, nok, err = C.eval_cases(ctx, "c18", HEADER, terms, "check_wcase", "wcase", per_file=60)
    if err:
        broken.append("correspondence case files did not evaluate: " + err[-800:])
    approx = [i for i, k in enumerate(kinds) if k == "approx"]
    unstable = []
    if approx:
        _, ub, _, _, err2 = C.eval_cases(ctx, "c18s", HEADER, [terms[i] for i in approx], "wcase_stable", "wcase",
                                         per_file=40)
        if err2:
            broken.append("stability case files did not evaluate: " + err2[-500:])
        unstable = [approx[i] for i in ub]
    mism = [(owners[i], kinds[i]) for i in bad]

    glue = run_glue(ctx, rng, replay_glue) if replay_jobs is None else None
    if glue and glue["fails"]:
        fails += [("glue", g, m) for g, m in glue["fails"]]
    if glue and glue["coq_err"]:
        broken.append("cell-veto glue case files did not evaluate: " + glue["coq_err"][-600:])

    gf5 = glue["f5"] if glue else []
    if f5 or gf5:
        if any(k["id"] == "F5" for k in C.known_open("C18")):
            msg = "boundary draw random.uniform(0, mean) == 0.0 selects a zero-rate cell: "
            if f5:
                ji, si = f5[0]
                msg += ("%d Walker.sample_cell draws, e.g. rates %s row %d u=%s -> cell %s (rate 0); "
                        % (len(f5), [str(r) for r in jobs[ji].rates], jobs[ji].samples[si][0],
                           jobs[ji].samples[si][1], jobs[ji].res["samples"][si][0]))
            msg += ("%d send_event_time calls of the cell-veto handler then fail  assert bounding_event_rate > 0"
                    % len(gf5))
            C.known(ctx, "F5", msg)
        elif f5:
            ji, si = f5[0]
            fails.insert(0, (ji, si, "uniform draw 0 selects a zero-rate cell (finding F5 is not listed as open)"))
        else:
            fails.insert(0, ("glue", gf5[0], "send_event_time asserts after a 0.0 draw (F5 not listed as open)"))
    if fails:
        ji, si, m = fails[0]
        if ji == "glue":
            C.violation(ctx, "oracle", {"kind": "c18-glue", "case": si, "message": m, "n_failing": len(fails)},
                        "C18 (cell-veto glue) fails on the implementation: " + m)
        else:
            d = jobs[ji].replay()
            if si is not None:
                d["samples"] = [d["samples"][si]]
            C.violation(ctx, "oracle", {"kind": "c18-jobs", "jobs": [d], "message": m, "n_failing": len(fails),
                                        "impl_result": jobs[ji].res if si is None else jobs[ji].res["samples"][si]},
                        "C18 fails on the implementation: " + m)
    elif glue and glue["mism"]:
        C.violation(ctx, "correspondence", {
            "kind": "c18-glue", "case": glue["mism"][0],
            "message": "cell-veto glue model (coq/Model/CellVeto.v) and implementation disagree on %d grid(s); the "
                       "Python oracle found no failing input; correspondence JF.Model.CellVetoCases.check_cvcase no "
                       "longer checks (theorems event_time_not_before_stamp / target_cell_is_translate are no longer "
                       "tied to the code)" % len(glue["mism"])},
            "cell-veto glue model and implementation disagree", nofail=True)
    elif mism:
        ji, kind = mism[0]
        C.violation(ctx, "correspondence", {
            "kind": "c18-jobs", "jobs": [jobs[ji].replay()],
            "message": "Walker model and implementation disagree on %d case(s) (first: %s of rates %s); the exact "
                       "oracle (shares, masses, total, sampling integral) found no failing input; correspondence "
                       "JF.Model.WalkerCases.check_wcase no longer checks, so alias_exact of Props/C18.v is no longer "
                       "tied to the code" % (len(mism), kind, [str(r) for r in jobs[ji].rates])},
            "Walker model and implementation disagree", nofail=True)
    elif broken:
        C.violation(ctx, "obligation", {"kind": "obligation", "broken": broken}, broken[0][:300], nofail=True)

    dist, sizes = {}, {}
    for j in jobs:
        dist[j.stream + ":" + j.kind] = dist.get(j.stream + ":" + j.kind, 0) + 1
        sizes[len(j.rates)] = sizes.get(len(j.rates), 0) + 1
    C.write_evidence(ctx, {
        "evaluations": len(jobs) + sum(len(j.samples) for j in jobs) + (glue["n"] if glue else 0),
        "distinct_nontrivial": len({(j.stream, tuple(j.rates)) for j in jobs if len(j.rates) >= 2}),
        "rule": "distinct (stream, rate vector) pairs with at least two cells; every row of every table is sampled at "
                "u = 0, u = 1, at its break point and on both sides of it",
        "samples": [{"stream": j.stream, "rates": [str(r) for r in j.rates], "impl_table": j.res.get("table"),
                     "impl_exc": j.res.get("exc")} for j in jobs[::max(1, len(jobs) // 5)][:5]],
        "input_distribution": {"vectors_by_stream_and_kind": dist, "vector_sizes": sizes,
                               "sample_draws_sent_to_coq": stats["draws_to_coq"], "coq_case_terms": len(terms),
                               "generic_vectors_decided_by_oracle_only(near tie in exact run)": len(unstable),
                               "generic_samples_skipped_near_breakpoint(margin 2^-40 * mean)": stats["g_near_breakpoint"],
                               "sampling_integrals": stats["integrals"], "constant_pieces_integrated": stats["pieces"],
                               "f5_class_samples": len(f5),
                               "handler_glue": glue["summary"] if glue else "not run in table replay"},
        "model_vs_impl_mismatches": len(mism),
        "oracle_failures": len(fails),
        "traces_validated_against_impl": stats["draws_to_coq"] + sum(1 for k in kinds if k != "samples"),
        "coq_case_terms_evaluated": neval,
        "case_files": nfiles, "case_files_ok": nok,
        "explanation": "Props/C18.v re-checked (%d theorems incl. alias_exact for every vector length); exact "
                       "correspondence of Model/Walker.v (two stacks, >, < tests, row order, final asserts) with the "
                       "real Walker class evaluated in Coq on exact-rational, dyadic-float and edge vectors, with "
                       "tolerance on generic doubles; Fraction oracle on the implementation's own table and exact "
                       "integration of sample_cell over both draws. %s" % (nthm, glue["explanation"] if glue else ""),
        "trusted_base": TRUSTED,
    }, ASSUME)


def run_glue(ctx, rng, replay_glue=None):
    """cell-veto handler glue: see drivers/c18_cellveto.py (separate so that the table part does not depend on it)"""
    try:
        import c18_glue
    except ImportError:
        return {"fails": [], "f5": [], "n": 0, "summary": "SKIPPED (glue module absent)",
                "explanation": "Handler glue (send_event_time) NOT driven: skipped."}
    return c18_glue.run(ctx, rng, replay_glue)


TRUSTED = [
    "hand-written model coq/Model/Walker.v (walker.py transcribed over Q; stacks as lists, fuel = n + 1)",
    "coq/Base/QInterval.v (probabilities as lengths of half-open rational intervals)",
    "hand-written binary64 model coq/Model/CellVeto.v of the handler glue (Flocq floats via Base/F64.v, "
    "Model/Time.time_add, Model/CellIndex.translate; Python 3.12 sum() = Neumaier compensated summation transcribed "
    "from CPython's builtin_sum); theorems event_time_not_before_stamp / target_cell_is_translate use the stdlib "
    "real-number axioms through Flocq (listed by Print Assumptions)",
    "harness/c18.py + drivers/c18_walker.py: exact-number wrapper around fractions.Fraction, replaced "
    "random.choice(seq) = seq[row] and random.uniform(a, b) = a + (b - a) * u, float bit (de)serialisation",
]
ASSUME = [
    "random.choice picks every row with probability 1/len(table) and random.uniform(0, mean) = mean * u with u "
    "uniform: uniformity of the two draws is assumed, only the map draws -> cell is verified",
    "cells are identified by their position in the input sequence (distinct items)",
    "the tie of the model to the code is differential, not a semantics of Python",
    "generic doubles: a float run may pair items in another order when an intermediate rate is within rounding of "
    "the mean; such vectors are decided by the Fraction oracle (tolerance 2^-40) and not by the model comparison",
]


def load_corpus():
    p = os.path.join(C.VERIF, "corpus", "C18", "jobs.json")
    if not os.path.exists(p):
        return []
    return [job_from_replay(d) for d in json.load(open(p))]


def job_from_replay(d):
    mode = d["mode"]
    rates = [Fr(int(r[0]), int(r[1])) if mode == "X" else b2f(r) for r in d["rates"]]
    j = Job(d.get("stream", "X"), mode, rates, d.get("kind", "valid"))
    for row, u in d.get("samples", []):
        j.samples.append([row, Fr(int(u[0]), int(u[1])) if mode == "X" else b2f(u)])
        j.tags.append(("rnd", row, 0))
    return j


def replay(ctx, path):
    data = json.load(open(path))
    if data.get("kind") == "c18-jobs":
        jobs = []
        for d in data["jobs"]:
            jobs.append(job_from_replay(d))
            if d.get("samples"):        # also the full planned draw set (integral) for the same vector
                full = dict(d)
                full["samples"] = []
                jobs.append(job_from_replay(full))
        run(ctx, replay_jobs=jobs)
    elif data.get("kind") == "c18-glue":
        run(ctx, replay_glue=data["case"])
    else:
        print("replay file holds no concrete input (%s)" % data.get("kind"))
        run(ctx, replay_jobs=f5_probe_jobs())
